import SJ.Proofs.GoObjectLemmas
import SJ.Model.SerializeEnc
set_option linter.unusedVariables false
set_option linter.unusedSimpArgs false
/-
GoSerializeLemmas — vocabulary and piece-wise lemmas for `GoSerialize.lean` (see there for the statements).

* `binary.PutUvarint`: `uvarintBytes_eq_putUvarint`, `uvarint_len_8` (at most eight bytes iff below 2^56).
* the assembly block `goSerialize_assemble`: its tree cut into `putS`/`emitS` groups (`asm_body_eq`, by `rfl`), `put_step`,
  `emit_step`, the read-only inputs `ARO`, `count_phase` (the eight `PutUvarint`s of `varInts`), `asmOut`.
* `Serializer.indexString`: the frame `isEnv`, `indexString_exec_hit/_miss/_toolong`, `callFun_is`, `indexString_sim`.
* the model's loop one turn at a time: `serSwitch`, `serBody`, `serLoop_succ`.
* the tape loop `goSerialize_loop`: its tree (`loop_body_eq`, `loopBody_eq`, `case0_eq … case7_eq`, `sw_select`), the
  invariants `Doc`/`TagI`/`ValI`/`StrI`/`LInv`, `push_exec`, one lemma per `switch` clause (`case_*_sim`) against `SwPost`.
* `strAt`, `nextOff`, `hashTraceFrom`, `hashTrace`: the answers `memHash` gives; `NoMaxLenString`.
-/
namespace SJ.GoSerialize
open SJ SJ.GoSem SJ.Generated SJ.GoIter SJ.GoObject

/-! ## `binary.PutUvarint` -/

theorem uvarintBytes_eq_putUvarint (x : Nat) : uvarintBytes x = putUvarint x := by
  induction x using Nat.strongRecOn with
  | _ x ih =>
    rw [uvarintBytes, putUvarint]
    by_cases h : x < 128
    · simp [h]
    · simp only [h, dite_false]
      rw [ih (x / 128) (by omega)]

theorem uvarint_len_le (k : Nat) : ∀ x, (uvarintBytes x).length ≤ k + 1 ↔ x < 128 ^ (k + 1) := by
  induction k with
  | zero =>
    intro x
    rw [uvarintBytes]
    by_cases h : x < 128
    · simp [h]
    · simp only [h, dite_false, List.length_cons]
      have : 0 < (uvarintBytes (x / 128)).length := by
        rw [uvarintBytes]; split <;> simp
      constructor
      · intro hh; omega
      · intro hf; exact hf.elim
  | succ k ih =>
    intro x
    rw [uvarintBytes]
    by_cases h : x < 128
    · simp only [h, dite_true, List.length_cons, List.length_nil]
      have : 128 ≤ 128 ^ (k + 1 + 1) := by
        calc 128 = 128 ^ 1 := by simp
          _ ≤ 128 ^ (k+1+1) := Nat.pow_le_pow_right (by omega) (by omega)
      omega
    · simp only [h, dite_false, List.length_cons]
      have := ih (x / 128)
      rw [Nat.div_lt_iff_lt_mul (by omega)] at this
      rw [Nat.pow_succ 128 (k+1)]
      omega

theorem uvarint_len_8 (x : Nat) : (uvarintBytes x).length ≤ 8 ↔ x < 2 ^ 56 := by
  have := uvarint_len_le 7 x
  have e : (128 : Nat) ^ 8 = 2 ^ 56 := by decide
  rw [e] at this
  exact this

theorem uvarint_len_pos (x : Nat) : 0 < (uvarintBytes x).length := by
  rw [uvarintBytes]; split <;> simp


def putTmp (tmp : Bytes) (x : Nat) : Bytes :=
  (uvarintBytes x).toArray ++ tmp.extract (uvarintBytes x).length tmp.size

theorem putTmp_size (tmp : Bytes) (x : Nat) (hs : tmp.size = 8) (hx : x < 2^56) : (putTmp tmp x).size = 8 := by
  have := (uvarint_len_8 x).mpr hx
  simp [putTmp, hs]; omega

theorem putTmp_extract (tmp : Bytes) (x : Nat) :
    (putTmp tmp x).extract 0 (uvarintBytes x).length = (uvarintBytes x).toArray := by
  simp [putTmp]

attribute [local simp] exec exec1 execCases evalE evalEs isOneOf binop convert ofE Env.get_set

theorem put_step (e : Env) (tape : Array UInt64) (fuel : Nat) (c cok : String) (a : Expr) (x : UInt64) (tmp : Bytes)
    (rest : List Stmt) (hc : (c == "_") = false) (hcok : (cok == "_") = false) (hne : c ≠ cok)
    (ha : evalE ⟨e, tape⟩ a = .val (.u64 x)) (ht : e.get "tmp" = some (.bytes tmp)) (hs : tmp.size = 8) :
    exec goFuns fuel (.extAssign ["tmp", c, cok] "PutUvarint" [.v "tmp", a] :: .ite (.not (.v cok)) [.panicS] [] :: rest)
      ⟨e, tape⟩ =
    if x.toNat < 2^56 then
      exec goFuns fuel rest ⟨((e.set "tmp" (.bytes (putTmp tmp x.toNat))).set c
        (.int (uvarintBytes x.toNat).length)).set cok (.bool true), tape⟩
    else .panic := by
  by_cases hx : x.toNat < 2^56
  · have hl := (uvarint_len_8 x.toNat).mpr hx
    simp [ha, ht, hs, extCall, hl, hx, assignTargets, hc, hcok, putTmp]
  · have hl : ¬ (uvarintBytes x.toNat).length ≤ 8 := fun h => hx ((uvarint_len_8 x.toNat).mp h)
    simp [ha, ht, hs, extCall, hl, hx, assignTargets, hc, hcok]

/-! ## the syntax tree of the assembly block -/

def putS (c cok : String) (a : Expr) : List Stmt :=
  [.extAssign ["tmp", c, cok] "PutUvarint" [.v "tmp", a], .ite (.not (.v cok)) [.panicS] []]

def emitS (c cok : String) (a : Expr) : List Stmt :=
  putS c cok a ++ [.assign "n" (.v c), .assign "dst" (.appendB (.v "dst") (.sliceB (.v "tmp") (.int 0) (.v "n")))]

def xMsg : Expr := .conv .u64 (.lenB (.v "s.sMsg"))
def xTagsC : Expr := .conv .u64 (.lenB (.v "s.tagsCompBuf"))
def xValsC : Expr := .conv .u64 (.lenB (.v "s.valuesCompBuf"))
def xStr : Expr := .conv .u64 (.lenB (.v "s.stringBuf"))
def xRawT : Expr := .conv .u64 (.v "rawTags")
def xRawV : Expr := .conv .u64 (.v "rawValues")
def xTape : Expr := .conv .u64 (.lenTape "pj")
def xTotal : Expr := .conv .u64 (.bin .add (.bin .add (.bin .add (.bin .add (.int 1) (.lenB (.v "s.sMsg"))) (.lenB (.v "s.tagsCompBuf"))) (.lenB (.v "s.valuesCompBuf"))) (.v "varInts"))
def varIntsS : Stmt := .assign "varInts" (.bin .add (.bin .add (.bin .add (.bin .add (.bin .add (.bin .add (.bin .add (.v "#c1") (.v "#c2")) (.v "#c3")) (.v "#c4")) (.v "#c5")) (.v "#c6")) (.v "#c7")) (.v "#c8"))
def appS (src : String) : Stmt := .assign "dst" (.appendB (.v "dst") (.v src))
def push0 : Stmt := .assign "dst" (.pushB (.v "dst") (.u8 0))

def countS : List Stmt :=
  putS "#c1" "#c1.ok" (.conv .u64 (.u64 0)) ++ putS "#c2" "#c2.ok" xMsg ++ putS "#c3" "#c3.ok" xRawT ++
  putS "#c4" "#c4.ok" xTagsC ++ putS "#c5" "#c5.ok" xRawV ++ putS "#c6" "#c6.ok" xValsC ++
  putS "#c7" "#c7.ok" xStr ++ putS "#c8" "#c8.ok" xTape

theorem asm_body_eq : goSerialize_assemble.body =
    .assign "dst" (.pushB (.v "dst") (.u8 3)) :: (countS ++ (varIntsS :: (emitS "#c9" "#c9.ok" xTotal ++
    (emitS "#c10" "#c10.ok" xTape ++ (push0 :: push0 :: (emitS "#c11" "#c11.ok" xStr ++ (emitS "#c12" "#c12.ok" xMsg ++
    (appS "s.sMsg" :: (emitS "#c13" "#c13.ok" xRawT ++ (emitS "#c14" "#c14.ok" xTagsC ++ (appS "s.tagsCompBuf" ::
    (emitS "#c15" "#c15.ok" xRawV ++ (emitS "#c16" "#c16.ok" xValsC ++ [appS "s.valuesCompBuf", .ret [.v "dst"]]))))))))))))) := rfl

/-! ## the assembly block: statement groups from an abstract store -/


/-- the store after `n = binary.PutUvarint(tmp[:], x); dst = append(dst, tmp[:n]...)` -/
def emitE (e : Env) (c cok : String) (tmp : Bytes) (x : Nat) (d : Bytes) : Env :=
  (((((e.set "tmp" (.bytes (putTmp tmp x))).set c (.int (uvarintBytes x).length)).set cok (.bool true)).set "n"
    (.int (uvarintBytes x).length)).set "dst" (.bytes (d ++ (uvarintBytes x).toArray)))

theorem emit_step (e : Env) (tape : Array UInt64) (fuel : Nat) (c cok : String) (a : Expr) (x : UInt64) (tmp d : Bytes)
    (rest : List Stmt) (hc : (c == "_") = false) (hcok : (cok == "_") = false) (hne : c ≠ cok)
    (hc1 : c ≠ "tmp") (hc2 : c ≠ "dst") (hk1 : cok ≠ "tmp") (hk2 : cok ≠ "dst") (hk3 : c ≠ "n") (hk4 : cok ≠ "n")
    (ha : evalE ⟨e, tape⟩ a = .val (.u64 x)) (ht : e.get "tmp" = some (.bytes tmp)) (hs : tmp.size = 8)
    (hd : e.get "dst" = some (.bytes d)) :
    exec goFuns fuel (emitS c cok a ++ rest) ⟨e, tape⟩ =
    if x.toNat < 2^56 then exec goFuns fuel rest ⟨emitE e c cok tmp x.toNat d, tape⟩ else .panic := by
  simp only [emitS, putS, List.cons_append, List.nil_append]
  rw [put_step e tape fuel c cok a x tmp _ hc hcok hne ha ht hs]
  by_cases hx : x.toNat < 2^56
  · rw [if_pos hx, if_pos hx]
    have hl := (uvarint_len_8 x.toNat).mpr hx
    have hsz := putTmp_size tmp x.toNat hs hx
    have hl' : ((uvarintBytes x.toNat).length : Int) ≤ 8 := by omega
    simp [hd, Ne.symm hne, Ne.symm hc1, Ne.symm hc2, Ne.symm hk1, Ne.symm hk2, hc1, hc2, hk1, hk2, hne, hsz, hl', putTmp_extract,
      emitE, hk3, hk4, Ne.symm hk3, Ne.symm hk4]
  · rw [if_neg hx, if_neg hx]

/-- the inputs of the assembly block that it only reads -/
structure ARO (e : Env) (n : Nat) (m t v sb : Bytes) (rt rv : Nat) : Prop where
  lim : e.get "pj.lim" = some (.int n)
  sMsg : e.get "s.sMsg" = some (.bytes m)
  tagsC : e.get "s.tagsCompBuf" = some (.bytes t)
  valsC : e.get "s.valuesCompBuf" = some (.bytes v)
  sbuf : e.get "s.stringBuf" = some (.bytes sb)
  rawT : e.get "rawTags" = some (.int rt)
  rawV : e.get "rawValues" = some (.int rv)

def aroKeys : List String := ["pj.lim", "s.sMsg", "s.tagsCompBuf", "s.valuesCompBuf", "s.stringBuf", "rawTags", "rawValues"]

theorem ARO.set {e : Env} {n : Nat} {m t v sb : Bytes} {rt rv : Nat} (h : ARO e n m t v sb rt rv) (k : String) (x : Val)
    (hk : k ∉ aroKeys) : ARO (e.set k x) n m t v sb rt rv := by
  simp only [aroKeys, List.mem_cons, List.not_mem_nil, or_false, not_or] at hk
  obtain ⟨k1, k2, k3, k4, k5, k6, k7⟩ := hk
  obtain ⟨h1, h2, h3, h4, h5, h6, h7⟩ := h
  constructor <;> simp [Env.get_set, *]

theorem ARO.emit {e : Env} {n : Nat} {m t v sb : Bytes} {rt rv : Nat} (h : ARO e n m t v sb rt rv) (c cok : String)
    (tmp : Bytes) (x : Nat) (d : Bytes) (hc : c ∉ aroKeys) (hcok : cok ∉ aroKeys) :
    ARO (emitE e c cok tmp x d) n m t v sb rt rv :=
  ((((h.set "tmp" _ (by decide)).set c _ hc).set cok _ hcok).set "n" _ (by decide)).set "dst" _ (by decide)

/-- the values the nine distinct arguments of `PutUvarint` evaluate to -/
theorem ARO.evals {e : Env} {n : Nat} {m t v sb : Bytes} {rt rv : Nat} (h : ARO e n m t v sb rt rv) (tape : Array UInt64) :
    evalE ⟨e, tape⟩ xMsg = .val (.u64 (UInt64.ofNat m.size)) ∧ evalE ⟨e, tape⟩ xTagsC = .val (.u64 (UInt64.ofNat t.size)) ∧
    evalE ⟨e, tape⟩ xValsC = .val (.u64 (UInt64.ofNat v.size)) ∧ evalE ⟨e, tape⟩ xStr = .val (.u64 (UInt64.ofNat sb.size)) ∧
    evalE ⟨e, tape⟩ xRawT = .val (.u64 (UInt64.ofNat rt)) ∧ evalE ⟨e, tape⟩ xRawV = .val (.u64 (UInt64.ofNat rv)) ∧
    evalE ⟨e, tape⟩ xTape = .val (.u64 (UInt64.ofNat n)) := by
  obtain ⟨h1, h2, h3, h4, h5, h6, h7⟩ := h
  simp [xMsg, xTagsC, xValsC, xStr, xRawT, xRawV, xTape, *, GoSet.ofInt_natCast]


theorem toNat_ofNat_lt (x : Nat) (h : x < 2^64) : (UInt64.ofNat x).toNat = x := by
  rw [UInt64.toNat_ofNat']; exact Nat.mod_eq_of_lt h

/-- one `binary.PutUvarint(tmp[:], x)` of the counting phase, from an abstract store -/
theorem put_stepI {e : Env} {n : Nat} {m t v sb : Bytes} {rt rv : Nat} (hA : ARO e n m t v sb rt rv)
    (tape : Array UInt64) (fuel : Nat) (c cok : String) (a : Expr) (x : Nat) (tmp : Bytes) (rest : List Stmt)
    (hc : (c == "_") = false) (hcok : (cok == "_") = false) (hne : c ≠ cok) (hc1 : c ≠ "tmp") (hk1 : cok ≠ "tmp")
    (hcA : c ∉ aroKeys) (hkA : cok ∉ aroKeys)
    (hx64 : x < 2^64) (ha : evalE ⟨e, tape⟩ a = .val (.u64 (UInt64.ofNat x)))
    (ht : e.get "tmp" = some (.bytes tmp)) (hs : tmp.size = 8) :
    (x < 2^56 → ∃ e' tmp', exec goFuns fuel (putS c cok a ++ rest) ⟨e, tape⟩ = exec goFuns fuel rest ⟨e', tape⟩ ∧
      ARO e' n m t v sb rt rv ∧ e'.get "tmp" = some (.bytes tmp') ∧ tmp'.size = 8 ∧
      e'.get c = some (.int (uvarintBytes x).length) ∧
      (∀ k, k ≠ "tmp" → k ≠ c → k ≠ cok → e'.get k = e.get k)) ∧
    (¬ x < 2^56 → exec goFuns fuel (putS c cok a ++ rest) ⟨e, tape⟩ = .panic) := by
  have hstep := put_step e tape fuel c cok a (UInt64.ofNat x) tmp rest hc hcok hne ha ht hs
  rw [toNat_ofNat_lt x hx64] at hstep
  simp only [putS, List.cons_append, List.nil_append]
  constructor
  · intro hx
    rw [if_pos hx] at hstep
    refine ⟨_, _, hstep, ((hA.set "tmp" _ (by decide)).set c _ hcA).set cok _ hkA, ?_, putTmp_size tmp x hs hx, ?_, ?_⟩
    · simp [hc1, hk1]
    · simp [Ne.symm hne, hne]
    · intro k k1 k2 k3
      simp [Ne.symm k1, Ne.symm k2, Ne.symm k3]
  · intro hx
    rw [if_neg hx] at hstep
    exact hstep


/-- every argument of the counting phase has an encoding of at most eight bytes -/
def CountFits (n ms ts vs sbs rt rv : Nat) : Prop :=
  ms < 2^56 ∧ rt < 2^56 ∧ ts < 2^56 ∧ rv < 2^56 ∧ vs < 2^56 ∧ sbs < 2^56 ∧ n < 2^56

/-- the sizes are Go `int`s -/
def AsmInts (n ms ts vs sbs rt rv : Nat) : Prop :=
  ms < 2^63 ∧ rt < 2^63 ∧ ts < 2^63 ∧ rv < 2^63 ∧ vs < 2^63 ∧ sbs < 2^63 ∧ n < 2^63

/-- `varInts := binary.PutUvarint(tmp[:], 0) + … + binary.PutUvarint(tmp[:], uint64(len(pj.Tape)))` -/
theorem count_phase {e : Env} {n : Nat} {m t v sb : Bytes} {rt rv : Nat} (hA0 : ARO e n m t v sb rt rv)
    (tape : Array UInt64) (fuel : Nat) (tmp0 : Bytes) (rest : List Stmt)
    (ht0 : e.get "tmp" = some (.bytes tmp0)) (hs0 : tmp0.size = 8) (hI : AsmInts n m.size t.size v.size sb.size rt rv) :
    (CountFits n m.size t.size v.size sb.size rt rv →
      ∃ e' tmp', exec goFuns fuel (countS ++ rest) ⟨e, tape⟩ = exec goFuns fuel rest ⟨e', tape⟩ ∧
        ARO e' n m t v sb rt rv ∧ e'.get "tmp" = some (.bytes tmp') ∧ tmp'.size = 8 ∧ e'.get "dst" = e.get "dst" ∧
        e'.get "#c1" = some (.int (uvarintBytes 0).length) ∧ e'.get "#c2" = some (.int (uvarintBytes m.size).length) ∧
        e'.get "#c3" = some (.int (uvarintBytes rt).length) ∧ e'.get "#c4" = some (.int (uvarintBytes t.size).length) ∧
        e'.get "#c5" = some (.int (uvarintBytes rv).length) ∧ e'.get "#c6" = some (.int (uvarintBytes v.size).length) ∧
        e'.get "#c7" = some (.int (uvarintBytes sb.size).length) ∧ e'.get "#c8" = some (.int (uvarintBytes n).length)) ∧
    (¬ CountFits n m.size t.size v.size sb.size rt rv → exec goFuns fuel (countS ++ rest) ⟨e, tape⟩ = .panic) := by
  obtain ⟨i2, i3, i4, i5, i6, i7, i8⟩ := hI
  have i1 : (0 : Nat) < 2^56 := by decide
  simp only [countS, List.append_assoc]
  have hd0 : e.get "dst" = e.get "dst" := rfl
  have P1 := put_stepI hA0 tape fuel "#c1" "#c1.ok" (.conv .u64 (.u64 0)) (0) tmp0 (putS "#c2" "#c2.ok" xMsg ++ (putS "#c3" "#c3.ok" xRawT ++ (putS "#c4" "#c4.ok" xTagsC ++ (putS "#c5" "#c5.ok" xRawV ++ (putS "#c6" "#c6.ok" xValsC ++ (putS "#c7" "#c7.ok" xStr ++ (putS "#c8" "#c8.ok" xTape ++ rest)))))))
    (by decide) (by decide) (by decide) (by decide) (by decide) (by decide) (by decide) (by omega)
    (by first | exact (hA0.evals tape).1 | exact (hA0.evals tape).2.1 | exact (hA0.evals tape).2.2.1 | exact (hA0.evals tape).2.2.2.1 | exact (hA0.evals tape).2.2.2.2.1 | exact (hA0.evals tape).2.2.2.2.2.1 | exact (hA0.evals tape).2.2.2.2.2.2 | simp) ht0 hs0
  have hx1 := i1
  obtain ⟨e1, tmp1, hex1, hA1, ht1, hs1, hc1, hk1⟩ := P1.1 hx1
  have hd1 := (hk1 "dst" (by decide) (by decide) (by decide)).trans hd0
  have g1_1 := hc1
  have P2 := put_stepI hA1 tape fuel "#c2" "#c2.ok" xMsg (m.size) tmp1 (putS "#c3" "#c3.ok" xRawT ++ (putS "#c4" "#c4.ok" xTagsC ++ (putS "#c5" "#c5.ok" xRawV ++ (putS "#c6" "#c6.ok" xValsC ++ (putS "#c7" "#c7.ok" xStr ++ (putS "#c8" "#c8.ok" xTape ++ rest))))))
    (by decide) (by decide) (by decide) (by decide) (by decide) (by decide) (by decide) (by omega)
    (by first | exact (hA1.evals tape).1 | exact (hA1.evals tape).2.1 | exact (hA1.evals tape).2.2.1 | exact (hA1.evals tape).2.2.2.1 | exact (hA1.evals tape).2.2.2.2.1 | exact (hA1.evals tape).2.2.2.2.2.1 | exact (hA1.evals tape).2.2.2.2.2.2 | simp) ht1 hs1
  by_cases hn2 : ¬ m.size < 2^56
  · have hx2 := hn2
    refine ⟨fun hf => absurd hf.1 hx2, fun _ => ?_⟩
    rw [hex1]
    exact P2.2 hx2
  have hx2 := Decidable.not_not.mp hn2
  obtain ⟨e2, tmp2, hex2, hA2, ht2, hs2, hc2, hk2⟩ := P2.1 hx2
  have hd2 := (hk2 "dst" (by decide) (by decide) (by decide)).trans hd1
  have g1_2 := g1_1; rw [← hk2 _ (by decide) (by decide) (by decide)] at g1_2
  have g2_2 := hc2
  have P3 := put_stepI hA2 tape fuel "#c3" "#c3.ok" xRawT (rt) tmp2 (putS "#c4" "#c4.ok" xTagsC ++ (putS "#c5" "#c5.ok" xRawV ++ (putS "#c6" "#c6.ok" xValsC ++ (putS "#c7" "#c7.ok" xStr ++ (putS "#c8" "#c8.ok" xTape ++ rest)))))
    (by decide) (by decide) (by decide) (by decide) (by decide) (by decide) (by decide) (by omega)
    (by first | exact (hA2.evals tape).1 | exact (hA2.evals tape).2.1 | exact (hA2.evals tape).2.2.1 | exact (hA2.evals tape).2.2.2.1 | exact (hA2.evals tape).2.2.2.2.1 | exact (hA2.evals tape).2.2.2.2.2.1 | exact (hA2.evals tape).2.2.2.2.2.2 | simp) ht2 hs2
  by_cases hn3 : ¬ rt < 2^56
  · have hx3 := hn3
    refine ⟨fun hf => absurd hf.2.1 hx3, fun _ => ?_⟩
    rw [hex1, hex2]
    exact P3.2 hx3
  have hx3 := Decidable.not_not.mp hn3
  obtain ⟨e3, tmp3, hex3, hA3, ht3, hs3, hc3, hk3⟩ := P3.1 hx3
  have hd3 := (hk3 "dst" (by decide) (by decide) (by decide)).trans hd2
  have g1_3 := g1_2; rw [← hk3 _ (by decide) (by decide) (by decide)] at g1_3
  have g2_3 := g2_2; rw [← hk3 _ (by decide) (by decide) (by decide)] at g2_3
  have g3_3 := hc3
  have P4 := put_stepI hA3 tape fuel "#c4" "#c4.ok" xTagsC (t.size) tmp3 (putS "#c5" "#c5.ok" xRawV ++ (putS "#c6" "#c6.ok" xValsC ++ (putS "#c7" "#c7.ok" xStr ++ (putS "#c8" "#c8.ok" xTape ++ rest))))
    (by decide) (by decide) (by decide) (by decide) (by decide) (by decide) (by decide) (by omega)
    (by first | exact (hA3.evals tape).1 | exact (hA3.evals tape).2.1 | exact (hA3.evals tape).2.2.1 | exact (hA3.evals tape).2.2.2.1 | exact (hA3.evals tape).2.2.2.2.1 | exact (hA3.evals tape).2.2.2.2.2.1 | exact (hA3.evals tape).2.2.2.2.2.2 | simp) ht3 hs3
  by_cases hn4 : ¬ t.size < 2^56
  · have hx4 := hn4
    refine ⟨fun hf => absurd hf.2.2.1 hx4, fun _ => ?_⟩
    rw [hex1, hex2, hex3]
    exact P4.2 hx4
  have hx4 := Decidable.not_not.mp hn4
  obtain ⟨e4, tmp4, hex4, hA4, ht4, hs4, hc4, hk4⟩ := P4.1 hx4
  have hd4 := (hk4 "dst" (by decide) (by decide) (by decide)).trans hd3
  have g1_4 := g1_3; rw [← hk4 _ (by decide) (by decide) (by decide)] at g1_4
  have g2_4 := g2_3; rw [← hk4 _ (by decide) (by decide) (by decide)] at g2_4
  have g3_4 := g3_3; rw [← hk4 _ (by decide) (by decide) (by decide)] at g3_4
  have g4_4 := hc4
  have P5 := put_stepI hA4 tape fuel "#c5" "#c5.ok" xRawV (rv) tmp4 (putS "#c6" "#c6.ok" xValsC ++ (putS "#c7" "#c7.ok" xStr ++ (putS "#c8" "#c8.ok" xTape ++ rest)))
    (by decide) (by decide) (by decide) (by decide) (by decide) (by decide) (by decide) (by omega)
    (by first | exact (hA4.evals tape).1 | exact (hA4.evals tape).2.1 | exact (hA4.evals tape).2.2.1 | exact (hA4.evals tape).2.2.2.1 | exact (hA4.evals tape).2.2.2.2.1 | exact (hA4.evals tape).2.2.2.2.2.1 | exact (hA4.evals tape).2.2.2.2.2.2 | simp) ht4 hs4
  by_cases hn5 : ¬ rv < 2^56
  · have hx5 := hn5
    refine ⟨fun hf => absurd hf.2.2.2.1 hx5, fun _ => ?_⟩
    rw [hex1, hex2, hex3, hex4]
    exact P5.2 hx5
  have hx5 := Decidable.not_not.mp hn5
  obtain ⟨e5, tmp5, hex5, hA5, ht5, hs5, hc5, hk5⟩ := P5.1 hx5
  have hd5 := (hk5 "dst" (by decide) (by decide) (by decide)).trans hd4
  have g1_5 := g1_4; rw [← hk5 _ (by decide) (by decide) (by decide)] at g1_5
  have g2_5 := g2_4; rw [← hk5 _ (by decide) (by decide) (by decide)] at g2_5
  have g3_5 := g3_4; rw [← hk5 _ (by decide) (by decide) (by decide)] at g3_5
  have g4_5 := g4_4; rw [← hk5 _ (by decide) (by decide) (by decide)] at g4_5
  have g5_5 := hc5
  have P6 := put_stepI hA5 tape fuel "#c6" "#c6.ok" xValsC (v.size) tmp5 (putS "#c7" "#c7.ok" xStr ++ (putS "#c8" "#c8.ok" xTape ++ rest))
    (by decide) (by decide) (by decide) (by decide) (by decide) (by decide) (by decide) (by omega)
    (by first | exact (hA5.evals tape).1 | exact (hA5.evals tape).2.1 | exact (hA5.evals tape).2.2.1 | exact (hA5.evals tape).2.2.2.1 | exact (hA5.evals tape).2.2.2.2.1 | exact (hA5.evals tape).2.2.2.2.2.1 | exact (hA5.evals tape).2.2.2.2.2.2 | simp) ht5 hs5
  by_cases hn6 : ¬ v.size < 2^56
  · have hx6 := hn6
    refine ⟨fun hf => absurd hf.2.2.2.2.1 hx6, fun _ => ?_⟩
    rw [hex1, hex2, hex3, hex4, hex5]
    exact P6.2 hx6
  have hx6 := Decidable.not_not.mp hn6
  obtain ⟨e6, tmp6, hex6, hA6, ht6, hs6, hc6, hk6⟩ := P6.1 hx6
  have hd6 := (hk6 "dst" (by decide) (by decide) (by decide)).trans hd5
  have g1_6 := g1_5; rw [← hk6 _ (by decide) (by decide) (by decide)] at g1_6
  have g2_6 := g2_5; rw [← hk6 _ (by decide) (by decide) (by decide)] at g2_6
  have g3_6 := g3_5; rw [← hk6 _ (by decide) (by decide) (by decide)] at g3_6
  have g4_6 := g4_5; rw [← hk6 _ (by decide) (by decide) (by decide)] at g4_6
  have g5_6 := g5_5; rw [← hk6 _ (by decide) (by decide) (by decide)] at g5_6
  have g6_6 := hc6
  have P7 := put_stepI hA6 tape fuel "#c7" "#c7.ok" xStr (sb.size) tmp6 (putS "#c8" "#c8.ok" xTape ++ rest)
    (by decide) (by decide) (by decide) (by decide) (by decide) (by decide) (by decide) (by omega)
    (by first | exact (hA6.evals tape).1 | exact (hA6.evals tape).2.1 | exact (hA6.evals tape).2.2.1 | exact (hA6.evals tape).2.2.2.1 | exact (hA6.evals tape).2.2.2.2.1 | exact (hA6.evals tape).2.2.2.2.2.1 | exact (hA6.evals tape).2.2.2.2.2.2 | simp) ht6 hs6
  by_cases hn7 : ¬ sb.size < 2^56
  · have hx7 := hn7
    refine ⟨fun hf => absurd hf.2.2.2.2.2.1 hx7, fun _ => ?_⟩
    rw [hex1, hex2, hex3, hex4, hex5, hex6]
    exact P7.2 hx7
  have hx7 := Decidable.not_not.mp hn7
  obtain ⟨e7, tmp7, hex7, hA7, ht7, hs7, hc7, hk7⟩ := P7.1 hx7
  have hd7 := (hk7 "dst" (by decide) (by decide) (by decide)).trans hd6
  have g1_7 := g1_6; rw [← hk7 _ (by decide) (by decide) (by decide)] at g1_7
  have g2_7 := g2_6; rw [← hk7 _ (by decide) (by decide) (by decide)] at g2_7
  have g3_7 := g3_6; rw [← hk7 _ (by decide) (by decide) (by decide)] at g3_7
  have g4_7 := g4_6; rw [← hk7 _ (by decide) (by decide) (by decide)] at g4_7
  have g5_7 := g5_6; rw [← hk7 _ (by decide) (by decide) (by decide)] at g5_7
  have g6_7 := g6_6; rw [← hk7 _ (by decide) (by decide) (by decide)] at g6_7
  have g7_7 := hc7
  have P8 := put_stepI hA7 tape fuel "#c8" "#c8.ok" xTape (n) tmp7 rest
    (by decide) (by decide) (by decide) (by decide) (by decide) (by decide) (by decide) (by omega)
    (by first | exact (hA7.evals tape).1 | exact (hA7.evals tape).2.1 | exact (hA7.evals tape).2.2.1 | exact (hA7.evals tape).2.2.2.1 | exact (hA7.evals tape).2.2.2.2.1 | exact (hA7.evals tape).2.2.2.2.2.1 | exact (hA7.evals tape).2.2.2.2.2.2 | simp) ht7 hs7
  by_cases hn8 : ¬ n < 2^56
  · have hx8 := hn8
    refine ⟨fun hf => absurd hf.2.2.2.2.2.2 hx8, fun _ => ?_⟩
    rw [hex1, hex2, hex3, hex4, hex5, hex6, hex7]
    exact P8.2 hx8
  have hx8 := Decidable.not_not.mp hn8
  obtain ⟨e8, tmp8, hex8, hA8, ht8, hs8, hc8, hk8⟩ := P8.1 hx8
  have hd8 := (hk8 "dst" (by decide) (by decide) (by decide)).trans hd7
  have g1_8 := g1_7; rw [← hk8 _ (by decide) (by decide) (by decide)] at g1_8
  have g2_8 := g2_7; rw [← hk8 _ (by decide) (by decide) (by decide)] at g2_8
  have g3_8 := g3_7; rw [← hk8 _ (by decide) (by decide) (by decide)] at g3_8
  have g4_8 := g4_7; rw [← hk8 _ (by decide) (by decide) (by decide)] at g4_8
  have g5_8 := g5_7; rw [← hk8 _ (by decide) (by decide) (by decide)] at g5_8
  have g6_8 := g6_7; rw [← hk8 _ (by decide) (by decide) (by decide)] at g6_8
  have g7_8 := g7_7; rw [← hk8 _ (by decide) (by decide) (by decide)] at g7_8
  have g8_8 := hc8
  refine ⟨fun _ => ⟨e8, tmp8, ?_, hA8, ht8, hs8, hd8, g1_8, g2_8, g3_8, g4_8, g5_8, g6_8, g7_8, g8_8⟩, fun hn => ?_⟩
  · rw [hex1, hex2, hex3, hex4, hex5, hex6, hex7, hex8]
  · exact absurd ⟨hx2, hx3, hx4, hx5, hx6, hx7, hx8⟩ hn


theorem exec_assign (funs : String → Option FunDef) (fuel : Nat) (x : String) (ex : Expr) (rest : List Stmt) (s : St)
    (v : Val) (h : evalE s ex = .val v) :
    exec funs fuel (.assign x ex :: rest) s = exec funs fuel rest ⟨s.env.set x v, s.tape⟩ := by
  rw [exec, exec1, h]

/-- `n = binary.PutUvarint(tmp[:], x); dst = append(dst, tmp[:n]...)` from an abstract store -/
theorem emit_stepI {e : Env} {n : Nat} {m t v sb : Bytes} {rt rv : Nat} (hA : ARO e n m t v sb rt rv)
    (tape : Array UInt64) (fuel : Nat) (c cok : String) (a : Expr) (x : Nat) (tmp d : Bytes) (rest : List Stmt)
    (hc : (c == "_") = false) (hcok : (cok == "_") = false) (hne : c ≠ cok)
    (hc1 : c ≠ "tmp") (hc2 : c ≠ "dst") (hk1 : cok ≠ "tmp") (hk2 : cok ≠ "dst") (hk3 : c ≠ "n") (hk4 : cok ≠ "n")
    (hcA : c ∉ aroKeys) (hkA : cok ∉ aroKeys)
    (hx64 : x < 2^64) (ha : evalE ⟨e, tape⟩ a = .val (.u64 (UInt64.ofNat x)))
    (ht : e.get "tmp" = some (.bytes tmp)) (hs : tmp.size = 8) (hd : e.get "dst" = some (.bytes d)) :
    (x < 2^56 → ∃ e' tmp', exec goFuns fuel (emitS c cok a ++ rest) ⟨e, tape⟩ = exec goFuns fuel rest ⟨e', tape⟩ ∧
      ARO e' n m t v sb rt rv ∧ e'.get "tmp" = some (.bytes tmp') ∧ tmp'.size = 8 ∧
      e'.get "dst" = some (.bytes (d ++ (uvarintBytes x).toArray))) ∧
    (¬ x < 2^56 → exec goFuns fuel (emitS c cok a ++ rest) ⟨e, tape⟩ = .panic) := by
  have hstep := emit_step e tape fuel c cok a (UInt64.ofNat x) tmp d rest hc hcok hne hc1 hc2 hk1 hk2 hk3 hk4 ha ht hs hd
  rw [toNat_ofNat_lt x hx64] at hstep
  constructor
  · intro hx
    rw [if_pos hx] at hstep
    refine ⟨_, _, hstep, hA.emit c cok tmp x d hcA hkA, ?_, putTmp_size tmp x hs hx, ?_⟩
    · simp [emitE, hc1, hk1]
    · simp [emitE]
  · intro hx
    rw [if_neg hx] at hstep
    exact hstep

theorem push_dst (e : Env) (tape : Array UInt64) (fuel : Nat) (b : Nat) (d : Bytes) (rest : List Stmt)
    (hd : e.get "dst" = some (.bytes d)) :
    exec goFuns fuel (.assign "dst" (.pushB (.v "dst") (.u8 b)) :: rest) ⟨e, tape⟩ =
      exec goFuns fuel rest ⟨e.set "dst" (.bytes (d.push (UInt8.ofNat b))), tape⟩ := by
  simp [hd]

theorem app_dst (e : Env) (tape : Array UInt64) (fuel : Nat) (src : String) (x d : Bytes) (rest : List Stmt)
    (hd : e.get "dst" = some (.bytes d)) (hx : e.get src = some (.bytes x)) :
    exec goFuns fuel (appS src :: rest) ⟨e, tape⟩ = exec goFuns fuel rest ⟨e.set "dst" (.bytes (d ++ x)), tape⟩ := by
  simp [appS, hd, hx]

theorem push_stepI {e : Env} {n : Nat} {m t v sb : Bytes} {rt rv : Nat} (hA : ARO e n m t v sb rt rv)
    (tape : Array UInt64) (fuel : Nat) (b : Nat) (tmp d : Bytes) (rest : List Stmt)
    (ht : e.get "tmp" = some (.bytes tmp)) (hd : e.get "dst" = some (.bytes d)) :
    ∃ e', exec goFuns fuel (.assign "dst" (.pushB (.v "dst") (.u8 b)) :: rest) ⟨e, tape⟩ = exec goFuns fuel rest ⟨e', tape⟩ ∧
      ARO e' n m t v sb rt rv ∧ e'.get "tmp" = some (.bytes tmp) ∧ e'.get "dst" = some (.bytes (d.push (UInt8.ofNat b))) :=
  ⟨_, push_dst e tape fuel b d rest hd, hA.set "dst" _ (by decide), by simp [ht], by simp⟩

theorem app_stepI {e : Env} {n : Nat} {m t v sb : Bytes} {rt rv : Nat} (hA : ARO e n m t v sb rt rv)
    (tape : Array UInt64) (fuel : Nat) (src : String) (x tmp d : Bytes) (rest : List Stmt)
    (ht : e.get "tmp" = some (.bytes tmp)) (hd : e.get "dst" = some (.bytes d)) (hx : e.get src = some (.bytes x)) :
    ∃ e', exec goFuns fuel (appS src :: rest) ⟨e, tape⟩ = exec goFuns fuel rest ⟨e', tape⟩ ∧
      ARO e' n m t v sb rt rv ∧ e'.get "tmp" = some (.bytes tmp) ∧ e'.get "dst" = some (.bytes (d ++ x)) :=
  ⟨_, app_dst e tape fuel src x d rest hd hx, hA.set "dst" _ (by decide), by simp [ht], by simp⟩

/-- `1 + len(s.sMsg) + len(s.tagsCompBuf) + len(s.valuesCompBuf) + varInts` -/
def asmVarInts (n ms ts vs sbs rt rv : Nat) : Nat :=
  (uvarintBytes 0).length + (uvarintBytes ms).length + (uvarintBytes rt).length + (uvarintBytes ts).length +
  (uvarintBytes rv).length + (uvarintBytes vs).length + (uvarintBytes sbs).length + (uvarintBytes n).length
def asmTotal (n ms ts vs sbs rt rv : Nat) : Nat := 1 + ms + ts + vs + asmVarInts n ms ts vs sbs rt rv

/-- no `PutUvarint` of the block needs more than the eight bytes of `tmp` -/
def AsmFits (n ms ts vs sbs rt rv : Nat) : Prop :=
  CountFits n ms ts vs sbs rt rv ∧ asmTotal n ms ts vs sbs rt rv < 2^56

/-- what the block appends to `dst` -/
def asmOut (n : Nat) (m t v : Bytes) (sbs rt rv : Nat) : Bytes :=
  (((((((((((((#[] : Bytes).push 3 ++ (uvarintBytes (asmTotal n m.size t.size v.size sbs rt rv)).toArray) ++
    (uvarintBytes n).toArray).push 0).push 0 ++ (uvarintBytes sbs).toArray) ++ (uvarintBytes m.size).toArray) ++ m) ++
    (uvarintBytes rt).toArray) ++ (uvarintBytes t.size).toArray) ++ t) ++ (uvarintBytes rv).toArray) ++
    (uvarintBytes v.size).toArray) ++ v)



theorem asmOut_eq_encodeSections (blk : Bytes → Bytes) (sec : Sections) :
    asmOut sec.tapeSize (blk sec.msg) (blk sec.tags) (blk sec.values) sec.msg.size sec.tags.size sec.values.size =
      encodeSections blk sec := by
  simp only [asmOut, encodeSections, asmTotal, asmVarInts, uvarintBytes_eq_putUvarint, cserializedVersion]
  apply Array.toList_inj.mp
  simp [List.append_assoc]

/-! ## `Serializer.indexString` -/

/-- how the store holds `s.stringsTable` (a `[16384]uint32`, each entry carried as a `uint64`) -/
def tblVal (tbl : Array Nat) : Val := .u64s (tbl.toList.map UInt64.ofNat)

/-- a table of the model that a `[16384]uint32` can hold -/
def TblOK (tbl : Array Nat) : Prop := tbl.size = 16384 ∧ ∀ i, tbl.getD i 0 < 2^32

/-- the frame of `s.indexString(sb)` -/
def isEnv (tbl : Val) (sbuf wr : Bytes) (tb vb : Val) (ans : List UInt64) (S M : Val) (sb : Bytes) : Env :=
  [("s.stringsTable", tbl), ("s.stringBuf", .bytes sbuf), ("s.stringWr.out", .bytes wr), ("s.tagsBuf", tb),
   ("s.valuesBuf", vb), ("s.memHash.answers", .u64s ans), ("Strings.B", S), ("Message", M), ("sb", .bytes sb)]

theorem and_mask_toNat (a : UInt64) : (a &&& 16383).toNat = a.toNat % 16384 := by
  rw [UInt64.toNat_and]
  show a.toNat &&& (2^14 - 1) = a.toNat % 2^14
  exact Nat.and_two_pow_sub_one_eq_mod _ _

theorem and_mask32_toNat (a : UInt64) : (a &&& 4294967295).toNat = a.toNat % 2^32 := by
  rw [UInt64.toNat_and]
  show a.toNat &&& (2^32 - 1) = a.toNat % 2^32
  exact Nat.and_two_pow_sub_one_eq_mod _ _

theorem len_mask32 (n : Nat) : (UInt64.ofInt (n : Int) &&& 4294967295).toNat = n % 2^32 := by
  rw [GoSet.ofInt_natCast, and_mask32_toNat, UInt64.toNat_ofNat']
  omega

theorem tbl_get (tbl : Array Nat) (i : Nat) :
    ((tbl.toList.map UInt64.ofNat)[i]?.getD 0) = UInt64.ofNat (tbl.getD i 0) := by
  simp only [List.getElem?_map, Array.getElem?_toList, Array.getD_eq_getD_getElem?]
  cases tbl[i]? <;> simp

theorem toInt64_ofNat_small (x : Nat) (h : x < 2^32) : toInt64 (UInt64.ofNat x) = (x : Int) := by
  have : (UInt64.ofNat x).toNat = x := by rw [UInt64.toNat_ofNat']; omega
  rw [toInt64_small _ (by omega), this]

theorem tbl_set (tbl : Array Nat) (i x : Nat) :
    (tbl.toList.map UInt64.ofNat).set i (UInt64.ofNat x) = (tbl.setIfInBounds i x).toList.map UInt64.ofNat := by
  simp [List.map_set]

theorem u32_of_succ (n : Nat) : UInt64.ofInt ((n : Int) + 1) &&& 4294967295 = UInt64.ofNat ((n + 1) % 2^32) := by
  apply UInt64.toNat_inj.mp
  have : ((n : Int) + 1) = ((n + 1 : Nat) : Int) := by omega
  rw [this, len_mask32, UInt64.toNat_ofNat']
  omega


/-- the table slot `indexString` looks at -/
def isSlot (hash : Bytes → Nat) (sb : Bytes) : Nat := hash sb % cstringSize

/-- `indexString` finds `sb` already in `stringBuf` at the offset the table remembers for its hash -/
def isHit (hash : Bytes → Nat) (s : SerState) (sb : Bytes) : Prop :=
  ((s.table.getD (isSlot hash sb) 0 : Int) - 1 ≥ 0 ∧ (s.table.getD (isSlot hash sb) 0 : Int) - 1 + sb.size ≤ s.stringBuf.size ∧
    s.stringBuf.extract ((s.table.getD (isSlot hash sb) 0 : Int) - 1).toNat
      ((s.table.getD (isSlot hash sb) 0 : Int) - 1 + sb.size).toNat == sb)

instance (hash : Bytes → Nat) (s : SerState) (sb : Bytes) : Decidable (isHit hash s sb) := by unfold isHit; infer_instance

theorem indexString_hit (hash : Bytes → Nat) (s : SerState) (sb : Bytes) (h : isHit hash s sb) :
    indexString hash s sb = (s, UInt64.ofNat (s.table.getD (isSlot hash sb) 0 - 1)) := by
  unfold isHit isSlot at h
  unfold indexString
  simp only [ge_iff_le] at h ⊢
  rw [if_pos h]
  congr 2
  show _ = s.table.getD (hash sb % cstringSize) 0 - 1
  omega

/-- the state after a miss: `sb` appended, its offset (+1, as a `uint32`) remembered -/
def isMissState (hash : Bytes → Nat) (s : SerState) (sb : Bytes) : SerState :=
  { s with stringBuf := s.stringBuf ++ sb, table := s.table.setIfInBounds (isSlot hash sb) ((s.stringBuf.size + 1) % 2^32) }

theorem indexString_miss (hash : Bytes → Nat) (s : SerState) (sb : Bytes) (h : ¬ isHit hash s sb) :
    indexString hash s sb = (isMissState hash s sb, UInt64.ofNat s.stringBuf.size) := by
  unfold isHit isSlot at h
  unfold indexString
  simp only [ge_iff_le] at h ⊢
  rw [if_neg h]
  rfl

/-- what `s.stringWr` has been given after the call -/
def isWr (hash : Bytes → Nat) (s : SerState) (sb wr : Bytes) : Bytes := if isHit hash s sb then wr else wr ++ sb


theorem u32_of_succ' (n : Nat) : (UInt64.ofNat n + 1) &&& 4294967295 = UInt64.ofNat ((n + 1) % 4294967296) := by
  apply UInt64.toNat_inj.mp
  rw [and_mask32_toNat, UInt64.toNat_add, UInt64.toNat_ofNat', UInt64.toNat_ofNat']
  have : (1 : UInt64).toNat = 1 := rfl
  rw [this]
  omega

theorem isSlot_lt (hash : Bytes → Nat) (sb : Bytes) : isSlot hash sb < 16384 := Nat.mod_lt _ (by decide)

/-- `indexString` as translated, on its frame, when `sb` is found -/
theorem indexString_exec_hit (hash : Bytes → Nat) (st : SerState) (sb : Bytes) (a : UInt64) (rest : List UInt64) (wr : Bytes)
    (tb vb S M : Val) (tape : Array UInt64) (fuel : Nat) (hT : TblOK st.table) (hh : hash sb % 16384 = a.toNat % 16384)
    (hlen : sb.size % 2^32 ≠ 2^32 - 1) (hit : isHit hash st sb) :
    ∃ loc, exec goFuns fuel goSerializer_indexString.body
        ⟨isEnv (tblVal st.table) st.stringBuf wr tb vb (a :: rest) S M sb, tape⟩ =
      .ret ⟨isEnv (tblVal st.table) st.stringBuf wr tb vb rest S M sb ++ loc, tape⟩
        [.u64 (UInt64.ofNat (st.table.getD (isSlot hash sb) 0 - 1))] := by
  have hg1 : ¬ ((4294967295 : UInt64) ≤ UInt64.ofInt (sb.size : Int) &&& 4294967295) := by
    rw [UInt64.le_iff_toNat_le, len_mask32]
    have : (4294967295 : UInt64).toNat = 4294967295 := rfl
    have : sb.size % 2^32 < 2^32 := Nat.mod_lt _ (by decide)
    omega
  have hslot : (a &&& 16383).toNat = isSlot hash sb := by rw [and_mask_toNat, isSlot, ← hh]; rfl
  have hlt := isSlot_lt hash sb
  have hsz := hT.1
  have hget : st.table.getD (isSlot hash sb) 0 = st.table[isSlot hash sb]'(by omega) := by
    simp [Array.getD_eq_getD_getElem?, hlt, hsz]
  have hTlt : st.table[isSlot hash sb]'(by omega) < 2^32 := by rw [← hget]; exact hT.2 _
  have hI := toInt64_ofNat_small _ hTlt
  unfold isHit at hit
  rw [hget] at hit ⊢
  obtain ⟨h1, h2, h3⟩ := hit
  generalize hTv : st.table[isSlot hash sb]'(by omega) = T at h1 h2 h3 hI hTlt ⊢
  have e1 : ((T : Int) - 1).toNat = T - 1 := by omega
  have hconv : UInt64.ofInt ((T : Int) - 1) = UInt64.ofNat (T - 1) := by
    have : (T : Int) - 1 = ((T - 1 : Nat) : Int) := by omega
    rw [this, GoSet.ofInt_natCast]
  have h1' : (1 : Int) ≤ T := by omega
  have h4 : (T : Int) - 1 ≤ T - 1 + sb.size := by omega
  have h3' := h3
  rw [e1] at h3'
  refine ⟨[("offset", .u64 0), ("#c1", .u64 a), ("h", .u64 (a &&& 16383)), ("off", .int ((T : Int) - 1)),
    ("end", .int ((T : Int) - 1 + sb.size)),
    ("found", .bytes (st.stringBuf.extract ((T : Int) - 1).toNat ((T : Int) - 1 + sb.size).toNat))], ?_⟩
  simp [goSerializer_indexString, isEnv, tblVal, Env.get, Env.set, hg1, hslot, hlt, hsz, hTv, hI, h1, h1', h2, h3, h3', h4, e1, hconv]


/-- `indexString` as translated, on its frame, when `sb` is not found -/
theorem indexString_exec_miss (hash : Bytes → Nat) (st : SerState) (sb : Bytes) (a : UInt64) (rest : List UInt64) (wr : Bytes)
    (tb vb S M : Val) (tape : Array UInt64) (fuel : Nat) (hT : TblOK st.table) (hh : hash sb % 16384 = a.toNat % 16384)
    (hlen : sb.size % 2^32 ≠ 2^32 - 1) (hit : ¬ isHit hash st sb) :
    ∃ loc, exec goFuns fuel goSerializer_indexString.body
        ⟨isEnv (tblVal st.table) st.stringBuf wr tb vb (a :: rest) S M sb, tape⟩ =
      .ret ⟨isEnv (tblVal (isMissState hash st sb).table) (st.stringBuf ++ sb) (wr ++ sb) tb vb rest S M sb ++ loc, tape⟩
        [.u64 (UInt64.ofNat st.stringBuf.size)] := by
  have hg1 : ¬ ((4294967295 : UInt64) ≤ UInt64.ofInt (sb.size : Int) &&& 4294967295) := by
    rw [UInt64.le_iff_toNat_le, len_mask32]
    have : (4294967295 : UInt64).toNat = 4294967295 := rfl
    have : sb.size % 2^32 < 2^32 := Nat.mod_lt _ (by decide)
    omega
  have hslot : (a &&& 16383).toNat = isSlot hash sb := by rw [and_mask_toNat, isSlot, ← hh]; rfl
  have hlt := isSlot_lt hash sb
  have hsz := hT.1
  have hget : st.table.getD (isSlot hash sb) 0 = st.table[isSlot hash sb]'(by omega) := by
    simp [Array.getD_eq_getD_getElem?, hlt, hsz]
  have hTlt : st.table[isSlot hash sb]'(by omega) < 2^32 := by rw [← hget]; exact hT.2 _
  have hI := toInt64_ofNat_small _ hTlt
  have hset := tbl_set st.table (isSlot hash sb) ((st.stringBuf.size + 1) % 2^32)
  have hu32 := u32_of_succ st.stringBuf.size
  have hconv2 : UInt64.ofInt (st.stringBuf.size : Int) = UInt64.ofNat st.stringBuf.size := GoSet.ofInt_natCast _
  unfold isHit at hit
  rw [hget] at hit
  simp only [isMissState]
  generalize hTv : st.table[isSlot hash sb]'(by omega) = T at hit hI hTlt ⊢
  have e1 : ((T : Int) - 1).toNat = T - 1 := by omega
  by_cases hguard : (1 : Int) ≤ T ∧ (T : Int) - 1 + sb.size ≤ st.stringBuf.size
  · obtain ⟨h1, h2⟩ := hguard
    have h3 : (st.stringBuf.extract ((T : Int) - 1).toNat ((T : Int) - 1 + sb.size).toNat == sb) = false := by
      cases hb : (st.stringBuf.extract ((T : Int) - 1).toNat ((T : Int) - 1 + sb.size).toNat == sb)
      · rfl
      · exact absurd ⟨by omega, h2, hb⟩ hit
    have h4 : (T : Int) - 1 ≤ T - 1 + sb.size := by omega
    have h3' := h3
    rw [e1] at h3'
    refine ⟨[("offset", .u64 0), ("#c1", .u64 a), ("h", .u64 (a &&& 16383)), ("off", .int st.stringBuf.size),
      ("end", .int ((T : Int) - 1 + sb.size)),
      ("found", .bytes (st.stringBuf.extract ((T : Int) - 1).toNat ((T : Int) - 1 + sb.size).toNat))], ?_⟩
    simp [goSerializer_indexString, isEnv, tblVal, Env.get, Env.set, hg1, hslot, hlt, hsz, hTv, hI, h1, h2, h3, h3', h4, e1,
      hu32, hconv2, u32_of_succ']
  · refine ⟨[("offset", .u64 0), ("#c1", .u64 a), ("h", .u64 (a &&& 16383)), ("off", .int st.stringBuf.size),
      ("end", .int ((T : Int) - 1 + sb.size))], ?_⟩
    by_cases h1 : (1 : Int) ≤ T
    · have h2 : ¬ ((T : Int) - 1 + sb.size ≤ st.stringBuf.size) := fun h => hguard ⟨h1, h⟩
      simp [goSerializer_indexString, isEnv, tblVal, Env.get, Env.set, hg1, hslot, hlt, hsz, hTv, hI, h1, h2, e1,
        hu32, hconv2, u32_of_succ']
    · simp [goSerializer_indexString, isEnv, tblVal, Env.get, Env.set, hg1, hslot, hlt, hsz, hTv, hI, h1, e1,
        hu32, hconv2, u32_of_succ']


/-- a string whose length, as a `uint32`, is `math.MaxUint32`: `panic("string too long")` -/
theorem indexString_exec_toolong (T : Val) (sbuf wr : Bytes) (tb vb : Val) (ans : List UInt64) (S M : Val) (sb : Bytes)
    (tape : Array UInt64) (fuel : Nat) (hlen : sb.size % 2^32 = 2^32 - 1) :
    exec goFuns fuel goSerializer_indexString.body ⟨isEnv T sbuf wr tb vb ans S M sb, tape⟩ = .panic := by
  have hg1 : ((4294967295 : UInt64) ≤ UInt64.ofInt (sb.size : Int) &&& 4294967295) := by
    rw [UInt64.le_iff_toNat_le, len_mask32]
    have : (4294967295 : UInt64).toNat = 4294967295 := rfl
    omega
  simp [goSerializer_indexString, isEnv, Env.get, Env.set, hg1]

/-- the caller's store after `s.indexString(sb)`: the receiver's fields and the shared buffers are the callee's -/
def isBack (e : Env) (T : Val) (sbuf wr : Bytes) (tb vb : Val) (ans : List UInt64) (S M : Val) : Env :=
  (((((((e.set "s.stringsTable" T).set "s.stringBuf" (.bytes sbuf)).set "s.stringWr.out" (.bytes wr)).set "s.tagsBuf"
    tb).set "s.valuesBuf" vb).set "s.memHash.answers" (.u64s ans)).set "Strings.B" S).set "Message" M

/-- `s.indexString(arg)` through `callFun` from any caller store that holds the receiver's fields and the buffers -/
theorem callFun_is (s : St) (arg : Expr) (sb : Bytes) (T : Val) (sbuf wr : Bytes) (tb vb : Val) (ans : List UInt64)
    (S M : Val) (f : Nat)
    (g1 : s.env.get "s.stringsTable" = some T) (g2 : s.env.get "s.stringBuf" = some (.bytes sbuf))
    (g3 : s.env.get "s.stringWr.out" = some (.bytes wr)) (g4 : s.env.get "s.tagsBuf" = some tb)
    (g5 : s.env.get "s.valuesBuf" = some vb) (g6 : s.env.get "s.memHash.answers" = some (.u64s ans))
    (hS : s.env.get "Strings.B" = some S) (hM : s.env.get "Message" = some M)
    (harg : evalE s arg = .val (.bytes sb)) :
    (∀ T' sbuf' wr' ans' loc rs,
      exec goFuns f goSerializer_indexString.body ⟨isEnv T sbuf wr tb vb ans S M sb, s.tape⟩ =
        .ret ⟨isEnv T' sbuf' wr' tb vb ans' S M sb ++ loc, s.tape⟩ rs →
      callFun goFuns f "s" "Serializer.indexString" [] [arg] s =
        .ret ⟨isBack s.env T' sbuf' wr' tb vb ans' S M, s.tape⟩ rs) ∧
    (exec goFuns f goSerializer_indexString.body ⟨isEnv T sbuf wr tb vb ans S M sb, s.tape⟩ = .panic →
      callFun goFuns f "s" "Serializer.indexString" [] [arg] s = .panic) := by
  constructor
  · intro T' sbuf' wr' ans' loc rs he
    simp only [isEnv, goSerializer_indexString] at he
    rw [callFun]
    simp [goFuns, goSerializer_indexString, harg, g1, g2, g3, g4, g5, g6, hS, hM, copyPtrs, copyGlobals, globalVars,
      copyPtrsBack, copyFields, bindParams, Env.set, Env.get, -exec, -exec1]
    rw [he]
    simp [Env.get, copyPtrsBack, copyGlobals, copyFields, isBack]
  · intro he
    simp only [isEnv, goSerializer_indexString] at he
    rw [callFun]
    simp [goFuns, goSerializer_indexString, harg, g1, g2, g3, g4, g5, g6, hS, hM, copyPtrs, copyGlobals, globalVars,
      copyPtrsBack, copyFields, bindParams, Env.set, Env.get, -exec, -exec1]
    rw [he]


theorem TblOK_miss (hash : Bytes → Nat) (st : SerState) (sb : Bytes) (h : TblOK st.table) :
    TblOK (isMissState hash st sb).table := by
  obtain ⟨h1, h2⟩ := h
  refine ⟨by simp [isMissState, h1], fun i => ?_⟩
  simp only [isMissState, Array.getD_eq_getD_getElem?, Array.getElem?_setIfInBounds]
  have := h2 i
  simp only [Array.getD_eq_getD_getElem?] at this
  split
  · split
    · simp only [Option.getD_some]; exact Nat.mod_lt _ (by decide)
    · simp
  · exact this

theorem TblOK_init : TblOK (Array.replicate cstringSize 0) := by
  refine ⟨by simp [cstringSize], fun i => ?_⟩
  simp only [Array.getD_eq_getD_getElem?, Array.getElem?_replicate]
  split <;> simp


/-! ## 1. `Serializer.indexString`: the call -/

/-- **`Serializer.indexString`**: the call returns the model's offset, leaves the model's table and `stringBuf` in the
    receiver, hands `s.stringWr` exactly the bytes that were appended to `stringBuf`, and consumes one answer of
    `memHash`.  `hh`: the answer and the model's hash agree on the fourteen bits the function uses;
    `hlen`: `uint32(len(sb)) != math.MaxUint32` (otherwise the source panics — `indexString_sim_toolong`). -/
theorem indexString_sim (hash : Bytes → Nat) (st : SerState) (sb : Bytes) (a : UInt64) (rest : List UInt64) (s : St)
    (arg : Expr) (wr : Bytes) (tb vb S M : Val) (f : Nat)
    (hT : TblOK st.table) (hh : hash sb % 16384 = a.toNat % 16384) (hlen : sb.size % 2^32 ≠ 2^32 - 1)
    (g1 : s.env.get "s.stringsTable" = some (tblVal st.table)) (g2 : s.env.get "s.stringBuf" = some (.bytes st.stringBuf))
    (g3 : s.env.get "s.stringWr.out" = some (.bytes wr)) (g4 : s.env.get "s.tagsBuf" = some tb)
    (g5 : s.env.get "s.valuesBuf" = some vb) (g6 : s.env.get "s.memHash.answers" = some (.u64s (a :: rest)))
    (hS : s.env.get "Strings.B" = some S) (hM : s.env.get "Message" = some M)
    (harg : evalE s arg = .val (.bytes sb)) :
    callFun goFuns f "s" "Serializer.indexString" [] [arg] s =
      .ret ⟨isBack s.env (tblVal (indexString hash st sb).1.table) (indexString hash st sb).1.stringBuf
        (isWr hash st sb wr) tb vb rest S M, s.tape⟩ [.u64 (indexString hash st sb).2] ∧
    TblOK (indexString hash st sb).1.table := by
  have hc := (callFun_is s arg sb (tblVal st.table) st.stringBuf wr tb vb (a :: rest) S M f g1 g2 g3 g4 g5 g6 hS hM harg).1
  by_cases hit : isHit hash st sb
  · obtain ⟨loc, he⟩ := indexString_exec_hit hash st sb a rest wr tb vb S M s.tape f hT hh hlen hit
    rw [indexString_hit hash st sb hit, isWr, if_pos hit]
    exact ⟨hc _ _ _ _ _ _ he, hT⟩
  · obtain ⟨loc, he⟩ := indexString_exec_miss hash st sb a rest wr tb vb S M s.tape f hT hh hlen hit
    rw [indexString_miss hash st sb hit, isWr, if_neg hit]
    exact ⟨hc _ _ _ _ _ _ he, TblOK_miss hash st sb hT⟩

theorem indexString_sim_toolong (sb : Bytes) (s : St) (arg : Expr) (T : Val) (sbuf wr : Bytes) (tb vb S M : Val)
    (ans : List UInt64) (f : Nat) (hlen : sb.size % 2^32 = 2^32 - 1)
    (g1 : s.env.get "s.stringsTable" = some T) (g2 : s.env.get "s.stringBuf" = some (.bytes sbuf))
    (g3 : s.env.get "s.stringWr.out" = some (.bytes wr)) (g4 : s.env.get "s.tagsBuf" = some tb)
    (g5 : s.env.get "s.valuesBuf" = some vb) (g6 : s.env.get "s.memHash.answers" = some (.u64s ans))
    (hS : s.env.get "Strings.B" = some S) (hM : s.env.get "Message" = some M)
    (harg : evalE s arg = .val (.bytes sb)) :
    callFun goFuns f "s" "Serializer.indexString" [] [arg] s = .panic :=
  (callFun_is s arg sb T sbuf wr tb vb ans S M f g1 g2 g3 g4 g5 g6 hS hM harg).2
    (indexString_exec_toolong T sbuf wr tb vb ans S M sb s.tape f hlen)


/-! ## the model's loop, one iteration at a time -/

/-- lift a statement checked for every `Fin 256` to every byte -/
theorem forall_u8 {P : UInt8 → Prop} (h : ∀ n : Fin 256, P (UInt8.ofNat n.val)) (b : UInt8) : P b := by
  have := h ⟨b.toNat, b.toNat_lt⟩
  simpa using this

theorem inCase_s0 (t : UInt8) : inCase (caseOf swSerialize 0) t = decide (t = 78) := by
  rw [Facts.serialize_cases]; revert t; exact forall_u8 (by decide +kernel)
theorem inCase_s1 (t : UInt8) : inCase (caseOf swSerialize 1) t = decide (t = 34) := by
  rw [Facts.serialize_cases]; revert t; exact forall_u8 (by decide +kernel)
theorem inCase_s2 (t : UInt8) : inCase (caseOf swSerialize 2) t = decide (t = 117) := by
  rw [Facts.serialize_cases]; revert t; exact forall_u8 (by decide +kernel)
theorem inCase_s3 (t : UInt8) : inCase (caseOf swSerialize 3) t = decide (t = 108) := by
  rw [Facts.serialize_cases]; revert t; exact forall_u8 (by decide +kernel)
theorem inCase_s4 (t : UInt8) : inCase (caseOf swSerialize 4) t = decide (t = 100) := by
  rw [Facts.serialize_cases]; revert t; exact forall_u8 (by decide +kernel)
theorem inCase_s5 (t : UInt8) : inCase (caseOf swSerialize 5) t = decide (t = 110 ∨ t = 116 ∨ t = 102) := by
  rw [Facts.serialize_cases]; revert t; exact forall_u8 (by decide +kernel)
theorem inCase_s6 (t : UInt8) : inCase (caseOf swSerialize 6) t = decide (t = 123 ∨ t = 91 ∨ t = 114) := by
  rw [Facts.serialize_cases]; revert t; exact forall_u8 (by decide +kernel)
theorem inCase_s7 (t : UInt8) : inCase (caseOf swSerialize 7) t = decide (t = 125 ∨ t = 93 ∨ t = 0) := by
  rw [Facts.serialize_cases]; revert t; exact forall_u8 (by decide +kernel)

/-- the `switch ntype` of the loop body: the state with the values appended (tags not yet), the value of `off` before
    the final `off++`, and the tag that goes into the tag stream -/
def serSwitch (pj : PJ) (hash : Bytes → Nat) (s : SerState) (off : Nat) (entry : UInt64) : Res (SerState × Nat × UInt8) :=
  let t := tagOf entry
  if t = 78 then .ok (s, off, t)
  else if t = 34 then do
    let len ← rd pj.tape (off + 1)
    match stringByteAt pj (payloadOf entry) len with
    | .ok sb => .ok (pushVal (pushVal (indexString hash s sb).1 (indexString hash s sb).2) (UInt64.ofNat sb.size), off + 1, t)
    | _ => .panic
  else if t = 117 ∨ t = 108 then do
    let v ← rd pj.tape (off + 1)
    .ok (pushVal s v, off + 1, t)
  else if t = 100 then do
    let v ← rd pj.tape (off + 1)
    if payloadOf entry == 0 then .ok (pushVal s v, off + 1, t)
    else .ok (pushVal (pushVal s entry) v, off + 1, tagFloatWithFlag)
  else if t = 110 ∨ t = 116 ∨ t = 102 then .ok (s, off, t)
  else if t = 123 ∨ t = 91 ∨ t = 114 then .ok (pushVal s (payloadOf entry - UInt64.ofNat off), off, t)
  else if t = 125 ∨ t = 93 ∨ t = 0 then .ok (s, off, t)
  else .panic

/-- one turn of the loop body -/
def serBody (pj : PJ) (hash : Bytes → Nat) (s : SerState) (off : Nat) : Res (SerState × Nat) := do
  let entry ← rd pj.tape off
  let r ← serSwitch pj hash s off entry
  .ok ({ r.1 with tags := r.1.tags.push r.2.2 }, r.2.1 + 1)

theorem serLoop_succ (pj : PJ) (hash : Bytes → Nat) (s : SerState) (off fuel : Nat) :
    serLoop pj hash s off (fuel + 1) =
      if off ≥ pj.tape.size then .ok s else serBody pj hash s off >>= fun r => serLoop pj hash r.1 r.2 fuel := by
  rw [serLoop]
  by_cases h : off ≥ pj.tape.size
  · simp [h]
  · simp only [h, if_false, serBody]
    cases hr : rd pj.tape off with
    | ok entry =>
      simp only [Res.bind_ok, bind_assoc, serSwitch, inCase_s0, inCase_s1, inCase_s2, inCase_s3, inCase_s4, inCase_s5,
        inCase_s6, inCase_s7, decide_eq_true_eq]
      by_cases h0 : tagOf entry = 78
      · simp [h0]
      by_cases h1 : tagOf entry = 34
      · simp only [h0, h1, if_true, if_false]
        cases rd pj.tape (off + 1) with
        | ok len =>
          simp only [Res.bind_ok]
          cases stringByteAt pj (payloadOf entry) len <;> simp [pushVal]
        | _ => simp
      by_cases h2 : tagOf entry = 117 ∨ tagOf entry = 108
      · simp only [h0, h1, h2, if_true, if_false, true_or, or_true]
        cases rd pj.tape (off + 1) <;> simp [pushVal]
      have h2a : ¬ tagOf entry = 117 := fun h => h2 (Or.inl h)
      have h2b : ¬ tagOf entry = 108 := fun h => h2 (Or.inr h)
      by_cases h4 : tagOf entry = 100
      · simp only [h0, h1, h2, h2a, h2b, h4, if_true, if_false, false_or, or_false]
        cases rd pj.tape (off + 1) with
        | ok v =>
          simp only [Res.bind_ok]
          by_cases hp : (payloadOf entry == 0) = true
          · simp [hp, pushVal]
          · simp [hp, pushVal]
        | _ => simp
      by_cases h5 : tagOf entry = 110 ∨ tagOf entry = 116 ∨ tagOf entry = 102
      · simp [h0, h1, h2, h2a, h2b, h4, h5]
      by_cases h6 : tagOf entry = 123 ∨ tagOf entry = 91 ∨ tagOf entry = 114
      · simp [h0, h1, h2, h2a, h2b, h4, h5, h6, pushVal]
      by_cases h7 : tagOf entry = 125 ∨ tagOf entry = 93 ∨ tagOf entry = 0
      · simp [h0, h1, h2, h2a, h2b, h4, h5, h6, h7]
      simp [h0, h1, h2, h2a, h2b, h4, h5, h6, h7]
    | _ => simp

/-! ## the syntax tree of the tape loop -/

def loopCond : Expr := .bin .lt (.v "off") (.lenTape "pj")
def loopBody : List Stmt := match goSerialize_loop.body.getD 6 .brk with | .while _ b => b | _ => []
def preS : List Stmt := goSerialize_loop.body.take 6
def postS : List Stmt := goSerialize_loop.body.drop 7
theorem loop_body_eq : goSerialize_loop.body = preS ++ .while loopCond loopBody :: postS := rfl

theorem preS_eq : preS = [
    .assign "s.valuesBuf" (.sliceB (.v "s.valuesBuf") (.int 0) (.int 0)), .assign "off" (.int 0),
    .assign "tagsOff" (.int 0), .assign "tmp" (.zerosB 8), .assign "rawValues" (.int 0), .assign "rawTags" (.int 0)] := rfl

def flushTagsS : Stmt := .ite (.bin .ge (.v "tagsOff") (.int 65536)) [
    .assign "rawTags" (.bin .add (.v "rawTags") (.v "tagsOff")),
    .assign "tagWr.out" (.appendB (.v "tagWr.out") (.sliceB (.v "s.tagsBuf") (.int 0) (.v "tagsOff"))),
    .assign "tagsOff" (.int 0)] []
def flushValsS : Stmt := .ite (.bin .ge (.lenB (.v "s.valuesBuf")) (.int 65536)) [
    .assign "rawValues" (.bin .add (.v "rawValues") (.lenB (.v "s.valuesBuf"))),
    .assign "valWr.out" (.appendB (.v "valWr.out") (.v "s.valuesBuf")),
    .assign "s.valuesBuf" (.sliceB (.v "s.valuesBuf") (.int 0) (.int 0))] []
def readS : List Stmt := [
    .assign "entry" (.tapeAt "pj" (.v "off")),
    .assign "ntype" (.conv .u8 (.bin .shr (.v "entry") (.int 56))),
    .assign "payload" (.bin .and (.v "entry") (.u64 72057594037927935))]
def swS : Stmt := loopBody.getD 5 .brk
def tailS : List Stmt := [
    .setB "s.tagsBuf" (.v "tagsOff") (.conv .u8 (.v "ntype")),
    .assign "tagsOff" (.bin .add (.v "tagsOff") (.int 1)),
    .assign "off" (.bin .add (.v "off") (.int 1))]
theorem loopBody_eq : loopBody = [flushTagsS, flushValsS] ++ (readS ++ (swS :: tailS)) := rfl

theorem postS_eq : postS = [
    .ite (.bin .gt (.v "tagsOff") (.int 0)) [
      .assign "rawTags" (.bin .add (.v "rawTags") (.v "tagsOff")),
      .assign "tagWr.out" (.appendB (.v "tagWr.out") (.sliceB (.v "s.tagsBuf") (.int 0) (.v "tagsOff")))] [],
    .ite (.bin .gt (.lenB (.v "s.valuesBuf")) (.int 0)) [
      .assign "rawValues" (.bin .add (.v "rawValues") (.lenB (.v "s.valuesBuf"))),
      .assign "valWr.out" (.appendB (.v "valWr.out") (.v "s.valuesBuf"))] []] := rfl

def swCases : List (List Expr × List Stmt) := match swS with | .switch _ cs _ => cs | _ => []
def swDflt : List Stmt := match swS with | .switch _ _ d => d | _ => []
def caseBody (k : Nat) : List Stmt := (swCases.getD k ([], [])).2
theorem swS_eq : swS = .switch (.v "ntype") swCases swDflt := rfl
theorem swDflt_eq : swDflt = [.ite (.bool true) [] [], .panicS] := rfl

/-- `binary.LittleEndian.PutUint64(tmp[:], X); s.valuesBuf = append(s.valuesBuf, tmp[:]...)` -/
def pushS (X : Expr) : List Stmt := [
    .assign "tmp" (.leBytes X),
    .assign "s.valuesBuf" (.appendB (.v "s.valuesBuf") (.sliceB (.v "tmp") (.int 0) (.lenB (.v "tmp"))))]
def offInc : Stmt := .assign "off" (.bin .add (.v "off") (.int 1))
def tape1 : Expr := .tapeAt "pj" (.bin .add (.v "off") (.int 1))

theorem case0_eq : caseBody 0 = [] := rfl
theorem case1_eq : caseBody 1 =
    .callAssign ["sb", "err"] "pj" "ParsedJson.stringByteAt" [] [(.v "payload"), tape1] ::
    .ite (.bin .ne (.v "err") (.bool false)) [.panicS] [] ::
    .callAssign ["offset"] "s" "Serializer.indexString" [] [(.v "sb")] ::
    (pushS (.v "offset") ++ (pushS (.conv .u64 (.lenB (.v "sb"))) ++ [offInc])) := rfl
theorem case2_eq : caseBody 2 = pushS tape1 ++ [offInc] := rfl
theorem case3_eq : caseBody 3 = pushS tape1 ++ [offInc] := rfl
theorem case4_eq : caseBody 4 = [.ite (.bin .eq (.v "payload") (.u64 0)) (pushS tape1 ++ [offInc])
    (.assign "ntype" (.u8 101) :: (pushS (.v "entry") ++ (pushS tape1 ++ [offInc])))] := rfl
theorem case5_eq : caseBody 5 = [] := rfl
theorem case6_eq : caseBody 6 = pushS (.bin .sub (.v "payload") (.conv .u64 (.v "off"))) := rfl
theorem case7_eq : caseBody 7 = [] := rfl

/-- which clause the switch runs -/
def clauseOf (t : UInt8) : Option Nat :=
  if t = 78 then some 0 else if t = 34 then some 1 else if t = 117 then some 2 else if t = 108 then some 3
  else if t = 100 then some 4 else if t = 110 ∨ t = 116 ∨ t = 102 then some 5
  else if t = 123 ∨ t = 91 ∨ t = 114 then some 6 else if t = 125 ∨ t = 93 ∨ t = 0 then some 7 else none

theorem u8lit (c t : UInt8) : (Val.u8 c == Val.u8 t) = decide (t = c) := by
  by_cases h : t = c
  · simp [h]
  · have : ¬ c = t := fun hh => h hh.symm
    simp [h, this]

theorem sw_select (e : Env) (tape : Array UInt64) (t : UInt8) (fuel : Nat) (h5 : e.get "ntype" = some (.u8 t)) :
    exec1 goFuns fuel swS ⟨e, tape⟩ =
      match clauseOf t with
      | some k => exec goFuns fuel (caseBody k) ⟨e, tape⟩
      | none => .panic := by
  rw [swS_eq, exec1]
  simp only [evalE, h5]
  simp only [caseBody, swCases, swDflt, swS, loopBody, goSerialize_loop, List.getD_cons_zero,
    List.getD_cons_succ, List.getD_eq_getElem?_getD, List.getElem?_cons_zero, List.getElem?_cons_succ, Option.getD_some]
  simp only [execCases, evalEs, evalE, isOneOf, u8lit, Bool.or_false, Bool.or_eq_true, decide_eq_true_eq,
    UInt8.reduceOfNat, clauseOf]
  by_cases h0 : t = 78
  · simp only [h0, if_true]; rfl
  by_cases h1 : t = 34
  · simp only [h0, h1, if_true, if_false]; rfl
  by_cases h2 : t = 117
  · simp only [h0, h1, h2, if_true, if_false]; rfl
  by_cases h3 : t = 108
  · simp only [h0, h1, h2, h3, if_true, if_false]; rfl
  by_cases h4 : t = 100
  · simp only [h0, h1, h2, h3, h4, if_true, if_false]; rfl
  by_cases h5 : t = 110 ∨ t = 116 ∨ t = 102
  · simp only [h0, h1, h2, h3, h4, h5, if_true, if_false]; rfl
  by_cases h6 : t = 123 ∨ t = 91 ∨ t = 114
  · simp only [h0, h1, h2, h3, h4, h5, h6, if_true, if_false]; rfl
  by_cases h7 : t = 125 ∨ t = 93 ∨ t = 0
  · simp only [h0, h1, h2, h3, h4, h5, h6, h7, if_true, if_false]; rfl
  simp only [h0, h1, h2, h3, h4, h5, h6, h7, if_true, if_false]
  simp


/-! ## what a store of the loop holds -/

/-- the document: `len(pj.Tape)` and the two string buffers -/
structure Doc (pj : PJ) (e : Env) : Prop where
  lim : e.get "pj.lim" = some (.int pj.tape.size)
  strs : e.get "Strings.B" = some (.bytes pj.strings)
  msg : e.get "Message" = some (.bytes pj.msg)

/-- the tag stream: what the block writer got so far (`tw`, counted by `rawTags`) followed by the `k = tagsOff` bytes
    waiting in `s.tagsBuf` is the model's `tags` -/
structure TagI (e : Env) (tags : Bytes) (k : Nat) (tb tw : Bytes) : Prop where
  off : e.get "tagsOff" = some (.int k)
  buf : e.get "s.tagsBuf" = some (.bytes tb)
  wr : e.get "tagWr.out" = some (.bytes tw)
  raw : e.get "rawTags" = some (.int tw.size)
  sz : tb.size = 65536
  le : k ≤ 65536
  eq : tw ++ tb.extract 0 k = tags

/-- the value stream: what the block writer got so far followed by `s.valuesBuf` is the model's `values` -/
structure ValI (e : Env) (values vb vw : Bytes) : Prop where
  buf : e.get "s.valuesBuf" = some (.bytes vb)
  wr : e.get "valWr.out" = some (.bytes vw)
  raw : e.get "rawValues" = some (.int vw.size)
  eq : vw ++ vb = values

/-- the string index: table, `stringBuf`, the bytes handed to `s.stringWr` (the same), the remaining answers of `memHash` -/
structure StrI (e : Env) (table : Array Nat) (sbuf : Bytes) (ans : List UInt64) : Prop where
  tbl : e.get "s.stringsTable" = some (tblVal table)
  ok : TblOK table
  buf : e.get "s.stringBuf" = some (.bytes sbuf)
  wr : e.get "s.stringWr.out" = some (.bytes sbuf)
  ans : e.get "s.memHash.answers" = some (.u64s ans)

theorem Doc.congr {pj : PJ} {e e' : Env} (h : Doc pj e) (h1 : e'.get "pj.lim" = e.get "pj.lim")
    (h2 : e'.get "Strings.B" = e.get "Strings.B") (h3 : e'.get "Message" = e.get "Message") : Doc pj e' :=
  ⟨h1.trans h.lim, h2.trans h.strs, h3.trans h.msg⟩

theorem TagI.congr {e e' : Env} {tags : Bytes} {k : Nat} {tb tw : Bytes} (h : TagI e tags k tb tw)
    (h1 : e'.get "tagsOff" = e.get "tagsOff") (h2 : e'.get "s.tagsBuf" = e.get "s.tagsBuf")
    (h3 : e'.get "tagWr.out" = e.get "tagWr.out") (h4 : e'.get "rawTags" = e.get "rawTags") : TagI e' tags k tb tw :=
  ⟨h1.trans h.off, h2.trans h.buf, h3.trans h.wr, h4.trans h.raw, h.sz, h.le, h.eq⟩

theorem ValI.congr {e e' : Env} {values vb vw : Bytes} (h : ValI e values vb vw)
    (h1 : e'.get "s.valuesBuf" = e.get "s.valuesBuf") (h2 : e'.get "valWr.out" = e.get "valWr.out")
    (h3 : e'.get "rawValues" = e.get "rawValues") : ValI e' values vb vw :=
  ⟨h1.trans h.buf, h2.trans h.wr, h3.trans h.raw, h.eq⟩

theorem StrI.congr {e e' : Env} {table : Array Nat} {sbuf : Bytes} {ans : List UInt64} (h : StrI e table sbuf ans)
    (h1 : e'.get "s.stringsTable" = e.get "s.stringsTable") (h2 : e'.get "s.stringBuf" = e.get "s.stringBuf")
    (h3 : e'.get "s.stringWr.out" = e.get "s.stringWr.out")
    (h4 : e'.get "s.memHash.answers" = e.get "s.memHash.answers") : StrI e' table sbuf ans :=
  ⟨h1.trans h.tbl, h.ok, h2.trans h.buf, h3.trans h.wr, h4.trans h.ans⟩

/-- the variables the invariants speak about -/
def invKeys : List String := ["pj.lim", "Strings.B", "Message", "tagsOff", "s.tagsBuf", "tagWr.out", "rawTags",
  "s.valuesBuf", "valWr.out", "rawValues", "s.stringsTable", "s.stringBuf", "s.stringWr.out", "s.memHash.answers", "off"]

/-- the loop invariant: the store `e` represents the model state `st` at tape offset `off` -/
structure LInv (pj : PJ) (e : Env) (st : SerState) (off : Nat) (ans : List UInt64) (k : Nat) (tb tw vb vw : Bytes) : Prop where
  doc : Doc pj e
  off : e.get "off" = some (.int off)
  tag : TagI e st.tags k tb tw
  val : ValI e st.values vb vw
  str : StrI e st.table st.stringBuf ans

/-- setting a variable the invariants do not speak about -/
theorem LInv.set {pj : PJ} {e : Env} {st : SerState} {off : Nat} {ans : List UInt64} {k : Nat} {tb tw vb vw : Bytes}
    (h : LInv pj e st off ans k tb tw vb vw) (x : String) (v : Val) (hx : x ∉ invKeys) :
    LInv pj (e.set x v) st off ans k tb tw vb vw := by
  simp only [invKeys, List.mem_cons, List.not_mem_nil, or_false, not_or] at hx
  obtain ⟨k1, k2, k3, k4, k5, k6, k7, k8, k9, k10, k11, k12, k13, k14, k15⟩ := hx
  exact ⟨h.doc.congr (by simp [k1]) (by simp [k2]) (by simp [k3]), by simp [k15, h.off],
    h.tag.congr (by simp [k4]) (by simp [k5]) (by simp [k6]) (by simp [k7]),
    h.val.congr (by simp [k8]) (by simp [k9]) (by simp [k10]),
    h.str.congr (by simp [k11]) (by simp [k12]) (by simp [k13]) (by simp [k14])⟩


theorem LInv.setOff {pj : PJ} {e : Env} {st : SerState} {off : Nat} {ans : List UInt64} {k : Nat} {tb tw vb vw : Bytes}
    (h : LInv pj e st off ans k tb tw vb vw) (o' : Nat) :
    LInv pj (e.set "off" (.int o')) st o' ans k tb tw vb vw :=
  ⟨h.doc.congr (by simp) (by simp) (by simp), by simp,
    h.tag.congr (by simp) (by simp) (by simp) (by simp),
    h.val.congr (by simp) (by simp) (by simp),
    h.str.congr (by simp) (by simp) (by simp) (by simp)⟩

/-- the store after `PutUint64(tmp[:], w); s.valuesBuf = append(s.valuesBuf, tmp[:]...)` -/
def pushE (e : Env) (vb : Bytes) (w : UInt64) : Env :=
  (e.set "tmp" (.bytes (le64Bytes w).toArray)).set "s.valuesBuf" (.bytes (vb ++ (le64Bytes w).toArray))

theorem LInv.push {pj : PJ} {e : Env} {st : SerState} {off : Nat} {ans : List UInt64} {k : Nat} {tb tw vb vw : Bytes}
    (h : LInv pj e st off ans k tb tw vb vw) (w : UInt64) :
    LInv pj (pushE e vb w) (pushVal st w) off ans k tb tw (vb ++ (le64Bytes w).toArray) vw :=
  ⟨h.doc.congr (by simp [pushE]) (by simp [pushE]) (by simp [pushE]), by simp [pushE, h.off],
    h.tag.congr (by simp [pushE]) (by simp [pushE]) (by simp [pushE]) (by simp [pushE]),
    ⟨by simp [pushE], by simp [pushE, h.val.wr], by simp [pushE, h.val.raw], by
      simp only [pushVal]; rw [← h.val.eq, Array.append_assoc]⟩,
    h.str.congr (by simp [pushE]) (by simp [pushE]) (by simp [pushE]) (by simp [pushE])⟩

theorem le64_size (w : UInt64) : (le64Bytes w).toArray.size = 8 := by simp [le64Bytes]

theorem push_exec (e : Env) (tape : Array UInt64) (fuel : Nat) (X : Expr) (w : UInt64) (vb : Bytes) (rest : List Stmt)
    (hX : evalE ⟨e, tape⟩ X = .val (.u64 w)) (hv : e.get "s.valuesBuf" = some (.bytes vb)) :
    exec goFuns fuel (pushS X ++ rest) ⟨e, tape⟩ = exec goFuns fuel rest ⟨pushE e vb w, tape⟩ := by
  have hle : (List.map (fun i => (w >>> UInt64.ofNat (8 * i)).toUInt8) (List.range 8)) = le64Bytes w := rfl
  simp only [pushS, List.cons_append, List.nil_append]
  rw [exec, exec1]
  simp only [evalE, hX, hle]
  rw [exec, exec1]
  simp [hv, le64_size, pushE]

theorem push_exec_panic (e : Env) (tape : Array UInt64) (fuel : Nat) (X : Expr) (rest : List Stmt)
    (hX : evalE ⟨e, tape⟩ X = .panic) :
    exec goFuns fuel (pushS X ++ rest) ⟨e, tape⟩ = .panic := by
  simp only [pushS, List.cons_append, List.nil_append]
  rw [exec, exec1]
  simp only [evalE, hX, ofE]

theorem eval_tape1 (pj : PJ) (e : Env) (off : Nat) (hl : e.get "pj.lim" = some (.int pj.tape.size))
    (ho : e.get "off" = some (.int off)) :
    evalE ⟨e, pj.tape⟩ tape1 = match pj.tape[off + 1]? with | some w => .val (.u64 w) | none => .panic := by
  by_cases h : off + 1 < pj.tape.size
  · have h' : (off : Int) + 1 < pj.tape.size := by omega
    have h0 : (0 : Int) ≤ off + 1 := by omega
    have e1 : ((off : Int) + 1).toNat = off + 1 := by omega
    simp [tape1, hl, ho, h, h', h0, e1]
  · have h' : ¬ (off : Int) + 1 < pj.tape.size := by omega
    have hn : pj.tape[off + 1]? = none := by simp; omega
    simp [tape1, hl, ho, h', hn]


/-- outcome of the `switch` against the model's `serSwitch`: the store represents the new state (tags unchanged yet),
    `off` is the model's, `ntype` the tag to be written -/
def SwPost (pj : PJ) (ans' : List UInt64) (k : Nat) (tb tw vw : Bytes) (o : Out) (r : Res (SerState × Nat × UInt8)) : Prop :=
  match r with
  | .ok r => ∃ e' vb', o = .normal ⟨e', pj.tape⟩ ∧ LInv pj e' r.1 r.2.1 ans' k tb tw vb' vw ∧
      e'.get "ntype" = some (.u8 r.2.2)
  | .panic => o = .panic
  | _ => False

/-- clauses without statements: `TagNop`; `TagNull, TagBoolTrue, TagBoolFalse`; `TagObjectEnd, TagArrayEnd, TagEnd` -/
theorem case_empty_sim {pj : PJ} {e : Env} {st : SerState} {off : Nat} {ans : List UInt64} {k : Nat} {tb tw vb vw : Bytes}
    (h : LInv pj e st off ans k tb tw vb vw) (fuel : Nat) (t : UInt8) (ht : e.get "ntype" = some (.u8 t)) :
    SwPost pj ans k tb tw vw (exec goFuns fuel [] ⟨e, pj.tape⟩) (.ok (st, off, t)) :=
  ⟨e, vb, by simp, h, ht⟩

/-- `case TagUint`, `case TagInteger`, and `TagFloat` without flags: `PutUint64(tmp[:], pj.Tape[off+1]); append; off++` -/
theorem case_num_sim {pj : PJ} {e : Env} {st : SerState} {off : Nat} {ans : List UInt64} {k : Nat} {tb tw vb vw : Bytes}
    (h : LInv pj e st off ans k tb tw vb vw) (fuel : Nat) (t : UInt8) (ht : e.get "ntype" = some (.u8 t)) :
    SwPost pj ans k tb tw vw (exec goFuns fuel (pushS tape1 ++ [offInc]) ⟨e, pj.tape⟩)
      (rd pj.tape (off + 1) >>= fun v => .ok (pushVal st v, off + 1, t)) := by
  have hev := eval_tape1 pj e off h.doc.lim h.off
  simp only [rd]
  cases hw : pj.tape[off + 1]? with
  | none =>
    rw [hw] at hev
    rw [push_exec_panic _ _ _ _ _ hev]
    exact rfl
  | some w =>
    rw [hw] at hev
    rw [push_exec _ _ _ _ w vb _ hev h.val.buf]
    have h1 := h.push w
    refine ⟨(pushE e vb w).set "off" (.int ((off + 1 : Nat) : Int)), _, ?_, h1.setOff (off + 1), ?_⟩
    · simp [offInc, h1.off]
    · simp [pushE, ht]

/-- `case TagObjectStart, TagArrayStart, TagRoot` -/
theorem case_open_sim {pj : PJ} {e : Env} {st : SerState} {off : Nat} {ans : List UInt64} {k : Nat} {tb tw vb vw : Bytes}
    (h : LInv pj e st off ans k tb tw vb vw) (fuel : Nat) (t : UInt8) (w : UInt64) (ht : e.get "ntype" = some (.u8 t))
    (hp : e.get "payload" = some (.u64 (payloadOf w))) :
    SwPost pj ans k tb tw vw (exec goFuns fuel (caseBody 6) ⟨e, pj.tape⟩)
      (.ok (pushVal st (payloadOf w - UInt64.ofNat off), off, t)) := by
  rw [case6_eq]
  have hev : evalE ⟨e, pj.tape⟩ (.bin .sub (.v "payload") (.conv .u64 (.v "off"))) =
      .val (.u64 (payloadOf w - UInt64.ofNat off)) := by
    simp [hp, h.off, GoSet.ofInt_natCast]
  have := push_exec e pj.tape fuel _ _ vb [] hev h.val.buf
  rw [List.append_nil] at this
  rw [this]
  exact ⟨_, _, by simp, h.push _, by simp [pushE, ht]⟩

/-- `case TagFloat` -/
theorem case_float_sim {pj : PJ} {e : Env} {st : SerState} {off : Nat} {ans : List UInt64} {k : Nat} {tb tw vb vw : Bytes}
    (h : LInv pj e st off ans k tb tw vb vw) (fuel : Nat) (w : UInt64) (ht : e.get "ntype" = some (.u8 (tagOf w)))
    (hp : e.get "payload" = some (.u64 (payloadOf w))) (hw : e.get "entry" = some (.u64 w)) :
    SwPost pj ans k tb tw vw (exec goFuns fuel (caseBody 4) ⟨e, pj.tape⟩)
      (rd pj.tape (off + 1) >>= fun v =>
        if payloadOf w == 0 then .ok (pushVal st v, off + 1, tagOf w)
        else .ok (pushVal (pushVal st w) v, off + 1, tagFloatWithFlag)) := by
  rw [case4_eq, exec, exec1]
  by_cases hz : payloadOf w = 0
  · have hc : evalE ⟨e, pj.tape⟩ (.bin .eq (.v "payload") (.u64 0)) = .val (.bool true) := by simp [hp, hz]
    have hb : (payloadOf w == 0) = true := by simp [hz]
    simp only [hc, hb, if_true]
    have := case_num_sim h fuel (tagOf w) ht
    revert this
    generalize exec goFuns fuel (pushS tape1 ++ [offInc]) ⟨e, pj.tape⟩ = o
    generalize (rd pj.tape (off + 1) >>= fun v => (Res.ok (pushVal st v, off + 1, tagOf w) : Res (SerState × Nat × UInt8))) = r
    intro hs
    cases r with
    | ok r => obtain ⟨e', vb', rfl, h2, h3⟩ := hs; exact ⟨e', vb', by simp, h2, h3⟩
    | panic => simp only [SwPost] at hs; subst hs; exact rfl
    | error _ => exact hs.elim
    | diverge => exact hs.elim
  · have hc : evalE ⟨e, pj.tape⟩ (.bin .eq (.v "payload") (.u64 0)) = .val (.bool false) := by simp [hp, hz]
    have hb : (payloadOf w == 0) = false := by simp [hz]
    simp only [hc, hb, Bool.false_eq_true, if_false]
    -- `ntype = tagFloatWithFlag`, the entry itself, then the float
    have h1 : LInv pj (e.set "ntype" (.u8 101)) st off ans k tb tw vb vw := h.set "ntype" _ (by decide)
    have hx1 : exec goFuns fuel (.assign "ntype" (.u8 101) :: (pushS (.v "entry") ++ (pushS tape1 ++ [offInc]))) ⟨e, pj.tape⟩ =
        exec goFuns fuel (pushS (.v "entry") ++ (pushS tape1 ++ [offInc])) ⟨e.set "ntype" (.u8 101), pj.tape⟩ := by
      rw [exec, exec1]; simp only [evalE]; rfl
    have hev : evalE ⟨e.set "ntype" (.u8 101), pj.tape⟩ (.v "entry") = .val (.u64 w) := by simp [hw]
    rw [hx1, push_exec _ _ _ _ w vb _ hev h1.val.buf]
    have h2 := h1.push w
    have := case_num_sim h2 fuel tagFloatWithFlag (by simp [pushE, tagFloatWithFlag])
    revert this
    generalize exec goFuns fuel (pushS tape1 ++ [offInc]) ⟨pushE (e.set "ntype" (.u8 101)) vb w, pj.tape⟩ = o
    generalize (rd pj.tape (off + 1) >>= fun v =>
      (Res.ok (pushVal (pushVal st w) v, off + 1, tagFloatWithFlag) : Res (SerState × Nat × UInt8))) = r
    intro hs
    cases r with
    | ok r => obtain ⟨e', vb', rfl, h2, h3⟩ := hs; exact ⟨e', vb', by simp, h2, h3⟩
    | panic => simp only [SwPost] at hs; subst hs; exact rfl
    | error _ => exact hs.elim
    | diverge => exact hs.elim


/-- a store that agrees on the variables of the invariants -/
theorem LInv.congr {pj : PJ} {e e' : Env} {st : SerState} {off : Nat} {ans : List UInt64} {k : Nat} {tb tw vb vw : Bytes}
    (h : LInv pj e st off ans k tb tw vb vw) (hk : ∀ x ∈ invKeys, e'.get x = e.get x) :
    LInv pj e' st off ans k tb tw vb vw :=
  ⟨h.doc.congr (hk _ (by decide)) (hk _ (by decide)) (hk _ (by decide)), (hk "off" (by decide)).trans h.off,
    h.tag.congr (hk _ (by decide)) (hk _ (by decide)) (hk _ (by decide)) (hk _ (by decide)),
    h.val.congr (hk _ (by decide)) (hk _ (by decide)) (hk _ (by decide)),
    h.str.congr (hk _ (by decide)) (hk _ (by decide)) (hk _ (by decide)) (hk _ (by decide))⟩

theorem indexString_tags (hash : Bytes → Nat) (s : SerState) (sb : Bytes) : (indexString hash s sb).1.tags = s.tags := by
  by_cases h : isHit hash s sb
  · rw [indexString_hit _ _ _ h]
  · rw [indexString_miss _ _ _ h]; rfl

theorem indexString_values (hash : Bytes → Nat) (s : SerState) (sb : Bytes) : (indexString hash s sb).1.values = s.values := by
  by_cases h : isHit hash s sb
  · rw [indexString_hit _ _ _ h]
  · rw [indexString_miss _ _ _ h]; rfl

theorem isWr_self (hash : Bytes → Nat) (s : SerState) (sb : Bytes) :
    isWr hash s sb s.stringBuf = (indexString hash s sb).1.stringBuf := by
  by_cases h : isHit hash s sb
  · rw [indexString_hit _ _ _ h, isWr, if_pos h]
  · rw [indexString_miss _ _ _ h, isWr, if_neg h]; rfl

/-- the invariant after `offset := s.indexString(sb)` -/
theorem LInv.called {pj : PJ} {e : Env} {st : SerState} {off : Nat} {a : UInt64} {rest : List UInt64} {k : Nat}
    {tb tw vb vw : Bytes} (h : LInv pj e st off (a :: rest) k tb tw vb vw) (hash : Bytes → Nat) (sb : Bytes)
    (hok : TblOK (indexString hash st sb).1.table) :
    LInv pj (isBack e (tblVal (indexString hash st sb).1.table) (indexString hash st sb).1.stringBuf
      (isWr hash st sb st.stringBuf) (.bytes tb) (.bytes vb) rest (.bytes pj.strings) (.bytes pj.msg))
      (indexString hash st sb).1 off rest k tb tw vb vw := by
  refine ⟨h.doc.congr (by simp [isBack]) (by simp [isBack, h.doc.strs]) (by simp [isBack, h.doc.msg]),
    by simp [isBack, h.off], ?_, ?_, ?_⟩
  · rw [indexString_tags]
    exact h.tag.congr (by simp [isBack]) (by simp [isBack, h.tag.buf]) (by simp [isBack]) (by simp [isBack])
  · rw [indexString_values]
    exact h.val.congr (by simp [isBack, h.val.buf]) (by simp [isBack]) (by simp [isBack])
  · exact ⟨by simp [isBack], hok, by simp [isBack], by simp [isBack, isWr_self], by simp [isBack]⟩

/-! ## the answers `memHash` gives during the loop -/

/-- the string a `TagString` entry at `off` denotes, if the loop gets as far as hashing it -/
def strAt (pj : PJ) (off : Nat) : Option Bytes :=
  match pj.tape[off]?, pj.tape[off + 1]? with
  | some w, some len =>
    if tagOf w = 34 then (match stringByteAt pj (payloadOf w) len with | .ok sb => some sb | _ => none) else none
  | _, _ => none

/-- the offset of the next entry -/
def nextOff (pj : PJ) (off : Nat) : Nat :=
  match pj.tape[off]? with
  | some w => if tagOf w = 34 ∨ tagOf w = 117 ∨ tagOf w = 108 ∨ tagOf w = 100 then off + 2 else off + 1
  | none => off + 1

/-- `hash` of every string the loop meets from `off` on, in order (mirrors `serLoop`) -/
def hashTraceFrom (pj : PJ) (hash : Bytes → Nat) (off : Nat) : Nat → List UInt64
  | 0 => []
  | fuel + 1 =>
    if off ≥ pj.tape.size then []
    else (match strAt pj off with | some sb => [UInt64.ofNat (hash sb)] | none => []) ++
      hashTraceFrom pj hash (nextOff pj off) fuel

/-- the answers of `memHash` for a whole run of the loop -/
def hashTrace (pj : PJ) (hash : Bytes → Nat) : List UInt64 := hashTraceFrom pj hash 0 (pj.tape.size + 1)

/-- no string entry of the tape has a length that `indexString` refuses (`uint32(len(sb)) == math.MaxUint32`:
    `panic("string too long")`, a check the hand model does not have) -/
def NoMaxLenString (pj : PJ) : Prop :=
  ∀ off sb, strAt pj off = some sb → sb.size % 2^32 ≠ 2^32 - 1

theorem callFun_arg_panic (s : St) (recv fn : String) (a1 a2 : Expr) (v : Val) (f : Nat) (fd : FunDef) (hfd : goFuns fn = some fd)
    (h1 : evalE s a1 = .val v) (h2 : evalE s a2 = .panic) :
    callFun goFuns f recv fn [] [a1, a2] s = .panic := by
  rw [callFun]
  simp [hfd, h1, h2]


theorem exec_nil (funs : String → Option FunDef) (fuel : Nat) (s : St) : exec funs fuel [] s = .normal s := by rw [exec]

theorem exec_ite_skip (funs : String → Option FunDef) (fuel : Nat) (c : Expr) (t rest : List Stmt) (s : St)
    (h : evalE s c = .val (.bool false)) : exec funs fuel (.ite c t [] :: rest) s = exec funs fuel rest s := by
  rw [exec, exec1, h]
  simp only [exec_nil]

theorem exec_ite_panic (funs : String → Option FunDef) (fuel : Nat) (c : Expr) (e rest : List Stmt) (s : St)
    (h : evalE s c = .val (.bool true)) : exec funs fuel (.ite c [.panicS] e :: rest) s = .panic := by
  rw [exec, exec1, h]
  simp only []
  rw [exec, exec1]

/-- `case TagString` -/
theorem case_string_sim {pj : PJ} {e : Env} {st : SerState} {off : Nat} {ans ans' : List UInt64} {k : Nat}
    {tb tw vb vw : Bytes} (h : LInv pj e st off ans k tb tw vb vw) (hash : Bytes → Nat) (f : Nat) (w : UInt64)
    (hb : BufOK pj)
    (hnm : ∀ len sb, pj.tape[off + 1]? = some len → stringByteAt pj (payloadOf w) len = .ok sb → sb.size % 2^32 ≠ 2^32 - 1)
    (ht : e.get "ntype" = some (.u8 (tagOf w))) (hp : e.get "payload" = some (.u64 (payloadOf w)))
    (hans : ∀ len sb, pj.tape[off + 1]? = some len → stringByteAt pj (payloadOf w) len = .ok sb →
      ans = UInt64.ofNat (hash sb) :: ans') :
    SwPost pj ans' k tb tw vw (exec goFuns (f + 1) (caseBody 1) ⟨e, pj.tape⟩)
      (rd pj.tape (off + 1) >>= fun len =>
        match stringByteAt pj (payloadOf w) len with
        | .ok sb => .ok (pushVal (pushVal (indexString hash st sb).1 (indexString hash st sb).2) (UInt64.ofNat sb.size),
            off + 1, tagOf w)
        | _ => .panic) := by
  rw [case1_eq, exec, exec1]
  have hev := eval_tape1 pj e off h.doc.lim h.off
  have hpl : evalE ⟨e, pj.tape⟩ (.v "payload") = .val (.u64 (payloadOf w)) := by simp [hp]
  simp only [rd]
  cases hw : pj.tape[off + 1]? with
  | none =>
    rw [hw] at hev
    rw [callFun_arg_panic _ _ _ _ _ _ f _ rfl hpl hev]
    exact rfl
  | some len =>
    rw [hw] at hev
    simp only [Res.bind_ok]
    have hcall := callFun_sb ⟨e, pj.tape⟩ pj "pj" pj.tape.size (.v "payload") tape1 (payloadOf w) len f hb h.doc.lim
      h.doc.strs h.doc.msg hpl hev
    rw [hcall]
    rcases stringByteAt_cases pj (payloadOf w) len with ⟨sb, hsb⟩ | herr
    · rw [hsb]
      have hans' := hans len sb hw hsb
      subst hans'
      simp only [sbVals, assignTargets, String.reduceBEq, Bool.false_eq_true, if_false]
      -- the store after the first call
      generalize he1 : (((((e.set ("pj" ++ "." ++ "lim") (.int pj.tape.size)).set "Strings.B" (.bytes pj.strings)).set "Message"
        (.bytes pj.msg)).set "sb" (.bytes sb)).set "err" (.bool false)) = e1
      have hk1 : ∀ x ∈ invKeys, e1.get x = e.get x := by
        intro x hx
        subst he1
        simp only [invKeys, List.mem_cons, List.not_mem_nil, or_false] at hx
        rcases hx with rfl | rfl | rfl | rfl | rfl | rfl | rfl | rfl | rfl | rfl | rfl | rfl | rfl | rfl | rfl <;>
          simp [h.doc.lim, h.doc.strs, h.doc.msg]
      have h1 : LInv pj e1 st off (UInt64.ofNat (hash sb) :: ans') k tb tw vb vw := h.congr hk1
      have hsb1 : e1.get "sb" = some (.bytes sb) := by subst he1; simp
      have herr1 : e1.get "err" = some (.bool false) := by subst he1; simp
      have hnt1 : e1.get "ntype" = some (.u8 (tagOf w)) := by subst he1; simp [ht]
      show SwPost pj ans' k tb tw vw (exec goFuns (f + 1) _ ⟨e1, pj.tape⟩) _
      rw [exec_ite_skip _ _ _ _ _ _ (by simp [herr1])]
      rw [exec, exec1]
      -- the second call
      have hlen := hnm len sb hw hsb
      have hh : hash sb % 16384 = (UInt64.ofNat (hash sb)).toNat % 16384 := by
        rw [UInt64.toNat_ofNat']; omega
      obtain ⟨hc2, hok2⟩ := indexString_sim hash st sb (UInt64.ofNat (hash sb)) ans' ⟨e1, pj.tape⟩ (.v "sb") st.stringBuf
        (.bytes tb) (.bytes vb) (.bytes pj.strings) (.bytes pj.msg) f h1.str.ok hh hlen h1.str.tbl h1.str.buf h1.str.wr
        h1.tag.buf h1.val.buf h1.str.ans h1.doc.strs h1.doc.msg (by simp [hsb1])
      rw [hc2]
      simp only [assignTargets, String.reduceBEq, Bool.false_eq_true, if_false]
      have h2 := (h1.called hash sb hok2).set "offset" (.u64 (indexString hash st sb).2) (by decide)
      generalize he2 : (isBack e1 (tblVal (indexString hash st sb).1.table) (indexString hash st sb).1.stringBuf
        (isWr hash st sb st.stringBuf) (.bytes tb) (.bytes vb) ans' (.bytes pj.strings) (.bytes pj.msg)).set "offset"
        (.u64 (indexString hash st sb).2) = e2 at h2
      have hsb2 : e2.get "sb" = some (.bytes sb) := by subst he2; simp [isBack, hsb1]
      have hnt2 : e2.get "ntype" = some (.u8 (tagOf w)) := by subst he2; simp [isBack, hnt1]
      have hof2 : e2.get "offset" = some (.u64 (indexString hash st sb).2) := by subst he2; simp
      show SwPost pj ans' k tb tw vw (exec goFuns (f + 1) _ ⟨e2, pj.tape⟩) _
      rw [push_exec e2 pj.tape (f + 1) (.v "offset") (indexString hash st sb).2 vb _ (by simp [hof2]) h2.val.buf]
      have h3 := h2.push (indexString hash st sb).2
      have hsb3 : (pushE e2 vb (indexString hash st sb).2).get "sb" = some (.bytes sb) := by simp [pushE, hsb2]
      rw [push_exec _ pj.tape (f + 1) (.conv .u64 (.lenB (.v "sb"))) (UInt64.ofNat sb.size) _ _
        (by simp [hsb3, GoSet.ofInt_natCast]) h3.val.buf]
      have h4 := h3.push (UInt64.ofNat sb.size)
      refine ⟨_, _, ?_, h4.setOff (off + 1), ?_⟩
      · simp [offInc, h4.off]
      · simp [pushE, hnt2]
    · rw [herr]
      simp only [sbVals, assignTargets, String.reduceBEq, Bool.false_eq_true, if_false]
      rw [exec, exec1]
      simp
      exact rfl


end SJ.GoSerialize
