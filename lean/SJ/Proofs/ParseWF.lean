import SJ.Proofs.Stage2WF
import SJ.Proofs.ScanLex
import SJ.Proofs.Rounds
import SJ.Proofs.DecodeSound
import SJ.Proofs.Bridge
import SJ.Proofs.Framing
/-
Assembly: every successful `Parse` / `ParseND` of the model returns a tape that holds a located document
(the ghost built alongside stage 2): the documented format (C17), tight, and — in copy mode — with every string
in the string buffer (C16); hence the executable checker accepts it and the read-back through the iterator API
returns exactly that document (C02).  No reference to the grammar: this holds for *every* accepted input,
including those outside C01's claim.
-/
namespace SJ.ParseWF
open SJ SJ.ParseDefs SJ.Layout

theorem runMG_of_runM (cfg : Cfg) (buf : Bytes) : ∀ (l : List (Nat × Nat)) (m : M) (g : Ghost) (m' : M),
    runM cfg buf m l = some m' → ∃ g', runMG cfg buf m g l = some (m', g')
  | [], m, g, m', h => by simp only [runM] at h; cases h; exact ⟨g, rfl⟩
  | (idx, peek) :: r, m, g, m', h => by
    simp only [runM] at h
    simp only [runMG]
    cases hs : m.step cfg buf idx peek with
    | none => rw [hs] at h; cases h
    | some m1 => rw [hs] at h; exact runMG_of_runM cfg buf r m1 _ m' h

theorem filter_range_pairwise (n : Nat) (f : Nat → Bool) : ((List.range n).filter f).Pairwise (· < ·) :=
  List.Pairwise.sublist List.filter_sublist List.pairwise_lt_range

/-- a finished run of stage 2 over the index buffers of a message stage 1 accepted: the tape holds the ghost -/
theorem run_wf (cfg : Cfg) (nd : Bool) (msg : Bytes) (idx : Array Nat) (m' m : M) (g : Ghost) (hsz : SizeOK msg)
    (hs1 : stage1 nd msg = some idx) (hg : runMG cfg msg M.init {} (pairsOf (rounds msg idx)) = some (m', g))
    (h : m'.finish = some m) :
    (WalkLayout.OkRoots (pjOf m msg) g.roots 0 ∧ (∀ v ∈ g.roots, WalkLayout.Tight v) ∧
      (cfg.copyStrings = true → ∀ v ∈ g.roots, CopyIndep.Copied (pjOf m msg) v)) ∧
    m.tape.size ≤ 3 * msg.size + 2 ∧ m.strings.size ≤ msg.size := by
  have sf := (scanFacts nd msg).stage1_iff idx
  obtain ⟨hidx, _, hne, _, _, _⟩ := sf.mp hs1
  have hidx' : idx = (indices nd msg).toArray := by
    apply Array.ext'
    simpa using hidx
  have hpk : PeekOK msg (indices nd msg) (pairsOf (rounds msg idx)) := by
    rw [hidx']
    exact roundsFacts.peekOK msg (emit nd msg)
  have hlen : (pairsOf (rounds msg idx)).length = (indices nd msg).length := by
    rw [← hpk.fst, List.length_map]
  have hle : (indices nd msg).length ≤ msg.size := by
    unfold indices
    exact Nat.le_trans (List.length_filter_le _ _) (by simp)
  have hL : (pairsOf (rounds msg idx)).length < 2^50 := by
    unfold SizeOK at hsz; omega
  have hnel : pairsOf (rounds msg idx) ≠ [] := by
    intro e
    rw [e] at hlen
    exact hne (List.eq_nil_of_length_eq_zero hlen.symm)
  have hsizes := Stage2WF.stage2_sizes_peekOK cfg msg (indices nd msg) _ m' m g hsz hL hnel hpk
    (filter_range_pairwise _ _) hg h
  refine ⟨Stage2WF.stage2_wf_peekOK cfg msg (indices nd msg) _ m' m g hsz hL hnel hpk
    (filter_range_pairwise _ _) hg h, ?_, hsizes.2⟩
  have := hsizes.1
  omega

/-- What a successful run of the two stages on a (trimmed) message gives. -/
theorem parseMsg_wf (cfg : Cfg) (nd : Bool) (msg : Bytes) (m : M) (hsz : SizeOK msg)
    (h : parseMsg cfg nd msg = some m) :
    (∃ lvs : List LVal, WalkLayout.OkRoots (pjOf m msg) lvs 0 ∧ (∀ v ∈ lvs, WalkLayout.Tight v) ∧
      (cfg.copyStrings = true → ∀ v ∈ lvs, CopyIndep.Copied (pjOf m msg) v)) ∧
    m.tape.size ≤ 3 * msg.size + 2 ∧ m.strings.size ≤ msg.size := by
  unfold parseMsg at h
  cases hs1 : stage1 nd msg with
  | none => rw [hs1] at h; cases h
  | some idx =>
    rw [hs1] at h
    simp only [] at h
    unfold stage2 at h
    cases hr : runM cfg msg M.init (pairsOf (rounds msg idx)) with
    | none => rw [hr] at h; cases h
    | some m' =>
      rw [hr] at h
      simp only [] at h
      obtain ⟨g, hg⟩ := runMG_of_runM cfg msg _ M.init {} m' hr
      obtain ⟨h1, h2⟩ := run_wf cfg nd msg idx m' m g hsz hs1 hg h
      exact ⟨⟨g.roots, h1⟩, h2⟩

/-- **Every successful parse returns a well-formed tape holding a located document** (C17, C16, C02). -/
theorem parse_wf (cfg : Cfg) (nd : Bool) (input : Bytes) (pj : PJ) (hsz : SizeOK (trimSpace input))
    (h : parseAny cfg nd input = .ok pj) :
    ∃ lvs : List LVal, WalkLayout.OkRoots pj lvs 0 ∧ (∀ v ∈ lvs, WalkLayout.Tight v) ∧
      (cfg.copyStrings = true → ∀ v ∈ lvs, CopyIndep.Copied pj v) ∧
      WF pj (lvs.map erase) ∧ wfCheckD pj = true ∧
      (∃ ds, owalk pj = .ok ds ∧ decodeTapeD pj = some ds ∧ ds = (lvs.map erase).map DecodeSound.toOVal) ∧
      pj.msg = trimSpace input ∧ pj.tape.size ≤ 3 * (trimSpace input).size + 2 ∧ pj.strings.size ≤ (trimSpace input).size := by
  rw [parseAny_eq] at h
  cases hp : parseMsg cfg nd (trimSpace input) with
  | none => rw [hp] at h; cases h
  | some m =>
    rw [hp] at h
    simp only [Res.ok.injEq] at h
    subst h
    obtain ⟨⟨lvs, h1, h2, h3⟩, hs1, hs2⟩ := parseMsg_wf cfg nd (trimSpace input) m hsz hp
    obtain ⟨ds, hw, hd, hwf, hds⟩ := Bridge.owalk_eq_decode _ lvs h1 h2
    refine ⟨lvs, h1, h2, h3, hwf, ?_, ⟨ds, hw, hd, hds⟩, rfl, hs1, hs2⟩
    exact (DecodeSound.wfCheckD_iff _).mpr ⟨_, hwf⟩

/-- **Copy mode: nothing observable depends on the input buffer after the call returns** (C16): for every later
    content of `Message`, the complete read-back is unchanged. -/
theorem parse_copy_indep (nd : Bool) (input : Bytes) (pj : PJ) (hsz : SizeOK (trimSpace input))
    (h : parseAny { copyStrings := true } nd input = .ok pj) (scribble : Bytes) :
    owalk (CopyIndep.withMsg pj scribble) = owalk pj := by
  obtain ⟨lvs, h1, h2, h3, _⟩ := parse_wf _ nd input pj hsz h
  exact CopyIndep.owalk_msg_indep pj lvs h1 h2 (h3 rfl) scribble

/-- **Serialize/Deserialize round-trips every parse result** (C11 ∘ C17): for every accepted input up to 64 MiB (the
    bound under which the serializer's 55-bit string offsets cannot overflow for any tape), every hash function, codec
    and prior destination content, the uncompressed serialization of the parse result deserializes to a tape denoting
    the same document. -/
theorem parse_serde_roundtrip (cfg : Cfg) (nd : Bool) (input : Bytes) (pj : PJ) (hsz : (trimSpace input).size < 2^26)
    (h : parseAny cfg nd input = .ok pj) (hash : Bytes → Nat) (codec : Codec) (prior : Array UInt64) :
    ∃ d sec pj', WF pj d ∧ serialize pj hash = .ok sec ∧
      deserialize codec (encodeSections blkRaw sec) prior = .ok pj' ∧ WF pj' d := by
  have hsz' : SizeOK (trimSpace input) := by unfold SizeOK; omega
  obtain ⟨lvs, _, _, _, hwf, _, _, hmsg, ht, hs⟩ := parse_wf cfg nd input pj hsz' h
  have hmax : max pj.msg.size pj.strings.size ≤ (trimSpace input).size := by
    rw [hmsg]; exact Nat.max_le.mpr ⟨Nat.le_refl _, hs⟩
  have hb : pj.tape.size * max pj.msg.size pj.strings.size < 2^55 := by
    have h1 : pj.tape.size * max pj.msg.size pj.strings.size ≤ (3 * (trimSpace input).size + 2) * (trimSpace input).size :=
      Nat.mul_le_mul ht hmax
    have h2 : (3 * (trimSpace input).size + 2) * (trimSpace input).size ≤ (3 * 2^26 + 2) * 2^26 :=
      Nat.mul_le_mul (by omega) (by omega)
    have h3 : (3 * 2^26 + 2) * 2^26 < 2^55 := by decide
    omega
  obtain ⟨sec, pj', a, b, c⟩ := Framing.serialize_deserialize codec pj _ hash hwf (by omega) hb prior
  exact ⟨_, sec, pj', hwf, a, b, c⟩

end SJ.ParseWF
