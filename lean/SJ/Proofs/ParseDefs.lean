import SJ.Model.Stage2
import SJ.Spec.Json
import SJ.Proofs.BlockScan
import SJ.Proofs.WalkLayout
import SJ.Proofs.CopyIndep
import SJ.Proofs.Number
set_option linter.unusedVariables false
/-
Shared vocabulary of the whole-parser theorems (C01, C02, C08, C16, C17):

  * `Ghost`     a document tree built alongside the stage-2 machine (what the tape is *supposed* to hold);
  * scanner vocabulary over positions of the message: `σ`, `emit`, `cnt`, `Ready`;
  * `closeQ`    where a string body ends (the notion stage 1 and the RFC string production share);
  * `PeekOK`    what stage 2 may assume about the (index, peek) pairs it gets from the index buffers;
  * `ofSpec`    the tape-level document a specification value corresponds to.

Only definitions live here (plus `rfl`-lemmas); the theorems are in `ScanLex`, `StrLex`, `Rounds`, `Stage2WF`,
`MachineSim` and `ParseSpec`.
-/
namespace SJ.ParseDefs
open SJ SJ.Generated SJ.Layout

/-! ## Ghost document built alongside the machine -/

/-- an open container under construction (members/elements newest first) -/
inductive Frame where
  | arr (pos : Nat) (rev : List LVal)
  | obj (pos : Nat) (rev : List (Nat × List UInt8 × LVal)) (key : Option (Nat × List UInt8))
  deriving Inhabited

structure Ghost where
  frames  : List Frame := []        -- innermost first
  rootPos : Nat := 0                -- tape position of the open root word
  rootVal : Option LVal := none     -- the closed top-level container of the current root
  done    : List LVal := []         -- values of the closed roots, newest first
  deriving Inhabited

def toLVals : List LVal → LVals
  | [] => .nil
  | v :: vs => .cons v (toLVals vs)

def toLMems : List (Nat × List UInt8 × LVal) → LMems
  | [] => .nil
  | (pk, k, v) :: ms => .cons pk k v (toLMems ms)

namespace Ghost

/-- a complete value becomes the next element / the value of the pending key / the root's content -/
def addVal (g : Ghost) (v : LVal) : Ghost :=
  match g.frames with
  | [] => { g with rootVal := some v }
  | .arr p r :: fs => { g with frames := .arr p (v :: r) :: fs }
  | .obj p r (some (pk, k)) :: fs => { g with frames := .obj p ((pk, k, v) :: r) none :: fs }
  | .obj p r none :: fs => g

def setKey (g : Ghost) (pk : Nat) (k : List UInt8) : Ghost :=
  match g.frames with
  | .obj p r _ :: fs => { g with frames := .obj p r (some (pk, k)) :: fs }
  | _ => g

def openObj (g : Ghost) (pos : Nat) : Ghost := { g with frames := .obj pos [] none :: g.frames }
def openArr (g : Ghost) (pos : Nat) : Ghost := { g with frames := .arr pos [] :: g.frames }

/-- the end tag is written at `endPos`; the container occupies `[pos, endPos + 1)` -/
def close (g : Ghost) (endPos : Nat) : Ghost :=
  match g.frames with
  | .arr p r :: fs => ({ g with frames := fs }).addVal (.arr p (endPos + 1) (toLVals r.reverse))
  | .obj p r _ :: fs => ({ g with frames := fs }).addVal (.obj p (endPos + 1) (toLMems r.reverse))
  | [] => g

/-- ND mode: the current root is closed and a new one opened at `newRootPos` -/
def nextRoot (g : Ghost) (newRootPos : Nat) : Ghost :=
  { frames := [], rootPos := newRootPos, rootVal := none,
    done := match g.rootVal with | some v => v :: g.done | none => g.done }

/-- the root values in tape order once the machine has finished -/
def roots (g : Ghost) : List LVal :=
  (match g.rootVal with | some v => v :: g.done | none => g.done).reverse

end Ghost

/-- the leaf the machine writes at tape position `L` for a number (`parseNumber`'s tag word and value word) -/
def numLeaf (tg v : UInt64) (L : Nat) : LVal :=
  if tagOf tg == tagInteger then .int v L
  else if tagOf tg == tagUint then .uint v L
  else .float v (payloadOf tg) L

/-- the ghost effect of the scalar/open cases shared by the object-value and array-value states
    (mirrors `M.value`; only meaningful when `M.value` succeeds) -/
def gvalue (m : M) (g : Ghost) (buf : Bytes) (idx peek : Nat) : Ghost :=
  let c := buf.getD idx 0
  let L := m.tape.size
  if c == 34 then
    match decodeString buf (idx + 1) peek with
    | some (dec, _) => g.addVal (.str dec.toList L)
    | none => g
  else if c == 116 then g.addVal (.bool true L)
  else if c == 102 then g.addVal (.bool false L)
  else if c == 110 then g.addVal (.null L)
  else if c == 45 ∨ (48 ≤ c ∧ c ≤ 57) then
    match parseNumber buf idx with
    | some (tg, v) => g.addVal (numLeaf tg v L)
    | none => g
  else if c == 123 then g.openObj L
  else if c == 91 then g.openArr L
  else g

def gkey (m : M) (g : Ghost) (buf : Bytes) (idx peek : Nat) : Ghost :=
  match decodeString buf (idx + 1) peek with
  | some (dec, _) => g.setKey m.tape.size dec.toList
  | none => g

def groot (m : M) (g : Ghost) (c : UInt8) : Ghost :=
  if c == 123 then g.openObj m.tape.size else if c == 91 then g.openArr m.tape.size else g

/-- Ghost step: mirrors `M.step` (same case analysis on the state and the byte at the index);
    `m` is the machine state *before* the step. Only meaningful when `m.step` succeeds. -/
def gstep (m : M) (g : Ghost) (buf : Bytes) (idx peek : Nat) : Ghost :=
  let c := buf.getD idx 0
  match m.st with
  | .rootStart => groot m g c
  | .objBegin => if c == 34 then gkey m g buf idx peek else if c == 125 then g.close m.tape.size else g
  | .objKeyColon => g
  | .objValue => gvalue m g buf idx peek
  | .objContinue => if c == 125 then g.close m.tape.size else g
  | .objKeyAfterComma => if c == 34 then gkey m g buf idx peek else g
  | .arrBegin => if c == 93 then g.close m.tape.size else gvalue m g buf idx peek
  | .arrValue => gvalue m g buf idx peek
  | .arrContinue => if c == 93 then g.close m.tape.size else g
  | .startContinue => g
  | .ndSkip =>
    if c == 10 then g
    else
      -- `reopenRoot` writes the closing root word at `m.tape.size` and the new root word after it
      groot { m with tape := (m.tape.push 0).push 0 } (g.nextRoot (m.tape.size + 1)) c

/-- machine and ghost run together over (index, peek) pairs -/
def runMG (cfg : Cfg) (buf : Bytes) : M → Ghost → List (Nat × Nat) → Option (M × Ghost)
  | m, g, [] => some (m, g)
  | m, g, (idx, peek) :: r =>
    match m.step cfg buf idx peek with
    | none => none
    | some m' => runMG cfg buf m' (gstep m g buf idx peek) r

theorem runMG_fst (cfg : Cfg) (buf : Bytes) : ∀ (l : List (Nat × Nat)) (m : M) (g : Ghost),
    (runMG cfg buf m g l).map Prod.fst = runM cfg buf m l
  | [], m, g => rfl
  | (idx, peek) :: r, m, g => by
    simp only [runMG, runM]
    cases h : m.step cfg buf idx peek with
    | none => rfl
    | some m' => exact runMG_fst cfg buf r m' _

/-- the exported object of a finished machine -/
def pjOf (m : M) (buf : Bytes) : PJ := { tape := m.tape, strings := m.strings, msg := buf }

/-! ## Scanner vocabulary over positions -/

/-- scanner state before position `p` -/
abbrev σ (nd : Bool) (msg : Bytes) (p : Nat) : S1State := Block.padSt nd msg p
/-- position `p` is emitted as a structural index -/
abbrev emit (nd : Bool) (msg : Bytes) (p : Nat) : Bool := Block.padEmit nd msg p
/-- number of indices strictly before position `p` -/
def cnt (nd : Bool) (msg : Bytes) (p : Nat) : Nat := ((List.range p).filter (emit nd msg)).length
/-- all structural indices of the message (what `s1Scan` returns, by `Block.s1Scan_eq`) -/
def indices (nd : Bool) (msg : Bytes) : List Nat := (List.range msg.size).filter (emit nd msg)

/-- The scanner is *between tokens* at `p`: not inside a string, no dangling backslash, and the next
    non-white-space byte will be emitted (either the previous byte was white space / structural / a closing
    quote, or the byte at `p` is itself white space or structural, or the message ends). -/
structure Ready (nd : Bool) (msg : Bytes) (p : Nat) : Prop where
  notQ : (σ nd msg p).inQuote = false
  notB : (σ nd msg p).bsOdd = false
  pred : (σ nd msg p).prevPred = true ∨ msg.size ≤ p ∨ isWsByte (msg.getD p 0) = true ∨ isStructByte (msg.getD p 0) = true

/-- Offset of the closing quotation mark of a string body: the first quote that is not the second byte of a
    backslash pair (scanning left to right, a backslash always takes the next byte with it). -/
def closeQ : List UInt8 → Option Nat
  | [] => none
  | c :: r =>
    if c == 34 then some 0
    else if c == 92 then
      match r with
      | [] => none
      | _ :: r' => (closeQ r').map (· + 2)
    else (closeQ r).map (· + 1)

/-! ## What stage 2 may assume about its input -/

/-- `L` lists the indices in order; the peek value of an entry is the distance to the next index, except
    that the last entry of an index buffer has peek 0 — which only happens at markup bytes `{ } [ ] : ,`
    or when the following index is not at a markup byte (a single trailing non-markup index is carried
    into the next buffer). -/
structure PeekOK (msg : Bytes) (idx : List Nat) (L : List (Nat × Nat)) : Prop where
  fst : L.map Prod.fst = idx
  peek : ∀ k (h : k + 1 < L.length),
    (L[k]).2 = (L[k+1]).1 - (L[k]).1 ∨
    ((L[k]).2 = 0 ∧ (isMarkup (msg.getD (L[k]).1 0) = true ∨ isMarkup (msg.getD (L[k+1]).1 0) = false))

/-! ## Specification values as tape-level documents -/

def ofNum : Spec.Num → JVal
  | .int z => .int (ofInt64 z)
  | .uint n => .uint (UInt64.ofNat n)
  | .float b flag => .float b (if flag then wFloatOverflowedInteger else 0)

mutual
def ofSpec : Spec.JVal → JVal
  | .null => .null
  | .bool b => .bool b
  | .num n => ofNum n
  | .str s => .str s
  | .arr l => .arr (ofSpecList l)
  | .obj l => .obj (ofSpecMems l)
def ofSpecList : List Spec.JVal → JVals
  | [] => .nil
  | v :: vs => .cons (ofSpec v) (ofSpecList vs)
def ofSpecMems : List (List UInt8 × Spec.JVal) → JMems
  | [] => .nil
  | (k, v) :: ms => .cons k (ofSpec v) (ofSpecMems ms)
end

/-- the part of `parseAny` after `bytes.TrimSpace` -/
def parseMsg (cfg : Cfg) (nd : Bool) (msg : Bytes) : Option M :=
  match stage1 nd msg with
  | none => none
  | some idx => stage2 cfg msg (rounds msg idx)

theorem parseAny_eq (cfg : Cfg) (nd : Bool) (input : Bytes) :
    parseAny cfg nd input =
      match parseMsg cfg nd (trimSpace input) with
      | none => .error .generic
      | some m => .ok (pjOf m (trimSpace input)) := by
  unfold parseAny parseMsg
  simp only []
  cases h : stage1 nd (trimSpace input) with
  | none => simp [h]
  | some idx =>
    simp only [h]
    cases h2 : stage2 cfg (trimSpace input) (rounds (trimSpace input) idx) <;> simp [pjOf]

/-- the size bound under which tape positions and string offsets fit their fields (every real input meets
    it: a Go slice cannot be this long) -/
def SizeOK (msg : Bytes) : Prop := msg.size < 2^50

end SJ.ParseDefs
