import SJ.Proofs.F64RoundNearest
import SJ.Proofs.F64RoundDec
/-
`roundDecimal` is correctly rounded: `roundDecimal neg m e = some b → IsNearestEven b ((−1)^neg · m · 10^e)`
(`roundDecimal_nearest`), through `roundPos_nearest` (sticky path included) and the two magnitude guards.
-/
namespace SJ.F64Round
open SJ SJ.F64 SJ.Numeric

/-- the exact rational `(−1)^neg · m · 10^e` -/
def decValue (neg : Bool) (m : Nat) (e : Int) : Rat := (if neg then -(m : Rat) else (m : Rat)) * (10 : Rat) ^ e

/-! ## 1. Powers of ten, cross multiplication -/

theorem ten_pow_cast (n : Nat) : (10 : Rat) ^ n = ((10 ^ n : Nat) : Rat) := by
  rw [Rat.natCast_pow]; rfl

theorem ten_zpow_of_nonneg (e : Int) (he : 0 ≤ e) : (10 : Rat) ^ e = ((10 ^ e.toNat : Nat) : Rat) := by
  obtain ⟨n, rfl⟩ := Int.eq_ofNat_of_zero_le he
  rw [Rat.zpow_natCast, ten_pow_cast]; simp

theorem ten_zpow_of_neg (e : Int) (he : e < 0) : (10 : Rat) ^ e * ((10 ^ e.natAbs : Nat) : Rat) = 1 := by
  obtain ⟨n, rfl⟩ : ∃ n : Nat, e = -(n : Int) := ⟨e.natAbs, by omega⟩
  rw [Rat.zpow_neg, Rat.zpow_natCast, ten_pow_cast]
  simp only [Int.natAbs_neg, Int.natAbs_natCast]
  apply Rat.inv_mul_cancel
  have : 0 < (10 ^ n : Nat) := Nat.pow_pos (by decide)
  intro h
  have h2 : ((10 ^ n : Nat) : Rat) = ((0 : Nat) : Rat) := h
  rw [Rat.natCast_inj] at h2
  omega

theorem natCast_pos' {n : Nat} (h : 0 < n) : (0 : Rat) < (n : Rat) := Rat.natCast_pos.mpr h

theorem cross_lt {a x : Rat} {P Q A X : Nat} (hP : 0 < P) (hQ : 0 < Q)
    (ha : a * (P : Rat) = (A : Rat)) (hx : x * (Q : Rat) = (X : Rat)) : a < x ↔ A * Q < X * P := by
  have hPQ : (0 : Rat) < (P : Rat) * (Q : Rat) := Rat.mul_pos (natCast_pos' hP) (natCast_pos' hQ)
  rw [← Rat.mul_lt_mul_right hPQ]
  have e1 : a * ((P : Rat) * (Q : Rat)) = ((A * Q : Nat) : Rat) := by
    rw [← Rat.mul_assoc, ha, Rat.natCast_mul]
  have e2 : x * ((P : Rat) * (Q : Rat)) = ((X * P : Nat) : Rat) := by
    rw [Rat.mul_comm (P : Rat), ← Rat.mul_assoc, hx, Rat.natCast_mul]
  rw [e1, e2, Rat.natCast_lt_natCast]

theorem cross_le {a x : Rat} {P Q A X : Nat} (hP : 0 < P) (hQ : 0 < Q)
    (ha : a * (P : Rat) = (A : Rat)) (hx : x * (Q : Rat) = (X : Rat)) : a ≤ x ↔ A * Q ≤ X * P := by
  rw [← Rat.not_lt, cross_lt hQ hP hx ha, Nat.not_lt]

theorem value_mul_pow (n : Nat) (k : Nat) (hk : 0 < k) :
    value false n (-(k : Int)) * ((2 ^ k : Nat) : Rat) = (n : Rat) := by
  unfold value
  simp only [Bool.false_eq_true, if_false]
  have := two_zpow_of_neg (-(k : Int)) (by omega)
  simp only [Int.natAbs_neg, Int.natAbs_natCast] at this
  rw [Rat.mul_assoc, this, Rat.mul_one]

theorem decValue_mul_pow (m : Nat) (e : Int) (he : e < 0) :
    decValue false m e * ((10 ^ e.natAbs : Nat) : Rat) = (m : Rat) := by
  unfold decValue
  simp only [Bool.false_eq_true, if_false]
  rw [Rat.mul_assoc, ten_zpow_of_neg e he, Rat.mul_one]

theorem decValue_nonneg (m : Nat) (e : Int) (he : 0 ≤ e) :
    decValue false m e = value false (m * 10 ^ e.toNat) 0 := by
  unfold decValue
  simp only [Bool.false_eq_true, if_false]
  rw [ten_zpow_of_nonneg e he, ← Rat.natCast_mul]
  have := value_nat (m * 10 ^ e.toNat) 0
  simp only [Int.natCast_zero, Nat.pow_zero, Nat.mul_one] at this
  exact this.symm

theorem decValue_true (m : Nat) (e : Int) : decValue true m e = - decValue false m e := by
  unfold decValue; simp [Rat.neg_mul]

/-! ## 2. Underflow to zero -/

theorem nearestAt_zero (x : Rat) (hx0 : 0 ≤ x) (hx : x < value false 1 (-1075)) :
    NearestAt false 0 (-1074) x := by
  have hw : value false 1 (-1074) = value false 1 (-1075) + value false 1 (-1075) := by
    have := value_double false 1 (-1075)
    rw [show (-1075 : Int) + 1 = -1074 from rfl] at this
    rw [this, ← value_add]
  have hz := value_zero (-1074)
  refine ⟨?_, fun _ _ _ _ _ _ _ => rfl⟩
  intro neg' m' e' hm he
  have hv : value neg' m' e' ≤ 0 ∨ value false 1 (-1074) ≤ value neg' m' e' := by
    cases neg'
    · by_cases h0 : m' = 0
      · left; rw [h0, value_zero]; exact Rat.le_refl
      · right
        obtain ⟨k, hk⟩ : ∃ k : Nat, e' = -1074 + k := ⟨(e' + 1074).toNat, by omega⟩
        rw [hk, ← value_shift']
        apply value_mono
        have : 1 * 1 ≤ m' * 2 ^ k := Nat.mul_le_mul (by omega) (two_pow_pos k)
        omega
    · left; exact value_true_nonpos m' e'
  rw [hz]
  unfold Rat.abs
  rcases hv with hv | hv <;> (repeat' split) <;> grind

/-! ## 3. Sign -/

theorem roundDecimal_sign_split (neg : Bool) (m : Nat) (e : Int) (b : UInt64)
    (h : roundDecimal neg m e = some b) :
    ∃ b0, roundDecimal false m e = some b0 ∧ b = signBit neg ||| b0 := by
  have hz : signBit false = 0 := rfl
  have hor : ∀ c : UInt64, signBit false ||| c = c := by intro c; simp [signBit]
  unfold roundDecimal at h ⊢
  by_cases hm : (m == 0) = true
  · simp only [hm, if_true] at h ⊢
    exact ⟨_, rfl, by rw [hz]; simpa using (Option.some.inj h).symm⟩
  · simp only [hm, Bool.false_eq_true, if_false] at h ⊢
    by_cases g1 : e + (numDigits m : Int) > 310
    · rw [if_pos g1] at h; cases h
    · rw [if_neg g1] at h ⊢
      by_cases g2 : e + (numDigits m : Int) < -330
      · rw [if_pos g2] at h ⊢
        exact ⟨_, rfl, by rw [hz]; simpa using (Option.some.inj h).symm⟩
      · rw [if_neg g2] at h ⊢
        generalize (if e ≥ 0 then roundPos (m * 10 ^ e.toNat) 0 false
          else roundPos (m <<< ((10 ^ e.natAbs).log2 + 70) / 10 ^ e.natAbs) (-(((10 ^ e.natAbs).log2 + 70 : Nat) : Int))
            (m <<< ((10 ^ e.natAbs).log2 + 70) % 10 ^ e.natAbs != 0)) = r at h ⊢
        cases r with
        | none => cases h
        | some b' =>
          simp only [Option.map_some, hor] at h ⊢
          exact ⟨b', rfl, (Option.some.inj h).symm⟩

/-! ## 4. `roundDecimal` is correctly rounded -/

theorem pow_1075_lt : 2 ^ 1075 < 10 ^ 331 := by decide +kernel

theorem decValue_false_nonneg (m : Nat) (e : Int) : 0 ≤ decValue false m e := by
  unfold decValue
  simp only [Bool.false_eq_true, if_false]
  exact Rat.mul_nonneg (natCast_nonneg m) (Rat.le_of_lt (Rat.zpow_pos (by decide)))

theorem decValue_zero (neg : Bool) (e : Int) : decValue neg 0 e = 0 := by
  unfold decValue; cases neg <;> simp

set_option exponentiation.threshold 1100 in
/-- non-negative case, with the decoded result exposed -/
theorem roundDecimal_nearest_pos (m : Nat) (e : Int) (b : UInt64) (h : roundDecimal false m e = some b) :
    ∃ m' e', decode b = .fin false m' e' ∧ NearestAt false m' e' (decValue false m e) := by
  have hz : signBit false = 0 := rfl
  have hor : ∀ c : UInt64, signBit false ||| c = c := by intro c; simp [signBit]
  unfold roundDecimal at h
  by_cases hm : m = 0
  · subst hm
    simp only [beq_self_eq_true, if_true, hz] at h
    rw [← Option.some.inj h, decValue_zero]
    refine ⟨0, -1074, decode_zero, ?_⟩
    have := nearestAt_exact false 0 (-1074)
    rw [value_zero] at this; exact this
  · have hm' : (m == 0) = false := by simpa using hm
    simp only [hm', Bool.false_eq_true, if_false] at h
    obtain ⟨hn1, hn2, hn3⟩ := numDigits_bounds m hm
    by_cases g1 : e + (numDigits m : Int) > 310
    · rw [if_pos g1] at h; cases h
    · rw [if_neg g1] at h
      by_cases g2 : e + (numDigits m : Int) < -330
      · -- underflow to zero
        rw [if_pos g2, hz] at h
        rw [← Option.some.inj h]
        refine ⟨0, -1074, decode_zero, ?_⟩
        apply nearestAt_zero _ (decValue_false_nonneg m e)
        have he : e < 0 := by omega
        have hv : value false 1 (-1075) * ((2 ^ 1075 : Nat) : Rat) = ((1 : Nat) : Rat) :=
          value_mul_pow 1 1075 (by decide)
        rw [cross_lt (ten_pow_pos e.natAbs) (two_pow_pos 1075) (decValue_mul_pow m e he) hv]
        have a1 : m * 2 ^ 1075 < 10 ^ numDigits m * 10 ^ 331 :=
          Nat.mul_lt_mul_of_lt_of_le hn3 (Nat.le_of_lt pow_1075_lt) (Nat.pow_pos (by decide))
        have a2 : 10 ^ numDigits m * 10 ^ 331 ≤ 10 ^ e.natAbs := by
          rw [← Nat.pow_add]; exact Nat.pow_le_pow_right (by decide) (by omega)
        rw [Nat.one_mul]
        exact Nat.lt_of_lt_of_le a1 a2
      · rw [if_neg g2] at h
        by_cases he : e ≥ 0
        · rw [if_pos he] at h
          cases hr : roundPos (m * 10 ^ e.toNat) 0 false with
          | none => rw [hr] at h; cases h
          | some b' =>
            rw [hr] at h
            simp only [Option.map_some, hor] at h
            rw [← Option.some.inj h, decValue_nonneg m e he]
            have hN : m * 10 ^ e.toNat ≠ 0 := Nat.mul_ne_zero hm (by have := ten_pow_pos e.toNat; omega)
            exact roundPos_nearest _ 0 false _ b' hN Rat.le_refl (value_lt 0 (Nat.lt_succ_self _))
              (by simp) (by simp) hr
        · rw [if_neg he] at h
          have he' : e < 0 := by omega
          simp only [Nat.shiftLeft_eq] at h
          have hD := ten_pow_pos e.natAbs
          generalize hDdef : 10 ^ e.natAbs = D at *
          have hD0 : D ≠ 0 := by omega
          obtain ⟨hD1, hD2⟩ := log2_bounds D hD0
          generalize hkk : D.log2 + 70 = kk at *
          generalize hnum : m * 2 ^ kk = num at *
          cases hr : roundPos (num / D) (-(kk : Int)) (num % D != 0) with
          | none => rw [hr] at h; cases h
          | some b' =>
            rw [hr] at h
            simp only [Option.map_some, hor] at h
            rw [← Option.some.inj h]
            have hn69 : 2 ^ 69 ≤ num / D := by
              rw [Nat.le_div_iff_mul_le hD]
              have h1 : 2 ^ 69 * D ≤ 2 ^ 69 * 2 ^ (D.log2 + 1) := Nat.mul_le_mul_left _ (Nat.le_of_lt hD2)
              rw [← Nat.pow_add] at h1
              have h2 : 69 + (D.log2 + 1) = kk := by omega
              rw [h2] at h1
              have h3 : 1 * 2 ^ kk ≤ m * 2 ^ kk := Nat.mul_le_mul_right _ (by omega)
              omega
            have hn0 : num / D ≠ 0 := by omega
            have hlog : 69 ≤ (num / D).log2 := (Nat.le_log2 hn0).mpr hn69
            have het : -(kk : Int) < etOf (num / D) (-(kk : Int)) := by unfold etOf; omega
            have hkpos : 0 < kk := by omega
            have hdm := Nat.div_add_mod num D
            have hxD := decValue_mul_pow m e he'
            rw [hDdef] at hxD
            have hle : value false (num / D) (-(kk : Int)) ≤ decValue false m e := by
              rw [cross_le (two_pow_pos kk) hD (value_mul_pow _ kk hkpos) hxD, hnum]
              exact Nat.div_mul_le_self num D
            apply roundPos_nearest _ _ _ _ b' hn0 hle ?_ ?_ (fun _ => het) hr
            · rw [cross_lt hD (two_pow_pos kk) hxD (value_mul_pow _ kk hkpos), hnum]
              exact Nat.lt_mul_of_div_lt (Nat.lt_succ_self _) hD
            · constructor
              · intro hst hxe
                have hst' : num % D ≠ 0 := by simpa using hst
                have hge : decValue false m e ≤ value false (num / D) (-(kk : Int)) := by rw [hxe]; exact Rat.le_refl
                rw [cross_le hD (two_pow_pos kk) hxD (value_mul_pow _ kk hkpos), hnum] at hge
                have := Nat.div_mul_le_self num D
                have h2 : D * (num / D) = num / D * D := Nat.mul_comm _ _
                omega
              · intro hxne
                have : num % D ≠ 0 := by
                  intro h0
                  apply hxne
                  apply Rat.le_antisymm _ hle
                  rw [cross_le hD (two_pow_pos kk) hxD (value_mul_pow _ kk hkpos), hnum]
                  have h2 : D * (num / D) = num / D * D := Nat.mul_comm _ _
                  omega
                simpa using this

/-- **`roundDecimal` is correctly rounded**: whenever it returns a bit pattern, that binary64 is a nearest one
    to the exact rational `(−1)^neg · m · 10^e`, ties to even (and it has the sign `neg`). -/
theorem roundDecimal_nearest (neg : Bool) (m : Nat) (e : Int) (b : UInt64)
    (h : roundDecimal neg m e = some b) : IsNearestEven b (decValue neg m e) := by
  obtain ⟨b0, h0, hb⟩ := roundDecimal_sign_split neg m e b h
  obtain ⟨m', e', hd, hn⟩ := roundDecimal_nearest_pos m e b0 h0
  cases neg
  · have : b = b0 := by rw [hb]; simp [signBit]
    rw [this]; exact hn.toNearest hd
  · rw [hb, decValue_true]
    exact (hn.neg).toNearest (decode_signed hd)

end SJ.F64Round
