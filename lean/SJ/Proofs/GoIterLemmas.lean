import SJ.Proofs.GoIterBase
set_option linter.unusedVariables false
set_option linter.unusedSimpArgs false
/-
GoIterLemmas — abstract stores, and the exact functional reading of the three cursor loops.

1. The loops of the cursor functions are proved for *any* store in which the receiver's five variables hold the
   iterator, so the lemmas below describe `Env.get`/`Env.set` and `iterAt` without looking at the shape of the
   association list (`Env.get_set`, `iterAt_set_ne`, `iterAt_get`, `iterAt_of_gets`, `setIter`).
2. `advanceLoopG`, `advanceIntoLoopG`, `advanceIterLoopG` thread the *whole* iterator through the NOP-skipping loop
   exactly as the Go code does (every iteration overwrites `i.t` and `i.cur`).  The hand model's loops
   (`Iter.advanceLoop` …) thread only the offset and rebuild the iterator from the *initial* one at the exits; the
   two agree except for the payload register (and, for `AdvanceIter`, the offset) of an iterator that ran off the
   end of its view after skipping at least one NOP word — see `advanceLoop_eq_G`, `advanceIntoLoop_eq_G`,
   `advanceIterLoop_eq_G` and the discussion in `GoIter.lean`.
3. Calls: `call_calcNext_i`, `call_calcNext_dst`, `call_moveToEnd_i` run the callee's syntax tree on the copied
   frame and copy the fields back (`setIter`).
-/
namespace SJ.GoIter
open SJ SJ.GoSem SJ.Generated

/-! ## stores -/

theorem Env.get_set (e : Env) (k k' : String) (v : Val) :
    (e.set k v).get k' = if k = k' then some v else e.get k' := by
  induction e with
  | nil =>
    by_cases h : k = k' <;> simp [Env.set, Env.get, h]
  | cons p r ih =>
    obtain ⟨a, b⟩ := p
    by_cases h : a = k
    · subst h
      by_cases h' : a = k' <;> simp [Env.set, Env.get, h']
    · by_cases h' : a = k'
      · subst h'
        have : ¬ k = a := fun hh => h hh.symm
        simp [Env.set, Env.get, h, this]
      · simp [Env.set, Env.get, h, h', ih]

theorem Env.get_set_self (e : Env) (k : String) (v : Val) : (e.set k v).get k = some v := by
  simp [Env.get_set]

theorem Env.get_set_ne (e : Env) {k k' : String} (v : Val) (h : k ≠ k') : (e.set k v).get k' = e.get k' := by
  simp [Env.get_set, h]

/-- the five variables of the iterator `pfx` -/
def fieldsOf (pfx : String) : List String :=
  [pfx ++ ".off", pfx ++ ".addNext", pfx ++ ".cur", pfx ++ ".t", pfx ++ ".lim"]

/-- setting a variable that is not a field leaves the iterator alone -/
theorem iterAt_set_ne (e : Env) (pfx k : String) (v : Val) (h : k ∉ fieldsOf pfx) :
    iterAt (e.set k v) pfx = iterAt e pfx := by
  simp only [fieldsOf, List.mem_cons, List.not_mem_nil, or_false, not_or] at h
  obtain ⟨h1, h2, h3, h4, h5⟩ := h
  simp only [iterAt, Env.get_set, if_neg h1, if_neg h2, if_neg h3, if_neg h4, if_neg h5]

theorem iterAt_get (e : Env) (pfx : String) (i : Iter) (h : iterAt e pfx = some i) :
    e.get (pfx ++ ".off") = some (.int i.off) ∧ e.get (pfx ++ ".addNext") = some (.int i.addNext) ∧
    e.get (pfx ++ ".cur") = some (.u64 i.cur) ∧ e.get (pfx ++ ".t") = some (.u8 i.t) ∧
    e.get (pfx ++ ".lim") = some (.int i.lim) := by
  unfold iterAt at h
  split at h
  · rename_i o a c t l h1 h2 h3 h4 h5
    split at h
    · rename_i hh
      simp only [Option.some.injEq] at h
      subst h
      simp only [h1, h2, h3, h4, h5]
      simp [Int.toNat_of_nonneg hh.1, Int.toNat_of_nonneg hh.2]
    · cases h
  · cases h

theorem iterAt_of_gets (e : Env) (pfx : String) (i : Iter)
    (h1 : e.get (pfx ++ ".off") = some (.int i.off)) (h2 : e.get (pfx ++ ".addNext") = some (.int i.addNext))
    (h3 : e.get (pfx ++ ".cur") = some (.u64 i.cur)) (h4 : e.get (pfx ++ ".t") = some (.u8 i.t))
    (h5 : e.get (pfx ++ ".lim") = some (.int i.lim)) : iterAt e pfx = some i := by
  simp [iterAt, h1, h2, h3, h4, h5]

/-- two stores that agree on the fields hold the same iterator -/
theorem iterAt_congr (e e' : Env) (pfx : String) (h : ∀ k, k ∈ fieldsOf pfx → e'.get k = e.get k) :
    iterAt e' pfx = iterAt e pfx := by
  simp only [fieldsOf, List.mem_cons, List.not_mem_nil, or_false] at h
  simp only [iterAt, h (pfx ++ ".off") (by simp), h (pfx ++ ".addNext") (by simp), h (pfx ++ ".cur") (by simp),
    h (pfx ++ ".t") (by simp), h (pfx ++ ".lim") (by simp)]

/-- write the five variables of an iterator (what copying the receiver back does) -/
def setIter (e : Env) (pfx : String) (j : Iter) : Env :=
  ((((e.set (pfx ++ ".off") (.int j.off)).set (pfx ++ ".addNext") (.int j.addNext)).set (pfx ++ ".cur") (.u64 j.cur)).set
    (pfx ++ ".t") (.u8 j.t)).set (pfx ++ ".lim") (.int j.lim)

theorem iterAt_setIter_i (e : Env) (j : Iter) : iterAt (setIter e "i" j) "i" = some j := by
  simp [iterAt, setIter, Env.get_set]

theorem iterAt_setIter_dst (e : Env) (j : Iter) : iterAt (setIter e "dst" j) "dst" = some j := by
  simp [iterAt, setIter, Env.get_set]

theorem get_setIter_ne (e : Env) (pfx k : String) (j : Iter) (h : k ∉ fieldsOf pfx) :
    (setIter e pfx j).get k = e.get k := by
  simp only [fieldsOf, List.mem_cons, List.not_mem_nil, or_false, not_or] at h
  obtain ⟨h1, h2, h3, h4, h5⟩ := h
  simp only [setIter, Env.get_set, if_neg (Ne.symm h1), if_neg (Ne.symm h2), if_neg (Ne.symm h3), if_neg (Ne.symm h4),
    if_neg (Ne.symm h5)]

theorem iterAt_setIter_dst_i (e : Env) (j : Iter) : iterAt (setIter e "dst" j) "i" = iterAt e "i" := by
  apply iterAt_congr
  intro k hk
  apply get_setIter_ne
  revert k
  decide

theorem iterAt_setIter_i_dst (e : Env) (j : Iter) : iterAt (setIter e "i" j) "dst" = iterAt e "dst" := by
  apply iterAt_congr
  intro k hk
  apply get_setIter_ne
  revert k
  decide

/-! ## syntax -/

/-- body of the first `for { }` of a statement list -/
def firstLoop : List Stmt → List Stmt
  | [] => []
  | .loop b :: _ => b
  | _ :: r => firstLoop r

/-- the statements after the first `for { }` -/
def afterLoop : List Stmt → List Stmt
  | [] => []
  | .loop _ :: r => r
  | _ :: r => afterLoop r

/-! ## words -/

theorem payload_lt (v : UInt64) : (payloadOf v).toNat < 2^56 := by
  simp only [payloadOf, wJSONVALUEMASK, UInt64.toNat_and]
  have := @Nat.and_le_right v.toNat (72057594037927935)
  simp at this ⊢
  omega

theorem toInt64_payload (v : UInt64) : toInt64 (payloadOf v) = ((payloadOf v).toNat : Int) :=
  toInt64_small _ (by have := payload_lt v; omega)

theorem payload_toNat_ne (v : UInt64) (h : ¬ payloadOf v = 0) : (payloadOf v).toNat ≠ 0 :=
  fun hh => h (UInt64.toNat_inj.mp hh)

theorem u64_le_zero (x : UInt64) : x ≤ 0 ↔ x = 0 := by
  constructor
  · intro h
    apply UInt64.toNat_inj.mp
    have : x.toNat ≤ (0 : UInt64).toNat := UInt64.le_iff_toNat_le.mp h
    simp at this
    simpa using this
  · intro h; subst h; exact UInt64.le_refl _

set_option maxRecDepth 4096 in
theorem tagToType_end : tagToType 0 = 0 := by decide

/-! ## the loops as Go runs them -/

/-- the loop of `Advance`, threading the whole iterator (offset, tag and payload are overwritten by every iteration) -/
def advanceLoopG (pj : PJ) (j : Iter) : Res (Iter × Bool) :=
  if h : j.off >= j.lim then .ok ({ j with addNext := 0, t := tagEnd }, false)
  else do
    let v ← Iter.rdT pj j.off
    if tagOf v == tagNop then
      if payloadOf v == 0 then
        .ok (Iter.moveToEnd { j with off := j.off + 1, cur := payloadOf v, t := tagOf v }, false)
      else advanceLoopG pj { j with off := j.off + 1 + ((payloadOf v).toNat - 1), cur := payloadOf v, t := tagOf v }
    else .ok ({ j with off := j.off + 1, cur := payloadOf v, t := tagOf v }, true)
termination_by j.lim - j.off
decreasing_by all_goals (simp_wf; omega)

/-- the loop of `AdvanceInto` -/
def advanceIntoLoopG (pj : PJ) (j : Iter) : Res (Iter × Bool) :=
  if h : j.off >= j.lim then .ok ({ j with addNext := 0, t := tagEnd }, false)
  else do
    let v ← Iter.rdT pj j.off
    if tagOf v == tagNop then
      if hc : payloadOf v == 0 then .ok (Iter.moveToEnd { j with cur := payloadOf v, t := tagOf v }, false)
      else advanceIntoLoopG pj { j with off := j.off + (payloadOf v).toNat, cur := payloadOf v, t := tagOf v }
    else .ok ({ j with off := j.off + 1, cur := payloadOf v, t := tagOf v }, true)
termination_by j.lim - j.off
decreasing_by
  have := u64_ne_zero_toNat hc
  simp_wf; omega

/-- the loop of `AdvanceIter`: `false` = the end of the view was reached exactly -/
def advanceIterLoopG (pj : PJ) (j : Iter) : Res (Iter × Bool) :=
  if j.off = j.lim then .ok ({ j with addNext := 0, t := tagEnd }, false)
  else if _h : j.off > j.lim then .error .generic
  else do
    let v ← Iter.rdT pj j.off
    if tagOf v == tagNop then
      if payloadOf v == 0 then .error .generic
      else advanceIterLoopG pj { j with off := j.off + 1 + ((payloadOf v).toNat - 1), cur := payloadOf v, t := tagOf v }
    else .ok ({ j with off := j.off + 1, cur := payloadOf v, t := tagOf v }, true)
termination_by j.lim - j.off
decreasing_by all_goals (simp_wf; omega)

/-- `Advance()` as Go runs it -/
def advanceG (pj : PJ) (i : Iter) : Res (Iter × UInt8) := do
  let o ← i.bump
  let (i', live) ← advanceLoopG pj { i with off := o }
  if !live then .ok (i', typeNone)
  else
    let i'' := i'.calcNext false
    if i''.addNext < 0 then .ok (i''.moveToEnd, typeNone)
    else .ok (i'', tagToType i''.t)

/-- `AdvanceInto()` as Go runs it -/
def advanceIntoG (pj : PJ) (i : Iter) : Res (Iter × UInt8) := do
  let o ← i.bump
  let (i', live) ← advanceIntoLoopG pj { i with off := o }
  if !live then .ok (i', tagEnd)
  else
    let i'' := i'.calcNext true
    if i''.addNext < 0 then .ok (i''.moveToEnd, tagEnd)
    else .ok (i'', i''.t)

/-- `AdvanceIter(dst)`, `dst ≠ i`, as Go runs it -/
def advanceIterG (pj : PJ) (i dst : Iter) : Res (Iter × Iter × UInt8) := do
  let o ← i.bump
  let (i1, live) ← advanceIterLoopG pj { i with off := o }
  if !live then .ok (i1, dst, typeNone)
  else
    let i2 := i1.calcNext false
    if i2.addNext < 0 then .error .generic
    else
      let iEnd := i2.off + i2.addNext.toNat
      let typ := tagToType i2.t
      let d := i2.calcNext true
      if d.addNext < 0 then .error .generic
      else if iEnd > d.lim then .error .generic
      else .ok (i2, { d with lim := iEnd }, typ)

end SJ.GoIter
