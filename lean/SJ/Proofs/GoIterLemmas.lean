import SJ.Proofs.GoIterBase
set_option linter.unusedVariables false
set_option linter.unusedSimpArgs false
/-
GoIterLemmas — abstract stores, and the exact functional reading of the three cursor loops.

1. The loops of the cursor functions are proved for *any* store in which the receiver's five variables hold the
   iterator, so the lemmas below describe `Env.get`/`Env.set` and `iterAt` without looking at the shape of the
   association list (`Env.get_set`, `iterAt_set_ne`, `iterAt_get`, `iterAt_of_gets`, `setIter`).
2. `advanceLoopG`, `advanceIntoLoopG`, `advanceIterLoopG` thread the *whole* iterator through the NOP-skipping loop
   exactly as the Go code does (every iteration overwrites `i.t` and `i.cur`).  The hand model's loops
   (`Iter.advanceLoop` …) thread only the offset and rebuild the iterator from the *initial* one at the exits; the
   two agree except for the payload register (and, for `AdvanceIter`, the offset) of an iterator that ran off the
   end of its view after skipping at least one NOP word — see `advanceLoop_eq_G`, `advanceIntoLoop_eq_G`,
   `advanceIterLoop_eq_G` and the discussion in `GoIter.lean`.
3. Calls: `call_calcNext_i`, `call_calcNext_dst`, `call_moveToEnd_i` run the callee's syntax tree on the copied
   frame and copy the fields back (`setIter`).
-/
namespace SJ.GoIter
open SJ SJ.GoSem SJ.Generated

/-! ## stores -/

theorem Env.get_set (e : Env) (k k' : String) (v : Val) :
    (e.set k v).get k' = if k = k' then some v else e.get k' := by
  induction e with
  | nil =>
    by_cases h : k = k' <;> simp [Env.set, Env.get, h]
  | cons p r ih =>
    obtain ⟨a, b⟩ := p
    by_cases h : a = k
    · subst h
      by_cases h' : a = k' <;> simp [Env.set, Env.get, h']
    · by_cases h' : a = k'
      · subst h'
        have : ¬ k = a := fun hh => h hh.symm
        simp [Env.set, Env.get, h, this]
      · simp [Env.set, Env.get, h, h', ih]

theorem Env.get_set_self (e : Env) (k : String) (v : Val) : (e.set k v).get k = some v := by
  simp [Env.get_set]

theorem Env.get_set_ne (e : Env) {k k' : String} (v : Val) (h : k ≠ k') : (e.set k v).get k' = e.get k' := by
  simp [Env.get_set, h]

/-- the five variables of the iterator `pfx` -/
def fieldsOf (pfx : String) : List String :=
  [pfx ++ ".off", pfx ++ ".addNext", pfx ++ ".cur", pfx ++ ".t", pfx ++ ".lim"]

/-- setting a variable that is not a field leaves the iterator alone -/
theorem iterAt_set_ne (e : Env) (pfx k : String) (v : Val) (h : k ∉ fieldsOf pfx) :
    iterAt (e.set k v) pfx = iterAt e pfx := by
  simp only [fieldsOf, List.mem_cons, List.not_mem_nil, or_false, not_or] at h
  obtain ⟨h1, h2, h3, h4, h5⟩ := h
  simp only [iterAt, Env.get_set, if_neg h1, if_neg h2, if_neg h3, if_neg h4, if_neg h5]

theorem iterAt_get (e : Env) (pfx : String) (i : Iter) (h : iterAt e pfx = some i) :
    e.get (pfx ++ ".off") = some (.int i.off) ∧ e.get (pfx ++ ".addNext") = some (.int i.addNext) ∧
    e.get (pfx ++ ".cur") = some (.u64 i.cur) ∧ e.get (pfx ++ ".t") = some (.u8 i.t) ∧
    e.get (pfx ++ ".lim") = some (.int i.lim) := by
  unfold iterAt at h
  split at h
  · rename_i o a c t l h1 h2 h3 h4 h5
    split at h
    · rename_i hh
      simp only [Option.some.injEq] at h
      subst h
      simp only [h1, h2, h3, h4, h5]
      simp [Int.toNat_of_nonneg hh.1, Int.toNat_of_nonneg hh.2]
    · cases h
  · cases h

theorem iterAt_get_i (e : Env) (i : Iter) (h : iterAt e "i" = some i) :
    e.get "i.off" = some (.int i.off) ∧ e.get "i.addNext" = some (.int i.addNext) ∧
    e.get "i.cur" = some (.u64 i.cur) ∧ e.get "i.t" = some (.u8 i.t) ∧ e.get "i.lim" = some (.int i.lim) :=
  iterAt_get e "i" i h

theorem iterAt_get_dst (e : Env) (i : Iter) (h : iterAt e "dst" = some i) :
    e.get "dst.off" = some (.int i.off) ∧ e.get "dst.addNext" = some (.int i.addNext) ∧
    e.get "dst.cur" = some (.u64 i.cur) ∧ e.get "dst.t" = some (.u8 i.t) ∧ e.get "dst.lim" = some (.int i.lim) :=
  iterAt_get e "dst" i h

theorem iterAt_of_gets (e : Env) (pfx : String) (i : Iter)
    (h1 : e.get (pfx ++ ".off") = some (.int i.off)) (h2 : e.get (pfx ++ ".addNext") = some (.int i.addNext))
    (h3 : e.get (pfx ++ ".cur") = some (.u64 i.cur)) (h4 : e.get (pfx ++ ".t") = some (.u8 i.t))
    (h5 : e.get (pfx ++ ".lim") = some (.int i.lim)) : iterAt e pfx = some i := by
  simp [iterAt, h1, h2, h3, h4, h5]

/-- two stores that agree on the fields hold the same iterator -/
theorem iterAt_congr (e e' : Env) (pfx : String) (h : ∀ k, k ∈ fieldsOf pfx → e'.get k = e.get k) :
    iterAt e' pfx = iterAt e pfx := by
  simp only [fieldsOf, List.mem_cons, List.not_mem_nil, or_false] at h
  simp only [iterAt, h (pfx ++ ".off") (by simp), h (pfx ++ ".addNext") (by simp), h (pfx ++ ".cur") (by simp),
    h (pfx ++ ".t") (by simp), h (pfx ++ ".lim") (by simp)]

/-- write the five variables of an iterator (what copying the receiver back does) -/
def setIter (e : Env) (pfx : String) (j : Iter) : Env :=
  ((((e.set (pfx ++ ".off") (.int j.off)).set (pfx ++ ".addNext") (.int j.addNext)).set (pfx ++ ".cur") (.u64 j.cur)).set
    (pfx ++ ".t") (.u8 j.t)).set (pfx ++ ".lim") (.int j.lim)

theorem iterAt_setIter_i (e : Env) (j : Iter) : iterAt (setIter e "i" j) "i" = some j := by
  simp [iterAt, setIter, Env.get_set]

theorem iterAt_setIter_dst (e : Env) (j : Iter) : iterAt (setIter e "dst" j) "dst" = some j := by
  simp [iterAt, setIter, Env.get_set]

theorem get_setIter_ne (e : Env) (pfx k : String) (j : Iter) (h : k ∉ fieldsOf pfx) :
    (setIter e pfx j).get k = e.get k := by
  simp only [fieldsOf, List.mem_cons, List.not_mem_nil, or_false, not_or] at h
  obtain ⟨h1, h2, h3, h4, h5⟩ := h
  simp only [setIter, Env.get_set, if_neg (Ne.symm h1), if_neg (Ne.symm h2), if_neg (Ne.symm h3), if_neg (Ne.symm h4),
    if_neg (Ne.symm h5)]

theorem iterAt_setIter_dst_i (e : Env) (j : Iter) : iterAt (setIter e "dst" j) "i" = iterAt e "i" := by
  apply iterAt_congr
  intro k hk
  apply get_setIter_ne
  revert k
  decide

theorem iterAt_setIter_i_dst (e : Env) (j : Iter) : iterAt (setIter e "i" j) "dst" = iterAt e "dst" := by
  apply iterAt_congr
  intro k hk
  apply get_setIter_ne
  revert k
  decide

/-! ## syntax -/

/-- body of the first `for { }` of a statement list -/
def firstLoop : List Stmt → List Stmt
  | [] => []
  | .loop b :: _ => b
  | _ :: r => firstLoop r

/-- the statements after the first `for { }` -/
def afterLoop : List Stmt → List Stmt
  | [] => []
  | .loop _ :: r => r
  | _ :: r => afterLoop r

/-! ## words -/

theorem payload_lt (v : UInt64) : (payloadOf v).toNat < 2^56 := by
  simp only [payloadOf, wJSONVALUEMASK, UInt64.toNat_and]
  have := @Nat.and_le_right v.toNat (72057594037927935)
  simp at this ⊢
  omega

theorem toInt64_payload (v : UInt64) : toInt64 (payloadOf v) = ((payloadOf v).toNat : Int) :=
  toInt64_small _ (by have := payload_lt v; omega)

theorem payload_toNat_ne (v : UInt64) (h : ¬ payloadOf v = 0) : (payloadOf v).toNat ≠ 0 :=
  fun hh => h (UInt64.toNat_inj.mp hh)

theorem u64_le_zero (x : UInt64) : x ≤ 0 ↔ x = 0 := by
  constructor
  · intro h
    apply UInt64.toNat_inj.mp
    have : x.toNat ≤ (0 : UInt64).toNat := UInt64.le_iff_toNat_le.mp h
    simp at this
    simpa using this
  · intro h; subst h; exact UInt64.le_refl _

set_option maxRecDepth 4096 in
theorem tagToType_end : tagToType 0 = 0 := by decide

/-! ## the loops as Go runs them -/

/-- the loop of `Advance`, threading the whole iterator (offset, tag and payload are overwritten by every iteration) -/
def advanceLoopG (pj : PJ) (j : Iter) : Res (Iter × Bool) :=
  if h : j.off >= j.lim then .ok ({ j with addNext := 0, t := tagEnd }, false)
  else do
    let v ← Iter.rdT pj j.off
    if tagOf v == tagNop then
      if payloadOf v == 0 then
        .ok (Iter.moveToEnd { j with off := j.off + 1, cur := payloadOf v, t := tagOf v }, false)
      else advanceLoopG pj { j with off := j.off + 1 + ((payloadOf v).toNat - 1), cur := payloadOf v, t := tagOf v }
    else .ok ({ j with off := j.off + 1, cur := payloadOf v, t := tagOf v }, true)
termination_by j.lim - j.off
decreasing_by all_goals (simp_wf; omega)

/-- the loop of `AdvanceInto` -/
def advanceIntoLoopG (pj : PJ) (j : Iter) : Res (Iter × Bool) :=
  if h : j.off >= j.lim then .ok ({ j with addNext := 0, t := tagEnd }, false)
  else do
    let v ← Iter.rdT pj j.off
    if tagOf v == tagNop then
      if hc : payloadOf v == 0 then .ok (Iter.moveToEnd { j with cur := payloadOf v, t := tagOf v }, false)
      else advanceIntoLoopG pj { j with off := j.off + (payloadOf v).toNat, cur := payloadOf v, t := tagOf v }
    else .ok ({ j with off := j.off + 1, cur := payloadOf v, t := tagOf v }, true)
termination_by j.lim - j.off
decreasing_by
  have := u64_ne_zero_toNat hc
  simp_wf; omega

/-- the loop of `AdvanceIter`: `false` = the end of the view was reached exactly -/
def advanceIterLoopG (pj : PJ) (j : Iter) : Res (Iter × Bool) :=
  if j.off = j.lim then .ok ({ j with addNext := 0, t := tagEnd }, false)
  else if _h : j.off > j.lim then .error .generic
  else do
    let v ← Iter.rdT pj j.off
    if tagOf v == tagNop then
      if payloadOf v == 0 then .error .generic
      else advanceIterLoopG pj { j with off := j.off + 1 + ((payloadOf v).toNat - 1), cur := payloadOf v, t := tagOf v }
    else .ok ({ j with off := j.off + 1, cur := payloadOf v, t := tagOf v }, true)
termination_by j.lim - j.off
decreasing_by all_goals (simp_wf; omega)

/-- `Advance()` as Go runs it -/
def advanceG (pj : PJ) (i : Iter) : Res (Iter × UInt8) := do
  let o ← i.bump
  let (i', live) ← advanceLoopG pj { i with off := o }
  if !live then .ok (i', typeNone)
  else
    let i'' := i'.calcNext false
    if i''.addNext < 0 then .ok (i''.moveToEnd, typeNone)
    else .ok (i'', tagToType i''.t)

/-- `AdvanceInto()` as Go runs it -/
def advanceIntoG (pj : PJ) (i : Iter) : Res (Iter × UInt8) := do
  let o ← i.bump
  let (i', live) ← advanceIntoLoopG pj { i with off := o }
  if !live then .ok (i', tagEnd)
  else
    let i'' := i'.calcNext true
    if i''.addNext < 0 then .ok (i''.moveToEnd, tagEnd)
    else .ok (i'', i''.t)

/-- `AdvanceIter(dst)`, `dst ≠ i`, as Go runs it -/
def advanceIterG (pj : PJ) (i dst : Iter) : Res (Iter × Iter × UInt8) := do
  let o ← i.bump
  let (i1, live) ← advanceIterLoopG pj { i with off := o }
  if !live then .ok (i1, dst, typeNone)
  else
    let i2 := i1.calcNext false
    if i2.addNext < 0 then .error .generic
    else
      let iEnd := i2.off + i2.addNext.toNat
      let typ := tagToType i2.t
      let d := i2.calcNext true
      if d.addNext < 0 then .error .generic
      else if iEnd > d.lim then .error .generic
      else .ok (i2, { d with lim := iEnd }, typ)

/-! ## the hand model's loops against the loops as Go runs them -/

/-- what the model says of the state Go leaves: on a dead exit (`live = false`) with a non-zero payload register the
    model has kept the payload of the *initial* iterator -/
def fixDead (i a : Iter) (live : Bool) : Iter := if live ∨ a.cur = 0 then a else { a with cur := i.cur }

theorem advanceLoop_eq_G (pj : PJ) (i : Iter) : ∀ (n : Nat) (j : Iter), j.lim - j.off ≤ n → j.lim = i.lim →
    j.addNext = i.addNext → (j.cur = i.cur ∨ j.cur ≠ 0) →
    Iter.advanceLoop pj i j.off = (advanceLoopG pj j).bind (fun r => .ok (fixDead i r.1 r.2, r.2)) := by
  have hend : ∀ j : Iter, j.off ≥ j.lim → j.lim = i.lim → j.addNext = i.addNext → (j.cur = i.cur ∨ j.cur ≠ 0) →
      Iter.advanceLoop pj i j.off = (advanceLoopG pj j).bind (fun r => .ok (fixDead i r.1 r.2, r.2)) := by
    intro j h' hl ha hc
    rw [Iter.advanceLoop, advanceLoopG]
    have h : j.off ≥ i.lim := by omega
    simp only [h, h', dif_pos, Res.bind, fixDead]
    by_cases h0 : j.cur = 0
    · have : i.cur = 0 := by
        rcases hc with hc | hc
        · rw [← hc, h0]
        · exact absurd h0 hc
      simp [h0, this, hl]
    · simp [h0, hl]
  intro n
  induction n with
  | zero =>
    intro j hn hl ha hc
    exact hend j (by omega) hl ha hc
  | succ n ih =>
    intro j hn hl ha hc
    by_cases h' : j.off ≥ j.lim
    · exact hend j h' hl ha hc
    · rw [Iter.advanceLoop, advanceLoopG]
      have h : ¬ j.off ≥ i.lim := by omega
      simp only [h, h', dif_neg, not_false_eq_true, Iter.rdT, rd]
      cases hr : pj.tape[j.off]? with
      | none => simp [Res.bind]
      | some v =>
        simp only [Res.bind_ok]
        by_cases hn' : tagOf v = tagNop
        · by_cases hz : payloadOf v = 0
          · simp [hn', hz, Res.bind, fixDead, Iter.moveToEnd, hl, ha]
          · have hz' := payload_toNat_ne v hz
            simp only [hn', hz, beq_self_eq_true, if_true, beq_iff_eq, if_false]
            have := ih { j with off := j.off + 1 + ((payloadOf v).toNat - 1), cur := payloadOf v, t := tagNop }
              (by simp only; omega) hl ha (Or.inr hz)
            simpa using this
        · have hb : (tagOf v == tagNop) = false := by simp [hn']
          simp [hb, Res.bind, fixDead, hl, ha]


theorem advanceIntoLoop_eq_G (pj : PJ) (i : Iter) : ∀ (n : Nat) (j : Iter), j.lim - j.off ≤ n → j.lim = i.lim →
    j.addNext = i.addNext → (j.cur = i.cur ∨ j.cur ≠ 0) →
    Iter.advanceIntoLoop pj i j.off = (advanceIntoLoopG pj j).bind (fun r => .ok (fixDead i r.1 r.2, r.2)) := by
  have hend : ∀ j : Iter, j.off ≥ j.lim → j.lim = i.lim → j.addNext = i.addNext → (j.cur = i.cur ∨ j.cur ≠ 0) →
      Iter.advanceIntoLoop pj i j.off = (advanceIntoLoopG pj j).bind (fun r => .ok (fixDead i r.1 r.2, r.2)) := by
    intro j h' hl ha hc
    rw [Iter.advanceIntoLoop, advanceIntoLoopG]
    have h : j.off ≥ i.lim := by omega
    simp only [h, h', dif_pos, Res.bind, fixDead]
    by_cases h0 : j.cur = 0
    · have : i.cur = 0 := by
        rcases hc with hc | hc
        · rw [← hc, h0]
        · exact absurd h0 hc
      simp [h0, this, hl]
    · simp [h0, hl]
  intro n
  induction n with
  | zero =>
    intro j hn hl ha hc
    exact hend j (by omega) hl ha hc
  | succ n ih =>
    intro j hn hl ha hc
    by_cases h' : j.off ≥ j.lim
    · exact hend j h' hl ha hc
    · rw [Iter.advanceIntoLoop, advanceIntoLoopG]
      have h : ¬ j.off ≥ i.lim := by omega
      simp only [h, h', dif_neg, not_false_eq_true, Iter.rdT, rd]
      cases hr : pj.tape[j.off]? with
      | none => simp [Res.bind]
      | some v =>
        simp only [Res.bind_ok]
        by_cases hn' : tagOf v = tagNop
        · by_cases hz : payloadOf v = 0
          · simp [hn', hz, Res.bind, fixDead, Iter.moveToEnd, hl, ha]
          · have hz' := payload_toNat_ne v hz
            simp only [hn', hz, beq_self_eq_true, if_true, beq_iff_eq, if_false, dite_false, dif_neg, not_false_eq_true]
            have := ih { j with off := j.off + (payloadOf v).toNat, cur := payloadOf v, t := tagNop }
              (by simp only; omega) hl ha (Or.inr hz)
            simpa using this
        · have hb : (tagOf v == tagNop) = false := by simp [hn']
          simp [hb, Res.bind, fixDead, hl, ha]

theorem advanceIterLoop_eq_G (pj : PJ) (i : Iter) : ∀ (n : Nat) (j : Iter), j.lim - j.off ≤ n → j.lim = i.lim →
    j.addNext = i.addNext →
    Iter.advanceIterLoop pj i j.off = (advanceIterLoopG pj j).bind (fun r => .ok (if r.2 then some r.1 else none)) := by
  have hend : ∀ j : Iter, j.off ≥ j.lim → j.lim = i.lim → j.addNext = i.addNext →
      Iter.advanceIterLoop pj i j.off =
        (advanceIterLoopG pj j).bind (fun r => .ok (if r.2 then some r.1 else none)) := by
    intro j h' hl ha
    rw [Iter.advanceIterLoop, advanceIterLoopG]
    by_cases he : j.off = j.lim
    · simp [he, ← hl, Res.bind]
    · have h1 : ¬ j.off = i.lim := by omega
      have h2 : j.off > i.lim := by omega
      have h3 : j.off > j.lim := by omega
      simp [he, h1, h2, h3, Res.bind]
  intro n
  induction n with
  | zero =>
    intro j hn hl ha
    exact hend j (by omega) hl ha
  | succ n ih =>
    intro j hn hl ha
    by_cases h' : j.off ≥ j.lim
    · exact hend j h' hl ha
    · rw [Iter.advanceIterLoop, advanceIterLoopG]
      have h1 : ¬ j.off = i.lim := by omega
      have h2 : ¬ j.off > i.lim := by omega
      have h3 : ¬ j.off = j.lim := by omega
      have h4 : ¬ j.off > j.lim := by omega
      simp only [h1, h2, h3, h4, if_false, dif_neg, not_false_eq_true, Iter.rdT, rd]
      cases hr : pj.tape[j.off]? with
      | none => simp [Res.bind]
      | some v =>
        simp only [Res.bind_ok]
        by_cases hn' : tagOf v = tagNop
        · by_cases hz : payloadOf v = 0
          · simp [hn', hz, Res.bind]
          · have hz' := payload_toNat_ne v hz
            simp only [hn', hz, beq_self_eq_true, if_true, beq_iff_eq, if_false]
            have := ih { j with off := j.off + 1 + ((payloadOf v).toNat - 1), cur := payloadOf v, t := tagNop }
              (by simp only; omega) hl ha
            simpa using this
        · have hb : (tagOf v == tagNop) = false := by simp [hn']
          simp [hb, Res.bind, hl, ha]

/-- the payload register that Go's NOP-skipping loop leaves on a dead exit is the one the model keeps: it is `0`
    (a zero-skip NOP word) or the initial payload (no NOP word was skipped before the end of the view) -/
def DeadCurAgrees (loop : PJ → Iter → Res (Iter × Bool)) (pj : PJ) (i : Iter) : Prop :=
  ∀ o a, i.bump = .ok o → loop pj { i with off := o } = .ok (a, false) → a.cur = 0 ∨ a.cur = i.cur

theorem fixDead_of (i a : Iter) (h : a.cur = 0 ∨ a.cur = i.cur) : fixDead i a false = a := by
  unfold fixDead
  rcases h with h | h
  · simp [h]
  · by_cases h0 : a.cur = 0
    · simp [h0]
    · simp only [Bool.false_eq_true, h0, or_self, if_false, ← h]

theorem advance_eq_G (pj : PJ) (i : Iter) (h : DeadCurAgrees advanceLoopG pj i) : i.advance pj = advanceG pj i := by
  unfold Iter.advance advanceG
  cases hb : i.bump with
  | ok o =>
    simp only [Res.bind_ok]
    have hL := advanceLoop_eq_G pj i _ { i with off := o } (Nat.le_refl _) rfl rfl (Or.inl rfl)
    simp only at hL
    rw [hL]
    cases hg : advanceLoopG pj { i with off := o } with
    | ok r =>
      obtain ⟨a, l⟩ := r
      cases l with
      | true => simp [Res.bind, fixDead]
      | false => simp [Res.bind, fixDead_of i a (h o a hb hg)]
    | error e => rfl
    | panic => rfl
    | diverge => rfl
  | error e => rfl
  | panic => rfl
  | diverge => rfl

theorem advanceInto_eq_G (pj : PJ) (i : Iter) (h : DeadCurAgrees advanceIntoLoopG pj i) :
    i.advanceInto pj = advanceIntoG pj i := by
  unfold Iter.advanceInto advanceIntoG
  cases hb : i.bump with
  | ok o =>
    simp only [Res.bind_ok]
    have hL := advanceIntoLoop_eq_G pj i _ { i with off := o } (Nat.le_refl _) rfl rfl (Or.inl rfl)
    simp only at hL
    rw [hL]
    cases hg : advanceIntoLoopG pj { i with off := o } with
    | ok r =>
      obtain ⟨a, l⟩ := r
      cases l with
      | true => simp [Res.bind, fixDead]
      | false => simp [Res.bind, fixDead_of i a (h o a hb hg)]
    | error e => rfl
    | panic => rfl
    | diverge => rfl
  | error e => rfl
  | panic => rfl
  | diverge => rfl

/-- `Advance`/`AdvanceInto` without a hypothesis: the model and Go agree on the returned value and on the iterator up
    to the payload register of an iterator that is at its end -/
def RelDead (i : Iter) (g m : Res (Iter × UInt8)) : Prop :=
  match g, m with
  | .ok (a, x), .ok (b, y) => x = y ∧ (b = a ∨ (a.t = tagEnd ∧ b = { a with cur := i.cur }))
  | .panic, .panic => True
  | .error _, .error _ => True
  | .diverge, .diverge => True
  | _, _ => False

theorem advanceLoopG_dead (pj : PJ) : ∀ (n : Nat) (j a : Iter), j.lim - j.off ≤ n → advanceLoopG pj j = .ok (a, false) →
    a.t = tagEnd := by
  intro n
  induction n with
  | zero =>
    intro j a hn h
    rw [advanceLoopG] at h
    have h' : j.off ≥ j.lim := by omega
    simp only [h', dif_pos, Res.ok.injEq, Prod.mk.injEq, and_true] at h
    rw [← h]
  | succ n ih =>
    intro j a hn h
    rw [advanceLoopG] at h
    by_cases h' : j.off ≥ j.lim
    · simp only [h', dif_pos, Res.ok.injEq, Prod.mk.injEq, and_true] at h
      rw [← h]
    · simp only [h', dif_neg, not_false_eq_true, Iter.rdT, rd] at h
      cases hr : pj.tape[j.off]? with
      | none => simp [hr, Res.bind] at h
      | some v =>
        simp only [hr, Res.bind_ok] at h
        by_cases hn' : tagOf v = tagNop
        · by_cases hz : payloadOf v = 0
          · simp [hn', hz, Iter.moveToEnd] at h
            rw [← h]
          · have hz' := payload_toNat_ne v hz
            simp only [hn', hz, beq_self_eq_true, if_true, beq_iff_eq, if_false] at h
            exact ih _ a (by simp only; omega) h
        · have hb : (tagOf v == tagNop) = false := by simp [hn']
          simp [hb] at h

theorem advanceIntoLoopG_dead (pj : PJ) : ∀ (n : Nat) (j a : Iter), j.lim - j.off ≤ n →
    advanceIntoLoopG pj j = .ok (a, false) → a.t = tagEnd := by
  intro n
  induction n with
  | zero =>
    intro j a hn h
    rw [advanceIntoLoopG] at h
    have h' : j.off ≥ j.lim := by omega
    simp only [h', dif_pos, Res.ok.injEq, Prod.mk.injEq, and_true] at h
    rw [← h]
  | succ n ih =>
    intro j a hn h
    rw [advanceIntoLoopG] at h
    by_cases h' : j.off ≥ j.lim
    · simp only [h', dif_pos, Res.ok.injEq, Prod.mk.injEq, and_true] at h
      rw [← h]
    · simp only [h', dif_neg, not_false_eq_true, Iter.rdT, rd] at h
      cases hr : pj.tape[j.off]? with
      | none => simp [hr, Res.bind] at h
      | some v =>
        simp only [hr, Res.bind_ok] at h
        by_cases hn' : tagOf v = tagNop
        · by_cases hz : payloadOf v = 0
          · simp [hn', hz, Iter.moveToEnd] at h
            rw [← h]
          · have hz' := payload_toNat_ne v hz
            simp only [hn', hz, beq_self_eq_true, if_true, beq_iff_eq, if_false, dite_false, dif_neg,
              not_false_eq_true] at h
            exact ih _ a (by simp only; omega) h
        · have hb : (tagOf v == tagNop) = false := by simp [hn']
          simp [hb] at h

theorem fixDead_rel (i a : Iter) : fixDead i a false = a ∨ fixDead i a false = { a with cur := i.cur } := by
  unfold fixDead
  by_cases h0 : a.cur = 0
  · simp [h0]
  · simp [h0]

theorem advance_rel_G (pj : PJ) (i : Iter) : RelDead i (advanceG pj i) (i.advance pj) := by
  unfold Iter.advance advanceG
  cases hb : i.bump with
  | ok o =>
    simp only [Res.bind_ok]
    have hL := advanceLoop_eq_G pj i _ { i with off := o } (Nat.le_refl _) rfl rfl (Or.inl rfl)
    simp only at hL
    rw [hL]
    cases hg : advanceLoopG pj { i with off := o } with
    | ok r =>
      obtain ⟨a, l⟩ := r
      cases l with
      | true =>
        simp only [Res.bind, fixDead, true_or, if_true, Res.bind_ok, Bool.not_true, Bool.false_eq_true, if_false]
        split <;> simp [RelDead]
      | false =>
        have ht := advanceLoopG_dead pj _ _ a (Nat.le_refl _) hg
        simp only [Res.bind, Res.bind_ok, Bool.not_false, if_true, RelDead, true_and]
        rcases fixDead_rel i a with h | h
        · exact Or.inl h
        · exact Or.inr ⟨ht, h⟩
    | error e => simp [Res.bind, RelDead]
    | panic => simp [Res.bind, RelDead]
    | diverge => simp [Res.bind, RelDead]
  | error e => simp [RelDead]
  | panic => simp [RelDead]
  | diverge => simp [RelDead]

theorem advanceInto_rel_G (pj : PJ) (i : Iter) : RelDead i (advanceIntoG pj i) (i.advanceInto pj) := by
  unfold Iter.advanceInto advanceIntoG
  cases hb : i.bump with
  | ok o =>
    simp only [Res.bind_ok]
    have hL := advanceIntoLoop_eq_G pj i _ { i with off := o } (Nat.le_refl _) rfl rfl (Or.inl rfl)
    simp only at hL
    rw [hL]
    cases hg : advanceIntoLoopG pj { i with off := o } with
    | ok r =>
      obtain ⟨a, l⟩ := r
      cases l with
      | true =>
        simp only [Res.bind, fixDead, true_or, if_true, Res.bind_ok, Bool.not_true, Bool.false_eq_true, if_false]
        split <;> simp [RelDead]
      | false =>
        have ht := advanceIntoLoopG_dead pj _ _ a (Nat.le_refl _) hg
        simp only [Res.bind, Res.bind_ok, Bool.not_false, if_true, RelDead, true_and]
        rcases fixDead_rel i a with h | h
        · exact Or.inl h
        · exact Or.inr ⟨ht, h⟩
    | error e => simp [Res.bind, RelDead]
    | panic => simp [Res.bind, RelDead]
    | diverge => simp [Res.bind, RelDead]
  | error e => simp [RelDead]
  | panic => simp [RelDead]
  | diverge => simp [RelDead]

/-- `AdvanceIter` reports the end of the view (`TypeNone, nil`) only where the cursor already stood: no NOP word was
    skipped on the way.  (Otherwise Go leaves `i.off = len(tape)` and the last NOP payload in `i.cur`, while the
    model's `{ i with off := o, addNext := 0, t := tagEnd }` keeps the offset before the NOP words.) -/
def EndAtStart (pj : PJ) (i : Iter) : Prop :=
  ∀ o, i.bump = .ok o → Iter.advanceIterLoop pj i o = .ok none → o = i.lim

theorem advanceIter_eq_G (pj : PJ) (i dst : Iter) (h : EndAtStart pj i) :
    i.advanceIter pj dst = advanceIterG pj i dst := by
  unfold Iter.advanceIter advanceIterG
  cases hb : i.bump with
  | ok o =>
    simp only [Res.bind_ok]
    have hL := advanceIterLoop_eq_G pj i _ { i with off := o } (Nat.le_refl _) rfl rfl
    simp only at hL
    have h' := h o hb
    rw [hL] at h' ⊢
    cases hg : advanceIterLoopG pj { i with off := o } with
    | ok r =>
      obtain ⟨a, l⟩ := r
      cases l with
      | true => simp [Res.bind]
      | false =>
        have ho : o = i.lim := h' (by simp [hg, Res.bind])
        rw [advanceIterLoopG] at hg
        simp only [ho, if_true, Res.ok.injEq, Prod.mk.injEq, and_true] at hg
        simp [Res.bind, ← hg, ho]
    | error e => rfl
    | panic => rfl
    | diverge => rfl
  | error e => rfl
  | panic => rfl
  | diverge => rfl

/-! ## calls -/
section calls
attribute [local simp] exec exec1 execCases evalE evalEs isOneOf binop convert ofE copyFields bindParams
  iterFields runFun tblLookup Env.get_set

theorem call_calcNext_i (s : St) (j : Iter) (b : Bool) (f : Nat) (hI : iterAt s.env "i" = some j)
    (hcur : j.cur.toNat < 2^63) :
    exec1 goFuns (f + 1) (.call "i" "Iter.calcNext" [.bool b]) s =
      .normal ⟨setIter s.env "i" (j.calcNext b), s.tape⟩ := by
  obtain ⟨h1, h2, h3, h4, h5⟩ := iterAt_get _ _ _ hI
  simp only [String.reduceAppend] at h1 h2 h3 h4 h5
  have hc := calcNext_exec j b s.tape f hcur
  simp only [envOf, String.reduceAppend, List.cons_append, List.nil_append, goIter_calcNext] at hc
  rw [exec1]
  simp [goFuns, h1, h2, h3, h4, h5, Env.set, goIter_calcNext, -exec, -exec1]
  rw [hc]
  simp [Env.get, setIter]

theorem call_calcNext_dst (s : St) (j : Iter) (b : Bool) (f : Nat) (hI : iterAt s.env "dst" = some j)
    (hcur : j.cur.toNat < 2^63) :
    exec1 goFuns (f + 1) (.call "dst" "Iter.calcNext" [.bool b]) s =
      .normal ⟨setIter s.env "dst" (j.calcNext b), s.tape⟩ := by
  obtain ⟨h1, h2, h3, h4, h5⟩ := iterAt_get _ _ _ hI
  simp only [String.reduceAppend] at h1 h2 h3 h4 h5
  have hc := calcNext_exec j b s.tape f hcur
  simp only [envOf, String.reduceAppend, List.cons_append, List.nil_append, goIter_calcNext] at hc
  rw [exec1]
  simp [goFuns, h1, h2, h3, h4, h5, Env.set, goIter_calcNext, -exec, -exec1]
  rw [hc]
  simp [Env.get, setIter]

theorem call_moveToEnd_i (s : St) (j : Iter) (f : Nat) (hI : iterAt s.env "i" = some j) :
    exec1 goFuns (f + 1) (.call "i" "Iter.moveToEnd" []) s = .normal ⟨setIter s.env "i" j.moveToEnd, s.tape⟩ := by
  obtain ⟨h1, h2, h3, h4, h5⟩ := iterAt_get _ _ _ hI
  simp only [String.reduceAppend] at h1 h2 h3 h4 h5
  have hc := moveToEnd_exec j s.tape f
  simp only [envOf, String.reduceAppend, goIter_moveToEnd] at hc
  rw [exec1]
  simp [goFuns, h1, h2, h3, h4, h5, Env.set, goIter_moveToEnd, -exec, -exec1]
  rw [hc]
  simp [Env.get, setIter]

end calls
end SJ.GoIter
