import SJ.Proofs.GoIterBase
set_option linter.unusedVariables false
set_option linter.unusedSimpArgs false
/-
GoIterLemmas — abstract stores, and the exact functional reading of the three cursor loops.

1. The loops of the cursor functions are proved for *any* store in which the receiver's five variables hold the
   iterator, so the lemmas below describe `Env.get`/`Env.set` and `iterAt` without looking at the shape of the
   association list (`Env.get_set`, `iterAt_set_ne`, `iterAt_get`, `iterAt_of_gets`, `setIter`).
2. The model's loops (`Iter.advanceLoop` …) take the offset as a separate argument; the Go loops keep it in `i.off`.
   `advanceLoop_off` … show that the iterator's own offset field is not read, and `advanceLoop_self`,
   `advanceIntoLoop_self`, `advanceIterLoop_self` unfold `Iter.advanceLoop pj j j.off` into one iteration of the Go
   loop on the whole iterator `j` (every iteration overwrites `i.off`, `i.t` and `i.cur`).
3. Calls: `call_calcNext_i`, `call_calcNext_dst`, `call_moveToEnd_i` run the callee's syntax tree on the copied
   frame and copy the fields back (`setIter`).
-/
namespace SJ.GoIter
open SJ SJ.GoSem SJ.Generated

/-! ## stores -/

theorem Env.get_set (e : Env) (k k' : String) (v : Val) :
    (e.set k v).get k' = if k = k' then some v else e.get k' := by
  induction e with
  | nil =>
    by_cases h : k = k' <;> simp [Env.set, Env.get, h]
  | cons p r ih =>
    obtain ⟨a, b⟩ := p
    by_cases h : a = k
    · subst h
      by_cases h' : a = k' <;> simp [Env.set, Env.get, h']
    · by_cases h' : a = k'
      · subst h'
        have : ¬ k = a := fun hh => h hh.symm
        simp [Env.set, Env.get, h, this]
      · simp [Env.set, Env.get, h, h', ih]

theorem Env.get_set_self (e : Env) (k : String) (v : Val) : (e.set k v).get k = some v := by
  simp [Env.get_set]

theorem Env.get_set_ne (e : Env) {k k' : String} (v : Val) (h : k ≠ k') : (e.set k v).get k' = e.get k' := by
  simp [Env.get_set, h]

/-- the five variables of the iterator `pfx` -/
def fieldsOf (pfx : String) : List String :=
  [pfx ++ ".off", pfx ++ ".addNext", pfx ++ ".cur", pfx ++ ".t", pfx ++ ".lim"]

/-- setting a variable that is not a field leaves the iterator alone -/
theorem iterAt_set_ne (e : Env) (pfx k : String) (v : Val) (h : k ∉ fieldsOf pfx) :
    iterAt (e.set k v) pfx = iterAt e pfx := by
  simp only [fieldsOf, List.mem_cons, List.not_mem_nil, or_false, not_or] at h
  obtain ⟨h1, h2, h3, h4, h5⟩ := h
  simp only [iterAt, Env.get_set, if_neg h1, if_neg h2, if_neg h3, if_neg h4, if_neg h5]

theorem iterAt_get (e : Env) (pfx : String) (i : Iter) (h : iterAt e pfx = some i) :
    e.get (pfx ++ ".off") = some (.int i.off) ∧ e.get (pfx ++ ".addNext") = some (.int i.addNext) ∧
    e.get (pfx ++ ".cur") = some (.u64 i.cur) ∧ e.get (pfx ++ ".t") = some (.u8 i.t) ∧
    e.get (pfx ++ ".lim") = some (.int i.lim) := by
  unfold iterAt at h
  split at h
  · rename_i o a c t l h1 h2 h3 h4 h5
    split at h
    · rename_i hh
      simp only [Option.some.injEq] at h
      subst h
      simp only [h1, h2, h3, h4, h5]
      simp [Int.toNat_of_nonneg hh.1, Int.toNat_of_nonneg hh.2]
    · cases h
  · cases h

theorem iterAt_get_i (e : Env) (i : Iter) (h : iterAt e "i" = some i) :
    e.get "i.off" = some (.int i.off) ∧ e.get "i.addNext" = some (.int i.addNext) ∧
    e.get "i.cur" = some (.u64 i.cur) ∧ e.get "i.t" = some (.u8 i.t) ∧ e.get "i.lim" = some (.int i.lim) :=
  iterAt_get e "i" i h

theorem iterAt_get_dst (e : Env) (i : Iter) (h : iterAt e "dst" = some i) :
    e.get "dst.off" = some (.int i.off) ∧ e.get "dst.addNext" = some (.int i.addNext) ∧
    e.get "dst.cur" = some (.u64 i.cur) ∧ e.get "dst.t" = some (.u8 i.t) ∧ e.get "dst.lim" = some (.int i.lim) :=
  iterAt_get e "dst" i h

theorem iterAt_of_gets (e : Env) (pfx : String) (i : Iter)
    (h1 : e.get (pfx ++ ".off") = some (.int i.off)) (h2 : e.get (pfx ++ ".addNext") = some (.int i.addNext))
    (h3 : e.get (pfx ++ ".cur") = some (.u64 i.cur)) (h4 : e.get (pfx ++ ".t") = some (.u8 i.t))
    (h5 : e.get (pfx ++ ".lim") = some (.int i.lim)) : iterAt e pfx = some i := by
  simp [iterAt, h1, h2, h3, h4, h5]

/-- two stores that agree on the fields hold the same iterator -/
theorem iterAt_congr (e e' : Env) (pfx : String) (h : ∀ k, k ∈ fieldsOf pfx → e'.get k = e.get k) :
    iterAt e' pfx = iterAt e pfx := by
  simp only [fieldsOf, List.mem_cons, List.not_mem_nil, or_false] at h
  simp only [iterAt, h (pfx ++ ".off") (by simp), h (pfx ++ ".addNext") (by simp), h (pfx ++ ".cur") (by simp),
    h (pfx ++ ".t") (by simp), h (pfx ++ ".lim") (by simp)]

/-- write the five variables of an iterator (what copying the receiver back does) -/
def setIter (e : Env) (pfx : String) (j : Iter) : Env :=
  ((((e.set (pfx ++ ".off") (.int j.off)).set (pfx ++ ".addNext") (.int j.addNext)).set (pfx ++ ".cur") (.u64 j.cur)).set
    (pfx ++ ".t") (.u8 j.t)).set (pfx ++ ".lim") (.int j.lim)

theorem iterAt_setIter_i (e : Env) (j : Iter) : iterAt (setIter e "i" j) "i" = some j := by
  simp [iterAt, setIter, Env.get_set]

theorem iterAt_setIter_dst (e : Env) (j : Iter) : iterAt (setIter e "dst" j) "dst" = some j := by
  simp [iterAt, setIter, Env.get_set]

theorem get_setIter_ne (e : Env) (pfx k : String) (j : Iter) (h : k ∉ fieldsOf pfx) :
    (setIter e pfx j).get k = e.get k := by
  simp only [fieldsOf, List.mem_cons, List.not_mem_nil, or_false, not_or] at h
  obtain ⟨h1, h2, h3, h4, h5⟩ := h
  simp only [setIter, Env.get_set, if_neg (Ne.symm h1), if_neg (Ne.symm h2), if_neg (Ne.symm h3), if_neg (Ne.symm h4),
    if_neg (Ne.symm h5)]

theorem iterAt_setIter_dst_i (e : Env) (j : Iter) : iterAt (setIter e "dst" j) "i" = iterAt e "i" := by
  apply iterAt_congr
  intro k hk
  apply get_setIter_ne
  revert k
  decide

theorem iterAt_setIter_i_dst (e : Env) (j : Iter) : iterAt (setIter e "i" j) "dst" = iterAt e "dst" := by
  apply iterAt_congr
  intro k hk
  apply get_setIter_ne
  revert k
  decide

/-! ## syntax -/

/-- body of the first `for { }` of a statement list -/
def firstLoop : List Stmt → List Stmt
  | [] => []
  | .loop b :: _ => b
  | _ :: r => firstLoop r

/-- the statements after the first `for { }` -/
def afterLoop : List Stmt → List Stmt
  | [] => []
  | .loop _ :: r => r
  | _ :: r => afterLoop r

/-! ## words -/

theorem payload_lt (v : UInt64) : (payloadOf v).toNat < 2^56 := by
  simp only [payloadOf, wJSONVALUEMASK, UInt64.toNat_and]
  have := @Nat.and_le_right v.toNat (72057594037927935)
  simp at this ⊢
  omega

theorem toInt64_payload (v : UInt64) : toInt64 (payloadOf v) = ((payloadOf v).toNat : Int) :=
  toInt64_small _ (by have := payload_lt v; omega)

theorem payload_toNat_ne (v : UInt64) (h : ¬ payloadOf v = 0) : (payloadOf v).toNat ≠ 0 :=
  fun hh => h (UInt64.toNat_inj.mp hh)

theorem u64_le_zero (x : UInt64) : x ≤ 0 ↔ x = 0 := by
  constructor
  · intro h
    apply UInt64.toNat_inj.mp
    have : x.toNat ≤ (0 : UInt64).toNat := UInt64.le_iff_toNat_le.mp h
    simp at this
    simpa using this
  · intro h; subst h; exact UInt64.le_refl _

set_option maxRecDepth 4096 in
theorem tagToType_end : tagToType 0 = 0 := by decide

/-! ## the model's loops, read with the whole iterator threaded

`Iter.advanceLoop pj i off` (and its two siblings) take the offset as a separate argument and never read `i.off`;
the Go loop keeps the offset in `i.off`.  `advanceLoop_self` … are the unfolding equations of
`Iter.advanceLoop pj j j.off` in which the recursive call is again of that form: one iteration of the Go loop on the
iterator `j` (offset, tag and payload are overwritten by every iteration). -/

/-- the offset field of the iterator handed to the loop is not read -/
theorem advanceLoop_off (pj : PJ) : ∀ (n : Nat) (i : Iter) (off : Nat), i.lim - off ≤ n →
    Iter.advanceLoop pj i off = Iter.advanceLoop pj { i with off := off } off := by
  intro n
  induction n with
  | zero =>
    intro i off hn
    rw [Iter.advanceLoop.eq_1 pj i off, Iter.advanceLoop.eq_1 pj { i with off := off } off]
    have h : off ≥ i.lim := by omega
    simp only [h, dif_pos]
  | succ n ih =>
    intro i off hn
    rw [Iter.advanceLoop.eq_1 pj i off, Iter.advanceLoop.eq_1 pj { i with off := off } off]
    by_cases h : off ≥ i.lim
    · simp only [h, dif_pos]
    · simp only [h, dif_neg, not_false_eq_true, Iter.rdT, rd]
      cases hr : pj.tape[off]? with
      | none => rfl
      | some v =>
        simp only [Res.bind_ok]
        by_cases hn' : tagOf v = tagNop
        · by_cases hz : payloadOf v = 0
          · simp [hn', hz]
          · have hz' := payload_toNat_ne v hz
            simp only [hn', hz, beq_self_eq_true, if_true, beq_iff_eq, if_false]
            rw [ih { i with cur := payloadOf v, t := tagNop } _ (by simp only; omega),
              ih { i with off := off, cur := payloadOf v, t := tagNop } _ (by simp only; omega)]
        · have hb : (tagOf v == tagNop) = false := by simp [hn']
          simp [hb]

theorem advanceIntoLoop_off (pj : PJ) : ∀ (n : Nat) (i : Iter) (off : Nat), i.lim - off ≤ n →
    Iter.advanceIntoLoop pj i off = Iter.advanceIntoLoop pj { i with off := off } off := by
  intro n
  induction n with
  | zero =>
    intro i off hn
    rw [Iter.advanceIntoLoop.eq_1 pj i off, Iter.advanceIntoLoop.eq_1 pj { i with off := off } off]
    have h : off ≥ i.lim := by omega
    simp only [h, dif_pos]
  | succ n ih =>
    intro i off hn
    rw [Iter.advanceIntoLoop.eq_1 pj i off, Iter.advanceIntoLoop.eq_1 pj { i with off := off } off]
    by_cases h : off ≥ i.lim
    · simp only [h, dif_pos]
    · simp only [h, dif_neg, not_false_eq_true, Iter.rdT, rd]
      cases hr : pj.tape[off]? with
      | none => rfl
      | some v =>
        simp only [Res.bind_ok]
        by_cases hn' : tagOf v = tagNop
        · by_cases hz : payloadOf v = 0
          · simp [hn', hz]
          · have hz' := payload_toNat_ne v hz
            simp only [hn', hz, beq_self_eq_true, if_true, beq_iff_eq, if_false, dite_false, dif_neg, not_false_eq_true]
            rw [ih { i with cur := payloadOf v, t := tagNop } _ (by simp only; omega),
              ih { i with off := off, cur := payloadOf v, t := tagNop } _ (by simp only; omega)]
        · have hb : (tagOf v == tagNop) = false := by simp [hn']
          simp [hb]

theorem advanceIterLoop_off (pj : PJ) : ∀ (n : Nat) (i : Iter) (off : Nat), i.lim - off ≤ n →
    Iter.advanceIterLoop pj i off = Iter.advanceIterLoop pj { i with off := off } off := by
  intro n
  induction n with
  | zero =>
    intro i off hn
    rw [Iter.advanceIterLoop.eq_1 pj i off, Iter.advanceIterLoop.eq_1 pj { i with off := off } off]
    by_cases he : off = i.lim
    · simp only [he, if_true]
    · have h : off > i.lim := by omega
      simp only [he, h, if_false, dif_pos]
  | succ n ih =>
    intro i off hn
    rw [Iter.advanceIterLoop.eq_1 pj i off, Iter.advanceIterLoop.eq_1 pj { i with off := off } off]
    by_cases he : off = i.lim
    · simp only [he, if_true]
    · by_cases h : off > i.lim
      · simp only [he, h, if_false, dif_pos]
      · simp only [he, h, if_false, dif_neg, not_false_eq_true, Iter.rdT, rd]
        cases hr : pj.tape[off]? with
        | none => rfl
        | some v =>
          simp only [Res.bind_ok]
          by_cases hn' : tagOf v = tagNop
          · by_cases hz : payloadOf v = 0
            · simp [hn', hz]
            · have hz' := payload_toNat_ne v hz
              simp only [hn', hz, beq_self_eq_true, if_true, beq_iff_eq, if_false]
              rw [ih { i with cur := payloadOf v, t := tagNop } _ (by simp only; omega),
                ih { i with off := off, cur := payloadOf v, t := tagNop } _ (by simp only; omega)]
          · have hb : (tagOf v == tagNop) = false := by simp [hn']
            simp [hb]

/-- one iteration of the loop of `Advance` on the iterator `j` -/
theorem advanceLoop_self (pj : PJ) (j : Iter) : Iter.advanceLoop pj j j.off =
    (if h : j.off >= j.lim then .ok ({ j with addNext := 0, t := tagEnd }, false)
    else do
      let v ← Iter.rdT pj j.off
      if tagOf v == tagNop then
        if payloadOf v == 0 then
          .ok (Iter.moveToEnd { j with off := j.off + 1, cur := payloadOf v, t := tagOf v }, false)
        else Iter.advanceLoop pj { j with off := j.off + 1 + ((payloadOf v).toNat - 1), cur := payloadOf v, t := tagOf v } (j.off + 1 + ((payloadOf v).toNat - 1))
      else .ok ({ j with off := j.off + 1, cur := payloadOf v, t := tagOf v }, true)) := by
  rw [Iter.advanceLoop.eq_1 pj j j.off]
  by_cases h : j.off ≥ j.lim
  · simp only [h, dif_pos]
  · simp only [h, dif_neg, not_false_eq_true]
    cases hr : Iter.rdT pj j.off with
    | ok v =>
      simp only [Res.bind_ok]
      rw [advanceLoop_off pj _ { j with cur := payloadOf v, t := tagOf v } _ (Nat.le_refl _)]
    | error e => rfl
    | panic => rfl
    | diverge => rfl

/-- one iteration of the loop of `AdvanceInto` on the iterator `j` -/
theorem advanceIntoLoop_self (pj : PJ) (j : Iter) : Iter.advanceIntoLoop pj j j.off =
    (if h : j.off >= j.lim then .ok ({ j with addNext := 0, t := tagEnd }, false)
    else do
      let v ← Iter.rdT pj j.off
      if tagOf v == tagNop then
        if hc : payloadOf v == 0 then .ok (Iter.moveToEnd { j with cur := payloadOf v, t := tagOf v }, false)
        else Iter.advanceIntoLoop pj { j with off := j.off + (payloadOf v).toNat, cur := payloadOf v, t := tagOf v } (j.off + (payloadOf v).toNat)
      else .ok ({ j with off := j.off + 1, cur := payloadOf v, t := tagOf v }, true)) := by
  rw [Iter.advanceIntoLoop.eq_1 pj j j.off]
  by_cases h : j.off ≥ j.lim
  · simp only [h, dif_pos]
  · simp only [h, dif_neg, not_false_eq_true]
    cases hr : Iter.rdT pj j.off with
    | ok v =>
      simp only [Res.bind_ok]
      rw [advanceIntoLoop_off pj _ { j with cur := payloadOf v, t := tagOf v } _ (Nat.le_refl _)]
    | error e => rfl
    | panic => rfl
    | diverge => rfl

/-- one iteration of the loop of `AdvanceIter` on the iterator `j` -/
theorem advanceIterLoop_self (pj : PJ) (j : Iter) : Iter.advanceIterLoop pj j j.off =
    (if j.off = j.lim then .ok ({ j with addNext := 0, t := tagEnd }, false)
    else if _h : j.off > j.lim then .error .generic
    else do
      let v ← Iter.rdT pj j.off
      if tagOf v == tagNop then
        if payloadOf v == 0 then .error .generic
        else Iter.advanceIterLoop pj { j with off := j.off + 1 + ((payloadOf v).toNat - 1), cur := payloadOf v, t := tagOf v } (j.off + 1 + ((payloadOf v).toNat - 1))
      else .ok ({ j with off := j.off + 1, cur := payloadOf v, t := tagOf v }, true)) := by
  rw [Iter.advanceIterLoop.eq_1 pj j j.off]
  by_cases he : j.off = j.lim
  · simp only [he, if_true]
  · by_cases h : j.off > j.lim
    · simp only [he, h, if_false, dif_pos]
    · simp only [he, h, if_false, dif_neg, not_false_eq_true]
      cases hr : Iter.rdT pj j.off with
      | ok v =>
        simp only [Res.bind_ok]
        rw [advanceIterLoop_off pj _ { j with cur := payloadOf v, t := tagOf v } _ (Nat.le_refl _)]
      | error e => rfl
      | panic => rfl
      | diverge => rfl

/-! ## calls -/
section calls
attribute [local simp] exec exec1 execCases evalE evalEs isOneOf binop convert ofE copyFields bindParams
  iterFields runFun tblLookup Env.get_set

theorem call_calcNext_i (s : St) (j : Iter) (b : Bool) (f : Nat) (hI : iterAt s.env "i" = some j)
    (hcur : j.cur.toNat < 2^63) :
    exec1 goFuns (f + 1) (.call "i" "Iter.calcNext" [.bool b]) s =
      .normal ⟨setIter s.env "i" (j.calcNext b), s.tape⟩ := by
  obtain ⟨h1, h2, h3, h4, h5⟩ := iterAt_get _ _ _ hI
  simp only [String.reduceAppend] at h1 h2 h3 h4 h5
  have hc := calcNext_exec j b s.tape f hcur
  simp only [envOf, String.reduceAppend, List.cons_append, List.nil_append, goIter_calcNext] at hc
  rw [exec1]
  simp [goFuns, h1, h2, h3, h4, h5, Env.set, goIter_calcNext, -exec, -exec1]
  rw [hc]
  simp [Env.get, setIter]

theorem call_calcNext_dst (s : St) (j : Iter) (b : Bool) (f : Nat) (hI : iterAt s.env "dst" = some j)
    (hcur : j.cur.toNat < 2^63) :
    exec1 goFuns (f + 1) (.call "dst" "Iter.calcNext" [.bool b]) s =
      .normal ⟨setIter s.env "dst" (j.calcNext b), s.tape⟩ := by
  obtain ⟨h1, h2, h3, h4, h5⟩ := iterAt_get _ _ _ hI
  simp only [String.reduceAppend] at h1 h2 h3 h4 h5
  have hc := calcNext_exec j b s.tape f hcur
  simp only [envOf, String.reduceAppend, List.cons_append, List.nil_append, goIter_calcNext] at hc
  rw [exec1]
  simp [goFuns, h1, h2, h3, h4, h5, Env.set, goIter_calcNext, -exec, -exec1]
  rw [hc]
  simp [Env.get, setIter]

theorem call_moveToEnd_i (s : St) (j : Iter) (f : Nat) (hI : iterAt s.env "i" = some j) :
    exec1 goFuns (f + 1) (.call "i" "Iter.moveToEnd" []) s = .normal ⟨setIter s.env "i" j.moveToEnd, s.tape⟩ := by
  obtain ⟨h1, h2, h3, h4, h5⟩ := iterAt_get _ _ _ hI
  simp only [String.reduceAppend] at h1 h2 h3 h4 h5
  have hc := moveToEnd_exec j s.tape f
  simp only [envOf, String.reduceAppend, goIter_moveToEnd] at hc
  rw [exec1]
  simp [goFuns, h1, h2, h3, h4, h5, Env.set, goIter_moveToEnd, -exec, -exec1]
  rw [hc]
  simp [Env.get, setIter]

end calls
end SJ.GoIter
