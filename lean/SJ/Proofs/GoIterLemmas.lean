import SJ.Proofs.GoIterBase
set_option linter.unusedVariables false
/-
GoIterLemmas — abstract stores.  The loops of the cursor functions are proved for *any* store in which the
receiver's five variables hold the iterator (`HasIter`), so the lemmas below describe `Env.get`/`Env.set` and
`iterAt` without looking at the shape of the association list.
-/
namespace SJ.GoIter
open SJ SJ.GoSem SJ.Generated

theorem Env.get_set (e : Env) (k k' : String) (v : Val) :
    (e.set k v).get k' = if k = k' then some v else e.get k' := by
  induction e with
  | nil =>
    by_cases h : k = k' <;> simp [Env.set, Env.get, h]
  | cons p r ih =>
    obtain ⟨a, b⟩ := p
    by_cases h : a = k
    · subst h
      by_cases h' : a = k' <;> simp [Env.set, Env.get, h']
    · by_cases h' : a = k'
      · subst h'
        have : ¬ k = a := fun hh => h hh.symm
        simp [Env.set, Env.get, h, this]
      · simp [Env.set, Env.get, h, h', ih]

theorem Env.get_set_self (e : Env) (k : String) (v : Val) : (e.set k v).get k = some v := by
  simp [Env.get_set]

theorem Env.get_set_ne (e : Env) {k k' : String} (v : Val) (h : k ≠ k') : (e.set k v).get k' = e.get k' := by
  simp [Env.get_set, h]

end SJ.GoIter
