import SJ.Proofs.GoFloatFmt
set_option linter.unusedVariables false
set_option linter.unusedSimpArgs false
/-
GoApiFloat — `floatToString` (parsed_json.go, as printed in `Generated/GoSrc.lean`) against `Model/FloatFmt.lean`,
from a caller whose store holds the shared buffers `Strings.B` and `Message`.

`callFun` copies the two buffers into every callee frame and back on return, so the whole chain of
`GoFloatFmtLemmas`/`GoFloatFmt` (`min`, `max`, `fmtF`, `appendFloatF`, `appendFloat`) is redone here on frames that
start with the two buffers (suffix `B`), each result also saying that the callee's final store still holds
`Strings.B = S`, `Message = M`; the caller's store comes back as `putB e S M`, which reads like `e` (`putB_get`).
`loop1`, `loop2`, `Keep`, `fmtFGo`, `fmtFGo_model`, the bit lemmas, `ryu_contract`, `goClean_append` are reused as is.

* `floatToString_run`: no buffers in the store; `floatToString_runB`: buffers in the store;
  `callFun_floatToString`: through `callFun` from any caller store holding the buffers.
  Fuel: `floatFuel bits + 1` (the call of `appendFloat` and what it needs).
-/
namespace SJ.GoApiFloat
open SJ SJ.GoSem SJ.Generated SJ.FloatFmt SJ.FloatFmtProofs SJ.GoFloatFmt

/-! ## stores -/

/-- setting a key to the value it already has does not change any `get` -/
theorem get_set_same (e : Env) (k : String) (v : Val) (h : e.get k = some v) (k' : String) :
    (e.set k v).get k' = e.get k' := by
  rw [GoFloatFmt.Env.get_set]
  by_cases hk : k = k'
  · subst hk; simp [h]
  · simp [hk]

/-- the caller's store after a call that leaves the shared buffers as they were -/
def putB (e : Env) (S M : Bytes) : Env := (e.set "Strings.B" (.bytes S)).set "Message" (.bytes M)

theorem putB_get (e : Env) (S M : Bytes) (hS : e.get "Strings.B" = some (.bytes S))
    (hM : e.get "Message" = some (.bytes M)) (k : String) : (putB e S M).get k = e.get k := by
  unfold putB
  rw [get_set_same _ _ _ (by rw [get_set_same _ _ _ hS]; exact hM), get_set_same _ _ _ hS]

/-! ## `min`, `max` -/

section calls
attribute [local simp] exec exec1 execCases evalE evalEs Env.get Env.set isOneOf binop convert ofE copyFields
  bindParams runFun

theorem gomin_runB (S M : Bytes) (a b : Int) (fuel : Nat) (tape : Array UInt64) :
    runFun goFuns gomin fuel ⟨[("Strings.B", .bytes S), ("Message", .bytes M), ("a", .int a), ("b", .int b)], tape⟩ =
      .ret ⟨[("Strings.B", .bytes S), ("Message", .bytes M), ("a", .int a), ("b", .int b)], tape⟩ [.int (min a b)] := by
  by_cases h : a < b
  · have : min a b = a := by omega
    simp [gomin, h, this]
  · have : min a b = b := by omega
    simp [gomin, h, this]

theorem gomax_runB (S M : Bytes) (a b : Int) (fuel : Nat) (tape : Array UInt64) :
    runFun goFuns gomax fuel ⟨[("Strings.B", .bytes S), ("Message", .bytes M), ("a", .int a), ("b", .int b)], tape⟩ =
      .ret ⟨[("Strings.B", .bytes S), ("Message", .bytes M), ("a", .int a), ("b", .int b)], tape⟩ [.int (max a b)] := by
  by_cases h : a > b
  · have : max a b = a := by omega
    simp [gomax, h, this]
  · have : max a b = b := by omega
    simp [gomax, h, this]

/-- `min(e1, e2)` from any caller that holds the shared buffers -/
theorem callFun_minB (s : St) (e1 e2 : Expr) (a b : Int) (f : Nat) (S M : Bytes)
    (hS : s.env.get "Strings.B" = some (.bytes S)) (hM : s.env.get "Message" = some (.bytes M))
    (h1 : evalE s e1 = .val (.int a)) (h2 : evalE s e2 = .val (.int b)) :
    callFun goFuns f "" "min" [] [e1, e2] s = .ret ⟨putB s.env S M, s.tape⟩ [.int (min a b)] := by
  have he := gomin_runB S M a b f s.tape
  simp only [runFun, gomin] at he
  rw [callFun]
  simp [goFuns, gomin, h1, h2, hS, hM, copyPtrs, copyGlobals, globalVars, copyPtrsBack, -exec, -exec1]
  revert he
  generalize exec goFuns f _ _ = out
  intro he
  cases out <;> simp at he ⊢
  obtain ⟨rfl, rfl⟩ := he
  simp [copyGlobals, copyPtrsBack, putB]

theorem callFun_maxB (s : St) (e1 e2 : Expr) (a b : Int) (f : Nat) (S M : Bytes)
    (hS : s.env.get "Strings.B" = some (.bytes S)) (hM : s.env.get "Message" = some (.bytes M))
    (h1 : evalE s e1 = .val (.int a)) (h2 : evalE s e2 = .val (.int b)) :
    callFun goFuns f "" "max" [] [e1, e2] s = .ret ⟨putB s.env S M, s.tape⟩ [.int (max a b)] := by
  have he := gomax_runB S M a b f s.tape
  simp only [runFun, gomax] at he
  rw [callFun]
  simp [goFuns, gomax, h1, h2, hS, hM, copyPtrs, copyGlobals, globalVars, copyPtrsBack, -exec, -exec1]
  revert he
  generalize exec goFuns f _ _ = out
  intro he
  cases out <;> simp at he ⊢
  obtain ⟨rfl, rfl⟩ := he
  simp [copyGlobals, copyPtrsBack, putB]

end calls

/-! ## the pieces of `fmtF` -/

/-- what `fmtF` reads of its frame, the shared buffers being there -/
structure FInB (e : Env) (dd : Bytes) (nd dp prec : Int) (neg : Bool) (S M : Bytes) : Prop where
  dd : e.get "d.d" = some (.bytes dd)
  nd : e.get "d.nd" = some (.int nd)
  dp : e.get "d.dp" = some (.int dp)
  prec : e.get "prec" = some (.int prec)
  neg : e.get "neg" = some (.bool neg)
  strs : e.get "Strings.B" = some (.bytes S)
  msg : e.get "Message" = some (.bytes M)

theorem FInB.keep {e e' : Env} {dd nd dp prec neg S M} (h : FInB e dd nd dp prec neg S M) (hk : Keep e e') :
    FInB e' dd nd dp prec neg S M :=
  ⟨by rw [hk _ (by decide), h.dd], by rw [hk _ (by decide), h.nd], by rw [hk _ (by decide), h.dp],
   by rw [hk _ (by decide), h.prec], by rw [hk _ (by decide), h.neg], by rw [hk _ (by decide), h.strs],
   by rw [hk _ (by decide), h.msg]⟩

theorem Keep.putB (e : Env) (S M : Bytes) (hS : e.get "Strings.B" = some (.bytes S))
    (hM : e.get "Message" = some (.bytes M)) : Keep e (putB e S M) :=
  fun x _ => putB_get e S M hS hM x

section segs
attribute [local simp] exec exec1 execCases evalE evalEs isOneOf binop convert ofE GoFloatFmt.Env.get_set

theorem seg_signB (tape : Array UInt64) (fuel : Nat) (e : Env) (dd nd dp prec neg S M) (out : Bytes)
    (h : FInB e dd nd dp prec neg S M) (hd : e.get "dst" = some (.bytes out)) :
    ∃ e', exec1 goFuns fuel sSign ⟨e, tape⟩ = .normal ⟨e', tape⟩ ∧
      e'.get "dst" = some (.bytes (out ++ (signL neg).toArray)) ∧ Keep e e' := by
  cases neg
  · exact ⟨e, by simp [sSign, h.neg], by simp [signL, hd], Keep.refl e⟩
  · refine ⟨_, by simp [sSign, h.neg, hd]; rfl, by simp [signL], Keep.set e "dst" _ (by decide)⟩

theorem seg_intB (tape : Array UInt64) (fuel : Nat) (e : Env) (dd nd dp prec neg S M) (out : Bytes)
    (h : FInB e dd nd dp prec neg S M) (hd : e.get "dst" = some (.bytes out))
    (h0 : 0 ≤ nd) (h1 : nd ≤ dd.size) (hf : (dp - min nd dp).toNat + 2 ≤ fuel) :
    ∃ e', exec1 goFuns fuel sInt ⟨e, tape⟩ = .normal ⟨e', tape⟩ ∧
      e'.get "dst" = some (.bytes (out ++ intPart dd nd dp)) ∧ Keep e e' := by
  obtain ⟨f, rfl⟩ : ∃ f, fuel = f + 1 := ⟨fuel - 1, by omega⟩
  by_cases hp : dp > 0
  · have hcall := callFun_minB ⟨e, tape⟩ (.v "d.nd") (.v "d.dp") nd dp f S M h.strs h.msg (by simp [h.nd]) (by simp [h.dp])
    have hm0 : 0 ≤ min nd dp := by omega
    have hm1 : min nd dp ≤ dd.size := by omega
    have hkp := Keep.putB e S M h.strs h.msg
    have hpre : exec goFuns (f + 1) [.callAssign ["m"] "" "min" [] [(.v "d.nd"), (.v "d.dp")],
        .assign "dst" (.appendB (.v "dst") (.sliceB (.v "d.d") (.int 0) (.v "m")))] ⟨e, tape⟩ =
        .normal ⟨((putB e S M).set "m" (.int (min nd dp))).set "dst" (.bytes (out ++ dd.extract 0 (min nd dp).toNat)), tape⟩ := by
      simp [hcall, assignTargets, putB_get e S M h.strs h.msg, h.dd, hd, hm0, hm1]
    obtain ⟨e', g1, g2, g3⟩ := loop1 tape dp (dp - min nd dp).toNat
      (((putB e S M).set "m" (.int (min nd dp))).set "dst" (.bytes (out ++ dd.extract 0 (min nd dp).toNat))) (min nd dp)
      (out ++ dd.extract 0 (min nd dp).toNat) (f + 1) (by omega) (by omega) (by simp)
      (by simp [putB_get e S M h.strs h.msg, h.dp]) (by simp)
    refine ⟨e', ?_, ?_, ?_⟩
    · rw [sInt, exec1]
      simp only [evalE, h.dp, binop, hp, decide_true]
      rw [show ([.callAssign ["m"] "" "min" [] [(.v "d.nd"), (.v "d.dp")],
        .assign "dst" (.appendB (.v "dst") (.sliceB (.v "d.d") (.int 0) (.v "m"))), .forc [] c1 p1 b1] : List Stmt) =
        [.callAssign ["m"] "" "min" [] [(.v "d.nd"), (.v "d.dp")],
        .assign "dst" (.appendB (.v "dst") (.sliceB (.v "d.d") (.int 0) (.v "m")))] ++ [.forc [] c1 p1 b1] from rfl,
        exec_append, hpre]
      simp only [exec_single, g1]
    · rw [g2]; simp [intPart, hp, Array.append_assoc]
    · exact ((hkp.set' "m" _ (by decide)).set' "dst" _ (by decide)).trans g3
  · refine ⟨_, by simp [sInt, h.dp, hp, hd]; rfl, by simp [intPart, hp], Keep.set e "dst" _ (by decide)⟩

theorem seg_fracB (tape : Array UInt64) (fuel : Nat) (e : Env) (dd nd dp prec neg S M) (out : Bytes)
    (h : FInB e dd nd dp prec neg S M) (hd : e.get "dst" = some (.bytes out))
    (h1 : nd ≤ dd.size) (hf : prec.toNat + 2 ≤ fuel) :
    ∃ e', exec1 goFuns fuel sFrac ⟨e, tape⟩ = .normal ⟨e', tape⟩ ∧
      e'.get "dst" = some (.bytes (out ++ GoFloatFmt.fracPart dd nd dp prec)) ∧ Keep e e' := by
  obtain ⟨f, rfl⟩ : ∃ f, fuel = f + 1 := ⟨fuel - 1, by omega⟩
  by_cases hp : prec > 0
  · obtain ⟨e', g1, g2, g3⟩ := loop2 tape dd nd dp prec h1 prec.toNat
      ((e.set "dst" (.bytes (out.push 46))).set "i" (.int 0)) 0 (out.push 46) f (by omega) (by omega)
      (by simp) (by simp [h.prec]) (by simp [h.dp]) (by simp [h.nd]) (by simp [h.dd]) (by simp)
    refine ⟨e', ?_, ?_, ?_⟩
    · rw [sFrac, exec1]
      simp only [evalE, h.prec, binop, hp, decide_true]
      rw [exec]
      simp only [exec1, evalE, hd]
      rw [exec_single, exec1]
      simp only [exec, exec1, evalE, Env.set, UInt8.reduceOfNat]
      rw [g1]
    · rw [g2]; simp [GoFloatFmt.fracPart, hp]
    · exact ((Keep.set e "dst" _ (by decide)).set' "i" _ (by decide)).trans g3
  · exact ⟨e, by simp [sFrac, h.prec, hp], by simp [GoFloatFmt.fracPart, hp, hd], Keep.refl e⟩

/-- the body of `fmtF` on any frame holding its arguments and the shared buffers -/
theorem fmtF_execB (tape : Array UInt64) (fuel : Nat) (e : Env) (dd nd dp prec neg S M) (dst : Bytes)
    (h : FInB e dd nd dp prec neg S M) (hd : e.get "dst" = some (.bytes dst))
    (h0 : 0 ≤ nd) (h1 : nd ≤ dd.size) (hf : fmtFFuel nd dp prec ≤ fuel) :
    ∃ e', exec goFuns fuel gofmtF.body ⟨e, tape⟩ = .ret ⟨e', tape⟩ [.bytes (dst ++ fmtFGo neg dd nd dp prec)] ∧
      Keep e e' := by
  have hf1 : (dp - min nd dp).toNat + 2 ≤ fuel := by unfold fmtFFuel at hf; omega
  have hf2 : prec.toNat + 2 ≤ fuel := by unfold fmtFFuel at hf; omega
  obtain ⟨ea, a1, a2, a3⟩ := seg_signB tape fuel e dd nd dp prec neg S M dst h hd
  obtain ⟨eb, b1, b2, b3⟩ := seg_intB tape fuel ea dd nd dp prec neg S M _ (h.keep a3) a2 h0 h1 hf1
  obtain ⟨ec, c1, c2, c3⟩ := seg_fracB tape fuel eb dd nd dp prec neg S M _ ((h.keep a3).keep b3) b2 h1 hf2
  refine ⟨ec, ?_, (a3.trans b3).trans c3⟩
  rw [gofmtF_body, exec, a1]
  simp only []
  rw [exec, b1]
  simp only []
  rw [exec, c1]
  simp [c2, fmtFGo, Array.append_assoc]

end segs

/-! ## `fmtF` through `callFun` -/

/-- the frame of `fmtF(dst, neg, d, prec)` as `callFun` builds it from a caller holding the buffers: the fields of
    the struct argument, the shared buffers, then the parameters -/
def fmtFEnvB (S M : Bytes) (dst : Bytes) (neg : Bool) (dd : Bytes) (nd dp : Int) (dneg : Bool) (prec : Int) : Env :=
  [("d.d", .bytes dd), ("d.nd", .int nd), ("d.dp", .int dp), ("d.neg", .bool dneg),
   ("Strings.B", .bytes S), ("Message", .bytes M),
   ("dst", .bytes dst), ("neg", .bool neg), ("prec", .int prec)]

theorem FInB_fmtFEnvB (S M : Bytes) (dst : Bytes) (neg : Bool) (dd : Bytes) (nd dp : Int) (dneg : Bool) (prec : Int) :
    FInB (fmtFEnvB S M dst neg dd nd dp dneg prec) dd nd dp prec neg S M := by
  constructor <;> simp [fmtFEnvB, Env.get]

/-- `fmtF(a1, a2, digs, a3)` through `callFun`, from any caller that holds the struct `digs` and the shared buffers -/
theorem callFun_fmtFB (s : St) (f : Nat) (a1 a2 a3 : Expr) (dst : Bytes) (neg : Bool) (dd : Bytes) (nd dp : Int)
    (dneg : Bool) (prec : Int) (S M : Bytes)
    (g1 : s.env.get "digs.d" = some (.bytes dd)) (g2 : s.env.get "digs.nd" = some (.int nd))
    (g3 : s.env.get "digs.dp" = some (.int dp)) (g4 : s.env.get "digs.neg" = some (.bool dneg))
    (hS : s.env.get "Strings.B" = some (.bytes S)) (hM : s.env.get "Message" = some (.bytes M))
    (e1 : evalE s a1 = .val (.bytes dst)) (e2 : evalE s a2 = .val (.bool neg)) (e3 : evalE s a3 = .val (.int prec))
    (h0 : 0 ≤ nd) (h1 : nd ≤ dd.size) (hf : fmtFFuel nd dp prec ≤ f) :
    ∃ e', callFun goFuns f "" "fmtF" ["digs"] [a1, a2, a3] s =
      .ret ⟨e', s.tape⟩ [.bytes (dst ++ fmtFGo neg dd nd dp prec)] ∧
      e'.get "Strings.B" = some (.bytes S) ∧ e'.get "Message" = some (.bytes M) := by
  obtain ⟨e', h, hk⟩ := fmtF_execB s.tape f _ dd nd dp prec neg S M dst (FInB_fmtFEnvB S M dst neg dd nd dp dneg prec)
    (by simp [fmtFEnvB, Env.get]) h0 h1 hf
  have hin := (FInB_fmtFEnvB S M dst neg dd nd dp dneg prec).keep hk
  have k4 : e'.get "d.neg" = some (.bool dneg) := by rw [hk _ (by decide)]; simp [fmtFEnvB, Env.get]
  simp only [fmtFEnvB] at h
  refine ⟨((((((s.env.set "digs.d" (.bytes dd)).set "digs.nd" (.int nd)).set "digs.dp" (.int dp)).set "digs.neg"
    (.bool dneg)).set "Strings.B" (.bytes S)).set "Message" (.bytes M)), ?_, by simp [GoFloatFmt.Env.get_set],
    by simp [GoFloatFmt.Env.get_set]⟩
  rw [callFun]
  simp [goFuns, gofmtF, evalEs, e1, e2, e3, g1, g2, g3, g4, hS, hM, copyPtrs, copyFields, copyGlobals, globalVars,
    bindParams, Env.set, Env.get]
  simp only [gofmtF] at h
  rw [h]
  simp [copyFields, copyPtrsBack, copyGlobals, globalVars, hin.dd, hin.nd, hin.dp, k4, hin.strs, hin.msg]

/-! ## `appendFloatF` -/

section aff
attribute [local simp] exec exec1 execCases evalE evalEs Env.get Env.set isOneOf binop convert ofE

/-- mantissa and exponent extraction (zero, denormal and normal inputs alike) -/
theorem affPre_execB (S M : Bytes) (dst : Bytes) (bits : UInt64) (fuel : Nat) (tape : Array UInt64) :
    ∃ e, exec goFuns fuel affPre
        ⟨[("Strings.B", .bytes S), ("Message", .bytes M), ("dst", .bytes dst), ("val", .u64 bits)], tape⟩ =
        .normal ⟨e, tape⟩ ∧
      e.get "dst" = some (.bytes dst) ∧ e.get "neg" = some (.bool ((bits >>> 63) != 0)) ∧
      e.get "mant" = some (.u64 (goMant bits)) ∧ e.get "exp" = some (.int (goExp bits)) ∧
      e.get "digs.neg" = some (.bool false) ∧ e.get "Strings.B" = some (.bytes S) ∧
      e.get "Message" = some (.bytes M) := by
  by_cases hx : exOf bits = 0
  · refine ⟨_, by simp [affPre, goappendFloatF, toInt64_shr52, hiWord_and, hx]; rfl, ?_⟩
    simp [goMant, goExp, hx]
  · have hx' : ¬ (0 : Int) = (exOf bits : Int) := by omega
    refine ⟨_, by simp [affPre, goappendFloatF, toInt64_shr52, hiWord_and, hx, hx']; rfl, ?_⟩
    simp [goMant, goExp, hx]

/-- the body of `appendFloatF` on its frame, the shared buffers being there -/
theorem appendFloatF_execB (S M : Bytes) (dst : Bytes) (bits : UInt64) (fuel : Nat) (tape : Array UInt64)
    (hf : affFuel bits ≤ fuel) :
    ∃ e', exec goFuns fuel goappendFloatF.body
        ⟨[("Strings.B", .bytes S), ("Message", .bytes M), ("dst", .bytes dst), ("val", .u64 bits)], tape⟩ =
      .ret ⟨e', tape⟩ [.bytes (dst ++ FloatFmt.fmtF ((bits >>> 63) != 0) (shortest (absOf bits)))] ∧
      e'.get "Strings.B" = some (.bytes S) ∧ e'.get "Message" = some (.bytes M) := by
  obtain ⟨e, hpre, d1, d2, d3, d4, d5, d6, d7⟩ := affPre_execB S M dst bits fuel tape
  obtain ⟨f, rfl⟩ : ∃ f, fuel = f + 1 := ⟨fuel - 1, by unfold affFuel at hf; omega⟩
  have hryu := ryu_contract bits
  unfold affFuel at hf
  rw [← fmtFGo_model]
  revert hryu hf
  generalize shortest (absOf bits) = sh
  intro hf hryu
  -- the three results of `ryuFtoaShortest`
  let e2 : Env := ((e.set "digs.d" (.bytes (asc sh.digits).toArray)).set "digs.nd" (.int sh.digits.length)).set
    "digs.dp" (.int sh.dp)
  have h2 : exec1 goFuns (f + 1) ryuStmt ⟨e, tape⟩ = .normal ⟨e2, tape⟩ := by
    simp [ryuStmt, d3, d4, hryu, assignTargets, e2]
  have s2 : e2.get "Strings.B" = some (.bytes S) := by simp [e2, GoFloatFmt.Env.get_set, d6]
  have m2 : e2.get "Message" = some (.bytes M) := by simp [e2, GoFloatFmt.Env.get_set, d7]
  -- `prec = max(digs.nd - digs.dp, 0)`
  have hmax := callFun_maxB ⟨e2, tape⟩ (.bin .sub (.v "digs.nd") (.v "digs.dp")) (.int 0)
    ((sh.digits.length : Int) - sh.dp) 0 f S M s2 m2
    (by simp [e2, GoFloatFmt.Env.get_set]) (by simp)
  have hp := putB_get e2 S M s2 m2
  let e3 : Env := (putB e2 S M).set "prec" (.int (max ((sh.digits.length : Int) - sh.dp) 0))
  have h3 : exec1 goFuns (f + 1) maxStmt ⟨e2, tape⟩ = .normal ⟨e3, tape⟩ := by
    simp [maxStmt, hmax, assignTargets, e3]
  -- `return fmtF(dst, neg, digs, prec)`
  obtain ⟨e4, h4, s4, m4⟩ := callFun_fmtFB ⟨e3, tape⟩ f (.v "dst") (.v "neg") (.v "prec") dst ((bits >>> 63) != 0)
    (asc sh.digits).toArray sh.digits.length sh.dp false (max ((sh.digits.length : Int) - sh.dp) 0) S M
    (by simp [e3, hp, e2, GoFloatFmt.Env.get_set]) (by simp [e3, hp, e2, GoFloatFmt.Env.get_set])
    (by simp [e3, hp, e2, GoFloatFmt.Env.get_set])
    (by simp [e3, hp, e2, GoFloatFmt.Env.get_set, d5]) (by simp [e3, hp, e2, GoFloatFmt.Env.get_set, d6])
    (by simp [e3, hp, e2, GoFloatFmt.Env.get_set, d7])
    (by simp [e3, hp, e2, GoFloatFmt.Env.get_set, d1]) (by simp [e3, hp, e2, GoFloatFmt.Env.get_set, d2])
    (by simp [e3, hp, e2, GoFloatFmt.Env.get_set])
    (by omega) (by simp [asc]) (by omega)
  refine ⟨e4, ?_, s4, m4⟩
  rw [aff_body, exec_append, hpre]
  simp only []
  rw [exec, h2]
  simp only []
  rw [exec, h3]
  simp only []
  rw [exec, fmtStmt, exec1, h4]

end aff

/-- `appendFloatF(a1, a2)` through `callFun`, from any caller holding the shared buffers -/
theorem callFun_appendFloatFB (s : St) (f : Nat) (a1 a2 : Expr) (dst : Bytes) (bits : UInt64) (S M : Bytes)
    (hS : s.env.get "Strings.B" = some (.bytes S)) (hM : s.env.get "Message" = some (.bytes M))
    (e1 : evalE s a1 = .val (.bytes dst)) (e2 : evalE s a2 = .val (.u64 bits)) (hf : affFuel bits ≤ f) :
    callFun goFuns f "" "appendFloatF" [] [a1, a2] s =
      .ret ⟨putB s.env S M, s.tape⟩ [.bytes (dst ++ FloatFmt.fmtF ((bits >>> 63) != 0) (shortest (absOf bits)))] := by
  obtain ⟨e', h, s', m'⟩ := appendFloatF_execB S M dst bits f s.tape hf
  rw [callFun]
  simp [goFuns, goappendFloatF, evalEs, e1, e2, hS, hM, copyPtrs, copyFields, copyGlobals, globalVars,
    bindParams, Env.set, Env.get]
  simp only [goappendFloatF] at h
  rw [h]
  simp [copyFields, copyPtrsBack, copyGlobals, globalVars, s', m', putB]

/-! ## `appendFloat` -/

/-- what `appendFloat(dst, f)` returns -/
def afVals (dst : Bytes) (bits : UInt64) : List Val :=
  match FloatFmt.appendFloat bits with
  | some b => [.bytes (dst ++ b), .bool false]
  | none => [.bytes #[], .bool true]

section af
attribute [local simp] exec exec1 execCases evalE evalEs Env.get Env.set isOneOf binop convert ofE

theorem clean_execB (S M : Bytes) (fuel : Nat) (tape : Array UInt64) (all : Bytes) (f a : UInt64) (h4 : 4 ≤ all.size) :
    ∃ e', exec goFuns fuel cleanStmts
        ⟨[("Strings.B", .bytes S), ("Message", .bytes M), ("dst", .bytes all), ("f", .u64 f), ("abs", .u64 a)], tape⟩ =
      .ret ⟨e', tape⟩ [.bytes (goClean all), .bool false] ∧
      e'.get "Strings.B" = some (.bytes S) ∧ e'.get "Message" = some (.bytes M) := by
  have i4 : (0 : Int) ≤ (all.size : Int) - 4 ∧ (all.size : Int) - 4 < all.size := by omega
  have i3 : (0 : Int) ≤ (all.size : Int) - 3 ∧ (all.size : Int) - 3 < all.size := by omega
  have i2 : (0 : Int) ≤ (all.size : Int) - 2 ∧ (all.size : Int) - 2 < all.size := by omega
  have i1 : (0 : Int) ≤ (all.size : Int) - 1 ∧ (all.size : Int) - 1 < all.size := by omega
  have j1 : (all.size : Int) - 1 ≤ all.size := by omega
  have t4 : ((all.size : Int) - 4).toNat = all.size - 4 := by omega
  have t3 : ((all.size : Int) - 3).toNat = all.size - 3 := by omega
  have t2 : ((all.size : Int) - 2).toNat = all.size - 2 := by omega
  have t1 : ((all.size : Int) - 1).toNat = all.size - 1 := by omega
  have g4 : (4 : Int) ≤ all.size := by omega
  have g3 : (3 : Int) ≤ all.size := by omega
  have g2 : (2 : Int) ≤ all.size := by omega
  have g1 : (1 : Int) ≤ all.size := by omega
  unfold goClean
  by_cases c4 : all[all.size - 4]?.getD 0 = 101
  · by_cases c3 : all[all.size - 3]?.getD 0 = 45
    · by_cases c2 : all[all.size - 2]?.getD 0 = 48
      · exact ⟨_, by
          simp [cleanStmts, goappendFloat, i4, i3, i2, i1, j1, t4, t3, t2, t1, g4, g3, g2, g1, c4, c3, c2]
          rfl, by simp, by simp⟩
      · have c2' : (all[all.size - 2]?.getD 0 == 48) = false := by simpa using c2
        exact ⟨_, by
          simp [cleanStmts, goappendFloat, i4, i3, i2, i1, j1, t4, t3, t2, t1, g4, g3, g2, g1, c4, c3, c2, c2']
          rfl, by simp, by simp⟩
    · have c3' : (all[all.size - 3]?.getD 0 == 45) = false := by simpa using c3
      exact ⟨_, by
        simp [cleanStmts, goappendFloat, i4, i3, i2, i1, j1, t4, t3, t2, t1, g4, g3, g2, g1, c4, c3, c3']
        rfl, by simp, by simp⟩
  · have c4' : (all[all.size - 4]?.getD 0 == 101) = false := by simpa using c4
    exact ⟨_, by
      simp [cleanStmts, goappendFloat, i4, i3, i2, i1, j1, t4, t3, t2, t1, g4, g3, g2, g1, c4, c4']
      rfl, by simp, by simp⟩

theorem nonFin_finB (S M : Bytes) (dst : Bytes) (bits : UInt64) (fuel : Nat) (tape : Array UInt64)
    (hfin : F64.isFinite bits = true) :
    exec1 goFuns fuel nonFinStmt
        ⟨[("Strings.B", .bytes S), ("Message", .bytes M), ("dst", .bytes dst), ("f", .u64 bits)], tape⟩ =
      .normal ⟨[("Strings.B", .bytes S), ("Message", .bytes M), ("dst", .bytes dst), ("f", .u64 bits)], tape⟩ := by
  obtain ⟨h1, h2⟩ := fin_facts bits hfin
  simp only [absOf, gt_iff_lt] at h1 h2
  simp [nonFinStmt, h1, h2]

theorem nonFin_nonfinB (S M : Bytes) (dst : Bytes) (bits : UInt64) (fuel : Nat) (tape : Array UInt64)
    (hfin : F64.isFinite bits = false) :
    exec1 goFuns fuel nonFinStmt
        ⟨[("Strings.B", .bytes S), ("Message", .bytes M), ("dst", .bytes dst), ("f", .u64 bits)], tape⟩ =
      .ret ⟨[("Strings.B", .bytes S), ("Message", .bytes M), ("dst", .bytes dst), ("f", .u64 bits)], tape⟩
        [.bytes #[], .bool true] := by
  rcases nonfin_facts bits hfin with h1 | ⟨h1, h2⟩
  · simp only [absOf] at h1
    simp [nonFinStmt, h1]
  · simp only [absOf, gt_iff_lt] at h1 h2
    simp [nonFinStmt, h1, h2]

theorem rangeCond_evalB (S M : Bytes) (dst : Bytes) (bits : UInt64) (tape : Array UInt64)
    (hfin : F64.isFinite bits = true) :
    evalE ⟨[("Strings.B", .bytes S), ("Message", .bytes M), ("dst", .bytes dst), ("f", .u64 bits),
        ("abs", .u64 (absOf bits))], tape⟩ rangeCond =
      .val (.bool (inRange bits)) := by
  have hx := (isFinite_iff bits).1 hfin
  rw [exOf_eq] at hx
  have ha : (absOf bits).toNat ≤ 0x7ff0000000000000 := by rw [absOf_toNat]; omega
  obtain ⟨l1, -, -⟩ := fcmpBits_pos (absOf bits) 4517329193108106637 ha (by decide)
  obtain ⟨-, l2, -⟩ := fcmpBits_pos (absOf bits) 4921056587992461136 ha (by decide)
  obtain ⟨-, -, l3⟩ := fcmpBits_pos (absOf bits) 0 ha (by decide)
  unfold inRange
  rw [loBits_eq, hiBits_eq]
  generalize h1 : decide (absOf bits ≥ 4517329193108106637) = b1 at l1 ⊢
  generalize h2 : decide (absOf bits < 4921056587992461136) = b2 at l2 ⊢
  generalize h3 : (absOf bits == 0) = b3 at l3 ⊢
  cases b1 <;> cases b2 <;> cases b3 <;> simp [rangeCond, l1, l2, l3]

theorem abs_execB (S M : Bytes) (dst : Bytes) (bits : UInt64) (fuel : Nat) (tape : Array UInt64) :
    exec1 goFuns fuel absStmt
        ⟨[("Strings.B", .bytes S), ("Message", .bytes M), ("dst", .bytes dst), ("f", .u64 bits)], tape⟩ =
      .normal ⟨[("Strings.B", .bytes S), ("Message", .bytes M), ("dst", .bytes dst), ("f", .u64 bits),
        ("abs", .u64 (absOf bits))], tape⟩ := by
  simp [absStmt, absOf]

/-- the `'f'` path -/
theorem appendFloat_FB (S M : Bytes) (dst : Bytes) (bits : UInt64) (fuel : Nat) (tape : Array UInt64)
    (hfin : F64.isFinite bits = true) (hr : inRange bits = true) (hf : affFuel bits + 1 ≤ fuel) :
    ∃ e', exec goFuns fuel goappendFloat.body
        ⟨[("Strings.B", .bytes S), ("Message", .bytes M), ("dst", .bytes dst), ("f", .u64 bits)], tape⟩ =
      .ret ⟨e', tape⟩ [.bytes (dst ++ FloatFmt.fmtF ((bits >>> 63) != 0) (shortest (absOf bits))), .bool false] ∧
      e'.get "Strings.B" = some (.bytes S) ∧ e'.get "Message" = some (.bytes M) := by
  obtain ⟨f, rfl⟩ : ∃ f, fuel = f + 1 := ⟨fuel - 1, by omega⟩
  have hc := callFun_appendFloatFB ⟨[("Strings.B", .bytes S), ("Message", .bytes M), ("dst", .bytes dst),
      ("f", .u64 bits), ("abs", .u64 (absOf bits))], tape⟩ f
    (.v "dst") (.v "f") dst bits S M (by simp) (by simp) (by simp) (by simp) (by omega)
  have hput : putB [("Strings.B", .bytes S), ("Message", .bytes M), ("dst", .bytes dst),
      ("f", .u64 bits), ("abs", .u64 (absOf bits))] S M = [("Strings.B", .bytes S), ("Message", .bytes M),
      ("dst", .bytes dst), ("f", .u64 bits), ("abs", .u64 (absOf bits))] := by simp [putB]
  simp only [hput] at hc
  refine ⟨[("Strings.B", .bytes S), ("Message", .bytes M), ("dst", .bytes dst), ("f", .u64 bits),
    ("abs", .u64 (absOf bits)),
    ("#c1", .bytes (dst ++ FloatFmt.fmtF ((bits >>> 63) != 0) (shortest (absOf bits))))], ?_, ?_, ?_⟩
  · rw [af_body]
    simp only [List.cons_append, List.nil_append]
    rw [exec, nonFin_finB S M dst bits _ tape hfin]
    simp only []
    rw [exec, abs_execB]
    simp only []
    rw [exec, fStmt, exec1, rangeCond_evalB S M dst bits tape hfin, hr]
    simp only []
    rw [exec, exec1, hc]
    simp [assignTargets, GoFloatFmt.Env.get_set]
  · simp
  · simp

/-- the `'e'` path -/
theorem appendFloat_EB (S M : Bytes) (dst : Bytes) (bits : UInt64) (fuel : Nat) (tape : Array UInt64)
    (hfin : F64.isFinite bits = true) (hr : inRange bits = false) :
    ∃ e', exec goFuns fuel goappendFloat.body
        ⟨[("Strings.B", .bytes S), ("Message", .bytes M), ("dst", .bytes dst), ("f", .u64 bits)], tape⟩ =
      .ret ⟨e', tape⟩
        [.bytes (dst ++ cleanExp (fmtE ((bits >>> 63) != 0) (shortest (absOf bits)))), .bool false] ∧
      e'.get "Strings.B" = some (.bytes S) ∧ e'.get "Message" = some (.bytes M) := by
  obtain ⟨e', hc, s', m'⟩ := clean_execB S M fuel tape (dst ++ fmtE ((bits >>> 63) != 0) (shortest (absOf bits))) bits
    (absOf bits) (by have := fmtE_size ((bits >>> 63) != 0) (shortest (absOf bits)); simp; omega)
  rw [goClean_append _ _ (fmtE_size _ _)] at hc
  refine ⟨e', ?_, s', m'⟩
  rw [af_body]
  simp only [List.cons_append, List.nil_append]
  rw [exec, nonFin_finB S M dst bits _ tape hfin]
  simp only []
  rw [exec, abs_execB]
  simp only []
  rw [exec, fStmt, exec1, rangeCond_evalB S M dst bits tape hfin, hr]
  have he : exec1 goFuns fuel eStmt ⟨[("Strings.B", .bytes S), ("Message", .bytes M), ("dst", .bytes dst),
        ("f", .u64 bits), ("abs", .u64 (absOf bits))], tape⟩ =
      .normal ⟨[("Strings.B", .bytes S), ("Message", .bytes M),
        ("dst", .bytes (dst ++ fmtE ((bits >>> 63) != 0) (shortest (absOf bits)))), ("f", .u64 bits),
        ("abs", .u64 (absOf bits))], tape⟩ := by
    simp [eStmt, extCall, assignTargets, absOf]
  simp only [exec, he]
  exact hc

end af

/-- the body of `appendFloat` on its frame, the shared buffers being there -/
theorem appendFloat_execB (S M : Bytes) (dst : Bytes) (bits : UInt64) (fuel : Nat) (tape : Array UInt64)
    (hf : floatFuel bits ≤ fuel) :
    ∃ e', exec goFuns fuel goappendFloat.body
        ⟨[("Strings.B", .bytes S), ("Message", .bytes M), ("dst", .bytes dst), ("f", .u64 bits)], tape⟩ =
      .ret ⟨e', tape⟩ (afVals dst bits) ∧
      e'.get "Strings.B" = some (.bytes S) ∧ e'.get "Message" = some (.bytes M) := by
  cases hfin : F64.isFinite bits
  · have hn := (appendFloat_none_iff bits).2 hfin
    refine ⟨[("Strings.B", .bytes S), ("Message", .bytes M), ("dst", .bytes dst), ("f", .u64 bits)], ?_,
      by simp [Env.get], by simp [Env.get]⟩
    rw [af_body]
    simp only [List.cons_append, List.nil_append]
    rw [exec, nonFin_nonfinB S M dst bits fuel tape hfin]
    simp [afVals, hn]
  · have hm := appendFloat_model bits hfin
    unfold floatFuel at hf
    cases hr : inRange bits
    · obtain ⟨e', h, s', m'⟩ := appendFloat_EB S M dst bits fuel tape hfin hr
      exact ⟨e', by rw [h]; simp [afVals, hm, hr], s', m'⟩
    · rw [hr] at hf
      obtain ⟨e', h, s', m'⟩ := appendFloat_FB S M dst bits fuel tape hfin hr (by simpa using hf)
      exact ⟨e', by rw [h]; simp [afVals, hm, hr], s', m'⟩

/-- `appendFloat(a1, a2)` through `callFun`, from any caller holding the shared buffers -/
theorem callFun_appendFloatB (s : St) (f : Nat) (a1 a2 : Expr) (dst : Bytes) (bits : UInt64) (S M : Bytes)
    (hS : s.env.get "Strings.B" = some (.bytes S)) (hM : s.env.get "Message" = some (.bytes M))
    (e1 : evalE s a1 = .val (.bytes dst)) (e2 : evalE s a2 = .val (.u64 bits)) (hf : floatFuel bits ≤ f) :
    callFun goFuns f "" "appendFloat" [] [a1, a2] s = .ret ⟨putB s.env S M, s.tape⟩ (afVals dst bits) := by
  obtain ⟨e', h, s', m'⟩ := appendFloat_execB S M dst bits f s.tape hf
  rw [callFun]
  simp [goFuns, goappendFloat, evalEs, e1, e2, hS, hM, copyPtrs, copyFields, copyGlobals, globalVars,
    bindParams, Env.set, Env.get]
  simp only [goappendFloat] at h
  rw [h]
  simp [copyFields, copyPtrsBack, copyGlobals, globalVars, s', m', putB]

/-! ## `appendFloat` from a caller without the buffers -/

/-- the body of `appendFloat` on its frame, no shared buffers -/
theorem appendFloat_exec (dst : Bytes) (bits : UInt64) (fuel : Nat) (tape : Array UInt64)
    (hf : floatFuel bits ≤ fuel) :
    ∃ e', exec goFuns fuel goappendFloat.body ⟨[("dst", .bytes dst), ("f", .u64 bits)], tape⟩ =
      .ret ⟨e', tape⟩ (afVals dst bits) := by
  cases hfin : F64.isFinite bits
  · have hn := (appendFloat_none_iff bits).2 hfin
    refine ⟨[("dst", .bytes dst), ("f", .u64 bits)], ?_⟩
    rw [af_body]
    simp only [List.cons_append, List.nil_append]
    rw [exec, nonFin_nonfin dst bits fuel tape hfin]
    simp [afVals, hn]
  · have hm := appendFloat_model bits hfin
    unfold floatFuel at hf
    cases hr : inRange bits
    · obtain ⟨e', h⟩ := appendFloat_E dst bits fuel tape hfin hr
      exact ⟨e', by rw [h]; simp [afVals, hm, hr]⟩
    · rw [hr] at hf
      obtain ⟨e', h⟩ := appendFloat_F dst bits fuel tape hfin hr (by simpa using hf)
      exact ⟨e', by rw [h]; simp [afVals, hm, hr]⟩

/-- `appendFloat(a1, a2)` through `callFun`, from any caller without the shared buffers -/
theorem callFun_appendFloat (s : St) (f : Nat) (a1 a2 : Expr) (dst : Bytes) (bits : UInt64)
    (hS : s.env.get "Strings.B" = none) (hM : s.env.get "Message" = none)
    (e1 : evalE s a1 = .val (.bytes dst)) (e2 : evalE s a2 = .val (.u64 bits)) (hf : floatFuel bits ≤ f) :
    ∃ e', callFun goFuns f "" "appendFloat" [] [a1, a2] s = .ret ⟨e', s.tape⟩ (afVals dst bits) := by
  obtain ⟨e', h⟩ := appendFloat_exec dst bits f s.tape hf
  rw [callFun]
  simp [goFuns, goappendFloat, evalEs, e1, e2, hS, hM, copyPtrs, copyFields, copyGlobals, globalVars,
    bindParams, Env.set, Env.get]
  simp only [goappendFloat] at h
  rw [h]
  simp [copyFields, copyPtrsBack]

/-! ## `floatToString` -/

/-- what `floatToString(f)` returns -/
def ftsVals (bits : UInt64) : List Val :=
  match FloatFmt.appendFloat bits with
  | some b => [.bytes b, .bool false]
  | none => [.bytes #[], .bool true]

theorem afVals_nil (bits : UInt64) : afVals #[] bits = ftsVals bits := by
  unfold afVals ftsVals
  cases FloatFmt.appendFloat bits <;> simp

theorem ftsVals_shape (bits : UInt64) : ∃ b c, ftsVals bits = [.bytes b, .bool c] := by
  unfold ftsVals
  cases FloatFmt.appendFloat bits
  · exact ⟨_, _, rfl⟩
  · exact ⟨_, _, rfl⟩

def tmpStmt : Stmt := .assign "tmp" (.zerosB 32)
def afStmt : Stmt :=
  .callAssign ["v", "err"] "" "appendFloat" [] [(.sliceB (.v "tmp") (.int 0) (.int 0)), (.v "f")]
def retStmt : Stmt := .ret [(.v "v"), (.v "err")]
theorem fts_body : gofloatToString.body = [tmpStmt, afStmt, retStmt] := rfl

section fts
attribute [local simp] exec exec1 execCases evalE evalEs Env.get Env.set isOneOf binop convert ofE

/-- the body of `floatToString` on its frame, no shared buffers -/
theorem floatToString_exec (bits : UInt64) (fuel : Nat) (tape : Array UInt64) (hf : floatFuel bits + 1 ≤ fuel) :
    ∃ e', exec goFuns fuel gofloatToString.body ⟨[("f", .u64 bits)], tape⟩ = .ret ⟨e', tape⟩ (ftsVals bits) := by
  obtain ⟨f, rfl⟩ : ∃ f, fuel = f + 1 := ⟨fuel - 1, by omega⟩
  obtain ⟨e', hc⟩ := callFun_appendFloat ⟨[("f", .u64 bits), ("tmp", .bytes (Array.replicate 32 0))], tape⟩ f
    (.sliceB (.v "tmp") (.int 0) (.int 0)) (.v "f") #[] bits (by simp) (by simp) (by simp) (by simp) (by omega)
  simp only [] at hc
  rw [afVals_nil] at hc
  obtain ⟨b, c, hv⟩ := ftsVals_shape bits
  rw [hv] at hc ⊢
  refine ⟨(e'.set "v" (.bytes b)).set "err" (.bool c), ?_⟩
  rw [fts_body, exec]
  have h1 : exec1 goFuns (f + 1) tmpStmt ⟨[("f", .u64 bits)], tape⟩ =
      .normal ⟨[("f", .u64 bits), ("tmp", .bytes (Array.replicate 32 0))], tape⟩ := by
    simp [tmpStmt]
  rw [h1]
  simp only []
  rw [exec, afStmt, exec1, hc]
  simp [assignTargets, retStmt, GoFloatFmt.Env.get_set]

/-- the body of `floatToString` on its frame, the shared buffers being there -/
theorem floatToString_execB (S M : Bytes) (bits : UInt64) (fuel : Nat) (tape : Array UInt64)
    (hf : floatFuel bits + 1 ≤ fuel) :
    ∃ e', exec goFuns fuel gofloatToString.body
        ⟨[("Strings.B", .bytes S), ("Message", .bytes M), ("f", .u64 bits)], tape⟩ = .ret ⟨e', tape⟩ (ftsVals bits) ∧
      e'.get "Strings.B" = some (.bytes S) ∧ e'.get "Message" = some (.bytes M) := by
  obtain ⟨f, rfl⟩ : ∃ f, fuel = f + 1 := ⟨fuel - 1, by omega⟩
  have hc := callFun_appendFloatB ⟨[("Strings.B", .bytes S), ("Message", .bytes M), ("f", .u64 bits),
      ("tmp", .bytes (Array.replicate 32 0))], tape⟩ f
    (.sliceB (.v "tmp") (.int 0) (.int 0)) (.v "f") #[] bits S M (by simp) (by simp) (by simp) (by simp) (by omega)
  have hput : putB [("Strings.B", .bytes S), ("Message", .bytes M), ("f", .u64 bits),
      ("tmp", .bytes (Array.replicate 32 0))] S M = [("Strings.B", .bytes S), ("Message", .bytes M),
      ("f", .u64 bits), ("tmp", .bytes (Array.replicate 32 0))] := by simp [putB]
  simp only [hput] at hc
  rw [afVals_nil] at hc
  obtain ⟨b, c, hv⟩ := ftsVals_shape bits
  rw [hv] at hc ⊢
  refine ⟨[("Strings.B", .bytes S), ("Message", .bytes M), ("f", .u64 bits),
      ("tmp", .bytes (Array.replicate 32 0)), ("v", .bytes b), ("err", .bool c)], ?_, by simp, by simp⟩
  rw [fts_body, exec]
  have h1 : exec1 goFuns (f + 1) tmpStmt ⟨[("Strings.B", .bytes S), ("Message", .bytes M), ("f", .u64 bits)], tape⟩ =
      .normal ⟨[("Strings.B", .bytes S), ("Message", .bytes M), ("f", .u64 bits),
        ("tmp", .bytes (Array.replicate 32 0))], tape⟩ := by
    simp [tmpStmt]
  rw [h1]
  simp only []
  rw [exec, afStmt, exec1, hc]
  simp [assignTargets, retStmt, GoFloatFmt.Env.get_set]

end fts

/-- (1) `floatToString(f)`, no shared buffers in the store -/
theorem floatToString_run (bits : UInt64) (fuel : Nat) (tape : Array UInt64) (hf : floatFuel bits + 1 ≤ fuel) :
    ∃ s, runFun goFuns gofloatToString fuel ⟨[("f", .u64 bits)], tape⟩ = .ret s (ftsVals bits) ∧ s.tape = tape := by
  obtain ⟨e', h⟩ := floatToString_exec bits fuel tape hf
  exact ⟨⟨e', tape⟩, by rw [runFun, h], rfl⟩

/-- (2) `floatToString(f)` with the shared buffers in the store -/
theorem floatToString_runB (S M : Bytes) (bits : UInt64) (fuel : Nat) (tape : Array UInt64)
    (hf : floatFuel bits + 1 ≤ fuel) :
    ∃ s, runFun goFuns gofloatToString fuel
          ⟨[("Strings.B", .bytes S), ("Message", .bytes M), ("f", .u64 bits)], tape⟩ =
        .ret s (ftsVals bits) ∧ s.tape = tape ∧
      s.env.get "Strings.B" = some (.bytes S) ∧ s.env.get "Message" = some (.bytes M) := by
  obtain ⟨e', h, s', m'⟩ := floatToString_execB S M bits fuel tape hf
  exact ⟨⟨e', tape⟩, by rw [runFun, h], rfl, s', m'⟩

/-- (3) `floatToString(a)` through `callFun` from ANY caller store that holds the two buffers -/
theorem callFun_floatToString (s : St) (f : Nat) (a : Expr) (S M : Bytes) (bits : UInt64)
    (hS : s.env.get "Strings.B" = some (.bytes S)) (hM : s.env.get "Message" = some (.bytes M))
    (ha : evalE s a = .val (.u64 bits)) (hf : floatFuel bits + 1 ≤ f) :
    callFun goFuns f "" "floatToString" [] [a] s =
      .ret ⟨(s.env.set "Strings.B" (.bytes S)).set "Message" (.bytes M), s.tape⟩ (ftsVals bits) := by
  obtain ⟨e', h, s', m'⟩ := floatToString_execB S M bits f s.tape hf
  rw [callFun]
  simp [goFuns, gofloatToString, evalEs, ha, hS, hM, copyPtrs, copyFields, copyGlobals, globalVars,
    bindParams, Env.set, Env.get]
  simp only [gofloatToString] at h
  rw [h]
  simp [copyFields, copyPtrsBack, copyGlobals, globalVars, s', m']

/-- the store (3) returns reads like the caller's -/
theorem callFun_floatToString_get (s : St) (S M : Bytes)
    (hS : s.env.get "Strings.B" = some (.bytes S)) (hM : s.env.get "Message" = some (.bytes M)) (k : String) :
    ((s.env.set "Strings.B" (.bytes S)).set "Message" (.bytes M)).get k = s.env.get k :=
  putB_get s.env S M hS hM k

end SJ.GoApiFloat

#print axioms SJ.GoApiFloat.floatToString_run
#print axioms SJ.GoApiFloat.floatToString_runB
#print axioms SJ.GoApiFloat.callFun_floatToString
