import SJ.Proofs.GoFindLemmas
set_option linter.unusedVariables false
set_option linter.unusedSimpArgs false
/-
GoFind — `Object.FindKey`, `Object.FindPath` (`parsed_object.go`) and `Iter.AdvanceIter#self` (the call
`tmp.AdvanceIter(&tmp)` of `FindPath`, destination = receiver) as printed by the translator (`Generated/GoSrc.lean`) and
run by `GoSem.exec`, against the hand model `Model/Object.lean` (`View.findKey`, `View.findPath`, `View.findPathTop`) and
`Model/Iter.lean` (`Iter.advanceIter`).

Setting.  `pj` with `BufOK pj` (buffer lengths are Go `int`s; needed by `stringByteAt` only), a view `v` with
`v.lim ≤ pj.tape.size`, any store `e0` that holds the receiver `o`, the two buffers, the parameter (`key` : `Val.bytes`,
`path` : `Val.keys`), the hidden flag `dst==nil` and — when it is false — the five fields of `dst.Iter` (`DstIn`; `dst.Name`
and `dst.Type` are only written).  `D0 nil d0` is the content of `dst.Iter` when `AdvanceIter(&dst.Iter)` is called: zeroes
(`default`) if `dst` was nil and `&Element{}` was allocated, the caller's `d0` otherwise.
Fuel: `2·v.lim + 11` for the interpreter (every turn of either loop moves the cursor forward or restricts the view, so
there are at most `lim - off + 1` turns WHATEVER the length of the path; a call costs at most `lim + 9`), `v.lim - v.off + 1`
for the model (`findPathTop`'s own `fuelOf pj = 2·size + 16` is enough).  The interpreter is never stuck, never out of fuel.

  1. `advanceIterSelf_sim`  the tree of `Iter.AdvanceIter#self` IS `advanceIterSelf` (the exact meaning: ONE object) and, read
                            against the model's `i.advanceIter pj i` + the choice `if ty == typeNone then i2 else d` of
                            `View.findPath` (`SimSelfModel`): returned type and error agree; the receiver afterwards IS the
                            choice, except (B) below; `advanceIterSelf_object`: for `TypeObject` — the only case in which
                            `FindPath` goes on to use the object — it is the restricted `d`.
                            Exits of the Go code: end of view `(TypeNone, nil)`: object = `i1` (`t = TagEnd`, `addNext = 0`)
                            = the model's `i2`; errors (offset beyond the tape, NOP with skip 0, negative element size with
                            `moveToEnd`, element beyond the tape): the model returns `.error` before choosing, and so does
                            `FindPath` (`tmp` is a local: nothing of it is observable) — only "the fields stay bound, the tape
                            and the buffers are untouched" is needed and proved (`KL_…`, `PL_…`); success: object =
                            `{ i2.calcNext true with lim := iEnd }` = the model's `d`.
  2. `findKey_sim`          `FKPost`: model `.ok (some (ty, d))` ⇔ returns non-nil with `dst.Type = ty`, `dst.Name = key`,
                            `dst.Iter = d` (see (A)), tape unchanged; `.ok none` ⇔ nil; `.panic` ⇔ panic; the model has no
                            error outcome (`FKPost.iff`).  When nil is returned nothing is claimed about `*dst`.
  3. `findPath_sim`         `FPPost` for `View.findPathTop pj v path`: `.ok (ty, d)` ⇔ returns `(non-nil, nil)` with
                            `dst.Type = ty`, `dst.Name = ` last key, `dst.Iter = d` (see (A)); `.error _` ⇔ returns `(b, non-nil)`
                            with `b = true` if the caller's `dst` was non-nil (also when it was allocated before the last
                            `AdvanceIter` failed); `.panic` ⇔ panic (`FPPost.iff`); empty path: error.
                            `findPath_sim_fuel`: the same for `View.findPath` with any sufficient model fuel.
  4. `go_find_source_tie`   the bundle on the conventional stores `fkStore` / `fpStore`.

MODEL / GO DIFFERENCES (found by these proofs; the model was not bent; both kept as `example`s at the end).
  (A) `dst.Iter` at the end of the view.  When the key is found but `AdvanceIter` reaches the end of the view (NOP words up
      to `lim`), Go returns `(TypeNone, nil)` WITHOUT writing `*dst`; `findKey`/`findPath` call `advanceIter pj default` and
      report the iterator `default`.  For a caller-supplied `dst` Go leaves `dst.Iter` as it was.  Statement used:
      `dst.Iter = if d = default then D0 nil d0 else d`, together with `d = default → ty = typeNone` (`advanceIter_dst`: a
      returned element never is `default`, its offset is ≥ 1).  No difference when `dst` was nil (`D0 = default`), and none in
      the returned values.
  (B) the choice `if ty == typeNone then i2 else d` of `View.findPath` after `tmp.AdvanceIter(&tmp)`.  For a live word whose
      tag has `TagToType = TypeNone` (unknown tag) the single Go object is the restricted `d`, the choice says `i2` (same
      cursor, unrestricted view).  Not observable: `findPath` and Go both return the "not an object" error next.
  No other difference: errors of `stringByteAt` (nil in `FindKey`, `(dst, err)` in `FindPath`), the length pre-check
  (`int(length) != len(key)`, two's complement), the view-checked read `tmp.tape.Tape[tmp.off]` (guarded by
  `tmp.off+1 < len`) agree; the model's panics (`bump < 0`, read beyond the array) are unreachable but the Go code agrees
  on them anyway (`exec1_advance`).  The model's error KINDS (`.pathNotFound` / `.generic`) are not visible to the
  interpreter, whose errors are booleans.

The proofs run the syntax trees: any edit of these Go functions changes `Generated/GoSrc.lean` and breaks them
(`fkBody_eq`, `fpBody_eq`, `fp_body_split`, `self_body_split`, `self_tail_split` are `rfl` against the generated trees).
-/
namespace SJ.GoFind
open SJ SJ.GoSem SJ.Generated SJ.GoIter SJ.GoObject SJ.GoDelete SJ.GoPJForEach

attribute [local simp] exec exec1 execCases evalE evalEs isOneOf binop convert ofE copyFields bindParams
  iterFields runFun tblLookup Env.get_set

/-! ## 1. `Iter.AdvanceIter#self` -/

/-- `tmp.AdvanceIter(&tmp)` against the hand model's `tmp.advanceIter pj tmp` followed by the choice made in
    `View.findPath` (`if ty == typeNone then i2 else d`). -/
def SimSelfModel (pj : PJ) (o : Out) : Res (Iter × Iter × UInt8) → Prop
  | .ok (i2, d, ty) => ∃ s j, o = .ret s [.u8 ty, .bool false] ∧ s.tape = pj.tape ∧ iterAt s.env "i" = some j ∧
      (j = (if ty == typeNone then i2 else d) ∨ (ty = typeNone ∧ j = d))
  | .error _ => ∃ s v, o = .ret s [v, .bool true]
  | .panic => o = .panic
  | .diverge => False

theorem advanceIterSelf_sim (pj : PJ) (i : Iter) (hl : i.lim ≤ pj.tape.size) (e0 : Env)
    (hI : iterAt e0 "i" = some i) (fuel : Nat) (hf : fuelFor i ≤ fuel) :
    SimSelf pj.tape (runFun goFuns goIter_AdvanceIter_self fuel ⟨e0, pj.tape⟩) (advanceIterSelf pj i) ∧
    SimSelfModel pj (runFun goFuns goIter_AdvanceIter_self fuel ⟨e0, pj.tape⟩) (i.advanceIter pj i) := by
  have key := advanceIterSelf_exec pj i e0 hl fuel hf hI
  have hrun : runFun goFuns goIter_AdvanceIter_self fuel ⟨e0, pj.tape⟩ =
      exec goFuns fuel goIter_AdvanceIter_self.body ⟨e0, pj.tape⟩ := runFun_final _ _ _ _ key.final
  rw [hrun]
  refine ⟨key, ?_⟩
  have hm := advanceIterSelf_model pj i
  revert key hm
  generalize exec goFuns fuel goIter_AdvanceIter_self.body ⟨e0, pj.tape⟩ = out
  cases i.advanceIter pj i with
  | ok r =>
    obtain ⟨i2, d, ty⟩ := r
    intro key hm
    rcases hm with hm | ⟨ht, hm⟩
    · rw [hm] at key
      obtain ⟨s, h1, h2, h3⟩ := key
      exact ⟨s, _, h1, h2, h3, Or.inl rfl⟩
    · rw [hm] at key
      obtain ⟨s, h1, h2, h3⟩ := key
      exact ⟨s, _, h1, h2, h3, Or.inr ⟨ht, rfl⟩⟩
  | error e =>
    intro key hm
    obtain ⟨e', hm⟩ := hm
    rw [hm] at key
    exact key
  | panic => intro key hm; rw [hm] at key; exact key
  | diverge => intro key hm; rw [hm] at key; exact key

/-- what `FindPath` uses: when an object is returned the receiver IS the model's choice (the restricted `d`) -/
theorem advanceIterSelf_object (pj : PJ) (i i2 d : Iter) (h : i.advanceIter pj i = .ok (i2, d, typeObject)) :
    advanceIterSelf pj i = .ok (d, typeObject) := by
  have hm := advanceIterSelf_model pj i
  rw [h] at hm
  rcases hm with hm | ⟨ht, _⟩
  · exact hm
  · exact absurd ht (by decide)

/-! ## 2. `Object.FindKey` -/

def fkBody : List Stmt := firstLoop goObject_FindKey.body

theorem fkBody_eq : fkBody = headA [.bool false] ++ (headB ++ (lenMis [.bool false] :: (sbSeg [.bool false] ++
    (nameMis :: (allocSeg ++ aiTail [.bool false] [.not (.v "dst==nil")]))))) := rfl

/-- the caller's `dst.Iter` when the call is made: zeroed if `dst` was nil (`&Element{}`), else what it held -/
def D0 (nil : Bool) (d0 : Iter) : Iter := if nil then default else d0

/-- outcome of `FindKey` against the model (`D`: the content of `dst.Iter` when `AdvanceIter` is called):
    * `.ok (some (ty, d))`: returns non-nil; `dst.Type = ty`, `dst.Name = key`, `dst.Iter = d` — except at the end of the
      view (`ty = TypeNone` because `AdvanceIter` found nothing): the model then says `default`, Go leaves `dst.Iter` alone;
    * `.ok none`: returns nil; `.panic`: panics; the model has no other outcome; the tape is untouched. -/
def FKPost (pj : PJ) (key : Bytes) (D : Iter) (o : Out) : Res (Option (UInt8 × Iter)) → Prop
  | .ok (some (ty, d)) => ∃ e', o = .ret ⟨e', pj.tape⟩ [.bool true] ∧ e'.get "dst.Type" = some (.u8 ty) ∧
      e'.get "dst.Name" = some (.bytes key) ∧ iterAt e' "dst.Iter" = some (if d = default then D else d) ∧
      (d = default → ty = typeNone)
  | .ok none => ∃ e', o = .ret ⟨e', pj.tape⟩ [.bool false]
  | .error _ => False
  | .panic => o = .panic
  | .diverge => False

theorem loop_unfold (F : Nat) (body : List Stmt) (s : St) :
    exec1 goFuns (F + 1) (.loop body) s =
      match exec goFuns F body s with
      | .normal s' => exec1 goFuns F (.loop body) s'
      | .cont s' => exec1 goFuns F (.loop body) s'
      | .brk s' => .normal s'
      | o => o := by
  rw [exec1]
  generalize exec goFuns F body s = out
  cases out <;> rfl

theorem fr_adv_set (e : Env) (i' : Iter) (pj : PJ) (k : String) (v : Val) (hk : k ∈ scr) :
    Fr scr e ((advEnv e "tmp" i' pj).set k v) :=
  ((Fr.refl scr e).advEnv i' pj (by decide)).set _ _ hk

/-- the loop of `FindKey` IS `View.findKey` -/
theorem findKey_loop (pj : PJ) (hb : BufOK pj) (key : Bytes) (nil : Bool) (d0 : Iter) : ∀ (n : Nat) (tmp : Iter)
    (e : Env) (fuel mf : Nat),
    tmp.lim - pos tmp < n → 0 ≤ tmp.addNext → n ≤ mf → n + tmp.lim + 10 ≤ fuel → tmp.lim ≤ pj.tape.size →
    LInv pj tmp key nil d0 e →
    FKPost pj key (D0 nil d0) (exec1 goFuns fuel (.loop fkBody) ⟨e, pj.tape⟩) (View.findKey pj key tmp mf) := by
  intro n
  induction n with
  | zero => intro tmp e fuel mf h; omega
  | succ n ih =>
    intro tmp e fuel mf hm h0 hmf hf hl inv
    obtain ⟨m, rfl⟩ : ∃ m, mf = m + 1 := ⟨mf - 1, by omega⟩
    obtain ⟨F, rfl⟩ : ∃ F, fuel = F + 2 := ⟨fuel - 2, by omega⟩
    have hA := headA_run pj e tmp F [.bool false] (headB ++ (lenMis [.bool false] :: (sbSeg [.bool false] ++
      (nameMis :: (allocSeg ++ aiTail [.bool false] [.not (.v "dst==nil")]))))) inv.it hl (by omega)
    rw [View.findKey, loop_unfold, fkBody_eq]
    cases hr : tmp.advance pj with
    | panic => rw [hr] at hA; simp only [] at hA; rw [hA]; simp [FKPost]
    | error _ => rw [hr] at hA; exact hA.elim
    | diverge => rw [hr] at hA; exact hA.elim
    | ok r =>
      obtain ⟨tmp1, typ⟩ := r
      rw [hr] at hA
      simp only [] at hA
      rw [hA]
      simp only [Res.bind_ok]
      have inv1 : LInv pj tmp1 key nil d0 ((advEnv e "tmp" tmp1 pj).set "typ" (.u8 typ)) :=
        inv.step (fr_adv_set e tmp1 pj "typ" _ (by decide)) (by decide)
          ((inv.it.adv tmp1 (by decide) (by decide) (by decide)).set _ _ (by decide))
      generalize (advEnv e "tmp" tmp1 pj).set "typ" (.u8 typ) = E1 at inv1 ⊢
      by_cases hc : typ ≠ typeString ∨ tmp1.off + 1 ≥ tmp1.lim
      · have hc' : (typ != typeString) = true ∨ tmp1.off + 1 ≥ tmp1.lim := by
          rcases hc with h | h
          · exact Or.inl (by simpa using h)
          · exact Or.inr h
        rw [if_pos hc, if_pos hc', retOut_bool]
        exact ⟨E1, rfl⟩
      · have hc' : ¬ ((typ != typeString) = true ∨ tmp1.off + 1 ≥ tmp1.lim) := by
          intro h
          apply hc
          rcases h with h | h
          · exact Or.inl (by simpa using h)
          · exact Or.inr h
        rw [if_neg hc, if_neg hc']
        have hts : typ = typeString := by
          apply Classical.byContradiction; intro h; exact hc (Or.inl h)
        have htn : typ ≠ typeNone := by rw [hts]; decide
        have h2 : tmp1.off + 1 < tmp1.lim := by omega
        obtain ⟨f1, f2, f3, f4, f5, _⟩ := advance_facts pj tmp h0 tmp1 typ hr htn
        obtain ⟨w, hw, hB⟩ := headB_run pj E1 tmp1 (F + 1) (lenMis [.bool false] :: (sbSeg [.bool false] ++
          (nameMis :: (allocSeg ++ aiTail [.bool false] [.not (.v "dst==nil")])))) inv1.it.it (by omega) h2
        rw [hB]
        simp only [rd, hw, Res.bind_ok]
        have inv2 : LInv pj tmp1 key nil d0 ((E1.set "offset" (.u64 tmp1.cur)).set "length" (.u64 w)) :=
          inv1.step (((Fr.refl scr E1).set _ _ (by decide)).set _ _ (by decide)) (by decide)
            ((inv1.it.set _ _ (by decide)).set _ _ (by decide))
        have hO2 : ((E1.set "offset" (.u64 tmp1.cur)).set "length" (.u64 w)).get "offset" = some (.u64 tmp1.cur) := by
          simp
        have hW2 : ((E1.set "offset" (.u64 tmp1.cur)).set "length" (.u64 w)).get "length" = some (.u64 w) := by
          simp
        generalize (E1.set "offset" (.u64 tmp1.cur)).set "length" (.u64 w) = E2 at inv2 hO2 hW2 ⊢
        have hL := lenMis_run pj E2 tmp1 F [.bool false] (sbSeg [.bool false] ++
          (nameMis :: (allocSeg ++ aiTail [.bool false] [.not (.v "dst==nil")]))) w key inv2.it (by omega) (by omega)
          hW2 inv2.hkey
        by_cases hlen : toInt64 w ≠ (key.size : Int)
        · have hlen' : (toInt64 w != (key.size : Int)) = true := by simpa using hlen
          rw [if_pos hlen] at hL
          simp only [hlen', if_true]
          cases hr2 : tmp1.advance pj with
          | panic => rw [hr2] at hL; simp only [] at hL; rw [hL]; simp [FKPost]
          | error _ => rw [hr2] at hL; exact hL.elim
          | diverge => rw [hr2] at hL; exact hL.elim
          | ok r2 =>
            obtain ⟨tmp2, t⟩ := r2
            rw [hr2] at hL
            simp only [] at hL
            rw [hL]
            simp only [Res.bind_ok]
            have inv3 : LInv pj tmp2 key nil d0 ((advEnv E2 "tmp" tmp2 pj).set "t" (.u8 t)) :=
              inv2.step (fr_adv_set E2 tmp2 pj "t" _ (by decide)) (by decide)
                ((inv2.it.adv tmp2 (by decide) (by decide) (by decide)).set _ _ (by decide))
            generalize (advEnv E2 "tmp" tmp2 pj).set "t" (.u8 t) = E3 at inv3 ⊢
            by_cases ht : t = typeNone
            · subst ht
              simp only [if_true, beq_self_eq_true, retOut_bool]
              exact ⟨E3, rfl⟩
            · have ht' : (t == typeNone) = false := by simpa using ht
              obtain ⟨q1, q2, q3⟩ := advance_progress pj tmp1 f4 tmp2 t hr2
              simp only [ht, ht', if_false, Bool.false_eq_true]
              exact ih tmp2 E3 (F + 1) m (by unfold pos at hm ⊢; omega) q2 (by omega) (by omega) (by omega) inv3
        · have hlen' : (toInt64 w != (key.size : Int)) = false := by simpa using hlen
          rw [if_neg hlen] at hL
          rw [hL]
          simp only [hlen', Bool.false_eq_true, if_false]
          obtain ⟨E4, it4, fr4, hS⟩ := sbSeg_run pj E2 tmp1 F [.bool false] (nameMis :: (allocSeg ++
            aiTail [.bool false] [.not (.v "dst==nil")])) tmp1.cur w hb inv2.it hO2 hW2
          have inv4 : LInv pj tmp1 key nil d0 E4 := inv2.step fr4 (by decide) it4
          rcases stringByteAt_cases pj tmp1.cur w with ⟨name, hsb⟩ | hsb
          · rw [hsb] at hS ⊢
            obtain ⟨hname, hx⟩ := hS
            rw [hx]
            simp only []
            have hN := nameMis_run pj E4 tmp1 (F + 1) (allocSeg ++ aiTail [.bool false] [.not (.v "dst==nil")]) name key
              inv4.it.it (by omega) (by omega) hname inv4.hkey
            by_cases hne : (name != key) = true
            · rw [if_pos hne] at hN
              simp only [hne, if_true]
              cases hr2 : tmp1.advance pj with
              | panic => rw [hr2] at hN; simp only [] at hN; rw [hN]; simp [FKPost]
              | error _ => rw [hr2] at hN; exact hN.elim
              | diverge => rw [hr2] at hN; exact hN.elim
              | ok r2 =>
                obtain ⟨tmp2, t⟩ := r2
                rw [hr2] at hN
                simp only [] at hN
                rw [hN]
                simp only [Res.bind_ok]
                have inv5 : LInv pj tmp2 key nil d0 (setIter E4 "tmp" tmp2) :=
                  inv4.step ((Fr.refl scr E4).setIter "tmp" tmp2 (by decide)) (by decide) (itInv_setIterTmp inv4.it tmp2)
                obtain ⟨q1, q2, q3⟩ := advance_progress pj tmp1 f4 tmp2 t hr2
                exact ih tmp2 _ (F + 1) m (by unfold pos at hm ⊢; omega) q2 (by omega) (by omega) (by omega) inv5
            · rw [if_neg hne] at hN
              have hne' : (name != key) = false := by simpa using hne
              rw [hN]
              simp only [hne', Bool.false_eq_true, if_false]
              obtain ⟨E5, hx5, hnil5, hname5, hD5, fr5⟩ := allocSeg_run E4 pj.tape (F + 1)
                (aiTail [.bool false] [.not (.v "dst==nil")]) nil key d0 inv4.hnil inv4.hkey inv4.hdst
              rw [hx5]
              have it5 : ItInv pj "tmp" tmp1 E5 := itInv_fr inv4.it fr5 (by decide)
              have hT := aiTail_run pj E5 (F + 1) tmp1 (D0 nil d0) [.bool false] [.not (.v "dst==nil")] [] it5 hD5
                (by omega) (by unfold fuelFor; omega)
              simp only [List.append_nil] at hT
              have hind := advanceIter_dst pj tmp1 (D0 nil d0)
              cases hai : tmp1.advanceIter pj default with
              | ok r3 =>
                obtain ⟨i', d', ty⟩ := r3
                rw [hai] at hind
                simp only [] at hind ⊢
                have hfin : ∀ dd, retOut [.not (.v "dst==nil")] ⟨aidEnv E5 pj i' dd ty, pj.tape⟩ =
                    .ret ⟨aidEnv E5 pj i' dd ty, pj.tape⟩ [.bool true] := by
                  intro dd
                  have : (aidEnv E5 pj i' dd ty).get "dst==nil" = some (.bool false) := by
                    rw [aidEnv_fr E5 pj i' dd ty _ (by decide)]; exact hnil5
                  simp [retOut, this]
                have hnm : ∀ dd, (aidEnv E5 pj i' dd ty).get "dst.Name" = some (.bytes key) := by
                  intro dd
                  rw [aidEnv_fr E5 pj i' dd ty _ (by decide)]; exact hname5
                have hty : ∀ dd, (aidEnv E5 pj i' dd ty).get "dst.Type" = some (.u8 ty) := by
                  intro dd; simp [aidEnv]
                obtain ⟨hind, hdn⟩ := hind
                rw [hind] at hT
                simp only [] at hT
                rw [hT, hfin]
                exact ⟨_, rfl, hty _, hnm _, aidEnv_dst _ _ _ _ _, hdn⟩
              | error err =>
                rw [hai] at hind
                simp only [] at hind ⊢
                rw [hind] at hT
                obtain ⟨e', hx, _, _⟩ := hT
                rw [hx, retOut_bool]
                exact ⟨e', rfl⟩
              | panic =>
                rw [hai] at hind
                simp only [] at hind ⊢
                rw [hind] at hT
                simp only [] at hT
                rw [hT]
                simp [FKPost]
              | diverge =>
                rw [hai] at hind
                simp only [] at hind
                rw [hind] at hT
                exact hT.elim
          · rw [hsb] at hS ⊢
            obtain ⟨_, hx⟩ := hS
            rw [hx, retOut_bool]
            simp only []
            exact ⟨E4, rfl⟩

/-- the store after `tmp := o.tape.Iter(); tmp.off = o.off` -/
def initEnv (e0 : Env) (v : View) : Env :=
  (((((e0.set "tmp.off" (.int 0)).set "tmp.addNext" (.int 0)).set "tmp.cur" (.u64 0)).set "tmp.t" (.u8 0)).set "tmp.lim"
    (.int v.lim)).set "tmp.off" (.int v.off)

theorem initEnv_inv (pj : PJ) (v : View) (e0 : Env) (h0 : RecvIn pj "o" v e0) : ItInv pj "tmp" v.iter (initEnv e0 v) := by
  obtain ⟨a1, a2, hS, hM⟩ := h0
  refine ⟨?_, ?_, ?_⟩
  · apply iterAt_of_gets <;> simp [initEnv, View.iter, tagEnd]
  · simp [initEnv, hS]
  · simp [initEnv, hM]

theorem initEnv_fr (v : View) (e0 : Env) : Fr (fieldsOf "tmp") e0 (initEnv e0 v) :=
  ((((((Fr.refl _ e0).set _ _ (by decide)).set _ _ (by decide)).set _ _ (by decide)).set _ _ (by decide)).set _ _
    (by decide)).set _ _ (by decide)

/-- what the store holds when `FindKey` / `FindPath` is entered: the receiver `o`, the two buffers, the hidden flag
    `dst == nil` and — when `dst` is not nil — the five fields of `dst.Iter` (`dst.Name`, `dst.Type` need not be bound:
    they are only written) -/
structure DstIn (pj : PJ) (v : View) (nil : Bool) (d0 : Iter) (e0 : Env) : Prop where
  recv : RecvIn pj "o" v e0
  hnil : e0.get "dst==nil" = some (.bool nil)
  hdst : nil = false → iterAt e0 "dst.Iter" = some d0

/-- **`Object.FindKey` IS `View.findKey`** -/
theorem findKey_sim (pj : PJ) (hb : BufOK pj) (v : View) (hl : v.lim ≤ pj.tape.size) (key : Bytes) (nil : Bool)
    (d0 : Iter) (e0 : Env) (h0 : DstIn pj v nil d0 e0) (hkey : e0.get "key" = some (.bytes key)) (fuel mf : Nat)
    (hmf : v.lim - v.off + 1 ≤ mf) (hf : 2 * v.lim + 11 ≤ fuel) :
    FKPost pj key (D0 nil d0) (runFun goFuns goObject_FindKey fuel ⟨e0, pj.tape⟩) (View.findKey pj key v.iter mf) := by
  have hsplit : goObject_FindKey.body = goObject_FindKey.body.take 6 ++ [.loop fkBody] := rfl
  have hinit : exec goFuns fuel (goObject_FindKey.body.take 6) ⟨e0, pj.tape⟩ = .normal ⟨initEnv e0 v, pj.tape⟩ := by
    obtain ⟨a1, a2, hS, hM⟩ := h0.recv
    simp only [String.reduceAppend] at a1 a2
    simp [goObject_FindKey, a1, a2, initEnv]
  have inv : LInv pj v.iter key nil d0 (initEnv e0 v) := by
    refine ⟨initEnv_inv pj v e0 h0.recv, ?_, ?_, ?_⟩
    · rw [initEnv_fr v e0 _ (by decide)]; exact hkey
    · rw [initEnv_fr v e0 _ (by decide)]; exact h0.hnil
    · intro hn
      rw [iterAt_congr e0 _ "dst.Iter" (fun k hk => initEnv_fr v e0 k (by revert k; decide))]
      exact h0.hdst hn
  have hloop := findKey_loop pj hb key nil d0 (v.lim - v.off + 1) v.iter (initEnv e0 v) fuel mf
    (by simp [pos, View.iter]) (by simp [View.iter]) hmf (by simp [View.iter]; omega) hl inv
  unfold runFun
  rw [hsplit, exec_append, hinit]
  simp only []
  rw [exec]
  revert hloop
  generalize exec1 goFuns fuel (.loop fkBody) _ = out
  cases View.findKey pj key v.iter mf with
  | ok r =>
    cases r with
    | none => rintro ⟨e', rfl⟩; exact ⟨e', rfl⟩
    | some p =>
      obtain ⟨ty, d⟩ := p
      rintro ⟨e', rfl, h1, h2, h3, h4⟩
      exact ⟨e', rfl, h1, h2, h3, h4⟩
  | error _ => exact fun h => h.elim
  | panic => rintro rfl; rfl
  | diverge => exact fun h => h.elim

/-! ## 3. `Object.FindPath` -/

/-- `return dst, ErrPathNotFound` (and `return dst, fmt.Errorf(…)`) -/
def RN : List Expr := [.not (.v "dst==nil"), .bool true]
/-- `return dst, err` -/
def RE : List Expr := [.not (.v "dst==nil"), .v "err"]
/-- `return dst, nil` -/
def ROK : List Expr := [.not (.v "dst==nil"), .bool false]

def selfCall : Stmt := .callAssign ["t", "err"] "tmp" "Iter.AdvanceIter#self" [] []

/-- `if len(path) == 0 { if dst == nil { dst = &Element{} }; dst.Name = key; dst.Type, err = tmp.AdvanceIter(&dst.Iter);
    if err != nil { return dst, err }; return dst, nil }` -/
def lastSeg : Stmt := .ite (.bin .eq (.lenK (.v "path")) (.int 0)) (allocSeg ++ aiTail RE ROK) []

/-- `t, err := tmp.AdvanceIter(&tmp); if err != nil { return dst, err }; if t != TypeObject { return dst, fmt.Errorf(…) };
    key = path[0]; path = path[1:]` -/
def descend : List Stmt := [
  selfCall,
  .ite (.bin .ne (.v "err") (.bool false /- nil -/)) [.ret RE] [],
  .ite (.bin .ne (.v "t") (.u8 7 /- TypeObject -/)) [.ret RN] [],
  .assign "key" (.idxK (.v "path") (.int 0)),
  .assign "path" (.dropK (.v "path") (.int 1))]

def fpBody : List Stmt := firstLoop goObject_FindPath.body

theorem fpBody_eq : fpBody = headA RN ++ (headB ++ (lenMis RN :: (sbSeg RE ++ (nameMis :: (lastSeg :: descend))))) := rfl

theorem retOut_RN (s : St) (nil : Bool) (h : s.env.get "dst==nil" = some (.bool nil)) :
    retOut RN s = .ret s [.bool (!nil), .bool true] := retOut_dst s nil _ _ h rfl

theorem retOut_ROK (s : St) (nil : Bool) (h : s.env.get "dst==nil" = some (.bool nil)) :
    retOut ROK s = .ret s [.bool (!nil), .bool false] := retOut_dst s nil _ _ h rfl

theorem retOut_RE (s : St) (nil : Bool) (h : s.env.get "dst==nil" = some (.bool nil))
    (he : s.env.get "err" = some (.bool true)) : retOut RE s = .ret s [.bool (!nil), .bool true] :=
  retOut_dst s nil _ _ h (by simp [he])

theorem exec_ite_true (f : Nat) (c : Expr) (t e rest : List Stmt) (s : St) (h : evalE s c = .val (.bool true)) :
    exec goFuns f (.ite c t e :: rest) s = exec goFuns f (t ++ rest) s := by
  rw [exec, exec1, h, exec_append]
  simp only []
  generalize exec goFuns f t s = o
  cases o <;> rfl

theorem exec_ite_skip (f : Nat) (c : Expr) (t rest : List Stmt) (s : St) (h : evalE s c = .val (.bool false)) :
    exec goFuns f (.ite c t [] :: rest) s = exec goFuns f rest s := by
  rw [exec, exec1, h]
  simp only []
  rw [exec]

/-- the last key of the path `key :: path` -/
def lastKey : Bytes → List Bytes → Bytes
  | k, [] => k
  | _, k :: r => lastKey k r

theorem lastKey_eq_getLast (k : Bytes) (path : List Bytes) :
    lastKey k path = (k :: path).getLast (List.cons_ne_nil _ _) := by
  induction path generalizing k with
  | nil => rfl
  | cons a r ih => rw [lastKey, ih, List.getLast_cons (List.cons_ne_nil _ _)]

/-- outcome of `FindPath` against the model (`lk`: the last key of the path; `nil`: whether the caller passed a nil `dst`;
    `D`: the content of `dst.Iter` when `AdvanceIter` is called):
    * `.ok (ty, d)`: returns `(dst, nil)` with `dst` non-nil, `dst.Type = ty`, `dst.Name = lk`, `dst.Iter = d` (same exception
      at the end of the view as for `FindKey`);
    * `.error _`: returns `(dst, err)` with a non-nil error; `dst` is non-nil if the caller's was (and also when it was
      allocated before the error, which only the last `AdvanceIter` can do);
    * `.panic`: panics.  The tape is untouched. -/
def FPPost (pj : PJ) (lk : Bytes) (nil : Bool) (D : Iter) (o : Out) : Res (UInt8 × Iter) → Prop
  | .ok (ty, d) => ∃ e', o = .ret ⟨e', pj.tape⟩ [.bool true, .bool false] ∧ e'.get "dst.Type" = some (.u8 ty) ∧
      e'.get "dst.Name" = some (.bytes lk) ∧ iterAt e' "dst.Iter" = some (if d = default then D else d) ∧
      (d = default → ty = typeNone)
  | .error _ => ∃ e' b, o = .ret ⟨e', pj.tape⟩ [.bool b, .bool true] ∧ (nil = false → b = true)
  | .panic => o = .panic
  | .diverge => False

theorem not_nil_imp (nil : Bool) : nil = false → (!nil) = true := by intro h; subst h; rfl

/-- the store after a successful `t, err := tmp.AdvanceIter(&tmp)` -/
def selfEnv (e : Env) (pj : PJ) (j : Iter) (ty : UInt8) : Env :=
  ((advEnv e "tmp" j pj).set "t" (.u8 ty)).set "err" (.bool false)

theorem selfEnv_fr (e : Env) (pj : PJ) (j : Iter) (ty : UInt8) : Fr scr e (selfEnv e pj j ty) :=
  (((Fr.refl scr e).advEnv j pj (by decide)).set _ _ (by decide)).set _ _ (by decide)

theorem selfEnv_inv {pj : PJ} {i : Iter} {e : Env} (h : ItInv pj "tmp" i e) (j : Iter) (ty : UInt8) :
    ItInv pj "tmp" j (selfEnv e pj j ty) :=
  ((h.adv j (by decide) (by decide) (by decide)).set _ _ (by decide)).set _ _ (by decide)

theorem descend_run (pj : PJ) (e : Env) (F : Nat) (tmp1 : Iter) (k : Bytes) (rest : List Bytes)
    (inv : ItInv pj "tmp" tmp1 e) (hp : e.get "path" = some (.keys (k :: rest))) (hl : tmp1.lim ≤ pj.tape.size)
    (hf : fuelFor tmp1 + 1 ≤ F) :
    match advanceIterSelf pj tmp1 with
    | .ok (j, ty) => exec goFuns F descend ⟨e, pj.tape⟩ =
        if ty ≠ typeObject then retOut RN ⟨selfEnv e pj j ty, pj.tape⟩
        else .normal ⟨((selfEnv e pj j ty).set "key" (.bytes k)).set "path" (.keys rest), pj.tape⟩
    | .error _ => ∃ e', exec goFuns F descend ⟨e, pj.tape⟩ = retOut RE ⟨e', pj.tape⟩ ∧
        e'.get "err" = some (.bool true) ∧ Fr selfTouched e e'
    | .panic => exec goFuns F descend ⟨e, pj.tape⟩ = .panic
    | .diverge => False := by
  have hc := callSelf_run pj e F tmp1 inv hl hf
  revert hc
  cases advanceIterSelf pj tmp1 with
  | ok r =>
    obtain ⟨j, ty⟩ := r
    intro hc
    simp only [] at hc ⊢
    have hp' : (selfEnv e pj j ty).get "path" = some (.keys (k :: rest)) := by
      rw [selfEnv_fr e pj j ty _ (by decide)]; exact hp
    rw [descend, exec, selfCall, hc]
    simp only []
    change exec goFuns F _ ⟨selfEnv e pj j ty, pj.tape⟩ = _
    rw [exec_ite_ret _ _ _ _ _ false (by simp [selfEnv]),
      exec_ite_ret _ _ _ _ _ (ty != 7) (by simp [selfEnv])]
    simp only [Bool.false_eq_true, if_false]
    by_cases ht : ty = typeObject
    · subst ht
      have hp7 : (selfEnv e pj j 7).get "path" = some (.keys (k :: rest)) := hp'
      have h1 : (1 : Int) ≤ (rest.length : Int) + 1 := by omega
      simp [typeObject, hp7, h1]
    · have ht' : (ty != 7) = true := by simpa [typeObject] using ht
      simp only [ht, ht', if_true, ne_eq, not_false_eq_true]
  | error _ =>
    intro hc
    obtain ⟨e', hx, herr, hfr⟩ := hc
    refine ⟨e', ?_, herr, hfr⟩
    rw [descend, exec, selfCall, hx]
    simp only []
    rw [exec_ite_ret _ _ _ _ _ true (by simp [herr])]
    simp
  | panic =>
    intro hc
    simp only [] at hc ⊢
    rw [descend, exec, selfCall, hc]
  | diverge => exact fun h => h

/-- the loop of `FindPath` IS `View.findPath` -/
theorem findPath_loop (pj : PJ) (hb : BufOK pj) (nil : Bool) (d0 : Iter) : ∀ (n : Nat) (tmp : Iter) (key : Bytes)
    (path : List Bytes) (e : Env) (fuel mf : Nat),
    tmp.lim - pos tmp < n → 0 ≤ tmp.addNext → n ≤ mf → n + tmp.lim + 10 ≤ fuel → tmp.lim ≤ pj.tape.size →
    LInv pj tmp key nil d0 e → e.get "path" = some (.keys path) →
    FPPost pj (lastKey key path) nil (D0 nil d0) (exec1 goFuns fuel (.loop fpBody) ⟨e, pj.tape⟩)
      (View.findPath pj key path tmp mf) := by
  intro n
  induction n with
  | zero => intro tmp key path e fuel mf h; omega
  | succ n ih =>
    intro tmp key path e fuel mf hm h0 hmf hf hl inv hp
    obtain ⟨m, rfl⟩ : ∃ m, mf = m + 1 := ⟨mf - 1, by omega⟩
    obtain ⟨F, rfl⟩ : ∃ F, fuel = F + 2 := ⟨fuel - 2, by omega⟩
    have hA := headA_run pj e tmp F RN (headB ++ (lenMis RN :: (sbSeg RE ++ (nameMis :: (lastSeg :: descend))))) inv.it hl
      (by omega)
    rw [View.findPath, loop_unfold, fpBody_eq]
    cases hr : tmp.advance pj with
    | panic => rw [hr] at hA; simp only [] at hA; rw [hA]; simp [FPPost]
    | error _ => rw [hr] at hA; exact hA.elim
    | diverge => rw [hr] at hA; exact hA.elim
    | ok r =>
      obtain ⟨tmp1, typ⟩ := r
      rw [hr] at hA
      simp only [] at hA
      rw [hA]
      simp only [Res.bind_ok]
      have fr1 := fr_adv_set e tmp1 pj "typ" (.u8 typ) (by decide)
      have inv1 : LInv pj tmp1 key nil d0 ((advEnv e "tmp" tmp1 pj).set "typ" (.u8 typ)) :=
        inv.step fr1 (by decide) ((inv.it.adv tmp1 (by decide) (by decide) (by decide)).set _ _ (by decide))
      have hp1 : ((advEnv e "tmp" tmp1 pj).set "typ" (.u8 typ)).get "path" = some (.keys path) := by
        rw [fr1 _ (by decide)]; exact hp
      generalize (advEnv e "tmp" tmp1 pj).set "typ" (.u8 typ) = E1 at inv1 hp1 ⊢
      by_cases hc : typ ≠ typeString ∨ tmp1.off + 1 ≥ tmp1.lim
      · have hc' : (typ != typeString) = true ∨ tmp1.off + 1 ≥ tmp1.lim := by
          rcases hc with h | h
          · exact Or.inl (by simpa using h)
          · exact Or.inr h
        rw [if_pos hc, if_pos hc', retOut_RN _ nil inv1.hnil]
        exact ⟨E1, _, rfl, not_nil_imp nil⟩
      · have hc' : ¬ ((typ != typeString) = true ∨ tmp1.off + 1 ≥ tmp1.lim) := by
          intro h
          apply hc
          rcases h with h | h
          · exact Or.inl (by simpa using h)
          · exact Or.inr h
        rw [if_neg hc, if_neg hc']
        have hts : typ = typeString := by
          apply Classical.byContradiction; intro h; exact hc (Or.inl h)
        have htn : typ ≠ typeNone := by rw [hts]; decide
        have h2 : tmp1.off + 1 < tmp1.lim := by omega
        obtain ⟨f1, f2, f3, f4, f5, _⟩ := advance_facts pj tmp h0 tmp1 typ hr htn
        obtain ⟨w, hw, hB⟩ := headB_run pj E1 tmp1 (F + 1) (lenMis RN :: (sbSeg RE ++ (nameMis :: (lastSeg :: descend))))
          inv1.it.it (by omega) h2
        rw [hB]
        simp only [rd, hw, Res.bind_ok]
        have fr2 : Fr scr E1 ((E1.set "offset" (.u64 tmp1.cur)).set "length" (.u64 w)) :=
          ((Fr.refl scr E1).set _ _ (by decide)).set _ _ (by decide)
        have inv2 : LInv pj tmp1 key nil d0 ((E1.set "offset" (.u64 tmp1.cur)).set "length" (.u64 w)) :=
          inv1.step fr2 (by decide) ((inv1.it.set _ _ (by decide)).set _ _ (by decide))
        have hp2 : ((E1.set "offset" (.u64 tmp1.cur)).set "length" (.u64 w)).get "path" = some (.keys path) := by
          rw [fr2 _ (by decide)]; exact hp1
        have hO2 : ((E1.set "offset" (.u64 tmp1.cur)).set "length" (.u64 w)).get "offset" = some (.u64 tmp1.cur) := by
          simp
        have hW2 : ((E1.set "offset" (.u64 tmp1.cur)).set "length" (.u64 w)).get "length" = some (.u64 w) := by
          simp
        generalize (E1.set "offset" (.u64 tmp1.cur)).set "length" (.u64 w) = E2 at inv2 hp2 hO2 hW2 ⊢
        have hL := lenMis_run pj E2 tmp1 F RN (sbSeg RE ++ (nameMis :: (lastSeg :: descend))) w key inv2.it (by omega)
          (by omega) hW2 inv2.hkey
        by_cases hlen : toInt64 w ≠ (key.size : Int)
        · have hlen' : (toInt64 w != (key.size : Int)) = true := by simpa using hlen
          rw [if_pos hlen] at hL
          simp only [hlen', if_true]
          cases hr2 : tmp1.advance pj with
          | panic => rw [hr2] at hL; simp only [] at hL; rw [hL]; simp [FPPost]
          | error _ => rw [hr2] at hL; exact hL.elim
          | diverge => rw [hr2] at hL; exact hL.elim
          | ok r2 =>
            obtain ⟨tmp2, t⟩ := r2
            rw [hr2] at hL
            simp only [] at hL
            rw [hL]
            simp only [Res.bind_ok]
            have fr3 := fr_adv_set E2 tmp2 pj "t" (.u8 t) (by decide)
            have inv3 : LInv pj tmp2 key nil d0 ((advEnv E2 "tmp" tmp2 pj).set "t" (.u8 t)) :=
              inv2.step fr3 (by decide) ((inv2.it.adv tmp2 (by decide) (by decide) (by decide)).set _ _ (by decide))
            have hp3 : ((advEnv E2 "tmp" tmp2 pj).set "t" (.u8 t)).get "path" = some (.keys path) := by
              rw [fr3 _ (by decide)]; exact hp2
            generalize (advEnv E2 "tmp" tmp2 pj).set "t" (.u8 t) = E3 at inv3 hp3 ⊢
            by_cases ht : t = typeNone
            · subst ht
              simp only [if_true, beq_self_eq_true]
              rw [retOut_RN _ nil inv3.hnil]
              exact ⟨E3, _, rfl, not_nil_imp nil⟩
            · have ht' : (t == typeNone) = false := by simpa using ht
              obtain ⟨q1, q2, q3⟩ := advance_progress pj tmp1 f4 tmp2 t hr2
              simp only [ht, ht', if_false, Bool.false_eq_true]
              exact ih tmp2 key path E3 (F + 1) m (by unfold pos at hm ⊢; omega) q2 (by omega) (by omega) (by omega)
                inv3 hp3
        · have hlen' : (toInt64 w != (key.size : Int)) = false := by simpa using hlen
          rw [if_neg hlen] at hL
          rw [hL]
          simp only [hlen', Bool.false_eq_true, if_false]
          obtain ⟨E4, it4, fr4, hS⟩ := sbSeg_run pj E2 tmp1 F RE (nameMis :: (lastSeg :: descend)) tmp1.cur w hb inv2.it
            hO2 hW2
          have inv4 : LInv pj tmp1 key nil d0 E4 := inv2.step fr4 (by decide) it4
          have hp4 : E4.get "path" = some (.keys path) := by rw [fr4 _ (by decide)]; exact hp2
          rcases stringByteAt_cases pj tmp1.cur w with ⟨name, hsb⟩ | hsb
          · rw [hsb] at hS ⊢
            obtain ⟨hname, hx⟩ := hS
            rw [hx]
            simp only [Res.bind_ok]
            have hN := nameMis_run pj E4 tmp1 (F + 1) (lastSeg :: descend) name key inv4.it.it (by omega) (by omega) hname
              inv4.hkey
            by_cases hne : (name != key) = true
            · rw [if_pos hne] at hN
              simp only [hne, if_true]
              cases hr2 : tmp1.advance pj with
              | panic => rw [hr2] at hN; simp only [] at hN; rw [hN]; simp [FPPost]
              | error _ => rw [hr2] at hN; exact hN.elim
              | diverge => rw [hr2] at hN; exact hN.elim
              | ok r2 =>
                obtain ⟨tmp2, t⟩ := r2
                rw [hr2] at hN
                simp only [] at hN
                rw [hN]
                simp only [Res.bind_ok]
                have fr5 : Fr scr E4 (setIter E4 "tmp" tmp2) := (Fr.refl scr E4).setIter "tmp" tmp2 (by decide)
                have inv5 : LInv pj tmp2 key nil d0 (setIter E4 "tmp" tmp2) :=
                  inv4.step fr5 (by decide) (itInv_setIterTmp inv4.it tmp2)
                have hp5 : (setIter E4 "tmp" tmp2).get "path" = some (.keys path) := by
                  rw [fr5 _ (by decide)]; exact hp4
                obtain ⟨q1, q2, q3⟩ := advance_progress pj tmp1 f4 tmp2 t hr2
                exact ih tmp2 key path _ (F + 1) m (by unfold pos at hm ⊢; omega) q2 (by omega) (by omega) (by omega)
                  inv5 hp5
            · rw [if_neg hne] at hN
              have hne' : (name != key) = false := by simpa using hne
              rw [hN]
              simp only [hne', Bool.false_eq_true, if_false]
              cases path with
              | nil =>
                -- the last key: fill `*dst`
                have hcond : evalE ⟨E4, pj.tape⟩ (.bin .eq (.lenK (.v "path")) (.int 0)) = .val (.bool true) := by
                  simp [hp4]
                rw [lastSeg, exec_ite_true _ _ _ _ _ _ hcond, List.append_assoc]
                obtain ⟨E5, hx5, hnil5, hname5, hD5, fr5⟩ := allocSeg_run E4 pj.tape (F + 1)
                  (aiTail RE ROK ++ descend) nil key d0 inv4.hnil inv4.hkey inv4.hdst
                rw [hx5]
                have it5 : ItInv pj "tmp" tmp1 E5 := itInv_fr inv4.it fr5 (by decide)
                have hT := aiTail_run pj E5 (F + 1) tmp1 (D0 nil d0) RE ROK descend it5 hD5
                  (by omega) (by unfold fuelFor; omega)
                have hind := advanceIter_dst pj tmp1 (D0 nil d0)
                simp only [lastKey]
                cases hai : tmp1.advanceIter pj default with
                | ok r3 =>
                  obtain ⟨i', d', ty⟩ := r3
                  rw [hai] at hind
                  simp only [Res.bind_ok] at hind ⊢
                  have hfin : ∀ dd, retOut ROK ⟨aidEnv E5 pj i' dd ty, pj.tape⟩ =
                      .ret ⟨aidEnv E5 pj i' dd ty, pj.tape⟩ [.bool true, .bool false] := by
                    intro dd
                    have : (aidEnv E5 pj i' dd ty).get "dst==nil" = some (.bool false) := by
                      rw [aidEnv_fr E5 pj i' dd ty _ (by decide)]; exact hnil5
                    exact retOut_ROK _ false this
                  have hnm : ∀ dd, (aidEnv E5 pj i' dd ty).get "dst.Name" = some (.bytes key) := by
                    intro dd
                    rw [aidEnv_fr E5 pj i' dd ty _ (by decide)]; exact hname5
                  have hty : ∀ dd, (aidEnv E5 pj i' dd ty).get "dst.Type" = some (.u8 ty) := by
                    intro dd; simp [aidEnv]
                  obtain ⟨hind, hdn⟩ := hind
                  rw [hind] at hT
                  simp only [] at hT
                  rw [hT, hfin]
                  exact ⟨_, rfl, hty _, hnm _, aidEnv_dst _ _ _ _ _, hdn⟩
                | error err =>
                  rw [hai] at hind
                  simp only [Res.bind_error] at hind ⊢
                  rw [hind] at hT
                  obtain ⟨e', hx, herr, hfr⟩ := hT
                  have hn' : e'.get "dst==nil" = some (.bool false) := by rw [hfr _ (by decide)]; exact hnil5
                  rw [hx, retOut_RE _ false hn' herr]
                  exact ⟨e', _, rfl, fun _ => rfl⟩
                | panic =>
                  rw [hai] at hind
                  simp only [Res.bind_panic] at hind ⊢
                  rw [hind] at hT
                  simp only [] at hT
                  rw [hT]
                  simp [FPPost]
                | diverge =>
                  rw [hai] at hind
                  simp only [] at hind
                  rw [hind] at hT
                  exact hT.elim
              | cons k rest =>
                -- descend into the value of this key
                have hcond : evalE ⟨E4, pj.tape⟩ (.bin .eq (.lenK (.v "path")) (.int 0)) = .val (.bool false) := by
                  have : ¬ ((rest.length : Int) + 1 = 0) := by omega
                  simp [hp4, this]
                rw [lastSeg, exec_ite_skip _ _ _ _ _ hcond]
                have hDsc := descend_run pj E4 (F + 1) tmp1 k rest inv4.it hp4 (by omega) (by unfold fuelFor; omega)
                have hmod := advanceIterSelf_model pj tmp1
                simp only [lastKey]
                cases hai : tmp1.advanceIter pj tmp1 with
                | ok r3 =>
                  obtain ⟨i2, d, ty⟩ := r3
                  rw [hai] at hmod
                  simp only [Res.bind_ok] at hmod ⊢
                  by_cases hty : ty = typeObject
                  · subst hty
                    have hself := advanceIterSelf_object pj tmp1 i2 d hai
                    rw [hself] at hDsc
                    simp only [ne_eq, not_true_eq_false, if_false] at hDsc
                    rw [hDsc]
                    have hb1 : (typeObject != typeObject) = false := by decide
                    have hb2 : (typeObject == typeNone) = false := by decide
                    simp only [hb1, hb2, Bool.false_eq_true, if_false]
                    obtain ⟨a1, a2, a3, a4⟩ := advanceIter_facts pj tmp1 tmp1 f4 i2 d typeObject hai (by decide)
                    have fr6 := selfEnv_fr E4 pj d typeObject
                    have inv6 : LInv pj d k nil d0
                        (((selfEnv E4 pj d typeObject).set "key" (.bytes k)).set "path" (.keys rest)) := by
                      refine ⟨((selfEnv_inv inv4.it d typeObject).set _ _ (by decide)).set _ _ (by decide), by simp,
                        ?_, ?_⟩
                      · rw [Env.get_set_ne _ _ (by decide), Env.get_set_ne _ _ (by decide), fr6 _ (by decide)]
                        exact inv4.hnil
                      · intro hn
                        rw [iterAt_set_ne _ _ _ _ (by decide), iterAt_set_ne _ _ _ _ (by decide),
                          iterAt_congr E4 _ "dst.Iter" (fun k hk => fr6 k (by revert k; decide))]
                        exact inv4.hdst hn
                    exact ih d k rest _ (F + 1) m (by unfold pos at hm ⊢; omega) a4 (by omega) (by omega) (by omega)
                      inv6 (by simp)
                  · have hb1 : (ty != typeObject) = true := by simpa using hty
                    simp only [hb1, if_true]
                    have hnilS : ∀ j, (selfEnv E4 pj j ty).get "dst==nil" = some (.bool nil) := by
                      intro j; rw [selfEnv_fr E4 pj j ty _ (by decide)]; exact inv4.hnil
                    rcases hmod with hmod | ⟨_, hmod⟩
                    · rw [hmod] at hDsc
                      simp only [ne_eq, hty, not_false_eq_true, if_true] at hDsc
                      rw [hDsc, retOut_RN _ nil (hnilS _)]
                      exact ⟨_, _, rfl, not_nil_imp nil⟩
                    · rw [hmod] at hDsc
                      simp only [ne_eq, hty, not_false_eq_true, if_true] at hDsc
                      rw [hDsc, retOut_RN _ nil (hnilS _)]
                      exact ⟨_, _, rfl, not_nil_imp nil⟩
                | error err =>
                  rw [hai] at hmod
                  obtain ⟨e'', hmod⟩ := hmod
                  simp only [Res.bind_error]
                  rw [hmod] at hDsc
                  obtain ⟨e', hx, herr, hfr⟩ := hDsc
                  have hn' : e'.get "dst==nil" = some (.bool nil) := by rw [hfr _ (by decide)]; exact inv4.hnil
                  rw [hx, retOut_RE _ nil hn' herr]
                  exact ⟨e', _, rfl, not_nil_imp nil⟩
                | panic =>
                  rw [hai] at hmod
                  simp only [Res.bind_panic] at hmod ⊢
                  rw [hmod] at hDsc
                  simp only [] at hDsc
                  rw [hDsc]
                  simp [FPPost]
                | diverge =>
                  rw [hai] at hmod
                  simp only [] at hmod
                  rw [hmod] at hDsc
                  exact hDsc.elim
          · rw [hsb] at hS ⊢
            obtain ⟨herr, hx⟩ := hS
            rw [hx, retOut_RE _ nil inv4.hnil herr]
            simp only [Res.bind_error]
            exact ⟨E4, _, rfl, not_nil_imp nil⟩

/-- the last element of a path (`#[]` for the empty path, where nothing is claimed about it) -/
def pathLast : List Bytes → Bytes
  | [] => #[]
  | k :: r => lastKey k r

theorem lastKey_eq_getLastD (k : Bytes) (r : List Bytes) : lastKey k r = r.getLastD k := by
  induction r generalizing k with
  | nil => rfl
  | cons a r ih => rw [lastKey, ih, List.getLastD_cons]

theorem pathLast_eq_getLastD (p : List Bytes) : pathLast p = p.getLastD #[] := by
  cases p with
  | nil => rfl
  | cons k r => rw [pathLast, lastKey_eq_getLastD, List.getLastD_cons]

def fpInit : List Stmt := (goObject_FindPath.body.drop 1).take 8

theorem fp_body_split : goObject_FindPath.body =
    .ite (.bin .eq (.lenK (.v "path")) (.int 0)) [.ret RN] [] :: (fpInit ++ [.loop fpBody]) := rfl

/-- `FindPath` with a non-empty path against `View.findPath`, any model fuel `mf ≥ v.lim - v.off + 1` -/
theorem findPath_sim_fuel (pj : PJ) (hb : BufOK pj) (v : View) (hl : v.lim ≤ pj.tape.size) (k : Bytes)
    (rest : List Bytes) (nil : Bool) (d0 : Iter) (e0 : Env) (h0 : DstIn pj v nil d0 e0)
    (hpath : e0.get "path" = some (.keys (k :: rest))) (fuel mf : Nat) (hmf : v.lim - v.off + 1 ≤ mf)
    (hf : 2 * v.lim + 11 ≤ fuel) :
    FPPost pj (lastKey k rest) nil (D0 nil d0) (runFun goFuns goObject_FindPath fuel ⟨e0, pj.tape⟩)
      (View.findPath pj k rest v.iter mf) := by
  have hcond : evalE ⟨e0, pj.tape⟩ (.bin .eq (.lenK (.v "path")) (.int 0)) = .val (.bool false) := by
    have : ¬ ((rest.length : Int) + 1 = 0) := by omega
    simp [hpath, this]
  have hinit : exec goFuns fuel fpInit ⟨e0, pj.tape⟩ =
      .normal ⟨((initEnv e0 v).set "key" (.bytes k)).set "path" (.keys rest), pj.tape⟩ := by
    obtain ⟨a1, a2, hS, hM⟩ := h0.recv
    simp only [String.reduceAppend] at a1 a2
    have hp' : (initEnv e0 v).get "path" = some (.keys (k :: rest)) := by
      rw [initEnv_fr v e0 _ (by decide)]; exact hpath
    have h1 : (1 : Int) ≤ (rest.length : Int) + 1 := by omega
    simp only [initEnv] at hp'
    simp [fpInit, goObject_FindPath, a1, a2, initEnv, hp', h1]
  have fr0 := initEnv_fr v e0
  have inv : LInv pj v.iter k nil d0 (((initEnv e0 v).set "key" (.bytes k)).set "path" (.keys rest)) := by
    refine ⟨((initEnv_inv pj v e0 h0.recv).set _ _ (by decide)).set _ _ (by decide), by simp, ?_, ?_⟩
    · rw [Env.get_set_ne _ _ (by decide), Env.get_set_ne _ _ (by decide), fr0 _ (by decide)]; exact h0.hnil
    · intro hn
      rw [iterAt_set_ne _ _ _ _ (by decide), iterAt_set_ne _ _ _ _ (by decide),
        iterAt_congr e0 _ "dst.Iter" (fun k hk => fr0 k (by revert k; decide))]
      exact h0.hdst hn
  have hloop := findPath_loop pj hb nil d0 (v.lim - v.off + 1) v.iter k rest _ fuel mf
    (by simp [pos, View.iter]) (by simp [View.iter]) hmf (by simp [View.iter]; omega) hl inv (by simp)
  unfold runFun
  rw [fp_body_split, exec_ite_skip _ _ _ _ _ hcond, exec_append, hinit]
  simp only []
  rw [exec]
  revert hloop
  generalize exec1 goFuns fuel (.loop fpBody) _ = out
  cases View.findPath pj k rest v.iter mf with
  | ok r =>
    obtain ⟨ty, d⟩ := r
    rintro ⟨e', rfl, h1, h2, h3, h4⟩
    exact ⟨e', rfl, h1, h2, h3, h4⟩
  | error _ =>
    rintro ⟨e', b, rfl, h1⟩
    exact ⟨e', b, rfl, h1⟩
  | panic => rintro rfl; rfl
  | diverge => exact fun h => h.elim

/-- **`Object.FindPath` IS `View.findPathTop`** (the model's own fuel `fuelOf pj` is enough) -/
theorem findPath_sim (pj : PJ) (hb : BufOK pj) (v : View) (hl : v.lim ≤ pj.tape.size) (path : List Bytes) (nil : Bool)
    (d0 : Iter) (e0 : Env) (h0 : DstIn pj v nil d0 e0) (hpath : e0.get "path" = some (.keys path)) (fuel : Nat)
    (hf : 2 * v.lim + 11 ≤ fuel) :
    FPPost pj (pathLast path) nil (D0 nil d0) (runFun goFuns goObject_FindPath fuel ⟨e0, pj.tape⟩)
      (View.findPathTop pj v path) := by
  cases path with
  | nil =>
    have hcond : evalE ⟨e0, pj.tape⟩ (.bin .eq (.lenK (.v "path")) (.int 0)) = .val (.bool true) := by
      simp [hpath]
    unfold runFun View.findPathTop
    rw [fp_body_split, exec_ite_ret _ _ _ _ _ _ hcond]
    simp only [if_true]
    rw [retOut_RN _ nil h0.hnil]
    exact ⟨e0, _, rfl, not_nil_imp nil⟩
  | cons k rest =>
    exact findPath_sim_fuel pj hb v hl k rest nil d0 e0 h0 hpath fuel (fuelOf pj) (by unfold fuelOf; omega) hf

/-! ## the relations read as equivalences -/

theorem FKPost.iff {pj : PJ} {key : Bytes} {D : Iter} {o : Out} {r : Res (Option (UInt8 × Iter))}
    (h : FKPost pj key D o r) :
    ((∃ s, o = .ret s [.bool true]) ↔ ∃ ty d, r = .ok (some (ty, d))) ∧
    ((∃ s, o = .ret s [.bool false]) ↔ r = .ok none) ∧
    (o = .panic ↔ r = .panic) ∧ (∀ w, o ≠ .stuck w) ∧ o ≠ .diverge ∧ r ≠ .diverge ∧ (∀ e, r ≠ .error e) := by
  cases r with
  | ok x =>
    cases x with
    | none =>
      obtain ⟨e', rfl⟩ := h
      refine ⟨⟨?_, ?_⟩, ⟨fun _ => rfl, fun _ => ⟨_, rfl⟩⟩, ⟨?_, ?_⟩, ?_, ?_, ?_, ?_⟩
      · rintro ⟨s, hs⟩; simp at hs
      · rintro ⟨_, _, h⟩; cases h
      · intro h; cases h
      · intro h; cases h
      · intro w h; cases h
      · intro h; cases h
      · intro h; cases h
      · intro e h; cases h
    | some p =>
      obtain ⟨ty, d⟩ := p
      obtain ⟨e', rfl, _⟩ := h
      refine ⟨⟨fun _ => ⟨ty, d, rfl⟩, fun _ => ⟨_, rfl⟩⟩, ⟨?_, ?_⟩, ⟨?_, ?_⟩, ?_, ?_, ?_, ?_⟩
      · rintro ⟨s, hs⟩; simp at hs
      · intro h; cases h
      · intro h; cases h
      · intro h; cases h
      · intro w h; cases h
      · intro h; cases h
      · intro h; cases h
      · intro e h; cases h
  | error _ => exact h.elim
  | panic =>
    simp only [FKPost] at h
    subst h
    refine ⟨⟨?_, ?_⟩, ⟨?_, ?_⟩, ⟨fun _ => rfl, fun _ => rfl⟩, ?_, ?_, ?_, ?_⟩
    · rintro ⟨s, hs⟩; cases hs
    · rintro ⟨_, _, h⟩; cases h
    · rintro ⟨s, hs⟩; cases hs
    · intro h; cases h
    · intro w h; cases h
    · intro h; cases h
    · intro h; cases h
    · intro e h; cases h
  | diverge => exact h.elim

theorem FPPost.iff {pj : PJ} {lk : Bytes} {nil : Bool} {D : Iter} {o : Out} {r : Res (UInt8 × Iter)}
    (h : FPPost pj lk nil D o r) :
    ((∃ s, o = .ret s [.bool true, .bool false]) ↔ ∃ ty d, r = .ok (ty, d)) ∧
    ((∃ s b, o = .ret s [.bool b, .bool true]) ↔ ∃ e, r = .error e) ∧
    (o = .panic ↔ r = .panic) ∧ (∀ w, o ≠ .stuck w) ∧ o ≠ .diverge ∧ r ≠ .diverge := by
  cases r with
  | ok p =>
    obtain ⟨ty, d⟩ := p
    obtain ⟨e', rfl, _⟩ := h
    refine ⟨⟨fun _ => ⟨ty, d, rfl⟩, fun _ => ⟨_, rfl⟩⟩, ⟨?_, ?_⟩, ⟨?_, ?_⟩, ?_, ?_, ?_⟩
    · rintro ⟨s, b, hs⟩; simp at hs
    · rintro ⟨_, h⟩; cases h
    · intro h; cases h
    · intro h; cases h
    · intro w h; cases h
    · intro h; cases h
    · intro h; cases h
  | error err =>
    obtain ⟨e', b, rfl, _⟩ := h
    refine ⟨⟨?_, ?_⟩, ⟨fun _ => ⟨err, rfl⟩, fun _ => ⟨_, b, rfl⟩⟩, ⟨?_, ?_⟩, ?_, ?_, ?_⟩
    · rintro ⟨s, hs⟩; simp at hs
    · rintro ⟨_, _, h⟩; cases h
    · intro h; cases h
    · intro h; cases h
    · intro w h; cases h
    · intro h; cases h
    · intro h; cases h
  | panic =>
    simp only [FPPost] at h
    subst h
    refine ⟨⟨?_, ?_⟩, ⟨?_, ?_⟩, ⟨fun _ => rfl, fun _ => rfl⟩, ?_, ?_, ?_⟩
    · rintro ⟨s, hs⟩; cases hs
    · rintro ⟨_, _, h⟩; cases h
    · rintro ⟨s, b, hs⟩; cases hs
    · rintro ⟨_, h⟩; cases h
    · intro w h; cases h
    · intro h; cases h
    · intro h; cases h
  | diverge => exact h.elim

/-! ## 4. The bundle, on the conventional stores -/

/-- receiver ++ `key` ++ the flattened `dst *Element` (nil flag, `dst.Iter`) ++ shared buffers ++ anything else -/
def fkStore (pj : PJ) (v : View) (key : Bytes) (nil : Bool) (d0 : Iter) (extra : Env) : Env :=
  [("o.off", .int v.off), ("o.lim", .int v.lim), ("key", .bytes key), ("dst==nil", .bool nil)] ++ envOf "dst.Iter" d0 ++
    bufEnv pj ++ extra

/-- receiver ++ `path ...string` ++ the flattened `dst *Element` ++ shared buffers ++ anything else -/
def fpStore (pj : PJ) (v : View) (path : List Bytes) (nil : Bool) (d0 : Iter) (extra : Env) : Env :=
  [("o.off", .int v.off), ("o.lim", .int v.lim), ("path", .keys path), ("dst==nil", .bool nil)] ++ envOf "dst.Iter" d0 ++
    bufEnv pj ++ extra

theorem DstIn_fkStore (pj : PJ) (v : View) (key : Bytes) (nil : Bool) (d0 : Iter) (extra : Env) :
    DstIn pj v nil d0 (fkStore pj v key nil d0 extra) := by
  refine ⟨⟨?_, ?_, ?_, ?_⟩, ?_, fun _ => ?_⟩ <;> simp [fkStore, bufEnv, envOf, Env.get, iterAt]

theorem DstIn_fpStore (pj : PJ) (v : View) (path : List Bytes) (nil : Bool) (d0 : Iter) (extra : Env) :
    DstIn pj v nil d0 (fpStore pj v path nil d0 extra) := by
  refine ⟨⟨?_, ?_, ?_, ?_⟩, ?_, fun _ => ?_⟩ <;> simp [fpStore, bufEnv, envOf, Env.get, iterAt]

/-- `Iter.AdvanceIter#self`, `Object.FindKey`, `Object.FindPath` as printed from `/repo` ARE `advanceIterSelf` (= the model's
    `advanceIter pj i i` with the choice of `View.findPath`, see `SimSelfModel`), `View.findKey`, `View.findPathTop`:
    for every document whose buffer lengths are Go `int`s, every view inside the tape, every key / path, both values of
    `dst == nil`, any content `d0` of the caller's `dst.Iter`, any other variables `extra`, `2·lim + 11` units of
    interpreter fuel, `lim - off + 1` units of model fuel for `findKey` (`findPathTop` brings its own `fuelOf pj`). -/
theorem go_find_source_tie (pj : PJ) (hb : BufOK pj) (v : View) (hl : v.lim ≤ pj.tape.size) (key : Bytes)
    (path : List Bytes) (nil : Bool) (d0 : Iter) (extra : Env) (i : Iter) (hil : i.lim ≤ pj.tape.size) (fuel mf : Nat)
    (hmf : v.lim - v.off + 1 ≤ mf) (hf : 2 * v.lim + 11 ≤ fuel) (hfi : fuelFor i ≤ fuel) :
    SimSelf pj.tape (runFun goFuns goIter_AdvanceIter_self fuel ⟨envOf "i" i ++ extra, pj.tape⟩) (advanceIterSelf pj i) ∧
    SimSelfModel pj (runFun goFuns goIter_AdvanceIter_self fuel ⟨envOf "i" i ++ extra, pj.tape⟩) (i.advanceIter pj i) ∧
    FKPost pj key (D0 nil d0) (runFun goFuns goObject_FindKey fuel ⟨fkStore pj v key nil d0 extra, pj.tape⟩)
      (View.findKey pj key v.iter mf) ∧
    FPPost pj (pathLast path) nil (D0 nil d0)
      (runFun goFuns goObject_FindPath fuel ⟨fpStore pj v path nil d0 extra, pj.tape⟩) (View.findPathTop pj v path) := by
  have hI : iterAt (envOf "i" i ++ extra) "i" = some i := by simp [envOf, Env.get, iterAt]
  have h1 := advanceIterSelf_sim pj i hil (envOf "i" i ++ extra) hI fuel hfi
  exact ⟨h1.1, h1.2,
    findKey_sim pj hb v hl key nil d0 _ (DstIn_fkStore pj v key nil d0 extra) (by simp [fkStore, Env.get]) fuel mf hmf hf,
    findPath_sim pj hb v hl path nil d0 _ (DstIn_fpStore pj v path nil d0 extra) (by simp [fpStore, Env.get]) fuel hf⟩

/-! ## the two differences, concretely -/

/-- a decidable way to say "the model returns `.ok a` with `p a`" (`Res` has no `DecidableEq`) -/
def okAnd {α : Type} (r : Res α) (p : α → Bool) : Bool := match r with | .ok a => p a | _ => false

theorem eq_of_okAnd {α : Type} {r : Res α} {p : α → Bool} (h : okAnd r p = true) :
    ∃ a, r = .ok a ∧ p a = true := by
  cases r with
  | ok a => exact ⟨a, rfl, h⟩
  | error _ => cases h
  | panic => cases h
  | diverge => cases h

/-- (A) `{"a": <NOP to the end of the view>}`: tape `[ '"'|0, 1, NOP|1 ]` in a view of 3 words, message `a`, key `a`, a
    caller-supplied `dst` whose `Iter` holds `dA`.  `AdvanceIter` reaches the end of the view and returns `(TypeNone, nil)`
    without touching `*dst`: the model says `(TypeNone, default)`, Go leaves `dst.Iter = dA`. -/
def pjA : PJ := { tape := #[mkWord 34 0, 1, mkWord 78 1], strings := #[], msg := #[97] }
def vA : View := { lim := 3, off := 0 }
def dA : Iter := { lim := 7, off := 5, addNext := 3, cur := 9, t := 11 }

example : View.findKey pjA #[97] vA.iter 4 = .ok (some (typeNone, default)) ∧
    ∀ fuel, 17 ≤ fuel → ∃ e', runFun goFuns goObject_FindKey fuel ⟨fkStore pjA vA #[97] false dA [], pjA.tape⟩ =
      .ret ⟨e', pjA.tape⟩ [.bool true] ∧ e'.get "dst.Type" = some (.u8 typeNone) ∧ iterAt e' "dst.Iter" = some dA := by
  have hm : View.findKey pjA #[97] vA.iter 4 = .ok (some (typeNone, default)) := by
    have h : okAnd (View.findKey pjA #[97] vA.iter 4) (· == some (typeNone, default)) = true := by decide +kernel
    obtain ⟨a, h1, h2⟩ := eq_of_okAnd h
    rw [h1, eq_of_beq h2]
  refine ⟨hm, fun fuel hf => ?_⟩
  have := findKey_sim pjA ⟨by decide, by decide⟩ vA (by decide) #[97] false dA _ (DstIn_fkStore pjA vA #[97] false dA [])
    (by simp [fkStore, Env.get]) fuel 4 (by decide) (by simpa [vA] using hf)
  rw [hm] at this
  obtain ⟨e', h1, h2, _, h4, _⟩ := this
  exact ⟨e', h1, h2, by simpa [D0] using h4⟩

/-- (B) a live word of unknown tag (`tagToType = TypeNone`): tape `[ 0x01|5, 0 ]`, `i = {lim 2, off 0}`.  After
    `i.AdvanceIter(i)` the single Go object is the restricted `d` (`lim = 1`); the choice in `View.findPath`
    (`if ty == typeNone then i2 else d`) picks `i2` (`lim = 2`).  `FindPath` then returns an error (the type is not
    `TypeObject`) without looking at the object, so this is not observable through `FindPath`. -/
def pjB : PJ := { tape := #[mkWord 1 5, 0], strings := #[], msg := #[] }
def iB : Iter := { lim := 2, off := 0, addNext := 0, cur := 0, t := 0 }
def i2B : Iter := { lim := 2, off := 1, addNext := 0, cur := 5, t := 1 }
def dB : Iter := { lim := 1, off := 1, addNext := 0, cur := 5, t := 1 }

example : iB.advanceIter pjB iB = .ok (i2B, dB, typeNone) ∧ advanceIterSelf pjB iB = .ok (dB, typeNone) ∧ i2B ≠ dB ∧
    ∀ fuel, 10 ≤ fuel → ∃ s, runFun goFuns goIter_AdvanceIter_self fuel ⟨envOf "i" iB, pjB.tape⟩ =
      .ret s [.u8 typeNone, .bool false] ∧ iterAt s.env "i" = some dB := by
  have hm : iB.advanceIter pjB iB = .ok (i2B, dB, typeNone) := by
    have h : okAnd (iB.advanceIter pjB iB) (· == (i2B, dB, typeNone)) = true := by decide +kernel
    obtain ⟨a, h1, h2⟩ := eq_of_okAnd h
    rw [h1, eq_of_beq h2]
  have hs : advanceIterSelf pjB iB = .ok (dB, typeNone) := by
    have h : okAnd (advanceIterSelf pjB iB) (· == (dB, typeNone)) = true := by decide +kernel
    obtain ⟨a, h1, h2⟩ := eq_of_okAnd h
    rw [h1, eq_of_beq h2]
  refine ⟨hm, hs, by decide, fun fuel hf => ?_⟩
  have := (advanceIterSelf_sim pjB iB (by decide) (envOf "i" iB) (iterAt_envOf iB) fuel (by simpa [fuelFor, iB] using hf)).1
  rw [hs] at this
  obtain ⟨s, h1, _, h3⟩ := this
  exact ⟨s, h1, h3⟩

end SJ.GoFind
