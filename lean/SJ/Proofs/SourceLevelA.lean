import SJ.Properties.C03
import SJ.Properties.C18
import SJ.Properties.C10
import SJ.Properties.C12
/-
Source-level statements (part A: C03, C18, C10, C12).

Every theorem here is the composition of a PROPERTY theorem of `SJ/Properties/C*.lean` (a statement about the hand
model) with the SOURCE-TIE theorem of the same file (hand model = meaning, under `GoSem.runFun goFuns`, of the syntax
tree printed from the Go source on every run).  The conclusions speak about `runFun goFuns go<Function> …` only: what
the Go function returns and leaves in its store, in terms of the specification (`Spec.*`, located documents
`Layout.LVal`, `Numeric.stored`, …).  No function of the hand model occurs in a conclusion.
-/
set_option autoImplicit false
namespace SJ.SourceLevelA
open SJ SJ.Tables SJ.Generated SJ.GoSem

/-! ## C03 — `parseNumber` -/

section C03
open SJ.NumberProofs SJ.GoNumber SJ.Properties.C03

private theorem extract_all (b : Bytes) : b.extract 0 b.size = b := by simp

/-- **C03 at source level.** Run `parseNumber` of `parse_number_amd64.go` (as printed from /repo) on a buffer that starts
    with a literal `s` of the RFC 8259 number grammar (`Spec.numberLit s = some (l, [])`) followed by an end-of-value byte
    `t`: it returns exactly the tag word and the value word the specification `Spec.numValue l` prescribes (`encode`:
    int64 / uint64 / correctly rounded float64, overflowed-integer flag), with a non-zero tag; and tag 0 exactly in the
    one case the specification has no value (the literal rounds to ±Inf).  For every fuel and tape; the tape is
    untouched.  No hypothesis of the tie had to be kept (it has none). -/
theorem C03_source_agrees_with_spec (s rest : List UInt8) (l : Spec.NumLit) (t : UInt8)
    (hs : Spec.numberLit s = some (l, [])) (ht : numRune t = 8) (fuel : Nat) (tape : Array UInt64) :
    (∀ n, Spec.numValue l = some n →
      (encode n).1 ≠ 0 ∧
      ∃ st, runFun goFuns goparseNumber fuel ⟨[("buf", .bytes (s ++ t :: rest).toArray)], tape⟩ =
        .ret st [.u64 (encode n).1, .u64 (encode n).2] ∧ st.tape = tape) ∧
    (Spec.numValue l = none →
      ∃ st, runFun goFuns goparseNumber fuel ⟨[("buf", .bytes (s ++ t :: rest).toArray)], tape⟩ =
        .ret st [.u64 0, .u64 0] ∧ st.tape = tape) := by
  have hp := C03_agrees_with_spec s rest l t hs ht
  obtain ⟨⟨st, hrun, htape⟩, hsome, _⟩ :=
    C03_parseNumber_follows_source (s ++ t :: rest).toArray 0 fuel tape
  rw [extract_all] at hrun hsome
  rw [hp] at hrun hsome
  refine ⟨fun n hn => ?_, fun hn => ?_⟩
  · rw [hn] at hrun hsome
    exact ⟨((hsome (encode n).1 (encode n).2).mp rfl).1, st, hrun, htape⟩
  · rw [hn] at hrun
    exact ⟨st, hrun, htape⟩

/-- **Rejection at source level.** On a buffer that starts with `-` or a digit (what the stage-2 dispatcher guarantees)
    but whose prefix `s` before the end-of-value byte `t` is not a literal of the RFC grammar — no literal at all, or a
    literal followed by a byte that cannot end a value — the Go `parseNumber` returns tag 0 (which the caller turns into a
    parse error). -/
theorem C03_source_rejects (s rest : List UInt8) (t : UInt8) (hstart : NumStart s) (ht : numRune t = 8)
    (h : Spec.numberLit s = none ∨ ∃ l c r, Spec.numberLit s = some (l, c :: r) ∧ numRune c ≠ 8)
    (fuel : Nat) (tape : Array UInt64) :
    ∃ st, runFun goFuns goparseNumber fuel ⟨[("buf", .bytes (s ++ t :: rest).toArray)], tape⟩ =
      .ret st [.u64 0, .u64 0] ∧ st.tape = tape := by
  have hp := C03_rejects s rest t hstart ht h
  obtain ⟨⟨st, hrun, htape⟩, _, _⟩ := C03_parseNumber_follows_source (s ++ t :: rest).toArray 0 fuel tape
  rw [extract_all, hp] at hrun
  exact ⟨st, hrun, htape⟩

/-- **Integer literals at source level**: optional minus, digits without superfluous leading zero, any number of them,
    then an end-of-value byte.  The Go `parseNumber` returns (TagInteger, two's complement) if the value fits int64, else
    (TagUint, value) if it is non-negative and fits uint64, else (TagFloat | overflowed-integer flag, the correctly
    rounded float64), and tag 0 if that rounding is infinite. -/
theorem C03_source_integer_literal (neg : Bool) (digits rest : List UInt8) (t : UInt8)
    (hne : digits ≠ []) (hdig : ∀ d ∈ digits, isDigit d = true)
    (hlz : digits = [48] ∨ digits.head? ≠ some 48) (ht : numRune t = 8) (fuel : Nat) (tape : Array UInt64) :
    ∃ st, runFun goFuns goparseNumber fuel
        ⟨[("buf", .bytes (((if neg then [45] else []) ++ digits) ++ t :: rest).toArray)], tape⟩ =
      .ret st
        (let z : Int := if neg then -(digitsVal digits : Int) else digitsVal digits
         if -(2^63:Int) ≤ z ∧ z < 2^63 then [.u64 (mkWord tagInteger 0), .u64 (ofInt64 z)]
         else if 0 ≤ z ∧ z < 2^64 then [.u64 (mkWord tagUint 0), .u64 (UInt64.ofNat z.toNat)]
         else match F64.roundDecimal neg (digitsVal digits) 0 with
           | some b => [.u64 (mkWord tagFloat 0 ||| wFloatOverflowedInteger), .u64 b]
           | none => [.u64 0, .u64 0]) ∧ st.tape = tape := by
  have hp := C03_integer_literal neg digits rest t hne hdig hlz ht
  obtain ⟨⟨st, hrun, htape⟩, _, _⟩ :=
    C03_parseNumber_follows_source ((((if neg then [45] else []) ++ digits) ++ t :: rest).toArray) 0 fuel tape
  rw [extract_all, hp] at hrun
  refine ⟨st, ?_, htape⟩
  rw [hrun]
  simp only []
  by_cases h1 : -(2^63:Int) ≤ (if neg then -(digitsVal digits : Int) else digitsVal digits) ∧
      (if neg then -(digitsVal digits : Int) else digitsVal digits) < 2^63
  · rw [if_pos h1, if_pos h1]; rfl
  · rw [if_neg h1, if_neg h1]
    by_cases h2 : 0 ≤ (if neg then -(digitsVal digits : Int) else digitsVal digits) ∧
        (if neg then -(digitsVal digits : Int) else digitsVal digits) < 2^64
    · rw [if_pos h2, if_pos h2]; rfl
    · rw [if_neg h2, if_neg h2]
      cases F64.roundDecimal neg (digitsVal digits) 0 <;> rfl

end C03

/-! ## C18 — `appendFloat` -/

section C18
open SJ.FloatFmt SJ.FloatFmtProofs SJ.Spec SJ.GoFloatFmt SJ.Properties.C18

/-- **C18 at source level: round trip, every finite bit pattern.** Run `appendFloat(dst, f)` of `parsed_json.go` (with
    its helpers `appendFloatF`, `fmtF`, as printed from /repo) on any destination and any FINITE float64 bit pattern: it
    returns `dst ++ txt` and a nil error, where `txt` is a number literal of the RFC grammar (`Spec.numberLit`, nothing
    left over) whose exact decimal value, correctly rounded (`F64.roundDecimal`), is the very same bit pattern.
    The only hypothesis kept from the tie is `fuelOK`, the loop budget of the interpreter (an explicit function of the
    bits: at most the number of digits written) — it says nothing about the Go code. -/
theorem C18_source_roundtrip (dst : Bytes) (bits : UInt64) (fuel : Nat) (tape : Array UInt64)
    (hf : fuelOK fuel bits) (hfin : F64.isFinite bits = true) :
    ∃ txt l st, runFun goFuns goappendFloat fuel ⟨[("dst", .bytes dst), ("f", .u64 bits)], tape⟩ =
        .ret st [.bytes (dst ++ txt), .bool false] ∧ st.tape = tape ∧
      Spec.numberLit txt.toList = some (l, []) ∧
      F64.roundDecimal (litValue l).1 (litValue l).2.1 (litValue l).2.2 = some bits := by
  obtain ⟨txt, l, hm, hlit, hrt⟩ := C18_roundtrip bits hfin
  obtain ⟨st, hrun, htape⟩ := (C18_format_follows_source dst bits fuel tape hf).1 txt hm
  exact ⟨txt, l, st, hrun, htape, hlit, hrt⟩

/-- … and for Inf / NaN the Go `appendFloat` returns the nil slice and a non-nil error (never text). -/
theorem C18_source_nonfinite (dst : Bytes) (bits : UInt64) (fuel : Nat) (tape : Array UInt64)
    (hf : fuelOK fuel bits) (hfin : F64.isFinite bits = false) :
    ∃ st, runFun goFuns goappendFloat fuel ⟨[("dst", .bytes dst), ("f", .u64 bits)], tape⟩ =
        .ret st [.bytes #[], .bool true] ∧ st.tape = tape :=
  (C18_format_follows_source dst bits fuel tape hf).2 ((appendFloat_none_iff bits).mpr hfin)

end C18

/-! ## C10 — `escapeBytes`, `Iter.MarshalJSONBuffer`, `Array.MarshalJSONBuffer` -/

section C10
open SJ.Escape SJ.Layout SJ.WalkLayout SJ.MarshalExact SJ.RenderParse SJ.ParseDefs
open SJ.GoIter SJ.GoObject SJ.GoMarshal SJ.GoArrMarshal SJ.GoEscape SJ.Properties.C10

/-- **Escaping at source level.** Run `escapeBytes(dst, src)` of `parsed_json.go` (as printed from /repo) on any
    destination and any source bytes: it returns `dst ++ esc` where an RFC 8259 unescape of `esc` gives exactly the source
    bytes back, and `esc` contains no raw control character.  Every fuel, every tape; the tape is untouched.  The tie has
    no hypothesis. -/
theorem C10_source_escape_roundtrip (dst src : Bytes) (fuel : Nat) (tape : Array UInt64) :
    ∃ esc st, runFun goFuns goescapeBytes fuel ⟨[("dst", .bytes dst), ("src", .bytes src)], tape⟩ =
        .ret st [.bytes (dst ++ esc)] ∧ st.tape = tape ∧
      unescape esc.toList = some src.toList ∧ ∀ c ∈ esc.toList, 0x20 ≤ c := by
  obtain ⟨st, hrun, htape⟩ := C10_escapeBytes_follows_source dst src fuel tape
  refine ⟨((src.toList.map escapeByte).flatten).toArray, st, ?_, htape, C10_escape_roundtrip src.toList, ?_⟩
  · have h : escapeBytes dst src = dst ++ ((src.toList.map escapeByte).flatten).toArray := by
      apply Array.toList_inj.mp
      rw [C10_escapeBytes dst src, Array.toList_append]
    rw [← h]
    exact hrun
  · intro c hc
    obtain ⟨l, hl, hcl⟩ := List.mem_flatten.mp hc
    obtain ⟨b, _, rfl⟩ := List.mem_map.mp hl
    exact (C10_no_specials b).1 c hcl

private theorem payload_lt (w : UInt64) : (payloadOf w).toNat < 2 ^ 63 := by
  have h : (payloadOf w).toNat ≤ wJSONVALUEMASK.toNat := by
    unfold payloadOf
    rw [UInt64.toNat_and]
    exact Nat.and_le_right
  have h2 : wJSONVALUEMASK.toNat < 2 ^ 63 := by decide
  omega

/-- **MarshalJSON at source level.** On a tape that holds the located document `v` (`Ok pj v`, gaps of NOP entries
    anywhere) whose floats are all finite (`FloatsOk v`), with the receiver standing on `v` (`OnNode pj v i`), running
    `Iter.MarshalJSONBuffer(dst)` of `parsed_json.go` (as printed from /repo) returns `dst ++ renderJ (erase v)` — the
    canonical text of the abstract document, which depends on the document only — and a nil error; the tape is
    untouched.

    Tie hypotheses discharged: `i.cur < 2^63` (the cursor of `OnNode` holds a 56-bit payload) and `0 ≤ i.addNext`
    (only needed to exclude divergence of the model, which `C10_marshal_exact` excludes by computing the result).
    Kept: `BufOK pj` (the two shared buffers have Go-`int` lengths — true of every Go slice, but `Ok` speaks about the
    bytes the strings of `v` read, not about the buffers' total size) and `i.lim ≤ len(tape)` (`OnNode` bounds the view
    from below only, `v.fin ≤ i.lim`; every iterator the library builds has its view inside the tape).  `F` is the
    interpreter's loop budget. -/
theorem C10_source_marshal_exact (pj : PJ) (v : LVal) (i : Iter) (dst : Bytes) (hok : Ok pj v) (hf : FloatsOk v)
    (hon : OnNode pj v i) (hb : BufOK pj) (hl : i.lim ≤ pj.tape.size) (F : Nat)
    (hF : 2 * pj.tape.size + i.lim + 25 ≤ F) :
    ValAt pj (erase v) v.pos v.fin ∧
    ∃ st, runFun goFuns goIter_MarshalJSONBuffer F ⟨initEnv pj i dst, pj.tape⟩ =
        .ret st [.bytes (dst ++ renderJ (erase v)), .bool false] ∧ st.tape = pj.tape := by
  obtain ⟨hval, hm⟩ := C10_marshal_exact pj v i dst hok hf hon
  obtain ⟨_, ⟨w, _, _, hc⟩, _, _⟩ := hon
  have hcur : i.cur.toNat < 2 ^ 63 := by rw [hc]; exact payload_lt w
  have hnd : i.marshalBuf pj dst ≠ .diverge := by rw [hm]; exact fun h => by cases h
  have hF' : fuelOf pj + i.lim + 9 ≤ F := by unfold fuelOf; omega
  exact ⟨hval, ((go_marshal_source_tie pj hb i hl hcur dst F hF' hnd).1 _).mp hm⟩

/-- … and when `v` contains a float without JSON text (NaN, ±Inf — which no parse produces) the Go
    `Iter.MarshalJSONBuffer` returns a non-nil error, never malformed text.  Same two hypotheses kept, for the same
    reasons. -/
theorem C10_source_marshal_error (pj : PJ) (v : LVal) (i : Iter) (dst : Bytes) (hok : Ok pj v) (hf : ¬ FloatsOk v)
    (hon : OnNode pj v i) (hb : BufOK pj) (hl : i.lim ≤ pj.tape.size) (F : Nat)
    (hF : 2 * pj.tape.size + i.lim + 25 ≤ F) :
    ∃ st x, runFun goFuns goIter_MarshalJSONBuffer F ⟨initEnv pj i dst, pj.tape⟩ = .ret st [x, .bool true] := by
  have hm := C10_marshal_error pj v i dst hok hf hon
  obtain ⟨_, ⟨w, _, _, hc⟩, _, _⟩ := hon
  have hcur : i.cur.toNat < 2 ^ 63 := by rw [hc]; exact payload_lt w
  have hnd : i.marshalBuf pj dst ≠ .diverge := by rw [hm]; exact fun h => by cases h
  have hF' : fuelOf pj + i.lim + 9 ≤ F := by unfold fuelOf; omega
  exact (go_marshal_source_tie pj hb i hl hcur dst F hF' hnd).2.1.mp ⟨_, hm⟩

/-- **What the Go `MarshalJSONBuffer` returns is valid JSON denoting the same document.** For a located container with
    well-formed UTF-8 strings and finite floats (`Clean`), the bytes `Iter.MarshalJSONBuffer(nil)` returns are accepted by
    the RFC grammar (`Spec.containerText`) as a document `v'` with the same nesting, member order, keys and strings, and
    numerically equal numbers (`SameDoc`). -/
theorem C10_source_marshal_reads_back (pj : PJ) (v : LVal) (i : Iter) (hok : Ok pj v) (hf : FloatsOk v)
    (hon : OnNode pj v i) (hc : Clean (erase v)) (hroot : IsRoot (erase v)) (hb : BufOK pj) (hl : i.lim ≤ pj.tape.size)
    (F : Nat) (hF : 2 * pj.tape.size + i.lim + 25 ≤ F) :
    ∃ txt v' st, runFun goFuns goIter_MarshalJSONBuffer F ⟨initEnv pj i #[], pj.tape⟩ =
        .ret st [.bytes txt, .bool false] ∧ st.tape = pj.tape ∧
      Spec.containerText txt.toList = .accept v' ∧ SameDoc (erase v) v' := by
  obtain ⟨txt, v', hm, hacc, hsame⟩ := C10_marshal_reads_back pj v i hok hf hon hc hroot
  obtain ⟨_, ⟨w, _, _, hcw⟩, _, _⟩ := hon
  have hcur : i.cur.toNat < 2 ^ 63 := by rw [hcw]; exact payload_lt w
  have hnd : i.marshalBuf pj #[] ≠ .diverge := by rw [hm]; exact fun h => by cases h
  have hF' : fuelOf pj + i.lim + 9 ≤ F := by unfold fuelOf; omega
  obtain ⟨st, hrun, htape⟩ := ((go_marshal_source_tie pj hb i hl hcur #[] F hF' hnd).1 _).mp hm
  exact ⟨txt, v', st, hrun, htape, hacc, hsame⟩

private theorem obj_end_le {pj : PJ} {p e : Nat} {c : UInt64} (h2 : p + 2 ≤ e) (hc : word pj (e - 1) = some c) :
    e ≤ pj.tape.size := by
  unfold word at hc
  have h1 := (Array.getElem?_eq_some_iff.mp hc).1
  have h3 := h2
  omega

/-- **`Array.MarshalJSONBuffer` at source level**: on a tape holding the located array `.arr p e es` with finite floats,
    the Go method run on the array's view (`off = p+1`, `lim = e`, what `Iter.Array` returns) returns `dst ++` the
    canonical text of the array and nil.  The tie's `v.lim ≤ len(tape)` is discharged (the closing bracket of an `Ok` array
    is a word of the tape); `BufOK` is kept as above. -/
theorem C10_source_array_marshal_exact (pj : PJ) (p e : Nat) (es : LVals) (dst : Bytes) (hok : Ok pj (.arr p e es))
    (hf : FloatsOk (.arr p e es)) (hb : BufOK pj) (F : Nat) (hF : 4 * pj.tape.size + e + 42 ≤ F) :
    ∃ st, runFun goFuns goArray_MarshalJSONBuffer F ⟨arrEnv pj { lim := e, off := p + 1 } dst, pj.tape⟩ =
        .ret st [.bytes (dst ++ renderJ (erase (.arr p e es))), .bool false] ∧ st.tape = pj.tape := by
  have hm := (C10_array_elements_agree pj p e).1 es hok hf
  rw [render_erase] at hm
  have hle : e ≤ pj.tape.size := by
    have hok' := hok
    simp only [Ok] at hok'
    obtain ⟨h2, _, ⟨c, hc, _⟩, _⟩ := hok'
    exact obj_end_le h2 hc
  have hF' : 2 * fuelOf pj + (View.mk e (p + 1)).lim + 10 ≤ F := by unfold fuelOf; show _ + e + 10 ≤ F; omega
  exact ((C10_array_marshal_follows_source pj hb { lim := e, off := p + 1 } hle dst F hF').1 _).mp hm

end C10

/-! ## C12 — numeric accessors, `FindKey`, `FindPath` -/

section C12num
open SJ.Numeric SJ.GoIter SJ.GoNum SJ.Properties.C12

/-- **`Iter.Int()` at source level.** With the receiver standing on a number entry (float, int or uint; value word `b`
    on the tape, denoting the rational `x` — `stored`), running `Iter.Int` of `parsed_json.go` (as printed from /repo)
    returns `x` truncated toward zero and nil exactly when `−2^63 ≤ x < 2^63`, and `0` with a non-nil error otherwise —
    never a wrapped or sign-flipped number.  Receiver and tape are untouched.  The tie has no hypothesis; every fuel. -/
theorem C12_source_int_exact {pj : PJ} {i : Iter} {x : Rat} (hoff : i.off < i.lim) (hlim : i.lim ≤ pj.tape.size)
    (hs : stored i.t (pj.tape[i.off]'(Nat.lt_of_lt_of_le hoff hlim)) = some x) (fuel : Nat) :
    ∃ s, runFun goFuns goIter_Int fuel { env := envOf "i" i, tape := pj.tape } =
        .ret s (if -(2 : Rat) ^ 63 ≤ x ∧ x < (2 : Rat) ^ 63 then [.int (truncQ x), .bool false]
                else [.int 0, .bool true]) ∧
      s.tape = pj.tape ∧ iterAt s.env "i" = some i := by
  have hm := C12_int_exact hoff hlim hs
  have ht := (C12_numeric_accessors_follow_source pj i fuel).2.2.1
  rw [hm] at ht
  split
  · next h => rw [if_pos h] at ht; exact ht
  · next h => rw [if_neg h] at ht; exact ht

/-- **`Iter.Uint()` at source level**: `x` truncated toward zero (a number below `2^64`, returned as that very `uint64`)
    and nil exactly when `0 ≤ x < 2^64`, `0` and a non-nil error otherwise. -/
theorem C12_source_uint_exact {pj : PJ} {i : Iter} {x : Rat} (hoff : i.off < i.lim) (hlim : i.lim ≤ pj.tape.size)
    (hs : stored i.t (pj.tape[i.off]'(Nat.lt_of_lt_of_le hoff hlim)) = some x) (fuel : Nat) :
    (∃ s, runFun goFuns goIter_Uint fuel { env := envOf "i" i, tape := pj.tape } =
        .ret s (if 0 ≤ x ∧ x < (2 : Rat) ^ 64 then [.u64 (UInt64.ofNat (truncQ x).toNat), .bool false]
                else [.u64 0, .bool true]) ∧
      s.tape = pj.tape ∧ iterAt s.env "i" = some i) ∧
    (0 ≤ x ∧ x < (2 : Rat) ^ 64 → (UInt64.ofNat (truncQ x).toNat).toNat = (truncQ x).toNat) := by
  have hm := C12_uint_exact hoff hlim hs
  obtain ⟨_, _, _, ht, hlt, _⟩ := C12_numeric_accessors_follow_source pj i fuel
  rw [hm] at ht hlt
  refine ⟨?_, fun h => ?_⟩
  · split
    · next h => rw [if_pos h] at ht; exact ht
    · next h => rw [if_neg h] at ht; exact ht
  · rw [if_pos h] at hlt
    exact UInt64.toNat_ofNat_of_lt' (hlt _ rfl)

/-- **`Iter.Float()` at source level**: always succeeds on a number entry, returning (the bits of) the float64 nearest
    to `x`, ties to even. -/
theorem C12_source_float_exact {pj : PJ} {i : Iter} {x : Rat} (hoff : i.off < i.lim) (hlim : i.lim ≤ pj.tape.size)
    (hs : stored i.t (pj.tape[i.off]'(Nat.lt_of_lt_of_le hoff hlim)) = some x) (fuel : Nat) :
    ∃ f s, runFun goFuns goIter_Float fuel { env := envOf "i" i, tape := pj.tape } = .ret s [.u64 f, .bool false] ∧
      s.tape = pj.tape ∧ iterAt s.env "i" = some i ∧ IsNearestEven f x := by
  obtain ⟨f, hm, hn⟩ := C12_float_exact hoff hlim hs
  have ht := (C12_numeric_accessors_follow_source pj i fuel).1
  rw [hm] at ht
  obtain ⟨s, h1, h2, h3⟩ := ht
  exact ⟨f, s, h1, h2, h3, hn⟩

end C12num

section C12find
open SJ.Layout SJ.WalkLayout SJ.Lookup SJ.GoIter SJ.GoObject SJ.GoFind SJ.Properties.C12

private theorem obj_le {pj : PJ} {p e : Nat} {ms : LMems} (hok : Ok pj (.obj p e ms)) : e ≤ pj.tape.size := by
  simp only [Ok] at hok
  obtain ⟨h2, _, ⟨c, hc, _⟩, _⟩ := hok
  exact obj_end_le h2 hc

private theorem elemIter_ne_default (pj : PJ) (v : LVal) : elemIter pj v ≠ default := by
  intro h
  have : (elemIter pj v).off = (default : Iter).off := by rw [h]
  exact absurd this (by show v.pos + 1 ≠ 0; omega)

/-- **`Object.FindKey` at source level.** On a tape that holds the located object `.obj p e ms` (gaps anywhere), running
    `Object.FindKey(key, dst)` of `parsed_object.go` (as printed from /repo) on the object's view (`off = p+1`, `lim = e`,
    what `Iter.Object` returns), with a nil or a caller-supplied `dst` holding anything:
    * if some member has the key: returns non-nil, and `dst` describes the FIRST such member in tape order — `dst.Name`
      = the key, `dst.Type` = the type of its value `v`, `dst.Iter` = the cursor restricted to the words of `v` and
      standing on it (`OnNode pj v`);
    * if no member has the key: returns nil.
    The tape is untouched.  Tie hypotheses discharged: `v.lim ≤ len(tape)` (the closing brace of an `Ok` object is a word
    of the tape), the model fuel, the auxiliary iterator of the bundle, and the exception of `FKPost` ("`dst.Iter` left
    alone at the end of the view": the cursor on an `Ok` value is never the zero iterator).  Kept: `BufOK pj` (buffer
    lengths are Go `int`s; `Ok` does not bound the buffers' total size), `key.size < 2^63` (of the property: the code
    compares `int(length)`), and the interpreter's loop budget. -/
theorem C12_source_findKey (pj : PJ) (p e : Nat) (ms : LMems) (key : Bytes) (hkey : key.size < 2 ^ 63)
    (hok : Ok pj (.obj p e ms)) (hb : BufOK pj) (nil : Bool) (d0 : Iter) (extra : Env) (fuel : Nat)
    (hf : 2 * e + 11 ≤ fuel) :
    match firstWithKey key ms with
    | some (_, v) =>
      ∃ e', runFun goFuns goObject_FindKey fuel ⟨fkStore pj { lim := e, off := p + 1 } key nil d0 extra, pj.tape⟩ =
          .ret ⟨e', pj.tape⟩ [.bool true] ∧
        e'.get "dst.Type" = some (.u8 (tagToTypeSpec (tagOfL v))) ∧ e'.get "dst.Name" = some (.bytes key) ∧
        iterAt e' "dst.Iter" = some (elemIter pj v) ∧ Ok pj v ∧ OnNode pj v (elemIter pj v)
    | none =>
      ∃ e', runFun goFuns goObject_FindKey fuel ⟨fkStore pj { lim := e, off := p + 1 } key nil d0 extra, pj.tape⟩ =
          .ret ⟨e', pj.tape⟩ [.bool false] := by
  have hle := obj_le hok
  have hm := C12_findKey pj p e ms key hkey hok
  have hmf : (View.mk e (p + 1)).lim - (View.mk e (p + 1)).off + 1 ≤ fuelOf pj := by
    show e - (p + 1) + 1 ≤ fuelOf pj; unfold fuelOf; omega
  have ht := (C12_find_follows_source pj hb { lim := e, off := p + 1 } hle key [] nil d0 extra default
    (Nat.zero_le _) fuel (fuelOf pj) hmf hf (by show 0 + 8 ≤ fuel; omega)).2.2.1
  rw [hm] at ht
  cases hfk : firstWithKey key ms with
  | none =>
    rw [hfk] at ht
    exact ht
  | some r =>
    obtain ⟨pk, v⟩ := r
    rw [hfk] at ht
    obtain ⟨e', h1, h2, h3, h4, _⟩ := ht
    rw [if_neg (elemIter_ne_default pj v)] at h4
    have hv : Ok pj v := firstWithKey_ok pj key ms (p + 1) (e - 1) (by
      have hok' := hok
      simp only [Ok] at hok'
      exact hok'.2.2.2) pk v hfk
    rw [tagToType_spec] at h2
    exact ⟨e', h1, h2, h3, h4, hv, (elemIter_onNode pj v hv).1⟩

end C12find

section C12path
open SJ.Layout SJ.WalkLayout SJ.Lookup SJ.GoIter SJ.GoObject SJ.GoFind SJ.Properties.C12

private theorem pathSpec_ne_panic : ∀ (rest : List Bytes) (key : Bytes) (ms : LMems), pathSpec key rest ms ≠ .panic := by
  intro rest
  induction rest with
  | nil =>
    intro key ms h
    unfold pathSpec at h
    split at h <;> cases h
  | cons k rest ih =>
    intro key ms h
    unfold pathSpec at h
    split at h
    · cases h
    · simp only at h
      split at h
      · exact ih _ _ h
      · cases h

/-- **`Object.FindPath` at source level.** On a tape that holds the located object `.obj p e ms`, running
    `Object.FindPath(dst, key, rest...)` of `parsed_object.go` (as printed from /repo) on the object's view:
    * if taking the FIRST member with each key of the path in turn reaches a value `v` (`pathSpec … = .ok v`): returns
      `(dst, nil)` with `dst` non-nil, `dst.Name` = the last key of the path, `dst.Type` = the type of `v`, `dst.Iter` =
      the cursor restricted to `v` and standing on it;
    * if some key is absent, or the path continues through a value that is not an object (`pathSpec … = .error _`):
      returns a non-nil error (and a non-nil `dst` when the caller supplied one);
    * nothing else happens: no panic, no divergence (for `pathSpec` this is by definition; for the Go code it is part
      of the statement).
    The tape is untouched.  Discharged and kept hypotheses: as for `C12_source_findKey`.  Not stated (the tie `FPPost`
    does not distinguish error values): WHICH error is returned — `ErrPathNotFound` vs. the `fmt.Errorf` — although
    `pathSpec` names it. -/
theorem C12_source_findPath (pj : PJ) (p e : Nat) (ms : LMems) (key : Bytes) (rest : List Bytes)
    (hkeys : ∀ k ∈ key :: rest, k.size < 2 ^ 63) (hok : Ok pj (.obj p e ms)) (hb : BufOK pj) (nil : Bool) (d0 : Iter)
    (extra : Env) (fuel : Nat) (hf : 2 * e + 11 ≤ fuel) :
    match pathSpec key rest ms with
    | .ok v =>
      ∃ e', runFun goFuns goObject_FindPath fuel
            ⟨fpStore pj { lim := e, off := p + 1 } (key :: rest) nil d0 extra, pj.tape⟩ =
          .ret ⟨e', pj.tape⟩ [.bool true, .bool false] ∧
        e'.get "dst.Type" = some (.u8 (tagToTypeSpec (tagOfL v))) ∧
        e'.get "dst.Name" = some (.bytes (rest.getLastD key)) ∧
        iterAt e' "dst.Iter" = some (elemIter pj v) ∧ Ok pj v ∧ OnNode pj v (elemIter pj v)
    | .error _ =>
      ∃ e' b, runFun goFuns goObject_FindPath fuel
            ⟨fpStore pj { lim := e, off := p + 1 } (key :: rest) nil d0 extra, pj.tape⟩ =
          .ret ⟨e', pj.tape⟩ [.bool b, .bool true] ∧ (nil = false → b = true)
    | .panic => False
    | .diverge => False := by
  have hle := obj_le hok
  have hm := C12_findPath pj p e ms key rest hkeys hok
  have hmf : (View.mk e (p + 1)).lim - (View.mk e (p + 1)).off + 1 ≤ fuelOf pj := by
    show e - (p + 1) + 1 ≤ fuelOf pj; unfold fuelOf; omega
  have ht := (C12_find_follows_source pj hb { lim := e, off := p + 1 } hle key (key :: rest) nil d0 extra default
    (Nat.zero_le _) fuel (fuelOf pj) hmf hf (by show 0 + 8 ≤ fuel; omega)).2.2.2
  rw [hm] at ht
  have hms : OkMems pj ms (p + 1) (e - 1) := by
    have hok' := hok
    simp only [Ok] at hok'
    exact hok'.2.2.2
  cases hps : pathSpec key rest ms with
  | ok v =>
    rw [hps] at ht
    obtain ⟨e', h1, h2, h3, h4, _⟩ := ht
    have h4' : iterAt e' "dst.Iter" = some (elemIter pj v) := by
      rw [h4]; exact congrArg some (if_neg (elemIter_ne_default pj v))
    have h3' : e'.get "dst.Name" = some (.bytes (rest.getLastD key)) := by
      rw [h3]; show some (Val.bytes (lastKey key rest)) = _; rw [lastKey_eq_getLastD]
    have hv : Ok pj v := pathSpec_ok pj rest key ms _ _ hms v hps
    rw [tagToType_spec] at h2
    exact ⟨e', h1, h2, h3', h4', hv, (elemIter_onNode pj v hv).1⟩
  | error er => rw [hps] at ht; exact ht
  | panic =>
    rw [hps] at ht
    exact pathSpec_ne_panic rest key ms hps
  | diverge =>
    rw [hps] at ht
    exact ht

end C12path

/-! ## C12 — bulk accessors = plain traversal, both sides as source -/

section C12bulk
open SJ.Numeric SJ.GoIter SJ.GoNum SJ.GoArrNum SJ.Properties.C12

/-- the per-element accessor of the Go API that corresponds to a bulk accessor: `Float` / `Int` / `Uint` -/
def accessorOf : View.NumKind → FunDef
  | .asFloat => goIter_Float
  | .asInteger => goIter_Int
  | .asUint64 => goIter_Uint

/-- the bulk accessor itself: `Array.AsFloat` / `AsInteger` / `AsUint64` -/
def bulkOf : View.NumKind → FunDef
  | .asFloat => goArray_AsFloat
  | .asInteger => goArray_AsInteger
  | .asUint64 => goArray_AsUint64

/-- the Go slice a bulk accessor returns for the raw 64-bit words `ws` (`[]float64` as bit patterns, `[]int64` in two's
    complement, `[]uint64`) -/
def sliceOf : View.NumKind → Array UInt64 → Val
  | .asFloat, ws => .u64s ws.toList
  | .asInteger, ws => .ints (ws.toList.map toInt64)
  | .asUint64, ws => .u64s ws.toList

/-- the nil slice of that type -/
def nilOf : View.NumKind → Val
  | .asFloat => .u64s []
  | .asInteger => .ints []
  | .asUint64 => .u64s []

/-- what one call of a per-element accessor gave: a number (as its raw 64-bit word: float bits, two's complement of the
    `int64`, the `uint64`), a non-nil error, a panic, or something that is none of these -/
inductive ElemOut where
  | val (w : UInt64)
  | err
  | panic
  | other

def elemOut : Out → ElemOut
  | .ret _ [.u64 b, .bool false] => .val b
  | .ret _ [.int z, .bool false] => .val (ofInt64 z)
  | .ret _ [_, .bool true] => .err
  | .panic => .panic
  | _ => .other

/-- outcome of the client loop below -/
inductive TravOut where
  | vals (ws : Array UInt64)
  | err
  | panic
  | other

/-- **Plain traversal, run on the source.** The client loop
    `for k := 0; k < n; k++ { i.Advance(); v, err := i.Float() /* Int, Uint */; if err != nil { return err }; acc = append(acc, v) }`
    where each call is the interpretation of the function's syntax tree as printed from /repo: `Iter.Advance` is run on
    the receiver, the receiver's five fields are read back from the store it leaves, and the accessor is run on them
    (the accessors do not modify the receiver). -/
def srcTraverse (kind : View.NumKind) (tape : Array UInt64) (F : Nat) : Nat → Iter → Array UInt64 → TravOut
  | 0, _, acc => .vals acc
  | n + 1, it, acc =>
    match runFun goFuns goIter_Advance F { env := envOf "i" it, tape := tape } with
    | .ret s _ =>
      match iterAt s.env "i" with
      | some it' =>
        match elemOut (runFun goFuns (accessorOf kind) F { env := envOf "i" it', tape := tape }) with
        | .val w => srcTraverse kind tape F n it' (acc.push w)
        | .err => .err
        | .panic => .panic
        | .other => .other
      | none => .other
    | .panic => .panic
    | _ => .other

/-- source traversal against model traversal: same values, or an error on both sides; nothing else occurs -/
private def TravRel : TravOut → Res (Array UInt64) → Prop
  | .vals ws, .ok ws' => ws = ws'
  | .err, .error _ => True
  | _, _ => False

private theorem elem_rel (pj : PJ) (kind : View.NumKind) (it : Iter) (F : Nat) (hl : it.lim ≤ pj.tape.size) :
    match perElem kind pj it with
    | .ok w => elemOut (runFun goFuns (accessorOf kind) F { env := envOf "i" it, tape := pj.tape }) = .val w
    | .error _ => elemOut (runFun goFuns (accessorOf kind) F { env := envOf "i" it, tape := pj.tape }) = .err
    | .panic => False
    | .diverge => False := by
  obtain ⟨hF, _, hI, hU, _, hnp⟩ := C12_numeric_accessors_follow_source pj it F
  obtain ⟨np1, _, np3, np4⟩ := hnp hl
  cases kind with
  | asFloat =>
    show match it.float pj with | .ok w => _ | .error _ => _ | .panic => False | .diverge => False
    revert hF np1
    show SimR _ _ _ _ (runFun goFuns goIter_Float F _) _ → _ → _
    cases it.float pj with
    | ok w => rintro ⟨s, h, _⟩ _; show elemOut (runFun goFuns goIter_Float F _) = _; rw [h]; rfl
    | error er => rintro ⟨s, h, _⟩ _; show elemOut (runFun goFuns goIter_Float F _) = _; rw [h]; rfl
    | panic => intro _ h; exact h rfl
    | diverge => intro h _; exact h
  | asInteger =>
    show match (it.int pj >>= fun z => Res.ok (ofInt64 z)) with
      | .ok w => _ | .error _ => _ | .panic => False | .diverge => False
    revert hI np3
    show SimR _ _ _ _ (runFun goFuns goIter_Int F _) _ → _ → _
    cases it.int pj with
    | ok z => rintro ⟨s, h, _⟩ _; show elemOut (runFun goFuns goIter_Int F _) = _; rw [h]; rfl
    | error er => rintro ⟨s, h, _⟩ _; show elemOut (runFun goFuns goIter_Int F _) = .err; rw [h]; rfl
    | panic => intro _ h; exact h rfl
    | diverge => intro h _; exact h
  | asUint64 =>
    show match (it.uint pj >>= fun n => Res.ok (UInt64.ofNat n)) with
      | .ok w => _ | .error _ => _ | .panic => False | .diverge => False
    revert hU np4
    show SimR _ _ _ _ (runFun goFuns goIter_Uint F _) _ → _ → _
    cases it.uint pj with
    | ok z => rintro ⟨s, h, _⟩ _; show elemOut (runFun goFuns goIter_Uint F _) = _; rw [h]; rfl
    | error er => rintro ⟨s, h, _⟩ _; show elemOut (runFun goFuns goIter_Uint F _) = .err; rw [h]; rfl
    | panic => intro _ h; exact h rfl
    | diverge => intro h _; exact h

private theorem srcTraverse_rel (pj : PJ) (kind : View.NumKind) (F : Nat) (ws : List (UInt64 × UInt64)) :
    ∀ (it : Iter) (p : Nat) (acc : Array UInt64),
      (it.off : Int) + it.addNext = p → NumsAt pj p ws → p + 2 * ws.length < it.lim → it.lim ≤ pj.tape.size →
      it.lim + 8 ≤ F →
      TravRel (srcTraverse kind pj.tape F ws.length it acc) (traverse kind pj it ws acc) := by
  induction ws with
  | nil => intro it p acc _ _ _ _ _; show acc = acc; rfl
  | cons q rest ih =>
    intro it p acc hp hn hl hlim hF
    obtain ⟨tw, vw⟩ := q
    obtain ⟨h0, h1, ht, hrest⟩ := hn
    simp only [List.length_cons] at hl
    have hadv := advance_num pj it p tw hp h0 (by omega) ht
    have hsim := advance_sim pj it hlim F hF
    rw [hadv] at hsim
    obtain ⟨s, hrun, _, hit⟩ := hsim
    have he := elem_rel pj kind (elemIter it.lim p tw) F hlim
    have hih := fun w => ih (elemIter it.lim p tw) (p + 2) (acc.push w)
      (by show ((p + 1 : Nat) : Int) + 1 = ((p + 2 : Nat) : Int); omega) hrest (by show p + 2 + 2 * rest.length < it.lim; omega)
      hlim hF
    show TravRel (srcTraverse kind pj.tape F (rest.length + 1) it acc) _
    unfold srcTraverse traverse
    rw [hrun, hadv]
    simp only [hit, Res.bind_ok]
    cases hpe : perElem kind pj (elemIter it.lim p tw) with
    | ok w => rw [hpe] at he; simp only [] at he; rw [he]; exact hih w
    | error er => rw [hpe] at he; simp only [] at he; rw [he]; trivial
    | panic => rw [hpe] at he; exact he.elim
    | diverge => rw [hpe] at he; exact he.elim

/-- **Bulk accessors = plain traversal, at source level.** On a tape that holds the two-word number entries `ws` from the
    start of the array's view, followed by the closing bracket (`NumsAt`), running `Array.AsFloat` / `AsInteger` /
    `AsUint64` of `parsed_array.go` on the view returns what the client loop `srcTraverse` — `Iter.Advance` then
    `Iter.Float` / `Int` / `Uint` of `parsed_json.go`, once per entry, each RUN AS SOURCE — collects: the same numbers in
    the same order and nil, or nil and an error when (and only when) the loop stops on an accessor error; neither side
    panics or does anything else.  Numbers are compared as raw 64-bit words (float bits; for `AsInteger` the two's
    complement of the `int64` that `Int()` returned, read back as `int64`; the `uint64`), exactly as in
    `C12_bulk_eq_traversal`.  The tape is untouched.
    Hypotheses: those of the property (`fuel` is the bulk accessor's loop budget, more than the number of entries); from
    the tie of `Iter.Advance` (C02) `a.lim ≤ len(tape)` is kept — `NumsAt` with `a.off + 2·n < a.lim` bounds the view
    from below only — and `F`, the interpreter's budget for one `Advance`.  The ties of the accessors and of the bulk
    accessors have no hypothesis. -/
theorem C12_source_bulk (pj : PJ) (kind : View.NumKind) (ws : List (UInt64 × UInt64)) (a : View) (fuel F : Nat)
    (hn : NumsAt pj a.off ws) (hl : a.off + 2 * ws.length < a.lim) (hf : ws.length < fuel)
    (hlim : a.lim ≤ pj.tape.size) (hF : a.lim + 8 ≤ F) :
    match srcTraverse kind pj.tape F ws.length a.iter #[] with
    | .vals out =>
      ∃ s, runFun goFuns (bulkOf kind) fuel ⟨[("a.off", .int a.off), ("a.lim", .int a.lim)], pj.tape⟩ =
        .ret s [sliceOf kind out, .bool false] ∧ s.tape = pj.tape
    | .err =>
      ∃ s, runFun goFuns (bulkOf kind) fuel ⟨[("a.off", .int a.off), ("a.lim", .int a.lim)], pj.tape⟩ =
        .ret s [nilOf kind, .bool true] ∧ s.tape = pj.tape
    | .panic => False
    | .other => False := by
  have hm := C12_bulk_eq_traversal pj kind ws a #[] fuel hn hl hf
  have hrel := srcTraverse_rel pj kind F ws a.iter a.off #[]
    (by show ((a.off : Nat) : Int) + 0 = a.off; omega) hn hl hlim hF
  have htie : SimA pj (fun ws => sliceOf kind ws) (nilOf kind) a fuel
      (runFun goFuns (bulkOf kind) fuel ⟨[("a.off", .int a.off), ("a.lim", .int a.lim)], pj.tape⟩)
      (View.asNum pj kind a #[] fuel) := by
    obtain ⟨h1, h2, h3, _⟩ := C12_bulk_accessors_follow_source pj a fuel
    cases kind
    · exact h1
    · exact h2
    · exact h3
  rw [hm] at htie
  revert hrel htie
  generalize srcTraverse kind pj.tape F ws.length a.iter #[] = o
  generalize traverse kind pj a.iter ws #[] = r
  intro hrel htie
  cases o <;> cases r <;> first | exact hrel.elim | skip
  · cases hrel; exact htie
  · exact htie

end C12bulk

end SJ.SourceLevelA
