import SJ.Proofs.LexIface
set_option linter.unusedVariables false
/-
`RoundsFacts`: the index buffers of `rounds`, concatenated, are the indices; the peek values are as `PeekOK` says.
-/
namespace SJ.Rounds
open SJ SJ.Generated SJ.ParseDefs

/-! ## `countBelow` on a sorted array -/

def Sorted (idx : Array Nat) : Prop :=
  ∀ i j (hi : i < idx.size) (hj : j < idx.size), i < j → idx[i] < idx[j]

/-- all indices from array position `k` on are at byte positions `≥ p` -/
def Done (idx : Array Nat) (k p : Nat) : Prop := ∀ j (h : j < idx.size), k ≤ j → p ≤ idx[j]

theorem countBelow_spec (idx : Array Nat) (k upto : Nat) (hk : k ≤ idx.size) :
    k ≤ countBelow idx k upto ∧ countBelow idx k upto ≤ idx.size ∧
    (∀ h : countBelow idx k upto < idx.size, upto ≤ idx[countBelow idx k upto]) := by
  fun_induction countBelow idx k upto with
  | case1 k h hlt ih =>
    have := ih (by omega)
    refine ⟨by omega, this.2.1, this.2.2⟩
  | case2 k h hge =>
    exact ⟨Nat.le_refl _, by omega, fun _ => by omega⟩
  | case3 k h => exact ⟨Nat.le_refl _, hk, fun h' => by omega⟩

theorem countBelow_all (idx : Array Nat) (k upto : Nat) (hk : k ≤ idx.size)
    (hall : ∀ j (h : j < idx.size), k ≤ j → idx[j] < upto) : countBelow idx k upto = idx.size := by
  fun_induction countBelow idx k upto with
  | case1 k h hlt ih => exact ih (by omega) (fun j hj hkj => hall j hj (by omega))
  | case2 k h hge => exact absurd (hall k h (Nat.le_refl _)) hge
  | case3 k h => omega

theorem countBelow_done (idx : Array Nat) (hs : Sorted idx) (k upto : Nat) (hk : k ≤ idx.size) :
    Done idx (countBelow idx k upto) upto := by
  intro j hj hcj
  have h := countBelow_spec idx k upto hk
  have h1 := h.2.2 (by omega)
  by_cases e : countBelow idx k upto = j
  · subst e; exact h1
  · have := hs (countBelow idx k upto) j (by omega) hj (by omega)
    omega

/-- the undelivered suffix splits at any later position -/
theorem drop_split (idx : Array Nat) (k j : Nat) (hkj : k ≤ j) (hj : j ≤ idx.size) :
    (idx.extract k j).toList ++ idx.toList.drop j = idx.toList.drop k := by
  have e : idx.toList.drop j = (idx.toList.drop k).drop (j - k) := by
    rw [List.drop_drop]; congr 1; omega
  rw [Array.toList_extract, List.extract_eq_take_drop, e, List.take_append_drop]

/-! ## `fillBlocks` -/

theorem fillBlocks_spec (idx : Array Nat) (hs : Sorted idx) (fullEnd : Nat) :
    ∀ (fuel : Nat) (cur : Array Nat) (k p : Nat), k ≤ idx.size → Done idx k p → p ≤ fullEnd →
      (fullEnd - p) % 64 = 0 →
      (fillBlocks idx fullEnd fuel cur k p).1.toList ++ idx.toList.drop (fillBlocks idx fullEnd fuel cur k p).2.1
          = cur.toList ++ idx.toList.drop k ∧
      (fillBlocks idx fullEnd fuel cur k p).2.1 ≤ idx.size ∧
      Done idx (fillBlocks idx fullEnd fuel cur k p).2.1 (fillBlocks idx fullEnd fuel cur k p).2.2 ∧
      (fillBlocks idx fullEnd fuel cur k p).2.2 ≤ fullEnd ∧
      p ≤ (fillBlocks idx fullEnd fuel cur k p).2.2 ∧
      (0 < fuel → p < fullEnd → p + 64 ≤ (fillBlocks idx fullEnd fuel cur k p).2.2) := by
  intro fuel
  induction fuel with
  | zero =>
    intro cur k p hk hd hp hm
    simp only [fillBlocks]
    exact ⟨trivial, hk, hd, hp, Nat.le_refl _, fun h => absurd h (Nat.lt_irrefl 0)⟩
  | succ fuel ih =>
    intro cur k p hk hd hp hm
    have hc := countBelow_spec idx k (p + 64) hk
    have hdn := countBelow_done idx hs k (p + 64) hk
    have hsplit := drop_split idx k (countBelow idx k (p + 64)) hc.1 hc.2.1
    simp only [fillBlocks]
    split
    · rename_i hlt
      split
      · dsimp only
        refine ⟨?_, hc.2.1, hdn, by omega, by omega, fun _ _ => Nat.le_refl _⟩
        simp only [Array.toList_append, List.append_assoc, hsplit]
      · have := ih (cur ++ idx.extract k (countBelow idx k (p + 64))) (countBelow idx k (p + 64)) (p + 64)
          hc.2.1 hdn (by omega) (by omega)
        refine ⟨?_, this.2.1, this.2.2.1, this.2.2.2.1, by omega, fun _ _ => this.2.2.2.2.1⟩
        rw [this.1]
        simp only [Array.toList_append, List.append_assoc, hsplit]
    · exact ⟨rfl, hk, hd, hp, Nat.le_refl _, fun _ h => by omega⟩

/-! ## one round -/

theorem roundsGo_step (msg : Bytes) (idx : Array Nat) (hs : Sorted idx)
    (hb : ∀ i (h : i < idx.size), idx[i] < msg.size)
    (fuel base k : Nat) (carry : Option Nat) (hbase : base < msg.size) (hk : k ≤ idx.size)
    (hd : Done idx k base) :
    ∃ (cur2 : Array Nat) (k2 p2 : Nat),
      cur2.toList ++ idx.toList.drop k2 = carry.toList ++ idx.toList.drop k ∧ k2 ≤ idx.size ∧
      ((roundsGo msg idx (fuel + 1) base k carry = [cur2] ∧ k2 = idx.size) ∨
       (base < p2 ∧ p2 < msg.size ∧ Done idx k2 p2 ∧
        roundsGo msg idx (fuel + 1) base k carry =
          if cur2.size > 0 ∧ (!isMarkup (msg.getD cur2.back! 0)) = true then
            cur2.pop :: roundsGo msg idx fuel p2 k2 (some cur2.back!)
          else cur2 :: roundsGo msg idx fuel p2 k2 none)) := by
  have hf := fillBlocks_spec idx hs (base + ((msg.size - base) / 64) * 64) (msg.size / 64 + 1)
    (match carry with | some c => #[c] | none => #[]) k base hk hd (by omega) (by omega)
  have hc0 : (match carry with | some c => #[c] | none => (#[] : Array Nat)).toList = carry.toList := by
    cases carry <;> rfl
  rw [hc0] at hf
  simp only [roundsGo, hbase, ↓reduceIte]
  generalize fillBlocks idx _ _ _ k base = r at hf ⊢
  obtain ⟨cur1, k1, p1⟩ := r
  dsimp only at hf ⊢
  by_cases ht : msg.size - p1 ≤ 64 ∧ p1 < msg.size
  · simp only [ht, and_self, ↓reduceIte, beq_self_eq_true]
    have hall : countBelow idx k1 msg.size = idx.size :=
      countBelow_all idx k1 msg.size hf.2.1 (fun j hj _ => hb j hj)
    refine ⟨cur1 ++ idx.extract k1 (countBelow idx k1 msg.size), countBelow idx k1 msg.size, msg.size, ?_,
      by omega, Or.inl ⟨rfl, hall⟩⟩
    have hsplit := drop_split idx k1 (countBelow idx k1 msg.size) (by omega) (by omega)
    rw [← hf.1]
    simp only [Array.toList_append, List.append_assoc, hsplit]
  · simp only [ht, ↓reduceIte]
    by_cases hp : p1 = msg.size
    · subst hp
      simp only [beq_self_eq_true, ↓reduceIte]
      refine ⟨cur1, k1, msg.size, hf.1, hf.2.1, Or.inl ⟨rfl, ?_⟩⟩
      by_cases hk1 : k1 < idx.size
      · have := hf.2.2.1 k1 hk1 (Nat.le_refl _)
        have := hb k1 hk1
        omega
      · omega
    · have hne : (p1 == msg.size) = false := by simpa using hp
      simp only [hne, Bool.false_eq_true, ↓reduceIte]
      refine ⟨cur1, k1, p1, hf.1, hf.2.1, Or.inr ⟨?_, ?_, hf.2.2.1, rfl⟩⟩
      · have := hf.2.2.2.2.2 (by omega)
        omega
      · omega

/-! ## pairs of a buffer, list level -/

def pairsL : List Nat → List (Nat × Nat)
  | [] => []
  | [a] => [(a, 0)]
  | a :: b :: r => (a, b - a) :: pairsL (b :: r)

theorem pairsL_list (l : List Nat) :
    (List.range l.length).map (fun k => (l.getD k 0, if k + 1 < l.length then l.getD (k + 1) 0 - l.getD k 0 else 0))
      = pairsL l := by
  induction l with
  | nil => rfl
  | cons a l ih =>
    rw [List.length_cons, List.range_succ_eq_map, List.map_cons, List.map_map]
    cases l with
    | nil => rfl
    | cons b r =>
      rw [pairsL, ← ih]
      congr 1
      apply List.map_congr_left
      intro k _
      simp only [Function.comp, Nat.succ_eq_add_one, List.getD_cons_succ, List.length_cons,
        Nat.add_lt_add_iff_right]

theorem pairsOfBuf_eq (b : Array Nat) : pairsOfBuf b = pairsL b.toList := by
  cases b with
  | mk l =>
    rw [← pairsL_list]
    simp only [pairsOfBuf, Array.getD_eq_getD_getElem?, List.getD_eq_getElem?_getD, List.size_toArray,
      List.getElem?_toArray]

theorem pairsL_fst (l : List Nat) : (pairsL l).map Prod.fst = l := by
  induction l with
  | nil => rfl
  | cons a l ih =>
    cases l with
    | nil => rfl
    | cons b r => rw [pairsL, List.map_cons, ih]

def PeekP (mk : Nat → Bool) : List (Nat × Nat) → Prop
  | [] => True
  | [_] => True
  | x :: y :: r => (x.2 = y.1 - x.1 ∨ (x.2 = 0 ∧ (mk x.1 = true ∨ mk y.1 = false))) ∧ PeekP mk (y :: r)

theorem PeekP_tail (mk : Nat → Bool) (x : Nat × Nat) (L : List (Nat × Nat)) (h : PeekP mk (x :: L)) : PeekP mk L := by
  cases L with
  | nil => trivial
  | cons y r => exact h.2

theorem PeekP_get (mk : Nat → Bool) (L : List (Nat × Nat)) (hP : PeekP mk L) :
    ∀ k (h : k + 1 < L.length),
      (L[k]).2 = (L[k+1]).1 - (L[k]).1 ∨ ((L[k]).2 = 0 ∧ (mk (L[k]).1 = true ∨ mk (L[k+1]).1 = false)) := by
  induction L with
  | nil => intro k h; simp at h
  | cons x L ih =>
    intro k h
    cases k with
    | zero =>
      cases L with
      | nil => simp at h
      | cons y r => exact hP.1
    | succ k =>
      have := ih (PeekP_tail mk x L hP) k (by simpa using h)
      simpa using this

theorem PeekP_append (mk : Nat → Bool) (R : List (Nat × Nat)) (hR : PeekP mk R) (b : List Nat)
    (hb : ∀ a y, b.getLast? = some a → R.head? = some y → mk a = true ∨ mk y.1 = false) :
    PeekP mk (pairsL b ++ R) := by
  induction b with
  | nil => exact hR
  | cons a l ih =>
    cases l with
    | nil =>
      cases R with
      | nil => trivial
      | cons y r => exact ⟨Or.inr ⟨rfl, hb a y rfl rfl⟩, hR⟩
    | cons c r =>
      have ih' := ih (fun a' y h1 h2 => hb a' y (by simpa using h1) h2)
      rw [pairsL]
      cases r with
      | nil => exact ⟨Or.inl rfl, ih'⟩
      | cons d r' => exact ⟨Or.inl rfl, ih'⟩

theorem flatten_pairs_fst (bufs : List (List Nat)) : ((bufs.map pairsL).flatten).map Prod.fst = bufs.flatten := by
  induction bufs with
  | nil => rfl
  | cons b r ih => simp only [List.map_cons, List.flatten_cons, List.map_append, pairsL_fst, ih]

theorem back_of_getLast (cur : Array Nat) (a : Nat) (h : cur.toList.getLast? = some a) :
    cur.size > 0 ∧ cur.back! = a := by
  rw [Array.getLast?_toList] at h
  refine ⟨?_, by rw [Array.back!_eq_back?, h]; rfl⟩
  cases hsz : cur.size with
  | zero => simp [Array.back?, hsz] at h
  | succ m => omega

theorem pop_back (cur : Array Nat) (h : cur.size > 0) : cur.pop.toList ++ [cur.back!] = cur.toList := by
  have hne : cur.toList ≠ [] := by
    intro e; have := congrArg List.length e; rw [Array.length_toList, List.length_nil] at this; omega
  have h1 : cur.toList.getLast? = some (cur.toList.getLast hne) := List.getLast?_eq_some_getLast hne
  rw [(back_of_getLast cur _ h1).2, Array.toList_pop, List.dropLast_concat_getLast]

/-! ## all rounds -/

theorem roundsGo_main (msg : Bytes) (idx : Array Nat) (hs : Sorted idx)
    (hb : ∀ i (h : i < idx.size), idx[i] < msg.size) :
    ∀ (fuel base k : Nat) (carry : Option Nat), msg.size - base ≤ fuel → k ≤ idx.size → Done idx k base →
      (base < msg.size ∨ (carry = none ∧ k = idx.size)) →
      ((roundsGo msg idx fuel base k carry).map Array.toList).flatten = carry.toList ++ idx.toList.drop k ∧
      PeekP (fun a => isMarkup (msg.getD a 0))
        ((((roundsGo msg idx fuel base k carry).map Array.toList).map pairsL).flatten) := by
  intro fuel
  induction fuel with
  | zero =>
    intro base k carry hfuel hk hd hor
    have : carry = none ∧ k = idx.size := by
      rcases hor with h | h
      · omega
      · exact h
    obtain ⟨rfl, rfl⟩ := this
    simp only [roundsGo, List.map_nil, List.flatten_nil, Option.toList_none, List.nil_append]
    refine ⟨?_, trivial⟩
    rw [← Array.length_toList, List.drop_length]
  | succ fuel ih =>
    intro base k carry hfuel hk hd hor
    by_cases hbase : base < msg.size
    · obtain ⟨cur2, k2, p2, hcat, hk2, hcase⟩ := roundsGo_step msg idx hs hb fuel base k carry hbase hk hd
      rcases hcase with ⟨hgo, hk2e⟩ | ⟨hlt, hp2, hd2, hgo⟩
      · rw [hgo]
        subst hk2e
        rw [← Array.length_toList, List.drop_length, List.append_nil] at hcat
        simp only [List.map_cons, List.map_nil, List.flatten_cons, List.flatten_nil, List.append_nil]
        refine ⟨hcat, ?_⟩
        have := PeekP_append (fun a => isMarkup (msg.getD a 0)) [] trivial cur2.toList
          (fun a y _ h => by simp at h)
        simpa using this
      · rw [hgo]
        split
        · rename_i hc
          have ih' := ih p2 k2 (some cur2.back!) (by omega) hk2 hd2 (Or.inl hp2)
          simp only [List.map_cons, List.flatten_cons]
          rw [ih'.1]
          refine ⟨?_, ?_⟩
          · rw [← hcat, ← pop_back cur2 hc.1]
            simp only [Option.toList_some, List.append_assoc]
          · apply PeekP_append _ _ ih'.2
            intro a y _ hy
            right
            have h1 := congrArg List.head? (flatten_pairs_fst ((roundsGo msg idx fuel p2 k2 (some cur2.back!)).map Array.toList))
            rw [ih'.1, List.head?_map, hy] at h1
            simp only [Option.map_some, Option.toList_some, List.cons_append, List.head?_cons,
              Option.some.injEq] at h1
            rw [h1]
            simpa using hc.2
        · rename_i hc
          have ih' := ih p2 k2 none (by omega) hk2 hd2 (Or.inl hp2)
          simp only [List.map_cons, List.flatten_cons]
          rw [ih'.1]
          refine ⟨?_, ?_⟩
          · rw [← hcat]
            simp only [Option.toList_none, List.nil_append]
          · apply PeekP_append _ _ ih'.2
            intro a y ha _
            left
            have h2 := back_of_getLast cur2 a ha
            rw [← h2.2]
            by_cases hm : isMarkup (msg.getD cur2.back! 0) = true
            · exact hm
            · exact absurd ⟨h2.1, by simpa using hm⟩ hc
    · have : carry = none ∧ k = idx.size := by
        rcases hor with h | h
        · omega
        · exact h
      obtain ⟨rfl, rfl⟩ := this
      simp only [roundsGo, hbase, ↓reduceIte, List.map_nil, List.flatten_nil, Option.toList_none, List.nil_append]
      refine ⟨?_, trivial⟩
      rw [← Array.length_toList, List.drop_length]

end SJ.Rounds

namespace SJ.ParseDefs
open SJ SJ.Generated SJ.Rounds

theorem roundsFacts : RoundsFacts := by
  refine ⟨fun msg f => ?_⟩
  have hpw : List.Pairwise (· < ·) ((List.range msg.size).filter f) := List.Pairwise.filter _ List.pairwise_lt_range
  have hs : Sorted ((List.range msg.size).filter f).toArray := by
    intro i j hi hj hij
    exact List.pairwise_iff_getElem.mp hpw i j (by simpa using hi) (by simpa using hj) hij
  have hb : ∀ i (h : i < ((List.range msg.size).filter f).toArray.size),
      ((List.range msg.size).filter f).toArray[i] < msg.size := by
    intro i h
    have hm : ((List.range msg.size).filter f).toArray[i] ∈ (List.range msg.size).filter f := by
      simp only [List.getElem_toArray]; exact List.getElem_mem _
    exact List.mem_range.mp (List.mem_filter.mp hm).1
  have hmain := roundsGo_main msg _ hs hb (msg.size + 2) 0 0 none (by omega) (Nat.zero_le _)
    (fun j _ _ => Nat.zero_le _)
    (by
      by_cases h0 : 0 < msg.size
      · exact Or.inl h0
      · right
        refine ⟨rfl, ?_⟩
        have : msg.size = 0 := by omega
        simp [this])
  have hL : pairsOf (rounds msg ((List.range msg.size).filter f).toArray) =
      (((roundsGo msg ((List.range msg.size).filter f).toArray (msg.size + 2) 0 0 none).map Array.toList).map
        pairsL).flatten := by
    simp only [pairsOf, rounds, List.map_map]
    congr 1
    apply List.map_congr_left
    intro b _
    exact pairsOfBuf_eq b
  rw [hL]
  refine ⟨?_, fun k h => PeekP_get _ _ hmain.2 k h⟩
  rw [flatten_pairs_fst, hmain.1]
  simp

end SJ.ParseDefs
