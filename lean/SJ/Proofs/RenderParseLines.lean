import SJ.Proofs.RenderParseNum
/-
Helpers of `SJ/Proofs/RenderParse.lean` for newline-separated roots: the canonical text of a document contains no
line feed, and `Spec.splitLines` cuts a newline-joined text back into its pieces.
-/
set_option linter.unusedVariables false
set_option linter.unusedSimpArgs false
namespace SJ.RenderParse
open SJ SJ.Layout SJ.MarshalExact SJ.ParseDefs SJ.Tables
open SJ.NumberProofs (Lit sgn Dig NoCont)
open SJ.FloatFmtProofs (natDigits litValue natDigits_spec natToAscii_toList)

/-! ## 1. No line feed in the canonical text -/

def NoLF (l : List UInt8) : Prop := ∀ c ∈ l, c ≠ 10

theorem noLF_nil : NoLF [] := fun c hc => by cases hc
theorem noLF_append {a b : List UInt8} (ha : NoLF a) (hb : NoLF b) : NoLF (a ++ b) := by
  intro c hc
  rcases List.mem_append.mp hc with h | h
  · exact ha c h
  · exact hb c h
theorem noLF_cons {c : UInt8} {l : List UInt8} (hc : c ≠ 10) (hl : NoLF l) : NoLF (c :: l) := by
  intro d hd
  rcases List.mem_cons.mp hd with rfl | h
  · exact hc
  · exact hl d h

theorem num_byte_ne_lf : ∀ b : UInt8,
    (SJ.isDigit b = true ∨ b = 46 ∨ b = 43 ∨ b = 45 ∨ b = 101 ∨ b = 69) → b ≠ 10 := forall_u8 (by decide +kernel)

theorem lit_noLF (x : Lit) (hx : x.Strict) : NoLF x.render := by
  intro c hc
  exact num_byte_ne_lf c ((NumberProofs.rune_alpha c).mp (NumberProofs.alpha_render hx.loose c hc))

theorem intToAscii_noLF (z : Int) : NoLF (intToAscii z).toList := by
  rw [intToAscii_toList, ← intLit_render]; exact lit_noLF _ (intLit_strict _ _)

theorem natToAscii_noLF (n : Nat) : NoLF (FloatFmt.natToAscii n).toList := by
  have : (FloatFmt.natToAscii n).toList = (intLit false n).render := by
    rw [intLit_render, natToAscii_toList]; rfl
  rw [this]; exact lit_noLF _ (intLit_strict _ _)

theorem floatText_noLF (frt : FloatRT) (bits : UInt64) (hfin : F64.isFinite bits = true) :
    NoLF ((FloatFmt.appendFloat bits).getD #[]).toList := by
  obtain ⟨txt, l, happ, hlit, _⟩ := frt bits hfin
  obtain ⟨x, hx, htxt, _⟩ := NumberProofs.shape_of_spec hlit
  rw [List.append_nil] at htxt
  rw [happ, Option.getD_some, htxt]
  exact lit_noLF x hx

theorem quoted_noLF (k : List UInt8) : NoLF (Iter.quoted #[] k.toArray).toList := by
  rw [quoted_toList]
  refine noLF_cons (by decide) (noLF_append ?_ (noLF_cons (by decide) noLF_nil))
  intro c hc h10
  have := Escape.esc_no_control k c hc
  subst h10
  exact absurd this (by decide)

mutual
theorem renderJ_noLF {ok : UInt64 → Prop}
    (hfl : ∀ bits, ok bits → F64.isFinite bits = true → NoLF ((FloatFmt.appendFloat bits).getD #[]).toList) :
    ∀ v : JVal, Clean v → FloatsSat ok v → NoLF (renderJ v).toList
  | .null, _, _ => by simp only [renderJ, null_bytes]; unfold NoLF; decide
  | .bool true, _, _ => by simp only [renderJ, true_bytes, if_true]; unfold NoLF; decide
  | .bool false, _, _ => by simp only [renderJ, false_bytes, Bool.false_eq_true, if_false]; unfold NoLF; decide
  | .int w, _, _ => by simp only [renderJ]; exact intToAscii_noLF _
  | .uint w, _, _ => by simp only [renderJ]; exact natToAscii_noLF _
  | .float bits fl, hc, hk => by
    simp only [renderJ]
    exact hfl bits (by simpa only [FloatsSat] using hk) (by simpa only [Clean] using hc)
  | .str s, _, _ => by simp only [renderJ]; exact quoted_noLF s
  | .arr es, hc, hk => by
    simp only [Clean] at hc
    simp only [FloatsSat] at hk
    rw [renderJ_arr_toList]
    exact noLF_cons (by decide) (noLF_append (renderJElems_noLF hfl es hc hk).1 (noLF_cons (by decide) noLF_nil))
  | .obj ms, hc, hk => by
    simp only [Clean] at hc
    simp only [FloatsSat] at hk
    rw [renderJ_obj_toList]
    exact noLF_cons (by decide) (noLF_append (renderJMems_noLF hfl ms hc hk).1 (noLF_cons (by decide) noLF_nil))
theorem renderJElems_noLF {ok : UInt64 → Prop}
    (hfl : ∀ bits, ok bits → F64.isFinite bits = true → NoLF ((FloatFmt.appendFloat bits).getD #[]).toList) :
    ∀ vs : JVals, CleanVs vs → FloatsSatVs ok vs → NoLF (renderJElems vs).toList ∧ NoLF (renderJTail vs).toList
  | .nil, _, _ => by
    have h1 : (renderJElems .nil).toList = [] := by simp [renderJElems]
    have h2 : (renderJTail .nil).toList = [] := by simp [renderJTail]
    rw [h1, h2]; exact ⟨noLF_nil, noLF_nil⟩
  | .cons v vs, hc, hk => by
    simp only [CleanVs] at hc
    simp only [FloatsSatVs] at hk
    have a := renderJ_noLF hfl v hc.1 hk.1
    have b := (renderJElems_noLF hfl vs hc.2 hk.2).2
    rw [renderJElems_cons_toList, renderJTail_cons_toList]
    exact ⟨noLF_append a b, noLF_cons (by decide) (noLF_append a b)⟩
theorem renderJMems_noLF {ok : UInt64 → Prop}
    (hfl : ∀ bits, ok bits → F64.isFinite bits = true → NoLF ((FloatFmt.appendFloat bits).getD #[]).toList) :
    ∀ ms : JMems, CleanMs ms → FloatsSatMs ok ms → NoLF (renderJMems ms).toList ∧ NoLF (renderJMTail ms).toList
  | .nil, _, _ => by
    have h1 : (renderJMems .nil).toList = [] := by simp [renderJMems]
    have h2 : (renderJMTail .nil).toList = [] := by simp [renderJMTail]
    rw [h1, h2]; exact ⟨noLF_nil, noLF_nil⟩
  | .cons k v ms, hc, hk => by
    simp only [CleanMs] at hc
    simp only [FloatsSatMs] at hk
    have a := renderJ_noLF hfl v hc.2.1 hk.1
    have b := (renderJMems_noLF hfl ms hc.2.2 hk.2).2
    have q := quoted_noLF k
    rw [quoted_toList] at q
    have body : NoLF (34 :: ((k.map escapeByte).flatten ++ 34 :: 58 :: ((renderJ v).toList ++ (renderJMTail ms).toList))) := by
      have q' : NoLF (34 :: ((k.map escapeByte).flatten)) := by
        intro c hc'
        apply q c
        rcases List.mem_cons.mp hc' with h | h
        · simp [h]
        · simp [h]
      have := noLF_append q' (noLF_cons (show (34 : UInt8) ≠ 10 by decide) (noLF_cons (show (58 : UInt8) ≠ 10 by decide) (noLF_append a b)))
      simpa using this
    rw [renderJMems_cons_toList, renderJMTail_cons_toList]
    exact ⟨body, noLF_cons (by decide) body⟩
end

/-! ## 2. `Spec.splitLines` on a newline-joined text -/

/-- `\n l₀ \n l₁ …` -/
def tailText : List (List UInt8) → List UInt8
  | [] => []
  | a :: ls => 10 :: (a ++ tailText ls)

theorem go_noLF : ∀ (a : List UInt8), NoLF a → ∀ (rest cur : List UInt8) (acc : List (List UInt8)),
    Spec.splitLines.go (a ++ rest) cur acc = Spec.splitLines.go rest (a.reverse ++ cur) acc
  | [], _, rest, cur, acc => rfl
  | c :: a, h, rest, cur, acc => by
    have hc : (c == 0x0A) = false := by
      have := h c (by simp)
      simpa using this
    rw [List.cons_append, Spec.splitLines.go]
    simp only [hc, Bool.false_eq_true, if_false]
    rw [go_noLF a (fun d hd => h d (by simp [hd])) rest (c :: cur) acc]
    simp

theorem go_tailText : ∀ (ls : List (List UInt8)), (∀ l ∈ ls, NoLF l) → ∀ (cur : List UInt8) (acc : List (List UInt8)),
    Spec.splitLines.go (tailText ls) cur acc = (cur.reverse :: acc).reverse ++ ls
  | [], _, cur, acc => by simp [tailText, Spec.splitLines.go]
  | a :: ls, h, cur, acc => by
    rw [tailText, Spec.splitLines.go]
    simp only [beq_self_eq_true, if_true]
    rw [go_noLF a (h a (by simp)), go_tailText ls (fun l hl => h l (by simp [hl]))]
    simp

theorem splitLines_join (a : List UInt8) (ls : List (List UInt8)) (ha : NoLF a) (h : ∀ l ∈ ls, NoLF l) :
    Spec.splitLines (a ++ tailText ls) = a :: ls := by
  unfold Spec.splitLines
  rw [go_noLF a ha, go_tailText ls h]
  simp

end SJ.RenderParse
