import SJ.Proofs.GoDeleteLemmas
import SJ.Proofs.GoPJForEach
set_option linter.unusedVariables false
set_option linter.unusedSimpArgs false
/-
GoFindLemmas — vocabulary and call lemmas for `GoFind.lean` (`Object.FindKey`, `Object.FindPath`,
`Iter.AdvanceIter#self`).

* `OutPres`/`PS`/`PL`: a syntactic property, proved compositionally — a statement list leaves the tape and a given
  set of variables alone, whatever its outcome (needed where `SimIter` says nothing: the store in which `AdvanceIter`
  returns an error, and the shared buffers in the store in which it succeeds).  `PL_advanceIter`, `PL_advanceIterSelf`.
* `Iter.advanceIterSelf`: the exact meaning of `i.AdvanceIter(i)` (one object), `advanceIterSelf_exec` (the tree against
  it, on any store), `advanceIterSelf_model` (against the hand model's `advanceIter pj i i` followed by its selection).
* `advanceIter_facts`: a step of the model's `advanceIter` that returns an element moves forward and restricts.
* the calls of the two loops from a store holding the local iterator `tmp` (`ItInv`): `callSelf_run`, `callAID_run`,
  `callAdvance_run` (`.call`, result discarded).
* the pieces of the loop bodies in continuation style, parametrised by the `return` expressions.
-/
namespace SJ.GoFind
open SJ SJ.GoSem SJ.Generated SJ.GoIter SJ.GoObject SJ.GoDelete SJ.GoPJForEach

/-! ## statements that leave the tape and some variables alone -/

/-- the state an outcome carries has the tape of `s` and agrees with `s` on the variables `K` -/
def OutPres (K : List String) (s : St) : Out → Prop
  | .normal s' | .brk s' | .cont s' | .ret s' _ => s'.tape = s.tape ∧ ∀ k ∈ K, s'.env.get k = s.env.get k
  | _ => True

theorem OutPres.mono {K : List String} {s s' : St} (h1 : s'.tape = s.tape) (h2 : ∀ k ∈ K, s'.env.get k = s.env.get k) :
    ∀ {o : Out}, OutPres K s' o → OutPres K s o
  | .normal _, h | .brk _, h | .cont _, h | .ret _ _, h =>
    ⟨h.1.trans h1, fun k hk => (h.2 k hk).trans (h2 k hk)⟩
  | .panic, _ | .diverge, _ | .stuck _, _ => trivial

theorem OutPres.ofE (K : List String) (s : St) (o : EOut) : OutPres K s (ofE o) := by cases o <;> trivial

def PS (K : List String) (st : Stmt) : Prop := ∀ fuel s, OutPres K s (exec1 goFuns fuel st s)
def PL (K : List String) (l : List Stmt) : Prop := ∀ fuel s, OutPres K s (exec goFuns fuel l s)

theorem PL.nil (K : List String) : PL K [] := by
  intro fuel s; rw [exec]; exact ⟨rfl, fun _ _ => rfl⟩

theorem PL.cons {K : List String} {st : Stmt} {rest : List Stmt} (h1 : PS K st) (h2 : PL K rest) : PL K (st :: rest) := by
  intro fuel s
  rw [exec]
  have := h1 fuel s
  revert this
  cases exec1 goFuns fuel st s <;> intro this <;> try exact this
  exact OutPres.mono this.1 this.2 (h2 fuel _)

theorem PS.assign {K : List String} (n : String) (e : Expr) (hn : n ∉ K) : PS K (.assign n e) := by
  intro fuel s
  rw [exec1]
  split
  · exact ⟨rfl, fun k hk => Env.get_set_ne _ _ (fun h => hn (h ▸ hk))⟩
  · exact OutPres.ofE _ _ _

theorem PS.ret {K : List String} (es : List Expr) : PS K (.ret es) := by
  intro fuel s
  rw [exec1]
  split
  · exact ⟨rfl, fun _ _ => rfl⟩
  · exact OutPres.ofE _ _ _

theorem PS.brk {K : List String} : PS K .brk := by intro fuel s; rw [exec1]; exact ⟨rfl, fun _ _ => rfl⟩
theorem PS.cont {K : List String} : PS K .cont := by intro fuel s; rw [exec1]; exact ⟨rfl, fun _ _ => rfl⟩

theorem PS.setLen {K : List String} (b : String) (e : Expr) (hb : b ++ ".lim" ∉ K) : PS K (.setLen b e) := by
  intro fuel s
  rw [exec1]
  split
  · split
    · split
      · exact ⟨rfl, fun k hk => Env.get_set_ne _ _ (fun h => hb (h ▸ hk))⟩
      · trivial
    · trivial
  · trivial
  · exact OutPres.ofE _ _ _

theorem copyFields_get_ne (from_ : Env) (p q : String) : ∀ (fs : List String) (to e' : Env),
    copyFields from_ p to q fs = some e' → ∀ k, (∀ f ∈ fs, q ++ "." ++ f ≠ k) → e'.get k = to.get k := by
  intro fs
  induction fs with
  | nil => intro to e' h k _; simp only [copyFields, Option.some.injEq] at h; subst h; rfl
  | cons f r ih =>
    intro to e' h k hk
    rw [copyFields] at h
    split at h
    · rw [ih _ _ h k (fun g hg => hk g (by simp [hg])), Env.get_set_ne _ _ (hk f (by simp))]
    · cases h

theorem PS.copyStruct {K : List String} (d src : String) (hd : ∀ f ∈ iterFields, d ++ "." ++ f ∉ K) :
    PS K (.copyStruct d src) := by
  intro fuel s
  rw [exec1]
  split
  · next e he =>
    exact ⟨rfl, fun k hk => copyFields_get_ne _ _ _ _ _ _ he k (fun f hf h => hd f hf (h ▸ hk))⟩
  · trivial

theorem PS.call {K : List String} (r fn : String) (a : List Expr) (fd : FunDef) (hf : goFuns fn = some fd)
    (hb : PL [] fd.body) (hr : ∀ f ∈ iterFields, r ++ "." ++ f ∉ K) : PS K (.call r fn a) := by
  intro fuel s
  cases fuel with
  | zero => rw [exec1]; trivial
  | succ fuel =>
    rw [exec1, hf]
    simp only []
    split
    · exact OutPres.ofE _ _ _
    · split
      · trivial
      · split
        · trivial
        · next vs e0 he0 e1 he1 =>
          have hbody := hb fuel ⟨e1, s.tape⟩
          revert hbody
          generalize exec goFuns fuel fd.body ⟨e1, s.tape⟩ = o
          intro hbody
          cases o with
          | normal s' =>
            simp only []
            split
            · next e2 he2 =>
              exact ⟨hbody.1, fun k hk => copyFields_get_ne _ _ _ _ _ _ he2 k (fun f hf h => hr f hf (h ▸ hk))⟩
            · trivial
          | ret s' vs' =>
            simp only []
            split
            · next e2 he2 =>
              exact ⟨hbody.1, fun k hk => copyFields_get_ne _ _ _ _ _ _ he2 k (fun f hf h => hr f hf (h ▸ hk))⟩
            · trivial
          | brk _ => trivial
          | cont _ => trivial
          | panic => trivial
          | diverge => trivial
          | stuck _ => trivial

theorem PS.ite {K : List String} (c : Expr) {t e : List Stmt} (h1 : PL K t) (h2 : PL K e) : PS K (.ite c t e) := by
  intro fuel s
  rw [exec1]
  split
  · exact h1 fuel s
  · exact h2 fuel s
  · trivial
  · exact OutPres.ofE _ _ _

theorem PS.loop {K : List String} {body : List Stmt} (h : PL K body) : PS K (.loop body) := by
  intro fuel
  induction fuel with
  | zero => intro s; rw [exec1]; trivial
  | succ fuel ih =>
    intro s
    rw [exec1]
    have := h fuel s
    revert this
    cases exec goFuns fuel body s <;> intro this <;> try exact this
    · exact OutPres.mono this.1 this.2 (ih _)
    · exact OutPres.mono this.1 this.2 (ih _)

theorem PCases {K : List String} : ∀ (cases : List (List Expr × List Stmt)) (dflt : List Stmt),
    (∀ c ∈ cases, PL K c.2) → PL K dflt → ∀ fuel v s, OutPres K s (execCases goFuns fuel v cases dflt s) := by
  intro cases
  induction cases with
  | nil => intro dflt _ hd fuel v s; rw [execCases]; exact hd fuel s
  | cons c rest ih =>
    intro dflt hc hd fuel v s
    obtain ⟨labels, body⟩ := c
    rw [execCases]
    split
    · split
      · exact hc (labels, body) (by simp) fuel s
      · exact ih dflt (fun c hc' => hc c (by simp [hc'])) hd fuel v s
    · exact OutPres.ofE _ _ _

theorem PS.switch {K : List String} (e : Expr) (cases : List (List Expr × List Stmt)) (dflt : List Stmt)
    (hc : ∀ c ∈ cases, PL K c.2) (hd : PL K dflt) : PS K (.switch e cases dflt) := by
  intro fuel s
  rw [exec1]
  split
  · exact PCases cases dflt hc hd fuel _ s
  · exact OutPres.ofE _ _ _

theorem PL_moveToEnd : PL [] goIter_moveToEnd.body := by
  unfold goIter_moveToEnd
  repeat (first
    | exact PL.nil _
    | apply PL.cons
    | (apply PS.assign; decide))

theorem PL_calcNext : PL [] goIter_calcNext.body := by
  unfold goIter_calcNext
  apply PL.cons
  · apply PS.assign; decide
  apply PL.cons
  · apply PS.switch
    · intro c hc
      simp only [List.mem_cons, List.not_mem_nil, or_false] at hc
      rcases hc with rfl | rfl
      · exact PL.cons (PS.assign _ _ (by decide)) (PL.nil _)
      · exact PL.cons (PS.ite _ (PL.cons (PS.assign _ _ (by decide)) (PL.nil _)) (PL.nil _)) (PL.nil _)
    · exact PL.nil _
  · exact PL.nil _

theorem goFuns_calcNext : goFuns "Iter.calcNext" = some goIter_calcNext := by simp [goFuns]
theorem goFuns_moveToEnd : goFuns "Iter.moveToEnd" = some goIter_moveToEnd := by simp [goFuns]

/-- the variables of a caller that `AdvanceIter` must not touch -/
def bufKeys : List String := ["Strings.B", "Message"]

theorem PL_advanceIter : PL bufKeys goIter_AdvanceIter.body := by
  unfold goIter_AdvanceIter
  repeat (first
    | exact PL.nil _
    | apply PL.cons
    | (apply PS.assign; decide) | apply PS.ret | exact PS.brk | exact PS.cont | (apply PS.setLen; decide)
    | (apply PS.copyStruct; decide)
    | exact PS.call _ _ _ _ goFuns_calcNext PL_calcNext (by decide)
    | exact PS.call _ _ _ _ goFuns_moveToEnd PL_moveToEnd (by decide)
    | apply PS.ite | apply PS.loop)

theorem PL_advanceIterSelf : PL bufKeys goIter_AdvanceIter_self.body := by
  unfold goIter_AdvanceIter_self
  repeat (first
    | exact PL.nil _
    | apply PL.cons
    | (apply PS.assign; decide) | apply PS.ret | exact PS.brk | exact PS.cont | (apply PS.setLen; decide)
    | (apply PS.copyStruct; decide)
    | exact PS.call _ _ _ _ goFuns_calcNext PL_calcNext (by decide)
    | exact PS.call _ _ _ _ goFuns_moveToEnd PL_moveToEnd (by decide)
    | apply PS.ite | apply PS.loop)

theorem KL_advanceIterSelf : KL goIter_AdvanceIter_self.body := by
  unfold goIter_AdvanceIter_self
  repeat (first
    | exact KL.nil
    | apply KL.cons
    | apply KS.assign | apply KS.ret | exact KS.brk | exact KS.cont | apply KS.setLen | apply KS.copyStruct
    | apply KS.call | apply KS.ite | apply KS.loop)

/-! ## `i.AdvanceIter(i)`: the destination IS the receiver -/

/-- what `i.AdvanceIter(i)` does with the live word its loop stopped at: the ONE object afterwards, and the type.
    (`calcNext(false)`, `iEnd`, `typ`, no copy, `calcNext(true)` on the same object, restriction to `iEnd`.) -/
def selfTailModel (i1 : Iter) : Res (Iter × UInt8) :=
  let i2 := i1.calcNext false
  if i2.addNext < 0 then .error .generic
  else
    let iEnd := i2.off + i2.addNext.toNat
    let d := i2.calcNext true
    if d.addNext < 0 then .error .generic
    else if iEnd > d.lim then .error .generic
    else .ok ({ d with lim := iEnd }, tagToType i2.t)

/-- the exact meaning of `i.AdvanceIter(i)` (`Iter.AdvanceIter#self`): the single object afterwards and the type -/
def advanceIterSelf (pj : PJ) (i : Iter) : Res (Iter × UInt8) := do
  let o ← i.bump
  let (i1, live) ← Iter.advanceIterLoop pj i o
  if !live then .ok (i1, typeNone)
  else selfTailModel i1

/-- outcome of `Iter.AdvanceIter#self` against `advanceIterSelf` -/
def SimSelf (tape : Array UInt64) (o : Out) (r : Res (Iter × UInt8)) : Prop :=
  match r with
  | .ok (i', typ) => ∃ s, o = .ret s [.u8 typ, .bool false] ∧ s.tape = tape ∧ iterAt s.env "i" = some i'
  | .error _ => ∃ s v, o = .ret s [v, .bool true]
  | .panic => o = .panic
  | .diverge => False

theorem SimSelf.final {tape : Array UInt64} {o : Out} {r : Res (Iter × UInt8)} (h : SimSelf tape o r) :
    Out.final o = true := by
  unfold SimSelf at h
  split at h
  · obtain ⟨s, h, _⟩ := h; rw [h]; rfl
  · obtain ⟨s, v, h⟩ := h; rw [h]; rfl
  · rw [h]; rfl
  · exact h.elim

section execs
attribute [local simp] exec exec1 execCases evalE evalEs isOneOf binop convert ofE copyFields bindParams
  iterFields runFun tblLookup Env.get_set

def selfSegB : List Stmt := ((afterLoop goIter_AdvanceIter_self.body).drop 1).take 4
def selfSegD : List Stmt := (afterLoop goIter_AdvanceIter_self.body).drop 6

theorem self_tail_split : afterLoop goIter_AdvanceIter_self.body =
    .call "i" "Iter.calcNext" [.bool false] :: (selfSegB ++ .call "i" "Iter.calcNext" [.bool true] :: selfSegD) := rfl

theorem self_body_split : goIter_AdvanceIter_self.body =
    .assign "i.off" (.bin .add (.v "i.off") (.v "i.addNext")) ::
      .loop (firstLoop goIter_AdvanceIter.body) :: afterLoop goIter_AdvanceIter_self.body := rfl

theorem self_segB (e1 : Env) (tape : Array UInt64) (f : Nat) (i2 : Iter) (hI : iterAt e1 "i" = some i2) :
    (i2.addNext < 0 → ∃ s', exec goFuns (f + 1) selfSegB ⟨e1, tape⟩ = .ret s' [.u8 0, .bool true]) ∧
    (¬ i2.addNext < 0 → exec goFuns (f + 1) selfSegB ⟨e1, tape⟩ =
      .normal ⟨(e1.set "iEnd" (.int ((i2.off : Int) + i2.addNext))).set "typ" (.u8 (tagToType i2.t)), tape⟩) := by
  obtain ⟨h1, h2, h3, h4, h5⟩ := iterAt_get_i _ _ hI
  simp only [selfSegB, goIter_AdvanceIter_self, afterLoop, List.drop, List.take]
  constructor
  · intro hneg
    simp [h1, h2, h3, h4, h5, hneg, goFuns, goIter_moveToEnd, Env.set, Env.get]
  · intro hneg
    simp [h1, h2, h3, h4, h5, hneg, tagToType]

theorem self_segD (e3 : Env) (tape : Array UInt64) (f : Nat) (d : Iter) (iEnd : Int) (typ : UInt8)
    (hI : iterAt e3 "i" = some d) (hE : e3.get "iEnd" = some (.int iEnd))
    (hT : e3.get "typ" = some (.u8 typ)) (h0 : 0 ≤ iEnd) :
    exec goFuns (f + 1) selfSegD ⟨e3, tape⟩ =
      if d.addNext < 0 then .ret ⟨setIter e3 "i" d.moveToEnd, tape⟩ [.u8 0, .bool true]
      else if iEnd > d.lim then .ret ⟨e3, tape⟩ [.u8 0, .bool true]
      else .ret ⟨e3.set "i.lim" (.int iEnd), tape⟩ [.u8 typ, .bool false] := by
  obtain ⟨h1, h2, h3, h4, h5⟩ := iterAt_get_i _ _ hI
  simp only [selfSegD, goIter_AdvanceIter_self, afterLoop, List.drop]
  by_cases hneg : d.addNext < 0
  · simp [h1, h2, h3, h4, h5, hE, hT, hneg, goFuns, goIter_moveToEnd, Env.set, Env.get, setIter,
      Iter.moveToEnd, tagEnd]
  · by_cases hb : iEnd > d.lim
    · simp [h1, h2, h3, h4, h5, hE, hT, hneg, hb]
    · have hle : iEnd ≤ (d.lim : Int) := by omega
      simp [h1, h2, h3, h4, h5, hE, hT, hneg, hb, h0, hle]

theorem self_tail (s : St) (i1 : Iter) (f : Nat) (hI : iterAt s.env "i" = some i1) (hcur : i1.cur.toNat < 2^56) :
    SimSelf s.tape (exec goFuns (f + 1) (afterLoop goIter_AdvanceIter_self.body) s) (selfTailModel i1) := by
  rw [self_tail_split, exec, call_calcNext_i s i1 false f hI (by omega)]
  simp only []
  unfold selfTailModel
  have hcur2 : (i1.calcNext false).cur.toNat < 2^56 := by
    rw [(calcNext_fields i1 false).2.2.1]; exact hcur
  generalize i1.calcNext false = i2 at hcur2 ⊢
  have hI1 : iterAt (setIter s.env "i" i2) "i" = some i2 := iterAt_setIter_i _ _
  generalize setIter s.env "i" i2 = e1 at hI1 ⊢
  rw [exec_append]
  obtain ⟨hB1, hB2⟩ := self_segB e1 s.tape f i2 hI1
  by_cases hneg : i2.addNext < 0
  · obtain ⟨s', hx⟩ := hB1 hneg
    rw [hx]
    simp only [hneg, if_true, SimSelf]
    exact ⟨s', _, rfl⟩
  · rw [hB2 hneg]
    simp only []
    have hI2 : iterAt ((e1.set "iEnd" (.int ((i2.off : Int) + i2.addNext))).set "typ" (.u8 (tagToType i2.t))) "i" =
        some i2 := by
      simp (disch := decide) only [iterAt_set_ne, hI1]
    rw [exec, call_calcNext_i _ i2 true f hI2 (by omega)]
    simp only []
    have hI3 := iterAt_setIter_i ((e1.set "iEnd" (.int ((i2.off : Int) + i2.addNext))).set "typ"
      (.u8 (tagToType i2.t))) (i2.calcNext true)
    have hE3 : (setIter ((e1.set "iEnd" (.int ((i2.off : Int) + i2.addNext))).set "typ"
        (.u8 (tagToType i2.t))) "i" (i2.calcNext true)).get "iEnd" = some (.int ((i2.off : Int) + i2.addNext)) := by
      rw [get_setIter_ne _ _ _ _ (by decide)]
      simp [Env.get_set]
    have hT3 : (setIter ((e1.set "iEnd" (.int ((i2.off : Int) + i2.addNext))).set "typ"
        (.u8 (tagToType i2.t))) "i" (i2.calcNext true)).get "typ" = some (.u8 (tagToType i2.t)) := by
      rw [get_setIter_ne _ _ _ _ (by decide)]
      simp [Env.get_set]
    generalize setIter ((e1.set "iEnd" (.int ((i2.off : Int) + i2.addNext))).set "typ"
        (.u8 (tagToType i2.t))) "i" (i2.calcNext true) = e3 at hI3 hE3 hT3 ⊢
    rw [self_segD e3 s.tape f (i2.calcNext true) _ _ hI3 hE3 hT3 (by omega)]
    generalize i2.calcNext true = d at hI3 ⊢
    simp only [hneg, if_false]
    by_cases hdn : d.addNext < 0
    · simp only [hdn, if_true, SimSelf]
      exact ⟨_, _, rfl⟩
    · simp only [hdn, if_false]
      by_cases hb : (i2.off : Int) + i2.addNext > d.lim
      · have hb' : i2.off + i2.addNext.toNat > d.lim := by omega
        simp only [hb, hb', if_true, SimSelf]
        exact ⟨_, _, rfl⟩
      · have hb' : ¬ i2.off + i2.addNext.toNat > d.lim := by omega
        simp only [hb, hb', if_false, SimSelf]
        obtain ⟨d1, d2, d3, d4, d5⟩ := iterAt_get_i _ _ hI3
        refine ⟨_, rfl, rfl, ?_⟩
        apply iterAt_of_gets <;> simp [d1, d2, d3, d4]
        omega

/-- **`Iter.AdvanceIter#self` IS `advanceIterSelf`**, from any store that holds the receiver -/
theorem advanceIterSelf_exec (pj : PJ) (i : Iter) (e00 : Env) (hl : i.lim ≤ pj.tape.size) (fuel : Nat)
    (hf : fuelFor i ≤ fuel) (hI00 : iterAt e00 "i" = some i) :
    SimSelf pj.tape (exec goFuns fuel goIter_AdvanceIter_self.body ⟨e00, pj.tape⟩) (advanceIterSelf pj i) := by
  obtain ⟨g1, g2, g3, g4, g5⟩ := iterAt_get_i _ _ hI00
  have h1 : exec1 goFuns fuel (.assign "i.off" (.bin .add (.v "i.off") (.v "i.addNext"))) ⟨e00, pj.tape⟩ =
      .normal ⟨e00.set "i.off" (.int ((i.off : Int) + i.addNext)), pj.tape⟩ := by
    simp [exec1, evalE, binop, g1, g2]
  unfold fuelFor at hf
  obtain ⟨f, rfl⟩ : ∃ f, fuel = f + 2 := ⟨fuel - 2, by omega⟩
  rw [self_body_split, exec, h1]
  simp only []
  unfold advanceIterSelf Iter.bump
  by_cases ho : (i.off : Int) + i.addNext < 0
  · have hp : exec1 goFuns (f + 2) (.loop (firstLoop goIter_AdvanceIter.body))
        ⟨e00.set "i.off" (.int ((i.off : Int) + i.addNext)), pj.tape⟩ = .panic := by
      rw [exec1, advanceIter_body_neg _ pj.tape (f + 1) _ i.lim ho (Env.get_set_self _ _ _)
        (by rw [Env.get_set_ne _ _ (by decide)]; exact g5)]
    rw [exec_cons_final _ _ _ _ _ (by rw [hp]; rfl), hp]
    simp [ho, SimSelf]
  · simp only [ho, if_false, Res.bind_ok]
    have hI : iterAt (e00.set "i.off" (.int ((i.off : Int) + i.addNext))) "i" =
        some { i with off := ((i.off : Int) + i.addNext).toNat } := by
      apply iterAt_of_gets <;> simp [Env.get_set, g2, g3, g4, g5]
      omega
    have hloop := advanceIter_loop pj i.lim { i with off := ((i.off : Int) + i.addNext).toNat } (f + 2) _
      (Nat.sub_le _ _) (by omega) hl hI
    simp only at hloop
    rw [advanceIterLoop_off pj _ i _ (Nat.le_refl _)]
    generalize e00.set "i.off" (.int ((i.off : Int) + i.addNext)) = e0 at hI hloop ⊢
    rw [exec]
    generalize exec1 goFuns (f + 2) (.loop (firstLoop goIter_AdvanceIter.body)) ⟨e0, pj.tape⟩ = out at hloop ⊢
    cases hg : Iter.advanceIterLoop pj { i with off := ((i.off : Int) + i.addNext).toNat } ((i.off : Int) + i.addNext).toNat with
    | ok r =>
      obtain ⟨a, l⟩ := r
      rw [hg] at hloop
      cases l with
      | true =>
        obtain ⟨s, rfl, hst, hIs, hc, hF⟩ := hloop
        simp only []
        have ht := self_tail s a (f + 1) hIs hc
        rw [hst] at ht
        simpa using ht
      | false =>
        obtain ⟨s, rfl, hst, hIs, hF⟩ := hloop
        simp only [Res.bind_ok, Bool.not_false, if_true, SimSelf, typeNone]
        exact ⟨s, rfl, hst, hIs⟩
    | panic =>
      rw [hg] at hloop
      simp only [LoopSimIter] at hloop
      subst hloop
      simp [SimSelf]
    | error e =>
      rw [hg] at hloop
      obtain ⟨s, rfl⟩ := hloop
      simp only [SimSelf]
      exact ⟨s, _, rfl⟩
    | diverge => rw [hg] at hloop; exact hloop.elim

end execs

/-! ## the model: `advanceIterSelf` against `advanceIter pj i i` and the selection made in `View.findPath` -/

/-- `advanceIterSelf` is the hand model's `i.advanceIter pj i` followed by its choice
    `if ty == typeNone then i2 else d` — except when a live word of unknown tag (`tagToType = TypeNone`) was read:
    then the Go object is the restricted `d`, the choice says `i2`. -/
theorem advanceIterSelf_model (pj : PJ) (i : Iter) :
    match i.advanceIter pj i with
    | .ok (i2, d, ty) => advanceIterSelf pj i = .ok (if ty == typeNone then i2 else d, ty) ∨
        (ty = typeNone ∧ advanceIterSelf pj i = .ok (d, ty))
    | .error _ => ∃ e', advanceIterSelf pj i = .error e'
    | .panic => advanceIterSelf pj i = .panic
    | .diverge => advanceIterSelf pj i = .diverge := by
  unfold Iter.advanceIter advanceIterSelf
  cases hb : i.bump with
  | ok o =>
    simp only [Res.bind_ok]
    cases hl : Iter.advanceIterLoop pj i o with
    | ok r =>
      obtain ⟨i1, live⟩ := r
      simp only [Res.bind_ok]
      cases live with
      | false => simp
      | true =>
        simp only [Bool.not_true, Bool.false_eq_true, if_false, selfTailModel]
        by_cases h1 : (i1.calcNext false).addNext < 0
        · simp only [h1, if_true]; exact ⟨_, rfl⟩
        · simp only [h1, if_false]
          by_cases h2 : ((i1.calcNext false).calcNext true).addNext < 0
          · simp only [h2, if_true]; exact ⟨_, rfl⟩
          · simp only [h2, if_false]
            by_cases h3 : (i1.calcNext false).off + (i1.calcNext false).addNext.toNat > ((i1.calcNext false).calcNext true).lim
            · simp only [h3, if_true]; exact ⟨_, rfl⟩
            · simp only [h3, if_false]
              by_cases ht : tagToType (i1.calcNext false).t = typeNone
              · exact Or.inr ⟨ht, trivial⟩
              · have hb' : (tagToType (i1.calcNext false).t == typeNone) = false := by simpa using ht
                exact Or.inl (by rw [hb']; rfl)
    | error e => exact ⟨_, rfl⟩
    | panic => rfl
    | diverge => rfl
  | error e => exact ⟨_, rfl⟩
  | panic => rfl
  | diverge => rfl

/-! ## the model's `advanceIter`: a step that returns an element moves forward and restricts -/

theorem advanceIterLoop_facts (pj : PJ) : ∀ (n : Nat) (i : Iter) (off : Nat), i.lim - off ≤ n →
    ∀ (i' : Iter) (b : Bool), Iter.advanceIterLoop pj i off = .ok (i', b) →
      i'.lim = i.lim ∧ (b = true → off < i'.off ∧ i'.off ≤ i.lim) := by
  intro n
  induction n with
  | zero =>
    intro i off hn i' b h
    rw [Iter.advanceIterLoop.eq_1 pj i off] at h
    by_cases he : off = i.lim
    · simp only [he, if_true, Res.ok.injEq, Prod.mk.injEq] at h
      obtain ⟨rfl, rfl⟩ := h
      exact ⟨rfl, fun h => by cases h⟩
    · have hgt : off > i.lim := by omega
      simp only [he, if_false, hgt, dif_pos] at h
      cases h
  | succ n ih =>
    intro i off hn i' b h
    rw [Iter.advanceIterLoop.eq_1 pj i off] at h
    by_cases he : off = i.lim
    · simp only [he, if_true, Res.ok.injEq, Prod.mk.injEq] at h
      obtain ⟨rfl, rfl⟩ := h
      exact ⟨rfl, fun h => by cases h⟩
    · by_cases hgt : off > i.lim
      · simp only [he, if_false, hgt, dif_pos] at h
        cases h
      · simp only [he, if_false, hgt, dif_neg, not_false_eq_true, Iter.rdT, rd] at h
        cases hr : pj.tape[off]? with
        | none => rw [hr] at h; cases h
        | some v =>
          rw [hr] at h
          simp only [Res.bind_ok] at h
          by_cases hn' : tagOf v = tagNop
          · by_cases hz : payloadOf v = 0
            · simp [hn', hz] at h
            · have hz' := payload_toNat_ne v hz
              simp only [hn', hz, beq_self_eq_true, if_true, beq_iff_eq, if_false] at h
              obtain ⟨k1, k2⟩ := ih _ _ (by simp only; omega) i' b h
              refine ⟨k1, fun hb => ?_⟩
              obtain ⟨a, c⟩ := k2 hb
              exact ⟨by omega, c⟩
          · have hb : (tagOf v == tagNop) = false := by simp [hn']
            simp only [hb, Bool.false_eq_true, if_false, Res.ok.injEq, Prod.mk.injEq] at h
            obtain ⟨rfl, rfl⟩ := h
            exact ⟨rfl, fun _ => ⟨by simp, by simp; omega⟩⟩

/-- a step of `advanceIter` that returns an element: the element starts after the old position, ends inside the old
    view, and its iterator is restricted to it -/
theorem advanceIter_facts (pj : PJ) (i dst : Iter) (h0 : 0 ≤ i.addNext) (i2 d : Iter) (ty : UInt8)
    (h : i.advanceIter pj dst = .ok (i2, d, ty)) (ht : ty ≠ typeNone) :
    d.lim ≤ i.lim ∧ i.off + i.addNext.toNat < d.off ∧ d.off ≤ d.lim ∧ 0 ≤ d.addNext := by
  unfold Iter.advanceIter Iter.bump at h
  have ho : ¬ ((i.off : Int) + i.addNext < 0) := by omega
  simp only [ho, if_false, Res.bind_ok] at h
  have hnat : ((i.off : Int) + i.addNext).toNat = i.off + i.addNext.toNat := by omega
  rw [hnat] at h
  cases hg : Iter.advanceIterLoop pj i (i.off + i.addNext.toNat) with
  | ok r =>
    obtain ⟨a, l⟩ := r
    rw [hg] at h
    simp only [Res.bind_ok] at h
    obtain ⟨k1, k2⟩ := advanceIterLoop_facts pj _ i _ (Nat.le_refl _) a l hg
    cases l with
    | false =>
      simp at h
      exact absurd h.2.2.symm ht
    | true =>
      obtain ⟨p1, p2⟩ := k2 rfl
      obtain ⟨c1, c2, c3, c4⟩ := calcNext_fields a false
      obtain ⟨e1, e2, e3, e4⟩ := calcNext_fields (a.calcNext false) true
      simp only [Bool.not_true, Bool.false_eq_true, if_false] at h
      by_cases hneg : (a.calcNext false).addNext < 0
      · simp [hneg] at h
      · simp only [hneg, if_false] at h
        by_cases hdn : ((a.calcNext false).calcNext true).addNext < 0
        · simp [hdn] at h
        · simp only [hdn, if_false] at h
          by_cases hb : (a.calcNext false).off + (a.calcNext false).addNext.toNat > ((a.calcNext false).calcNext true).lim
          · simp [hb] at h
          · simp only [hb, if_false, Res.ok.injEq, Prod.mk.injEq] at h
            obtain ⟨rfl, rfl, rfl⟩ := h
            simp only [e2, c2]
            rw [e1, c1, k1] at hb
            rw [c2] at hb
            refine ⟨by omega, p1, by omega, by omega⟩
  | panic => rw [hg] at h; cases h
  | error e => rw [hg] at h; cases h
  | diverge => rw [hg] at h; cases h

/-! ## frames: which variables a piece of code may have written -/

/-- `e'` agrees with `e` outside `L` -/
def Fr (L : List String) (e e' : Env) : Prop := ∀ k, k ∉ L → e'.get k = e.get k

theorem Fr.refl (L : List String) (e : Env) : Fr L e e := fun _ _ => rfl
theorem Fr.trans {L : List String} {a b c : Env} (h1 : Fr L a b) (h2 : Fr L b c) : Fr L a c :=
  fun k hk => (h2 k hk).trans (h1 k hk)
theorem Fr.mono {L L' : List String} {a b : Env} (h : Fr L a b) (hs : ∀ k, k ∈ L → k ∈ L') : Fr L' a b :=
  fun k hk => h k (fun hh => hk (hs k hh))
theorem Fr.set {L : List String} {a b : Env} (h : Fr L a b) (k : String) (v : Val) (hk : k ∈ L) : Fr L a (b.set k v) := by
  intro k' hk'
  have hne : k ≠ k' := by
    intro hh; subst hh; exact hk' hk
  rw [Env.get_set_ne _ _ hne]
  exact h k' hk'

theorem Fr.advEnv {L : List String} {a b : Env} (h : Fr L a b) (i' : Iter) (pj : PJ)
    (hL : ∀ k, k ∈ itKeys "tmp" → k ∈ L) : Fr L a (advEnv b "tmp" i' pj) := by
  intro k hk
  rw [get_advEnv _ _ _ _ _ (fun hh => hk (hL k hh))]
  exact h k hk

theorem Fr.setIter {L : List String} {a b : Env} (h : Fr L a b) (pfx : String) (j : Iter)
    (hL : ∀ k, k ∈ fieldsOf pfx → k ∈ L) : Fr L a (setIter b pfx j) := by
  intro k hk
  rw [get_setIter_ne _ _ _ _ (fun hh => hk (hL k hh))]
  exact h k hk

/-! ## the calls made by the two loops, from a store that holds the local iterator `tmp` -/

section calls
attribute [local simp] exec exec1 execCases evalE evalEs isOneOf binop convert ofE copyFields bindParams
  iterFields runFun tblLookup Env.get_set

/-- the frame `callFun` builds for `tmp.AdvanceIter(&tmp)` -/
def selfFrame (pj : PJ) (i : Iter) : Env := envOf "i" i ++ bufEnv pj

/-- `callFun`'s own code after the callee returned, specialised to `Iter.AdvanceIter#self` called on `tmp` -/
def backSelf (e : Env) : Out → Out
  | .ret s' rs =>
    (match copyFields s'.env "i" e "tmp" ["off", "addNext", "cur", "t", "lim"] with
     | some e2 => .ret { env := copyGlobals s'.env e2 globalVars, tape := s'.tape } rs
     | none => .stuck "receiver back")
  | .normal s' =>
    (match copyFields s'.env "i" e "tmp" ["off", "addNext", "cur", "t", "lim"] with
     | some e2 => .ret { env := copyGlobals s'.env e2 globalVars, tape := s'.tape } []
     | none => .stuck "receiver back")
  | .brk _ | .cont _ => .stuck "break outside loop"
  | o => o

theorem callFun_self (pj : PJ) (e : Env) (tape : Array UInt64) (f : Nat) (tmp : Iter) (inv : ItInv pj "tmp" tmp e) :
    callFun goFuns f "tmp" "Iter.AdvanceIter#self" [] [] ⟨e, tape⟩ =
      backSelf e (exec goFuns f goIter_AdvanceIter_self.body ⟨selfFrame pj tmp, tape⟩) := by
  obtain ⟨g1, g2, g3, g4, g5⟩ := iterAt_get_tmp _ _ inv.it
  rw [callFun]
  simp [goFuns, goIter_AdvanceIter_self, g1, g2, g3, g4, g5, inv.sb, inv.ms, copyPtrs, copyPtrsBack, copyGlobals,
    globalVars, Env.set, Env.get, selfFrame, envOf, bufEnv, -exec, -exec1]
  generalize exec goFuns f _ _ = out
  cases out <;> rfl

theorem selfFrame_i (pj : PJ) (i : Iter) : iterAt (selfFrame pj i) "i" = some i := by
  simp [selfFrame, envOf, bufEnv, Env.get, iterAt]

theorem Keeps_fields {a b : Env} (h : Keeps a b) (pfx : String) (i : Iter) (hI : iterAt a pfx = some i) :
    ∀ f ∈ ["off", "addNext", "cur", "t", "lim"], b.get (pfx ++ "." ++ f) ≠ none := by
  intro f hf
  apply h
  obtain ⟨i1, i2, i3, i4, i5⟩ := iterAt_get _ _ _ hI
  simp only [List.mem_cons, List.not_mem_nil, or_false] at hf
  rcases hf with rfl | rfl | rfl | rfl | rfl <;> simp [dotField, i1, i2, i3, i4, i5]

/-- the variables the statement `t, err := tmp.AdvanceIter(&tmp)` writes -/
def selfTouched : List String := "t" :: "err" :: itKeys "tmp"

/-- **the call statement `t, err := tmp.AdvanceIter(&tmp)`** against `advanceIterSelf` -/
theorem callSelf_run (pj : PJ) (e : Env) (F : Nat) (tmp : Iter) (inv : ItInv pj "tmp" tmp e)
    (hl : tmp.lim ≤ pj.tape.size) (hf : fuelFor tmp + 1 ≤ F) :
    match advanceIterSelf pj tmp with
    | .ok (j, ty) => exec1 goFuns F (.callAssign ["t", "err"] "tmp" "Iter.AdvanceIter#self" [] []) ⟨e, pj.tape⟩ =
        .normal ⟨((advEnv e "tmp" j pj).set "t" (.u8 ty)).set "err" (.bool false), pj.tape⟩
    | .error _ => ∃ e', exec1 goFuns F (.callAssign ["t", "err"] "tmp" "Iter.AdvanceIter#self" [] []) ⟨e, pj.tape⟩ =
          .normal ⟨e', pj.tape⟩ ∧ e'.get "err" = some (.bool true) ∧ Fr selfTouched e e'
    | .panic => exec1 goFuns F (.callAssign ["t", "err"] "tmp" "Iter.AdvanceIter#self" [] []) ⟨e, pj.tape⟩ = .panic
    | .diverge => False := by
  obtain ⟨f, rfl⟩ : ∃ f, F = f + 1 := ⟨F - 1, by omega⟩
  have hsim := advanceIterSelf_exec pj tmp (selfFrame pj tmp) hl f (by omega) (selfFrame_i pj tmp)
  have hkeep := KL_advanceIterSelf f ⟨selfFrame pj tmp, pj.tape⟩
  have hpres := PL_advanceIterSelf f ⟨selfFrame pj tmp, pj.tape⟩
  have hS0 : (selfFrame pj tmp).get "Strings.B" = some (.bytes pj.strings) := by simp [selfFrame, envOf, bufEnv, Env.get]
  have hM0 : (selfFrame pj tmp).get "Message" = some (.bytes pj.msg) := by simp [selfFrame, envOf, bufEnv, Env.get]
  rw [exec1, callFun_self pj e pj.tape f tmp inv]
  generalize exec goFuns f goIter_AdvanceIter_self.body ⟨selfFrame pj tmp, pj.tape⟩ = out at hsim hkeep hpres ⊢
  cases hr : advanceIterSelf pj tmp with
  | ok r =>
    obtain ⟨j, ty⟩ := r
    rw [hr] at hsim
    obtain ⟨s', rfl, hst, hI'⟩ := hsim
    obtain ⟨a1, a2, a3, a4, a5⟩ := iterAt_get_i _ _ hI'
    have hS' : s'.env.get "Strings.B" = some (.bytes pj.strings) := by rw [hpres.2 _ (by decide), hS0]
    have hM' : s'.env.get "Message" = some (.bytes pj.msg) := by rw [hpres.2 _ (by decide), hM0]
    simp [backSelf, a1, a2, a3, a4, a5, hS', hM', copyGlobals, globalVars, assignTargets, setIter, advEnv, hst]
  | error err =>
    rw [hr] at hsim
    obtain ⟨s', v, rfl⟩ := hsim
    simp only []
    have hk : Keeps (selfFrame pj tmp) s'.env := hkeep
    obtain ⟨e2, he2, _⟩ := copyFields_defined s'.env "i" "tmp" _ e (Keeps_fields hk "i" tmp (selfFrame_i pj tmp))
    refine ⟨((copyGlobals s'.env e2 globalVars).set "t" v).set "err" (.bool true), ?_, by simp [Env.get_set], ?_⟩
    · simp [backSelf, he2, assignTargets, hpres.1, -copyFields]
    · intro k hk'
      simp only [selfTouched, itKeys, fieldsOf, List.mem_cons, List.not_mem_nil, or_false, not_or,
        String.reduceAppend] at hk'
      obtain ⟨k1, k2, k3, k4, k5, k6, k7, k8, k9⟩ := hk'
      rw [Env.get_set_ne _ _ (Ne.symm k2), Env.get_set_ne _ _ (Ne.symm k1),
        copyGlobals_get_ne _ _ _ _ (by simp [globalVars]; exact ⟨k3, k4⟩),
        copyFields_get_ne _ _ _ _ _ _ he2 k (by
          intro g hg
          simp only [List.mem_cons, List.not_mem_nil, or_false] at hg
          rcases hg with rfl | rfl | rfl | rfl | rfl <;> simp <;> exact Ne.symm ‹_›)]
  | panic =>
    rw [hr] at hsim
    simp only [SimSelf] at hsim
    subst hsim
    rfl
  | diverge => rw [hr] at hsim; exact hsim

/-- the frame `callFun` builds for `tmp.AdvanceIter(&dst.Iter)` -/
def aidFrame (pj : PJ) (i d : Iter) : Env := envOf "i" i ++ envOf "dst" d ++ bufEnv pj ++ [("i!=dst", .bool true)]

/-- `callFun`'s own code after the callee returned, specialised to `AdvanceIter` called on `tmp` with `&dst.Iter` -/
def backAID (e : Env) : Out → Out
  | .ret s' rs =>
    (match copyFields s'.env "i" e "tmp" ["off", "addNext", "cur", "t", "lim"] with
     | some e2 =>
       (match copyPtrsBack s'.env e2 ["dst.Iter"] [("dst", ["off", "addNext", "cur", "t", "lim"])] with
        | some e3 => .ret { env := copyGlobals s'.env e3 globalVars, tape := s'.tape } rs
        | none => .stuck "pointer arguments back")
     | none => .stuck "receiver back")
  | .normal s' =>
    (match copyFields s'.env "i" e "tmp" ["off", "addNext", "cur", "t", "lim"] with
     | some e2 =>
       (match copyPtrsBack s'.env e2 ["dst.Iter"] [("dst", ["off", "addNext", "cur", "t", "lim"])] with
        | some e3 => .ret { env := copyGlobals s'.env e3 globalVars, tape := s'.tape } []
        | none => .stuck "pointer arguments back")
     | none => .stuck "receiver back")
  | .brk _ | .cont _ => .stuck "break outside loop"
  | o => o

theorem iterAt_get_dstIter (e : Env) (i : Iter) (h : iterAt e "dst.Iter" = some i) :
    e.get "dst.Iter.off" = some (.int i.off) ∧ e.get "dst.Iter.addNext" = some (.int i.addNext) ∧
    e.get "dst.Iter.cur" = some (.u64 i.cur) ∧ e.get "dst.Iter.t" = some (.u8 i.t) ∧
    e.get "dst.Iter.lim" = some (.int i.lim) :=
  iterAt_get e "dst.Iter" i h

theorem callFun_aid (pj : PJ) (e : Env) (tape : Array UInt64) (f : Nat) (tmp D : Iter) (inv : ItInv pj "tmp" tmp e)
    (hD : iterAt e "dst.Iter" = some D) :
    callFun goFuns f "tmp" "Iter.AdvanceIter" ["dst.Iter"] [.bool true] ⟨e, tape⟩ =
      backAID e (exec goFuns f goIter_AdvanceIter.body ⟨aidFrame pj tmp D, tape⟩) := by
  obtain ⟨g1, g2, g3, g4, g5⟩ := iterAt_get_tmp _ _ inv.it
  obtain ⟨d1, d2, d3, d4, d5⟩ := iterAt_get_dstIter _ _ hD
  rw [callFun]
  simp [goFuns, goIter_AdvanceIter, g1, g2, g3, g4, g5, d1, d2, d3, d4, d5, inv.sb, inv.ms, copyPtrs, copyGlobals,
    globalVars, Env.set, Env.get, aidFrame, envOf, bufEnv, -exec, -exec1]
  generalize exec goFuns f _ _ = out
  cases out <;> rfl

theorem aidFrame_i (pj : PJ) (i d : Iter) : iterAt (aidFrame pj i d) "i" = some i := by
  simp [aidFrame, envOf, bufEnv, Env.get, iterAt]

theorem aidFrame_dst (pj : PJ) (i d : Iter) : iterAt (aidFrame pj i d) "dst" = some d := by
  simp [aidFrame, envOf, bufEnv, Env.get, iterAt]

/-- the variables the statement `dst.Type, err = tmp.AdvanceIter(&dst.Iter)` writes -/
def aidTouched : List String := "dst.Type" :: "err" :: (itKeys "tmp" ++ fieldsOf "dst.Iter")

/-- the caller's store after a successful `dst.Type, err = tmp.AdvanceIter(&dst.Iter)` -/
def aidEnv (e : Env) (pj : PJ) (i' d' : Iter) (typ : UInt8) : Env :=
  ((((setIter (setIter e "tmp" i') "dst.Iter" d').set "Strings.B" (.bytes pj.strings)).set "Message"
    (.bytes pj.msg)).set "dst.Type" (.u8 typ)).set "err" (.bool false)

/-- **the call statement `dst.Type, err = tmp.AdvanceIter(&dst.Iter)`** against the model's `advanceIter` -/
theorem callAID_run (pj : PJ) (e : Env) (F : Nat) (tmp D : Iter) (inv : ItInv pj "tmp" tmp e)
    (hD : iterAt e "dst.Iter" = some D) (hl : tmp.lim ≤ pj.tape.size) (hf : fuelFor tmp + 1 ≤ F) :
    match tmp.advanceIter pj D with
    | .ok (i', d', typ) => exec1 goFuns F
          (.callAssign ["dst.Type", "err"] "tmp" "Iter.AdvanceIter" ["dst.Iter"] [(.bool true)]) ⟨e, pj.tape⟩ =
        .normal ⟨aidEnv e pj i' d' typ, pj.tape⟩
    | .error _ => ∃ e', exec1 goFuns F
          (.callAssign ["dst.Type", "err"] "tmp" "Iter.AdvanceIter" ["dst.Iter"] [(.bool true)]) ⟨e, pj.tape⟩ =
          .normal ⟨e', pj.tape⟩ ∧ e'.get "err" = some (.bool true) ∧ Fr aidTouched e e'
    | .panic => exec1 goFuns F
          (.callAssign ["dst.Type", "err"] "tmp" "Iter.AdvanceIter" ["dst.Iter"] [(.bool true)]) ⟨e, pj.tape⟩ = .panic
    | .diverge => False := by
  obtain ⟨f, rfl⟩ : ∃ f, F = f + 1 := ⟨F - 1, by omega⟩
  have hN0 : (aidFrame pj tmp D).get "i!=dst" = some (.bool true) := by simp [aidFrame, envOf, bufEnv, Env.get]
  have hsim := advanceIter_exec pj tmp D (aidFrame pj tmp D) hl f (by omega) (aidFrame_i pj tmp D)
    (aidFrame_dst pj tmp D) hN0
  have hkeep := KL_advanceIter f ⟨aidFrame pj tmp D, pj.tape⟩
  have hpres := PL_advanceIter f ⟨aidFrame pj tmp D, pj.tape⟩
  have hS0 : (aidFrame pj tmp D).get "Strings.B" = some (.bytes pj.strings) := by simp [aidFrame, envOf, bufEnv, Env.get]
  have hM0 : (aidFrame pj tmp D).get "Message" = some (.bytes pj.msg) := by simp [aidFrame, envOf, bufEnv, Env.get]
  rw [exec1, callFun_aid pj e pj.tape f tmp D inv hD]
  generalize exec goFuns f goIter_AdvanceIter.body ⟨aidFrame pj tmp D, pj.tape⟩ = out at hsim hkeep hpres ⊢
  cases hr : tmp.advanceIter pj D with
  | ok r =>
    obtain ⟨i', d', typ⟩ := r
    rw [hr] at hsim
    obtain ⟨s', rfl, hst, hI', hD'⟩ := hsim
    obtain ⟨a1, a2, a3, a4, a5⟩ := iterAt_get_i _ _ hI'
    obtain ⟨b1, b2, b3, b4, b5⟩ := iterAt_get_dst _ _ hD'
    have hS' : s'.env.get "Strings.B" = some (.bytes pj.strings) := by rw [hpres.2 _ (by decide), hS0]
    have hM' : s'.env.get "Message" = some (.bytes pj.msg) := by rw [hpres.2 _ (by decide), hM0]
    simp [backAID, a1, a2, a3, a4, a5, b1, b2, b3, b4, b5, hS', hM', copyPtrsBack, copyGlobals, globalVars,
      assignTargets, setIter, aidEnv, hst]
  | error err =>
    rw [hr] at hsim
    obtain ⟨s', v, rfl⟩ := hsim
    simp only []
    have hk : Keeps (aidFrame pj tmp D) s'.env := hkeep
    obtain ⟨e2, he2, _⟩ := copyFields_defined s'.env "i" "tmp" _ e (Keeps_fields hk "i" tmp (aidFrame_i pj tmp D))
    obtain ⟨e3, he3, _⟩ := copyFields_defined s'.env "dst" "dst.Iter" _ e2
      (Keeps_fields hk "dst" D (aidFrame_dst pj tmp D))
    refine ⟨((copyGlobals s'.env e3 globalVars).set "dst.Type" v).set "err" (.bool true), ?_, by simp [Env.get_set], ?_⟩
    · simp [backAID, he2, he3, copyPtrsBack, assignTargets, hpres.1, -copyFields]
    · intro k hk'
      simp only [aidTouched, itKeys, fieldsOf, List.mem_cons, List.mem_append, List.not_mem_nil, or_false, not_or,
        String.reduceAppend] at hk'
      obtain ⟨k1, k2, ⟨k3, k4, k5, k6, k7, k8, k9⟩, q1, q2, q3, q4, q5⟩ := hk'
      rw [Env.get_set_ne _ _ (Ne.symm k2), Env.get_set_ne _ _ (Ne.symm k1),
        copyGlobals_get_ne _ _ _ _ (by simp [globalVars]; exact ⟨k3, k4⟩),
        copyFields_get_ne _ _ _ _ _ _ he3 k (by
          intro g hg
          simp only [List.mem_cons, List.not_mem_nil, or_false] at hg
          rcases hg with rfl | rfl | rfl | rfl | rfl <;> simp <;> exact Ne.symm ‹_›),
        copyFields_get_ne _ _ _ _ _ _ he2 k (by
          intro g hg
          simp only [List.mem_cons, List.not_mem_nil, or_false] at hg
          rcases hg with rfl | rfl | rfl | rfl | rfl <;> simp <;> exact Ne.symm ‹_›)]
  | panic =>
    rw [hr] at hsim
    simp only [SimIter] at hsim
    subst hsim
    rfl
  | diverge => rw [hr] at hsim; exact hsim

theorem aidEnv_inv (e : Env) (pj : PJ) (i' d' : Iter) (typ : UInt8) : ItInv pj "tmp" i' (aidEnv e pj i' d' typ) := by
  refine ⟨?_, by simp [aidEnv, Env.get_set], by simp [aidEnv, Env.get_set]⟩
  apply iterAt_of_gets <;> simp [aidEnv, setIter, Env.get_set]

theorem aidEnv_dst (e : Env) (pj : PJ) (i' d' : Iter) (typ : UInt8) :
    iterAt (aidEnv e pj i' d' typ) "dst.Iter" = some d' := by
  apply iterAt_of_gets <;> simp [aidEnv, setIter, Env.get_set]

theorem aidEnv_fr (e : Env) (pj : PJ) (i' d' : Iter) (typ : UInt8) : Fr aidTouched e (aidEnv e pj i' d' typ) := by
  intro k hk'
  simp only [aidTouched, itKeys, fieldsOf, List.mem_cons, List.mem_append, List.not_mem_nil, or_false, not_or,
    String.reduceAppend] at hk'
  obtain ⟨k1, k2, ⟨k3, k4, k5, k6, k7, k8, k9⟩, q1, q2, q3, q4, q5⟩ := hk'
  simp only [aidEnv, setIter, String.reduceAppend]
  rw [Env.get_set_ne _ _ (Ne.symm k2), Env.get_set_ne _ _ (Ne.symm k1), Env.get_set_ne _ _ (Ne.symm k4),
    Env.get_set_ne _ _ (Ne.symm k3), Env.get_set_ne _ _ (Ne.symm q5), Env.get_set_ne _ _ (Ne.symm q4),
    Env.get_set_ne _ _ (Ne.symm q3), Env.get_set_ne _ _ (Ne.symm q2), Env.get_set_ne _ _ (Ne.symm q1),
    Env.get_set_ne _ _ (Ne.symm k9), Env.get_set_ne _ _ (Ne.symm k8), Env.get_set_ne _ _ (Ne.symm k7),
    Env.get_set_ne _ _ (Ne.symm k6), Env.get_set_ne _ _ (Ne.symm k5)]

/-- **the statement `tmp.Advance()`** (result discarded; `.call` copies the receiver only) -/
theorem callAdvance_run (pj : PJ) (e : Env) (F : Nat) (tmp : Iter) (hI : iterAt e "tmp" = some tmp)
    (hl : tmp.lim ≤ pj.tape.size) (hf : tmp.lim + 4 ≤ F) :
    match tmp.advance pj with
    | .ok (i', _) => exec1 goFuns F (.call "tmp" "Iter.Advance" []) ⟨e, pj.tape⟩ = .normal ⟨setIter e "tmp" i', pj.tape⟩
    | .panic => exec1 goFuns F (.call "tmp" "Iter.Advance" []) ⟨e, pj.tape⟩ = .panic
    | _ => False := by
  obtain ⟨f, rfl⟩ : ∃ f, F = f + 1 := ⟨F - 1, by omega⟩
  have hsim := advance_abs pj tmp hl (envOf "i" tmp) (iterAt_envOf tmp) f (by omega)
  obtain ⟨d1, d2, d3, d4, d5⟩ := iterAt_get_tmp _ _ hI
  have hstep : exec1 goFuns (f + 1) (.call "tmp" "Iter.Advance" []) ⟨e, pj.tape⟩ =
      match exec goFuns f goIter_Advance.body ⟨envOf "i" tmp, pj.tape⟩ with
      | .normal s' | .ret s' _ =>
        (match copyFields s'.env "i" e "tmp" iterFields with
         | some e2 => .normal { env := e2, tape := s'.tape }
         | none => .stuck "receiver back")
      | .brk _ | .cont _ => .stuck "break outside loop"
      | o => o := by
    rw [exec1]
    simp [goFuns, d1, d2, d3, d4, d5, Env.set, envOf, goIter_Advance, -exec, -exec1]
    generalize exec goFuns f _ _ = out
    cases out <;> rfl
  rw [hstep]
  generalize exec goFuns f goIter_Advance.body ⟨envOf "i" tmp, pj.tape⟩ = out at hsim ⊢
  cases hr : tmp.advance pj with
  | ok r =>
    obtain ⟨i', tg⟩ := r
    rw [hr] at hsim
    obtain ⟨e', rfl, hI', _⟩ := hsim
    obtain ⟨a1, a2, a3, a4, a5⟩ := iterAt_get_i _ _ hI'
    simp [a1, a2, a3, a4, a5, setIter]
  | panic =>
    rw [hr] at hsim
    simp only [AdvPost] at hsim
    subst hsim
    rfl
  | error _ => rw [hr] at hsim; exact hsim
  | diverge => rw [hr] at hsim; exact hsim

end calls

/-! ## `return` with unevaluated expressions, `if c { return … }` -/

/-- the outcome of `return R` -/
def retOut (R : List Expr) (s : St) : Out :=
  match evalEs s R with
  | .ok vs => .ret s vs
  | .error o => ofE o

theorem retOut_final (R : List Expr) (s : St) (k : St → Out) :
    (match retOut R s with | .normal s' => k s' | o => o) = retOut R s := by
  unfold retOut
  cases evalEs s R with
  | ok vs => rfl
  | error o => cases o <;> rfl

theorem exec_ret (f : Nat) (R : List Expr) (rest : List Stmt) (s : St) :
    exec goFuns f (.ret R :: rest) s = retOut R s := by
  rw [exec, exec1]
  unfold retOut
  cases evalEs s R with
  | ok vs => rfl
  | error o => cases o <;> rfl

/-- `if c { return R }` followed by `rest` -/
theorem exec_ite_ret (f : Nat) (c : Expr) (R : List Expr) (rest : List Stmt) (s : St) (b : Bool)
    (h : evalE s c = .val (.bool b)) :
    exec goFuns f (.ite c [.ret R] [] :: rest) s = if b then retOut R s else exec goFuns f rest s := by
  rw [exec, exec1, h]
  cases b with
  | true =>
    simp only [if_true]
    rw [exec_ret]
    exact retOut_final R s _
  | false =>
    simp only [Bool.false_eq_true, if_false]
    rw [exec]

theorem retOut_bool (b : Bool) (s : St) : retOut [.bool b] s = .ret s [.bool b] := rfl

/-- `return dst, <error>` for the flattened `*Element` -/
theorem retOut_dst (s : St) (nil : Bool) (x : Expr) (v : Val) (h : s.env.get "dst==nil" = some (.bool nil))
    (hx : evalE s x = .val v) : retOut [.not (.v "dst==nil"), x] s = .ret s [.bool (!nil), v] := by
  simp [retOut, evalEs, evalE, h, hx]

/-! ## the pieces of the two loop bodies, on any store holding `tmp` (continuation style) -/

section pieces
attribute [local simp] exec exec1 execCases evalE evalEs isOneOf binop convert ofE copyFields bindParams
  iterFields runFun tblLookup Env.get_set

/-- the variables a turn of either loop writes besides `*dst`, `key`, `path` -/
def scr : List String := ["typ", "offset", "length", "t", "name", "err"] ++ itKeys "tmp"

def headCond : Expr :=
  .lor (.bin .ne (.v "typ") (.u8 2 /- TypeString -/)) (.bin .ge (.bin .add (.v "tmp.off") (.int 1)) (.lenTape "tmp"))

/-- `typ := tmp.Advance(); if typ != TypeString || tmp.off+1 >= len(tmp.tape.Tape) { return R }` -/
def headA (R : List Expr) : List Stmt := [
  .callAssign ["typ"] "tmp" "Iter.Advance" [] [],
  .ite headCond [.ret R] []]

theorem eval_headCond (E1 : Env) (tape : Array UInt64) (tmp1 : Iter) (typ : UInt8)
    (hT : E1.get "typ" = some (.u8 typ)) (hI : iterAt E1 "tmp" = some tmp1) :
    evalE ⟨E1, tape⟩ headCond = .val (.bool (decide (typ ≠ typeString ∨ tmp1.off + 1 ≥ tmp1.lim))) := by
  obtain ⟨g1, g2, g3, g4, g5⟩ := iterAt_get_tmp _ _ hI
  by_cases h1 : typ = typeString
  · have hb1 : (typ != 2) = false := by simp [h1, typeString]
    by_cases h2 : tmp1.off + 1 ≥ tmp1.lim
    · have h2' : (tmp1.lim : Int) ≤ tmp1.off + 1 := by omega
      simp [headCond, h1, h2, h2', hb1, g1, g5, hT, typeString]
    · have h2' : ¬ (tmp1.lim : Int) ≤ tmp1.off + 1 := by omega
      simp [headCond, h1, h2, h2', hb1, g1, g5, hT, typeString]
  · have hb1 : (typ != 2) = true := by simpa [typeString] using h1
    simp [headCond, h1, hb1, hT]

theorem headA_run (pj : PJ) (e : Env) (tmp : Iter) (f : Nat) (R : List Expr) (rest : List Stmt)
    (inv : ItInv pj "tmp" tmp e) (hl : tmp.lim ≤ pj.tape.size) (hf : tmp.lim + 3 ≤ f) :
    match tmp.advance pj with
    | .ok (tmp1, typ) =>
      exec goFuns (f + 1) (headA R ++ rest) ⟨e, pj.tape⟩ =
        if typ ≠ typeString ∨ tmp1.off + 1 ≥ tmp1.lim then
          retOut R ⟨(advEnv e "tmp" tmp1 pj).set "typ" (.u8 typ), pj.tape⟩
        else exec goFuns (f + 1) rest ⟨(advEnv e "tmp" tmp1 pj).set "typ" (.u8 typ), pj.tape⟩
    | .panic => exec goFuns (f + 1) (headA R ++ rest) ⟨e, pj.tape⟩ = .panic
    | _ => False := by
  have hA := exec1_advance pj ⟨e, pj.tape⟩ "typ" "tmp" rfl tmp f hl rfl inv hf
  revert hA
  cases tmp.advance pj with
  | ok r =>
    obtain ⟨tmp1, typ⟩ := r
    intro hA
    simp only [] at hA ⊢
    have inv1 : ItInv pj "tmp" tmp1 ((advEnv e "tmp" tmp1 pj).set "typ" (.u8 typ)) :=
      (inv.adv tmp1 (by decide) (by decide) (by decide)).set _ _ (by decide)
    have hT : ((advEnv e "tmp" tmp1 pj).set "typ" (.u8 typ)).get "typ" = some (.u8 typ) := Env.get_set_self _ _ _
    simp only [headA, List.cons_append, List.nil_append]
    rw [exec, hA]
    simp only []
    rw [exec_ite_ret _ _ _ _ _ _ (eval_headCond _ _ tmp1 typ hT inv1.it)]
    by_cases hc : typ ≠ typeString ∨ tmp1.off + 1 ≥ tmp1.lim
    · simp only [hc, decide_true, if_true]
    · simp only [hc, decide_false, Bool.false_eq_true, if_false]
  | panic =>
    intro hA
    simp only [] at hA ⊢
    simp only [headA, List.cons_append, List.nil_append]
    rw [exec, hA]
  | error _ => exact fun h => h
  | diverge => exact fun h => h

/-- `offset := tmp.cur; length := tmp.tape.Tape[tmp.off]` -/
def headB : List Stmt := [
  .assign "offset" (.v "tmp.cur"),
  .assign "length" (.tapeAt "tmp" (.v "tmp.off"))]

theorem headB_run (pj : PJ) (e : Env) (tmp1 : Iter) (f : Nat) (rest : List Stmt) (hI : iterAt e "tmp" = some tmp1)
    (hl : tmp1.lim ≤ pj.tape.size) (h2 : tmp1.off + 1 < tmp1.lim) :
    ∃ w, pj.tape[tmp1.off]? = some w ∧
      exec goFuns f (headB ++ rest) ⟨e, pj.tape⟩ =
        exec goFuns f rest ⟨(e.set "offset" (.u64 tmp1.cur)).set "length" (.u64 w), pj.tape⟩ := by
  obtain ⟨g1, g2, g3, g4, g5⟩ := iterAt_get_tmp _ _ hI
  have hlt : tmp1.off < pj.tape.size := by omega
  refine ⟨pj.tape[tmp1.off], by simp [hlt], ?_⟩
  generalize hw : pj.tape[tmp1.off] = w
  have hr : pj.tape[tmp1.off]? = some w := by simp [hlt, hw]
  have hs1 : exec1 goFuns f (.assign "offset" (.v "tmp.cur")) ⟨e, pj.tape⟩ =
      .normal ⟨e.set "offset" (.u64 tmp1.cur), pj.tape⟩ := by simp [g3]
  have hs2 : exec1 goFuns f (.assign "length" (.tapeAt "tmp" (.v "tmp.off")))
      ⟨e.set "offset" (.u64 tmp1.cur), pj.tape⟩ =
      .normal ⟨(e.set "offset" (.u64 tmp1.cur)).set "length" (.u64 w), pj.tape⟩ := by
    have : (tmp1.off : Int) < tmp1.lim := by omega
    simp [g1, g5, this, hr]
  simp only [headB, List.cons_append, List.nil_append]
  rw [exec, hs1]
  simp only []
  rw [exec, hs2]

/-- `if int(length) != len(key) { t := tmp.Advance(); if t == TypeNone { return R }; continue }` -/
def lenMis (R : List Expr) : Stmt :=
  .ite (.bin .ne (.conv .int (.v "length")) (.lenB (.v "key"))) [
    .callAssign ["t"] "tmp" "Iter.Advance" [] [],
    .ite (.bin .eq (.v "t") (.u8 0 /- TypeNone -/)) [.ret R] [],
    .cont] []

theorem lenMis_run (pj : PJ) (e : Env) (tmp1 : Iter) (f : Nat) (R : List Expr) (rest : List Stmt) (w : UInt64)
    (key : Bytes) (inv : ItInv pj "tmp" tmp1 e) (hl : tmp1.lim ≤ pj.tape.size) (hf : tmp1.lim + 3 ≤ f)
    (hw : e.get "length" = some (.u64 w)) (hk : e.get "key" = some (.bytes key)) :
    if toInt64 w ≠ (key.size : Int) then
      match tmp1.advance pj with
      | .ok (tmp2, t) =>
        exec goFuns (f + 1) (lenMis R :: rest) ⟨e, pj.tape⟩ =
          if t = typeNone then retOut R ⟨(advEnv e "tmp" tmp2 pj).set "t" (.u8 t), pj.tape⟩
          else .cont ⟨(advEnv e "tmp" tmp2 pj).set "t" (.u8 t), pj.tape⟩
      | .panic => exec goFuns (f + 1) (lenMis R :: rest) ⟨e, pj.tape⟩ = .panic
      | _ => False
    else exec goFuns (f + 1) (lenMis R :: rest) ⟨e, pj.tape⟩ = exec goFuns (f + 1) rest ⟨e, pj.tape⟩ := by
  have hcond : evalE ⟨e, pj.tape⟩ (.bin .ne (.conv .int (.v "length")) (.lenB (.v "key"))) =
      .val (.bool (toInt64 w != (key.size : Int))) := by simp [hw, hk]
  by_cases hne : toInt64 w ≠ (key.size : Int)
  · rw [if_pos hne]
    have hb : (toInt64 w != (key.size : Int)) = true := by simpa using hne
    have hA := exec1_advance pj ⟨e, pj.tape⟩ "t" "tmp" rfl tmp1 f hl rfl inv hf
    revert hA
    cases tmp1.advance pj with
    | ok r =>
      obtain ⟨tmp2, t⟩ := r
      intro hA
      simp only [] at hA ⊢
      have hT : ((advEnv e "tmp" tmp2 pj).set "t" (.u8 t)).get "t" = some (.u8 t) := Env.get_set_self _ _ _
      have hc2 : evalE ⟨(advEnv e "tmp" tmp2 pj).set "t" (.u8 t), pj.tape⟩ (.bin .eq (.v "t") (.u8 0)) =
          .val (.bool (t == 0)) := by simp [hT]
      rw [exec, lenMis, exec1, hcond, hb]
      simp only []
      rw [exec, hA]
      simp only []
      rw [exec_ite_ret _ _ _ _ _ _ hc2]
      by_cases ht : t = typeNone
      · subst ht
        simp only [typeNone, beq_self_eq_true, if_true]
        exact retOut_final _ _ _
      · have ht' : (t == 0) = false := by simpa [typeNone] using ht
        simp only [ht, ht', Bool.false_eq_true, if_false]
        simp
    | panic =>
      intro hA
      simp only [] at hA ⊢
      rw [exec, lenMis, exec1, hcond, hb]
      simp only []
      rw [exec, hA]
    | error _ => exact fun h => h
    | diverge => exact fun h => h
  · rw [if_neg hne]
    have hb : (toInt64 w != (key.size : Int)) = false := by simpa using hne
    rw [exec, lenMis, exec1, hcond, hb]
    simp only []
    rw [exec]

/-- `name, err := tmp.tape.stringByteAt(offset, length); if err != nil { return R }` -/
def sbSeg (R : List Expr) : List Stmt := [
  .callAssign ["name", "err"] "tmp" "ParsedJson.stringByteAt" [] [(.v "offset"), (.v "length")],
  .ite (.bin .ne (.v "err") (.bool false /- nil -/)) [.ret R] []]

theorem sbSeg_run (pj : PJ) (e : Env) (tmp1 : Iter) (f : Nat) (R : List Expr) (rest : List Stmt) (cur w : UInt64)
    (hb : BufOK pj) (inv : ItInv pj "tmp" tmp1 e) (ho : e.get "offset" = some (.u64 cur))
    (hw : e.get "length" = some (.u64 w)) :
    ∃ e', ItInv pj "tmp" tmp1 e' ∧ Fr scr e e' ∧
      match stringByteAt pj cur w with
      | .ok name => e'.get "name" = some (.bytes name) ∧
          exec goFuns (f + 1) (sbSeg R ++ rest) ⟨e, pj.tape⟩ = exec goFuns (f + 1) rest ⟨e', pj.tape⟩
      | _ => e'.get "err" = some (.bool true) ∧
          exec goFuns (f + 1) (sbSeg R ++ rest) ⟨e, pj.tape⟩ = retOut R ⟨e', pj.tape⟩ := by
  have hlim := (iterAt_get_tmp _ _ inv.it).2.2.2.2
  have hcall := callFun_sb ⟨e, pj.tape⟩ pj "tmp" tmp1.lim (.v "offset") (.v "length") cur w f hb
    (by simpa using hlim) inv.sb inv.ms (by simp [ho]) (by simp [hw])
  simp only [String.reduceAppend] at hcall
  have hne1 : ("name" == "_") = false := by decide
  have hne2 : ("err" == "_") = false := by decide
  have key : ∀ (nm : Bytes) (b : Bool),
      ItInv pj "tmp" tmp1 (((((e.set "tmp.lim" (.int tmp1.lim)).set "Strings.B" (.bytes pj.strings)).set "Message"
        (.bytes pj.msg)).set "name" (.bytes nm)).set "err" (.bool b)) ∧
      Fr scr e (((((e.set "tmp.lim" (.int tmp1.lim)).set "Strings.B" (.bytes pj.strings)).set "Message"
        (.bytes pj.msg)).set "name" (.bytes nm)).set "err" (.bool b)) := by
    intro nm b
    constructor
    · refine ItInv.congr inv (fun k hk => ?_)
      simp only [itKeys, fieldsOf, List.mem_cons, List.not_mem_nil, or_false, String.reduceAppend] at hk
      rcases hk with rfl | rfl | rfl | rfl | rfl | rfl | rfl <;>
        simp [Env.get_set, inv.sb, inv.ms, hlim]
    · exact (((((Fr.refl scr e).set _ _ (by decide)).set _ _ (by decide)).set _ _ (by decide)).set _ _
        (by decide)).set _ _ (by decide)
  simp only [sbSeg, List.cons_append, List.nil_append]
  rw [exec, exec1, hcall]
  rcases stringByteAt_cases pj cur w with ⟨name, hn⟩ | hn
  · rw [hn]
    simp only [sbVals, assignTargets, hne1, hne2, Bool.false_eq_true, if_false]
    refine ⟨_, (key name false).1, (key name false).2, by simp [Env.get_set], ?_⟩
    rw [exec_ite_ret _ _ _ _ _ false (by simp [Env.get_set])]
    simp
  · rw [hn]
    simp only [sbVals, assignTargets, hne1, hne2, Bool.false_eq_true, if_false]
    refine ⟨_, (key #[] true).1, (key #[] true).2, by simp [Env.get_set], ?_⟩
    rw [exec_ite_ret _ _ _ _ _ true (by simp [Env.get_set])]
    simp

/-- `if string(name) != key { tmp.Advance(); continue }` -/
def nameMis : Stmt :=
  .ite (.not (.eqB (.v "name") (.v "key"))) [
    .call "tmp" "Iter.Advance" [],
    .cont] []

theorem nameMis_run (pj : PJ) (e : Env) (tmp1 : Iter) (f : Nat) (rest : List Stmt) (name key : Bytes)
    (hI : iterAt e "tmp" = some tmp1) (hl : tmp1.lim ≤ pj.tape.size) (hf : tmp1.lim + 4 ≤ f)
    (hn : e.get "name" = some (.bytes name)) (hk : e.get "key" = some (.bytes key)) :
    if (name != key) = true then
      match tmp1.advance pj with
      | .ok (tmp2, _) => exec goFuns f (nameMis :: rest) ⟨e, pj.tape⟩ = .cont ⟨setIter e "tmp" tmp2, pj.tape⟩
      | .panic => exec goFuns f (nameMis :: rest) ⟨e, pj.tape⟩ = .panic
      | _ => False
    else exec goFuns f (nameMis :: rest) ⟨e, pj.tape⟩ = exec goFuns f rest ⟨e, pj.tape⟩ := by
  have hcond : evalE ⟨e, pj.tape⟩ (.not (.eqB (.v "name") (.v "key"))) = .val (.bool (name != key)) := by
    simp [hn, hk, bne]
  by_cases hne : (name != key) = true
  · rw [if_pos hne]
    have hA := callAdvance_run pj e f tmp1 hI hl hf
    revert hA
    cases tmp1.advance pj with
    | ok r =>
      obtain ⟨tmp2, t⟩ := r
      intro hA
      simp only [] at hA ⊢
      rw [exec, nameMis, exec1, hcond, hne]
      simp only []
      rw [exec, hA]
      simp
    | panic =>
      intro hA
      simp only [] at hA ⊢
      rw [exec, nameMis, exec1, hcond, hne]
      simp only []
      rw [exec, hA]
    | error _ => exact fun h => h
    | diverge => exact fun h => h
  · rw [if_neg hne]
    have hb : (name != key) = false := by simpa using hne
    rw [exec, nameMis, exec1, hcond, hb]
    simp only []
    rw [exec]

/-- `if dst == nil { dst = &Element{} }; dst.Name = key` -/
def allocSeg : List Stmt := [
  .ite (.v "dst==nil") [
    .assign "dst==nil" (.bool false),
    .assign "dst.Name" .nilB,
    .assign "dst.Type" (.u8 0),
    .assign "dst.Iter.off" (.int 0),
    .assign "dst.Iter.addNext" (.int 0),
    .assign "dst.Iter.cur" (.u64 0),
    .assign "dst.Iter.t" (.u8 0),
    .assign "dst.Iter.lim" (.int 0)] [],
  .assign "dst.Name" (.v "key")]

/-- the variables of the flattened `*Element` -/
def dstKeys : List String := ["dst==nil", "dst.Name", "dst.Type"] ++ fieldsOf "dst.Iter"

theorem allocSeg_run (e : Env) (tape : Array UInt64) (f : Nat) (rest : List Stmt) (nil : Bool) (key : Bytes) (D : Iter)
    (hnil : e.get "dst==nil" = some (.bool nil)) (hk : e.get "key" = some (.bytes key))
    (hD : nil = false → iterAt e "dst.Iter" = some D) :
    ∃ e', exec goFuns f (allocSeg ++ rest) ⟨e, tape⟩ = exec goFuns f rest ⟨e', tape⟩ ∧
      e'.get "dst==nil" = some (.bool false) ∧ e'.get "dst.Name" = some (.bytes key) ∧
      iterAt e' "dst.Iter" = some (if nil then default else D) ∧ Fr dstKeys e e' := by
  cases nil with
  | true =>
    refine ⟨(((((((((e.set "dst==nil" (.bool false)).set "dst.Name" (.bytes #[])).set "dst.Type" (.u8 0)).set
      "dst.Iter.off" (.int 0)).set "dst.Iter.addNext" (.int 0)).set "dst.Iter.cur" (.u64 0)).set "dst.Iter.t"
      (.u8 0)).set "dst.Iter.lim" (.int 0)).set "dst.Name" (.bytes key)), ?_, by simp, by simp, ?_, ?_⟩
    · simp [allocSeg, hnil, hk]
    · apply iterAt_of_gets <;> simp [default, instInhabitedIter, Inhabited.default] <;> rfl
    · exact (((((((((Fr.refl dstKeys e).set _ _ (by decide)).set _ _ (by decide)).set _ _ (by decide)).set _ _
        (by decide)).set _ _ (by decide)).set _ _ (by decide)).set _ _ (by decide)).set _ _ (by decide)).set _ _
        (by decide)
  | false =>
    refine ⟨e.set "dst.Name" (.bytes key), ?_, by simp [hnil], by simp, ?_, ?_⟩
    · simp [allocSeg, hnil, hk]
    · rw [iterAt_set_ne _ _ _ _ (by decide)]
      simpa using hD rfl
    · exact (Fr.refl dstKeys e).set _ _ (by decide)

/-- `dst.Type, err = tmp.AdvanceIter(&dst.Iter)` -/
def aiCall : Stmt := .callAssign ["dst.Type", "err"] "tmp" "Iter.AdvanceIter" ["dst.Iter"] [(.bool true /- i!=dst -/)]

/-- `dst.Type, err = tmp.AdvanceIter(&dst.Iter); if err != nil { return Rerr }; return Rok` -/
def aiTail (Rerr Rok : List Expr) : List Stmt := [
  aiCall,
  .ite (.bin .ne (.v "err") (.bool false /- nil -/)) [.ret Rerr] [],
  .ret Rok]

theorem aiTail_run (pj : PJ) (e : Env) (F : Nat) (tmp1 D : Iter) (Rerr Rok : List Expr) (rest : List Stmt)
    (inv : ItInv pj "tmp" tmp1 e) (hD : iterAt e "dst.Iter" = some D) (hl : tmp1.lim ≤ pj.tape.size)
    (hf : fuelFor tmp1 + 1 ≤ F) :
    match tmp1.advanceIter pj D with
    | .ok (i', d', typ) =>
      exec goFuns F (aiTail Rerr Rok ++ rest) ⟨e, pj.tape⟩ = retOut Rok ⟨aidEnv e pj i' d' typ, pj.tape⟩
    | .error _ => ∃ e', exec goFuns F (aiTail Rerr Rok ++ rest) ⟨e, pj.tape⟩ = retOut Rerr ⟨e', pj.tape⟩ ∧
        e'.get "err" = some (.bool true) ∧ Fr aidTouched e e'
    | .panic => exec goFuns F (aiTail Rerr Rok ++ rest) ⟨e, pj.tape⟩ = .panic
    | .diverge => False := by
  have hc := callAID_run pj e F tmp1 D inv hD hl hf
  revert hc
  simp only [aiTail, List.cons_append, List.nil_append]
  cases tmp1.advanceIter pj D with
  | ok r =>
    obtain ⟨i', d', typ⟩ := r
    intro hc
    simp only [] at hc ⊢
    rw [exec, aiCall, hc]
    simp only []
    rw [exec_ite_ret _ _ _ _ _ false (by simp [aidEnv]), exec_ret]
    simp
  | error _ =>
    intro hc
    obtain ⟨e', hx, herr, hfr⟩ := hc
    refine ⟨e', ?_, herr, hfr⟩
    rw [exec, aiCall, hx]
    simp only []
    rw [exec_ite_ret _ _ _ _ _ true (by simp [herr])]
    simp
  | panic =>
    intro hc
    simp only [] at hc ⊢
    rw [exec, aiCall, hc]
  | diverge => exact fun h => h

end pieces

/-! ## the model's `advance`: whatever it returns, the cursor has moved forward or stands at the end -/

theorem advanceLoop_end (pj : PJ) : ∀ (n : Nat) (i : Iter) (off : Nat), i.lim - off ≤ n →
    ∀ (i' : Iter), Iter.advanceLoop pj i off = .ok (i', false) → i'.lim = i.lim ∧ i'.addNext = 0 ∧ i.lim ≤ i'.off := by
  intro n
  induction n with
  | zero =>
    intro i off hn i' h
    rw [Iter.advanceLoop.eq_1 pj i off] at h
    have hge : off ≥ i.lim := by omega
    simp only [hge, dif_pos, Res.ok.injEq, Prod.mk.injEq, and_true] at h
    subst h
    exact ⟨rfl, rfl, hge⟩
  | succ n ih =>
    intro i off hn i' h
    rw [Iter.advanceLoop.eq_1 pj i off] at h
    by_cases hge : off ≥ i.lim
    · simp only [hge, dif_pos, Res.ok.injEq, Prod.mk.injEq, and_true] at h
      subst h
      exact ⟨rfl, rfl, hge⟩
    · simp only [hge, dif_neg, not_false_eq_true, Iter.rdT, rd] at h
      cases hr : pj.tape[off]? with
      | none => rw [hr] at h; cases h
      | some v =>
        rw [hr] at h
        simp only [Res.bind_ok] at h
        by_cases hn' : tagOf v = tagNop
        · by_cases hz : payloadOf v = 0
          · simp [hn', hz, Iter.moveToEnd] at h
            subst h
            exact ⟨rfl, rfl, Nat.le_refl _⟩
          · have hz' := payload_toNat_ne v hz
            simp only [hn', hz, beq_self_eq_true, if_true, beq_iff_eq, if_false] at h
            have r := ih { i with cur := payloadOf v, t := tagNop } _ (by simp only; omega) i' h
            exact r
        · have hb : (tagOf v == tagNop) = false := by simp [hn']
          simp [hb] at h

/-- a step of `advance`, whatever the type: the view is kept, `addNext ≥ 0`, and the cursor moved past the old
    position or stands at (or beyond) the end of the view -/
theorem advance_progress (pj : PJ) (i : Iter) (h0 : 0 ≤ i.addNext) (i' : Iter) (t : UInt8)
    (h : i.advance pj = .ok (i', t)) :
    i'.lim = i.lim ∧ 0 ≤ i'.addNext ∧ (i.off + i.addNext.toNat < i'.off ∨ i.lim ≤ i'.off) := by
  unfold Iter.advance Iter.bump at h
  have ho : ¬ ((i.off : Int) + i.addNext < 0) := by omega
  simp only [ho, if_false, Res.bind_ok] at h
  have hnat : ((i.off : Int) + i.addNext).toNat = i.off + i.addNext.toNat := by omega
  rw [hnat] at h
  cases hg : Iter.advanceLoop pj i (i.off + i.addNext.toNat) with
  | ok r =>
    obtain ⟨a, l⟩ := r
    rw [hg] at h
    simp only [Res.bind_ok] at h
    cases l with
    | false =>
      obtain ⟨k1, k2, k3⟩ := advanceLoop_end pj _ i _ (Nat.le_refl _) a hg
      simp only [Bool.not_false, if_true, Res.ok.injEq, Prod.mk.injEq] at h
      obtain ⟨rfl, rfl⟩ := h
      exact ⟨k1, by omega, Or.inr k3⟩
    | true =>
      obtain ⟨k1, k2⟩ := advanceLoop_facts pj _ i _ (Nat.le_refl _) a true hg
      obtain ⟨p1, p2, _⟩ := k2 rfl
      obtain ⟨c1, c2, c3, c4⟩ := calcNext_fields a false
      simp only [Bool.not_true, Bool.false_eq_true, if_false] at h
      by_cases hneg : (a.calcNext false).addNext < 0
      · simp only [hneg, if_true, Res.ok.injEq, Prod.mk.injEq] at h
        obtain ⟨rfl, rfl⟩ := h
        simp only [Iter.moveToEnd]
        exact ⟨by rw [c1, k1], Int.le_refl _, Or.inr (by rw [c1, k1]; exact Nat.le_refl _)⟩
      · simp only [hneg, if_false, Res.ok.injEq, Prod.mk.injEq] at h
        obtain ⟨rfl, rfl⟩ := h
        exact ⟨by rw [c1, k1], by omega, Or.inl (by rw [c2]; exact p1)⟩
  | panic => rw [hg] at h; cases h
  | error e => rw [hg] at h; cases h
  | diverge => rw [hg] at h; cases h

/-! ## the model's `advanceIter pj default` against Go's `AdvanceIter(&dst.Iter)` on the caller's `dst.Iter`

The hand model hands a fresh `default` iterator to `advanceIter`; Go hands `&dst.Iter`, which holds whatever the caller's
`Element` held (zeroes if `dst` was nil).  The two agree except at the end of the view, where `AdvanceIter` returns
`(TypeNone, nil)` WITHOUT touching `*dst`: the model then reports `default`, Go leaves the old content. -/

theorem default_off : (default : Iter).off = 0 := rfl

theorem advanceIter_dst (pj : PJ) (i D : Iter) :
    match i.advanceIter pj default with
    | .ok (i', d', t) => i.advanceIter pj D = .ok (i', if d' = default then D else d', t) ∧ (d' = default → t = typeNone)
    | .error e => i.advanceIter pj D = .error e
    | .panic => i.advanceIter pj D = .panic
    | .diverge => i.advanceIter pj D = .diverge := by
  unfold Iter.advanceIter
  cases hb : i.bump with
  | ok o =>
    simp only [Res.bind_ok]
    cases hl : Iter.advanceIterLoop pj i o with
    | ok r =>
      obtain ⟨i1, live⟩ := r
      simp only [Res.bind_ok]
      cases live with
      | false => simp
      | true =>
        obtain ⟨_, k2⟩ := advanceIterLoop_facts pj _ i o (Nat.le_refl _) i1 true hl
        obtain ⟨p1, _⟩ := k2 rfl
        obtain ⟨c1, c2, c3, c4⟩ := calcNext_fields i1 false
        obtain ⟨e1, e2, e3, e4⟩ := calcNext_fields (i1.calcNext false) true
        simp only [Bool.not_true, Bool.false_eq_true, if_false]
        by_cases h1 : (i1.calcNext false).addNext < 0
        · simp only [h1, if_true]
        · simp only [h1, if_false]
          by_cases h2 : ((i1.calcNext false).calcNext true).addNext < 0
          · simp only [h2, if_true]
          · simp only [h2, if_false]
            by_cases h3 : (i1.calcNext false).off + (i1.calcNext false).addNext.toNat > ((i1.calcNext false).calcNext true).lim
            · simp only [h3, if_true]
            · simp only [h3, if_false]
              have hne : ¬ ({ ((i1.calcNext false).calcNext true) with
                  lim := (i1.calcNext false).off + (i1.calcNext false).addNext.toNat } : Iter) = default := by
                intro hh
                have := congrArg Iter.off hh
                simp only [e2, c2, default_off] at this
                omega
              exact ⟨by rw [if_neg hne], fun hh => absurd hh hne⟩
    | error e => rfl
    | panic => rfl
    | diverge => rfl
  | error e => rfl
  | panic => rfl
  | diverge => rfl

/-! ## the invariant of the two loops -/

/-- where the next `Advance` starts reading -/
def pos (i : Iter) : Nat := i.off + i.addNext.toNat

theorem itInv_setIterTmp {pj : PJ} {i : Iter} {e : Env} (h : ItInv pj "tmp" i e) (j : Iter) :
    ItInv pj "tmp" j (setIter e "tmp" j) := by
  refine ⟨get_setIter_self _ _ _ (by decide), ?_, ?_⟩
  · rw [get_setIter_ne _ _ _ _ (by decide)]; exact h.sb
  · rw [get_setIter_ne _ _ _ _ (by decide)]; exact h.ms

theorem itInv_fr {pj : PJ} {i : Iter} {e e' : Env} {L : List String} (h : ItInv pj "tmp" i e) (hfr : Fr L e e')
    (hL : ∀ k ∈ itKeys "tmp", k ∉ L) : ItInv pj "tmp" i e' :=
  h.congr (fun k hk => hfr k (hL k hk))

/-- what the two loops keep besides the local iterator: the key, the `dst == nil` flag, and (when `dst` is not nil)
    the caller's `dst.Iter` -/
structure LInv (pj : PJ) (tmp : Iter) (key : Bytes) (nil : Bool) (D : Iter) (e : Env) : Prop where
  it : ItInv pj "tmp" tmp e
  hkey : e.get "key" = some (.bytes key)
  hnil : e.get "dst==nil" = some (.bool nil)
  hdst : nil = false → iterAt e "dst.Iter" = some D

/-- the variables `LInv` reads besides `tmp` and the buffers -/
def prot : List String := ["key", "dst==nil"] ++ fieldsOf "dst.Iter"

theorem LInv.step {pj : PJ} {tmp tmp' : Iter} {key : Bytes} {nil : Bool} {D : Iter} {e e' : Env} {L : List String}
    (h : LInv pj tmp key nil D e) (hfr : Fr L e e') (hL : ∀ k ∈ prot, k ∉ L) (it' : ItInv pj "tmp" tmp' e') :
    LInv pj tmp' key nil D e' := by
  refine ⟨it', ?_, ?_, ?_⟩
  · rw [hfr _ (hL _ (by decide))]; exact h.hkey
  · rw [hfr _ (hL _ (by decide))]; exact h.hnil
  · intro hn
    rw [iterAt_congr e e' "dst.Iter" (fun k hk => hfr k (hL k (by
      simp only [prot, List.mem_append]; exact Or.inr hk)))]
    exact h.hdst hn

end SJ.GoFind
