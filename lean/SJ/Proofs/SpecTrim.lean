import SJ.Proofs.SpecTrimFuel
/-
`Spec.containerText` and JSON white space at the two ends of the text.

Proved here (`a`, `b` are texts of JSON white space only):
* `containerText_ws_accept_iff` : `containerText (a ++ s ++ b) = .accept v ↔ containerText s = .accept v`
* `containerText_ws_outside`    : `containerText s = .outside → containerText (a ++ s ++ b) = .outside`
* `containerText_ws_reject`     : `containerText (a ++ s ++ b) = .reject → containerText s = .reject`
* `containerText_trim_accept`, `containerText_trim_outside`, `containerText_trim_reject` : the same for
  `TrimEdge.jsonTrimL`
* `containerText_ws_not_eq`     : the plain equation `containerText (a ++ s ++ b) = containerText s` is FALSE.
  `Spec.elements (f+1) s` runs `Spec.value f` on the *same* text, so every unclosed `[` costs two units of fuel
  for one byte, and `containerText` starts with `s.length + 2`.  On `[[[[["\xFF"` the fuel runs out before the
  (non-UTF-8) string is reached: `reject`; ten more bytes of white space buy the missing fuel: `outside`.
  Accepted texts are balanced and the fuel always covers them, hence only reject ↔ outside can flip.

Helper files: `SpecTrimBase` (white space, numbers, literals), `SpecTrimStr` (strings), `SpecTrimLoc`
(white space behind the text: `loc`), `SpecTrimFuel` (change of fuel: `fuelOK`).
-/
namespace SJ.SpecTrim
open SJ SJ.Spec

/-! ## 7. the text -/

/-- what `containerText` makes of the outcome of the root value -/
def verdict : Out JVal → Verdict
  | .acc v rest => if (skipWs rest).isEmpty then .accept v else .reject
  | .rej => .reject
  | .out => .outside

theorem containerText_nil {s : List UInt8} (h : skipWs s = []) : containerText s = .reject := by
  unfold containerText; rw [h]

theorem containerText_cons {s : List UInt8} {c : UInt8} {r : List UInt8} (h : skipWs s = c :: r) :
    containerText s = if c == 0x7B ∨ c == 0x5B then verdict (value (s.length + 2) (c :: r)) else .reject := by
  unfold containerText; rw [h]
  simp only []
  split
  · cases value (s.length + 2) (c :: r) <;> rfl
  · rfl

theorem verdict_accept {o : Out JVal} {v : JVal} : verdict o = .accept v ↔ ∃ rest, o = .acc v rest ∧ skipWs rest = [] := by
  cases o with
  | acc w rest =>
    simp only [verdict]
    constructor
    · intro h
      split at h
      · rename_i he
        cases h
        exact ⟨rest, rfl, by simpa using he⟩
      · cases h
    · rintro ⟨rest', h, hs⟩
      cases h
      rw [hs]; rfl
  | rej => simp [verdict]
  | out => simp [verdict]

theorem verdict_outside {o : Out JVal} : verdict o = .outside ↔ o = .out := by
  cases o with
  | acc w rest =>
    simp only [verdict]
    constructor
    · intro h; split at h <;> cases h
    · intro h; cases h
  | rej => simp [verdict]
  | out => simp [verdict]

theorem same_acc_right {b : List UInt8} {x : Out JVal} {v : JVal} {R : List UInt8} (h : Same b x (.acc v R)) :
    ∃ rest, x = .acc v rest ∧ R = rest ++ b := by
  cases x with
  | acc w rest => obtain ⟨rfl, rfl⟩ := h; exact ⟨rest, rfl, rfl⟩
  | rej => exact absurd h id
  | out => exact absurd h id

theorem same_acc_left {b : List UInt8} {y : Out JVal} {v : JVal} {rest : List UInt8} (h : Same b (.acc v rest) y) :
    y = .acc v (rest ++ b) := by
  cases y with
  | acc w R => obtain ⟨rfl, rfl⟩ := h; rfl
  | rej => exact absurd h id
  | out => exact absurd h id

theorem same_out_left {b : List UInt8} {y : Out JVal} (h : Same b .out y) : y = .out := by
  cases y with
  | acc w R => exact absurd h id
  | rej => exact absurd h id
  | out => rfl

/-- JSON white space around the text does not change whether, and as what, the text is accepted -/
theorem containerText_ws_accept_iff (a s b : List UInt8) (ha : a.all isWs = true) (hb : b.all isWs = true) (v : JVal) :
    containerText (a ++ s ++ b) = .accept v ↔ containerText s = .accept v := by
  have hpre : skipWs (a ++ s ++ b) = skipWs (s ++ b) := by rw [List.append_assoc]; exact skipWs_pre _ ha
  cases hs : skipWs s with
  | nil =>
    rw [containerText_nil hs, containerText_nil (hpre.trans (skipWs_app_nil hb hs))]
  | cons c r =>
    have hsb : skipWs (a ++ s ++ b) = c :: (r ++ b) := hpre.trans (skipWs_app_cons s b c r hs)
    rw [containerText_cons hs, containerText_cons hsb]
    have hlen : (c :: r).length ≤ s.length := hs ▸ skipWs_length s
    split
    · rw [verdict_accept, verdict_accept]
      constructor
      · rintro ⟨R, hv, hR⟩
        obtain ⟨rest, hx, rfl⟩ := same_acc_right (hv ▸ (loc hb _).v (c :: r))
        have hrest : skipWs rest = [] := by
          apply skipWs_all
          have := all_of_skipWs_nil hR
          rw [List.all_append, Bool.and_eq_true] at this
          exact this.1
        exact ⟨rest, ((fuelOK _).va _ _ _ hx).2 _ (Or.inr (by omega)), hrest⟩
      · rintro ⟨rest, hv, hrest⟩
        have h1 := same_acc_left (hv ▸ (loc hb _).v (c :: r))
        refine ⟨rest ++ b, ((fuelOK _).va _ _ _ h1).2 _ (Or.inl ?_), skipWs_app_nil hb hrest⟩
        simp only [List.length_append]; omega
    · exact Iff.rfl

/-- more white space never brings a text back inside the claim -/
theorem containerText_ws_outside (a s b : List UInt8) (ha : a.all isWs = true) (hb : b.all isWs = true)
    (h : containerText s = .outside) : containerText (a ++ s ++ b) = .outside := by
  have hpre : skipWs (a ++ s ++ b) = skipWs (s ++ b) := by rw [List.append_assoc]; exact skipWs_pre _ ha
  cases hs : skipWs s with
  | nil => rw [containerText_nil hs] at h; cases h
  | cons c r =>
    have hsb : skipWs (a ++ s ++ b) = c :: (r ++ b) := hpre.trans (skipWs_app_cons s b c r hs)
    rw [containerText_cons hs] at h
    rw [containerText_cons hsb]
    split
    · rename_i hc
      rw [if_pos hc, verdict_outside] at h
      rw [verdict_outside]
      have h1 := same_out_left (h ▸ (loc hb _).v (c :: r))
      refine (fuelOK _).vo _ h1 _ ?_
      simp only [List.length_append]; omega
    · rename_i hc
      rw [if_neg hc] at h; cases h

/-- hence a text rejected with white space around it is rejected without -/
theorem containerText_ws_reject (a s b : List UInt8) (ha : a.all isWs = true) (hb : b.all isWs = true)
    (h : containerText (a ++ s ++ b) = .reject) : containerText s = .reject := by
  cases hs : containerText s with
  | accept v => rw [(containerText_ws_accept_iff a s b ha hb v).mpr hs] at h; cases h
  | reject => rfl
  | outside => rw [containerText_ws_outside a s b ha hb hs] at h; cases h

/-! ## 8. `jsonTrimL` -/

theorem trim_split (l : List UInt8) :
    ∃ a b, a.all isWs = true ∧ b.all isWs = true ∧ l = a ++ TrimEdge.jsonTrimL l ++ b := by
  refine ⟨l.takeWhile isWs, (((l.dropWhile isWs).reverse).takeWhile isWs).reverse, ?_, ?_, ?_⟩
  · exact List.all_takeWhile
  · rw [List.all_reverse]; exact List.all_takeWhile
  · unfold TrimEdge.jsonTrimL
    rw [List.append_assoc, ← List.reverse_append, List.takeWhile_append_dropWhile, List.reverse_reverse,
      List.takeWhile_append_dropWhile]

theorem containerText_trim_accept (l : List UInt8) (v : JVal) :
    containerText (TrimEdge.jsonTrimL l) = .accept v ↔ containerText l = .accept v := by
  obtain ⟨a, b, ha, hb, hl⟩ := trim_split l
  have := containerText_ws_accept_iff a (TrimEdge.jsonTrimL l) b ha hb v
  rw [← hl] at this
  exact this.symm

theorem containerText_trim_outside (l : List UInt8) (h : containerText (TrimEdge.jsonTrimL l) = .outside) :
    containerText l = .outside := by
  obtain ⟨a, b, ha, hb, hl⟩ := trim_split l
  have := containerText_ws_outside a (TrimEdge.jsonTrimL l) b ha hb h
  rw [← hl] at this
  exact this

theorem containerText_trim_reject (l : List UInt8) (h : containerText l = .reject) :
    containerText (TrimEdge.jsonTrimL l) = .reject := by
  obtain ⟨a, b, ha, hb, hl⟩ := trim_split l
  rw [hl] at h
  exact containerText_ws_reject a (TrimEdge.jsonTrimL l) b ha hb h

/-! ## 9. the plain equation fails -/

/-- `[[[[["\xFF"` : five unclosed arrays, then a string that is not UTF-8 -/
def deepOut : List UInt8 := [0x5B, 0x5B, 0x5B, 0x5B, 0x5B, 0x22, 0xFF, 0x22]

/-- fuel `8 + 2`, but reaching the string takes `2 * 5 + 1`: the fuel runs out first -/
theorem deepOut_reject : containerText deepOut = .reject := by rfl
/-- ten bytes of white space behind (or in front of) the text buy the missing fuel -/
theorem deepOut_ws_outside : containerText ([] ++ deepOut ++ List.replicate 10 0x20) = .outside := by rfl
theorem ws_deepOut_outside : containerText (List.replicate 10 0x20 ++ deepOut ++ []) = .outside := by rfl

/-- `containerText (a ++ s ++ b) = containerText s` does NOT hold for all white space `a`, `b`: the fuel
    `s.length + 2` of `containerText` is not enough for unclosed nesting (`elements` passes the same text on to
    `value` with one unit less, so one `[` costs two units), so white space, which adds fuel, can turn `reject` into
    `outside`.  Nothing else can flip: `containerText_ws_accept_iff`, `containerText_ws_outside`. -/
theorem containerText_ws_not_eq :
    ¬ ∀ (a s b : List UInt8), a.all isWs = true → b.all isWs = true → containerText (a ++ s ++ b) = containerText s := by
  intro h
  have e := h [] deepOut (List.replicate 10 0x20) rfl (by decide)
  rw [deepOut_ws_outside, deepOut_reject] at e
  cases e

/-- the same for trimming: `jsonTrimL` of the padded text is the text -/
theorem containerText_trim_not_eq :
    ¬ ∀ l : List UInt8, containerText (TrimEdge.jsonTrimL l) = containerText l := by
  intro h
  have e := h (deepOut ++ List.replicate 10 0x20)
  have e1 : TrimEdge.jsonTrimL (deepOut ++ List.replicate 10 0x20) = deepOut := by decide
  rw [e1, deepOut_reject] at e
  have e2 : containerText (deepOut ++ List.replicate 10 0x20) = .outside := deepOut_ws_outside
  rw [e2] at e
  cases e

end SJ.SpecTrim
