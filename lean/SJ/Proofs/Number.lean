import SJ.Model.Number
import SJ.Spec.Json
import SJ.Proofs.Tables
/-
Proofs about `SJ/Model/Number.lean` (the model of Go's `parseNumber`) against the RFC 8259 number
grammar and the C03 value function of `SJ/Spec/Json.lean` (`Spec.numberLit`, `Spec.numValue`).

Route.
* `numScan_eq`      : the `Id.run do … for …` loop `numScan buf start` equals the pure recursive
                      `scan (buf.toList.drop start) 0 0`  (proved, not assumed).
* `parseNumber_eq`  : `parseNumber buf start = parseNumberL (buf.toList.drop start)`, a list-level copy.
* `Lit`, `Lit.render`, `Lit.Strict`, `Lit.Loose`: explicit shapes `-? int (. frac)? ([eE] [+-]? digits)?`.
  `shape_of_spec` / `spec_of_shape` : `Spec.numberLit` succeeds exactly on strict shapes;
  `shape_of_pfs`  / `pfs_of_shape`  : `parseFloatSyntax` succeeds exactly on loose shapes (no leading `+`).
* `scan_of_tok` / `scan_inv`        : what the scanning loop accepts and what it returns.
* `model_of_strict` / `strict_of_model` : the model on strict shapes, and the converse.

Main results (all for every input, no sampling).
* `parseNumber_spec` (and `parseNumberL_spec`): for a buffer whose first byte (at `start`) is `-` or a digit,
  `parseNumber buf start` is `encode (Spec.numValue l)` when `Spec.numberLit` reads a literal `l` that is
  followed by the end of the buffer or an end-of-value byte, and `none` in every other case.
* `integer_literal`, `leading_zero_rejected`, `float_literal`, `agrees_with_spec`, `agrees_with_spec_eof`,
  `rejects_with_spec`, `rejects_with_spec_eov`: the statements of properties C03 / C01 in the requested form.

The hypothesis `NumStart` (first byte is `-` or a digit) in the rejection statements cannot be dropped:
see the tests at the end of the file (`+1,` and `.5,` are accepted by `parseNumber` taken alone).
-/
open SJ SJ.Generated SJ.Tables
namespace SJ.NumberProofs

/-! ## `numScan` is a pure recursive scan -/

def scan : List UInt8 → Nat → Nat → Option (Nat × Nat)
  | [], i, found => some (i, found)
  | v :: r, i, found =>
    if numRune v = 0 then none
    else if numRune v = 8 then some (i, found)
    else if numRune v &&& 32 > 0 ∧ (r = [] ∨ numRune (r.headD 0) &&& 16 = 0) then none
    else scan r (i + 1) (found ||| numRune v)

abbrev LoopSt := Option (Option (Nat × Nat)) × Nat × Nat

def fin (s : LoopSt) : Option (Nat × Nat) :=
  match s.fst with
  | some r => r
  | none => some (s.snd.fst, s.snd.snd)

def body (buf : Bytes) (start : Nat) (a : Nat) (s : LoopSt) : Id (ForInStep LoopSt) :=
  if (numRune (buf.getD a 0) == 0) = true then pure (ForInStep.done ⟨some none, s.snd.fst, s.snd.snd⟩)
  else
    if (numRune (buf.getD a 0) == cisEOVFlag) = true then pure (ForInStep.done ⟨none, s.snd.fst, s.snd.snd⟩)
    else
      if numRune (buf.getD a 0) &&& cisMustHaveDigitNext > 0 then
        if
            Array.size buf - start < a - start + 2 ∨
              (numRune (Array.getD buf (a + 1) 0) &&& cisDigitFlag == 0) = true then
          pure (ForInStep.done ⟨some none, s.snd.fst, s.snd.snd⟩)
        else pure (ForInStep.yield ⟨none, a - start + 1, s.snd.snd ||| numRune (buf.getD a 0)⟩)
      else pure (ForInStep.yield ⟨none, a - start + 1, s.snd.snd ||| numRune (buf.getD a 0)⟩)

theorem loop_eq (buf : Bytes) (start : Nat) : ∀ (n k found : Nat), start ≤ k → k + n = buf.size →
    fin (Id.run (forIn (m := Id) (List.range' k n) (⟨none, k - start, found⟩ : LoopSt) (body buf start))) =
      scan (buf.toList.drop k) (k - start) found := by
  intro n
  induction n with
  | zero =>
    intro k found hk hn
    have : List.drop k buf.toList = [] := by simp; omega
    simp [this, scan, fin]
  | succ n ih =>
    intro k found hk hn
    have hlt : k < buf.size := by omega
    have hd : List.drop k buf.toList = buf.getD k 0 :: List.drop (k+1) buf.toList := by
      rw [List.drop_eq_getElem_cons (by simpa using hlt)]
      simp [Array.getD, hlt]
    rw [hd, List.range'_succ, List.forIn_cons]
    have e1 : k + 1 - start = k - start + 1 := by omega
    have ih' := ih (k+1) (found ||| numRune (buf.getD k 0)) (by omega) (by omega)
    rw [e1] at ih'
    have hsz : (List.drop (k + 1) buf.toList = [] ↔ buf.size - start < k - start + 2) := by
      simp; omega
    have hhd : (List.drop (k + 1) buf.toList).headD 0 = buf.getD (k+1) 0 := by
      simp [List.headD_eq_head?_getD, List.head?_drop]
    unfold scan
    simp only [hsz, hhd, body]
    generalize buf.getD k 0 = v at *
    generalize buf.getD (k+1) 0 = w at *
    by_cases h0 : numRune v = 0
    · simp [h0, fin]
    · by_cases h8 : numRune v = 8
      · simp [h8, fin, cisEOVFlag]
      · simp only [h0, h8, cisEOVFlag, cisMustHaveDigitNext, cisDigitFlag, beq_iff_eq, if_false]
        split
        · split
          · simp [fin, *]
          · simp [*]
        · simp [*]

theorem numScan_loop (buf : Bytes) (start : Nat) :
    numScan buf start = fin (Id.run (forIn (m := Id) (List.range' start (buf.size - start)) (⟨none, 0, 0⟩ : LoopSt) (body buf start))) := by
  unfold numScan
  simp only [Std.Legacy.Range.forIn'_eq_forIn'_range']
  rw [forIn'_eq_forIn (g := body buf start)]
  · have hn : Std.Legacy.Range.size [start:buf.size] = buf.size - start := by
      simp [Std.Legacy.Range.size]
    rw [hn]
    generalize (forIn (m := Id) (List.range' start (buf.size - start)) ((none, 0, 0) : LoopSt) (body buf start)) = x
    have hx : x = pure x.run := rfl
    rw [hx]
    rcases x.run with ⟨a, b, c⟩
    cases a <;> rfl
  · intro a hm s
    have := List.mem_range'_1.mp hm
    have ha : a < buf.size := by
      simp [Std.Legacy.Range.size] at this; omega
    simp only [body, Array.getD, ha, dite_true]
    rfl

theorem numScan_eq (buf : Bytes) (start : Nat) : numScan buf start = scan (buf.toList.drop start) 0 0 := by
  rw [numScan_loop]
  by_cases hs : start ≤ buf.size
  · have h := loop_eq buf start (buf.size - start) start 0 (Nat.le_refl _) (by omega)
    rw [Nat.sub_self] at h
    exact h
  · have h1 : List.drop start buf.toList = [] := by simp; omega
    have h2 : buf.size - start = 0 := by omega
    rw [h1, h2]
    rfl

/-! ## A list-level copy of `parseNumber` -/

def floatPath (L : List UInt8) (pos : Nat) (tag : UInt64) : Option (UInt64 × UInt64) :=
  let first := if L.getD 0 0 == 45 then 1 else 0
  if pos > first + 1 ∧ L.getD first 0 == 48 ∧ (numRune (L.getD (first + 1) 0)) &&& cisFloatOnlyFlag == 0 then none
  else match parseFloat64 (L.take pos) with
    | some bits => some (tag, bits)
    | none => none

def core (L : List UInt8) (pos : Nat) (isInt minus : Bool) : Option (UInt64 × UInt64) :=
  if pos == 0 then none else
  let lit := L.take pos
  let b0 := L.getD 0 0
  let b1 := L.getD 1 0
  let floatTag : UInt64 := mkWord tagFloat 0
  let flagged : UInt64 := floatTag ||| wFloatOverflowedInteger
  if isInt ∧ pos ≤ cmaxIntLen then
    if !minus ∧ pos > 1 ∧ b0 == 48 then none
    else if minus ∧ pos > 2 ∧ b1 == 48 then none
    else
      match parseInt64 lit with
      | .ok z => some (mkWord tagInteger 0, ofInt64 z)
      | .error e1 =>
        let tag1 := if e1 == .range then flagged else floatTag
        if !minus then
          match parseUint64 lit with
          | .ok n => some (mkWord tagUint 0, UInt64.ofNat n)
          | .error e2 => floatPath L pos (if e2 == .range then flagged else tag1)
        else floatPath L pos tag1
  else if isInt then floatPath L pos flagged
  else floatPath L pos floatTag

def parseNumberL (L : List UInt8) : Option (UInt64 × UInt64) :=
  match scan L 0 0 with
  | none => none
  | some (pos, found) => core L pos (found &&& cisFloatOnlyFlag == 0) (found &&& cisMinusFlag != 0)

theorem getD_drop (buf : Bytes) (start j : Nat) : buf.getD (start + j) 0 = (buf.toList.drop start).getD j 0 := by
  simp only [Array.getD, List.getD, List.getElem?_drop, Array.getElem?_toList]
  split <;> simp [*]

theorem getD_drop2 (buf : Bytes) (start a b : Nat) :
    buf.getD (start + a + b) 0 = (buf.toList.drop start).getD (a + b) 0 := by
  rw [Nat.add_assoc, getD_drop]

theorem parseNumber_eq (buf : Bytes) (start : Nat) :
    parseNumber buf start = parseNumberL (buf.toList.drop start) := by
  unfold parseNumber parseNumberL
  rw [numScan_eq]
  cases scan (buf.toList.drop start) 0 0 with
  | none => rfl
  | some pf =>
    obtain ⟨pos, found⟩ := pf
    simp only [core, floatPath]
    have hx : (buf.extract start (start + pos)).toList = (buf.toList.drop start).take pos := by
      simp
    have h0 := getD_drop buf start 0
    have h1 := getD_drop buf start 1
    rw [Nat.add_zero] at h0
    simp only [getD_drop2]
    simp only [hx, h0, h1, getD_drop]
    rfl

/-! ## Byte facts -/
theorem rune_must : ∀ b : UInt8, (numRune b &&& 32 > 0) ↔ (b = 46 ∨ b = 45) := forall_u8 (by decide +kernel)
theorem rune_dflag : ∀ b : UInt8, (numRune b &&& 16 = 0) ↔ isDigit b = false := forall_u8 (by decide +kernel)
theorem rune_float : ∀ b : UInt8, (numRune b &&& 2 = 0) ↔ (b ≠ 46 ∧ b ≠ 101 ∧ b ≠ 69) := forall_u8 (by decide +kernel)
theorem rune_minus : ∀ b : UInt8, (numRune b &&& 4 = 0) ↔ b ≠ 45 := forall_u8 (by decide +kernel)
theorem rune_alpha : ∀ b : UInt8, (numRune b ≠ 0 ∧ numRune b ≠ 8) ↔
    (isDigit b = true ∨ b = 46 ∨ b = 43 ∨ b = 45 ∨ b = 101 ∨ b = 69) := forall_u8 (by decide +kernel)
theorem rune_eov : ∀ b : UInt8, numRune b = 8 →
    isDigit b = false ∧ b ≠ 46 ∧ b ≠ 43 ∧ b ≠ 45 ∧ b ≠ 101 ∧ b ≠ 69 := forall_u8 (by decide +kernel)
theorem digit_ne : ∀ b : UInt8, isDigit b = true → b ≠ 46 ∧ b ≠ 43 ∧ b ≠ 45 ∧ b ≠ 101 ∧ b ≠ 69 :=
  forall_u8 (by decide +kernel)

theorem isDigit_eq : Spec.isDigit = SJ.isDigit := rfl
theorem digitsVal_eq : Spec.digitsVal = SJ.digitsVal := rfl

/-! ## digit runs -/
def Dig (ds : List UInt8) : Prop := ∀ d ∈ ds, isDigit d = true
def NoDig (r : List UInt8) : Prop := ∀ d r', r = d :: r' → isDigit d = false

theorem tw_nodig {r} (h : NoDig r) : r.takeWhile isDigit = [] := by
  cases r with
  | nil => rfl
  | cons d r' => simp [List.takeWhile, h d r' rfl]
theorem dw_nodig {r} (h : NoDig r) : r.dropWhile isDigit = r := by
  cases r with
  | nil => rfl
  | cons d r' => simp [List.dropWhile, h d r' rfl]
theorem tw_dig {ds r} (hd : Dig ds) (hr : NoDig r) : (ds ++ r).takeWhile isDigit = ds := by
  rw [List.takeWhile_append_of_pos hd, tw_nodig hr, List.append_nil]
theorem dw_dig {ds r} (hd : Dig ds) (hr : NoDig r) : (ds ++ r).dropWhile isDigit = r := by
  rw [List.dropWhile_append_of_pos hd, dw_nodig hr]
theorem dig_tw (s : List UInt8) : Dig (s.takeWhile isDigit) := by
  intro d hd
  exact List.all_eq_true.mp List.all_takeWhile d hd
theorem nodig_dw (s : List UInt8) : NoDig (s.dropWhile isDigit) := by
  intro d r' h
  have := List.head_dropWhile_not (p := isDigit) (l := s) (by rw [h]; simp)
  simpa [h] using this


/-! ## The specification's `numberLit`, cut into its three productions -/
open Spec in
def specFrac (s : List UInt8) : Option (List UInt8) × List UInt8 × Bool :=
  match s with
  | 0x2E :: r =>
    let fp := r.takeWhile isDigit
    if fp.isEmpty then (none, s, false) else (some fp, r.dropWhile isDigit, true)
  | _ => (none, s, true)

/-- optional sign as `strconv` reads it (and as the RFC reads it in the exponent) -/
def pmSign (r : List UInt8) : Bool × List UInt8 :=
  match r with | 0x2B :: x => (false, x) | 0x2D :: x => (true, x) | x => (false, x)

def specExp (s : List UInt8) : Option (Bool × List UInt8) × List UInt8 × Bool :=
  match s with
  | c :: r =>
    if c == 0x65 ∨ c == 0x45 then
      let ep := (pmSign r).2.takeWhile isDigit
      if ep.isEmpty then (none, s, false) else (some ((pmSign r).1, ep), (pmSign r).2.dropWhile isDigit, true)
    else (none, s, true)
  | [] => (none, s, true)

def specBody (neg : Bool) (s0 : List UInt8) : Option (Spec.NumLit × List UInt8) :=
  let ip := s0.takeWhile isDigit
  let s := s0.dropWhile isDigit
  if ip.isEmpty ∨ (ip.length > 1 ∧ ip.head? == some 0x30) then none else
  if !(specFrac s).2.2 then none else
  if !(specExp (specFrac s).2.1).2.2 then none else
  some ({ neg := neg, int := ip, frac := (specFrac s).1, exp := (specExp (specFrac s).2.1).1 }, (specExp (specFrac s).2.1).2.1)

def specSign (s : List UInt8) : Bool × List UInt8 :=
  match s with | 0x2D :: r => (true, r) | r => (false, r)

theorem numberLit_eq (s : List UInt8) :
    Spec.numberLit s = specBody (specSign s).1 (specSign s).2 := rfl

theorem specSign_neg (r : List UInt8) : specSign (45 :: r) = (true, r) := rfl
theorem specSign_pos (s : List UInt8) (h : ∀ r, s ≠ 45 :: r) : specSign s = (false, s) := by
  unfold specSign
  split
  · exact absurd rfl (h _)
  · rfl


/-! ## The model's `parseFloatSyntax`, cut the same way -/
def pfsFrac (r : List UInt8) : List UInt8 × List UInt8 :=
  match r with
  | 46 :: r' => (r'.takeWhile isDigit, r'.dropWhile isDigit)
  | _ => ([], r)

def pfsExp (neg : Bool) (mant : Nat) (fl : Int) (r : List UInt8) : Option (Bool × Nat × Int) :=
  match r with
  | [] => some (neg, mant, -fl)
  | c :: r' =>
    if c == 101 ∨ c == 69 then
      if (pmSign r').2.isEmpty ∨ !(pmSign r').2.all isDigit then none
      else
        let sig := (pmSign r').2.dropWhile (· == 48)
        let e : Int := if sig.length > 7 then 10000000 else digitsVal sig
        some (neg, mant, (if (pmSign r').1 then -e else e) - fl)
    else none

def pfsBody (neg : Bool) (r : List UInt8) : Option (Bool × Nat × Int) :=
  let ip := r.takeWhile isDigit
  let r1 := r.dropWhile isDigit
  if ip.isEmpty ∧ (pfsFrac r1).1.isEmpty then none
  else pfsExp neg (digitsVal (ip ++ (pfsFrac r1).1)) ((pfsFrac r1).1.length : Nat) (pfsFrac r1).2

theorem pfs_eq (s : List UInt8) : parseFloatSyntax s = pfsBody (pmSign s).1 (pmSign s).2 := rfl


/-! ## Explicit shapes of number literals -/
structure Lit where
  neg : Bool
  ip : List UInt8
  fp : Option (List UInt8)
  ex : Option (UInt8 × List UInt8 × List UInt8)

def sgn (neg : Bool) : List UInt8 := if neg then [45] else []
def fracPart : Option (List UInt8) → List UInt8
  | none => []
  | some f => 46 :: f
def expPart : Option (UInt8 × List UInt8 × List UInt8) → List UInt8
  | none => []
  | some (c, s, d) => c :: (s ++ d)
def Lit.render (x : Lit) : List UInt8 := sgn x.neg ++ (x.ip ++ (fracPart x.fp ++ expPart x.ex))

def ExpWF : Option (UInt8 × List UInt8 × List UInt8) → Prop
  | none => True
  | some (c, s, d) => (c = 101 ∨ c = 69) ∧ (s = [] ∨ s = [43] ∨ s = [45]) ∧ Dig d ∧ d ≠ []

def expOf (ex : Option (UInt8 × List UInt8 × List UInt8)) : Option (Bool × List UInt8) :=
  ex.map (fun p => (p.2.1 == [45], p.2.2))

structure Lit.Strict (x : Lit) : Prop where
  dig : Dig x.ip
  ne : x.ip ≠ []
  nlz : ¬ (x.ip.length > 1 ∧ x.ip.head? = some 48)
  frac : ∀ f, x.fp = some f → Dig f ∧ f ≠ []
  exp : ExpWF x.ex

def Lit.toNumLit (x : Lit) : Spec.NumLit := ⟨x.neg, x.ip, x.fp, expOf x.ex⟩

/-- the rest of the input does not continue a number -/
def NoCont (r : List UInt8) : Prop :=
  ∀ c r', r = c :: r' → isDigit c = false ∧ c ≠ 46 ∧ c ≠ 101 ∧ c ≠ 69

theorem NoCont.nodig {r} (h : NoCont r) : NoDig r := fun d r' e => (h d r' e).1

theorem pmSign_of {s d r : List UInt8} (hs : s = [] ∨ s = [43] ∨ s = [45]) (hd : Dig d) (hne : d ≠ []) :
    pmSign (s ++ (d ++ r)) = (s == [45], d ++ r) := by
  rcases hs with rfl | rfl | rfl
  · cases d with
    | nil => exact absurd rfl hne
    | cons a d' =>
      have ha := digit_ne a (hd a (by simp))
      unfold pmSign
      simp only [List.nil_append, List.cons_append]
      split
      · rename_i h; injection h with h1 _; exact absurd h1 ha.2.1
      · rename_i h; injection h with h1 _; exact absurd h1 ha.2.2.1
      · rfl
  · rfl
  · rfl

theorem specFrac_inv {s fr s'} (h : specFrac s = (fr, s', true)) :
    s = fracPart fr ++ s' ∧ (∀ f, fr = some f → Dig f ∧ f ≠ [] ∧ NoDig s') := by
  unfold specFrac at h
  split at h
  · rename_i r
    dsimp only at h
    split at h
    · simp at h
    · rename_i hne
      simp only [Prod.mk.injEq, and_true] at h
      obtain ⟨rfl, rfl⟩ := h
      refine ⟨by simp [fracPart], ?_⟩
      intro f hf
      injection hf with hf
      subst hf
      exact ⟨dig_tw r, by simpa using hne, nodig_dw r⟩
  · simp only [Prod.mk.injEq, and_true] at h
    obtain ⟨rfl, rfl⟩ := h
    exact ⟨by simp [fracPart], by intro f hf; cases hf⟩


theorem pmSign_inv (r : List UInt8) :
    ∃ sg, (sg = [] ∨ sg = [43] ∨ sg = [45]) ∧ r = sg ++ (pmSign r).2 ∧ (pmSign r).1 = (sg == [45]) := by
  unfold pmSign
  split
  · exact ⟨[43], by simp, rfl, rfl⟩
  · exact ⟨[45], by simp, rfl, rfl⟩
  · exact ⟨[], by simp, rfl, rfl⟩

theorem specExp_inv {s e s'} (h : specExp s = (e, s', true)) :
    ∃ ex, ExpWF ex ∧ s = expPart ex ++ s' ∧ e = expOf ex ∧ (ex ≠ none → NoDig s') := by
  unfold specExp at h
  split at h
  · rename_i c r
    split at h
    · rename_i hc
      dsimp only at h
      split at h
      · simp at h
      · rename_i hne
        simp only [Prod.mk.injEq, and_true] at h
        obtain ⟨rfl, rfl⟩ := h
        obtain ⟨sg, hsg, hr, hneg⟩ := pmSign_inv r
        refine ⟨some (c, sg, (pmSign r).2.takeWhile isDigit), ?_, ?_, ?_, ?_⟩
        · exact ⟨by simpa using hc, hsg, dig_tw _, by simpa using hne⟩
        · simp only [expPart, List.cons_append, List.append_assoc, List.takeWhile_append_dropWhile]
          rw [← hr]
        · simp [expOf, hneg]
        · intro _; exact nodig_dw _
    · simp only [Prod.mk.injEq, and_true] at h
      obtain ⟨rfl, rfl⟩ := h
      exact ⟨none, trivial, by simp [expPart], rfl, by simp⟩
  · simp only [Prod.mk.injEq, and_true] at h
    obtain ⟨rfl, rfl⟩ := h
    exact ⟨none, trivial, by simp [expPart], rfl, by simp⟩

theorem specSign_inv (s : List UInt8) : s = sgn (specSign s).1 ++ (specSign s).2 := by
  unfold specSign
  split <;> rfl

/-- A successful parse by the specification exhibits the literal's shape. -/
theorem shape_of_spec {s l r} (h : Spec.numberLit s = some (l, r)) :
    ∃ x : Lit, x.Strict ∧ s = x.render ++ r ∧ x.toNumLit = l := by
  rw [numberLit_eq] at h
  unfold specBody at h
  dsimp only at h
  split at h
  · cases h
  · rename_i h1
    split at h
    · cases h
    · rename_i h2
      split at h
      · cases h
      · rename_i h3
        simp only [Option.some.injEq, Prod.mk.injEq] at h
        obtain ⟨hl, hr⟩ := h
        generalize ht2 : List.dropWhile isDigit (specSign s).2 = t2 at *
        have hF : specFrac t2 = ((specFrac t2).1, (specFrac t2).2.1, true) := by
          simp only [Bool.not_eq_true, Bool.not_eq_false'] at h2
          rw [← h2]
        obtain ⟨hF1, hF2⟩ := specFrac_inv hF
        generalize ht3 : (specFrac t2).2.1 = t3 at *
        have hE : specExp t3 = ((specExp t3).1, (specExp t3).2.1, true) := by
          simp only [Bool.not_eq_true, Bool.not_eq_false'] at h3
          rw [← h3]
        obtain ⟨ex, hex, hE1, hE2, hE3⟩ := specExp_inv hE
        rw [hr] at hE1 hE3
        refine ⟨⟨(specSign s).1, List.takeWhile isDigit (specSign s).2, (specFrac t2).1, ex⟩, ?_, ?_, ?_⟩
        · refine ⟨dig_tw _, ?_, ?_, ?_, hex⟩
          · intro he; apply h1; left; simpa using he
          · intro hz; apply h1; right; simpa using hz
          · intro f hf; exact ⟨(hF2 f hf).1, (hF2 f hf).2.1⟩
        · simp only [Lit.render, List.append_assoc]
          rw [← hE1, ← hF1, ← ht2, List.takeWhile_append_dropWhile]
          exact specSign_inv s
        · rw [← hl, hE2]; rfl


theorem specFrac_some {f r : List UInt8} (hf : Dig f) (hne : f ≠ []) (hr : NoDig r) :
    specFrac (46 :: (f ++ r)) = (some f, r, true) := by
  unfold specFrac
  simp only [tw_dig hf hr, dw_dig hf hr]
  simp [hne]

theorem specFrac_none {r : List UInt8} (h : ∀ r', r ≠ 46 :: r') : specFrac r = (none, r, true) := by
  unfold specFrac
  split
  · exact absurd rfl (h _)
  · rfl

theorem specExp_some {c : UInt8} {sg d r : List UInt8} (h : ExpWF (some (c, sg, d))) (hr : NoDig r) :
    specExp (c :: ((sg ++ d) ++ r)) = (some (sg == [45], d), r, true) := by
  obtain ⟨hc, hsg, hd, hne⟩ := h
  unfold specExp
  have hc' : (c == 101 ∨ c == 69) := by simpa using hc
  simp only [hc', if_true, List.append_assoc, pmSign_of hsg hd hne, tw_dig hd hr, dw_dig hd hr]
  simp [hne]

theorem specExp_none {r : List UInt8} (h : ∀ c r', r = c :: r' → c ≠ 101 ∧ c ≠ 69) :
    specExp r = (none, r, true) := by
  unfold specExp
  split
  · rename_i c r'
    have := h c r' rfl
    simp [this.1, this.2]
  · rfl

theorem nodig_cons {c : UInt8} {r : List UInt8} (h : isDigit c = false) : NoDig (c :: r) := by
  intro d r' e
  injection e with e1 _
  rw [← e1]; exact h

theorem nodig_expPart {ex r} (h : ExpWF ex) (hr : NoDig r) : NoDig (expPart ex ++ r) := by
  cases ex with
  | none => simpa [expPart] using hr
  | some p =>
    obtain ⟨c, sg, d⟩ := p
    obtain ⟨hc, _⟩ := h
    simp only [expPart, List.cons_append]
    apply nodig_cons
    rcases hc with rfl | rfl <;> decide

/-- Conversely, a strict shape followed by something that does not continue a number is parsed
    by the specification into exactly that shape. -/
theorem spec_of_shape {x : Lit} (hx : x.Strict) {rest : List UInt8} (hrest : NoCont rest) :
    Spec.numberLit (x.render ++ rest) = some (x.toNumLit, rest) := by
  obtain ⟨neg, ip, fp, ex⟩ := x
  obtain ⟨hdig, hne, hnlz, hfrac, hexp⟩ := hx
  simp only at hdig hne hnlz hfrac hexp
  have hsign : specSign (Lit.render ⟨neg, ip, fp, ex⟩ ++ rest) = (neg, ip ++ (fracPart fp ++ (expPart ex ++ rest))) := by
    simp only [Lit.render, List.append_assoc]
    cases neg with
    | true => rfl
    | false =>
      simp only [sgn, Bool.false_eq_true, if_false, List.nil_append]
      apply specSign_pos
      intro r' he
      cases ip with
      | nil => exact hne rfl
      | cons a ip' =>
        injection he with h1 _
        exact (digit_ne a (hdig a (by simp))).2.2.1 h1
  have hnd : NoDig (fracPart fp ++ (expPart ex ++ rest)) := by
    cases fp with
    | none => simpa [fracPart] using nodig_expPart hexp hrest.nodig
    | some f => exact nodig_cons (by decide)
  rw [numberLit_eq, hsign]
  unfold specBody
  simp only [tw_dig hdig hnd, dw_dig hdig hnd]
  have h1 : ¬ (ip.isEmpty = true ∨ ip.length > 1 ∧ (ip.head? == some 48) = true) := by
    intro h
    rcases h with h | h
    · exact hne (by simpa using h)
    · exact hnlz (by simpa using h)
  have hF : specFrac (fracPart fp ++ (expPart ex ++ rest)) = (fp, expPart ex ++ rest, true) := by
    cases fp with
    | none =>
      simp only [fracPart, List.nil_append]
      apply specFrac_none
      intro r' he
      cases ex with
      | none =>
        simp only [expPart, List.nil_append] at he
        exact (hrest _ _ he).2.1 rfl
      | some p =>
        obtain ⟨c, sg, d⟩ := p
        simp only [expPart, List.cons_append] at he
        injection he with h1 _
        rcases hexp.1 with rfl | rfl <;> cases h1
    | some f =>
      simp only [fracPart, List.cons_append]
      exact specFrac_some (hfrac f rfl).1 (hfrac f rfl).2 (nodig_expPart hexp hrest.nodig)
  have hE : specExp (expPart ex ++ rest) = (expOf ex, rest, true) := by
    cases ex with
    | none =>
      simp only [expPart, List.nil_append]
      exact specExp_none (fun c r' he => (hrest c r' he).2.2)
    | some p =>
      obtain ⟨c, sg, d⟩ := p
      simp only [expPart, List.cons_append]
      exact specExp_some hexp hrest.nodig
  simp only [h1, if_false, hF, hE]
  rfl


/-! ## `parseFloatSyntax` on shapes -/
structure Lit.Loose (x : Lit) : Prop where
  dig : Dig x.ip
  frac : ∀ f, x.fp = some f → Dig f
  some : x.ip ≠ [] ∨ ∃ f, x.fp = some f ∧ f ≠ []
  exp : ExpWF x.ex

theorem Lit.Strict.loose {x : Lit} (h : x.Strict) : x.Loose :=
  ⟨h.dig, fun f hf => (h.frac f hf).1, Or.inl h.ne, h.exp⟩

def Lit.fdigits (x : Lit) : List UInt8 := x.fp.getD []
def Lit.mant (x : Lit) : Nat := digitsVal (x.ip ++ x.fdigits)
def e10 : Option (UInt8 × List UInt8 × List UInt8) → Int
  | none => 0
  | some (_, sg, d) =>
    let sig := d.dropWhile (· == 48)
    let e : Int := if sig.length > 7 then 10000000 else digitsVal sig
    if sg == [45] then -e else e
def Lit.expo (x : Lit) : Int := e10 x.ex - (x.fdigits.length : Nat)

theorem pmSign_pos {s : List UInt8} (h : ∀ r, s ≠ 43 :: r ∧ s ≠ 45 :: r) : pmSign s = (false, s) := by
  unfold pmSign
  split
  · exact absurd rfl (h _).1
  · exact absurd rfl (h _).2
  · rfl

theorem nodig_nil : NoDig [] := fun _ _ e => by cases e

theorem pfsFrac_of {fp : Option (List UInt8)} {ex} (hf : ∀ f, fp = some f → Dig f) (hex : ExpWF ex) :
    pfsFrac (fracPart fp ++ expPart ex) = (fp.getD [], expPart ex) := by
  have hnd : NoDig (expPart ex) := by simpa using nodig_expPart hex nodig_nil
  cases fp with
  | none =>
    simp only [fracPart, List.nil_append, Option.getD_none]
    unfold pfsFrac
    split
    · rename_i r' he
      cases ex with
      | none => cases he
      | some p =>
        obtain ⟨c, sg, d⟩ := p
        simp only [expPart] at he
        injection he with h1 _
        rcases hex.1 with rfl | rfl <;> cases h1
    · rfl
  | some f =>
    simp only [fracPart, List.cons_append, Option.getD_some]
    unfold pfsFrac
    simp only [tw_dig (hf f rfl) hnd, dw_dig (hf f rfl) hnd]

theorem pfsExp_of {ex} (hex : ExpWF ex) (neg : Bool) (m : Nat) (fl : Int) :
    pfsExp neg m fl (expPart ex) = some (neg, m, e10 ex - fl) := by
  cases ex with
  | none => simp [expPart, pfsExp, e10]
  | some p =>
    obtain ⟨c, sg, d⟩ := p
    obtain ⟨hc, hsg, hd, hne⟩ := hex
    have hc' : (c == 101 ∨ c == 69) := by simpa using hc
    have hs := pmSign_of (r := []) hsg hd hne
    rw [List.append_nil] at hs
    have hall : d.all isDigit = true := List.all_eq_true.mpr hd
    simp only [expPart, pfsExp, hc', if_true, hs, hall, e10]
    simp [hne]

theorem pfs_of_shape {x : Lit} (hx : x.Loose) :
    parseFloatSyntax x.render = some (x.neg, x.mant, x.expo) := by
  obtain ⟨neg, ip, fp, ex⟩ := x
  obtain ⟨hdig, hfrac, hsome, hexp⟩ := hx
  simp only at hdig hfrac hsome hexp
  have hnd : NoDig (fracPart fp ++ expPart ex) := by
    cases fp with
    | none => simpa [fracPart] using nodig_expPart hexp nodig_nil
    | some f => exact nodig_cons (by decide)
  have hsign : pmSign (Lit.render ⟨neg, ip, fp, ex⟩) = (neg, ip ++ (fracPart fp ++ expPart ex)) := by
    simp only [Lit.render]
    cases neg with
    | true => rfl
    | false =>
      simp only [sgn, Bool.false_eq_true, if_false, List.nil_append]
      apply pmSign_pos
      intro r'
      cases ip with
      | nil =>
        rcases hsome with h | ⟨f, hf, _⟩
        · exact absurd rfl h
        · subst hf
          simp [fracPart]
      | cons a ip' =>
        have := digit_ne a (hdig a (by simp))
        simp [this.2.1, this.2.2.1]
  rw [pfs_eq, hsign]
  unfold pfsBody
  simp only [tw_dig hdig hnd, dw_dig hdig hnd, pfsFrac_of hfrac hexp]
  have h1 : ¬ (ip.isEmpty = true ∧ (fp.getD []).isEmpty = true) := by
    rintro ⟨h1, h2⟩
    rcases hsome with h | ⟨f, hf, hne⟩
    · exact h (by simpa using h1)
    · subst hf; exact hne (by simpa using h2)
  simp only [h1, if_false, pfsExp_of hexp]
  rfl


theorem pfsFrac_inv (r : List UInt8) :
    ∃ fp : Option (List UInt8), r = fracPart fp ++ (pfsFrac r).2 ∧ (pfsFrac r).1 = fp.getD [] ∧
      (∀ f, fp = some f → Dig f) ∧ (fp = none → ∀ r', r ≠ 46 :: r') := by
  unfold pfsFrac
  split
  · rename_i r'
    refine ⟨some (r'.takeWhile isDigit), by simp [fracPart], rfl, ?_, by simp⟩
    intro f hf; injection hf with hf; subst hf; exact dig_tw _
  · rename_i h
    exact ⟨none, by simp [fracPart], rfl, by simp, fun _ r' he => h r' he⟩

theorem pfsExp_inv {neg m fl r v} (h : pfsExp neg m fl r = some v) :
    ∃ ex, ExpWF ex ∧ r = expPart ex ∧ v = (neg, m, e10 ex - fl) := by
  unfold pfsExp at h
  split at h
  · refine ⟨none, trivial, rfl, ?_⟩
    simp only [Option.some.injEq] at h
    rw [← h]; simp [e10]
  · rename_i c r'
    split at h
    · rename_i hc
      split at h
      · cases h
      · rename_i hd
        obtain ⟨sg, hsg, hr, hneg⟩ := pmSign_inv r'
        simp only [not_or, Bool.not_eq_true, Bool.not_eq_eq_eq_not, Bool.not_true] at hd
        refine ⟨some (c, sg, (pmSign r').2), ⟨by simpa using hc, hsg, ?_, ?_⟩, ?_, ?_⟩
        · exact List.all_eq_true.mp (by simpa using hd.2)
        · intro he; simp [he] at hd
        · simp only [expPart]; rw [← hr]
        · simp only [Option.some.injEq] at h
          rw [← h, hneg]; rfl
    · cases h

/-- Anything `parseFloatSyntax` accepts that does not start with `+` has a loose shape. -/
theorem shape_of_pfs {t : List UInt8} {v} (h : parseFloatSyntax t = some v) (hplus : ∀ r, t ≠ 43 :: r) :
    ∃ x : Lit, x.Loose ∧ t = x.render ∧ v = (x.neg, x.mant, x.expo) := by
  rw [pfs_eq] at h
  obtain ⟨sg, hsg, ht, hneg⟩ := pmSign_inv t
  have hsg' : sg = sgn (pmSign t).1 := by
    rcases hsg with rfl | rfl | rfl
    · rw [hneg]; rfl
    · exact absurd ht (hplus _)
    · rw [hneg]; rfl
  unfold pfsBody at h
  dsimp only at h
  split at h
  · cases h
  · rename_i h1
    obtain ⟨fp, hfr, hfd, hfdig, _⟩ := pfsFrac_inv (List.dropWhile isDigit (pmSign t).2)
    obtain ⟨ex, hex, hr, hv⟩ := pfsExp_inv h
    refine ⟨⟨(pmSign t).1, List.takeWhile isDigit (pmSign t).2, fp, ex⟩, ⟨dig_tw _, hfdig, ?_, hex⟩, ?_, ?_⟩
    · simp only
      by_cases hip : List.takeWhile isDigit (pmSign t).2 = []
      · right
        cases fp with
        | none => exfalso; apply h1; simp [hip, hfd]
        | some f =>
          refine ⟨f, rfl, ?_⟩
          intro hf; apply h1; simp [hip, hfd, hf]
      · left; exact hip
    · simp only [Lit.render]
      rw [← hr, ← hfr, List.takeWhile_append_dropWhile, ← hsg']
      exact ht
    · rw [hv]
      simp only [Lit.mant, Lit.expo, Lit.fdigits, hfd]


/-! ## What `scan` accepts -/
def nextDigit (r : List UInt8) : Bool :=
  match r with
  | d :: _ => isDigit d
  | [] => false

/-- every `.` and `-` is followed by a digit -/
def followOk : List UInt8 → Bool
  | [] => true
  | c :: r => (if c == 46 || c == 45 then nextDigit r else true) && followOk r

def Alpha (tok : List UInt8) : Prop := ∀ c ∈ tok, numRune c ≠ 0 ∧ numRune c ≠ 8
def Stop (rest : List UInt8) : Prop := rest = [] ∨ numRune (rest.headD 0) = 8
def orRunes (tok : List UInt8) (f : Nat) : Nat := tok.foldl (fun a c => a ||| numRune c) f

theorem scan_of_tok : ∀ (tok rest : List UInt8) (i f : Nat), Alpha tok → followOk tok = true → Stop rest →
    scan (tok ++ rest) i f = some (i + tok.length, orRunes tok f) := by
  intro tok
  induction tok with
  | nil =>
    intro rest i f _ _ hs
    rcases hs with rfl | hs
    · simp [scan, orRunes]
    · cases rest with
      | nil => simp [scan, orRunes]
      | cons v r =>
        simp only [List.headD_cons] at hs
        simp [scan, hs, orRunes]
  | cons c tok ih =>
    intro rest i f ha hf hs
    have hc := ha c (by simp)
    simp only [followOk, Bool.and_eq_true] at hf
    have h3 : ¬ (numRune c &&& 32 > 0 ∧ (tok ++ rest = [] ∨ numRune ((tok ++ rest).headD 0) &&& 16 = 0)) := by
      rintro ⟨h32, hnx⟩
      have hc2 := (rune_must c).mp h32
      have hnd : nextDigit tok = true := by
        have := hf.1
        rcases hc2 with rfl | rfl <;> simpa using this
      cases tok with
      | nil => simp [nextDigit] at hnd
      | cons d tok' =>
        simp only [nextDigit] at hnd
        rcases hnx with h | h
        · simp at h
        · simp only [List.cons_append, List.headD_cons] at h
          rw [(rune_dflag d).mp h] at hnd
          cases hnd
    have := ih rest (i + 1) (f ||| numRune c) (fun c' hc' => ha c' (by simp [hc'])) hf.2 hs
    simp only [List.cons_append, scan, hc.1, hc.2, h3, if_false, this, orRunes, List.foldl_cons, List.length_cons]
    congr 2
    omega

theorem scan_inv : ∀ (L : List UInt8) (i f p f' : Nat), scan L i f = some (p, f') →
    ∃ tok rest, L = tok ++ rest ∧ Alpha tok ∧ followOk tok = true ∧ Stop rest ∧ p = i + tok.length ∧ f' = orRunes tok f := by
  intro L
  induction L with
  | nil =>
    intro i f p f' h
    simp only [scan, Option.some.injEq, Prod.mk.injEq] at h
    exact ⟨[], [], rfl, by simp [Alpha], rfl, Or.inl rfl, by simp [h.1], by simp [orRunes, h.2]⟩
  | cons v r ih =>
    intro i f p f' h
    unfold scan at h
    split at h
    · cases h
    · rename_i h0
      split at h
      · rename_i h8
        simp only [Option.some.injEq, Prod.mk.injEq] at h
        exact ⟨[], v :: r, rfl, by simp [Alpha], rfl, Or.inr (by simpa using h8), by simp [h.1], by simp [orRunes, h.2]⟩
      · rename_i h8
        split at h
        · cases h
        · rename_i h3
          obtain ⟨tok, rest, hL, ha, hf, hs, hp, hf'⟩ := ih _ _ _ _ h
          refine ⟨v :: tok, rest, by simp [hL], ?_, ?_, hs, by simp [hp]; omega, by simp [hf', orRunes]⟩
          · intro c hc
            rcases List.mem_cons.mp hc with rfl | hc
            · exact ⟨h0, h8⟩
            · exact ha c hc
          · simp only [followOk, hf, Bool.and_true]
            split
            · rename_i hv
              have h32 : numRune v &&& 32 > 0 := (rune_must v).mpr (by simpa using hv)
              simp only [h32, true_and, not_or] at h3
              obtain ⟨hne, hd⟩ := h3
              cases r with
              | nil => exact absurd rfl hne
              | cons d r' =>
                simp only [List.headD_cons] at hd
                have hdig : isDigit d = true := by
                  cases hh : isDigit d
                  · exact absurd ((rune_dflag d).mpr hh) hd
                  · rfl
                cases tok with
                | nil =>
                  simp only [List.nil_append] at hL
                  rcases hs with hs | hs
                  · rw [hs] at hL; cases hL
                  · rw [← hL] at hs
                    simp only [List.headD_cons] at hs
                    have := (rune_eov d hs).1
                    rw [hdig] at this; cases this
                | cons d' tok' =>
                  simp only [List.cons_append] at hL
                  have h1 := (List.cons.inj hL).1
                  rw [← h1]; exact hdig
            · rfl


def isIntTok (tok : List UInt8) : Bool := tok.all (fun c => c != 46 && c != 101 && c != 69)
def hasMinus (tok : List UInt8) : Bool := tok.any (· == 45)

theorem orRunes_float : ∀ (tok : List UInt8) (f : Nat),
    (orRunes tok f &&& 2 == 0) = ((f &&& 2 == 0) && isIntTok tok) := by
  intro tok
  induction tok with
  | nil => intro f; simp [orRunes, isIntTok]
  | cons c tok ih =>
    intro f
    have h := ih (f ||| numRune c)
    simp only [orRunes, List.foldl_cons] at h ⊢
    rw [h, Bool.eq_iff_iff]
    simp only [isIntTok, List.all_cons, Bool.and_eq_true, beq_iff_eq, Nat.and_or_distrib_right,
      Nat.or_eq_zero_iff, rune_float c, bne_iff_ne, ne_eq]
    simp only [and_assoc]

theorem orRunes_minus : ∀ (tok : List UInt8) (f : Nat),
    (orRunes tok f &&& 4 != 0) = ((f &&& 4 != 0) || hasMinus tok) := by
  intro tok
  induction tok with
  | nil => intro f; simp [orRunes, hasMinus]
  | cons c tok ih =>
    intro f
    have h := ih (f ||| numRune c)
    simp only [orRunes, List.foldl_cons] at h ⊢
    rw [h, Bool.eq_iff_iff]
    simp only [hasMinus, List.any_cons, Bool.or_eq_true, bne_iff_ne, ne_eq, beq_iff_eq, Nat.and_or_distrib_right,
      Nat.or_eq_zero_iff]
    have := rune_minus c
    by_cases hc : c = 45
    · have h4 : ¬ (numRune c &&& 4 = 0) := fun h0 => (this.mp h0) hc
      subst hc
      simp only [h4, and_false, not_false_eq_true, true_or, or_true]
    · have h4 : numRune c &&& 4 = 0 := this.mpr hc
      simp [hc, h4]

/-- `parseNumberL` on a well-formed token followed by an end-of-value byte (or the end of the buffer). -/
theorem parseNumberL_tok {tok rest : List UInt8} (ha : Alpha tok) (hf : followOk tok = true) (hs : Stop rest) :
    parseNumberL (tok ++ rest) = core (tok ++ rest) tok.length (isIntTok tok) (hasMinus tok) := by
  unfold parseNumberL
  rw [scan_of_tok tok rest 0 0 ha hf hs]
  simp only [cisFloatOnlyFlag, cisMinusFlag, orRunes_float, orRunes_minus, Nat.zero_add]
  simp

/-- if `parseNumberL` returns something, the input splits into such a token and rest -/
theorem parseNumberL_inv {L : List UInt8} {v} (h : parseNumberL L = some v) :
    ∃ tok rest, L = tok ++ rest ∧ Alpha tok ∧ followOk tok = true ∧ Stop rest ∧
      core L tok.length (isIntTok tok) (hasMinus tok) = some v := by
  unfold parseNumberL at h
  split at h
  · cases h
  · rename_i pos found hsc
    obtain ⟨tok, rest, hL, ha, hf, hs, hp, hf'⟩ := scan_inv _ _ _ _ _ hsc
    refine ⟨tok, rest, hL, ha, hf, hs, ?_⟩
    rw [← h, hp, hf']
    simp only [cisFloatOnlyFlag, cisMinusFlag, orRunes_float, orRunes_minus, Nat.zero_add]
    simp


/-! ## Properties of rendered shapes -/
theorem alpha_append {a b : List UInt8} (ha : Alpha a) (hb : Alpha b) : Alpha (a ++ b) := by
  intro c hc
  rcases List.mem_append.mp hc with h | h
  · exact ha c h
  · exact hb c h

theorem alpha_dig {ds : List UInt8} (h : Dig ds) : Alpha ds :=
  fun c hc => (rune_alpha c).mpr (Or.inl (h c hc))

theorem alpha_sgn (neg : Bool) : Alpha (sgn neg) := by
  cases neg
  · intro c hc; simp [sgn] at hc
  · intro c hc
    simp only [sgn, if_true, List.mem_singleton] at hc
    subst hc; exact (rune_alpha 45).mpr (by decide)

theorem alpha_expPart {ex} (h : ExpWF ex) : Alpha (expPart ex) := by
  cases ex with
  | none => intro c hc; simp [expPart] at hc
  | some p =>
    obtain ⟨c, sg, d⟩ := p
    obtain ⟨hc, hsg, hd, _⟩ := h
    intro b hb
    simp only [expPart, List.mem_cons, List.mem_append] at hb
    apply (rune_alpha b).mpr
    rcases hb with rfl | hb | hb
    · rcases hc with rfl | rfl <;> decide
    · rcases hsg with rfl | rfl | rfl
      · simp at hb
      · simp only [List.mem_singleton] at hb; subst hb; decide
      · simp only [List.mem_singleton] at hb; subst hb; decide
    · exact Or.inl (hd b hb)

theorem alpha_render {x : Lit} (hx : x.Loose) : Alpha x.render := by
  unfold Lit.render
  refine alpha_append (alpha_sgn _) (alpha_append (alpha_dig hx.dig) (alpha_append ?_ (alpha_expPart hx.exp)))
  cases hfp : x.fp with
  | none => intro c hc; simp [fracPart] at hc
  | some f =>
    intro b hb
    simp only [fracPart, List.mem_cons] at hb
    rcases hb with rfl | hb
    · exact (rune_alpha 46).mpr (by decide)
    · exact alpha_dig (hx.frac f hfp) b hb

theorem followOk_dig {ds : List UInt8} (h : Dig ds) (r : List UInt8) : followOk (ds ++ r) = followOk r := by
  induction ds with
  | nil => rfl
  | cons a ds ih =>
    have ha := digit_ne a (h a (by simp))
    have : (a == 46 || a == 45) = false := by simp [ha.1, ha.2.2.1]
    simp only [List.cons_append, followOk, this, Bool.false_eq_true, if_false, Bool.true_and]
    exact ih (fun d hd => h d (by simp [hd]))

theorem nextDigit_dig {ds : List UInt8} (h : Dig ds) (hne : ds ≠ []) (r : List UInt8) : nextDigit (ds ++ r) = true := by
  cases ds with
  | nil => exact absurd rfl hne
  | cons a ds => exact h a (by simp)

theorem followOk_expPart {ex} (h : ExpWF ex) : followOk (expPart ex) = true := by
  cases ex with
  | none => rfl
  | some p =>
    obtain ⟨c, sg, d⟩ := p
    obtain ⟨hc, hsg, hd, hne⟩ := h
    have hd0 : followOk d = true := by
      have := followOk_dig hd []
      rw [List.append_nil] at this
      rw [this]; rfl
    have hc' : (c == 46 || c == 45) = false := by rcases hc with rfl | rfl <;> decide
    simp only [expPart, followOk, hc', Bool.false_eq_true, if_false, Bool.true_and]
    rcases hsg with rfl | rfl | rfl
    · simpa using hd0
    · simpa [followOk] using hd0
    · have := nextDigit_dig hd hne []
      rw [List.append_nil] at this
      simp [followOk, this, hd0]

theorem followOk_render {x : Lit} (hx : x.Strict) : followOk x.render = true := by
  obtain ⟨neg, ip, fp, ex⟩ := x
  obtain ⟨hdig, hne, hnlz, hfrac, hexp⟩ := hx
  simp only at hdig hne hnlz hfrac hexp
  have h1 : followOk (fracPart fp ++ expPart ex) = true := by
    cases fp with
    | none => simpa [fracPart] using followOk_expPart hexp
    | some f =>
      simp only [fracPart, List.cons_append, followOk, beq_self_eq_true, Bool.true_or, if_true,
        nextDigit_dig (hfrac f rfl).1 (hfrac f rfl).2, Bool.true_and, followOk_dig (hfrac f rfl).1]
      exact followOk_expPart hexp
  have h2 : followOk (ip ++ (fracPart fp ++ expPart ex)) = true := by rw [followOk_dig hdig]; exact h1
  cases neg with
  | false => simpa [Lit.render, sgn] using h2
  | true =>
    simp only [Lit.render, sgn, if_true, List.cons_append, List.nil_append, followOk, h2, Bool.and_true]
    simpa using nextDigit_dig hdig hne _

theorem isIntTok_append (a b : List UInt8) : isIntTok (a ++ b) = (isIntTok a && isIntTok b) := by
  simp [isIntTok, List.all_append]

theorem isIntTok_dig {ds : List UInt8} (h : Dig ds) : isIntTok ds = true := by
  simp only [isIntTok, List.all_eq_true, Bool.and_eq_true, bne_iff_ne, ne_eq]
  intro c hc
  have := digit_ne c (h c hc)
  exact ⟨⟨this.1, this.2.2.2.1⟩, this.2.2.2.2⟩

theorem isIntTok_sgn (neg : Bool) : isIntTok (sgn neg) = true := by cases neg <;> decide

theorem isIntTok_render {x : Lit} (hx : x.Loose) : isIntTok x.render = (x.fp.isNone && x.ex.isNone) := by
  obtain ⟨neg, ip, fp, ex⟩ := x
  simp only [Lit.render, isIntTok_append, isIntTok_sgn, isIntTok_dig hx.dig, Bool.true_and]
  cases fp with
  | some f => simp [fracPart, isIntTok]
  | none =>
    cases ex with
    | none => rfl
    | some p =>
      obtain ⟨c, sg, d⟩ := p
      have hc := hx.exp.1
      rcases hc with rfl | rfl <;> simp [fracPart, expPart, isIntTok]

theorem hasMinus_int {neg : Bool} {ip : List UInt8} (h : Dig ip) : hasMinus (sgn neg ++ ip) = neg := by
  have h0 : hasMinus ip = false := by
    simp only [hasMinus, List.any_eq_false, beq_iff_eq]
    intro c hc
    exact (digit_ne c (h c hc)).2.2.1
  cases neg
  · simpa [sgn] using h0
  · simp [sgn, hasMinus]


/-! ## `floatPath` and the leading-zero tests on shapes -/
theorem render_split (x : Lit) (rest : List UInt8) {a : UInt8} {ip' : List UInt8} (hip : x.ip = a :: ip') :
    x.render ++ rest = sgn x.neg ++ (a :: (ip' ++ (fracPart x.fp ++ expPart x.ex ++ rest))) := by
  simp [Lit.render, hip]

theorem render_length (x : Lit) :
    x.render.length = (sgn x.neg).length + (x.ip.length + ((fracPart x.fp).length + (expPart x.ex).length)) := by
  simp [Lit.render]

theorem tail_head {x : Lit} (hx : x.Loose) (rest : List UInt8) :
    (fracPart x.fp ++ expPart x.ex = []) ∨
      (∃ t r, fracPart x.fp ++ expPart x.ex ++ rest = t :: r ∧ ¬ (numRune t &&& 2 = 0)) := by
  cases hfp : x.fp with
  | some f =>
    right
    exact ⟨46, f ++ (expPart x.ex ++ rest), by simp [fracPart], fun h => ((rune_float 46).mp h).1 rfl⟩
  | none =>
    cases hex : x.ex with
    | none => left; simp [fracPart, expPart]
    | some p =>
      obtain ⟨c, sg, d⟩ := p
      right
      refine ⟨c, sg ++ (d ++ rest), by simp [fracPart, expPart], ?_⟩
      have := hx.exp
      rw [hex] at this
      intro h
      have h2 := (rune_float c).mp h
      rcases this.1 with rfl | rfl
      · exact h2.2.1 rfl
      · exact h2.2.2 rfl

theorem floatPath_strict {x : Lit} (hx : x.Strict) (rest : List UInt8) (tag : UInt64) :
    floatPath (x.render ++ rest) x.render.length tag =
      (F64.roundDecimal x.neg x.mant x.expo).map (fun b => (tag, b)) := by
  have hpf : parseFloat64 x.render = F64.roundDecimal x.neg x.mant x.expo := by
    simp only [parseFloat64, pfs_of_shape hx.loose]
  obtain ⟨a, ip', hip⟩ := List.exists_cons_of_ne_nil hx.ne
  have ha := digit_ne a (hx.dig a (by simp [hip]))
  have hcheck : ∀ (first : Nat), first = (sgn x.neg).length →
      (x.render ++ rest).getD first 0 = a →
      (x.render ++ rest).getD (first + 1) 0 = (ip' ++ (fracPart x.fp ++ expPart x.ex ++ rest)).getD 0 0 →
      ¬ (x.render.length > first + 1 ∧ ((x.render ++ rest).getD first 0 == 48) = true ∧
          (numRune ((x.render ++ rest).getD (first + 1) 0) &&& cisFloatOnlyFlag == 0) = true) := by
    intro first hfirst h1 h2
    rw [h1, h2]
    rintro ⟨hlen, h48, hfl⟩
    have h48' : a = 48 := by simpa using h48
    have hip' : ip' = [] := by
      cases ip' with
      | nil => rfl
      | cons b ip'' =>
        exfalso; apply hx.nlz
        rw [hip, h48']; simp
    subst hip'
    rw [render_length, hip, ← hfirst] at hlen
    simp only [List.length_cons, List.length_nil, List.nil_append] at hlen hfl
    rcases tail_head hx.loose rest with h | ⟨t, r, ht, hn⟩
    · have : (fracPart x.fp).length + (expPart x.ex).length = 0 := by
        rw [← List.length_append, h]; rfl
      omega
    · rw [ht] at hfl
      simp only [List.getD_cons_zero, cisFloatOnlyFlag, beq_iff_eq] at hfl
      exact hn hfl
  unfold floatPath
  rw [List.take_left' rfl, hpf]
  have hL := render_split x rest hip
  cases hneg : x.neg with
  | false =>
    rw [hneg] at hL
    have h0 : (x.render ++ rest).getD 0 0 = a := by rw [hL]; simp [sgn]
    have h1 : (x.render ++ rest).getD (0 + 1) 0 = (ip' ++ (fracPart x.fp ++ expPart x.ex ++ rest)).getD 0 0 := by
      rw [hL]; simp [sgn, List.getD]
    have hb : ((x.render ++ rest).getD 0 0 == 45) = false := by rw [h0]; simp [ha.2.2.1]
    have := hcheck 0 (by simp [hneg, sgn]) h0 h1
    simp only [hb, Bool.false_eq_true, if_false, this]
    cases F64.roundDecimal false x.mant x.expo <;> rfl
  | true =>
    rw [hneg] at hL
    have h0 : (x.render ++ rest).getD 0 0 = 45 := by rw [hL]; simp [sgn]
    have h1 : (x.render ++ rest).getD 1 0 = a := by rw [hL]; simp [sgn, List.getD]
    have h2 : (x.render ++ rest).getD (1 + 1) 0 = (ip' ++ (fracPart x.fp ++ expPart x.ex ++ rest)).getD 0 0 := by
      rw [hL]; simp [sgn, List.getD]
    have hb : ((x.render ++ rest).getD 0 0 == 45) = true := by rw [h0]; rfl
    have := hcheck 1 (by simp [hneg, sgn]) h1 h2
    simp only [hb, if_true, this, if_false]
    cases F64.roundDecimal true x.mant x.expo <;> rfl


theorem rune_dig2 {d : UInt8} (h : isDigit d = true) : numRune d &&& 2 = 0 := by
  have := digit_ne d h
  exact (rune_float d).mpr ⟨this.1, this.2.2.2.1, this.2.2.2.2⟩

/-- a superfluous leading zero makes the float path fail -/
theorem floatPath_lz {x : Lit} {d : UInt8} {ip'' : List UInt8} (hip : x.ip = 48 :: d :: ip'') (hd : isDigit d = true)
    (rest : List UInt8) (tag : UInt64) : floatPath (x.render ++ rest) x.render.length tag = none := by
  have hL := render_split x rest hip
  have hlen := render_length x
  rw [hip] at hlen
  simp only [List.length_cons] at hlen
  unfold floatPath
  cases hneg : x.neg with
  | false =>
    rw [hneg] at hL hlen
    have h0 : (x.render ++ rest).getD 0 0 = 48 := by rw [hL]; simp [sgn]
    have h1 : (x.render ++ rest).getD (0 + 1) 0 = d := by rw [hL]; simp [sgn, List.getD]
    have hb : ((x.render ++ rest).getD 0 0 == 45) = false := by rw [h0]; rfl
    simp only [hb, Bool.false_eq_true, if_false]
    simp only [h0, h1, cisFloatOnlyFlag, rune_dig2 hd]
    simp only [sgn, Bool.false_eq_true, if_false, List.length_nil] at hlen
    rw [if_pos]
    exact ⟨by omega, rfl, rfl⟩
  | true =>
    rw [hneg] at hL hlen
    have h0 : (x.render ++ rest).getD 0 0 = 45 := by rw [hL]; simp [sgn]
    have h1 : (x.render ++ rest).getD 1 0 = 48 := by rw [hL]; simp [sgn, List.getD]
    have h2 : (x.render ++ rest).getD (1 + 1) 0 = d := by rw [hL]; simp [sgn, List.getD]
    have hb : ((x.render ++ rest).getD 0 0 == 45) = true := by rw [h0]; rfl
    simp only [hb, if_true]
    simp only [h1, h2, cisFloatOnlyFlag, rune_dig2 hd]
    simp only [sgn, if_true, List.length_cons, List.length_nil] at hlen
    rw [if_pos]
    exact ⟨by omega, rfl, rfl⟩


/-! ## Integer literals -/
theorem digit_pos : ∀ b : UInt8, isDigit b = true → b ≠ 48 → b.toNat - 48 ≥ 1 := forall_u8 (by decide +kernel)

theorem foldl_lower (ds : List UInt8) : ∀ acc : Nat,
    ds.foldl (fun acc d => acc * 10 + (d.toNat - 48)) acc ≥ acc * 10 ^ ds.length := by
  induction ds with
  | nil => intro acc; simp
  | cons d ds ih =>
    intro acc
    simp only [List.foldl_cons, List.length_cons]
    have h := ih (acc * 10 + (d.toNat - 48))
    have h2 : (acc * 10 + (d.toNat - 48)) * 10 ^ ds.length ≥ acc * 10 * 10 ^ ds.length :=
      Nat.mul_le_mul_right _ (Nat.le_add_right _ _)
    rw [Nat.pow_succ, Nat.mul_comm (10 ^ ds.length) 10, ← Nat.mul_assoc]
    exact Nat.le_trans h2 h

theorem digitsVal_lower {a : UInt8} {ds : List UInt8} (ha : isDigit a = true) (ha0 : a ≠ 48) :
    digitsVal (a :: ds) ≥ 10 ^ ds.length := by
  unfold digitsVal
  simp only [List.foldl_cons, Nat.zero_mul, Nat.zero_add]
  have h := foldl_lower ds (a.toNat - 48)
  have h1 := digit_pos a ha ha0
  calc 10 ^ ds.length = 1 * 10 ^ ds.length := by simp
    _ ≤ (a.toNat - 48) * 10 ^ ds.length := Nat.mul_le_mul_right _ h1
    _ ≤ _ := h

def intBody (neg : Bool) (ds : List UInt8) : Except ConvErr Int :=
  if ds.isEmpty ∨ !ds.all isDigit then .error .syntax
  else
    let n := digitsVal ds
    if !neg ∧ n ≥ 2^63 then .error .range
    else if neg ∧ n > 2^63 then .error .range
    else .ok (if neg then -(n : Int) else n)

theorem parseInt64_eq (s : List UInt8) : parseInt64 s = intBody (pmSign s).1 (pmSign s).2 := rfl

theorem pmSign_sgn {neg : Bool} {ip : List UInt8} (hd : Dig ip) (hne : ip ≠ []) :
    pmSign (sgn neg ++ ip) = (neg, ip) := by
  have := pmSign_of (s := sgn neg) (d := ip) (r := []) (by cases neg <;> simp [sgn]) hd hne
  rw [List.append_nil] at this
  rw [this]
  cases neg <;> rfl

/-- the tape encoding of a specification number -/
def encode : Spec.Num → UInt64 × UInt64
  | .int z => (mkWord tagInteger 0, ofInt64 z)
  | .uint n => (mkWord tagUint 0, UInt64.ofNat n)
  | .float b flag => (if flag then mkWord tagFloat 0 ||| wFloatOverflowedInteger else mkWord tagFloat 0, b)


theorem intBody_dig {neg : Bool} {ip : List UInt8} (hd : Dig ip) (hne : ip ≠ []) :
    intBody neg ip =
      if !neg ∧ digitsVal ip ≥ 2^63 then .error .range
      else if neg ∧ digitsVal ip > 2^63 then .error .range
      else .ok (if neg then -(digitsVal ip : Int) else digitsVal ip) := by
  have hall : ip.all isDigit = true := List.all_eq_true.mpr hd
  have : ¬ (ip.isEmpty = true ∨ (!ip.all isDigit) = true) := by
    simp [hall, hne]
  unfold intBody
  rw [if_neg this]

theorem parseUint64_dig {ip : List UInt8} (hd : Dig ip) (hne : ip ≠ []) :
    parseUint64 ip = if digitsVal ip ≥ 2^64 then .error .range else .ok (digitsVal ip) := by
  have hall : ip.all isDigit = true := List.all_eq_true.mpr hd
  have : ¬ (ip.isEmpty = true ∨ (!ip.all isDigit) = true) := by
    simp [hall, hne]
  unfold parseUint64
  rw [if_neg this]

theorem int_core_pos {ip rest : List UInt8} (hx : (Lit.mk false ip none none).Strict) (hs : Stop rest) :
    parseNumberL (ip ++ rest) = (Spec.numValue ⟨false, ip, none, none⟩).map encode := by
  have hr : (Lit.mk false ip none none).render = ip := by simp [Lit.render, fracPart, expPart, sgn]
  have hfp := fun tag => floatPath_strict hx rest tag
  simp only [hr, Lit.mant, Lit.fdigits, Lit.expo, e10, Option.getD_none, List.append_nil, List.length_nil] at hfp
  have h1 := parseNumberL_tok (alpha_render hx.loose) (followOk_render hx) hs
  rw [isIntTok_render hx.loose, hr] at h1
  have hm := hasMinus_int (neg := false) hx.dig
  simp only [sgn, Bool.false_eq_true, if_false, List.nil_append] at hm
  rw [h1, hm]
  obtain ⟨hdig, hne, hnlz, -, -⟩ := hx
  simp only at hdig hne hnlz
  obtain ⟨a, ip', rfl⟩ := List.exists_cons_of_ne_nil hne
  unfold core
  have htake : List.take (a :: ip').length (a :: ip' ++ rest) = a :: ip' := List.take_left' rfl
  have hpi : parseInt64 (a :: ip') = intBody false (a :: ip') := by
    have := pmSign_sgn (neg := false) hdig hne
    simp only [sgn, Bool.false_eq_true, if_false, List.nil_append] at this
    rw [parseInt64_eq, this]
  have hlen0 : ((a :: ip').length == 0) = false := by simp
  have hb0 : (a :: ip' ++ rest).getD 0 0 = a := by simp
  have hz : ¬ ((!false) = true ∧ (a :: ip').length > 1 ∧ (a == 48) = true) := by
    rintro ⟨-, h2, h3⟩
    exact hnlz ⟨h2, by simpa using h3⟩
  simp only [hlen0, Bool.false_eq_true, if_false, htake, hb0, false_and, Option.isNone_none, Bool.and_self,
    true_and, Bool.not_false, if_true, hpi, intBody_dig hdig hne, parseUint64_dig hdig hne, hfp, cmaxIntLen]
  generalize hn : digitsVal (a :: ip') = n
  have hnum : Spec.numValue { neg := false, int := a :: ip', frac := none, exp := none } =
      if -(2^63 : Int) ≤ (n : Int) ∧ (n : Int) < 2^63 then some (.int n)
      else if 0 ≤ (n : Int) ∧ (n : Int) < 2^64 then some (.uint n)
      else (F64.roundDecimal false n 0).map (.float · true) := by
    simp only [Spec.numValue, digitsVal_eq, hn, Bool.false_eq_true, if_false]
  rw [hnum]
  have h00 : (0 : Int) - ((0 : Nat) : Int) = 0 := by simp
  have hz' : ¬ ((a :: ip').length > 1 ∧ (a == 48) = true) := fun h => hz ⟨rfl, h⟩
  rw [h00, if_neg hz']
  have hflag : encode ∘ (fun x => Spec.Num.float x true) = fun b => (mkWord tagFloat 0 ||| wFloatOverflowedInteger, b) := by
    funext b; simp [encode]
  by_cases hlen : (a :: ip').length ≤ 20
  · rw [if_pos hlen]
    by_cases h63 : n ≥ 2^63
    · have c1 : ¬ (-(2^63 : Int) ≤ (n : Int) ∧ (n : Int) < 2^63) := by omega
      rw [if_pos h63, if_neg c1]
      by_cases h64 : n ≥ 2^64
      · have c2 : ¬ (0 ≤ (n : Int) ∧ (n : Int) < 2^64) := by omega
        rw [if_pos h64, if_neg c2, Option.map_map, hflag]
        rfl
      · have c2 : (0 ≤ (n : Int) ∧ (n : Int) < 2^64) := by omega
        rw [if_neg h64, if_pos c2]
        rfl
    · have c1 : (-(2^63 : Int) ≤ (n : Int) ∧ (n : Int) < 2^63) := by omega
      rw [if_neg h63, if_pos c1]
      rfl
  · rw [if_neg hlen]
    have ha48 : a ≠ 48 := by
      intro h48
      apply hnlz
      constructor
      · omega
      · simp [h48]
    have hlow := digitsVal_lower (ds := ip') (hdig a (by simp)) ha48
    rw [hn] at hlow
    have hl20 : ip'.length ≥ 20 := by simp only [List.length_cons] at hlen; omega
    have hpow : 10 ^ 20 ≤ 10 ^ ip'.length := Nat.pow_le_pow_right (by decide) hl20
    have hbig : n ≥ 2^64 := by
      have : (2:Nat)^64 ≤ 10^20 := by decide
      omega
    have c1 : ¬ (-(2^63 : Int) ≤ (n : Int) ∧ (n : Int) < 2^63) := by omega
    have c2 : ¬ (0 ≤ (n : Int) ∧ (n : Int) < 2^64) := by omega
    rw [if_neg c1, if_neg c2, Option.map_map, hflag]


theorem int_core_neg {ip rest : List UInt8} (hx : (Lit.mk true ip none none).Strict) (hs : Stop rest) :
    parseNumberL (45 :: ip ++ rest) = (Spec.numValue ⟨true, ip, none, none⟩).map encode := by
  have hr : (Lit.mk true ip none none).render = 45 :: ip := by simp [Lit.render, fracPart, expPart, sgn]
  have hfp := fun tag => floatPath_strict hx rest tag
  simp only [hr, Lit.mant, Lit.fdigits, Lit.expo, e10, Option.getD_none, List.append_nil, List.length_nil] at hfp
  have h1 := parseNumberL_tok (alpha_render hx.loose) (followOk_render hx) hs
  rw [isIntTok_render hx.loose, hr] at h1
  have hm := hasMinus_int (neg := true) hx.dig
  simp only [sgn, if_true, List.cons_append, List.nil_append] at hm
  rw [h1, hm]
  obtain ⟨hdig, hne, hnlz, -, -⟩ := hx
  simp only at hdig hne hnlz
  obtain ⟨a, ip', rfl⟩ := List.exists_cons_of_ne_nil hne
  unfold core
  have htake : List.take (45 :: a :: ip').length (45 :: a :: ip' ++ rest) = 45 :: a :: ip' := List.take_left' rfl
  have hpi : parseInt64 (45 :: a :: ip') = intBody true (a :: ip') := by
    have := pmSign_sgn (neg := true) hdig hne
    simp only [sgn, if_true, List.cons_append, List.nil_append] at this
    rw [parseInt64_eq, this]
  have hlen0 : ((45 :: a :: ip').length == 0) = false := by simp
  have hb1 : (45 :: a :: ip' ++ rest).getD 1 0 = a := by simp [List.getD]
  simp only [hlen0, Bool.false_eq_true, if_false, htake, hb1, false_and, Option.isNone_none, Bool.and_self,
    true_and, Bool.not_true, if_true, hpi, intBody_dig hdig hne, hfp, cmaxIntLen]
  generalize hn : digitsVal (a :: ip') = n
  have hnum : Spec.numValue { neg := true, int := a :: ip', frac := none, exp := none } =
      if -(2^63 : Int) ≤ -(n : Int) ∧ -(n : Int) < 2^63 then some (.int (-(n : Int)))
      else if 0 ≤ -(n : Int) ∧ -(n : Int) < 2^64 then some (.uint n)
      else (F64.roundDecimal true n 0).map (.float · true) := by
    simp only [Spec.numValue, digitsVal_eq, hn, if_true]
  rw [hnum]
  have h00 : (0 : Int) - ((0 : Nat) : Int) = 0 := by simp
  have hz' : ¬ ((45 :: a :: ip').length > 2 ∧ (a == 48) = true) := by
    rintro ⟨h2, h3⟩
    apply hnlz
    simp only [List.length_cons] at h2 ⊢
    exact ⟨by omega, by simpa using h3⟩
  rw [h00, if_neg hz']
  have hflag : encode ∘ (fun x => Spec.Num.float x true) = fun b => (mkWord tagFloat 0 ||| wFloatOverflowedInteger, b) := by
    funext b; simp [encode]
  by_cases hlen : (45 :: a :: ip').length ≤ 20
  · rw [if_pos hlen]
    by_cases h63 : n > 2^63
    · have c1 : ¬ (-(2^63 : Int) ≤ -(n : Int) ∧ -(n : Int) < 2^63) := by omega
      have c2 : ¬ (0 ≤ -(n : Int) ∧ -(n : Int) < 2^64) := by omega
      rw [if_pos h63, if_neg c1, if_neg c2, Option.map_map, hflag]
      rfl
    · have c1 : (-(2^63 : Int) ≤ -(n : Int) ∧ -(n : Int) < 2^63) := by omega
      rw [if_neg h63, if_pos c1]
      rfl
  · rw [if_neg hlen]
    have hl20 : ip'.length ≥ 19 := by simp only [List.length_cons] at hlen; omega
    have ha48 : a ≠ 48 := by
      intro h48
      apply hnlz
      constructor
      · simp only [List.length_cons]; omega
      · simp [h48]
    have hlow := digitsVal_lower (ds := ip') (hdig a (by simp)) ha48
    rw [hn] at hlow
    have hpow : 10 ^ 19 ≤ 10 ^ ip'.length := Nat.pow_le_pow_right (by decide) hl20
    have hbig : n > 2^63 := by
      have : (2:Nat)^63 < 10^19 := by decide
      omega
    have c1 : ¬ (-(2^63 : Int) ≤ -(n : Int) ∧ -(n : Int) < 2^63) := by omega
    have c2 : ¬ (0 ≤ -(n : Int) ∧ -(n : Int) < 2^64) := by omega
    rw [if_neg c1, if_neg c2, Option.map_map, hflag]


/-! ## Literals with a fraction or an exponent -/
theorem numValue_float {x : Lit} (h : x.fp ≠ none ∨ x.ex ≠ none) :
    Spec.numValue x.toNumLit = (F64.roundDecimal x.neg x.mant x.expo).map (.float · false) := by
  obtain ⟨neg, ip, fp, ex⟩ := x
  cases fp with
  | none =>
    cases ex with
    | none => simp at h
    | some p =>
      obtain ⟨c, sg, d⟩ := p
      rfl
  | some f =>
    cases ex with
    | none => rfl
    | some p =>
      obtain ⟨c, sg, d⟩ := p
      rfl

theorem float_core {x : Lit} (hx : x.Strict) (hfl : x.fp ≠ none ∨ x.ex ≠ none) {rest : List UInt8} (hs : Stop rest) :
    parseNumberL (x.render ++ rest) = (Spec.numValue x.toNumLit).map encode := by
  rw [parseNumberL_tok (alpha_render hx.loose) (followOk_render hx) hs, isIntTok_render hx.loose, numValue_float hfl]
  have hfalse : (x.fp.isNone && x.ex.isNone) = false := by
    rcases hfl with h | h
    · cases hfp : x.fp with
      | none => exact absurd hfp h
      | some f => rfl
    · cases hex : x.ex with
      | none => exact absurd hex h
      | some f => simp
  have hlen0 : (x.render.length == 0) = false := by
    obtain ⟨a, ip', hip⟩ := List.exists_cons_of_ne_nil hx.ne
    rw [render_length, hip]
    simp
  unfold core
  simp only [hfalse, hlen0, Bool.false_eq_true, if_false, false_and, floatPath_strict hx, Option.map_map]
  rfl


/-- The model on any strict shape followed by an end-of-value byte (or the end of the buffer). -/
theorem model_of_strict {x : Lit} (hx : x.Strict) {rest : List UInt8} (hs : Stop rest) :
    parseNumberL (x.render ++ rest) = (Spec.numValue x.toNumLit).map encode := by
  by_cases hfl : x.fp ≠ none ∨ x.ex ≠ none
  · exact float_core hx hfl hs
  · obtain ⟨neg, ip, fp, ex⟩ := x
    simp only [ne_eq, not_or, Decidable.not_not] at hfl
    obtain ⟨rfl, rfl⟩ := hfl
    cases neg with
    | false =>
      have := int_core_pos hx hs
      simpa [Lit.render, fracPart, expPart, sgn, Lit.toNumLit, expOf] using this
    | true =>
      have := int_core_neg hx hs
      simpa [Lit.render, fracPart, expPart, sgn, Lit.toNumLit, expOf] using this

/-! ## Whatever the model accepts is grammatical -/
theorem floatPath_some {L : List UInt8} {pos : Nat} {tag : UInt64} {v} (h : floatPath L pos tag = some v) :
    ∃ w, parseFloatSyntax (L.take pos) = some w := by
  unfold floatPath at h
  simp only at h
  generalize (if (L.getD 0 0 == 45) = true then 1 else 0) = first at h
  split at h
  · cases h
  · unfold parseFloat64 at h
    cases hp : parseFloatSyntax (L.take pos) with
    | none => rw [hp] at h; cases h
    | some w => exact ⟨w, rfl⟩

theorem pfsBody_dig {neg : Bool} {ds : List UInt8} (hd : Dig ds) (hne : ds ≠ []) : ∃ w, pfsBody neg ds = some w := by
  have hl : (Lit.mk neg ds none none).Loose := ⟨hd, by simp, Or.inl hne, trivial⟩
  have h := pfs_of_shape hl
  have hr : (Lit.mk neg ds none none).render = sgn neg ++ ds := by simp [Lit.render, fracPart, expPart]
  rw [pfs_eq, hr, pmSign_sgn hd hne] at h
  exact ⟨_, h⟩

theorem parseInt64_ok_pfs {s : List UInt8} {z} (h : parseInt64 s = .ok z) : ∃ w, parseFloatSyntax s = some w := by
  rw [parseInt64_eq] at h
  rw [pfs_eq]
  generalize (pmSign s).1 = neg at *
  generalize (pmSign s).2 = ds at *
  unfold intBody at h
  split at h
  · cases h
  · rename_i hc
    simp only [not_or, Bool.not_eq_true, Bool.not_eq_eq_eq_not, Bool.not_true] at hc
    exact pfsBody_dig (List.all_eq_true.mp (by simpa using hc.2)) (by intro he; simp [he] at hc)

theorem parseUint64_ok_pfs {s : List UInt8} {n} (h : parseUint64 s = .ok n) : ∃ w, parseFloatSyntax s = some w := by
  unfold parseUint64 at h
  split at h
  · cases h
  · rename_i hc
    simp only [not_or, Bool.not_eq_true, Bool.not_eq_eq_eq_not, Bool.not_true] at hc
    have hd : Dig s := List.all_eq_true.mp (by simpa using hc.2)
    have hne : s ≠ [] := by intro he; simp [he] at hc
    have := pfsBody_dig (neg := false) hd hne
    have hs := pmSign_sgn (neg := false) hd hne
    simp only [sgn, Bool.false_eq_true, if_false, List.nil_append] at hs
    rw [pfs_eq, hs]
    exact this

theorem core_some {L : List UInt8} {pos : Nat} {isInt minus : Bool} {v} (h : core L pos isInt minus = some v) :
    ∃ w, parseFloatSyntax (L.take pos) = some w := by
  unfold core at h
  dsimp only at h
  split at h
  · cases h
  · split at h
    · split at h
      · cases h
      · split at h
        · cases h
        · split at h
          · rename_i z hz; exact parseInt64_ok_pfs hz
          · split at h
            · split at h
              · rename_i n hn; exact parseUint64_ok_pfs hn
              · exact floatPath_some h
            · exact floatPath_some h
    · split at h
      · exact floatPath_some h
      · exact floatPath_some h


theorem followOk_suffix : ∀ (a b : List UInt8), followOk (a ++ b) = true → followOk b = true := by
  intro a
  induction a with
  | nil => intro b h; exact h
  | cons c a ih =>
    intro b h
    simp only [List.cons_append, followOk, Bool.and_eq_true] at h
    exact ih b h.2

theorem nextDigit_expPart {ex} (h : ExpWF ex) : nextDigit (expPart ex) = false := by
  cases ex with
  | none => rfl
  | some p =>
    obtain ⟨c, sg, d⟩ := p
    simp only [expPart, nextDigit]
    rcases h.1 with rfl | rfl <;> decide

/-- a superfluous leading zero makes the whole of `core` fail -/
theorem core_lz {x : Lit} (hx : x.Loose) {d : UInt8} {ip'' : List UInt8} (hip : x.ip = 48 :: d :: ip'')
    (rest : List UInt8) :
    core (x.render ++ rest) x.render.length (isIntTok x.render) (hasMinus x.render) = none := by
  have hd : isDigit d = true := hx.dig d (by simp [hip])
  have hflz := fun tag => floatPath_lz hip hd rest tag
  rw [isIntTok_render hx]
  unfold core
  simp only [hflz]
  split
  · rfl
  · split
    · rename_i h
      obtain ⟨neg, ip, fp, ex⟩ := x
      simp only at hip
      subst hip
      have hfe : fp = none ∧ ex = none := by
        have := h.1
        cases fp <;> cases ex <;> simp at this ⊢
      obtain ⟨rfl, rfl⟩ := hfe
      have hr : (Lit.mk neg (48 :: d :: ip'') none none).render = sgn neg ++ (48 :: d :: ip'') := by
        simp [Lit.render, fracPart, expPart]
      rw [hr, hasMinus_int hx.dig]
      cases neg with
      | false => simp [sgn]
      | true => simp [sgn, List.getD]
    · split <;> rfl


/-- the first byte is `-` or a digit (what the stage-2 dispatcher guarantees before calling `parseNumber`) -/
def NumStart (L : List UInt8) : Prop := ∃ c r, L = c :: r ∧ (c = 45 ∨ isDigit c = true)

/-- Whatever `parseNumberL` accepts (on input starting with `-` or a digit) is a strict RFC 8259 shape
    followed by an end-of-value byte or the end of the buffer. -/
theorem strict_of_model {L : List UInt8} {v} (h : parseNumberL L = some v) (hstart : NumStart L) :
    ∃ (x : Lit) (rest : List UInt8), x.Strict ∧ Stop rest ∧ L = x.render ++ rest := by
  obtain ⟨tok, rest, hL, ha, hf, hs, hcore⟩ := parseNumberL_inv h
  obtain ⟨w, hw⟩ := core_some hcore
  have htake : L.take tok.length = tok := by rw [hL]; exact List.take_left' rfl
  rw [htake] at hw
  obtain ⟨c0, r0, hL0, hc0⟩ := hstart
  have hplus : ∀ r, tok ≠ 43 :: r := by
    intro r he
    rw [he, hL0] at hL
    simp only [List.cons_append] at hL
    have := (List.cons.inj hL).1
    subst this
    rcases hc0 with h | h <;> revert h <;> decide
  obtain ⟨x, hxl, hx, -⟩ := shape_of_pfs hw hplus
  refine ⟨x, rest, ⟨hxl.dig, ?_, ?_, ?_, hxl.exp⟩, hs, by rw [← hx]; exact hL⟩
  · -- the integer part is not empty
    intro hip
    rcases hxl.some with h1 | ⟨f, hfp, hfne⟩
    · exact h1 hip
    · have hr : x.render = sgn x.neg ++ (46 :: (f ++ expPart x.ex)) := by
        simp [Lit.render, hip, hfp, fracPart]
      cases hneg : x.neg with
      | false =>
        rw [hneg] at hr
        rw [hx, hr, hL0] at hL
        simp only [sgn, Bool.false_eq_true, if_false, List.nil_append, List.cons_append] at hL
        have := (List.cons.inj hL).1
        subst this
        rcases hc0 with h | h <;> revert h <;> decide
      | true =>
        rw [hneg] at hr
        rw [hx, hr] at hf
        simp only [sgn, if_true, List.cons_append, List.nil_append, followOk, nextDigit, Bool.and_eq_true] at hf
        have h46 := hf.1
        simp only [beq_self_eq_true, Bool.or_true, if_true] at h46
        revert h46; decide
  · -- no superfluous leading zero
    rintro ⟨hlen, hhd⟩
    cases hip : x.ip with
    | nil => rw [hip] at hlen; simp at hlen
    | cons a ip' =>
      cases ip' with
      | nil => rw [hip] at hlen; simp at hlen
      | cons d ip'' =>
        rw [hip] at hhd
        simp only [List.head?_cons, Option.some.injEq] at hhd
        subst hhd
        have := core_lz hxl hip rest
        rw [← hx, ← hL, hcore] at this
        cases this
  · -- a fraction has at least one digit
    intro f hfp
    refine ⟨hxl.frac f hfp, ?_⟩
    intro hfe
    subst hfe
    have hr : x.render = (sgn x.neg ++ x.ip) ++ (46 :: expPart x.ex) := by
      simp [Lit.render, hfp, fracPart]
    rw [hx, hr] at hf
    have := followOk_suffix _ _ hf
    simp [followOk, nextDigit_expPart hxl.exp] at this


/-! ## Main theorems -/
instance (r : List UInt8) : Decidable (Stop r) := inferInstanceAs (Decidable (_ ∨ _))

theorem Stop.nocont {r : List UInt8} (h : Stop r) : NoCont r := by
  intro c r' he
  subst he
  rcases h with h | h
  · cases h
  · have := rune_eov c (by simpa using h)
    exact ⟨this.1, this.2.1, this.2.2.2.2.1, this.2.2.2.2.2⟩

/-- **Model = specification on lists.**  On input that starts with `-` or a digit, the model of
    `parseNumber` returns exactly what the RFC 8259 grammar and the C03 value function prescribe:
    the literal must be a grammatical number followed by an end-of-value byte (or the end of the
    buffer), and then the result is the encoded `Spec.numValue`. -/
theorem parseNumberL_spec (L : List UInt8) (hstart : NumStart L) :
    parseNumberL L =
      match Spec.numberLit L with
      | some (l, r) => if Stop r then (Spec.numValue l).map encode else none
      | none => none := by
  have key : ∀ v, parseNumberL L = some v → ∃ x : Lit, ∃ rest, x.Strict ∧ Stop rest ∧
      Spec.numberLit L = some (x.toNumLit, rest) := by
    intro v hv
    obtain ⟨x, rest, hx, hs, hL⟩ := strict_of_model hv hstart
    exact ⟨x, rest, hx, hs, by rw [hL]; exact spec_of_shape hx hs.nocont⟩
  cases hnl : Spec.numberLit L with
  | none =>
    simp only
    cases hp : parseNumberL L with
    | none => rfl
    | some v =>
      obtain ⟨x, rest, -, -, h⟩ := key v hp
      rw [hnl] at h; cases h
  | some lr =>
    obtain ⟨l, r⟩ := lr
    simp only
    by_cases hs : Stop r
    · rw [if_pos hs]
      obtain ⟨x, hx, hL, hl⟩ := shape_of_spec hnl
      rw [hL, ← hl]
      exact model_of_strict hx hs
    · rw [if_neg hs]
      cases hp : parseNumberL L with
      | none => rfl
      | some v =>
        obtain ⟨x, rest, -, hs', h⟩ := key v hp
        rw [hnl] at h
        simp only [Option.some.injEq, Prod.mk.injEq] at h
        rw [h.2] at hs
        exact absurd hs' hs

/-- The same for the model function itself, at any start offset. -/
theorem parseNumber_spec (buf : Bytes) (start : Nat) (hstart : NumStart (buf.toList.drop start)) :
    parseNumber buf start =
      match Spec.numberLit (buf.toList.drop start) with
      | some (l, r) => if Stop r then (Spec.numValue l).map encode else none
      | none => none := by
  rw [parseNumber_eq]
  exact parseNumberL_spec _ hstart


/-! ## The theorems in the form the property list asks for -/

theorem stop_eov {t : UInt8} (ht : numRune t = 8) (rest : List UInt8) : Stop (t :: rest) := Or.inr (by simpa using ht)

/-- **1. integer_literal.**  `lit = (minus?) ++ digits`, digits non-empty without a superfluous leading zero,
    followed by an end-of-value byte `t` and anything. -/
theorem integer_literal (neg : Bool) (digits rest : List UInt8) (t : UInt8)
    (hne : digits ≠ []) (hdig : ∀ d ∈ digits, isDigit d = true)
    (hlz : digits = [48] ∨ digits.head? ≠ some 48) (ht : numRune t = 8) :
    parseNumber (((if neg then [45] else []) ++ digits) ++ t :: rest).toArray 0 =
      (let z : Int := if neg then -(digitsVal digits : Int) else digitsVal digits
       if -(2^63 : Int) ≤ z ∧ z < 2^63 then some (mkWord tagInteger 0, ofInt64 z)
       else if 0 ≤ z ∧ z < 2^64 then some (mkWord tagUint 0, UInt64.ofNat z.toNat)
       else (F64.roundDecimal neg (digitsVal digits) 0).map
              (fun b => (mkWord tagFloat 0 ||| wFloatOverflowedInteger, b))) := by
  have hx : (Lit.mk neg digits none none).Strict := by
    refine ⟨hdig, hne, ?_, by simp, trivial⟩
    rintro ⟨h1, h2⟩
    rcases hlz with h | h
    · rw [h] at h1; simp at h1
    · exact h h2
  have h := model_of_strict hx (stop_eov ht rest)
  have hr : (Lit.mk neg digits none none).render = (if neg then [45] else []) ++ digits := by
    simp [Lit.render, fracPart, expPart, sgn]
  rw [hr] at h
  rw [parseNumber_eq]
  simp only [List.drop_zero]
  rw [h]
  simp only [Lit.toNumLit, expOf, Option.map_none, Spec.numValue, digitsVal_eq]
  cases neg with
  | false =>
    simp only [Bool.false_eq_true, if_false]
    generalize digitsVal digits = n
    split
    · rfl
    · split
      · simp [encode]
      · rw [Option.map_map]; rfl
  | true =>
    simp only [if_true]
    generalize digitsVal digits = n
    split
    · rfl
    · split
      · rename_i h1 h2
        exfalso; omega
      · rw [Option.map_map]; rfl


/-- **2. leading_zero_rejected.**  `0` or `-0` followed by a digit, then anything at all
    (more digits, a fraction, an exponent, garbage, with or without an end-of-value byte). -/
theorem leading_zero_rejected (neg : Bool) (d : UInt8) (more : List UInt8) (hd : isDigit d = true) :
    parseNumber ((if neg then [45] else []) ++ 48 :: d :: more).toArray 0 = none := by
  have hstart : NumStart ((if neg then [45] else []) ++ 48 :: d :: more) := by
    cases neg
    · exact ⟨48, d :: more, rfl, Or.inr (by decide)⟩
    · exact ⟨45, 48 :: d :: more, rfl, Or.inl rfl⟩
  have hspec : Spec.numberLit ((if neg then [45] else []) ++ 48 :: d :: more) = none := by
    have hsign : specSign ((if neg then [45] else []) ++ 48 :: d :: more) = (neg, 48 :: d :: more) := by
      cases neg
      · exact specSign_pos _ (by intro r he; simp at he)
      · rfl
    rw [numberLit_eq, hsign]
    unfold specBody
    have h48 : isDigit 48 = true := by decide
    simp [hd, h48]
  rw [parseNumber_spec _ 0 (by simpa using hstart)]
  simp only [List.drop_zero, hspec]

/-- **3. float_literal.**  A grammatical literal with a fraction and/or an exponent, followed by an
    end-of-value byte: the correctly rounded binary64 of `m · 10^e`, tag `d`, overflow flag clear; `none`
    exactly when that value is not finite. -/
theorem float_literal (lit rest : List UInt8) (l : Spec.NumLit) (t : UInt8)
    (hlit : Spec.numberLit lit = some (l, [])) (hfl : l.frac.isSome ∨ l.exp.isSome) (ht : numRune t = 8) :
    parseNumber (lit ++ t :: rest).toArray 0 =
      (let fp := l.frac.getD []
       let m := digitsVal (l.int ++ fp)
       let e10 : Int :=
         match l.exp with
         | none => 0
         | some (eneg, ds) =>
           let sig := ds.dropWhile (· == 0x30)
           let e : Int := if sig.length > 7 then 10000000 else digitsVal sig
           if eneg then -e else e
       (F64.roundDecimal l.neg m (e10 - fp.length)).map (fun b => (mkWord tagFloat 0, b))) ∧
    parseNumber (lit ++ t :: rest).toArray 0 = (Spec.numValue l).map encode := by
  obtain ⟨x, hx, hL, hl⟩ := shape_of_spec hlit
  rw [List.append_nil] at hL
  have h := model_of_strict hx (stop_eov ht rest)
  rw [parseNumber_eq, List.drop_zero, hL, h, hl]
  refine ⟨?_, rfl⟩
  obtain ⟨neg, int, frac, exp⟩ := l
  simp only at hfl ⊢
  cases frac with
  | none =>
    cases exp with
    | none => simp at hfl
    | some p => simp only [Spec.numValue, Option.map_map]; rfl
  | some f =>
    simp only [Spec.numValue, Option.map_map]; rfl

/-- **4a. agrees_with_spec (acceptance).**  Any grammatical literal followed by an end-of-value byte. -/
theorem agrees_with_spec (s rest : List UInt8) (l : Spec.NumLit) (t : UInt8)
    (hs : Spec.numberLit s = some (l, [])) (ht : numRune t = 8) :
    parseNumber (s ++ t :: rest).toArray 0 = (Spec.numValue l).map encode := by
  obtain ⟨x, hx, hL, hl⟩ := shape_of_spec hs
  rw [List.append_nil] at hL
  have h := model_of_strict hx (stop_eov ht rest)
  rw [parseNumber_eq, List.drop_zero, hL, h, hl]

/-- … and when the literal runs to the end of the buffer. -/
theorem agrees_with_spec_eof (s : List UInt8) (l : Spec.NumLit) (hs : Spec.numberLit s = some (l, [])) :
    parseNumber s.toArray 0 = (Spec.numValue l).map encode := by
  obtain ⟨x, hx, hL, hl⟩ := shape_of_spec hs
  have h := model_of_strict hx (rest := []) (Or.inl rfl)
  rw [parseNumber_eq, List.drop_zero, hL, h, hl]

/-- **4b. agrees_with_spec (rejection), whole-buffer form.**  If the buffer starts with `-` or a digit and the
    grammar fails on it, or succeeds but what follows the literal is neither the end of the buffer nor an
    end-of-value byte, the model rejects. -/
theorem rejects_with_spec (L : List UInt8) (hstart : NumStart L)
    (h : Spec.numberLit L = none ∨ ∃ l r, Spec.numberLit L = some (l, r) ∧ ¬ Stop r) :
    parseNumber L.toArray 0 = none := by
  rw [parseNumber_spec _ 0 (by simpa using hstart)]
  simp only [List.drop_zero]
  rcases h with h | ⟨l, r, h, hr⟩
  · rw [h]
  · rw [h]; simp only [if_neg hr]


/-- **4c. agrees_with_spec (rejection), in the `s ++ t :: rest` form.**  `s` starts with `-` or a digit and the
    grammar either fails on `s` or leaves a non-empty remainder that does not start with an end-of-value
    byte; then `s` followed by an end-of-value byte is rejected. -/
theorem rejects_with_spec_eov (s rest : List UInt8) (t : UInt8) (hstart : NumStart s) (ht : numRune t = 8)
    (h : Spec.numberLit s = none ∨ ∃ l c r, Spec.numberLit s = some (l, c :: r) ∧ numRune c ≠ 8) :
    parseNumber (s ++ t :: rest).toArray 0 = none := by
  rw [parseNumber_eq, List.drop_zero]
  cases hp : parseNumberL (s ++ t :: rest) with
  | none => rfl
  | some v =>
    exfalso
    have hstart' : NumStart (s ++ t :: rest) := by
      obtain ⟨c, r, rfl, hc⟩ := hstart
      exact ⟨c, r ++ t :: rest, rfl, hc⟩
    obtain ⟨x, rest', hx, hs', hL⟩ := strict_of_model hp hstart'
    have halpha := alpha_render hx.loose
    -- in both alignments the grammar accepts `s` with remainder `[]` or a remainder starting with an end-of-value byte
    have hcontra : ∃ r, Stop r ∧ Spec.numberLit s = some (x.toNumLit, r) := by
      rcases List.append_eq_append_iff.mp hL with ⟨a', h1, h2⟩ | ⟨c', h1, h2⟩
      · -- x.render = s ++ a'
        cases a' with
        | nil =>
          rw [List.append_nil] at h1
          refine ⟨[], Or.inl rfl, ?_⟩
          have := spec_of_shape hx (rest := []) (Stop.nocont (Or.inl rfl))
          rw [List.append_nil, h1] at this
          exact this
        | cons b a'' =>
          exfalso
          simp only [List.cons_append] at h2
          have hb : b = t := (List.cons.inj h2).1.symm
          subst hb
          exact (halpha b (by rw [h1]; simp)).2 ht
      · -- s = x.render ++ c'
        cases c' with
        | nil =>
          rw [List.append_nil] at h1
          refine ⟨[], Or.inl rfl, ?_⟩
          have := spec_of_shape hx (rest := []) (Stop.nocont (Or.inl rfl))
          rw [List.append_nil, ← h1] at this
          exact this
        | cons c c'' =>
          have hsc : Stop (c :: c'') := by
            rw [h2] at hs'
            rcases hs' with h | h
            · simp at h
            · exact Or.inr (by simpa using h)
          exact ⟨c :: c'', hsc, by rw [h1]; exact spec_of_shape hx hsc.nocont⟩
    obtain ⟨r, hr, hnl⟩ := hcontra
    rcases h with h | ⟨l, c, r', h, hc⟩
    · rw [h] at hnl; cases hnl
    · rw [h] at hnl
      simp only [Option.some.injEq, Prod.mk.injEq] at hnl
      rw [← hnl.2] at hr
      rcases hr with hr | hr
      · cases hr
      · exact hc (by simpa using hr)


/-! ## Tests (not theorems): why `NumStart` is needed in the rejection statements

`parseNumber` itself accepts a leading `+` (through `strconv.ParseInt`/`ParseFloat`) and a literal that
starts with `.`; the RFC grammar does not.  Stage 2 only calls `parseNumber` when the first byte is `-`
or a digit, so these inputs never reach it. -/
example : parseNumber #[43, 49, 44] 0 = some (mkWord tagInteger 0, 1) ∧ Spec.numberLit [43, 49, 44] = none := by
  decide +kernel   -- "+1,"
example : parseNumber #[46, 53, 44] 0 ≠ none ∧ Spec.numberLit [46, 53, 44] = none := by
  decide +kernel   -- ".5,"
example : parseNumber #[45, 48, 44] 0 = some (mkWord tagInteger 0, 0) := by
  decide +kernel   -- "-0," is the integer 0 (as the specification's `numValue` says)

end SJ.NumberProofs
