import SJ.Proofs.LexIface
import SJ.Proofs.Number
import SJ.Proofs.Tables
import SJ.Proofs.MachineSimStep
set_option linter.unusedVariables false
set_option linter.unusedSimpArgs false
/-
Token-level facts for the whole-parser simulation (`MachineSim`, `ParseSpec`):

  * `Env`     one message, its scanner facts (`ScanFacts`), the pairs list `L` with `PeekOK`;
  * `Win`     a window `[a, e)` of the message: the whole message, or (ND mode) one line, `e` at an LF;
  * `seg e p` the text the specification sees from position `p` (up to the window end `e`);
  * what the scanner does over white space / scalars / strings, stated on positions;
  * what one machine step does on each token;
  * locality of `Spec.numberLit`, `closeQ`, `decodeString` (needed when the window ends before the message).
-/
namespace SJ.TokenSim
open SJ SJ.ParseDefs SJ.Generated SJ.Layout SJ.Tables SJ.MachineSim

structure Env where
  nd : Bool
  msg : Bytes
  cfg : Cfg
  L : List (Nat × Nat)
  SF : ScanFacts nd msg
  STR : StrFacts
  PK : PeekOK msg (indices nd msg) L
  hsz : SizeOK msg

namespace Env
variable (E : Env)
/-- byte at a position -/
abbrev b (p : Nat) : UInt8 := byteAt E.msg p
abbrev Rdy (p : Nat) : Prop := Ready E.nd E.msg p
abbrev c (p : Nat) : Nat := cnt E.nd E.msg p
abbrev err (p : Nat) : Bool := (σ E.nd E.msg p).err
abbrev em (p : Nat) : Bool := emit E.nd E.msg p
/-- the text from position `p` up to the window end `e` -/
def seg (e p : Nat) : List UInt8 := (E.msg.toList.take e).drop p
end Env

/-- A window of the message: the whole message, or in ND mode one line (ending at an LF, containing none). -/
structure Win (E : Env) (a e : Nat) : Prop where
  le : a ≤ e
  he : e ≤ E.msg.size
  stop : e = E.msg.size ∨ (E.nd = true ∧ E.b e = 10)
  noNL : E.nd = true → ∀ j, a ≤ j → j < e → E.b j ≠ 10

variable {E : Env}

theorem byteAt_eq (msg : Bytes) (p : Nat) (h : p < msg.size) : byteAt msg p = msg[p] := by
  simp [byteAt, Array.getD, h]

theorem seg_nil {e p : Nat} (h : e ≤ p) : E.seg e p = [] := by
  unfold Env.seg
  apply List.drop_eq_nil_of_le
  rw [List.length_take]; omega

theorem seg_cons {e p : Nat} (h : p < e) (he : e ≤ E.msg.size) : E.seg e p = E.b p :: E.seg e (p + 1) := by
  unfold Env.seg
  have hl : p < (E.msg.toList.take e).length := by rw [List.length_take]; simp; omega
  rw [List.drop_eq_getElem_cons hl]
  congr 1
  rw [List.getElem_take, Array.getElem_toList]
  exact (byteAt_eq _ _ (by omega)).symm

theorem seg_length {e p : Nat} (he : e ≤ E.msg.size) : (E.seg e p).length = e - p := by
  unfold Env.seg
  rw [List.length_drop, List.length_take]; simp; omega

theorem seg_drop (e p k : Nat) : (E.seg e p).drop k = E.seg e (p + k) := by
  unfold Env.seg
  rw [List.drop_drop]

theorem tail_split {e p : Nat} (h : p ≤ e) (he : e ≤ E.msg.size) :
    E.msg.toList.drop p = E.seg e p ++ E.msg.toList.drop e := by
  unfold Env.seg
  conv => lhs; rw [← List.take_append_drop e E.msg.toList]
  rw [List.drop_append_of_le_length]
  rw [List.length_take]
  simp; omega

theorem seg_full (p : Nat) : E.seg E.msg.size p = E.msg.toList.drop p := by
  unfold Env.seg
  rw [List.take_of_length_le (by simp)]

/-! ## white space -/

theorem isWs_eq : ∀ b : UInt8, Spec.isWs b = isWsByte b := forall_u8 (by decide +kernel)

theorem skipWs_nil : Spec.skipWs [] = [] := by simp [Spec.skipWs]
theorem skipWs_cons (c : UInt8) (r : List UInt8) :
    Spec.skipWs (c :: r) = if Spec.isWs c then Spec.skipWs r else c :: r := by
  simp [Spec.skipWs]

theorem skipWs_sim {a e : Nat} (W : Win E a e) : ∀ (k p : Nat), e - p = k → a ≤ p → p ≤ e → E.Rdy p →
    ∃ q, p ≤ q ∧ q ≤ e ∧ Spec.skipWs (E.seg e p) = E.seg e q ∧ E.Rdy q ∧ E.c q = E.c p ∧ E.err q = E.err p ∧
      (q < e → Spec.isWs (E.b q) = false) := by
  intro k
  induction k with
  | zero =>
    intro p hk hap hpe hr
    have : p = e := by omega
    subst this
    exact ⟨p, Nat.le_refl _, Nat.le_refl _, by rw [seg_nil (Nat.le_refl _), skipWs_nil], hr, rfl, rfl, fun h => absurd h (Nat.lt_irrefl _)⟩
  | succ k ih =>
    intro p hk hap hpe hr
    have hlt : p < e := by omega
    by_cases hw : Spec.isWs (E.b p) = true
    · have hnl : ¬ (E.nd = true ∧ byteAt E.msg p = 10) := fun h => W.noNL h.1 p hap hlt h.2
      obtain ⟨h1, h2, h3⟩ := E.SF.ws p (Nat.lt_of_lt_of_le hlt W.he) hr (by rw [← isWs_eq]; exact hw) hnl
      obtain ⟨q, hq1, hq2, hq3, hq4, hq5, hq6, hq7⟩ := ih (p + 1) (by omega) (by omega) (by omega) h2
      refine ⟨q, by omega, hq2, ?_, hq4, ?_, ?_, hq7⟩
      · rw [seg_cons hlt W.he, skipWs_cons, if_pos hw, hq3]
      · rw [hq5]; show cnt E.nd E.msg (p + 1) = _
        rw [E.SF.cnt_succ p]; simp [h1]
      · rw [hq6]; exact h3
    · refine ⟨p, Nat.le_refl _, hpe, ?_, hr, rfl, rfl, fun _ => by simpa using hw⟩
      rw [seg_cons hlt W.he, skipWs_cons, if_neg hw]

/-! ## the pairs list at a token -/

theorem L_len : E.L.length = (indices E.nd E.msg).length := by
  rw [← E.PK.fst, List.length_map]

theorem cnt_le_self (nd : Bool) (msg : Bytes) (p : Nat) : cnt nd msg p ≤ p := by
  unfold cnt
  exact Nat.le_trans (List.length_filter_le _ _) (by simp)

theorem drop_end : E.L.drop (E.c E.msg.size) = [] := by
  apply List.drop_eq_nil_of_le
  rw [L_len]; show _ ≤ cnt E.nd E.msg E.msg.size; rw [E.SF.cnt_size]; exact Nat.le_refl _

/-- what `PeekOK` says about the peek value `pk` of the entry at `p` when the rest of the list is `rest` -/
def PeekInfo (E : Env) (p pk : Nat) (rest : List (Nat × Nat)) : Prop :=
  ∀ q pk' r, rest = (q, pk') :: r → pk = q - p ∨ (pk = 0 ∧ (isMarkup (E.b p) = true ∨ isMarkup (E.b q) = false))

theorem drop_at {p : Nat} (hp : p < E.msg.size) (he : E.em p = true) :
    ∃ pk, E.L.drop (E.c p) = (p, pk) :: E.L.drop (E.c p + 1) ∧ E.c (p + 1) = E.c p + 1 ∧
      PeekInfo E p pk (E.L.drop (E.c p + 1)) := by
  have h1 := E.SF.idx_at p hp he
  have h2 : (E.L.map Prod.fst)[E.c p]? = some p := by rw [E.PK.fst]; exact h1
  rw [List.getElem?_map] at h2
  cases hx : E.L[E.c p]? with
  | none => rw [hx] at h2; cases h2
  | some x =>
    rw [hx] at h2
    simp only [Option.map_some, Option.some.injEq] at h2
    obtain ⟨hlt, hx'⟩ := List.getElem?_eq_some_iff.mp hx
    obtain ⟨x1, pk⟩ := x
    simp only at h2; subst h2
    refine ⟨pk, ?_, ?_, ?_⟩
    · rw [List.drop_eq_getElem_cons hlt, hx']
    · show cnt E.nd E.msg (x1 + 1) = _
      rw [E.SF.cnt_succ x1]; simp [he]
    · intro q pk' r hr
      have hlt2 : E.c x1 + 1 < E.L.length := by
        have := congrArg List.length hr
        rw [List.length_drop, List.length_cons] at this; omega
      have hq : E.L[E.c x1 + 1] = (q, pk') := by
        have := List.drop_eq_getElem_cons hlt2
        rw [hr] at this
        exact (List.cons.inj this).1.symm
      have := E.PK.peek (E.c x1) hlt2
      rw [hx', hq] at this
      exact this

/-! ## runs of the machine from an index position -/

/-- machine and ghost over the pairs from index position `k` on -/
def run (E : Env) (m : M) (g : Ghost) (k : Nat) : Option (M × Ghost) := runMG E.cfg E.msg m g (E.L.drop k)

/-- what a successful stage 1 says about the whole message -/
structure Glob (E : Env) : Prop where
  err : E.err E.msg.size = false
  inQ : (σ E.nd E.msg E.msg.size).inQuote = false
  last : E.b ((indices E.nd E.msg).getLastD 0) = 125 ∨ E.b ((indices E.nd E.msg).getLastD 0) = 93

/-- from state `m` at index position `k` the parse cannot succeed (given that stage 1 succeeded) -/
def Dead (E : Env) (m : M) (k : Nat) : Prop :=
  Glob E → (runM E.cfg E.msg m (E.L.drop k)).bind M.finish = none

theorem runM_of_run {m m' : M} {g g' : Ghost} {k k' : Nat} (h : run E m g k = run E m' g' k') :
    runM E.cfg E.msg m (E.L.drop k) = runM E.cfg E.msg m' (E.L.drop k') := by
  have := congrArg (Option.map Prod.fst) h
  unfold run at this
  rw [runMG_fst, runMG_fst] at this
  exact this

theorem dead_of_run {m m' : M} {g g' : Ghost} {k k' : Nat} (h : run E m g k = run E m' g' k')
    (hd : Dead E m' k') : Dead E m k := by
  intro G
  rw [runM_of_run h]
  exact hd G

theorem dead_of_step_none {m : M} {k p pk : Nat} {r : List (Nat × Nat)} (hl : E.L.drop k = (p, pk) :: r)
    (hs : m.step E.cfg E.msg p pk = none) : Dead E m k := by
  intro _
  rw [hl]
  simp [runM, hs]

theorem dead_of_end {m : M} {k : Nat} (hl : E.L.drop k = []) (hf : m.finish = none) : Dead E m k := by
  intro _
  rw [hl]
  simp [runM, hf]

theorem run_step {m m' : M} (g : Ghost) {k p pk : Nat} {r : List (Nat × Nat)} (hl : E.L.drop k = (p, pk) :: r)
    (hs : m.step E.cfg E.msg p pk = some m') :
    run E m g k = runMG E.cfg E.msg m' (gstep m g E.msg p pk) r := by
  unfold run
  rw [hl]
  exact runMG_cons_some g r hs

theorem finish_none_of_len {m : M} (h : 2 ≤ m.stack.length) : m.finish = none := by
  unfold M.finish
  split
  · rename_i x hs; rw [hs] at h; simp at h
  · rfl

/-- the byte after a scalar lets the scanner finish the token -/
def FollowWS (E : Env) (q : Nat) : Prop :=
  q = E.msg.size ∨ isWsByte (E.b q) = true ∨ isStructByte (E.b q) = true

/-- after optional white space comes one of `, ] }` (what `elements` / `members` need after a value) -/
def Good (E : Env) (e q : Nat) : Prop :=
  ∃ x r, Spec.skipWs (E.seg e q) = x :: r ∧ (x = 44 ∨ x = 93 ∨ x = 125)

theorem skipWs_head (x : UInt8) (r s : List UInt8) (h : Spec.skipWs s = x :: r) :
    ∃ y t, s = y :: t ∧ (Spec.isWs y = true ∨ y = x) := by
  cases s with
  | nil => rw [skipWs_nil] at h; cases h
  | cons y t =>
    refine ⟨y, t, rfl, ?_⟩
    rw [skipWs_cons] at h
    by_cases hy : Spec.isWs y = true
    · exact Or.inl hy
    · rw [if_neg hy] at h; exact Or.inr (List.cons.inj h).1

theorem good_follow {e q : Nat} (he : e ≤ E.msg.size) (h : Good E e q) :
    q < e ∧ (isWsByte (E.b q) = true ∨ E.b q = 44 ∨ E.b q = 93 ∨ E.b q = 125) := by
  obtain ⟨x, r, hs, hx⟩ := h
  obtain ⟨y, t, hy, hw⟩ := skipWs_head x r _ hs
  have hq : q < e := by
    apply Nat.lt_of_not_le
    intro hle
    rw [seg_nil hle] at hy; cases hy
  rw [seg_cons hq he] at hy
  have hy1 : E.b q = y := (List.cons.inj hy).1
  refine ⟨hq, ?_⟩
  rcases hw with hw | hw
  · left; rw [hy1, ← isWs_eq]; exact hw
  · right; rw [hy1, hw]; exact hx

/-- the machine consumed the value `v` at `[p, p')` -/
def AdvV (E : Env) (p : Nat) (m : M) (g : Ghost) (v : Spec.JVal) (p' : Nat) : Prop :=
  ∃ m' lv, run E m g (E.c p) = run E m' (g.addVal lv) (E.c p') ∧ erase lv = ofSpec v ∧ E.Rdy p' ∧
    E.err p' = E.err p ∧ m'.st = contSt m.st ∧ m'.stack = m.stack ∧
    E.c p < E.c p' ∧ m.tape.size ≤ m'.tape.size ∧ m'.tape.size + 3 * E.c p ≤ m.tape.size + 3 * E.c p'

theorem plain_not_ws {b : UInt8} (h : plainByte b = true) : isWsByte b = false := by
  unfold plainByte at h
  simp only [Bool.and_eq_true, Bool.not_eq_true'] at h
  exact h.1.1.1

/-- a token at `p` (any non-white-space byte met between tokens) is the next entry of the pairs list -/
theorem tok_at {p : Nat} (hp : p < E.msg.size) (hr : E.Rdy p) (hnw : isWsByte (E.b p) = false) :
    ∃ pk, E.L.drop (E.c p) = (p, pk) :: E.L.drop (E.c p + 1) ∧ E.c (p + 1) = E.c p + 1 ∧
      PeekInfo E p pk (E.L.drop (E.c p + 1)) :=
  drop_at hp (E.SF.tokStart p hp hr hnw)

/-- a scalar token `[p, q)` of plain bytes followed by white space, a structural or the end: the scanner emits `p`
    only and is between tokens at `q` -/
theorem scalar_scan {p q : Nat} (hr : E.Rdy p) (hpq : p < q) (hq : q ≤ E.msg.size)
    (hplain : ∀ j, p ≤ j → j < q → plainByte (E.b j) = true) (hf : FollowWS E q) :
    E.Rdy q ∧ E.err q = E.err p ∧ E.c q = E.c p + 1 ∧ ∃ pk, E.L.drop (E.c p) = (p, pk) :: E.L.drop (E.c q) := by
  have hp : p < E.msg.size := by omega
  obtain ⟨pk, h1, h2, _⟩ := tok_at hp hr (plain_not_ws (hplain p (Nat.le_refl _) hpq))
  obtain ⟨g1, g2, g3⟩ := E.SF.tokRun p q hpq hq hr hplain hf
  have hc : E.c q = E.c (p + 1) := E.SF.cnt_noemit (p + 1) q (by omega) (fun j hj1 hj2 => g1 j (by omega) hj2)
  refine ⟨g2, g3, by rw [hc, h2], pk, ?_⟩
  rw [hc, h2]; exact h1

theorem adv_scalar {p q : Nat} (hr : E.Rdy p) (hpq : p < q) (hq : q ≤ E.msg.size)
    (hplain : ∀ j, p ≤ j → j < q → plainByte (E.b j) = true) (hf : FollowWS E q)
    {m : M} (g : Ghost) (hst : IsValSt m.st (E.b p)) {v : Spec.JVal} {lv : LVal} (hlv : erase lv = ofSpec v)
    (hval : ∀ pk, ∃ m1, m.value E.cfg E.msg p pk (retCode m.st) = some (m1, none) ∧ m1.stack = m.stack ∧
      m.tape.size ≤ m1.tape.size ∧ m1.tape.size ≤ m.tape.size + 2 ∧ gvalue m g E.msg p pk = g.addVal lv) :
    AdvV E p m g v q := by
  obtain ⟨h1, h2, h3, pk, h4⟩ := scalar_scan hr hpq hq hplain hf
  obtain ⟨m1, v1, v2, v3, v4, v5⟩ := hval pk
  refine ⟨{ m1 with st := contSt m.st }, lv, ?_, hlv, h1, h2, rfl, v2, by omega, v3, ?_⟩
  · rw [run_step g h4 (step_val_some hst v1), gstep_value m g E.msg p pk hst, v5]
    rfl
  · show m1.tape.size + _ ≤ _
    rw [h3]; omega

end SJ.TokenSim
