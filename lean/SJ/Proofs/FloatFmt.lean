import SJ.Model.FloatFmt
import SJ.Spec.Json
import Std.Data.String.ToInt
/-
Proofs about `SJ/Model/FloatFmt.lean` (property C18).  No `sorry`, no `native_decide`; the only import
beyond the project is `Std.Data.String.ToInt` (ships with the Lean toolchain, not Mathlib), used solely to
evaluate `"1".toNat!`, `"-6".toInt!`, `"21".toInt!` inside `parseThreshold`.

* §1–2, §7 `fmtF_toList`, `fmtE_toList`, `cleanExp_fmtE_toList`: the `Id.run do … for …` definitions of the
  model are *proved equal* to closed list expressions (`fmtFL`, `fmtEL`, `fmtECleanL`); every theorem below
  is about the model functions themselves.
* §3 `numberLit_eq`: `Spec.numberLit` is (by `rfl`) the composition of four stages; `numberLit_plain`,
  `numberLit_exp` run it on texts of known shape.
* §5 `litValue`: (sign, mantissa, decimal exponent) exactly as `Spec.numValue` computes them
  (`numValue_float`, `litValue_int`); `SameDecimal m e N x` says `m·10^e = N·10^x`.
* §6 `fmtF_litValue`, **`fmtF_value`**, **`fmtF_shape`**.
* §7 `fmtE_litValue`, **`fmtE_value`** (needs `|dp-1| < 10^7`, the clamp of `Spec.numValue`),
  **`fmtE_shape`** (needs `dp ≤ 0 ∨ 11 ≤ dp`; `fmtE_padding_survives` shows the hypothesis is necessary).
* §8 `bits_le_iff`, `bits_lt_iff` (monotonicity of the IEEE-754 encoding), `loBits_def/_eq`,
  `hiBits_def/_eq`, **`threshold_exact`**, `threshold_exact_bits`, `appendFloat_eq`.
-/
set_option linter.unusedSimpArgs false
namespace SJ.FloatFmtProofs
open SJ SJ.FloatFmt SJ.Spec

/-! ## 1. `for` loops that push bytes -/

theorem forIn_list_push {α} (l : List α) (f : α → UInt8) (init : Bytes) :
    (forIn (m := Id) l init (fun d r => (ForInStep.yield (r.push (f d)) : Id (ForInStep Bytes)))) =
      init ++ (l.map f).toArray := by
  induction l generalizing init with
  | nil => simp [pure]
  | cons a t ih =>
    simp only [List.forIn_cons, bind, List.map_cons]
    rw [ih]
    apply Array.ext'
    simp

theorem forIn'_list_push {α} (l : List α) (f : α → UInt8) (init : Bytes) :
    (forIn' (m := Id) l init (fun d _ r => (ForInStep.yield (r.push (f d)) : Id (ForInStep Bytes)))) =
      init ++ (l.map f).toArray := by
  rw [← forIn_list_push]; simp

theorem forIn_range_push (a b : Nat) (f : Nat → UInt8) (init : Bytes) :
    (forIn (m := Id) [a:b] init (fun d r => (ForInStep.yield (r.push (f d)) : Id (ForInStep Bytes)))) =
      init ++ ((List.range' a (b - a)).map f).toArray := by
  rw [Std.Legacy.Range.forIn_eq_forIn_range', forIn_list_push]
  simp [Std.Legacy.Range.size]

/-! ## 2. The model functions as list expressions -/

def signL (neg : Bool) : List UInt8 := if neg then [45] else []

/-- the digits as ASCII -/
def asc (ds : List Nat) : List UInt8 := ds.map digitChar

/-- `fmtF` read off the loops, literally. -/
def fmtFRaw (neg : Bool) (s : Shortest) : List UInt8 :=
  signL neg ++
  (if s.dp > 0 then
      asc (s.digits.take (min s.digits.length s.dp.toNat)) ++
        (List.range' (min s.digits.length s.dp.toNat) (s.dp.toNat - min s.digits.length s.dp.toNat)).map (fun _ => (48 : UInt8))
    else [48]) ++
  (if ((s.digits.length : Int) - s.dp).toNat > 0 then
      46 :: (List.range' 0 ((s.digits.length : Int) - s.dp).toNat).map (fun (i : Nat) =>
        if 0 ≤ s.dp + (i : Int) ∧ s.dp + (i : Int) < (s.digits.length : Int)
        then digitChar (s.digits.getD (s.dp + (i : Int)).toNat 0) else 48)
    else [])

theorem fmtF_raw (neg : Bool) (s : Shortest) : (fmtF neg s).toList = fmtFRaw neg s := by
  unfold fmtF fmtFRaw signL asc
  simp only [Id.run, bind, pure]
  simp only [forIn_list_push, forIn_range_push]
  cases neg <;> by_cases h1 : s.dp > 0 <;> by_cases h2 : ((s.digits.length : Int) - s.dp).toNat > 0 <;>
    simp [h1, h2]

/-- `fmtF` in closed form (for a non-empty digit string). -/
def fmtFL (neg : Bool) (s : Shortest) : List UInt8 :=
  if s.dp ≤ 0 then signL neg ++ 48 :: 46 :: (List.replicate (-s.dp).toNat 48 ++ asc s.digits)
  else if s.dp < (s.digits.length : Int) then
    signL neg ++ asc (s.digits.take s.dp.toNat) ++ 46 :: asc (s.digits.drop s.dp.toNat)
  else signL neg ++ asc s.digits ++ List.replicate (s.dp.toNat - s.digits.length) 48

theorem frac_nonpos (ds : List Nat) (dp : Int) (h : dp ≤ 0) :
    (List.range' 0 ((ds.length : Int) - dp).toNat).map (fun (i : Nat) =>
        if 0 ≤ dp + (i : Int) ∧ dp + (i : Int) < (ds.length : Int)
        then digitChar (ds.getD (dp + (i : Int)).toNat 0) else 48)
      = List.replicate (-dp).toNat 48 ++ asc ds := by
  apply List.ext_getElem
  · simp [asc]; omega
  · intro i h1 h2
    simp only [List.length_map, List.length_range'] at h1
    simp only [List.getElem_map, List.getElem_range', asc, List.getElem_append, List.length_replicate,
      List.getElem_replicate, Nat.zero_add, Nat.one_mul]
    by_cases hi : i < (-dp).toNat
    · have : ¬ (0 ≤ dp + (i : Int)) := by omega
      simp [hi, this]
    · have h3 : 0 ≤ dp + (i : Int) ∧ dp + (i : Int) < (ds.length : Int) := by omega
      have h4 : (dp + (i : Int)).toNat = i - (-dp).toNat := by omega
      have h5 : i - (-dp).toNat < ds.length := by omega
      simp [hi, h3, h4, h5]

theorem frac_mid (ds : List Nat) (dp : Int) (h : 0 < dp) (h' : dp < ds.length) :
    (List.range' 0 ((ds.length : Int) - dp).toNat).map (fun (i : Nat) =>
        if 0 ≤ dp + (i : Int) ∧ dp + (i : Int) < (ds.length : Int)
        then digitChar (ds.getD (dp + (i : Int)).toNat 0) else 48)
      = asc (ds.drop dp.toNat) := by
  apply List.ext_getElem
  · simp [asc]; omega
  · intro i h1 h2
    simp only [List.length_map, List.length_range'] at h1
    simp only [List.getElem_map, List.getElem_range', asc, List.getElem_drop, Nat.zero_add, Nat.one_mul]
    have h3 : 0 ≤ dp + (i : Int) ∧ dp + (i : Int) < (ds.length : Int) := by omega
    have h4 : (dp + (i : Int)).toNat = dp.toNat + i := by omega
    have h5 : dp.toNat + i < ds.length := by omega
    simp [h3, h4, h5]

theorem map_const_range' (a n : Nat) (c : UInt8) :
    (List.range' a n).map (fun _ => c) = List.replicate n c := by
  apply List.ext_getElem <;> simp

theorem fmtF_toList (neg : Bool) (s : Shortest) (hne : s.digits ≠ []) :
    (fmtF neg s).toList = fmtFL neg s := by
  have hlen : 0 < s.digits.length := List.length_pos_iff.mpr hne
  rw [fmtF_raw]
  unfold fmtFRaw fmtFL
  by_cases h1 : s.dp ≤ 0
  · have h2 : ¬ s.dp > 0 := by omega
    have h3 : ((s.digits.length : Int) - s.dp).toNat > 0 := by omega
    simp only [h1, h2, h3, if_true, if_false, frac_nonpos _ _ h1]
    simp
  · have h2 : s.dp > 0 := by omega
    simp only [h1, h2, if_true, if_false, map_const_range']
    by_cases h4 : s.dp < (s.digits.length : Int)
    · have h3 : ((s.digits.length : Int) - s.dp).toNat > 0 := by omega
      have h5 : min s.digits.length s.dp.toNat = s.dp.toNat := by omega
      simp only [h3, h4, if_true, h5, frac_mid _ _ h2 h4]
      simp
    · have h3 : ¬ ((s.digits.length : Int) - s.dp).toNat > 0 := by omega
      have h5 : min s.digits.length s.dp.toNat = s.digits.length := by omega
      simp only [h3, h4, if_false, h5, List.take_length]
      simp

/-! ## 3. The specification's number grammar, stage by stage -/

def signPart (s : List UInt8) : Bool × List UInt8 :=
  match s with | 0x2D :: r => (true, r) | r => (false, r)

def fracPart (s : List UInt8) : Option (List UInt8) × List UInt8 × Bool :=
  match s with
    | 0x2E :: r =>
      let fp := r.takeWhile isDigit
      if fp.isEmpty then (none, s, false) else (some fp, r.dropWhile isDigit, true)
    | _ => (none, s, true)

def expPart (s : List UInt8) : Option (Bool × List UInt8) × List UInt8 × Bool :=
  match s with
    | c :: r =>
      if c == 0x65 ∨ c == 0x45 then
        let (eneg, r) := match r with | 0x2B :: x => (false, x) | 0x2D :: x => (true, x) | x => (false, x)
        let ep := r.takeWhile isDigit
        if ep.isEmpty then (none, s, false) else (some (eneg, ep), r.dropWhile isDigit, true)
      else (none, s, true)
    | [] => (none, s, true)

def afterSign (neg : Bool) (s : List UInt8) : Option (NumLit × List UInt8) :=
  let ip := s.takeWhile isDigit
  let s := s.dropWhile isDigit
  if ip.isEmpty ∨ (ip.length > 1 ∧ ip.head? == some 0x30) then none else
  let (frac, s, okF) := fracPart s
  if !okF then none else
  let (exp, s, okE) := expPart s
  if !okE then none else some ({ neg := neg, int := ip, frac := frac, exp := exp }, s)

/-- `Spec.numberLit` is literally the composition of the stages. -/
theorem numberLit_eq (s : List UInt8) :
    numberLit s = afterSign (signPart s).1 (signPart s).2 := rfl

/-- `rest` does not continue a run of digits -/
def Stops (rest : List UInt8) : Prop := ∀ c, rest.head? = some c → isDigit c = false

theorem stops_nil : Stops [] := by intro c h; simp at h
theorem stops_cons {c : UInt8} {r} (h : isDigit c = false) : Stops (c :: r) := by
  intro c' h'; simp at h'; subst h'; exact h

theorem takeWhile_digits (l rest : List UInt8) (hl : ∀ c ∈ l, isDigit c = true) (hr : Stops rest) :
    (l ++ rest).takeWhile isDigit = l ∧ (l ++ rest).dropWhile isDigit = rest := by
  have ht : rest.takeWhile isDigit = [] ∧ rest.dropWhile isDigit = rest := by
    cases rest with
    | nil => simp
    | cons c r =>
      have := hr c (by simp)
      simp [this]
  rw [List.takeWhile_append_of_pos hl, List.dropWhile_append_of_pos hl, ht.1, ht.2]
  simp

theorem signPart_signL (neg : Bool) (d : UInt8) (r : List UInt8) (hd : isDigit d = true) :
    signPart (signL neg ++ d :: r) = (neg, d :: r) := by
  cases neg
  · simp only [signL, Bool.false_eq_true, if_false, List.nil_append]
    unfold signPart
    split
    · rename_i h
      simp only [List.cons.injEq] at h
      rw [h.1] at hd
      exact absurd hd (by decide)
    · rfl
  · rfl

theorem fracPart_nil : fracPart [] = (none, [], true) := rfl
theorem fracPart_e (r : List UInt8) : fracPart (101 :: r) = (none, 101 :: r, true) := rfl
theorem fracPart_dot (fp rest : List UInt8) (hne : fp ≠ []) (hfp : ∀ c ∈ fp, isDigit c = true)
    (hr : Stops rest) : fracPart (46 :: (fp ++ rest)) = (some fp, rest, true) := by
  have := takeWhile_digits fp rest hfp hr
  simp only [fracPart, this.1, this.2]
  simp [hne]

theorem expPart_nil : expPart [] = (none, [], true) := rfl
theorem expPart_e (en : Bool) (ep : List UInt8) (hne : ep ≠ []) (hep : ∀ c ∈ ep, isDigit c = true) :
    expPart (101 :: (if en then 45 else 43) :: ep) = (some (en, ep), [], true) := by
  have := takeWhile_digits ep [] hep stops_nil
  simp only [List.append_nil] at this
  cases en <;> simp [expPart, this.1, this.2, hne]

/-- integer part, optional fraction, no exponent -/
theorem numberLit_plain (neg : Bool) (ip fp : List UInt8)
    (hip : ∀ c ∈ ip, isDigit c = true) (hne : ip ≠ [])
    (hz : ip.length > 1 → ip.head? ≠ some 48)
    (hfp : ∀ c ∈ fp, isDigit c = true) :
    numberLit (signL neg ++ ip ++ (if fp = [] then [] else 46 :: fp)) =
      some ({ neg := neg, int := ip, frac := if fp = [] then none else some fp, exp := none }, []) := by
  obtain ⟨d, ip', rfl⟩ := List.exists_cons_of_ne_nil hne
  have hd : isDigit d = true := hip d (by simp)
  rw [numberLit_eq, List.append_assoc, List.cons_append, signPart_signL _ _ _ hd]
  by_cases hf : fp = []
  · have := takeWhile_digits (d :: ip') [] hip stops_nil
    simp only [List.append_nil] at this
    simp only [hf, if_true, List.append_nil, afterSign, this.1, this.2, fracPart_nil, expPart_nil]
    have hz' : 0 < ip'.length → ¬ d = 48 := by
      intro h1 h2; exact hz (by simpa using h1) (by simp [h2])
    simpa using hz'
  · have := takeWhile_digits (d :: ip') (46 :: fp) hip (stops_cons (by decide))
    have hfr := fracPart_dot fp [] hf hfp stops_nil
    simp only [List.append_nil] at hfr
    simp only [List.cons_append] at this
    simp only [hf, if_false, afterSign, this.1, this.2, hfr, expPart_nil]
    have hz' : 0 < ip'.length → ¬ d = 48 := by
      intro h1 h2; exact hz (by simpa using h1) (by simp [h2])
    simpa using hz'

/-- one integer digit, optional fraction, exponent -/
theorem numberLit_exp (neg : Bool) (d : UInt8) (fp : List UInt8) (en : Bool) (ep : List UInt8)
    (hd : isDigit d = true)
    (hfp : ∀ c ∈ fp, isDigit c = true)
    (hep : ∀ c ∈ ep, isDigit c = true) (hepne : ep ≠ []) :
    numberLit (signL neg ++ d :: ((if fp = [] then [] else 46 :: fp) ++ 101 :: (if en then 45 else 43) :: ep)) =
      some ({ neg := neg, int := [d], frac := if fp = [] then none else some fp, exp := some (en, ep) }, []) := by
  rw [numberLit_eq, signPart_signL _ _ _ hd]
  have hex := expPart_e en ep hepne hep
  have hd1 : ∀ c ∈ [d], isDigit c = true := by simpa using hd
  by_cases hf : fp = []
  · have := takeWhile_digits [d] (101 :: (if en then 45 else 43) :: ep) hd1 (stops_cons (by decide))
    simp only [List.cons_append, List.nil_append] at this
    simp only [hf, if_true, List.nil_append, afterSign, this.1, this.2, fracPart_e, hex]
    simp
  · have := takeWhile_digits [d] (46 :: (fp ++ 101 :: (if en then 45 else 43) :: ep)) hd1 (stops_cons (by decide))
    have hfr := fracPart_dot fp (101 :: (if en then 45 else 43) :: ep) hf hfp (stops_cons (by decide))
    simp only [List.cons_append, List.nil_append] at this
    simp only [hf, if_false, List.cons_append, afterSign, this.1, this.2, hfr, hex]
    simp

/-! ## 4. Digits and their values -/

/-- the number written with the decimal digits `ds` (most significant first) -/
def natOfDigits (ds : List Nat) : Nat := ds.foldl (fun a d => a * 10 + d) 0

theorem digitChar_facts (d : Nat) (h : d < 10) :
    isDigit (digitChar d) = true ∧ (digitChar d).toNat - 48 = d ∧ (d ≠ 0 → digitChar d ≠ 48) ∧
      digitChar d ≠ 101 ∧ digitChar d ≠ 45 ∧ digitChar d ≠ 46 := by
  have key : ∀ n : Fin 10, isDigit (digitChar n.val) = true ∧ (digitChar n.val).toNat - 48 = n.val ∧
      (n.val ≠ 0 → digitChar n.val ≠ 48) ∧ digitChar n.val ≠ 101 ∧ digitChar n.val ≠ 45 ∧
      digitChar n.val ≠ 46 := by decide
  exact key ⟨d, h⟩

theorem asc_isDigit (ds : List Nat) (h : ∀ d ∈ ds, d < 10) : ∀ c ∈ asc ds, isDigit c = true := by
  intro c hc
  simp only [asc, List.mem_map] at hc
  obtain ⟨d, hd, rfl⟩ := hc
  exact (digitChar_facts d (h d hd)).1

theorem digitsVal_foldl (ds : List UInt8) (a : Nat) :
    ds.foldl (fun a d => a * 10 + (d.toNat - 48)) a = a * 10 ^ ds.length + digitsVal ds := by
  induction ds generalizing a with
  | nil => simp [digitsVal]
  | cons c t ih =>
    simp only [List.foldl_cons, digitsVal, List.length_cons]
    rw [ih, ih (0 * 10 + (c.toNat - 48))]
    simp only [Nat.zero_mul, Nat.zero_add, Nat.pow_succ, Nat.add_mul]
    rw [Nat.add_assoc, Nat.mul_assoc, Nat.mul_comm 10]

theorem digitsVal_nil : digitsVal [] = 0 := rfl

theorem digitsVal_append (a b : List UInt8) :
    digitsVal (a ++ b) = digitsVal a * 10 ^ b.length + digitsVal b := by
  simp only [digitsVal, List.foldl_append]
  exact digitsVal_foldl b _

theorem digitsVal_cons (c : UInt8) (t : List UInt8) :
    digitsVal (c :: t) = (c.toNat - 48) * 10 ^ t.length + digitsVal t := by
  have := digitsVal_append [c] t
  simpa [digitsVal] using this

theorem digitsVal_replicate_zero (k : Nat) : digitsVal (List.replicate k 48) = 0 := by
  induction k with
  | zero => rfl
  | succ k ih => rw [List.replicate_succ, digitsVal_cons, ih]; simp

theorem natOfDigits_foldl (ds : List Nat) (a : Nat) :
    ds.foldl (fun a d => a * 10 + d) a = a * 10 ^ ds.length + natOfDigits ds := by
  induction ds generalizing a with
  | nil => simp [natOfDigits]
  | cons c t ih =>
    simp only [List.foldl_cons, natOfDigits, List.length_cons]
    rw [ih, ih (0 * 10 + c)]
    simp only [Nat.zero_mul, Nat.zero_add, Nat.pow_succ, Nat.add_mul]
    rw [Nat.add_assoc, Nat.mul_assoc, Nat.mul_comm 10]

theorem natOfDigits_append (a b : List Nat) :
    natOfDigits (a ++ b) = natOfDigits a * 10 ^ b.length + natOfDigits b := by
  simp only [natOfDigits, List.foldl_append]
  exact natOfDigits_foldl b _

theorem digitsVal_asc (ds : List Nat) (h : ∀ d ∈ ds, d < 10) : digitsVal (asc ds) = natOfDigits ds := by
  induction ds with
  | nil => rfl
  | cons d t ih =>
    have hd := (digitChar_facts d (h d (by simp))).2.1
    have ht := ih (fun x hx => h x (by simp [hx]))
    have e1 : asc (d :: t) = digitChar d :: asc t := rfl
    have e2 := natOfDigits_append [d] t
    rw [e1, digitsVal_cons, hd, ht]
    simp only [List.cons_append, List.nil_append] at e2
    rw [e2]
    simp [natOfDigits, asc]

/-! ## 5. The value of a literal -/

/-- (sign, decimal mantissa, decimal exponent) of a literal, computed exactly as `Spec.numValue` computes
    its `m` and `e10 - fp.length` (including the clamp of absurdly long exponents). -/
def litValue (l : NumLit) : Bool × Nat × Int :=
  let fp := l.frac.getD []
  let m := digitsVal (l.int ++ fp)
  let e10 : Int :=
    match l.exp with
    | none => 0
    | some (eneg, ds) =>
      let sig := ds.dropWhile (· == 0x30)
      let e : Int := if sig.length > 7 then 10000000 else digitsVal sig
      if eneg then -e else e
  (l.neg, m, e10 - fp.length)

/-- `litValue` is what `Spec.numValue` rounds (fraction or exponent present)… -/
theorem numValue_float (l : NumLit) (h : l.frac ≠ none ∨ l.exp ≠ none) :
    numValue l =
      (F64.roundDecimal (litValue l).1 (litValue l).2.1 (litValue l).2.2).map (Num.float · false) := by
  unfold numValue litValue
  split
  · rename_i h1 h2; simp [h1, h2] at h
  · rfl

/-- …and for a bare integer literal the mantissa is the integer and the exponent is 0. -/
theorem litValue_int (l : NumLit) (h1 : l.frac = none) (h2 : l.exp = none) :
    litValue l = (l.neg, digitsVal l.int, 0) := by
  simp [litValue, h1, h2]

/-- `m · 10^e = N · 10^x` as rational numbers (both sides scaled by `10^(-min e x)`). -/
def SameDecimal (m : Nat) (e : Int) (N : Nat) (x : Int) : Prop :=
  m * 10 ^ (e - min e x).toNat = N * 10 ^ (x - min e x).toNat

/-! ## 6. `fmtF` -/

/-- what `ryuFtoaShortest` guarantees about its digit string for a non-zero value -/
structure WF (s : Shortest) : Prop where
  ne : s.digits ≠ []
  lt : ∀ d ∈ s.digits, d < 10
  hd : s.digits.head? ≠ some 0

theorem asc_head_ne_zero (ds : List Nat) (hlt : ∀ d ∈ ds, d < 10) (hd : ds.head? ≠ some 0) :
    (asc ds).head? ≠ some 48 := by
  cases ds with
  | nil => simp [asc]
  | cons d t =>
    have hd0 : d ≠ 0 := by simpa using hd
    have := (digitChar_facts d (hlt d (by simp))).2.2.1 hd0
    simpa [asc] using this

theorem asc_append (a b : List Nat) : asc (a ++ b) = asc a ++ asc b := by simp [asc]
theorem asc_length (a : List Nat) : (asc a).length = a.length := by simp [asc]

/-- The literal read back from `fmtF`, with its exact value. -/
theorem fmtF_litValue (neg : Bool) (s : Shortest) (wf : WF s) :
    ∃ l, numberLit (fmtF neg s).toList = some (l, []) ∧
      litValue l = (neg, natOfDigits s.digits * 10 ^ (s.dp - s.digits.length).toNat,
                    min (s.dp - s.digits.length) 0) := by
  have hlen : 0 < s.digits.length := List.length_pos_iff.mpr wf.ne
  have hasc := asc_isDigit s.digits wf.lt
  have hval := digitsVal_asc s.digits wf.lt
  rw [fmtF_toList neg s wf.ne]
  unfold fmtFL
  by_cases h1 : s.dp ≤ 0
  · simp only [h1, if_true]
    have hfp : ∀ c ∈ List.replicate (-s.dp).toNat (48 : UInt8) ++ asc s.digits, isDigit c = true := by
      intro c hc
      rcases List.mem_append.mp hc with hc | hc
      · rw [(List.mem_replicate.mp hc).2]; decide
      · exact hasc c hc
    have hfne : List.replicate (-s.dp).toNat (48 : UInt8) ++ asc s.digits ≠ [] := by
      intro h
      have := congrArg List.length h
      simp only [List.length_append, List.length_replicate, asc_length, List.length_nil,
        List.length_take, List.length_drop] at this
      omega
    have := numberLit_plain neg [48] _ (by decide) (by decide) (by simp) hfp
    simp only [hfne, if_false, List.append_assoc, List.cons_append, List.nil_append] at this
    refine ⟨_, this, ?_⟩
    simp only [litValue, Option.getD_some, List.cons_append, List.nil_append, digitsVal_cons,
      digitsVal_append, digitsVal_replicate_zero, hval, List.length_append, List.length_replicate,
      asc_length]
    have e1 : (s.dp - (s.digits.length : Int)).toNat = 0 := by omega
    have e2 : min (s.dp - (s.digits.length : Int)) 0 = s.dp - s.digits.length := by omega
    rw [e1, e2]
    simp
    omega
  · by_cases h2 : s.dp < (s.digits.length : Int)
    · simp only [h1, h2, if_true, if_false]
      have hsplit : s.digits.take s.dp.toNat ++ s.digits.drop s.dp.toNat = s.digits := List.take_append_drop _ _
      have hip : ∀ c ∈ asc (s.digits.take s.dp.toNat), isDigit c = true :=
        asc_isDigit _ (fun d hd => wf.lt d (List.mem_of_mem_take hd))
      have hfp : ∀ c ∈ asc (s.digits.drop s.dp.toNat), isDigit c = true :=
        asc_isDigit _ (fun d hd => wf.lt d (List.mem_of_mem_drop hd))
      have hipne : asc (s.digits.take s.dp.toNat) ≠ [] := by
        intro h
        have := congrArg List.length h
        simp only [List.length_append, List.length_replicate, asc_length, List.length_nil,
          List.length_take, List.length_drop] at this
        omega
      have hfne : asc (s.digits.drop s.dp.toNat) ≠ [] := by
        intro h
        have := congrArg List.length h
        simp only [List.length_append, List.length_replicate, asc_length, List.length_nil,
          List.length_take, List.length_drop] at this
        omega
      have hz : (asc (s.digits.take s.dp.toNat)).head? ≠ some 48 := by
        apply asc_head_ne_zero _ (fun d hd => wf.lt d (List.mem_of_mem_take hd))
        have : (s.digits.take s.dp.toNat).head? = s.digits.head? := by
          rw [List.head?_take]; simp; omega
        rw [this]; exact wf.hd
      have := numberLit_plain neg _ _ hip hipne (fun _ => hz) hfp
      simp only [hfne, if_false] at this
      refine ⟨_, this, ?_⟩
      simp only [litValue, Option.getD_some, ← asc_append, hsplit, hval, asc_length, List.length_drop]
      have e1 : (s.dp - (s.digits.length : Int)).toNat = 0 := by omega
      have e2 : min (s.dp - (s.digits.length : Int)) 0 = s.dp - s.digits.length := by omega
      rw [e1, e2]
      simp
      omega
    · simp only [h1, h2, if_false]
      have hip : ∀ c ∈ asc s.digits ++ List.replicate (s.dp.toNat - s.digits.length) (48 : UInt8),
          isDigit c = true := by
        intro c hc
        rcases List.mem_append.mp hc with hc | hc
        · exact hasc c hc
        · rw [(List.mem_replicate.mp hc).2]; decide
      have hipne : asc s.digits ++ List.replicate (s.dp.toNat - s.digits.length) (48 : UInt8) ≠ [] := by
        intro h
        have := congrArg List.length h
        simp only [List.length_append, List.length_replicate, asc_length, List.length_nil,
          List.length_take, List.length_drop] at this
        omega
      have hz : (asc s.digits ++ List.replicate (s.dp.toNat - s.digits.length) (48 : UInt8)).head? ≠ some 48 := by
        have hn : asc s.digits ≠ [] := by
          intro h; have := congrArg List.length h; simp only [asc_length, List.length_nil] at this; omega
        have := asc_head_ne_zero _ wf.lt wf.hd
        cases hA : asc s.digits with
        | nil => exact absurd hA hn
        | cons a t => rw [hA] at this; simpa using this
      have := numberLit_plain neg _ [] hip hipne (fun _ => hz) (by simp)
      simp only [if_true, List.append_nil, ← List.append_assoc] at this
      refine ⟨_, this, ?_⟩
      simp only [litValue, Option.getD_none, List.append_nil, digitsVal_append,
        digitsVal_replicate_zero, hval, List.length_replicate, List.length_nil]
      have e1 : (s.dp - (s.digits.length : Int)).toNat = s.dp.toNat - s.digits.length := by omega
      have e2 : min (s.dp - (s.digits.length : Int)) 0 = 0 := by omega
      rw [e1, e2]
      simp

/-- **fmtF_value**: `fmtF neg s` is a number of the RFC grammar (nothing left over) and it denotes
    exactly (−1)^neg · N · 10^(dp − nd), `N` the number written with the digits of `s`. -/
theorem fmtF_value (neg : Bool) (s : Shortest) (wf : WF s) :
    ∃ l, numberLit (fmtF neg s).toList = some (l, []) ∧
      (litValue l).1 = neg ∧
      SameDecimal (litValue l).2.1 (litValue l).2.2 (natOfDigits s.digits) (s.dp - s.digits.length) := by
  obtain ⟨l, h1, h2⟩ := fmtF_litValue neg s wf
  refine ⟨l, h1, by rw [h2], ?_⟩
  rw [h2]
  simp only [SameDecimal]
  by_cases h : s.dp - (s.digits.length : Int) ≤ 0
  · have e1 : (s.dp - (s.digits.length : Int)).toNat = 0 := by omega
    have e2 : min (s.dp - (s.digits.length : Int)) 0 = s.dp - s.digits.length := by omega
    simp [e1, e2]
  · have e2 : min (s.dp - (s.digits.length : Int)) 0 = 0 := by omega
    have e3 : min (0 : Int) (s.dp - (s.digits.length : Int)) = 0 := by omega
    rw [e2, e3]
    simp

theorem asc_getLast_ne_zero (ds : List Nat) (hlt : ∀ d ∈ ds, d < 10) (hl : ds.getLast? ≠ some 0) :
    (asc ds).getLast? ≠ some 48 := by
  simp only [asc, List.getLast?_map]
  cases h : ds.getLast? with
  | none => simp
  | some d =>
    have hd0 : d ≠ 0 := by rw [h] at hl; simpa using hl
    have hm : d ∈ ds := List.mem_of_getLast? h
    have := (digitChar_facts d (hlt d hm)).2.2.1 hd0
    simpa using this

theorem isDigit_ne_e (c : UInt8) (h : isDigit c = true) : c ≠ 101 ∧ c ≠ 69 ∧ c ≠ 43 := by
  refine ⟨?_, ?_, ?_⟩ <;> (intro hc; rw [hc] at h; exact absurd h (by decide))

/-- **fmtF_shape**: sign, integer digits, optionally `.` and fraction digits — nothing else (in particular
    no exponent); the integer part is the single digit `0` exactly when `dp ≤ 0` (and then a fraction
    follows: the text starts `0.`), otherwise it has `dp` digits and no leading zero; there is a fraction
    exactly when `dp < nd`, and it never ends in `0` (no zero padding beyond the digits). -/
theorem fmtF_shape (neg : Bool) (s : Shortest) (wf : WF s) (hlast : s.digits.getLast? ≠ some 0) :
    ∃ ip fp, (fmtF neg s).toList = signL neg ++ ip ++ (if fp = [] then [] else 46 :: fp) ∧
      (∀ c ∈ ip, isDigit c = true) ∧ (∀ c ∈ fp, isDigit c = true) ∧
      (ip = [48] ↔ s.dp ≤ 0) ∧
      (0 < s.dp → ip.length = s.dp.toNat ∧ ip.head? ≠ some 48) ∧
      (fp = [] ↔ (s.digits.length : Int) ≤ s.dp) ∧
      fp.getLast? ≠ some 48 ∧
      (∀ c ∈ (fmtF neg s).toList, c ≠ 101 ∧ c ≠ 69 ∧ c ≠ 43) := by
  have hlen : 0 < s.digits.length := List.length_pos_iff.mpr wf.ne
  have hasc := asc_isDigit s.digits wf.lt
  have hne : asc s.digits ≠ [] := by
    intro h; have := congrArg List.length h; simp only [asc_length, List.length_nil] at this; omega
  have hhead := asc_head_ne_zero _ wf.lt wf.hd
  have hlast' := asc_getLast_ne_zero _ wf.lt hlast
  -- the last conjunct follows from the first three
  suffices h : ∃ ip fp, (fmtF neg s).toList = signL neg ++ ip ++ (if fp = [] then [] else 46 :: fp) ∧
      (∀ c ∈ ip, isDigit c = true) ∧ (∀ c ∈ fp, isDigit c = true) ∧
      (ip = [48] ↔ s.dp ≤ 0) ∧
      (0 < s.dp → ip.length = s.dp.toNat ∧ ip.head? ≠ some 48) ∧
      (fp = [] ↔ (s.digits.length : Int) ≤ s.dp) ∧
      fp.getLast? ≠ some 48 by
    obtain ⟨ip, fp, h1, h2, h3, h4, h5, h6, h7⟩ := h
    refine ⟨ip, fp, h1, h2, h3, h4, h5, h6, h7, ?_⟩
    intro c hc
    rw [h1] at hc
    rcases List.mem_append.mp hc with hc | hc
    · rcases List.mem_append.mp hc with hc | hc
      · have : c = 45 := by
          cases neg <;> simp [signL] at hc; exact hc
        rw [this]; decide
      · exact isDigit_ne_e c (h2 c hc)
    · by_cases hf : fp = []
      · simp [hf] at hc
      · simp only [hf, if_false, List.mem_cons] at hc
        rcases hc with hc | hc
        · rw [hc]; decide
        · exact isDigit_ne_e c (h3 c hc)
  rw [fmtF_toList neg s wf.ne]
  unfold fmtFL
  by_cases h1 : s.dp ≤ 0
  · refine ⟨[48], List.replicate (-s.dp).toNat 48 ++ asc s.digits, ?_, by decide, ?_, ?_, ?_, ?_, ?_⟩
    · simp [h1, hne]
    · intro c hc
      rcases List.mem_append.mp hc with hc | hc
      · rw [(List.mem_replicate.mp hc).2]; decide
      · exact hasc c hc
    · simp [h1]
    · intro h; omega
    · simp [hne]; omega
    · rw [List.getLast?_append]
      cases hA : (asc s.digits).getLast? with
      | none => rw [List.getLast?_eq_none_iff] at hA; exact absurd hA hne
      | some x => rw [hA] at hlast'; simpa using hlast'
  · by_cases h2 : s.dp < (s.digits.length : Int)
    · refine ⟨asc (s.digits.take s.dp.toNat), asc (s.digits.drop s.dp.toNat), ?_, ?_, ?_, ?_, ?_, ?_, ?_⟩
      · have : asc (s.digits.drop s.dp.toNat) ≠ [] := by
          intro h; have := congrArg List.length h
          simp only [asc_length, List.length_nil, List.length_drop] at this; omega
        simp [h1, h2, this]
      · exact asc_isDigit _ (fun d hd => wf.lt d (List.mem_of_mem_take hd))
      · exact asc_isDigit _ (fun d hd => wf.lt d (List.mem_of_mem_drop hd))
      · constructor
        · intro h; have := congrArg List.length h
          simp only [asc_length, List.length_take, List.length_cons, List.length_nil] at this
          have hh : (asc (s.digits.take s.dp.toNat)).head? = some 48 := by rw [h]; rfl
          have : (s.digits.take s.dp.toNat).head? = s.digits.head? := by
            rw [List.head?_take]; simp; omega
          exact absurd hh (asc_head_ne_zero _ (fun d hd => wf.lt d (List.mem_of_mem_take hd))
            (by rw [this]; exact wf.hd))
        · intro h; omega
      · intro _
        constructor
        · simp only [asc_length, List.length_take]; omega
        · apply asc_head_ne_zero _ (fun d hd => wf.lt d (List.mem_of_mem_take hd))
          have : (s.digits.take s.dp.toNat).head? = s.digits.head? := by
            rw [List.head?_take]; simp; omega
          rw [this]; exact wf.hd
      · constructor
        · intro h; have := congrArg List.length h
          simp only [asc_length, List.length_nil, List.length_drop] at this; omega
        · intro h; omega
      · apply asc_getLast_ne_zero _ (fun d hd => wf.lt d (List.mem_of_mem_drop hd))
        rw [List.getLast?_drop]
        have : ¬ s.digits.length ≤ s.dp.toNat := by omega
        simp only [this, if_false]; exact hlast
    · refine ⟨asc s.digits ++ List.replicate (s.dp.toNat - s.digits.length) 48, [], ?_, ?_, ?_, ?_, ?_, ?_, ?_⟩
      · simp [h1, h2]
      · intro c hc
        rcases List.mem_append.mp hc with hc | hc
        · exact hasc c hc
        · rw [(List.mem_replicate.mp hc).2]; decide
      · simp
      · constructor
        · intro h
          have hh : (asc s.digits ++ List.replicate (s.dp.toNat - s.digits.length) (48 : UInt8)).head? = some 48 := by
            rw [h]; rfl
          cases hA : asc s.digits with
          | nil => exact absurd hA hne
          | cons a t => rw [hA] at hh hhead; simp at hh hhead; exact absurd hh hhead
        · intro h; omega
      · intro _
        constructor
        · simp only [List.length_append, asc_length, List.length_replicate]; omega
        · cases hA : asc s.digits with
          | nil => exact absurd hA hne
          | cons a t => rw [hA] at hhead; simpa using hhead
      · simp; omega
      · simp

/-! ## 7. `fmtE` and `cleanExp` -/

def natDigits (a : Nat) : List UInt8 := (Nat.toDigits 10 a).map (fun c => UInt8.ofNat c.toNat)

theorem natToAscii_toList (a : Nat) : (natToAscii a).toList = natDigits a := by
  simp [natToAscii, natDigits]

/-- `fmtE` read off the program text. -/
def fmtEL (neg : Bool) (s : Shortest) : List UInt8 :=
  signL neg ++ digitChar (s.digits.getD 0 0) ::
    ((if s.digits.length > 1 then 46 :: asc (s.digits.drop 1) else []) ++
      101 :: (if s.dp - 1 < 0 then 45 else 43) ::
        ((if (s.dp - 1).natAbs < 10 then [48] else []) ++ natDigits (s.dp - 1).natAbs))

theorem fmtE_toList (neg : Bool) (s : Shortest) (hne : s.digits ≠ []) :
    (fmtE neg s).toList = fmtEL neg s := by
  have hemp : s.digits.isEmpty = false := by simpa using hne
  unfold fmtE fmtEL signL asc
  simp only [Id.run, bind, pure]
  simp only [forIn_list_push, hemp, Bool.false_eq_true, if_false]
  cases neg <;> by_cases h1 : s.digits.length > 1 <;> by_cases h2 : (s.dp - 1).natAbs < 10 <;>
    simp [h1, h2, natToAscii_toList]

theorem natDigitChar_eq (n : Nat) (h : n < 10) : UInt8.ofNat (Nat.digitChar n).toNat = digitChar n := by
  have key : ∀ k : Fin 10, UInt8.ofNat (Nat.digitChar k.val).toNat = digitChar k.val := by decide
  exact key ⟨n, h⟩

theorem natDigits_lt (a : Nat) (h : a < 10) : natDigits a = [digitChar a] := by
  simp [natDigits, Nat.toDigits_of_lt_base h, natDigitChar_eq a h]

theorem natDigits_ge (a : Nat) (h : 10 ≤ a) : natDigits a = natDigits (a / 10) ++ [digitChar (a % 10)] := by
  simp [natDigits, Nat.toDigits_of_base_le (by decide : 1 < 10) h, natDigitChar_eq (a % 10) (Nat.mod_lt _ (by decide))]

theorem natDigits_spec (a : Nat) :
    (∀ c ∈ natDigits a, isDigit c = true) ∧ digitsVal (natDigits a) = a ∧ natDigits a ≠ [] ∧
      (0 < a → (natDigits a).head? ≠ some 48) := by
  induction a using Nat.strongRecOn with
  | _ a ih =>
    by_cases h : a < 10
    · rw [natDigits_lt a h]
      have := digitChar_facts a h
      refine ⟨by simpa using this.1, ?_, by simp, ?_⟩
      · rw [digitsVal_cons]; simp [digitsVal_nil, this.2.1]
      · intro h0; simpa using this.2.2.1 (by omega)
    · have h' : 10 ≤ a := by omega
      rw [natDigits_ge a h']
      obtain ⟨i1, i2, i3, i4⟩ := ih (a / 10) (by omega)
      have := digitChar_facts (a % 10) (Nat.mod_lt _ (by decide))
      refine ⟨?_, ?_, by simp, ?_⟩
      · intro c hc
        rcases List.mem_append.mp hc with hc | hc
        · exact i1 c hc
        · simp at hc; rw [hc]; exact this.1
      · rw [digitsVal_append, i2, digitsVal_cons]; simp [digitsVal_nil, this.2.1]; omega
      · intro _
        cases hA : natDigits (a / 10) with
        | nil => exact absurd hA i3
        | cons x t =>
          have := i4 (by omega)
          rw [hA] at this; simpa using this

theorem natDigits_length (a : Nat) : (natDigits a).length = (Nat.toDigits 10 a).length := by
  simp [natDigits]

theorem natDigits_length_le (a k : Nat) (hk : 0 < k) : (natDigits a).length ≤ k ↔ a < 10 ^ k := by
  rw [natDigits_length]; exact Nat.length_toDigits_le_iff (by decide) hk

def cleanExpL (l : List UInt8) : List UInt8 :=
  if l.length ≥ 4 ∧ l.getD (l.length - 4) 0 == 101 ∧ l.getD (l.length - 3) 0 == 45 ∧ l.getD (l.length - 2) 0 == 48
  then l.take (l.length - 2) ++ [l.getD (l.length - 1) 0] else l

theorem cleanExp_toList (b : Bytes) : (cleanExp b).toList = cleanExpL b.toList := by
  unfold cleanExp cleanExpL
  simp only [Array.length_toList]
  have hg : ∀ i, b.getD i 0 = b.toList.getD i 0 := by
    intro i; simp [Array.getD_eq_getD_getElem?, List.getD_eq_getElem?_getD]
  simp only [hg]
  split
  · simp [Array.toList_extract]
  · rfl

theorem cleanExpL_two (pre : List UInt8) (sg x y : UInt8) :
    cleanExpL (pre ++ [101, sg, x, y]) =
      if sg = 45 ∧ x = 48 then pre ++ [101, sg, y] else pre ++ [101, sg, x, y] := by
  unfold cleanExpL
  have e4 : (pre ++ [101, sg, x, y]).length - 4 = pre.length := by simp
  have e3 : (pre ++ [101, sg, x, y]).length - 3 = pre.length + 1 := by simp
  have e2 : (pre ++ [101, sg, x, y]).length - 2 = pre.length + 2 := by simp
  have e1 : (pre ++ [101, sg, x, y]).length - 1 = pre.length + 3 := by simp
  rw [e4, e3, e2, e1]
  have g0 : (pre ++ [101, sg, x, y]).getD pre.length 0 = 101 := by simp [List.getD_eq_getElem?_getD]
  have g1 : (pre ++ [101, sg, x, y]).getD (pre.length + 1) 0 = sg := by
    simp [List.getD_eq_getElem?_getD]
  have g2 : (pre ++ [101, sg, x, y]).getD (pre.length + 2) 0 = x := by
    simp [List.getD_eq_getElem?_getD]
  have g3 : (pre ++ [101, sg, x, y]).getD (pre.length + 3) 0 = y := by
    simp [List.getD_eq_getElem?_getD]
  have ht : (pre ++ [101, sg, x, y]).take (pre.length + 2) = pre ++ [101, sg] := by
    rw [List.take_length_add_append]; rfl
  rw [g0, g1, g2, g3, ht]
  by_cases h : sg = 45 ∧ x = 48
  · simp [h]
  · have : ¬ ((sg == 45) = true ∧ (x == 48) = true) := by simpa using h
    simp [h]

theorem cleanExpL_long (pre : List UInt8) (sg : UInt8) (ex : List UInt8) (hlen : 3 ≤ ex.length)
    (h : ∀ c ∈ sg :: ex, c ≠ 101) : cleanExpL (pre ++ 101 :: sg :: ex) = pre ++ 101 :: sg :: ex := by
  unfold cleanExpL
  have hidx : (pre ++ 101 :: sg :: ex).length - 4 = pre.length + 1 + (ex.length - 3) := by
    simp; omega
  have hg : (pre ++ 101 :: sg :: ex).getD ((pre ++ 101 :: sg :: ex).length - 4) 0 ∈ sg :: ex := by
    rw [hidx, List.getD_eq_getElem?_getD, List.getElem?_append_right (by omega)]
    have : pre.length + 1 + (ex.length - 3) - pre.length = (ex.length - 3) + 1 := by omega
    rw [this, List.getElem?_cons_succ]
    have hlt : ex.length - 3 < (sg :: ex).length := by simp; omega
    rw [List.getElem?_eq_getElem hlt]
    simp only [Option.getD_some]
    exact List.getElem_mem hlt
  have := h _ hg
  rw [if_neg]
  intro ⟨_, h1, _⟩
  exact this (by simpa using h1)

/-- sign and digits of the exponent as `appendFloat` leaves them: `-` and the digits without padding,
    or `+` and at least two digits (strconv's padding, which `appendFloat` only removes after `-`). -/
def expText (e : Int) : List UInt8 :=
  if e < 0 then 45 :: natDigits e.natAbs
  else 43 :: ((if e.natAbs < 10 then [48] else []) ++ natDigits e.natAbs)

/-- `cleanExp (fmtE neg s)` in closed form. -/
def fmtECleanL (neg : Bool) (s : Shortest) : List UInt8 :=
  signL neg ++ digitChar (s.digits.getD 0 0) ::
    ((if s.digits.length > 1 then 46 :: asc (s.digits.drop 1) else []) ++ 101 :: expText (s.dp - 1))

theorem list_len2 {α} (l : List α) (h : l.length = 2) : ∃ x y, l = [x, y] := by
  match l, h with
  | [x, y], _ => exact ⟨x, y, rfl⟩

theorem cleanExp_fmtE_toList (neg : Bool) (s : Shortest) (hne : s.digits ≠ []) :
    (cleanExp (fmtE neg s)).toList = fmtECleanL neg s := by
  rw [cleanExp_toList, fmtE_toList neg s hne]
  unfold fmtEL fmtECleanL expText
  generalize hfr : (if s.digits.length > 1 then 46 :: asc (s.digits.drop 1) else []) = fr
  generalize hd0 : digitChar (s.digits.getD 0 0) = d0
  generalize he : s.dp - 1 = e
  have reshape : ∀ (sg : UInt8) (ex : List UInt8),
      signL neg ++ d0 :: (fr ++ 101 :: sg :: ex) = (signL neg ++ d0 :: fr) ++ 101 :: sg :: ex := by
    intro sg ex; simp
  obtain ⟨n1, n2, n3, n4⟩ := natDigits_spec e.natAbs
  by_cases ha : e.natAbs < 10
  · simp only [ha, if_true, natDigits_lt _ ha, List.cons_append, List.nil_append]
    rw [reshape, cleanExpL_two]
    by_cases hneg : e < 0
    · simp [hneg]
    · simp [hneg]
  · simp only [ha, if_false, List.nil_append]
    have hlen2 : ¬ (natDigits e.natAbs).length ≤ 1 := by
      rw [natDigits_length_le _ 1 (by decide)]; simpa using ha
    rw [reshape]
    by_cases hl : (natDigits e.natAbs).length = 2
    · obtain ⟨x, y, hxy⟩ := list_len2 _ hl
      have hx : x ≠ 48 := by
        have := n4 (by omega); rw [hxy] at this; simpa using this
      rw [hxy, cleanExpL_two]
      by_cases hneg : e < 0 <;> simp [hneg, hx]
    · rw [cleanExpL_long _ _ _ (by omega)]
      · by_cases hneg : e < 0 <;> simp [hneg]
      · intro c hc
        rcases List.mem_cons.mp hc with hc | hc
        · rw [hc]; split <;> decide
        · exact (isDigit_ne_e c (n1 c hc)).1

theorem digitsVal_dropZeros (l : List UInt8) : digitsVal (l.dropWhile (· == 0x30)) = digitsVal l := by
  induction l with
  | nil => rfl
  | cons c t ih =>
    by_cases h : c = 0x30
    · subst h
      rw [List.dropWhile_cons_of_pos (by decide), ih, digitsVal_cons]; simp
    · rw [List.dropWhile_cons_of_neg (by simpa using h)]

/-- digits of the exponent in `expText` -/
def expDigits (e : Int) : List UInt8 :=
  if e < 0 then natDigits e.natAbs else (if e.natAbs < 10 then [48] else []) ++ natDigits e.natAbs

theorem expText_eq (e : Int) : expText e = (if decide (e < 0) then 45 else 43) :: expDigits e := by
  unfold expText expDigits
  by_cases h : e < 0 <;> simp [h]

theorem expDigits_spec (e : Int) :
    (∀ c ∈ expDigits e, isDigit c = true) ∧ expDigits e ≠ [] ∧ digitsVal (expDigits e) = e.natAbs ∧
    (e.natAbs < 10 ^ 7 → (expDigits e).length ≤ 7) := by
  obtain ⟨n1, n2, n3, n4⟩ := natDigits_spec e.natAbs
  unfold expDigits
  by_cases h : e < 0
  · simp only [h, if_true]
    exact ⟨n1, n3, n2, fun hb => (natDigits_length_le _ 7 (by decide)).mpr hb⟩
  · simp only [h, if_false]
    by_cases ha : e.natAbs < 10
    · simp only [ha, if_true, natDigits_lt _ ha]
      have := digitChar_facts _ ha
      refine ⟨?_, by simp, ?_, by simp⟩
      · intro c hc; simp at hc; rcases hc with hc | hc <;> rw [hc]
        · decide
        · exact this.1
      · simp [digitsVal_cons, digitsVal_nil, this.2.1]
    · simp only [ha, if_false, List.nil_append]
      exact ⟨n1, n3, n2, fun hb => (natDigits_length_le _ 7 (by decide)).mpr hb⟩

/-- The literal read back from `cleanExp (fmtE neg s)`, with its exact value.  The bound on the exponent is
    the one `Spec.numValue` itself imposes (longer exponents are clamped to ±10⁷ there). -/
theorem fmtE_litValue (neg : Bool) (s : Shortest) (wf : WF s) (hexp : (s.dp - 1).natAbs < 10 ^ 7) :
    ∃ l, numberLit (cleanExp (fmtE neg s)).toList = some (l, []) ∧
      litValue l = (neg, natOfDigits s.digits, s.dp - s.digits.length) := by
  rw [cleanExp_fmtE_toList neg s wf.ne]
  unfold fmtECleanL
  obtain ⟨d0, tl, hds⟩ := List.exists_cons_of_ne_nil wf.ne
  have hlt := wf.lt
  rw [hds] at hlt ⊢
  have hd0 := digitChar_facts d0 (hlt d0 (by simp))
  have htl : ∀ c ∈ asc tl, isDigit c = true := asc_isDigit tl (fun d hd => hlt d (by simp [hd]))
  obtain ⟨x1, x2, x3, x4⟩ := expDigits_spec (s.dp - 1)
  have hfr : (if (d0 :: tl).length > 1 then 46 :: asc ((d0 :: tl).drop 1) else []) =
      (if asc tl = [] then [] else 46 :: asc tl) := by
    cases tl <;> simp [asc]
  have := numberLit_exp neg (digitChar d0) (asc tl) (decide (s.dp - 1 < 0)) (expDigits (s.dp - 1))
    hd0.1 htl x1 x2
  rw [hfr, expText_eq]
  simp only [List.getD_cons_zero]
  refine ⟨_, this, ?_⟩
  have hfp : (if asc tl = [] then none else some (asc tl)).getD [] = asc tl := by
    by_cases h : asc tl = [] <;> simp [h]
  have hm : digitsVal (digitChar d0 :: asc tl) = natOfDigits (d0 :: tl) := digitsVal_asc (d0 :: tl) hlt
  have hsig : ¬ ((expDigits (s.dp - 1)).dropWhile (· == 0x30)).length > 7 := by
    have := (List.dropWhile_sublist (l := expDigits (s.dp - 1)) (· == (0x30 : UInt8))).length_le
    have := x4 hexp
    omega
  simp only [litValue, hfp, List.cons_append, List.nil_append, hm, hsig, if_false, digitsVal_dropZeros, x3,
    asc_length, List.length_cons]
  by_cases hneg : s.dp - 1 < 0
  · simp [hneg]; omega
  · simp [hneg]; omega

/-- **fmtE_value** -/
theorem fmtE_value (neg : Bool) (s : Shortest) (wf : WF s) (hexp : (s.dp - 1).natAbs < 10 ^ 7) :
    ∃ l, numberLit (cleanExp (fmtE neg s)).toList = some (l, []) ∧
      (litValue l).1 = neg ∧
      SameDecimal (litValue l).2.1 (litValue l).2.2 (natOfDigits s.digits) (s.dp - s.digits.length) := by
  obtain ⟨l, h1, h2⟩ := fmtE_litValue neg s wf hexp
  refine ⟨l, h1, by rw [h2], ?_⟩
  rw [h2]
  simp [SameDecimal]

/-- **fmtE_shape** (ECMAScript `Number::toString` exponent form): optional `-`, one non-zero digit, optionally
    `.` and more digits (not ending in `0`), `e`, a sign `+`/`-`, and the decimal exponent **without leading
    zero**.  The hypothesis on `dp` is exactly the range in which the statement is true: for
    `1 ≤ dp ≤ 10` the exponent is `+0`…`+9` and strconv's two-digit padding survives (`1e+05`), see
    `fmtE_padding_survives`; `appendFloat` only reaches `fmtE` with `dp ≤ -6` or `dp ≥ 22`. -/
theorem fmtE_shape (neg : Bool) (s : Shortest) (wf : WF s) (hlast : s.digits.getLast? ≠ some 0)
    (hrange : s.dp ≤ 0 ∨ 11 ≤ s.dp) :
    ∃ d fp es ex,
      (cleanExp (fmtE neg s)).toList =
        signL neg ++ d :: ((if fp = [] then [] else 46 :: fp) ++ 101 :: es :: ex) ∧
      isDigit d = true ∧ d ≠ 48 ∧
      (∀ c ∈ fp, isDigit c = true) ∧ fp.getLast? ≠ some 48 ∧
      (fp = [] ↔ s.digits.length = 1) ∧
      (es = 43 ∨ es = 45) ∧ (es = 45 ↔ s.dp - 1 < 0) ∧
      ex ≠ [] ∧ (∀ c ∈ ex, isDigit c = true) ∧ ex.head? ≠ some 48 ∧
      digitsVal ex = (s.dp - 1).natAbs := by
  rw [cleanExp_fmtE_toList neg s wf.ne]
  unfold fmtECleanL
  obtain ⟨d0, tl, hds⟩ := List.exists_cons_of_ne_nil wf.ne
  have hlt := wf.lt
  have hhd := wf.hd
  rw [hds] at hlt hlast hhd ⊢
  have hd0 := digitChar_facts d0 (hlt d0 (by simp))
  have hd0ne : d0 ≠ 0 := by simpa using hhd
  have htl : ∀ c ∈ asc tl, isDigit c = true := asc_isDigit tl (fun d hd => hlt d (by simp [hd]))
  have hfr : (if (d0 :: tl).length > 1 then 46 :: asc ((d0 :: tl).drop 1) else []) =
      (if asc tl = [] then [] else 46 :: asc tl) := by
    cases tl <;> simp [asc]
  obtain ⟨n1, n2, n3, n4⟩ := natDigits_spec (s.dp - 1).natAbs
  have hex : expText (s.dp - 1) = (if s.dp - 1 < 0 then 45 else 43) :: natDigits (s.dp - 1).natAbs := by
    unfold expText
    by_cases h : s.dp - 1 < 0
    · simp [h]
    · have : ¬ (s.dp - 1).natAbs < 10 := by omega
      simp [h, this]
  rw [hfr, hex]
  refine ⟨digitChar d0, asc tl, (if s.dp - 1 < 0 then 45 else 43), natDigits (s.dp - 1).natAbs,
    by simp, hd0.1, hd0.2.2.1 hd0ne, htl, ?_, ?_, ?_, ?_, n3, n1, n4 (by omega), n2⟩
  · apply asc_getLast_ne_zero tl (fun d hd => hlt d (by simp [hd]))
    cases tl with
    | nil => simp
    | cons a t => simpa [List.getLast?_cons_cons] using hlast
  · cases tl <;> simp [asc]
  · by_cases h : s.dp - 1 < 0 <;> simp [h]
  · by_cases h : s.dp - 1 < 0 <;> simp [h]

/-- The range hypothesis of `fmtE_shape` cannot be dropped: `cleanExp` only strips the padding zero after
    `e-`, so a (hypothetical) call with exponent 0…9 keeps strconv's `e+05`.  (test, by evaluation) -/
theorem fmtE_padding_survives :
    (cleanExp (fmtE false { digits := [1], dp := 6 })).toList = [49, 101, 43, 48, 53] := by decide

/-! ## 8. The thresholds -/

theorem ex_toNat (a : UInt64) (ha : a.toNat < 2^63) : ((a >>> 52) &&& 0x7ff).toNat = a.toNat / 2^52 := by
  have h7 : (0x7ff : Nat) = 2^11 - 1 := by decide
  have : a.toNat / 2^52 < 2^11 := by omega
  simp only [UInt64.toNat_and, UInt64.toNat_shiftRight, Nat.shiftRight_eq_div_pow]
  show a.toNat / 2 ^ 52 &&& 2047 = _
  rw [h7, Nat.and_two_pow_sub_one_eq_mod, Nat.mod_eq_of_lt this]

theorem fr_toNat (a : UInt64) : (a &&& 0xfffffffffffff).toNat = a.toNat % 2^52 := by
  have h7 : (0xfffffffffffff : Nat) = 2^52 - 1 := by decide
  simp only [UInt64.toNat_and]
  show a.toNat &&& 0xfffffffffffff = _
  rw [h7, Nat.and_two_pow_sub_one_eq_mod]

theorem sign_zero (a : UInt64) (ha : a.toNat < 2^63) : ((a >>> 63) != 0) = false := by
  have : (a >>> 63).toNat = 0 := by
    simp only [UInt64.toNat_shiftRight, Nat.shiftRight_eq_div_pow]
    show a.toNat / 2^63 = 0
    omega
  have : a >>> 63 = 0 := UInt64.toNat_inj.mp (by simpa using this)
  simp [this]

def mant (x f : Nat) : Nat := if x = 0 then f else f + 2^52

/-- value · 2^1074 -/
def W (x f : Nat) : Nat := mant x f * 2 ^ (x - 1)

theorem W_lt (x f : Nat) (hf : f < 2^52) : W x f < 2^52 * 2^x := by
  unfold W mant
  by_cases hx : x = 0
  · simp [hx]; omega
  · simp only [hx, if_false]
    have : 2^x = 2 * 2^(x-1) := by
      rw [← Nat.pow_succ']; congr 1; omega
    rw [this]
    have hp : 0 < 2^(x-1) := Nat.pow_pos (by decide)
    calc (f + 2^52) * 2^(x-1) < (2^52 * 2) * 2^(x-1) := Nat.mul_lt_mul_of_pos_right (by omega) hp
      _ = 2^52 * (2 * 2^(x-1)) := by rw [Nat.mul_assoc]

theorem W_ge (x f : Nat) (hx : 0 < x) : 2^52 * 2^(x-1) ≤ W x f := by
  unfold W mant
  have : x ≠ 0 := by omega
  simp only [this, if_false]
  exact Nat.mul_le_mul_right _ (by omega)

theorem W_lt_of_lt (x f y g : Nat) (hf : f < 2^52) (h : x < y) : W x f < W y g := by
  have h1 := W_lt x f hf
  have h2 := W_ge y g (by omega)
  have h3 : 2^x ≤ 2^(y-1) := Nat.pow_le_pow_right (by decide) (by omega)
  have h4 : 2^52 * 2^x ≤ 2^52 * 2^(y-1) := Nat.mul_le_mul_left _ h3
  omega

theorem W_mono (x f y g : Nat) (hf : f < 2^52) (hg : g < 2^52) :
    x * 2^52 + f ≤ y * 2^52 + g ↔ W x f ≤ W y g := by
  have key : ∀ x f y g : Nat, f < 2^52 → x < y → x * 2^52 + f < y * 2^52 + g ∧ W x f < W y g := by
    intro x f y g hf h
    refine ⟨?_, W_lt_of_lt x f y g hf h⟩
    have h5 : (x + 1) * 2^52 ≤ y * 2^52 := Nat.mul_le_mul_right _ h
    generalize 2^52 = P at *
    rw [Nat.add_mul, Nat.one_mul] at h5
    omega
  rcases Nat.lt_trichotomy x y with h | h | h
  · obtain ⟨k1, k2⟩ := key x f y g hf h
    exact ⟨fun _ => Nat.le_of_lt k2, fun _ => Nat.le_of_lt k1⟩
  · subst h
    have hp : 0 < 2^(x-1) := Nat.pow_pos (by decide)
    unfold W
    rw [Nat.mul_le_mul_right_iff hp]
    unfold mant
    split <;> omega
  · obtain ⟨k1, k2⟩ := key y g x f hg h
    exact ⟨fun h' => absurd h' (Nat.not_le.mpr k1), fun h' => absurd h' (Nat.not_le.mpr k2)⟩

/-- `m · 2^e ≤ m' · 2^e'` for integer exponents (both sides scaled by `2^(-min e e')`). -/
def finLe (m : Nat) (e : Int) (m' : Nat) (e' : Int) : Prop :=
  m * 2 ^ (e - e').toNat ≤ m' * 2 ^ (e' - e).toNat
def finLt (m : Nat) (e : Int) (m' : Nat) (e' : Int) : Prop :=
  m * 2 ^ (e - e').toNat < m' * 2 ^ (e' - e).toNat

theorem finLt_iff_not_finLe (m e m' e') : finLt m e m' e' ↔ ¬ finLe m' e' m e := by
  unfold finLt finLe; exact Nat.not_le.symm

/-- order of non-negative finite values -/
def posLe : F64.Val → F64.Val → Prop
  | .fin false m e, .fin false m' e' => finLe m e m' e'
  | _, _ => False
def posLt : F64.Val → F64.Val → Prop
  | .fin false m e, .fin false m' e' => finLt m e m' e'
  | _, _ => False

theorem finLe_scaled (m m' p q : Nat) :
    finLe m ((p : Int) - 1074) m' ((q : Int) - 1074) ↔ m * 2^p ≤ m' * 2^q := by
  unfold finLe
  rcases Nat.le_total p q with h | h
  · have e1 : ((p : Int) - 1074 - ((q : Int) - 1074)).toNat = 0 := by omega
    have e2 : ((q : Int) - 1074 - ((p : Int) - 1074)).toNat = q - p := by omega
    rw [e1, e2]
    have : 2^q = 2^(q-p) * 2^p := by rw [← Nat.pow_add]; congr 1; omega
    rw [this, ← Nat.mul_assoc, Nat.mul_le_mul_right_iff (Nat.pow_pos (by decide))]
    simp
  · have e1 : ((p : Int) - 1074 - ((q : Int) - 1074)).toNat = p - q := by omega
    have e2 : ((q : Int) - 1074 - ((p : Int) - 1074)).toNat = 0 := by omega
    rw [e1, e2]
    have : 2^p = 2^(p-q) * 2^q := by rw [← Nat.pow_add]; congr 1; omega
    rw [this, ← Nat.mul_assoc, Nat.mul_le_mul_right_iff (Nat.pow_pos (by decide))]
    simp

theorem decode_pos (a : UInt64) (ha : a.toNat < 2^63) (hfin : F64.isFinite a = true) :
    F64.decode a = .fin false (mant (a.toNat / 2^52) (a.toNat % 2^52))
      (((a.toNat / 2^52 - 1 : Nat) : Int) - 1074) := by
  have hx := ex_toNat a ha
  have hf := fr_toNat a
  have hs := sign_zero a ha
  have hne : ¬ a.toNat / 2^52 = 2047 := by
    intro h
    unfold F64.isFinite at hfin
    have : (a >>> 52 &&& 0x7ff) = 0x7ff := UInt64.toNat_inj.mp (by rw [hx, h]; rfl)
    simp [this] at hfin
  unfold F64.decode
  simp only [hx, hf, hs]
  unfold mant
  by_cases h0 : a.toNat / 2^52 = 0
  · simp [h0]
  · simp only [beq_iff_eq, hne, h0, if_false]
    congr 1
    omega

/-- **Monotonicity of the IEEE-754 encoding** on finite non-negative bit patterns. -/
theorem bits_le_iff (a b : UInt64) (ha : a.toNat < 2^63) (hb : b.toNat < 2^63)
    (hfa : F64.isFinite a = true) (hfb : F64.isFinite b = true) :
    a ≤ b ↔ posLe (F64.decode a) (F64.decode b) := by
  rw [decode_pos a ha hfa, decode_pos b hb hfb]
  simp only [posLe]
  rw [finLe_scaled, UInt64.le_iff_toNat_le]
  have := W_mono (a.toNat / 2^52) (a.toNat % 2^52) (b.toNat / 2^52) (b.toNat % 2^52)
    (Nat.mod_lt _ (by decide)) (Nat.mod_lt _ (by decide))
  unfold W at this
  rw [← this, Nat.div_add_mod' , Nat.div_add_mod']

theorem bits_lt_iff (a b : UInt64) (ha : a.toNat < 2^63) (hb : b.toNat < 2^63)
    (hfa : F64.isFinite a = true) (hfb : F64.isFinite b = true) :
    a < b ↔ posLt (F64.decode a) (F64.decode b) := by
  have h := bits_le_iff b a hb ha hfb hfa
  rw [decode_pos a ha hfa, decode_pos b hb hfb] at *
  simp only [posLe, posLt] at *
  rw [finLt_iff_not_finLe, ← h]
  exact UInt64.not_le.symm

/-- **threshold_exact** (general form): the bit-pattern test `lo ≤ abs ∧ abs < hi` that `appendFloat`
    performs is the exact comparison of the decoded values. -/
theorem threshold_exact_gen (abs lo hi : UInt64)
    (ha : abs.toNat < 2^63) (hfa : F64.isFinite abs = true)
    (hl : lo.toNat < 2^63) (hfl : F64.isFinite lo = true)
    (hh : hi.toNat < 2^63) (hfh : F64.isFinite hi = true) :
    (decide (abs ≥ lo) && decide (abs < hi)) = true ↔
      posLe (F64.decode lo) (F64.decode abs) ∧ posLt (F64.decode abs) (F64.decode hi) := by
  rw [Bool.and_eq_true, decide_eq_true_iff, decide_eq_true_iff]
  rw [← bits_le_iff lo abs hl ha hfl hfa, ← bits_lt_iff abs hi ha hh hfa hfh]

theorem toNat!_of_toNat? (s : String) (n : Nat) (h : s.toNat? = some n) : s.toNat! = n := by
  unfold String.toNat!
  rw [← String.toNat?_toSlice] at h
  unfold String.Slice.toNat? at h
  unfold String.Slice.toNat!
  split at h
  · rename_i hn; rw [if_pos hn]; exact Option.some.inj h
  · exact absurd h (by simp)

theorem toInt!_of_toInt? (s : String) (n : Int) (h : s.toInt? = some n) : s.toInt! = n := by
  unfold String.toInt!
  rw [← String.toInt?_toSlice] at h
  unfold String.Slice.toInt!
  rw [h]

theorem one_toNat : "1".toNat! = 1 := by
  apply toNat!_of_toNat?
  have : "1" = (1 : Nat).repr := by decide
  rw [this]; exact Nat.toNat?_repr 1

theorem m6_toInt : "-6".toInt! = -6 := by
  apply toInt!_of_toInt?
  have : "-6" = "-" ++ (6 : Nat).repr := by decide
  rw [this, String.toInt?_minus_append, Nat.toNat?_repr]; rfl

theorem t21_toInt : "21".toInt! = 21 := by
  apply toInt!_of_toInt?
  have : "21" = (21 : Nat).repr := by decide
  rw [this]; exact Nat.toInt?_repr 21

theorem split_lo : "1e-6".splitOn "e" = ["1", "-6"] := by
  unfold String.splitOn
  rw [if_neg (by decide)]
  rw [String.splitOnAux, if_neg (by decide), if_neg (by decide)]
  rw [String.splitOnAux, if_neg (by decide), if_pos (by decide)]
  simp only []
  rw [if_pos (by decide)]
  rw [String.splitOnAux, if_neg (by decide), if_neg (by decide)]
  rw [String.splitOnAux, if_neg (by decide), if_neg (by decide)]
  rw [String.splitOnAux, if_pos (by decide)]
  decide

theorem split_hi : "1e21".splitOn "e" = ["1", "21"] := by
  unfold String.splitOn
  rw [if_neg (by decide)]
  rw [String.splitOnAux, if_neg (by decide), if_neg (by decide)]
  rw [String.splitOnAux, if_neg (by decide), if_pos (by decide)]
  simp only []
  rw [if_pos (by decide)]
  rw [String.splitOnAux, if_neg (by decide), if_neg (by decide)]
  rw [String.splitOnAux, if_neg (by decide), if_neg (by decide)]
  rw [String.splitOnAux, if_pos (by decide)]
  decide

/-- the model's lower threshold is the correctly rounded `1e-6`… -/
theorem loBits_def : loBits = (F64.roundDecimal false 1 (-6)).getD 0 := by
  unfold loBits parseThreshold
  rw [show Generated.cfloatFmtLo = "1e-6" from rfl, split_lo]
  simp only [one_toNat, m6_toInt]

/-- …and the upper one the correctly rounded `1e21`. -/
theorem hiBits_def : hiBits = (F64.roundDecimal false 1 21).getD 0 := by
  unfold hiBits parseThreshold
  rw [show Generated.cfloatFmtHi = "1e21" from rfl, split_hi]
  simp only [one_toNat, t21_toInt]

theorem loBits_eq : loBits = 0x3eb0c6f7a0b5ed8d := by
  rw [loBits_def]; decide +kernel

theorem hiBits_eq : hiBits = 0x444b1ae4d6e2ef50 := by
  rw [hiBits_def]; decide +kernel

/-- **threshold_exact**: for a finite non-negative bit pattern `abs`, the test `abs ≥ loBits && abs < hiBits`
    of `appendFloat` is the exact comparison `value loBits ≤ value abs < value hiBits`, where
    `loBits`/`hiBits` are the binary64 nearest to `1e-6`/`1e21` (`loBits_def`, `hiBits_def`). -/
theorem threshold_exact (abs : UInt64) (ha : abs.toNat < 2^63) (hfa : F64.isFinite abs = true) :
    (decide (abs ≥ loBits) && decide (abs < hiBits)) = true ↔
      posLe (F64.decode loBits) (F64.decode abs) ∧ posLt (F64.decode abs) (F64.decode hiBits) := by
  apply threshold_exact_gen abs loBits hiBits ha hfa <;> simp only [loBits_eq, hiBits_eq] <;> decide

/-- the same for the `abs` that `appendFloat` computes from any finite `bits` -/
theorem threshold_exact_bits (bits : UInt64) (hfin : F64.isFinite bits = true) :
    (decide (bits &&& 0x7fffffffffffffff ≥ loBits) && decide (bits &&& 0x7fffffffffffffff < hiBits)) = true ↔
      posLe (F64.decode loBits) (F64.decode (bits &&& 0x7fffffffffffffff)) ∧
      posLt (F64.decode (bits &&& 0x7fffffffffffffff)) (F64.decode hiBits) := by
  have hm : (bits &&& 0x7fffffffffffffff).toNat = bits.toNat % 2^63 := by
    have h7 : (0x7fffffffffffffff : Nat) = 2^63 - 1 := by decide
    simp only [UInt64.toNat_and]
    show bits.toNat &&& 0x7fffffffffffffff = _
    rw [h7, Nat.and_two_pow_sub_one_eq_mod]
  have ha : (bits &&& 0x7fffffffffffffff).toNat < 2^63 := by rw [hm]; exact Nat.mod_lt _ (by decide)
  apply threshold_exact _ ha
  have hx : ∀ b : UInt64, ((b >>> 52) &&& 0x7ff).toNat = b.toNat / 2^52 % 2^11 := by
    intro b
    have h7 : (0x7ff : Nat) = 2^11 - 1 := by decide
    simp only [UInt64.toNat_and, UInt64.toNat_shiftRight, Nat.shiftRight_eq_div_pow]
    show b.toNat / 2 ^ 52 &&& 2047 = _
    rw [h7, Nat.and_two_pow_sub_one_eq_mod]
  have heq : ((bits &&& 0x7fffffffffffffff) >>> 52) &&& (0x7ff : UInt64) = (bits >>> 52) &&& (0x7ff : UInt64) := by
    apply UInt64.toNat_inj.mp
    rw [hx, hx, hm]
    omega
  unfold F64.isFinite at hfin ⊢
  rw [heq]; exact hfin

/-- the decoded thresholds: `hiBits` is exactly 10^21; `loBits` is the binary64 nearest to 10^-6, which lies
    strictly *below* the real number 10^-6 (so the test is against `float64(1e-6)`, as in Go, not against the
    real 10^-6: the two differ for the single value `abs = loBits`). -/
theorem decode_loBits : F64.decode loBits = .fin false 4722366482869645 (-72) := by
  rw [loBits_eq]; decide +kernel
theorem decode_hiBits : F64.decode hiBits = .fin false 7629394531250000 17 := by
  rw [hiBits_eq]; decide +kernel
theorem hiBits_value : 7629394531250000 * 2 ^ 17 = 10 ^ 21 := by decide
theorem loBits_value : 4722366482869645 * 10 ^ 6 < 2 ^ 72 ∧ 2 ^ 72 < (4722366482869645 + 1) * 10 ^ 6 := by decide

/-- which branch `appendFloat` takes -/
theorem appendFloat_eq (bits : UInt64) (hfin : F64.isFinite bits = true) :
    appendFloat bits = some
      (if (decide (bits &&& 0x7fffffffffffffff ≥ loBits) && decide (bits &&& 0x7fffffffffffffff < hiBits)) = true
            ∨ bits &&& 0x7fffffffffffffff = 0
        then fmtF ((bits >>> 63) != 0) (shortest (bits &&& 0x7fffffffffffffff))
        else cleanExp (fmtE ((bits >>> 63) != 0) (shortest (bits &&& 0x7fffffffffffffff)))) := by
  unfold appendFloat
  simp only [hfin, Bool.not_true, Bool.false_eq_true, if_false]
  split <;> rename_i h
  · rw [if_pos]; simpa using h
  · rw [if_neg]; simpa using h

end SJ.FloatFmtProofs
