import SJ.Proofs.F64RoundShort
import SJ.Proofs.F64RoundDecNearest
/-
IEEE-754 binary64 rounding in exact integer arithmetic, and the round trip
"the shortest decimal digits of a float parse back to the same float".

NOTES (what is proved; nothing is left open; no proof escapes; `decide +kernel` is used only on closed
numeric facts such as `2^1076 < 10^331` and on the tests at the end).

Files: F64RoundPos (roundPos), F64RoundNearest (T2), F64RoundDec (roundDecimal, T2'), F64RoundDecNearest
(roundDecimal is correctly rounded), F64RoundShort (shortest, T3), this file (T4, summary, tests).
A finite non-negative binary64 is `bitsOf ex fr` (`ex < 2047`, `fr < 2^52`), with `mantOf`, `expOf`, `lcOf`
(= `lowerClose` of `shortest`), `loNum = 4·mant − (1 or 2)`, `hiNum = 4·mant + 2` (half-way points in units of
`2^(expOf − 2)`); `bits_cases`, `decode_bitsOf`, `shortest_bitsOf` connect them to `decode`/`shortest`.

T1  `roundPos_exact`   : `0 < m < 2^53`, `−1074 ≤ e`, `e + (m.log2+1) ≤ 1024` ⟹
                         `∃ b m' e', roundPos m e false = some b ∧ isFinite b ∧ decode b = .fin false m' e' ∧
                          e' ≤ e ∧ m' = m·2^(e−e')`.
    `roundPos_decode`  : `decode b = .fin false m e`, `m ≠ 0` ⟹ `roundPos m e false = some b`.
    tools: `roundPos_shl/_shr` (closed forms), `roundPos_scale` (`(n·2^j, e−j)` rounds like `(n, e)`),
    `roundPos_sticky` (`roundPos n e st = roundPos (2n+st) (e−1) false` when a bit is shifted out).
T2  `roundPos_nearest` : for a real `x`, `n·2^e ≤ x < (n+1)·2^e`, `st ↔ x ≠ n·2^e`, (`st →` a bit is shifted
                         out), `roundPos n e st = some b` ⟹ `b` decodes to a non-negative value that is nearest
                         to `x` among all `±m'·2^e'` (`m' < 2^53`, `e' ≥ −1074`), mantissa even in a tie
                         (`NearestAt`; `.toNearest` gives `Numeric.IsNearestEven b x`).
    `roundPos_nearest_exact` (below) : `roundPos n e false = some b → IsNearestEven b (n·2^e)`.
    `roundDecimal_nearest` : `roundDecimal neg m e = some b → IsNearestEven b ((−1)^neg·m·10^e)`
                         (all branches: zero, underflow guard, integer path, sticky quotient path, sign).
T2' `roundPos_interval`, `roundPos_int_inside`, `roundPos_frac_inside` (any denominator `D > 0`: the quotient
    with `D.log2+70` extra bits and the sticky bit are *exact*, no restriction on `(d,k)` is needed),
    `roundDecimal_of_inside : insideB (mantOf ex fr) (expOf ex) (lcOf ex fr) d k = true →
                              roundDecimal false d k = some (bitsOf ex fr)`;
    `insideB` is the Boolean `inside` of `shortestFrom` (`shortestFrom_eq : … := rfl`).
    The largest finite float needs no special case: its mantissa is odd, so `hi = 2^1024 − 2^970` is excluded,
    and everything strictly below rounds to it (test at the end).
T3  `shortest_roundtrip` : `isFinite abs`, `abs.toNat < 2^63`, `abs ≠ 0` ⟹ `WF (shortest abs) ∧
                         roundDecimal false (natOfDigits s.digits) (s.dp − s.digits.length) = some abs`.
    Success of the search is proved, not assumed (`round17`: round 17 always finds a decimal, because
    `10^(l10−16) ≤ v/10^16 < (hi − lo)`, using `2^55 < 4·10^16`, resp. `2^54 < 3·10^16` when `lowerClose`;
    `floorLog10_ge`).
T4  `appendFloat_roundtrip` (below): for every finite `bits` (±0 included)
                         `∃ txt l, appendFloat bits = some txt ∧ numberLit txt.toList = some (l, []) ∧
                          roundDecimal (litValue l).1 (litValue l).2.1 (litValue l).2.2 = some bits`.
    The bound `|dp − 1| < 10^7` needed by `fmtE_litValue` comes out of `roundDecimal`'s own magnitude guards
    (`roundDecimal_some`).
-/
namespace SJ.F64Round
open SJ SJ.F64 SJ.Numeric SJ.FloatFmt SJ.FloatFmtProofs SJ.Spec

/-! ## 1. Sign handling of `roundDecimal` -/

theorem signBit_false_or (b : UInt64) : signBit false ||| b = b := by simp [signBit]

/-- a non-zero result of `roundDecimal false` passed both magnitude guards, and the signed call agrees -/
theorem roundDecimal_some (neg : Bool) (m : Nat) (e : Int) (b : UInt64) (hb : b ≠ 0)
    (h : roundDecimal false m e = some b) :
    m ≠ 0 ∧ ¬ (e + (numDigits m : Int) > 310) ∧ ¬ (e + (numDigits m : Int) < -330) ∧
      roundDecimal neg m e = some (signBit neg ||| b) := by
  have hz : signBit false = 0 := rfl
  unfold roundDecimal at h ⊢
  by_cases hm : m = 0
  · subst hm
    simp only [beq_self_eq_true, if_true, hz] at h
    exact absurd (Option.some.inj h).symm hb
  · have hm' : (m == 0) = false := by simpa using hm
    simp only [hm', Bool.false_eq_true, if_false] at h ⊢
    by_cases g1 : e + (numDigits m : Int) > 310
    · rw [if_pos g1] at h; cases h
    · rw [if_neg g1] at h ⊢
      by_cases g2 : e + (numDigits m : Int) < -330
      · rw [if_pos g2, hz] at h
        exact absurd (Option.some.inj h).symm hb
      · rw [if_neg g2] at h ⊢
        refine ⟨hm, g1, g2, ?_⟩
        generalize (if e ≥ 0 then roundPos (m * 10 ^ e.toNat) 0 false
          else roundPos (m <<< ((10 ^ e.natAbs).log2 + 70) / 10 ^ e.natAbs) (-(((10 ^ e.natAbs).log2 + 70 : Nat) : Int))
            (m <<< ((10 ^ e.natAbs).log2 + 70) % 10 ^ e.natAbs != 0)) = r at h ⊢
        cases r with
        | none => cases h
        | some b' =>
          simp only [Option.map_some, signBit_false_or] at h
          rw [Option.some.inj h]
          rfl

/-! ## 2. Splitting a bit pattern into sign and magnitude -/

theorem abs_toNat (bits : UInt64) : (bits &&& 0x7fffffffffffffff).toNat = bits.toNat % 2 ^ 63 := by
  have h7 : (0x7fffffffffffffff : Nat) = 2 ^ 63 - 1 := by decide
  simp only [UInt64.toNat_and]
  show bits.toNat &&& 0x7fffffffffffffff = _
  rw [h7, Nat.and_two_pow_sub_one_eq_mod]

theorem bits_split (bits : UInt64) :
    signBit ((bits >>> 63) != 0) ||| (bits &&& 0x7fffffffffffffff) = bits := by
  apply UInt64.toNat_inj.mp
  rw [UInt64.toNat_or, abs_toNat, Numeric.sign_toNat]
  have hlt := bits.toNat_lt
  by_cases h : 2 ^ 63 ≤ bits.toNat
  · simp only [h, decide_true, signBit_true_toNat]
    have hy : bits.toNat % 2 ^ 63 < 2 ^ 63 := Nat.mod_lt _ (by decide)
    have hor : 2 ^ 63 ||| bits.toNat % 2 ^ 63 = 2 ^ 63 + bits.toNat % 2 ^ 63 := by
      have := Nat.two_pow_add_eq_or_of_lt hy 1
      rw [Nat.mul_one] at this
      exact this.symm
    rw [hor]; omega
  · simp only [h, decide_false]
    have : (signBit false).toNat = 0 := rfl
    rw [this, Nat.zero_or]; omega

theorem abs_finite (bits : UInt64) (hfin : isFinite bits = true) :
    isFinite (bits &&& 0x7fffffffffffffff) = true := by
  have heq : ((bits &&& 0x7fffffffffffffff) >>> 52) &&& (0x7ff : UInt64) = (bits >>> 52) &&& (0x7ff : UInt64) := by
    apply UInt64.toNat_inj.mp
    rw [Numeric.ex_toNat, Numeric.ex_toNat, abs_toNat]
    omega
  unfold isFinite at hfin ⊢
  rw [heq]; exact hfin

/-! ## 3. Number of digits of a well-formed digit string -/

theorem natOfDigits_lt (ds : List Nat) (h : ∀ d ∈ ds, d < 10) : natOfDigits ds < 10 ^ ds.length := by
  induction ds with
  | nil => simp [natOfDigits]
  | cons d t ih =>
    have := natOfDigits_append [d] t
    simp only [List.cons_append, List.nil_append] at this
    rw [this]
    have h1 : natOfDigits [d] = d := by simp [natOfDigits]
    have h2 := ih (fun x hx => h x (by simp [hx]))
    have h3 : d < 10 := h d (by simp)
    rw [h1, List.length_cons, Nat.pow_succ]
    have : d * 10 ^ t.length ≤ 9 * 10 ^ t.length := Nat.mul_le_mul_right _ (by omega)
    omega

theorem numDigits_natOfDigits (ds : List Nat) (hne : ds ≠ []) (h : ∀ d ∈ ds, d < 10)
    (hd : ds.head? ≠ some 0) : numDigits (natOfDigits ds) = ds.length := by
  obtain ⟨d, t, rfl⟩ := List.exists_cons_of_ne_nil hne
  have hlt := natOfDigits_lt (d :: t) h
  have hd0 : 1 ≤ d := by
    have : d ≠ 0 := by simpa using hd
    omega
  have hge : 10 ^ t.length ≤ natOfDigits (d :: t) := by
    have := natOfDigits_append [d] t
    simp only [List.cons_append, List.nil_append] at this
    rw [this]
    have h1 : natOfDigits [d] = d := by simp [natOfDigits]
    rw [h1]
    have : 1 * 10 ^ t.length ≤ d * 10 ^ t.length := Nat.mul_le_mul_right _ hd0
    omega
  unfold numDigits
  have h1 := (Nat.length_toDigits_le_iff (b := 10) (n := natOfDigits (d :: t)) (k := (d :: t).length)
    (by decide) (by simp)).mpr hlt
  by_cases ht : t.length = 0
  · have := Nat.length_toDigits_pos (b := 10) (n := natOfDigits (d :: t))
    simp only [List.length_cons] at h1 ⊢
    omega
  · have h2 := Nat.length_toDigits_le_iff (b := 10) (n := natOfDigits (d :: t)) (k := t.length)
      (by decide) (by omega)
    have : ¬ (Nat.toDigits 10 (natOfDigits (d :: t))).length ≤ t.length := by
      intro hc
      have := h2.mp hc
      omega
    simp only [List.length_cons] at h1 ⊢
    omega
/-! ## 4. T4 -/

theorem shortest_zero : shortest 0 = { digits := [], dp := 0 } := by decide

theorem fmtF_zero (neg : Bool) : (fmtF neg { digits := [], dp := 0 }).toList = signL neg ++ [48] := by
  rw [fmtF_raw]; cases neg <;> rfl

/-- **T4**: for every finite `bits`, `appendFloat` produces a text that is a number literal of the RFC
    grammar (nothing left over) and whose correctly rounded value is `bits` again. -/
theorem appendFloat_roundtrip (bits : UInt64) (hfin : isFinite bits = true) :
    ∃ txt l, appendFloat bits = some txt ∧ numberLit txt.toList = some (l, []) ∧
      roundDecimal (litValue l).1 (litValue l).2.1 (litValue l).2.2 = some bits := by
  rw [appendFloat_eq bits hfin]
  have hsplit := bits_split bits
  generalize hneg : ((bits >>> 63) != 0) = neg at *
  have habsn := abs_toNat bits
  have habsf := abs_finite bits hfin
  generalize habs : bits &&& 0x7fffffffffffffff = abs at *
  have hlt : abs.toNat < 2 ^ 63 := by rw [habsn]; exact Nat.mod_lt _ (by decide)
  by_cases h0 : abs = 0
  · -- ±0
    rw [if_pos (Or.inr h0)]
    subst h0
    have hl := numberLit_plain neg [48] [] (by decide) (by decide) (by simp) (by simp)
    simp only [if_true, List.append_nil] at hl
    refine ⟨_, { neg := neg, int := [48], frac := none, exp := none }, rfl, ?_, ?_⟩
    · rw [shortest_zero, fmtF_zero]; exact hl
    · rw [litValue_int _ rfl rfl]
      show roundDecimal neg (digitsVal [48]) 0 = some bits
      have : digitsVal [48] = 0 := by decide
      rw [this]
      unfold roundDecimal
      simp only [beq_self_eq_true, if_true]
      rw [← hsplit]; simp
  · obtain ⟨hb, hex, hfr⟩ := bits_cases abs hlt habsf
    have hne : mantOf (abs.toNat / 2 ^ 52) (abs.toNat % 2 ^ 52) ≠ 0 := by
      intro h
      apply h0
      apply UInt64.toNat_inj.mp
      unfold mantOf at h
      split at h
      · show abs.toNat = 0
        omega
      · omega
    have hsh := shortest_bitsOf _ _ hex hfr hne
    rw [← hb] at hsh
    obtain ⟨wf, hin⟩ := shortestFrom_inside _ _ hfr hne
    rw [← hsh] at wf hin
    have hrt := roundDecimal_of_inside _ _ _ _ hex hfr hne hin
    rw [← hb] at hrt
    generalize shortest abs = s at *
    obtain ⟨_, g1, g2, _⟩ := roundDecimal_some neg _ _ _ h0 hrt
    rw [numDigits_natOfDigits _ wf.ne wf.lt wf.hd] at g1 g2
    by_cases hc : (decide (abs ≥ loBits) && decide (abs < hiBits)) = true ∨ abs = 0
    · rw [if_pos hc]
      obtain ⟨l, hl1, hl2⟩ := fmtF_litValue neg s wf
      refine ⟨_, l, rfl, hl1, ?_⟩
      rw [hl2]
      show roundDecimal neg (natOfDigits s.digits * 10 ^ (s.dp - s.digits.length).toNat)
        (min (s.dp - s.digits.length) 0) = some bits
      have hin' : insideB (mantOf (abs.toNat / 2 ^ 52) (abs.toNat % 2 ^ 52)) (expOf (abs.toNat / 2 ^ 52))
          (lcOf (abs.toNat / 2 ^ 52) (abs.toNat % 2 ^ 52))
          (natOfDigits s.digits * 10 ^ (s.dp - s.digits.length).toNat) (min (s.dp - s.digits.length) 0) = true := by
        rw [insideB_shift]
        have : min (s.dp - (s.digits.length : Int)) 0 + (((s.dp - (s.digits.length : Int)).toNat : Nat) : Int) =
            s.dp - s.digits.length := by omega
        rw [this]; exact hin
      have hrt' := roundDecimal_of_inside _ _ _ _ hex hfr hne hin'
      rw [← hb] at hrt'
      rw [(roundDecimal_some neg _ _ _ h0 hrt').2.2.2, hsplit]
    · rw [if_neg hc]
      obtain ⟨l, hl1, hl2⟩ := fmtE_litValue neg s wf (by omega)
      refine ⟨_, l, rfl, hl1, ?_⟩
      rw [hl2]
      show roundDecimal neg (natOfDigits s.digits) (s.dp - s.digits.length) = some bits
      rw [(roundDecimal_some neg _ _ _ h0 hrt).2.2.2, hsplit]

/-- **T2** for an exactly given value: `roundPos n e false` is a nearest binary64 to `n·2^e`, ties to even. -/
theorem roundPos_nearest_exact (n : Nat) (e : Int) (b : UInt64) (h0 : n ≠ 0)
    (h : roundPos n e false = some b) : IsNearestEven b (value false n e) := by
  obtain ⟨m', e', hd, hn⟩ := roundPos_nearest n e false _ b h0 Rat.le_refl (value_lt e (Nat.lt_succ_self _))
    (by simp) (by simp) h
  exact hn.toNearest hd

/-- T1 with the value equation in the symmetric form `m'·2^(e'−min) = m·2^(e−min)` -/
theorem roundPos_exact_min (m : Nat) (e : Int) (hm0 : 0 < m) (hm : m < 2 ^ 53) (he : -1074 ≤ e)
    (hhi : e + ((m.log2 + 1 : Nat) : Int) ≤ 1024) :
    ∃ b m' e', roundPos m e false = some b ∧ isFinite b = true ∧ decode b = .fin false m' e' ∧
      m' * 2 ^ (e' - min e e').toNat = m * 2 ^ (e - min e e').toNat := by
  obtain ⟨b, m', e', h1, h2, h3, h4, h5⟩ := roundPos_exact m e hm0 hm he hhi
  refine ⟨b, m', e', h1, h2, h3, ?_⟩
  have e1 : min e e' = e' := by omega
  rw [e1, h5]; simp

/-! ## 5. Tests by evaluation (kernel) -/

def testBits : List UInt64 :=
  [0x1, 0x2, 0x3, 0x000fffffffffffff, 0x0010000000000000, 0x0010000000000001, 0x0020000000000000,
   0x3ff0000000000000, 0x4340000000000000, 0x4340000000000001, 0x7fefffffffffffff, 0x7fe0000000000000,
   0x44b52d02c7e14af6, 0x3fb999999999999a, 0x7fd0000000000000, 0x0008000000000000]

example : testBits.all (fun b =>
    let s := shortest b
    roundDecimal false (natOfDigits s.digits) (s.dp - s.digits.length) == some b) = true := by decide +kernel

example : testBits.all (fun b =>
    match decode b with
    | .fin _ m e => roundPos m e false == some b
    | _ => false) = true := by decide +kernel

/-- the largest finite float: its upper half-way point `2^1024 − 2^970` overflows (it is excluded from the
    interval because the mantissa is odd), everything strictly below rounds to it -/
example : roundPos (2 ^ 1024 - 2 ^ 970) 0 false = none ∧
    roundPos (2 ^ 1024 - 2 ^ 970 - 1) 0 false = some 0x7fefffffffffffff := by decide +kernel

end SJ.F64Round
