import SJ.Model.Shared
set_option linter.unusedVariables false
/-
C20 — goroutines working on their own objects get, under every schedule and whatever the pools contain, exactly the
results they get alone, provided every pool site follows `Get; Reset; …; Put` and `Reset` keeps its contract.
-/
namespace SJ.Shared

/-! ### The hypothesis is needed: programs off the discipline do see each other -/
section Counterexample

/-- a scratch object that remembers everything written to it: `use` adds and reports the sum; `Reset(a)` sets it to `a` -/
def accum : Scratch Nat Nat Nat Nat where
  fresh := fun _ => 0
  reset := fun _ a => a
  use   := fun s i => (s + i, s + i)

theorem accum_contract : ResetContract accum := ⟨fun _ _ _ => rfl⟩

def good : Program Unit Nat Nat Nat := [.get 0 0, .resetObj 0 (fun _ => 5), .useObj 0 (fun _ => 1) (fun l _ => l), .put 0 0]
/-- uses the object as it comes out of the pool -/
def noReset : Program Unit Nat Nat Nat := [.get 0 0, .useObj 0 (fun _ => 1) (fun l _ => l), .put 0 0]
/-- keeps using the object after giving it back -/
def afterPut : Program Unit Nat Nat Nat :=
  [.get 0 0, .resetObj 0 (fun _ => 5), .put 0 0, .useObj 0 (fun _ => 1) (fun l _ => l)]

example : disciplined good = true ∧ disciplined noReset = false ∧ disciplined afterPut = false := by decide

/-- Alone, `noReset` reads 1. After `good` has run and put its object back, and the pool hands that object out,
    it reads 7: data of goroutine 0 has leaked into goroutine 1. -/
example : (runSolo accum () noReset).2 = [1] ∧
    (result (run accum (init accum [] (fun _ => ()) (ofList [good, noReset])) [(0,0), (0,0), (0,0), (0,0), (1,0), (1,0), (1,0)]) 1).2 = [7] := by
  decide

/-- Use after `Put`: alone `afterPut` reads 6; when goroutine 1 (a *disciplined* program) receives the object in
    between and works with it, goroutine 0 reads 7 — and under the last schedule goroutine 1, although disciplined itself, reads 7 instead of the 6 it reads alone. -/
example : (runSolo accum () afterPut).2 = [6] ∧ (runSolo accum () good).2 = [6] ∧
    (result (run accum (init accum [] (fun _ => ()) (ofList [afterPut, good])) [(0,0), (0,0), (0,0), (1,0), (1,0), (1,0), (0,0)]) 0).2 = [7] ∧
    (result (run accum (init accum [] (fun _ => ()) (ofList [afterPut, good])) [(0,0), (0,0), (0,0), (1,0), (1,0), (0,0), (1,0)]) 1).2 = [7] := by
  decide

end Counterexample

variable {L S A I O : Type}

/-! ### Basics -/

@[simp] theorem upd_same {α : Type} (f : Nat → α) (i : Nat) (x : α) : upd f i x i = x := by simp [upd]
theorem upd_ne {α : Type} (f : Nat → α) {i j : Nat} (x : α) (h : j ≠ i) : upd f i x j = f j := by simp [upd, h]

theorem takeAt_perm {α : Type} : ∀ (l : List α) (c : Nat) (r : α) (l' : List α), takeAt l c = some (r, l') → l.Perm (r :: l')
  | [], _, _, _, h => by simp [takeAt] at h
  | x :: xs, 0, r, l', h => by
    simp only [takeAt, Option.some.injEq, Prod.mk.injEq] at h
    obtain ⟨rfl, rfl⟩ := h
    exact List.Perm.refl _
  | x :: xs, c + 1, r, l', h => by
    simp only [takeAt, Option.map_eq_some_iff] at h
    obtain ⟨⟨r1, l1⟩, h1, h2⟩ := h
    simp only [Prod.mk.injEq] at h2
    obtain ⟨rfl, rfl⟩ := h2
    exact ((takeAt_perm xs c r1 l1 h1).cons x).trans (List.Perm.swap _ _ _)

/-! ### The reference semantics: one goroutine, objects by value, no pools -/

/-- state of a goroutine that owns its scratch objects outright -/
structure IState (L S O : Type) where
  loc : L
  out : List O
  st  : Nat → VarSt
  val : Nat → S

def istep (sc : Scratch S A I O) (ι : IState L S O) : Action L A I O → IState L S O
  | .localOp f => { ι with loc := f ι.loc }
  | .get k v => { ι with st := upd ι.st v .got }
  | .resetObj v a => { ι with st := upd ι.st v .ready, val := upd ι.val v (sc.reset (sc.fresh 0) (a ι.loc)) }
  | .useObj v i ab =>
    let p := sc.use (ι.val v) (i ι.loc)
    { ι with loc := ab ι.loc p.2, out := ι.out ++ [p.2], val := upd ι.val v p.1 }
  | .put k v => { ι with st := upd ι.st v .dead }
  | .pureShared f x ab => { ι with loc := ab ι.loc (f (x ι.loc)), out := ι.out ++ [f (x ι.loc)] }

def iinit (sc : Scratch S A I O) (l0 : L) : IState L S O :=
  { loc := l0, out := [], st := fun _ => .dead, val := fun _ => sc.fresh 0 }

/-- the reference result of a program: a function of the program and the initial local state alone -/
def irun (sc : Scratch S A I O) (l0 : L) (p : Program L A I O) : IState L S O := p.foldl (istep sc) (iinit sc l0)

theorem istep_st (sc : Scratch S A I O) (ι : IState L S O) (a : Action L A I O) : (istep sc ι a).st = stStep ι.st a := by
  cases a <;> rfl

theorem foldl_istep_st (sc : Scratch S A I O) : ∀ (p : Program L A I O) (ι : IState L S O),
    (p.foldl (istep sc) ι).st = p.foldl stStep ι.st
  | [], ι => rfl
  | a :: p, ι => by simp only [List.foldl_cons]; rw [foldl_istep_st sc p, istep_st]

theorem irun_st (sc : Scratch S A I O) (l0 : L) (p : Program L A I O) : (irun sc l0 p).st = statusAfter p :=
  foldl_istep_st sc p _

theorem irun_snoc (sc : Scratch S A I O) (l0 : L) (p : Program L A I O) (a : Action L A I O) :
    irun sc l0 (p ++ [a]) = istep sc (irun sc l0 p) a := by
  simp [irun, List.foldl_append]

/-! ### The invariant -/

/-- goroutine `g` owns `r` through variable `v` -/
def Live (s : State L S A I O) (ι : Nat → IState L S O) (g v : Nat) (r : Ref) : Prop :=
  (ι g).st v ≠ .dead ∧ (s.gs g).vars v = some r

/-- `ι g` is the reference state of goroutine `g`; the invariant ties the shared-heap state to it. -/
structure Inv (s : State L S A I O) (ι : Nat → IState L S O) : Prop where
  loc    : ∀ g, (s.gs g).loc = (ι g).loc
  out    : ∀ g, (s.gs g).out = (ι g).out
  disc   : ∀ g, disciplinedFrom (ι g).st (s.gs g).prog = true
  bound  : ∀ g v, (ι g).st v ≠ .dead → ∃ r, (s.gs g).vars v = some r
  own    : ∀ g v r, Live s ι g v r → r < s.next ∧ ∀ k, r ∉ s.pools k
  excl   : ∀ g v g' v' r, Live s ι g v r → Live s ι g' v' r → g = g' ∧ v = v'
  pnodup : ∀ k, (s.pools k).Nodup
  pdisj  : ∀ k k' r, r ∈ s.pools k → r ∈ s.pools k' → k = k'
  plt    : ∀ k r, r ∈ s.pools k → r < s.next
  val    : ∀ g v r, (ι g).st v = .ready → (s.gs g).vars v = some r → s.heap r = (ι g).val v

theorem step_nil (sc : Scratch S A I O) (s : State L S A I O) (g c : Nat) (h : (s.gs g).prog = []) :
    step sc s (g, c) = s := by
  simp [step, h]

/-- a step that leaves heap, pools and all variables alone -/
theorem inv_local (s : State L S A I O) (ι : Nat → IState L S O) (h : Inv s ι) (g : Nat)
    (G' : Goroutine L A I O) (ι' : IState L S O)
    (hv : G'.vars = (s.gs g).vars) (hst : ι'.st = (ι g).st) (hval : ι'.val = (ι g).val)
    (hl : G'.loc = ι'.loc) (ho : G'.out = ι'.out) (hd : disciplinedFrom ι'.st G'.prog = true) :
    Inv { s with gs := upd s.gs g G' } (upd ι g ι') := by
  have hlive : ∀ g1 v r, Live { s with gs := upd s.gs g G' } (upd ι g ι') g1 v r → Live s ι g1 v r := by
    intro g1 v r hl
    unfold Live at hl ⊢
    by_cases hg : g1 = g
    · subst hg; simpa [hst, hv] using hl
    · simpa [upd_ne _ _ hg] using hl
  refine ⟨?_, ?_, ?_, ?_, ?_, ?_, h.pnodup, h.pdisj, h.plt, ?_⟩
  · intro g1; by_cases hg : g1 = g
    · subst hg; simpa using hl
    · simpa [upd_ne _ _ hg] using h.loc g1
  · intro g1; by_cases hg : g1 = g
    · subst hg; simpa using ho
    · simpa [upd_ne _ _ hg] using h.out g1
  · intro g1; by_cases hg : g1 = g
    · subst hg; simpa using hd
    · simpa [upd_ne _ _ hg] using h.disc g1
  · intro g1 v; by_cases hg : g1 = g
    · subst hg; simpa [hst, hv] using h.bound g1 v
    · simpa [upd_ne _ _ hg] using h.bound g1 v
  · intro g1 v r hl; exact h.own g1 v r (hlive _ _ _ hl)
  · intro g1 v g2 v2 r h1 h2; exact h.excl g1 v g2 v2 r (hlive _ _ _ h1) (hlive _ _ _ h2)
  · intro g1 v r; by_cases hg : g1 = g
    · subst hg; simpa [hst, hv, hval] using h.val g1 v r
    · simpa [upd_ne _ _ hg] using h.val g1 v r

theorem disc_cons {st : Nat → VarSt} {a : Action L A I O} {rest : Program L A I O}
    (h : disciplinedFrom st (a :: rest) = true) : allowed st a = true ∧ disciplinedFrom (stStep st a) rest = true := by
  simpa [disciplinedFrom] using h

/-- `v.Reset(a)` on an owned object -/
theorem inv_reset (sc : Scratch S A I O) (hc : ResetContract sc) (s : State L S A I O) (ι : Nat → IState L S O)
    (h : Inv s ι) (g v r : Nat) (a : L → A) (rest : Program L A I O)
    (hp : (s.gs g).prog = .resetObj v a :: rest) (hr : (s.gs g).vars v = some r)
    (s' : State L S A I O) (ι' : Nat → IState L S O)
    (hs' : s' = { s with heap := upd s.heap r (sc.reset (s.heap r) (a (s.gs g).loc)),
                         gs := upd s.gs g { s.gs g with prog := rest } })
    (hι' : ι' = upd ι g (istep sc (ι g) (.resetObj v a))) : Inv s' ι' := by
  obtain ⟨hal, hd⟩ := disc_cons (by have := h.disc g; rwa [hp] at this)
  have hlv : (ι g).st v ≠ .dead := by simpa [allowed] using hal
  have hlive : ∀ g1 v1 r1, Live s' ι' g1 v1 r1 → Live s ι g1 v1 r1 := by
    subst hs' hι'
    intro g1 v1 r1 hl
    unfold Live at hl ⊢
    by_cases hg : g1 = g
    · subst hg
      by_cases hv : v1 = v
      · subst hv; simp [istep] at hl; exact ⟨hlv, hl⟩
      · simpa [istep, upd_ne _ _ hv] using hl
    · simpa [upd_ne _ _ hg] using hl
  subst hs' hι'
  refine ⟨?_, ?_, ?_, ?_, ?_, ?_, h.pnodup, h.pdisj, h.plt, ?_⟩
  · intro g1; by_cases hg : g1 = g
    · subst hg; simpa [istep] using h.loc g1
    · simpa [upd_ne _ _ hg] using h.loc g1
  · intro g1; by_cases hg : g1 = g
    · subst hg; simpa [istep] using h.out g1
    · simpa [upd_ne _ _ hg] using h.out g1
  · intro g1; by_cases hg : g1 = g
    · subst hg; simpa [istep_st] using hd
    · simpa [upd_ne _ _ hg] using h.disc g1
  · intro g1 v1; by_cases hg : g1 = g
    · subst hg
      by_cases hv : v1 = v
      · subst hv; intro _; exact ⟨r, by simpa using hr⟩
      · simpa [istep, upd_ne _ _ hv] using h.bound g1 v1
    · simpa [upd_ne _ _ hg] using h.bound g1 v1
  · intro g1 v1 r1 hl; exact h.own g1 v1 r1 (hlive _ _ _ hl)
  · intro g1 v1 g2 v2 r1 h1 h2; exact h.excl g1 v1 g2 v2 r1 (hlive _ _ _ h1) (hlive _ _ _ h2)
  · intro g1 v1 r1 hst hvar
    by_cases hgv : g1 = g ∧ v1 = v
    · obtain ⟨rfl, rfl⟩ := hgv
      have : r1 = r := by simp at hvar; rw [hr] at hvar; exact (Option.some.inj hvar).symm
      subst this
      simp [istep, h.loc g1]
      exact hc.reset_indep _ _ _
    · have hl1 : Live s ι g1 v1 r1 := hlive _ _ _ ⟨by rw [hst]; decide, hvar⟩
      have hne : r1 ≠ r := by
        intro e; subst e
        exact hgv (h.excl g1 v1 g v r1 hl1 ⟨hlv, hr⟩)
      simp only [upd_ne _ _ hne]
      by_cases hg : g1 = g
      · subst hg
        have hv : v1 ≠ v := fun e => hgv ⟨rfl, e⟩
        simp [istep, upd_ne _ _ hv] at hst hvar ⊢
        exact h.val g1 v1 r1 hst hvar
      · simp [upd_ne _ _ hg] at hst hvar ⊢
        exact h.val g1 v1 r1 hst hvar

/-- `o := v.Method(i)` on an owned, reset object -/
theorem inv_use (sc : Scratch S A I O) (s : State L S A I O) (ι : Nat → IState L S O)
    (h : Inv s ι) (g v r : Nat) (i : L → I) (ab : L → O → L) (rest : Program L A I O)
    (hp : (s.gs g).prog = .useObj v i ab :: rest) (hr : (s.gs g).vars v = some r)
    (s' : State L S A I O) (ι' : Nat → IState L S O)
    (hs' : s' = { s with heap := upd s.heap r (sc.use (s.heap r) (i (s.gs g).loc)).1,
                         gs := upd s.gs g { s.gs g with loc := ab (s.gs g).loc (sc.use (s.heap r) (i (s.gs g).loc)).2,
                                                        out := (s.gs g).out ++ [(sc.use (s.heap r) (i (s.gs g).loc)).2],
                                                        prog := rest } })
    (hι' : ι' = upd ι g (istep sc (ι g) (.useObj v i ab))) : Inv s' ι' := by
  obtain ⟨hal, hd⟩ := disc_cons (by have := h.disc g; rwa [hp] at this)
  have hrd : (ι g).st v = .ready := by simpa [allowed] using hal
  have hlv : (ι g).st v ≠ .dead := by rw [hrd]; decide
  have hheap : s.heap r = (ι g).val v := h.val g v r hrd hr
  have hlive : ∀ g1 v1 r1, Live s' ι' g1 v1 r1 → Live s ι g1 v1 r1 := by
    subst hs' hι'
    intro g1 v1 r1 hl
    unfold Live at hl ⊢
    by_cases hg : g1 = g
    · subst hg; simpa [istep] using hl
    · simpa [upd_ne _ _ hg] using hl
  subst hs' hι'
  refine ⟨?_, ?_, ?_, ?_, ?_, ?_, h.pnodup, h.pdisj, h.plt, ?_⟩
  · intro g1; by_cases hg : g1 = g
    · subst hg; simp [istep, h.loc g1, hheap]
    · simpa [upd_ne _ _ hg] using h.loc g1
  · intro g1; by_cases hg : g1 = g
    · subst hg; simp [istep, h.loc g1, h.out g1, hheap]
    · simpa [upd_ne _ _ hg] using h.out g1
  · intro g1; by_cases hg : g1 = g
    · subst hg; simpa [istep_st] using hd
    · simpa [upd_ne _ _ hg] using h.disc g1
  · intro g1 v1; by_cases hg : g1 = g
    · subst hg; simpa [istep] using h.bound g1 v1
    · simpa [upd_ne _ _ hg] using h.bound g1 v1
  · intro g1 v1 r1 hl; exact h.own g1 v1 r1 (hlive _ _ _ hl)
  · intro g1 v1 g2 v2 r1 h1 h2; exact h.excl g1 v1 g2 v2 r1 (hlive _ _ _ h1) (hlive _ _ _ h2)
  · intro g1 v1 r1 hst hvar
    by_cases hgv : g1 = g ∧ v1 = v
    · obtain ⟨rfl, rfl⟩ := hgv
      have : r1 = r := by simp at hvar; rw [hr] at hvar; exact (Option.some.inj hvar).symm
      subst this
      simp [istep, h.loc g1, hheap]
    · have hl1 : Live s ι g1 v1 r1 := hlive _ _ _ ⟨by rw [hst]; decide, hvar⟩
      have hne : r1 ≠ r := by
        intro e; subst e
        exact hgv (h.excl g1 v1 g v r1 hl1 ⟨hlv, hr⟩)
      simp only [upd_ne _ _ hne]
      by_cases hg : g1 = g
      · subst hg
        have hv : v1 ≠ v := fun e => hgv ⟨rfl, e⟩
        simp [istep, upd_ne _ _ hv] at hst hvar ⊢
        exact h.val g1 v1 r1 hst hvar
      · simp [upd_ne _ _ hg] at hst hvar ⊢
        exact h.val g1 v1 r1 hst hvar

/-- `pool_k.Put(v)` of an owned object -/
theorem inv_put (sc : Scratch S A I O) (s : State L S A I O) (ι : Nat → IState L S O)
    (h : Inv s ι) (g k v r : Nat) (rest : Program L A I O)
    (hp : (s.gs g).prog = .put k v :: rest) (hr : (s.gs g).vars v = some r)
    (s' : State L S A I O) (ι' : Nat → IState L S O)
    (hs' : s' = { s with pools := upd s.pools k (r :: s.pools k), gs := upd s.gs g { s.gs g with prog := rest } })
    (hι' : ι' = upd ι g (istep sc (ι g) (.put k v))) : Inv s' ι' := by
  obtain ⟨hal, hd⟩ := disc_cons (by have := h.disc g; rwa [hp] at this)
  have hlv : (ι g).st v ≠ .dead := by simpa [allowed] using hal
  have hown := h.own g v r ⟨hlv, hr⟩
  have hlive : ∀ g1 v1 r1, Live s' ι' g1 v1 r1 → Live s ι g1 v1 r1 ∧ ¬ (g1 = g ∧ v1 = v) := by
    subst hs' hι'
    intro g1 v1 r1 hl
    unfold Live at hl ⊢
    by_cases hg : g1 = g
    · subst hg
      by_cases hv : v1 = v
      · subst hv; simp [istep] at hl
      · simp [istep, upd_ne _ _ hv] at hl; exact ⟨hl, fun e => hv e.2⟩
    · simp [upd_ne _ _ hg] at hl; exact ⟨hl, fun e => hg e.1⟩
  have hmem : ∀ k1 r1, r1 ∈ s'.pools k1 → (k1 = k ∧ r1 = r) ∨ r1 ∈ s.pools k1 := by
    subst hs' hι'
    intro k1 r1 hm
    by_cases hk : k1 = k
    · subst hk; simp at hm; rcases hm with e | e
      · exact .inl ⟨rfl, e⟩
      · exact .inr e
    · simp [upd_ne _ _ hk] at hm; exact .inr hm
  have hnext : s'.next = s.next := by subst hs'; rfl
  have hheap : s'.heap = s.heap := by subst hs'; rfl
  refine ⟨?_, ?_, ?_, ?_, ?_, ?_, ?_, ?_, ?_, ?_⟩
  · subst hs' hι'
    intro g1; by_cases hg : g1 = g
    · subst hg; simpa [istep] using h.loc g1
    · simpa [upd_ne _ _ hg] using h.loc g1
  · subst hs' hι'
    intro g1; by_cases hg : g1 = g
    · subst hg; simpa [istep] using h.out g1
    · simpa [upd_ne _ _ hg] using h.out g1
  · subst hs' hι'
    intro g1; by_cases hg : g1 = g
    · subst hg; simpa [istep_st] using hd
    · simpa [upd_ne _ _ hg] using h.disc g1
  · subst hs' hι'
    intro g1 v1; by_cases hg : g1 = g
    · subst hg
      by_cases hv : v1 = v
      · subst hv; simp [istep]
      · simpa [istep, upd_ne _ _ hv] using h.bound g1 v1
    · simpa [upd_ne _ _ hg] using h.bound g1 v1
  · intro g1 v1 r1 hl
    obtain ⟨hl0, hne⟩ := hlive _ _ _ hl
    have ho := h.own g1 v1 r1 hl0
    refine ⟨by rw [hnext]; exact ho.1, fun k1 hm => ?_⟩
    rcases hmem k1 r1 hm with ⟨_, e⟩ | e
    · subst e; exact hne (h.excl g1 v1 g v r1 hl0 ⟨hlv, hr⟩)
    · exact ho.2 k1 e
  · intro g1 v1 g2 v2 r1 h1 h2
    exact h.excl g1 v1 g2 v2 r1 (hlive _ _ _ h1).1 (hlive _ _ _ h2).1
  · subst hs' hι'
    intro k1; by_cases hk : k1 = k
    · subst hk; simp; exact ⟨hown.2 k1, h.pnodup k1⟩
    · simpa [upd_ne _ _ hk] using h.pnodup k1
  · intro k1 k2 r1 h1 h2
    rcases hmem k1 r1 h1 with ⟨e1, e1'⟩ | e1 <;> rcases hmem k2 r1 h2 with ⟨e2, e2'⟩ | e2
    · rw [e1, e2]
    · subst e1'; exact absurd e2 (hown.2 k2)
    · subst e2'; exact absurd e1 (hown.2 k1)
    · exact h.pdisj k1 k2 r1 e1 e2
  · intro k1 r1 hm
    rw [hnext]
    rcases hmem k1 r1 hm with ⟨_, e⟩ | e
    · subst e; exact hown.1
    · exact h.plt k1 r1 e
  · intro g1 v1 r1 hst hvar
    obtain ⟨hl0, hne⟩ := hlive g1 v1 r1 ⟨by rw [hst]; decide, hvar⟩
    subst hs' hι'
    by_cases hg : g1 = g
    · subst hg
      have hv : v1 ≠ v := fun e => hne ⟨rfl, e⟩
      simp [istep, upd_ne _ _ hv] at hst hvar ⊢
      exact h.val g1 v1 r1 hst hvar
    · simp [upd_ne _ _ hg] at hst hvar ⊢
      exact h.val g1 v1 r1 hst hvar

/-- `v := pool_k.Get()`, whichever object `r` comes back: one taken out of the pool or a new one -/
theorem inv_acquire (sc : Scratch S A I O) (s : State L S A I O) (ι : Nat → IState L S O)
    (h : Inv s ι) (g k v r : Nat) (rest : Program L A I O)
    (hp : (s.gs g).prog = .get k v :: rest)
    (s' : State L S A I O) (ι' : Nat → IState L S O)
    (hgs : s'.gs = upd s.gs g { s.gs g with vars := upd (s.gs g).vars v (some r), prog := rest })
    (hnext : s.next ≤ s'.next) (hrn : r < s'.next)
    (hpool : ∀ k1 r1, r1 ∈ s'.pools k1 → r1 ∈ s.pools k1)
    (hnd : ∀ k1, (s'.pools k1).Nodup)
    (hrp : ∀ k1, r ∉ s'.pools k1)
    (hrl : ∀ g1 v1, ¬ Live s ι g1 v1 r)
    (hheap : ∀ g1 v1 r1, Live s ι g1 v1 r1 → s'.heap r1 = s.heap r1)
    (hι' : ι' = upd ι g (istep sc (ι g) (.get k v))) : Inv s' ι' := by
  obtain ⟨hal, hd⟩ := disc_cons (by have := h.disc g; rwa [hp] at this)
  have hlive : ∀ g1 v1 r1, Live s' ι' g1 v1 r1 → (g1 = g ∧ v1 = v ∧ r1 = r) ∨ (Live s ι g1 v1 r1 ∧ ¬ (g1 = g ∧ v1 = v)) := by
    subst hι'
    intro g1 v1 r1 hl
    unfold Live at hl ⊢
    rw [hgs] at hl
    by_cases hg : g1 = g
    · subst hg
      by_cases hv : v1 = v
      · subst hv; simp [istep] at hl; exact .inl ⟨rfl, rfl, hl.symm⟩
      · simp [istep, upd_ne _ _ hv] at hl; exact .inr ⟨hl, fun e => hv e.2⟩
    · simp [upd_ne _ _ hg] at hl; exact .inr ⟨hl, fun e => hg e.1⟩
  refine ⟨?_, ?_, ?_, ?_, ?_, ?_, hnd, ?_, ?_, ?_⟩
  · subst hι'; rw [hgs]
    intro g1; by_cases hg : g1 = g
    · subst hg; simpa [istep] using h.loc g1
    · simpa [upd_ne _ _ hg] using h.loc g1
  · subst hι'; rw [hgs]
    intro g1; by_cases hg : g1 = g
    · subst hg; simpa [istep] using h.out g1
    · simpa [upd_ne _ _ hg] using h.out g1
  · subst hι'; rw [hgs]
    intro g1; by_cases hg : g1 = g
    · subst hg; simpa [istep_st] using hd
    · simpa [upd_ne _ _ hg] using h.disc g1
  · subst hι'; rw [hgs]
    intro g1 v1; by_cases hg : g1 = g
    · subst hg
      by_cases hv : v1 = v
      · subst hv; simp [istep]
      · simpa [istep, upd_ne _ _ hv] using h.bound g1 v1
    · simpa [upd_ne _ _ hg] using h.bound g1 v1
  · intro g1 v1 r1 hl
    rcases hlive _ _ _ hl with ⟨_, _, e⟩ | ⟨hl0, _⟩
    · subst e; exact ⟨hrn, hrp⟩
    · have ho := h.own g1 v1 r1 hl0
      exact ⟨Nat.lt_of_lt_of_le ho.1 hnext, fun k1 hm => ho.2 k1 (hpool k1 r1 hm)⟩
  · intro g1 v1 g2 v2 r1 h1 h2
    rcases hlive _ _ _ h1 with ⟨e1, e1', e1''⟩ | ⟨hl1, _⟩ <;> rcases hlive _ _ _ h2 with ⟨e2, e2', e2''⟩ | ⟨hl2, _⟩
    · exact ⟨e1.trans e2.symm, e1'.trans e2'.symm⟩
    · subst e1''; exact absurd hl2 (hrl _ _)
    · subst e2''; exact absurd hl1 (hrl _ _)
    · exact h.excl g1 v1 g2 v2 r1 hl1 hl2
  · intro k1 k2 r1 h1 h2; exact h.pdisj k1 k2 r1 (hpool _ _ h1) (hpool _ _ h2)
  · intro k1 r1 hm; exact Nat.lt_of_lt_of_le (h.plt k1 r1 (hpool _ _ hm)) hnext
  · intro g1 v1 r1 hst hvar
    rcases hlive g1 v1 r1 ⟨by rw [hst]; decide, hvar⟩ with ⟨e1, e2, _⟩ | ⟨hl0, hne⟩
    · subst hι' e1 e2; simp [istep] at hst
    · rw [hheap g1 v1 r1 hl0]
      subst hι'
      rw [hgs] at hvar
      by_cases hg : g1 = g
      · subst hg
        have hv : v1 ≠ v := fun e => hne ⟨rfl, e⟩
        simp [istep, upd_ne _ _ hv] at hst hvar ⊢
        exact h.val g1 v1 r1 hst hvar
      · simp [upd_ne _ _ hg] at hst hvar ⊢
        exact h.val g1 v1 r1 hst hvar

/-- **One step preserves the invariant**, with the reference state of the moving goroutine advanced by the same action. -/
theorem inv_step (sc : Scratch S A I O) (hc : ResetContract sc) (s : State L S A I O) (ι : Nat → IState L S O)
    (h : Inv s ι) (g c : Nat) (a : Action L A I O) (rest : Program L A I O) (hp : (s.gs g).prog = a :: rest) :
    Inv (step sc s (g, c)) (upd ι g (istep sc (ι g) a)) := by
  obtain ⟨hal, hd⟩ := disc_cons (by have := h.disc g; rwa [hp] at this)
  cases a with
  | localOp f =>
    have : step sc s (g, c) = { s with gs := upd s.gs g { s.gs g with loc := f (s.gs g).loc, prog := rest } } := by
      simp [step, hp]
    rw [this]
    exact inv_local s ι h g _ _ rfl rfl rfl (by simp [istep, h.loc g]) (by simp [istep, h.out g]) (by simpa [istep_st] using hd)
  | pureShared f x ab =>
    have : step sc s (g, c) = { s with gs := upd s.gs g { s.gs g with loc := ab (s.gs g).loc (f (x (s.gs g).loc)), out := (s.gs g).out ++ [f (x (s.gs g).loc)], prog := rest } } := by
      simp [step, hp]
    rw [this]
    exact inv_local s ι h g _ _ rfl rfl rfl (by simp [istep, h.loc g]) (by simp [istep, h.out g, h.loc g]) (by simpa [istep_st] using hd)
  | resetObj v a =>
    have hlv : (ι g).st v ≠ .dead := by simpa [allowed] using hal
    obtain ⟨r, hr⟩ := h.bound g v hlv
    exact inv_reset sc hc s ι h g v r a rest hp hr _ _ (by simp [step, hp, hr]) rfl
  | useObj v i ab =>
    have hlv : (ι g).st v ≠ .dead := by
      have : (ι g).st v = .ready := by simpa [allowed] using hal
      rw [this]; decide
    obtain ⟨r, hr⟩ := h.bound g v hlv
    exact inv_use sc s ι h g v r i ab rest hp hr _ _ (by simp [step, hp, hr]) rfl
  | put k v =>
    have hlv : (ι g).st v ≠ .dead := by simpa [allowed] using hal
    obtain ⟨r, hr⟩ := h.bound g v hlv
    exact inv_put sc s ι h g k v r rest hp hr _ _ (by simp [step, hp, hr]) rfl
  | get k v =>
    cases ht : takeAt (s.pools k) c with
    | some rl =>
      obtain ⟨r, l⟩ := rl
      have hperm := takeAt_perm _ _ _ _ ht
      have hnd : (r :: l).Nodup := hperm.nodup_iff.mp (h.pnodup k)
      have hrk : r ∈ s.pools k := hperm.mem_iff.mpr (by simp)
      have hs' : step sc s (g, c) = { s with pools := upd s.pools k l, gs := upd s.gs g { s.gs g with vars := upd (s.gs g).vars v (some r), prog := rest } } := by
        simp [step, hp, ht]
      have hsub : ∀ k1 r1, r1 ∈ (step sc s (g, c)).pools k1 → r1 ∈ s.pools k1 := by
        rw [hs']; intro k1 r1 hm
        by_cases hk : k1 = k
        · subst hk; simp at hm; exact hperm.mem_iff.mpr (by simp [hm])
        · simpa [upd_ne _ _ hk] using hm
      refine inv_acquire sc s ι h g k v r rest hp _ _ (by rw [hs']) (by rw [hs']; exact Nat.le_refl _)
        (by rw [hs']; exact h.plt k r hrk) hsub ?_ ?_ ?_ (by rw [hs']; intros; rfl) rfl
      · rw [hs']; intro k1
        by_cases hk : k1 = k
        · subst hk; simpa using (List.nodup_cons.mp hnd).2
        · simpa [upd_ne _ _ hk] using h.pnodup k1
      · rw [hs']; intro k1 hm
        by_cases hk : k1 = k
        · subst hk; simp at hm; exact (List.nodup_cons.mp hnd).1 hm
        · simp [upd_ne _ _ hk] at hm; exact hk (h.pdisj k1 k r hm hrk)
      · intro g1 v1 hl; exact (h.own g1 v1 r hl).2 k hrk
    | none =>
      have hs' : step sc s (g, c) = { s with heap := upd s.heap s.next (sc.fresh k), next := s.next + 1, gs := upd s.gs g { s.gs g with vars := upd (s.gs g).vars v (some s.next), prog := rest } } := by
        simp [step, hp, ht]
      refine inv_acquire sc s ι h g k v s.next rest hp _ _ (by rw [hs']) (by rw [hs']; exact Nat.le_succ _)
        (by rw [hs']; exact Nat.lt_succ_self _) (by rw [hs']; intro _ _ hm; exact hm) (by rw [hs']; exact h.pnodup) ?_ ?_ ?_ rfl
      · rw [hs']; intro k1 hm; exact Nat.lt_irrefl _ (h.plt k1 _ hm)
      · intro g1 v1 hl; exact Nat.lt_irrefl _ (h.own g1 v1 _ hl).1
      · rw [hs']; intro g1 v1 r1 hl
        have : r1 ≠ s.next := Nat.ne_of_lt (h.own g1 v1 r1 hl).1
        simp [upd_ne _ _ this]

/-! ### Progress: every action is enabled -/

/-- **No action blocks.** Whatever the state and whatever the schedule's choice `c`, a step of goroutine `g` consumes
    exactly the first remaining action of `g` (nothing if `g` has finished) and no action of anybody else. -/
theorem step_prog (sc : Scratch S A I O) (s : State L S A I O) (g c g' : Nat) :
    ((step sc s (g, c)).gs g').prog = if g' = g then (s.gs g).prog.tail else (s.gs g').prog := by
  cases hp : (s.gs g).prog with
  | nil =>
    rw [step_nil _ _ _ _ hp]
    split
    · rename_i e; subst e; simp [hp]
    · rfl
  | cons a rest =>
    cases a <;> simp only [step, hp]
    all_goals (repeat' split)
    all_goals (simp only [upd]; split <;> simp_all)

theorem progress (sc : Scratch S A I O) (s : State L S A I O) (g c : Nat) (a : Action L A I O) (rest : Program L A I O)
    (h : (s.gs g).prog = a :: rest) : ((step sc s (g, c)).gs g).prog = rest := by
  rw [step_prog, if_pos rfl, h]; rfl

theorem run_cons (sc : Scratch S A I O) (s : State L S A I O) (e : Nat × Nat) (sched : Sched) :
    run sc s (e :: sched) = run sc (step sc s e) sched := rfl

/-- after a schedule, goroutine `g` has consumed exactly as many actions as it had turns (or all of them) -/
theorem run_prog (sc : Scratch S A I O) : ∀ (sched : Sched) (s : State L S A I O) (g : Nat),
    ((run sc s sched).gs g).prog = (s.gs g).prog.drop (turns g sched)
  | [], s, g => by simp [run, turns]
  | (g0, c) :: sched, s, g => by
    rw [run_cons, run_prog sc sched, step_prog]
    simp only [turns, List.countP_cons]
    by_cases hg : g = g0
    · subst hg; simp [Nat.add_comm]
    · have : ¬ g0 = g := fun e => hg e.symm
      simp [hg, this]

/-! ### The invariant along every schedule -/

theorem inv_init (sc : Scratch S A I O) (objs : List (Nat × S)) (l0 : Nat → L) (P : Nat → Program L A I O)
    (hd : ∀ g, disciplined (P g) = true) :
    Inv (init sc objs l0 P) (fun g => irun sc (l0 g) []) := by
  refine ⟨fun _ => rfl, fun _ => rfl, hd, ?_, ?_, ?_, ?_, ?_, ?_, ?_⟩
  · intro g v hne; exact absurd rfl hne
  · intro g v r hl; exact absurd rfl hl.1
  · intro g v g' v' r hl; exact absurd rfl hl.1
  · intro k; exact List.Nodup.sublist List.filter_sublist List.nodup_range
  · intro k k' r h1 h2
    simp only [init, List.mem_filter, List.mem_range] at h1 h2
    cases ho : objs[r]? with
    | none => simp [ho] at h1
    | some p =>
      simp only [ho, beq_iff_eq] at h1 h2
      exact h1.2.symm.trans h2.2
  · intro k r h1
    simp only [init, List.mem_filter, List.mem_range] at h1
    exact h1.1
  · intro g v r hst; exact absurd hst (by simp [irun, iinit])

/-- what is carried along a schedule: `done g` is what goroutine `g` has executed -/
structure Tr (sc : Scratch S A I O) (l0 : Nat → L) (P : Nat → Program L A I O) (s : State L S A I O)
    (done : Nat → Program L A I O) : Prop where
  inv   : Inv s (fun g => irun sc (l0 g) (done g))
  split : ∀ g, done g ++ (s.gs g).prog = P g

theorem tr_step (sc : Scratch S A I O) (hc : ResetContract sc) (l0 : Nat → L) (P : Nat → Program L A I O)
    (s : State L S A I O) (done : Nat → Program L A I O) (h : Tr sc l0 P s done) (e : Nat × Nat) :
    ∃ done', Tr sc l0 P (step sc s e) done' := by
  obtain ⟨g, c⟩ := e
  cases hp : (s.gs g).prog with
  | nil => rw [step_nil _ _ _ _ hp]; exact ⟨done, h⟩
  | cons a rest =>
    refine ⟨upd done g (done g ++ [a]), ?_, ?_⟩
    · have := inv_step sc hc s _ h.inv g c a rest hp
      have e : (fun g' => irun sc (l0 g') (upd done g (done g ++ [a]) g')) =
          upd (fun g' => irun sc (l0 g') (done g')) g (istep sc (irun sc (l0 g) (done g)) a) := by
        funext g'
        by_cases hg : g' = g
        · subst hg; simp [irun_snoc]
        · simp [upd_ne _ _ hg]
      rw [e]; exact this
    · intro g'
      rw [step_prog]
      by_cases hg : g' = g
      · subst hg; simp [hp]; rw [← h.split g', hp]
      · simp [hg, upd_ne _ _ hg]; exact h.split g'

theorem tr_run (sc : Scratch S A I O) (hc : ResetContract sc) (l0 : Nat → L) (P : Nat → Program L A I O) :
    ∀ (sched : Sched) (s : State L S A I O) (done : Nat → Program L A I O), Tr sc l0 P s done →
      ∃ done', Tr sc l0 P (run sc s sched) done'
  | [], s, done, h => ⟨done, h⟩
  | e :: sched, s, done, h => by
    obtain ⟨d1, h1⟩ := tr_step sc hc l0 P s done h e
    exact tr_run sc hc l0 P sched _ d1 h1

/-- the executed part is the prefix of the program of the length given by the number of turns -/
theorem tr_done (sc : Scratch S A I O) (l0 : Nat → L) (P : Nat → Program L A I O) (objs : List (Nat × S))
    (sched : Sched) (done : Nat → Program L A I O) (h : Tr sc l0 P (run sc (init sc objs l0 P) sched) done) (g : Nat) :
    done g = (P g).take (turns g sched) := by
  have h1 := h.split g
  have h2 : ((run sc (init sc objs l0 P) sched).gs g).prog = (P g).drop (turns g sched) := run_prog sc sched _ g
  have h3 := List.take_append_drop (turns g sched) (P g)
  rw [h2, ← h3] at h1
  exact (List.append_inj' (by rw [h3] at h1 ⊢; exact h1) rfl).1

theorem tr_main (sc : Scratch S A I O) (hc : ResetContract sc) (objs : List (Nat × S)) (l0 : Nat → L)
    (P : Nat → Program L A I O) (hd : ∀ g, disciplined (P g) = true) (sched : Sched) :
    Inv (run sc (init sc objs l0 P) sched) (fun g => irun sc (l0 g) ((P g).take (turns g sched))) := by
  obtain ⟨done, h⟩ := tr_run sc hc l0 P sched (init sc objs l0 P) (fun _ => [])
    ⟨inv_init sc objs l0 P hd, fun g => rfl⟩
  have e : done = fun g => (P g).take (turns g sched) := funext (tr_done sc l0 P objs sched done h)
  subst e
  exact h.inv

/-! ### The theorems -/

theorem disciplinedFrom_take : ∀ (p : Program L A I O) (st : Nat → VarSt) (n : Nat),
    disciplinedFrom st p = true → disciplinedFrom st (p.take n) = true
  | [], _, _, _ => by simp [disciplinedFrom]
  | a :: p, st, 0, _ => by simp [disciplinedFrom]
  | a :: p, st, n + 1, h => by
    obtain ⟨h1, h2⟩ := disc_cons h
    simp [disciplinedFrom, h1, disciplinedFrom_take p _ n h2]

/-- the discipline is a safety property: every prefix of a disciplined program is disciplined -/
theorem disciplined_take (p : Program L A I O) (n : Nat) (h : disciplined p = true) : disciplined (p.take n) = true :=
  disciplinedFrom_take p _ n h

/-- In every state reachable under any schedule from any initial pool content, what goroutine `g` has computed is
    the reference result of the part of its program it has executed. -/
theorem result_eq_ideal (sc : Scratch S A I O) (hc : ResetContract sc) (objs : List (Nat × S)) (l0 : Nat → L)
    (P : Nat → Program L A I O) (hd : ∀ g, disciplined (P g) = true) (sched : Sched) (g : Nat) :
    result (run sc (init sc objs l0 P) sched) g =
      ((irun sc (l0 g) ((P g).take (turns g sched))).loc, (irun sc (l0 g) ((P g).take (turns g sched))).out) := by
  have h := tr_main sc hc objs l0 P hd sched
  simp only [result, h.loc g, h.out g]

/-- a disciplined program run alone computes its reference result -/
theorem runSolo_eq_ideal (sc : Scratch S A I O) (hc : ResetContract sc) (l0 : L) (p : Program L A I O)
    (hd : disciplined p = true) : runSolo sc l0 p = ((irun sc l0 p).loc, (irun sc l0 p).out) := by
  have h := result_eq_ideal sc hc [] (fun _ => l0) (fun g => if g = 0 then p else [])
    (by intro g; by_cases hg : g = 0
        · simp [hg, hd]
        · simp [hg, disciplined, disciplinedFrom]) (List.replicate p.length (0, 0)) 0
  have ht : turns 0 (List.replicate p.length ((0 : Nat), (0 : Nat))) = p.length := by
    simp [turns, List.countP_replicate]
  rw [ht] at h
  simpa [runSolo, result] using h

/-- **Non-interference.**  `N` goroutines (any number: `P g = []` for the others), every program disciplined, `Reset`
    keeping its contract.  Start with *any* objects in the pools (`objs`), follow *any* schedule — which goroutine
    moves, and which pooled object or a new one each `Get` returns.  Then at every moment, for every goroutine, its
    own state and everything it has read from scratch objects and shared functions are exactly what the executed
    part of its program yields when run alone on empty pools; and the executed part is the prefix whose length is
    the number of turns the goroutine had. -/
theorem noninterference (sc : Scratch S A I O) (hc : ResetContract sc) (objs : List (Nat × S)) (l0 : Nat → L)
    (P : Nat → Program L A I O) (hd : ∀ g, disciplined (P g) = true) (sched : Sched) (g : Nat) :
    result (run sc (init sc objs l0 P) sched) g = runSolo sc (l0 g) ((P g).take (turns g sched)) ∧
    ((run sc (init sc objs l0 P) sched).gs g).prog = (P g).drop (turns g sched) := by
  refine ⟨?_, run_prog sc sched _ g⟩
  rw [result_eq_ideal sc hc objs l0 P hd sched g, runSolo_eq_ideal sc hc _ _ (disciplined_take _ _ (hd g))]

/-- **Exclusive ownership.**  Under the same hypotheses, in every reachable state: an object held by a goroutine
    (through a variable that is live after the executed prefix) is held by nobody else and through no other variable,
    is in no pool; no object is twice in a pool or in two pools.  Ownership moves only by `Get` and `Put`. -/
theorem pool_exclusive (sc : Scratch S A I O) (hc : ResetContract sc) (objs : List (Nat × S)) (l0 : Nat → L)
    (P : Nat → Program L A I O) (hd : ∀ g, disciplined (P g) = true) (sched : Sched) :
    let s := run sc (init sc objs l0 P) sched
    let done := fun g => (P g).take (turns g sched)
    (∀ g v g' v' r, Holds s (done g) g v r → Holds s (done g') g' v' r → g = g' ∧ v = v') ∧
    (∀ g v r k, Holds s (done g) g v r → r ∉ s.pools k) ∧
    (∀ k, (s.pools k).Nodup) ∧
    (∀ k k' r, r ∈ s.pools k → r ∈ s.pools k' → k = k') ∧
    (∀ g v, statusAfter (done g) v ≠ .dead → ∃ r, Holds s (done g) g v r) := by
  intro s done
  have h := tr_main sc hc objs l0 P hd sched
  have hl : ∀ g v r, Holds s (done g) g v r → Live s (fun g => irun sc (l0 g) ((P g).take (turns g sched))) g v r := by
    intro g v r hh
    exact ⟨by simpa [irun_st] using hh.1, hh.2⟩
  refine ⟨fun g v g' v' r h1 h2 => h.excl g v g' v' r (hl _ _ _ h1) (hl _ _ _ h2),
    fun g v r k h1 => (h.own g v r (hl _ _ _ h1)).2 k, h.pnodup, h.pdisj, fun g v hs => ?_⟩
  obtain ⟨r, hr⟩ := h.bound g v (by simpa [irun_st] using hs)
  exact ⟨r, hs, hr⟩

/-- **Completeness.**  A schedule that gives every goroutine at least as many turns as its program is long (every fair
    schedule, eventually) finishes all programs, and every goroutine ends with exactly its solo result. -/
theorem complete (sc : Scratch S A I O) (hc : ResetContract sc) (objs : List (Nat × S)) (l0 : Nat → L)
    (P : Nat → Program L A I O) (hd : ∀ g, disciplined (P g) = true) (sched : Sched)
    (hfair : ∀ g, (P g).length ≤ turns g sched) (g : Nat) :
    ((run sc (init sc objs l0 P) sched).gs g).prog = [] ∧
    result (run sc (init sc objs l0 P) sched) g = runSolo sc (l0 g) (P g) := by
  obtain ⟨h1, h2⟩ := noninterference sc hc objs l0 P hd sched g
  rw [List.take_of_length_le (hfair g)] at h1
  rw [List.drop_of_length_le (hfair g)] at h2
  exact ⟨h2, h1⟩

/-- the turns needed can always be had: let the goroutines run one after the other -/
def serialFrom : Nat → List Nat → Sched
  | _, [] => []
  | g, n :: ns => List.replicate n (g, 0) ++ serialFrom (g + 1) ns

theorem turns_serialFrom : ∀ (lens : List Nat) (g g' : Nat), g ≤ g' → lens.getD (g' - g) 0 ≤ turns g' (serialFrom g lens)
  | [], g, g', _ => by simp
  | n :: ns, g, g', hle => by
    have ih := turns_serialFrom ns (g + 1) g'
    simp only [serialFrom, turns, List.countP_append, List.countP_replicate] at ih ⊢
    by_cases hg : g = g'
    · subst hg; simp
    · have h1 : g' - g = (g' - (g + 1)) + 1 := by omega
      rw [h1, List.getD_cons_succ]
      exact Nat.le_trans (ih (by omega)) (Nat.le_add_left _ _)

/-- for `N` goroutines with programs `progs` there is a schedule that finishes them all (so `complete` is not vacuous) -/
theorem serial_fair (progs : List (Program L A I O)) (g : Nat) :
    (ofList progs g).length ≤ turns g (serialFrom 0 (progs.map List.length)) := by
  have := turns_serialFrom (progs.map List.length) 0 g (Nat.zero_le _)
  refine Nat.le_trans (Nat.le_of_eq ?_) this
  simp only [ofList, Nat.sub_zero, List.getD_eq_getElem?_getD, List.getElem?_map]
  cases progs[g]? <;> simp

/-- turns only grow: every extension of a fair schedule is fair -/
theorem turns_append (g : Nat) (s1 s2 : Sched) : turns g (s1 ++ s2) = turns g s1 + turns g s2 := by
  simp [turns, List.countP_append]

/-- the `N`-goroutine form: programs given as a list, any number of them -/
theorem noninterference_N (sc : Scratch S A I O) (hc : ResetContract sc) (objs : List (Nat × S)) (l0 : Nat → L)
    (progs : List (Program L A I O)) (hd : ∀ p ∈ progs, disciplined p = true) (sched : Sched) (g : Nat) (hg : g < progs.length) :
    result (run sc (init sc objs l0 (ofList progs)) sched) g = runSolo sc (l0 g) (progs[g].take (turns g sched)) := by
  have hd' : ∀ g, disciplined (ofList progs g) = true := by
    intro g
    simp only [ofList, List.getD_eq_getElem?_getD]
    cases h : progs[g]? with
    | none => rfl
    | some p => exact hd p (List.mem_of_getElem? h)
  have := (noninterference sc hc objs l0 (ofList progs) hd' sched g).1
  simpa [ofList, List.getD_eq_getElem?_getD, List.getElem?_eq_getElem hg] using this

/-! ### Call sequences accepted by `disciplinedCalls` are disciplined programs -/

theorem body_disciplined (a : L → A) (i : L → I) (ab : L → O → L) : ∀ (ts : List String) (st : Nat → VarSt),
    st 0 = .ready → bodyOk ts = true → disciplinedFrom st (bodyToProgram a i ab ts) = true
  | [], _, _, _ => rfl
  | t :: ts, st, hst, h => by
    simp only [bodyOk] at h
    by_cases hp : (t == "Put") = true
    · simp only [hp, if_true, List.isEmpty_iff] at h
      subst h
      simp [bodyToProgram, hp, disciplinedFrom, allowed, hst]
    · simp only [hp, Bool.false_eq_true, if_false, Bool.and_eq_true] at h
      by_cases hr : (t == "Reset") = true
      · simp only [bodyToProgram, hp, hr, Bool.false_eq_true, if_false, if_true, disciplinedFrom, Bool.and_eq_true]
        exact ⟨by simp [allowed, hst], body_disciplined a i ab ts _ (by simp [stStep]) h.2⟩
      · simp only [bodyToProgram, hp, hr, Bool.false_eq_true, if_false, disciplinedFrom, Bool.and_eq_true]
        exact ⟨by simp [allowed, hst], body_disciplined a i ab ts _ (by simpa [stStep] using hst) h.2⟩

theorem head_disciplined (a : L → A) (i : L → I) (ab : L → O → L) (rest : List String) (h : bodyOk rest = true) :
    disciplined (.get 0 0 :: .resetObj 0 a :: bodyToProgram a i ab rest) = true := by
  simp only [disciplined, disciplinedFrom, allowed, stStep, Bool.true_and, Bool.and_eq_true]
  exact ⟨by simp, body_disciplined a i ab rest _ (by simp) h⟩

/-- what `decide` will establish for every extracted pool site implies the hypothesis of the theorems above for the
    program the site stands for -/
theorem disciplinedCalls_sound (a : L → A) (i : L → I) (ab : L → O → L) (cs : List String)
    (h : disciplinedCalls cs = true) : disciplined (callsToProgram a i ab cs) = true := by
  unfold disciplinedCalls at h
  split at h
  · exact head_disciplined a i ab _ h
  · exact head_disciplined a i ab _ h
  · exact head_disciplined a i ab _ h
  · cases h

/-- end to end on the running example: two disciplined goroutines sharing one pool, the second receiving the object the
    first has used — each reads what it reads alone -/
example : let s := run accum (init accum [(0, 99)] (fun _ => ()) (ofList [good, good])) [(0,0), (0,0), (0,0), (0,0), (1,0), (1,0), (1,0)]
    (result s 0).2 = [6] ∧ (result s 1).2 = [6] ∧ (s.gs 0).vars 0 = some 0 ∧ (s.gs 1).vars 0 = some 0 ∧ s.pools 0 = [] := by
  decide

end SJ.Shared
