import SJ.Proofs.Subst
/-
The in-place edits of the model (`Iter.setInt/…`, `nopFill`) as statements about located documents:
C13 (replacement changes exactly the addressed value) and the NOP-fill lemma behind C14.
-/
namespace SJ.Layout
open SJ SJ.Generated

/-- packing and unpacking of tape words (plain arithmetic on `toNat`) -/
theorem mkWord_toNat' (t : UInt8) (v : UInt64) (h : v.toNat < 2^56) : (mkWord t v).toNat = t.toNat * 2^56 + v.toNat := by
  unfold mkWord
  have ht := t.toNat_lt
  simp only [UInt64.toNat_or, UInt64.toNat_shiftLeft, UInt8.toNat_toUInt64]
  have e1 : (56 : UInt64).toNat % 64 = 56 := by decide
  rw [e1, Nat.shiftLeft_eq, Nat.mod_eq_of_lt (by omega), ← Nat.shiftLeft_eq]
  exact (Nat.shiftLeft_add_eq_or_of_lt h _).symm
theorem tagOf_mkWord (t : UInt8) (v : UInt64) (h : v < 0x100000000000000) : tagOf (mkWord t v) = t := by
  have h' : v.toNat < 2^56 := by rw [UInt64.lt_iff_toNat_lt] at h; exact h
  apply UInt8.toNat_inj.mp
  unfold tagOf
  have ht := t.toNat_lt
  simp only [UInt64.toNat_toUInt8, UInt64.toNat_shiftRight, mkWord_toNat' t v h']
  have e1 : (56 : UInt64).toNat % 64 = 56 := by decide
  rw [e1, Nat.shiftRight_eq_div_pow]
  omega
theorem payloadOf_mkWord (t : UInt8) (v : UInt64) (h : v < 0x100000000000000) : payloadOf (mkWord t v) = v := by
  have h' : v.toNat < 2^56 := by rw [UInt64.lt_iff_toNat_lt] at h; exact h
  apply UInt64.toNat_inj.mp
  unfold payloadOf
  have e2 : wJSONVALUEMASK.toNat = 2^56 - 1 := by decide
  simp only [UInt64.toNat_and, mkWord_toNat' t v h', e2, Nat.and_two_pow_sub_one_eq_mod]
  omega

theorem word_set {pj : PJ} {i : Nat} {v : UInt64} (h : i < pj.tape.size) (k : Nat) :
    word { pj with tape := pj.tape.set i v h } k = if i = k then some v else word pj k := by
  simp only [word, Array.getElem?_set]

theorem word_some_lt {pj : PJ} {k : Nat} {w : UInt64} (h : word pj k = some w) : k < pj.tape.size := by
  simp only [word] at h
  exact (Array.getElem?_eq_some_iff.mp h).1

mutual
/-- every node of an `Ok` tree lies inside the tape -/
theorem node_in_tape (pj : PJ) (q f : Nat) : ∀ v : LVal, Ok pj v → HasNode q f v → f ≤ pj.tape.size
  | .null p, ho, h => by
    simp only [HasNode, LVal.pos, LVal.fin, Ok] at *; obtain ⟨w, hw, _⟩ := ho; have := word_some_lt hw; omega
  | .bool b p, ho, h => by
    simp only [HasNode, LVal.pos, LVal.fin, Ok] at *; obtain ⟨w, hw, _⟩ := ho; have := word_some_lt hw; omega
  | .int w p, ho, h => by
    simp only [HasNode, LVal.pos, LVal.fin, Ok] at *; obtain ⟨w, _, _, hw⟩ := ho; have := word_some_lt hw; omega
  | .uint w p, ho, h => by
    simp only [HasNode, LVal.pos, LVal.fin, Ok] at *; obtain ⟨w, _, _, hw⟩ := ho; have := word_some_lt hw; omega
  | .float b g p, ho, h => by
    simp only [HasNode, LVal.pos, LVal.fin, Ok] at *; obtain ⟨w, _, _, _, hw⟩ := ho; have := word_some_lt hw; omega
  | .str s p, ho, h => by
    simp only [HasNode, LVal.pos, LVal.fin, Ok, StrAt] at *; obtain ⟨w, l, _, hw, _⟩ := ho; have := word_some_lt hw; omega
  | .arr p e es, ho, h => by
    simp only [HasNode, Ok] at *
    obtain ⟨h1, _, ⟨c, hc, _⟩, hes⟩ := ho
    have := word_some_lt hc
    rcases h with h | h
    · omega
    · have := nodes_within pj q f es (p+1) (e-1) hes h; omega
  | .obj p e ms, ho, h => by
    simp only [HasNode, Ok] at *
    obtain ⟨h1, _, ⟨c, hc, _⟩, hes⟩ := ho
    have := word_some_lt hc
    rcases h with h | h
    · omega
    · have := nodesM_within pj q f ms (p+1) (e-1) hes h; omega
end

/-- writing the two words at `q`, `q+1`, both inside the iterator's view (`hv`) and inside the array (`hq`) -/
theorem set2_spec (pj : PJ) (i : Iter) (q : Nat) (hoff : i.off = q + 1) (hv : i.off < i.lim) (hq : q + 2 ≤ pj.tape.size)
    (w0 w1 : UInt64) :
    ∃ pj', Iter.set2 pj i w0 w1 = .ok pj' ∧ pj'.strings = pj.strings ∧ pj'.msg = pj.msg ∧ pj'.tape.size = pj.tape.size ∧
      word pj' q = some w0 ∧ word pj' (q + 1) = some w1 ∧ ∀ k, k ≠ q → k ≠ q + 1 → word pj' k = word pj k := by
  have h0 : q < pj.tape.size := by omega
  have h1 : q + 1 < (pj.tape.set q w0 h0).size := by simp; omega
  refine ⟨{ pj with tape := (pj.tape.set q w0 h0).set (q+1) w1 h1 }, ?_, rfl, rfl, by simp, ?_, ?_, ?_⟩
  · have hv0 : q < i.lim := by omega
    have hv1 : q + 1 < i.lim := by omega
    simp only [Iter.set2, Iter.wrV, hoff, Nat.add_one_ne_zero, if_false, Nat.add_sub_cancel, wr, h0, dite_true, Res.bind_ok, h1,
      hv0, hv1, if_true]
  · simp only [word, Array.getElem?_set]; simp
  · simp only [word, Array.getElem?_set]; simp
  · intro k hk1 hk2
    simp only [word, Array.getElem?_set]
    rw [if_neg (by omega), if_neg (by omega)]

theorem stringByteAt_congr {pj pj' : PJ} (hs : pj'.strings = pj.strings) (hm : pj'.msg = pj.msg) (o l : UInt64) :
    stringByteAt pj' o l = stringByteAt pj o l := by
  simp only [stringByteAt, hs, hm]

/-- **C13 (numbers).** For every located document `v` that the tape holds, every two-word scalar node at `q`
    (string or number) and every iterator positioned on it whose tag passes the gate and whose view contains the node
    (`hv`: Go checks the indices against the view length `lim`): `SetInt` succeeds, touches
    only the two words of that node, and the tape then holds `v` with exactly that node replaced. -/
theorem setInt_doc (pj : PJ) (v : LVal) (hok : Ok pj v) (q : Nat) (hnode : HasNode q (q + 2) v) (i : Iter)
    (hoff : i.off = q + 1) (hv : i.off < i.lim) (ht : inCase (caseOf swSetInt 0) i.t = true) (z : Int) :
    ∃ pj' i', i.setInt pj z = .ok (pj', i') ∧ Ok pj' (substV q (.int (ofInt64 z) q) v) ∧
      pj'.strings = pj.strings ∧ pj'.msg = pj.msg ∧ pj'.tape.size = pj.tape.size := by
  have hsz := node_in_tape pj q (q+2) v hok hnode
  obtain ⟨pj', h1, hs, hm, hz, hw0, hw1, hfr⟩ := set2_spec pj i q hoff hv hsz (mkWord tagInteger 0) (ofInt64 z)
  refine ⟨pj', { i with t := tagInteger, cur := ofInt64 z }, ?_, ?_, hs, hm, hz⟩
  · simp only [Iter.setInt, ht, if_true, h1, Res.bind_ok]
  · have hA : AgreeOut pj pj' q (q+2) :=
      ⟨fun k hk => hfr k (by omega) (by omega), fun o l s h => by rw [stringByteAt_congr hs hm]; exact h⟩
    have hn : Ok pj' (.int (ofInt64 z) q) := by
      simp only [Ok]
      exact ⟨_, hw0, tagOf_mkWord _ _ (by decide), hw1⟩
    exact (subst_ok hA hn rfl (Nat.le_refl _) (gap_refl _ _) v hok hnode).1

theorem setUInt_doc (pj : PJ) (v : LVal) (hok : Ok pj v) (q : Nat) (hnode : HasNode q (q + 2) v) (i : Iter)
    (hoff : i.off = q + 1) (hv : i.off < i.lim) (ht : inCase (caseOf swSetUInt 0) i.t = true) (z : UInt64) :
    ∃ pj' i', i.setUInt pj z = .ok (pj', i') ∧ Ok pj' (substV q (.uint z q) v) ∧
      pj'.strings = pj.strings ∧ pj'.msg = pj.msg ∧ pj'.tape.size = pj.tape.size := by
  have hsz := node_in_tape pj q (q+2) v hok hnode
  obtain ⟨pj', h1, hs, hm, hz, hw0, hw1, hfr⟩ := set2_spec pj i q hoff hv hsz (mkWord tagUint 0) z
  refine ⟨pj', { i with t := tagUint, cur := z }, ?_, ?_, hs, hm, hz⟩
  · simp only [Iter.setUInt, ht, if_true, h1, Res.bind_ok]
  · have hA : AgreeOut pj pj' q (q+2) :=
      ⟨fun k hk => hfr k (by omega) (by omega), fun o l s h => by rw [stringByteAt_congr hs hm]; exact h⟩
    have hn : Ok pj' (.uint z q) := by
      simp only [Ok]
      exact ⟨_, hw0, tagOf_mkWord _ _ (by decide), hw1⟩
    exact (subst_ok hA hn rfl (Nat.le_refl _) (gap_refl _ _) v hok hnode).1

theorem setFloat_doc (pj : PJ) (v : LVal) (hok : Ok pj v) (q : Nat) (hnode : HasNode q (q + 2) v) (i : Iter)
    (hoff : i.off = q + 1) (hv : i.off < i.lim) (ht : inCase (caseOf swSetFloat 0) i.t = true) (bits : UInt64) :
    ∃ pj' i', i.setFloat pj bits = .ok (pj', i') ∧ Ok pj' (substV q (.float bits 0 q) v) ∧
      pj'.strings = pj.strings ∧ pj'.msg = pj.msg ∧ pj'.tape.size = pj.tape.size := by
  have hsz := node_in_tape pj q (q+2) v hok hnode
  obtain ⟨pj', h1, hs, hm, hz, hw0, hw1, hfr⟩ := set2_spec pj i q hoff hv hsz (mkWord tagFloat 0) bits
  refine ⟨pj', { i with t := tagFloat, cur := 0 }, ?_, ?_, hs, hm, hz⟩
  · simp only [Iter.setFloat, ht, if_true, h1, Res.bind_ok]
  · have hA : AgreeOut pj pj' q (q+2) :=
      ⟨fun k hk => hfr k (by omega) (by omega), fun o l s h => by rw [stringByteAt_congr hs hm]; exact h⟩
    have hn : Ok pj' (.float bits 0 q) := by
      simp only [Ok]
      exact ⟨_, hw0, tagOf_mkWord _ _ (by decide), payloadOf_mkWord _ _ (by decide), hw1⟩
    exact (subst_ok hA hn rfl (Nat.le_refl _) (gap_refl _ _) v hok hnode).1

/-- **C13 (SetNull on a two-word scalar).** The value becomes `null` and its second word a one-entry gap. -/
theorem setNull_scalar_doc (pj : PJ) (v : LVal) (hok : Ok pj v) (q : Nat) (hnode : HasNode q (q + 2) v) (i : Iter)
    (hoff : i.off = q + 1) (hv : i.off < i.lim) (ht0 : inCase (caseOf swSetNull 0) i.t = false) (ht : inCase (caseOf swSetNull 1) i.t = true) :
    ∃ pj' i', i.setNull pj = .ok (pj', i') ∧ Ok pj' (substV q (.null q) v) ∧
      pj'.strings = pj.strings ∧ pj'.msg = pj.msg ∧ pj'.tape.size = pj.tape.size := by
  have hsz := node_in_tape pj q (q+2) v hok hnode
  obtain ⟨pj', h1, hs, hm, hz, hw0, hw1, hfr⟩ := set2_spec pj i q hoff hv hsz (mkWord tagNull 0) (mkWord tagNop 1)
  refine ⟨pj', { i with t := tagNull, cur := 0 }, ?_, ?_, hs, hm, hz⟩
  · simp only [Iter.setNull, ht0, ht, if_true, h1, Res.bind_ok]
    rfl
  · have hA : AgreeOut pj pj' q (q+2) :=
      ⟨fun k hk => hfr k (by omega) (by omega), fun o l s h => by rw [stringByteAt_congr hs hm]; exact h⟩
    have hn : Ok pj' (.null q) := by
      simp only [Ok]
      exact ⟨_, hw0, tagOf_mkWord _ _ (by decide)⟩
    have hg : Gap pj' (q + 1) (q + 2) := by
      refine ⟨by omega, fun k a b => ?_⟩
      have : k = q + 1 := by omega
      subst this
      refine ⟨_, hw1, tagOf_mkWord _ _ (by decide), ?_, ?_⟩
      · rw [payloadOf_mkWord _ _ (by decide)]; decide
      · rw [payloadOf_mkWord _ _ (by decide)]; show q + 1 + 1 ≤ q + 2; omega
    exact (subst_ok hA hn rfl (by simp [LVal.fin]) hg v hok hnode).1

end SJ.Layout

namespace SJ.Layout
open SJ SJ.Generated

/-- writing the single word at `q`, inside the view (`hv`) and the array (`hq`) -/
theorem set1_spec (pj : PJ) (lim : Nat) (q : Nat) (hv : q < lim) (hq : q < pj.tape.size) (w0 : UInt64) :
    ∃ tp, Iter.wrV lim pj.tape q w0 = .ok tp ∧ tp.size = pj.tape.size ∧
      word { pj with tape := tp } q = some w0 ∧ ∀ k, k ≠ q → word { pj with tape := tp } k = word pj k := by
  refine ⟨pj.tape.set q w0 hq, by simp [Iter.wrV, wr, hq, hv], by simp, ?_, ?_⟩
  · simp only [word, Array.getElem?_set]; simp
  · intro k hk
    simp only [word, Array.getElem?_set]
    rw [if_neg (by omega)]

/-- **C13 (SetBool).** On a `true`/`false`/`null` node the value becomes the requested boolean. -/
theorem setBool_doc (pj : PJ) (v : LVal) (hok : Ok pj v) (q : Nat) (hnode : HasNode q (q + 1) v) (i : Iter)
    (hoff : i.off = q + 1) (hv : i.off ≤ i.lim) (ht : inCase (caseOf swSetBool 0) i.t = true) (b : Bool) :
    ∃ pj' i', i.setBool pj b = .ok (pj', i') ∧ Ok pj' (substV q (.bool b q) v) ∧
      pj'.strings = pj.strings ∧ pj'.msg = pj.msg ∧ pj'.tape.size = pj.tape.size := by
  have hsz := node_in_tape pj q (q+1) v hok hnode
  obtain ⟨tp, h1, hz, hw0, hfr⟩ := set1_spec pj i.lim q (by omega) (by omega) (mkWord (if b then tagBoolTrue else tagBoolFalse) 0)
  refine ⟨{ pj with tape := tp }, { i with t := (if b then tagBoolTrue else tagBoolFalse), cur := 0 }, ?_, ?_, rfl, rfl, hz⟩
  · simp only [Iter.setBool, ht, if_true, hoff, Nat.add_one_ne_zero, if_false, Nat.add_sub_cancel, h1, Res.bind_ok]
  · have hA : AgreeOut pj { pj with tape := tp } q (q+1) :=
      ⟨fun k hk => hfr k (by omega), fun o l s h => by rw [stringByteAt_congr rfl rfl]; exact h⟩
    have hn : Ok { pj with tape := tp } (.bool b q) := by
      simp only [Ok]
      exact ⟨_, hw0, by cases b <;> exact tagOf_mkWord _ _ (by decide)⟩
    exact (subst_ok hA hn rfl (Nat.le_refl _) (gap_refl _ _) v hok hnode).1

/-- **C13 (SetNull on a one-word scalar).** -/
theorem setNull_word_doc (pj : PJ) (v : LVal) (hok : Ok pj v) (q : Nat) (hnode : HasNode q (q + 1) v) (i : Iter)
    (hoff : i.off = q + 1) (hv : i.off ≤ i.lim) (ht : inCase (caseOf swSetNull 0) i.t = true) :
    ∃ pj' i', i.setNull pj = .ok (pj', i') ∧ Ok pj' (substV q (.null q) v) ∧
      pj'.strings = pj.strings ∧ pj'.msg = pj.msg ∧ pj'.tape.size = pj.tape.size := by
  have hsz := node_in_tape pj q (q+1) v hok hnode
  obtain ⟨tp, h1, hz, hw0, hfr⟩ := set1_spec pj i.lim q (by omega) (by omega) (mkWord tagNull 0)
  refine ⟨{ pj with tape := tp }, { i with t := tagNull, cur := 0 }, ?_, ?_, rfl, rfl, hz⟩
  · simp only [Iter.setNull, ht, if_true, hoff, Nat.add_one_ne_zero, if_false, Nat.add_sub_cancel, h1, Res.bind_ok]
  · have hA : AgreeOut pj { pj with tape := tp } q (q+1) :=
      ⟨fun k hk => hfr k (by omega), fun o l s h => by rw [stringByteAt_congr rfl rfl]; exact h⟩
    have hn : Ok { pj with tape := tp } (.null q) := by
      simp only [Ok]
      exact ⟨_, hw0, tagOf_mkWord _ _ (by decide)⟩
    exact (subst_ok hA hn rfl (Nat.le_refl _) (gap_refl _ _) v hok hnode).1

/-- A disallowed call returns an error (and, the model being functional, no new tape exists). -/
theorem setInt_gate (pj : PJ) (i : Iter) (z : Int) (ht : inCase (caseOf swSetInt 0) i.t = false) :
    i.setInt pj z = .error .generic := by simp [Iter.setInt, ht]
theorem setUInt_gate (pj : PJ) (i : Iter) (z : UInt64) (ht : inCase (caseOf swSetUInt 0) i.t = false) :
    i.setUInt pj z = .error .generic := by simp [Iter.setUInt, ht]
theorem setFloat_gate (pj : PJ) (i : Iter) (z : UInt64) (ht : inCase (caseOf swSetFloat 0) i.t = false) :
    i.setFloat pj z = .error .generic := by simp [Iter.setFloat, ht]
theorem setBool_gate (pj : PJ) (i : Iter) (b : Bool) (ht : inCase (caseOf swSetBool 0) i.t = false) :
    i.setBool pj b = .error .generic := by simp [Iter.setBool, ht]
theorem setString_gate (pj : PJ) (i : Iter) (s : Bytes) (ht : inCase (caseOf swSetStringBytes 0) i.t = false) :
    i.setStringBytes pj s = .error .generic := by simp [Iter.setStringBytes, ht]
theorem setNull_gate (pj : PJ) (i : Iter) (h0 : inCase (caseOf swSetNull 0) i.t = false)
    (h1 : inCase (caseOf swSetNull 1) i.t = false) (h2 : inCase (caseOf swSetNull 2) i.t = false) :
    i.setNull pj = .error .generic := by simp [Iter.setNull, h0, h1, h2]

end SJ.Layout

namespace SJ.Layout
open SJ SJ.Generated

/-- the NOP fill loop writes `Nop | (hi - k)` at every `k ∈ [lo, hi)` and nothing else -/
theorem nopFill_spec : ∀ (n : Nat) (tape : Array UInt64) (lo hi : Nat), hi - lo = n → hi ≤ tape.size →
    ∃ tp, Iter.nopFill tape lo hi = .ok tp ∧ tp.size = tape.size ∧
      (∀ k, lo ≤ k → k < hi → tp[k]? = some (mkWord tagNop (UInt64.ofNat (hi - k)))) ∧
      (∀ k, (k < lo ∨ hi ≤ k) → tp[k]? = tape[k]?) := by
  intro n
  induction n with
  | zero =>
    intro tape lo hi hn hsz
    refine ⟨tape, ?_, rfl, fun k a b => by omega, fun k _ => rfl⟩
    rw [Iter.nopFill]; simp; omega
  | succ n ih =>
    intro tape lo hi hn hsz
    have hlt : lo < hi := by omega
    have hlo : lo < tape.size := by omega
    obtain ⟨tp, h1, h2, h3, h4⟩ := ih (tape.set lo (mkWord tagNop (UInt64.ofNat (hi - lo))) hlo) (lo + 1) hi (by omega) (by simp; omega)
    refine ⟨tp, ?_, by simpa using h2, ?_, ?_⟩
    · rw [Iter.nopFill]
      simp only [hlt, dite_true, wr, hlo, Res.bind_ok]
      exact h1
    · intro k a b
      by_cases hk : k = lo
      · subst hk
        rw [h4 k (Or.inl (by omega))]
        simp
      · exact h3 k (by omega) b
    · intro k hk
      rw [h4 k (by omega)]
      simp only [Array.getElem?_set]
      rw [if_neg (by omega)]

/-- a fill that ends inside the view is the fill of the whole array -/
theorem nopFillV_eq_nopFill (lim : Nat) : ∀ (n : Nat) (tape : Array UInt64) (lo hi : Nat), hi - lo = n → hi ≤ lim →
    Iter.nopFillV lim tape lo hi = Iter.nopFill tape lo hi := by
  intro n
  induction n with
  | zero =>
    intro tape lo hi hn hl
    have : ¬ lo < hi := by omega
    rw [Iter.nopFillV, Iter.nopFill]; simp [this]
  | succ n ih =>
    intro tape lo hi hn hl
    have hlt : lo < hi := by omega
    have hv : lo < lim := by omega
    rw [Iter.nopFillV, Iter.nopFill]
    simp only [hlt, dite_true, Iter.wrV, hv, if_true]
    cases hw : wr tape lo (mkWord tagNop (UInt64.ofNat (hi - lo))) with
    | ok t => simp only [Res.bind_ok]; exact ih t (lo + 1) hi (by omega) hl
    | _ => rfl

theorem ofNat_lt_2_56 {n : Nat} (h : n < 2^56) : UInt64.ofNat n < 0x100000000000000 := by
  rw [UInt64.lt_iff_toNat_lt]
  simp only [UInt64.toNat_ofNat']
  have : n % 2^64 = n := Nat.mod_eq_of_lt (by omega)
  simp [this]; omega

theorem ofNat_toNat_small {n : Nat} (h : n < 2^56) : (UInt64.ofNat n).toNat = n := by
  simp only [UInt64.toNat_ofNat']
  exact Nat.mod_eq_of_lt (by omega)

/-- after the fill, `[lo, hi)` is a gap -/
theorem gap_of_fill {pj' : PJ} {lo hi : Nat} (hh : hi < 2^56)
    (h : ∀ k, lo ≤ k → k < hi → word pj' k = some (mkWord tagNop (UInt64.ofNat (hi - k)))) (hle : lo ≤ hi) : Gap pj' lo hi := by
  refine ⟨hle, fun k a b => ?_⟩
  have hs : hi - k < 2^56 := by omega
  refine ⟨mkWord tagNop (UInt64.ofNat (hi - k)), h k a b, tagOf_mkWord tagNop (UInt64.ofNat (hi - k)) (ofNat_lt_2_56 hs), ?_, ?_⟩
  · rw [payloadOf_mkWord _ _ (ofNat_lt_2_56 hs), ofNat_toNat_small hs]; omega
  · rw [payloadOf_mkWord _ _ (ofNat_lt_2_56 hs), ofNat_toNat_small hs]; omega

/-- **C14 (SetNull on a container).** An object or array node `[q, e)` becomes `null` followed by a gap that
    ends exactly at `e`; everything else is untouched.  `hv`: the container lies inside the iterator's view. -/
theorem setNull_container_doc (pj : PJ) (v : LVal) (hok : Ok pj v) (q e : Nat) (hnode : HasNode q e v) (hqe : q + 2 ≤ e)
    (hsmall : pj.tape.size < 2^56) (i : Iter)
    (hoff : i.off = q + 1) (hcur : i.cur.toNat = e) (hv : i.cur.toNat ≤ i.lim)
    (ht0 : inCase (caseOf swSetNull 0) i.t = false) (ht1 : inCase (caseOf swSetNull 1) i.t = false)
    (ht : inCase (caseOf swSetNull 2) i.t = true) :
    ∃ pj' i', i.setNull pj = .ok (pj', i') ∧ Ok pj' (substV q (.null q) v) ∧
      pj'.strings = pj.strings ∧ pj'.msg = pj.msg ∧ pj'.tape.size = pj.tape.size := by
  have hsz := node_in_tape pj q e v hok hnode
  obtain ⟨tp0, h1, hz0, hw0, hfr0⟩ := set1_spec pj i.lim q (by omega) (by omega) (mkWord tagNull 0)
  obtain ⟨tp, h2, hz, hfill, hfr⟩ := nopFill_spec (e - (q+1)) tp0 (q+1) e rfl (by omega)
  refine ⟨{ pj with tape := tp }, { i with addNext := (i.cur.toNat : Int) - i.off, t := tagNull, cur := 0 }, ?_, ?_, rfl, rfl, by simp; omega⟩
  · have h2' : Iter.nopFillV i.lim tp0 (q + 1) e = .ok tp := by
      rw [nopFillV_eq_nopFill i.lim _ tp0 (q + 1) e rfl (by omega)]; exact h2
    simp only [Iter.setNull, ht0, ht1, ht, if_true, hoff, Nat.add_one_ne_zero, if_false, Nat.add_sub_cancel, h1, Res.bind_ok, hcur, h2']
    rfl
  · have hA : AgreeOut pj { pj with tape := tp } q e := by
      refine ⟨fun k hk => ?_, fun o l s h => by rw [stringByteAt_congr rfl rfl]; exact h⟩
      show tp[k]? = pj.tape[k]?
      rw [hfr k (by omega)]
      exact hfr0 k (by omega)
    have hn : Ok { pj with tape := tp } (.null q) := by
      simp only [Ok]
      refine ⟨mkWord tagNull 0, ?_, tagOf_mkWord tagNull 0 (by decide)⟩
      show tp[q]? = _
      rw [hfr q (Or.inl (by omega))]
      exact hw0
    have hg : Gap { pj with tape := tp } (q + 1) e := gap_of_fill (by omega) (fun k a b => hfill k a b) (by omega)
    exact (subst_ok hA hn rfl (by simp [LVal.fin]; omega) hg v hok hnode).1

end SJ.Layout
