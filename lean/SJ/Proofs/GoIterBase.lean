import SJ.Generated.GoSrc
import SJ.Model.Iter
import SJ.Proofs.Facts
set_option linter.unusedVariables false
/-
GoIterBase — vocabulary for "the hand model IS the meaning of the translated source", and the loop-free cases.

`Generated.GoSrc` holds the syntax trees the translator printed from `parsed_json.go`; `GoSem.exec` gives them
meaning.  An `Iter` of the hand model corresponds to five variables of the store (`envOf`), the tape to the
interpreter's tape.  `SimT` / `SimE` relate an outcome of the interpreter to a result of the model:

  model `.ok (i', r)`   ⇔  interpreter returns `[r]` (resp. `[r, nil]`) with the receiver's fields = `i'`, tape unchanged
  model `.error _`      ⇔  interpreter returns `[_, non-nil]`
  model `.panic`        ⇔  interpreter panics (index out of range)
and the interpreter is never `stuck` (ill-typed tree) and never out of fuel when given `fuelFor i` steps.
-/
namespace SJ.GoIter
open SJ SJ.GoSem SJ.Generated

/-- the store of a function whose receiver `pfx` is the iterator `i` -/
def envOf (pfx : String) (i : Iter) : Env :=
  [(pfx ++ ".off", .int i.off), (pfx ++ ".addNext", .int i.addNext), (pfx ++ ".cur", .u64 i.cur),
   (pfx ++ ".t", .u8 i.t), (pfx ++ ".lim", .int i.lim)]

/-- read an iterator back out of a store -/
def iterAt (e : Env) (pfx : String) : Option Iter :=
  match e.get (pfx ++ ".off"), e.get (pfx ++ ".addNext"), e.get (pfx ++ ".cur"), e.get (pfx ++ ".t"), e.get (pfx ++ ".lim") with
  | some (.int o), some (.int a), some (.u64 c), some (.u8 t), some (.int l) =>
    if 0 ≤ o ∧ 0 ≤ l then some { lim := l.toNat, off := o.toNat, addNext := a, cur := c, t := t } else none
  | _, _, _, _, _ => none

theorem iterAt_envOf (i : Iter) : iterAt (envOf "i" i) "i" = some i := by
  simp [iterAt, envOf, Env.get]

/-- enough fuel for every loop of the cursor functions on this iterator (each iteration moves forward) -/
def fuelFor (i : Iter) : Nat := i.lim + 8

/-- functions returning one value (a `Tag` or `Type`) and mutating the receiver -/
def SimT (tape : Array UInt64) (o : Out) (r : Res (Iter × UInt8)) : Prop :=
  match r with
  | .ok (i', t) => ∃ s, o = .ret s [.u8 t] ∧ s.tape = tape ∧ iterAt s.env "i" = some i'
  | .panic => o = .panic
  | _ => False

/-- functions returning a value without touching the receiver -/
def SimV (tape : Array UInt64) (i : Iter) (o : Out) (r : Res UInt8) : Prop :=
  match r with
  | .ok t => ∃ s, o = .ret s [.u8 t] ∧ s.tape = tape ∧ iterAt s.env "i" = some i
  | .panic => o = .panic
  | _ => False

-- simp set for symbolic execution of a concrete syntax tree
attribute [local simp] exec exec1 execCases evalE evalEs Env.get Env.set isOneOf binop convert ofE copyFields bindParams
  iterFields runFun tblLookup

theorem u8_lit_eq (t : UInt8) (c : UInt8) : (c = t) ↔ (t.toNat = c.toNat) := by
  constructor
  · intro h; rw [h]
  · intro h; exact (UInt8.toNat_inj.mp h).symm

theorem toInt64_small (c : UInt64) (h : c.toNat < 2^63) : toInt64 c = (c.toNat : Int) := by
  simp [toInt64, h]

/-- `calcNext(into)` -/
theorem calcNext_exec (i : Iter) (into : Bool) (tape : Array UInt64) (fuel : Nat) (hcur : i.cur.toNat < 2^63) :
    exec goFuns fuel goIter_calcNext.body { env := envOf "i" i ++ [("into", .bool into)], tape := tape } =
      .normal { env := envOf "i" (i.calcNext into) ++ [("into", .bool into)], tape := tape } := by
  have hc := Facts.calc_next_cases
  simp only [goIter_calcNext, envOf, Iter.calcNext, hc, caseOf, caseOfSw, inCase]
  simp only [cTagInteger, cTagUint, cTagFloat, cTagString, cTagRoot, cTagObjectStart, cTagArrayStart]
  simp
  simp only [← UInt8.toNat_inj, UInt8.reduceToNat, toInt64_small _ hcur, @eq_comm Nat _ i.t.toNat]
  by_cases h1 : (i.t.toNat = 108 ∨ i.t.toNat = 117 ∨ i.t.toNat = 100 ∨ i.t.toNat = 34)
  · simp [h1]
  · by_cases h2 : (i.t.toNat = 114 ∨ i.t.toNat = 123 ∨ i.t.toNat = 91)
    · cases into <;> simp [h1, h2]
    · simp [h1, h2]

/-- `moveToEnd()` -/
theorem moveToEnd_exec (i : Iter) (tape : Array UInt64) (fuel : Nat) :
    exec goFuns fuel goIter_moveToEnd.body { env := envOf "i" i, tape := tape } =
      .normal { env := envOf "i" i.moveToEnd, tape := tape } := by
  simp [goIter_moveToEnd, envOf, Iter.moveToEnd, tagEnd, cTagEnd]

/-- `Type()` -/
theorem type_exec (i : Iter) (tape : Array UInt64) (fuel : Nat) :
    SimV tape i (runFun goFuns goIter_Type fuel { env := envOf "i" i, tape := tape }) (.ok i.type) := by
  simp only [SimV, goIter_Type, envOf, Iter.type]
  by_cases h : (i.off : Int) + i.addNext > i.lim
  · simp [h, typeNone, cTypeNone, iterAt]
  · simp [h, tagToType, iterAt]

end SJ.GoIter
