import SJ.Proofs.GoArrMarshalLemmas
set_option linter.unusedVariables false
set_option linter.unusedSimpArgs false
/-
GoArrMarshal — `Array.MarshalJSONBuffer` (parsed_array.go l.95-125), as printed by the translator
(`Generated/GoSrc.lean`: `goArray_MarshalJSONBuffer`) and run by `GoSem.exec`, against the hand model
`View.arrMarshal` / `View.arrMarshalLoop` (`Model/Marshal.lean`) on which C10 (`arrMarshal_arr`) rests.
The syntax tree is cut by `rfl` lemmas (`arr_fn_eq`, `arrPre_eq`, `arrBody_eq`, `arrTail_eq`): any edit of the Go function
changes `Generated/GoSrc.lean` and breaks them.  The three callees are not re-proved: `Iter.PeekNextTag`
(`GoMarshal.call_peek`), `Iter.AdvanceIter` (`GoPJForEach.callAssign_ai`), `Iter.MarshalJSONBuffer` (`GoMarshal.loop_sim` …
via `call_mj` of GoArrMarshalLemmas).

MAIN RESULT  `go_arrmarshal_source_tie`.  For every `pj` with `BufOK pj`, every view `v` with `v.lim ≤ pj.tape.size`,
every `dst`, every `F ≥ 2 * fuelOf pj + v.lim + 10` (`≤ 5 * pj.tape.size + 42`, `fuel_bound`), the store
`arrEnv pj v dst = [a.off, a.lim] ++ bufEnv pj ++ [dst]` and the tape `pj.tape`:
    model `.ok out`   ⇔  interpreter returns `[dst ++ out, nil]`, tape unchanged
    model `.error _`  ⇔  interpreter returns `[_, non-nil]`
    model `.panic`    ⇔  interpreter panics            (and NEITHER happens: both sides are panic-free on a view of the tape)
    the model does not run out of its fuel `fuelOf pj`; the interpreter is never `.stuck` and never `.diverge`.
`go_arrmarshal_source_tie_buf` is the same against `arrMarshalBuf` (the model with the `dst` parameter written out);
`go_arrmarshal_source_tie_nil` the instance `dst = nil` (`a.MarshalJSON()`), where the result is `out` itself.
`arrmarshal_sim`: for any model fuel `n` and `F ≥ n + fuelOf pj + v.lim + 10` (`.diverge` of the model claims nothing).

Fuel.  One turn of `for {}` costs 1; inside it `PeekNextTag`/`AdvanceIter` need `i.lim + 9`, `elem.MarshalJSONBuffer(dst)`
needs `1 + (fuelOf pj + elem.lim + 9)` (GoMarshal, model fuel `fuelOf pj` of its write loop) and `elem.lim ≤ i.lim = v.lim`:
`n + fuelOf pj + v.lim + 10` pays for `n` turns.  The model spends one unit of `fuelOf pj = 2 * size + 16` per turn and needs
at most `v.lim - v.off + 1` (`arrLoop_safe`: every turn that goes round again has moved `i.off` forward).

HYPOTHESES, with the reason.
  * `BufOK pj` — inherited from `Iter.StringBytes` (GoObject: buffer lengths are Go `int`s).
  * `v.lim ≤ pj.tape.size` — the view is a view of the tape (as in GoIter/GoMarshal).  Outside it (a hand-made `Array` longer
    than its tape) both sides index past the array; replays (`#eval`) agree (both panic) but nothing is proved.
  * NOT needed: `cur < 2^63` of GoMarshal.  The elements are produced by `AdvanceIter`, whose `cur` is a 56-bit payload
    (`advanceIter_cur`); the `cur` of the array's own iterator (0) is never looked at.

DIFFERENCES between model and source.  ONE, of coverage, none of behaviour:
  * The hand model has no destination parameter: `View.arrMarshal pj a` starts from `#[91]`, i.e. it is the meaning of
    `a.MarshalJSONBuffer(nil)` only.  With a non-empty `dst` the Go function returns `dst ++ out` (replay: tape
    `[root|6, '['|6, 'l', 1, ']'|1, root]`, view `{lim 5, off 2}`, `dst = [65]`: model `[91,49,93]`, Go `[65,91,49,93]`).
    `arrMarshalBuf` writes the parameter out (`arrMarshal_eq : View.arrMarshal pj a = arrMarshalBuf pj a #[]` by `rfl`) and
    `arrMarshalBuf_prefix` proves `arrMarshalBuf pj a dst = dst ++ View.arrMarshal pj a`, so the main theorem is stated on
    the hand model itself.
Checked and agreeing exactly: `a.Iter()` = `View.iter` (`off`, `addNext 0`, `cur 0`, `t 0`, `lim = len(tape)`); the Go loop
re-uses `elem` where the model passes `default` to `advanceIter` (`advanceIter_indep`: `dst` only matters when `TypeNone` is
returned, where both leave the loop); the three exits (`]` ahead before/after an element, `TypeNone`), the two error
returns inside the loop, the final `PeekNextTag() != TagArrayEnd` check; the value beside a non-nil error (`nil`) is not
related to the model (`.error` carries no buffer); `nil` and `[]byte{}` are one value in GoSem.
Replays (`#eval`, both sides): `[[1,"ab"],{"k":null},2.5]` with two NOP words before the float — both
`[[1,"ab"],{"k":null},2.5]`; the same view cut one word short (`lim 17`) — both error; view `{lim 5, off 1}` on the 3-word
tape `['['|3, 'l', 1]` — both panic.
-/
namespace SJ.GoArrMarshal
open SJ SJ.GoSem SJ.Generated SJ.GoIter SJ.GoObject
open SJ.GoMarshal (afterCall call_peek)
open SJ.GoPJForEach (exec_cons' loop_succ)

/-! ## the pieces of the syntax tree of `Array.MarshalJSONBuffer` (pinned by `rfl`) -/

def arrPre : List Stmt := goArray_MarshalJSONBuffer.body.take 11
def arrBody : List Stmt := firstLoop goArray_MarshalJSONBuffer.body
def arrTail : List Stmt := afterLoop goArray_MarshalJSONBuffer.body

theorem arr_fn_eq : goArray_MarshalJSONBuffer.body = arrPre ++ .loop arrBody :: arrTail := rfl

def sPeek (c : String) : Stmt := .callAssign [c] "i" "Iter.PeekNextTag" [] []
def sBrkIf (c : String) : Stmt := .ite (.bin .eq (.v c) (.u8 93)) [.brk] []
def sAI : Stmt := .callAssign ["t", "err"] "i" "Iter.AdvanceIter" ["elem"] [(.bool true)]
def sErr : Stmt := .ite (.bin .ne (.v "err") (.bool false)) [.ret [.nilB, (.v "err")]] []
def sNone : Stmt := .ite (.bin .eq (.v "t") (.u8 0)) [.brk] []
def sComma : Stmt := .assign "dst" (.pushB (.v "dst") (.u8 44))

theorem arrPre_eq : arrPre = [
    .assign "dst" (.pushB (.v "dst") (.u8 91)),
    .assign "i.off" (.v "a.off"), .assign "i.addNext" (.int 0), .assign "i.cur" (.u64 0), .assign "i.t" (.u8 0),
    .assign "i.lim" (.lenTape "a"),
    .assign "elem.off" (.int 0), .assign "elem.addNext" (.int 0), .assign "elem.cur" (.u64 0), .assign "elem.t" (.u8 0),
    .assign "elem.lim" (.int 0)] := rfl

theorem arrBody_eq : arrBody =
    [sPeek "#c1", sBrkIf "#c1", sAI, sErr, sNone, sMJ, sErr, sPeek "#c2", sBrkIf "#c2", sComma] := rfl

theorem arrTail_eq : arrTail = [sPeek "#c3",
    .ite (.bin .ne (.v "#c3") (.u8 93)) [.ret [.nilB, (.bool true)]] [],
    .assign "dst" (.pushB (.v "dst") (.u8 93)),
    .ret [(.v "dst"), (.bool false)]] := rfl

/-! ## the small statements -/

theorem sBrkIf_run (e : Env) (tape : Array UInt64) (F : Nat) (c : String) (t : UInt8) (hc : e.get c = some (.u8 t)) :
    exec1 goFuns F (sBrkIf c) ⟨e, tape⟩ = if t = 93 then .brk ⟨e, tape⟩ else .normal ⟨e, tape⟩ := by
  by_cases h : t = 93
  · simp [sBrkIf, exec, exec1, evalE, binop, hc, h]
  · have hb : (t == 93) = false := by simp [h]
    simp [sBrkIf, exec, exec1, evalE, binop, hc, h, hb]

theorem sNone_run (e : Env) (tape : Array UInt64) (F : Nat) (t : UInt8) (hc : e.get "t" = some (.u8 t)) :
    exec1 goFuns F sNone ⟨e, tape⟩ = if t = 0 then .brk ⟨e, tape⟩ else .normal ⟨e, tape⟩ := by
  by_cases h : t = 0
  · simp [sNone, exec, exec1, evalE, binop, hc, h]
  · have hb : (t == 0) = false := by simp [h]
    simp [sNone, exec, exec1, evalE, binop, hc, h, hb]

theorem sErr_run (e : Env) (tape : Array UInt64) (F : Nat) (b : Bool) (hc : e.get "err" = some (.bool b)) :
    exec1 goFuns F sErr ⟨e, tape⟩ = if b then .ret ⟨e, tape⟩ [.bytes #[], .bool true] else .normal ⟨e, tape⟩ := by
  cases b <;> simp [sErr, exec, exec1, evalE, evalEs, binop, hc]

theorem sComma_run (e : Env) (tape : Array UInt64) (F : Nat) (d : Bytes) (hd : e.get "dst" = some (.bytes d)) :
    exec1 goFuns F sComma ⟨e, tape⟩ = .normal ⟨e.set "dst" (.bytes (d.push 44)), tape⟩ := by
  simp [sComma, exec1, evalE, hd]


/-! ## what one turn of the loop needs of the store -/

structure AInv (pj : PJ) (e : Env) (i : Iter) (dst : Bytes) : Prop where
  it : iterAt e "i" = some i
  el : ∃ el, iterAt e "elem" = some el
  dst : e.get "dst" = some (.bytes dst)
  strs : e.get "Strings.B" = some (.bytes pj.strings)
  msg : e.get "Message" = some (.bytes pj.msg)

def aKeys : List String := fieldsOf "i" ++ fieldsOf "elem" ++ ["dst", "Strings.B", "Message"]

theorem AInv.keeps {pj : PJ} {e : Env} {i : Iter} {d : Bytes} (h : AInv pj e i d) : Keeps pj ⟨e, pj.tape⟩ :=
  ⟨rfl, h.strs, h.msg⟩

/-- a store that agrees with `e` on the variables of the invariant -/
theorem AInv.congr {pj : PJ} {e e' : Env} {i : Iter} {d : Bytes} (h : AInv pj e i d)
    (hk : ∀ k, k ∈ aKeys → e'.get k = e.get k) : AInv pj e' i d := by
  obtain ⟨el, hel⟩ := h.el
  refine ⟨?_, ⟨el, ?_⟩, ?_, ?_, ?_⟩
  · rw [iterAt_congr e e' "i" (fun k hk' => hk k (by simp [aKeys, hk']))]; exact h.it
  · rw [iterAt_congr e e' "elem" (fun k hk' => hk k (by simp [aKeys, hk']))]; exact hel
  · rw [hk _ (by decide)]; exact h.dst
  · rw [hk _ (by decide)]; exact h.strs
  · rw [hk _ (by decide)]; exact h.msg

theorem AInv.set {pj : PJ} {e : Env} {i : Iter} {d : Bytes} (h : AInv pj e i d) (k : String) (v : Val)
    (hk : k ∉ aKeys) : AInv pj (e.set k v) i d :=
  h.congr (fun k' hk' => Env.get_set_ne _ _ (fun hh => hk (hh ▸ hk')))

theorem AInv.called {pj : PJ} {e : Env} {i : Iter} {d : Bytes} (h : AInv pj e i d) : AInv pj (afterCall e pj i) i d := by
  obtain ⟨d1, d2, d3, d4, d5⟩ := iterAt_get_i _ _ h.it
  apply h.congr
  intro k hk
  simp only [aKeys, fieldsOf, String.reduceAppend, List.cons_append, List.nil_append, List.mem_cons, List.not_mem_nil,
    or_false] at hk
  rcases hk with rfl | rfl | rfl | rfl | rfl | rfl | rfl | rfl | rfl | rfl | rfl | rfl | rfl <;>
    simp [afterCall, setIter, Env.get_set, d1, d2, d3, d4, d5, h.strs, h.msg]

theorem AInv.setDst {pj : PJ} {e : Env} {i : Iter} {d : Bytes} (h : AInv pj e i d) (d' : Bytes) :
    AInv pj (e.set "dst" (.bytes d')) i d' := by
  obtain ⟨el, hel⟩ := h.el
  refine ⟨?_, ⟨el, ?_⟩, ?_, ?_, ?_⟩
  · rw [iterAt_set_ne _ _ _ _ (by decide)]; exact h.it
  · rw [iterAt_set_ne _ _ _ _ (by decide)]; exact hel
  · exact Env.get_set_self _ _ _
  · rw [Env.get_set_ne _ _ (by decide)]; exact h.strs
  · rw [Env.get_set_ne _ _ (by decide)]; exact h.msg

/-- after `dst, err = elem.MarshalJSONBuffer(dst)` returned `(out, nil)` -/
theorem AInv.ofMJ {pj : PJ} {e : Env} {i : Iter} (hi : iterAt e "i" = some i) (j : Iter) (out : Bytes) :
    AInv pj (afterMJ e pj j out) i out := by
  obtain ⟨d1, d2, d3, d4, d5⟩ := iterAt_get_i _ _ hi
  refine ⟨?_, ⟨j, ?_⟩, ?_, ?_, ?_⟩
  · apply iterAt_of_gets <;> simp [afterMJ, setIter, Env.get_set, d1, d2, d3, d4, d5]
  · apply iterAt_of_gets <;> simp [afterMJ, setIter, Env.get_set]
  all_goals simp [afterMJ, setIter, Env.get_set]


/-! ## the model, one turn at a time -/

/-- one turn of `View.arrMarshalLoop`: `inl` = go round again with this state, `inr` = the loop is left with it -/
def arrStep (pj : PJ) (i : Iter) (dst : Bytes) : Res ((Iter × Bytes) ⊕ (Iter × Bytes)) := do
  let nt0 ← i.peekNextTag pj
  if nt0 == tagArrayEnd then .ok (.inr (i, dst)) else do
  let (i, elem, t) ← i.advanceIter pj default
  if t == typeNone then .ok (.inr (i, dst)) else do
  let dst ← elem.marshalBuf pj dst
  let nt ← i.peekNextTag pj
  if nt == tagArrayEnd then .ok (.inr (i, dst))
  else .ok (.inl (i, dst.push 44))

def arrNext (pj : PJ) (n : Nat) : (Iter × Bytes) ⊕ (Iter × Bytes) → Res (Iter × Bytes)
  | .inl (i', d') => View.arrMarshalLoop pj i' d' n
  | .inr r => .ok r

theorem arrLoop_succ (pj : PJ) (i : Iter) (dst : Bytes) (n : Nat) :
    View.arrMarshalLoop pj i dst (n + 1) = (arrStep pj i dst >>= arrNext pj n) := by
  rw [View.arrMarshalLoop, arrStep]
  cases i.peekNextTag pj with
  | ok nt0 =>
    simp only [Res.bind_ok]
    split
    · rfl
    · cases i.advanceIter pj default with
      | ok r =>
        obtain ⟨i', el, t⟩ := r
        simp only [Res.bind_ok]
        split
        · rfl
        · cases el.marshalBuf pj dst with
          | ok d =>
            simp only [Res.bind_ok]
            cases i'.peekNextTag pj with
            | ok nt =>
              simp only [Res.bind_ok]
              split <;> rfl
            | error e => rfl
            | panic => rfl
            | diverge => rfl
          | error e => rfl
          | panic => rfl
          | diverge => rfl
      | error e => rfl
      | panic => rfl
      | diverge => rfl
  | error e => rfl
  | panic => rfl
  | diverge => rfl


/-! ## one turn of the loop -/

/-- one run of the loop body against one turn of the model; `L` = the receiver's view length (constant) -/
def AStepSim (pj : PJ) (L : Nat) (o : Out) : Res ((Iter × Bytes) ⊕ (Iter × Bytes)) → Prop
  | .ok (.inl (i', d')) => ∃ e', o = .normal ⟨e', pj.tape⟩ ∧ AInv pj e' i' d' ∧ WalkSafe.Iter.Valid pj i' ∧ i'.lim = L
  | .ok (.inr (i', d')) => ∃ e', o = .brk ⟨e', pj.tape⟩ ∧ AInv pj e' i' d' ∧ WalkSafe.Iter.Valid pj i' ∧ i'.lim = L
  | .error _ => ∃ st v, o = .ret st [v, .bool true]
  | .panic => o = .panic
  | .diverge => False

theorem arr_step (pj : PJ) (hb : BufOK pj) (e : Env) (i : Iter) (dst : Bytes) (f : Nat) (hA : AInv pj e i dst)
    (hv : WalkSafe.Iter.Valid pj i) (hf : fuelOf pj + i.lim + 10 ≤ f) :
    AStepSim pj i.lim (exec goFuns f arrBody ⟨e, pj.tape⟩) (arrStep pj i dst) := by
  obtain ⟨f', rfl⟩ : ∃ f', f = f' + 1 := ⟨f - 1, by omega⟩
  -- `i.PeekNextTag()`
  obtain ⟨nt0, hp0⟩ := WalkSafe.peekNextTag_safe pj i hv
  have hpk := call_peek pj ⟨e, pj.tape⟩ i "#c1" (by decide) f' (by unfold fuelFor; omega) hv.1 hA.it hA.keeps
  rw [hp0] at hpk
  simp only [] at hpk
  rw [arrBody_eq, exec_cons', sPeek, hpk]
  simp only []
  unfold arrStep
  rw [hp0]
  simp only [Res.bind_ok]
  have hA1 : AInv pj ((afterCall e pj i).set "#c1" (.u8 nt0)) i dst := hA.called.set _ _ (by decide)
  have hc1 : ((afterCall e pj i).set "#c1" (.u8 nt0)).get "#c1" = some (.u8 nt0) := Env.get_set_self _ _ _
  generalize (afterCall e pj i).set "#c1" (.u8 nt0) = e1 at hA1 hc1 ⊢
  rw [exec_cons', sBrkIf_run e1 pj.tape _ "#c1" nt0 hc1]
  by_cases h93 : nt0 = 93
  · have hb93 : (nt0 == tagArrayEnd) = true := by simp [tagArrayEnd, h93]
    simp only [if_pos h93, hb93, if_true]
    exact ⟨e1, rfl, hA1, hv, rfl⟩
  have hb93 : (nt0 == tagArrayEnd) = false := by simp [tagArrayEnd, h93]
  simp only [if_neg h93, hb93, Bool.false_eq_true, if_false]
  -- `t, err := i.AdvanceIter(&elem)`
  obtain ⟨el0, hE1⟩ := hA1.el
  have hG := GoPJForEach.callAssign_ai pj e1 (f' + 1) i el0 hA1.it hE1 hv.1 (by unfold fuelFor; omega)
  have hind := GoPJForEach.advanceIter_indep pj i default el0
  obtain ⟨hsafe, hpost⟩ := WalkSafe.advanceIter_safe pj i default hv
  rw [exec_cons', sAI]
  cases hM : i.advanceIter pj default with
  | ok r =>
    obtain ⟨i', d', t⟩ := r
    rw [hM] at hind
    simp only [] at hind
    have hG' : ∃ d'', i.advanceIter pj el0 = .ok (i', d'', t) ∧ (t ≠ typeNone → d'' = d') := by
      rcases hind with h | ⟨ht, _, h⟩
      · exact ⟨d', h, fun _ => rfl⟩
      · exact ⟨el0, h, fun hne => absurd ht hne⟩
    obtain ⟨d'', hG2, hdd⟩ := hG'
    rw [hG2] at hG
    simp only [] at hG
    obtain ⟨e2, hx2, hI2, hE2, hT2, hErr2, hfr2⟩ := hG
    have hS2 := callAssign_ai_pres "Strings.B" (by decide) e1 pj.tape (f' + 1) i el0 hA1.it hE1 _ hA1.strs e2 pj.tape hx2
    have hM2 := callAssign_ai_pres "Message" (by decide) e1 pj.tape (f' + 1) i el0 hA1.it hE1 _ hA1.msg e2 pj.tape hx2
    have hD2 : e2.get "dst" = some (.bytes dst) := by rw [hfr2 _ (by decide)]; exact hA1.dst
    obtain ⟨hv', hlim', _, hcase⟩ := hpost i' d' t hM
    rw [hx2]
    simp only [Res.bind_ok]
    rw [exec_cons', sErr_run e2 pj.tape _ false hErr2]
    simp only [Bool.false_eq_true, if_false]
    rw [exec_cons', sNone_run e2 pj.tape _ t hT2]
    by_cases ht0 : t = 0
    · have hbt : (t == typeNone) = true := by simp [typeNone, ht0]
      simp only [if_pos ht0, hbt, if_true]
      exact ⟨e2, rfl, ⟨hI2, ⟨_, hE2⟩, hD2, hS2, hM2⟩, hv', hlim'⟩
    have hbt : (t == typeNone) = false := by simp [typeNone, ht0]
    simp only [if_neg ht0, hbt, Bool.false_eq_true, if_false]
    have hde : d'' = d' := hdd (by simpa [typeNone] using ht0)
    subst hde
    rcases hcase with ⟨h0, _⟩ | ⟨hvd, hdl, _⟩
    · exact absurd h0 (by simpa [typeNone] using ht0)
    -- `dst, err = elem.MarshalJSONBuffer(dst)`
    have hcur : d''.cur.toNat < 2^63 := by
      rcases advanceIter_cur pj i default i' d'' t hM with h | h
      · rw [h]; decide
      · omega
    have hmj := call_mj pj hb e2 (f' + 1) d'' dst hE2 hD2 hS2 hM2 hvd.1 hcur (by omega)
    have hsafeM := WalkSafe.marshalBuf_safe pj d'' dst hvd
    rw [exec_cons']
    cases hB : d''.marshalBuf pj dst with
    | ok out =>
      rw [hB] at hmj
      obtain ⟨j, hx3⟩ := hmj
      rw [hx3]
      simp only [Res.bind_ok]
      have hA3 : AInv pj (afterMJ e2 pj j out) i' out := AInv.ofMJ hI2 j out
      have hErr3 : (afterMJ e2 pj j out).get "err" = some (.bool false) := Env.get_set_self _ _ _
      generalize afterMJ e2 pj j out = e3 at hA3 hErr3 ⊢
      rw [exec_cons', sErr_run e3 pj.tape _ false hErr3]
      simp only [Bool.false_eq_true, if_false]
      -- `i.PeekNextTag()` again
      obtain ⟨nt, hp1⟩ := WalkSafe.peekNextTag_safe pj i' hv'
      have hpk2 := call_peek pj ⟨e3, pj.tape⟩ i' "#c2" (by decide) f' (by unfold fuelFor; omega) hv'.1 hA3.it hA3.keeps
      rw [hp1] at hpk2
      simp only [] at hpk2
      rw [exec_cons', sPeek, hpk2, hp1]
      simp only [Res.bind_ok]
      have hA4 : AInv pj ((afterCall e3 pj i').set "#c2" (.u8 nt)) i' out := hA3.called.set _ _ (by decide)
      have hc4 : ((afterCall e3 pj i').set "#c2" (.u8 nt)).get "#c2" = some (.u8 nt) := Env.get_set_self _ _ _
      generalize (afterCall e3 pj i').set "#c2" (.u8 nt) = e4 at hA4 hc4 ⊢
      rw [exec_cons', sBrkIf_run e4 pj.tape _ "#c2" nt hc4]
      by_cases h93' : nt = 93
      · have hb93' : (nt == tagArrayEnd) = true := by simp [tagArrayEnd, h93']
        simp only [if_pos h93', hb93', if_true]
        exact ⟨e4, rfl, hA4, hv', hlim'⟩
      have hb93' : (nt == tagArrayEnd) = false := by simp [tagArrayEnd, h93']
      simp only [if_neg h93', hb93', Bool.false_eq_true, if_false]
      rw [exec_cons', sComma_run e4 pj.tape _ out hA4.dst]
      simp only []
      rw [exec]
      exact ⟨_, rfl, hA4.setDst _, hv', hlim'⟩
    | error er =>
      rw [hB] at hmj
      obtain ⟨e3, tp, hx3, hErr3⟩ := hmj
      rw [hx3]
      simp only [Res.bind_error]
      rw [exec_cons', sErr_run e3 tp _ true hErr3]
      exact ⟨_, _, rfl⟩
    | panic => rw [hB] at hsafeM; exact absurd rfl hsafeM.ne_panic
    | diverge => rw [hB] at hsafeM; exact absurd rfl hsafeM.ne_diverge
  | error er =>
    rw [hM] at hind
    simp only [] at hind
    rw [hind] at hG
    obtain ⟨e2, tp, hx2, hErr2⟩ := hG
    rw [hx2]
    simp only [Res.bind_error]
    rw [exec_cons', sErr_run e2 tp _ true hErr2]
    exact ⟨_, _, rfl⟩
  | panic => rw [hM] at hsafe; exact absurd rfl hsafe.ne_panic
  | diverge => rw [hM] at hsafe; exact absurd rfl hsafe.ne_diverge


/-! ## the loop -/

/-- the loop against `View.arrMarshalLoop` run with fuel `n`; nothing is claimed when the MODEL's fuel runs out -/
def ALoopSim (pj : PJ) (L : Nat) (o : Out) : Res (Iter × Bytes) → Prop
  | .ok (i', d) => ∃ e', o = .normal ⟨e', pj.tape⟩ ∧ AInv pj e' i' d ∧ WalkSafe.Iter.Valid pj i' ∧ i'.lim = L
  | .error _ => ∃ st v, o = .ret st [v, .bool true]
  | .panic => o = .panic
  | .diverge => True

theorem arr_loop (pj : PJ) (hb : BufOK pj) : ∀ (n : Nat) (e : Env) (i : Iter) (dst : Bytes) (F : Nat), AInv pj e i dst →
    WalkSafe.Iter.Valid pj i → n + fuelOf pj + i.lim + 10 ≤ F →
    ALoopSim pj i.lim (exec1 goFuns F (.loop arrBody) ⟨e, pj.tape⟩) (View.arrMarshalLoop pj i dst n) := by
  intro n
  induction n with
  | zero => intro e i dst F _ _ _; rw [View.arrMarshalLoop]; trivial
  | succ n ih =>
    intro e i dst F hA hv hF
    obtain ⟨F', rfl⟩ : ∃ F', F = F' + 1 := ⟨F - 1, by omega⟩
    have hs := arr_step pj hb e i dst F' hA hv (by omega)
    rw [loop_succ, arrLoop_succ]
    cases hr : arrStep pj i dst with
    | ok x =>
      rw [hr] at hs
      cases x with
      | inl p =>
        obtain ⟨i', d'⟩ := p
        obtain ⟨e', ho, hA', hv', hl'⟩ := hs
        rw [ho]
        simp only [Res.bind_ok, arrNext]
        have := ih e' i' d' F' hA' hv' (by omega)
        rw [hl'] at this
        exact this
      | inr p =>
        obtain ⟨i', d'⟩ := p
        obtain ⟨e', ho, hA', hv', hl'⟩ := hs
        rw [ho]
        exact ⟨e', rfl, hA', hv', hl'⟩
    | error er =>
      rw [hr] at hs
      obtain ⟨st, v, ho⟩ := hs
      rw [ho]
      exact ⟨st, v, rfl⟩
    | panic =>
      rw [hr] at hs
      simp only [AStepSim] at hs
      rw [hs]
      rfl
    | diverge => rw [hr] at hs; exact hs.elim

/-! ## the function -/

/-- the store `a.MarshalJSONBuffer(dst)` starts in: the receiver's two fields (as in GoArrNum), the shared buffers, `dst`
    (what `callFun` builds for a call of the method) -/
def arrEnv (pj : PJ) (v : View) (dst : Bytes) : Env :=
  [("a.off", .int v.off), ("a.lim", .int v.lim)] ++ bufEnv pj ++ [("dst", .bytes dst)]

theorem arr_pre (pj : PJ) (v : View) (dst : Bytes) (F : Nat) :
    ∃ e0, exec goFuns F arrPre ⟨arrEnv pj v dst, pj.tape⟩ = .normal ⟨e0, pj.tape⟩ ∧ AInv pj e0 v.iter (dst.push 91) := by
  refine ⟨[("a.off", .int v.off), ("a.lim", .int v.lim), ("Strings.B", .bytes pj.strings), ("Message", .bytes pj.msg),
    ("dst", .bytes (dst.push 91)), ("i.off", .int v.off), ("i.addNext", .int 0), ("i.cur", .u64 0), ("i.t", .u8 0),
    ("i.lim", .int v.lim), ("elem.off", .int 0), ("elem.addNext", .int 0), ("elem.cur", .u64 0), ("elem.t", .u8 0),
    ("elem.lim", .int 0)], ?_, ?_, ⟨default, ?_⟩, ?_, ?_, ?_⟩
  · simp [arrPre_eq, exec, exec1, evalE, arrEnv, bufEnv, Env.get, Env.set]
  · simp [iterAt, Env.get, View.iter, tagEnd]
  · simp [iterAt, Env.get]; rfl
  all_goals simp [Env.get]

theorem arr_tail (pj : PJ) (e : Env) (i : Iter) (d : Bytes) (F : Nat) (hA : AInv pj e i d)
    (hv : WalkSafe.Iter.Valid pj i) (hF : i.lim + 9 ≤ F) :
    ∃ nt e', i.peekNextTag pj = .ok nt ∧ exec goFuns F arrTail ⟨e, pj.tape⟩ =
      if nt = 93 then .ret ⟨e', pj.tape⟩ [.bytes (d.push 93), .bool false]
      else .ret ⟨e', pj.tape⟩ [.bytes #[], .bool true] := by
  obtain ⟨f, rfl⟩ : ∃ f, F = f + 1 := ⟨F - 1, by omega⟩
  obtain ⟨nt, hp⟩ := WalkSafe.peekNextTag_safe pj i hv
  have hpk := call_peek pj ⟨e, pj.tape⟩ i "#c3" (by decide) f (by unfold fuelFor; omega) hv.1 hA.it hA.keeps
  rw [hp] at hpk
  simp only [] at hpk
  have hA1 : AInv pj ((afterCall e pj i).set "#c3" (.u8 nt)) i d := hA.called.set _ _ (by decide)
  have hc1 : ((afterCall e pj i).set "#c3" (.u8 nt)).get "#c3" = some (.u8 nt) := Env.get_set_self _ _ _
  generalize (afterCall e pj i).set "#c3" (.u8 nt) = e1 at hA1 hc1 hpk
  by_cases h : nt = 93
  · refine ⟨nt, e1.set "dst" (.bytes (d.push 93)), hp, ?_⟩
    rw [arrTail_eq, exec_cons', sPeek, hpk]
    simp [exec, exec1, evalE, evalEs, binop, hc1, h, hA1.dst, Env.get_set]
  · refine ⟨nt, e1, hp, ?_⟩
    have hb : (nt != 93) = true := by simp [h]
    rw [arrTail_eq, exec_cons', sPeek, hpk]
    simp [exec, exec1, evalE, evalEs, binop, hc1, h, hb]


/-- `View.arrMarshal` with the destination buffer as a parameter, as in the Go function (`dst = append(dst, '[')`), and the
    fuel of its loop as a parameter.  The hand model is the instance `dst = #[]`, fuel `fuelOf pj` (`arrMarshal_eq`). -/
def arrMarshalBufN (pj : PJ) (a : View) (dst : Bytes) (n : Nat) : Res Bytes := do
  let (i, d) ← View.arrMarshalLoop pj a.iter (dst.push 91) n
  let nt ← i.peekNextTag pj
  if nt != tagArrayEnd then .error .generic else .ok (d.push 93)

def arrMarshalBuf (pj : PJ) (a : View) (dst : Bytes) : Res Bytes := arrMarshalBufN pj a dst (fuelOf pj)

theorem arrMarshal_eq (pj : PJ) (a : View) : View.arrMarshal pj a = arrMarshalBuf pj a #[] := rfl

open SJ.GoMarshal (MainSim) in
theorem arrmarshal_sim (pj : PJ) (hb : BufOK pj) (v : View) (hl : v.lim ≤ pj.tape.size) (dst : Bytes) (n F : Nat)
    (hF : n + fuelOf pj + v.lim + 10 ≤ F) :
    MainSim pj (runFun goFuns goArray_MarshalJSONBuffer F ⟨arrEnv pj v dst, pj.tape⟩) (arrMarshalBufN pj v dst n) := by
  obtain ⟨e0, hpre, hA0⟩ := arr_pre pj v dst F
  have hv0 := WalkSafe.iter_valid pj v hl
  have hloop := arr_loop pj hb n e0 v.iter (dst.push 91) F hA0 hv0 hF
  have key : MainSim pj (exec goFuns F goArray_MarshalJSONBuffer.body ⟨arrEnv pj v dst, pj.tape⟩)
      (arrMarshalBufN pj v dst n) ∧
      (arrMarshalBufN pj v dst n ≠ .diverge →
        Out.final (exec goFuns F goArray_MarshalJSONBuffer.body ⟨arrEnv pj v dst, pj.tape⟩) = true) := by
    rw [arr_fn_eq, exec_append, hpre]
    simp only []
    rw [exec]
    unfold arrMarshalBufN
    cases hr : View.arrMarshalLoop pj v.iter (dst.push 91) n with
    | ok r =>
      obtain ⟨i', d⟩ := r
      rw [hr] at hloop
      obtain ⟨e', ho, hA', hv', hl'⟩ := hloop
      rw [ho]
      simp only [Res.bind_ok]
      obtain ⟨nt, e'', hp, ht⟩ := arr_tail pj e' i' d F hA' hv' (by rw [hl']; show v.lim + 9 ≤ F; omega)
      rw [ht, hp]
      simp only [Res.bind_ok]
      by_cases h : nt = 93
      · have hb' : (nt != tagArrayEnd) = false := by simp [tagArrayEnd, h]
        simp only [if_pos h, hb', Bool.false_eq_true, if_false, MainSim]
        exact ⟨⟨_, rfl, rfl⟩, fun _ => rfl⟩
      · have hb' : (nt != tagArrayEnd) = true := by simp [tagArrayEnd, h]
        simp only [if_neg h, hb', if_true, MainSim]
        exact ⟨⟨_, _, rfl⟩, fun _ => rfl⟩
    | error er =>
      rw [hr] at hloop
      obtain ⟨st, x, ho⟩ := hloop
      rw [ho]
      exact ⟨⟨st, x, rfl⟩, fun _ => rfl⟩
    | panic =>
      rw [hr] at hloop
      simp only [ALoopSim] at hloop
      rw [hloop]
      exact ⟨rfl, fun _ => rfl⟩
    | diverge => exact ⟨trivial, fun h => absurd rfl h⟩
  by_cases hd : arrMarshalBufN pj v dst n = .diverge
  · rw [hd]; trivial
  · rw [runFun_final _ _ _ _ (key.2 hd)]
    exact key.1


/-! ## the model neither panics nor runs out of fuel on a view of the tape -/

open SJ.WalkSafe (OkOrErr) in
theorem arrLoop_safe (pj : PJ) : ∀ (n : Nat) (i : Iter) (dst : Bytes), WalkSafe.Iter.Valid pj i → i.lim - i.off < n →
    OkOrErr (View.arrMarshalLoop pj i dst n) ∧
      ∀ i' d', View.arrMarshalLoop pj i dst n = .ok (i', d') → WalkSafe.Iter.Valid pj i' := by
  intro n
  induction n with
  | zero => intro i dst _ h; omega
  | succ n ih =>
    intro i dst hv hn
    rw [View.arrMarshalLoop]
    obtain ⟨nt0, hp0⟩ := WalkSafe.peekNextTag_safe pj i hv
    rw [hp0]
    simp only [Res.bind_ok]
    split
    · exact ⟨Or.inl ⟨_, rfl⟩, fun i' d' h => by cases h; exact hv⟩
    obtain ⟨hsafe, hpost⟩ := WalkSafe.advanceIter_safe pj i default hv
    rcases hsafe with ⟨⟨i2, d2, ty⟩, he⟩ | ⟨er, he⟩
    · obtain ⟨hv2, hlim2, _, hcase⟩ := hpost i2 d2 ty he
      rw [he]
      simp only [Res.bind_ok]
      split
      · exact ⟨Or.inl ⟨_, rfl⟩, fun i' d' h => by cases h; exact hv2⟩
      · next hty =>
        rcases hcase with ⟨h0, _⟩ | ⟨hvd, hdl, hprog, hdo, hdle, _, _⟩
        · exact absurd (by rw [h0]; rfl) hty
        rcases WalkSafe.marshalBuf_safe pj d2 dst hvd with ⟨out, hB⟩ | ⟨er, hB⟩
        · rw [hB]
          simp only [Res.bind_ok]
          obtain ⟨nt, hp1⟩ := WalkSafe.peekNextTag_safe pj i2 hv2
          rw [hp1]
          simp only [Res.bind_ok]
          split
          · exact ⟨Or.inl ⟨_, rfl⟩, fun i' d' h => by cases h; exact hv2⟩
          · exact ih i2 _ hv2 (by omega)
        · rw [hB]
          exact ⟨Or.inr ⟨_, rfl⟩, fun i' d' h => by cases h⟩
    · rw [he]
      exact ⟨Or.inr ⟨_, rfl⟩, fun i' d' h => by cases h⟩

/-- on a view of the tape the model returns a buffer or an error -/
theorem arrMarshalBuf_safe (pj : PJ) (v : View) (hl : v.lim ≤ pj.tape.size) (dst : Bytes) :
    WalkSafe.OkOrErr (arrMarshalBuf pj v dst) := by
  have hv0 := WalkSafe.iter_valid pj v hl
  obtain ⟨h1, h2⟩ := arrLoop_safe pj (fuelOf pj) v.iter (dst.push 91) hv0 (by
    show v.lim - v.off < fuelOf pj
    unfold fuelOf; omega)
  unfold arrMarshalBuf arrMarshalBufN
  rcases h1 with ⟨⟨i', d⟩, hr⟩ | ⟨er, hr⟩
  · rw [hr]
    simp only [Res.bind_ok]
    obtain ⟨nt, hp⟩ := WalkSafe.peekNextTag_safe pj i' (h2 i' d hr)
    rw [hp]
    simp only [Res.bind_ok]
    split
    · exact Or.inr ⟨_, rfl⟩
    · exact Or.inl ⟨_, rfl⟩
  · rw [hr]
    exact Or.inr ⟨_, rfl⟩


/-! ## the relation read as equivalences -/

/-- `Array.MarshalJSONBuffer` against the model WITH the destination parameter (`arrMarshalBuf`), any `dst`.  Each line is
    an equivalence; the interpreter is never stuck and never out of fuel, and neither side panics. -/
theorem go_arrmarshal_source_tie_buf (pj : PJ) (hb : BufOK pj) (v : View) (hl : v.lim ≤ pj.tape.size) (dst : Bytes) (F : Nat)
    (hF : 2 * fuelOf pj + v.lim + 10 ≤ F) :
    (∀ out, arrMarshalBuf pj v dst = .ok out ↔
      ∃ st, runFun goFuns goArray_MarshalJSONBuffer F ⟨arrEnv pj v dst, pj.tape⟩ = .ret st [.bytes out, .bool false] ∧
        st.tape = pj.tape) ∧
    ((∃ er, arrMarshalBuf pj v dst = .error er) ↔
      ∃ st x, runFun goFuns goArray_MarshalJSONBuffer F ⟨arrEnv pj v dst, pj.tape⟩ = .ret st [x, .bool true]) ∧
    (arrMarshalBuf pj v dst = .panic ↔
      runFun goFuns goArray_MarshalJSONBuffer F ⟨arrEnv pj v dst, pj.tape⟩ = .panic) ∧
    arrMarshalBuf pj v dst ≠ .panic ∧ arrMarshalBuf pj v dst ≠ .diverge ∧
    runFun goFuns goArray_MarshalJSONBuffer F ⟨arrEnv pj v dst, pj.tape⟩ ≠ .panic ∧
    runFun goFuns goArray_MarshalJSONBuffer F ⟨arrEnv pj v dst, pj.tape⟩ ≠ .diverge ∧
    (∀ w, runFun goFuns goArray_MarshalJSONBuffer F ⟨arrEnv pj v dst, pj.tape⟩ ≠ .stuck w) := by
  have h := arrmarshal_sim pj hb v hl dst (fuelOf pj) F (by omega)
  have hs := arrMarshalBuf_safe pj v hl dst
  change GoMarshal.MainSim pj _ (arrMarshalBuf pj v dst) at h
  generalize runFun goFuns goArray_MarshalJSONBuffer F ⟨arrEnv pj v dst, pj.tape⟩ = o at h ⊢
  rcases hs with ⟨out0, hr⟩ | ⟨er, hr⟩
  · rw [hr] at h ⊢
    obtain ⟨st, rfl, hst⟩ := h
    refine ⟨fun out => ⟨?_, ?_⟩, ⟨?_, ?_⟩, ⟨?_, ?_⟩, ?_, ?_, ?_, ?_, ?_⟩
    · intro h'; injection h' with h'; subst h'; exact ⟨st, rfl, hst⟩
    · rintro ⟨st', h', _⟩
      simp only [Out.ret.injEq, List.cons.injEq, Val.bytes.injEq] at h'
      rw [h'.2.1]
    · rintro ⟨er, h'⟩; cases h'
    · rintro ⟨st', x, h'⟩; simp at h'
    · intro h'; cases h'
    · intro h'; cases h'
    · intro h'; cases h'
    · intro h'; cases h'
    · intro h'; cases h'
    · intro h'; cases h'
    · intro w h'; cases h'
  · rw [hr] at h ⊢
    obtain ⟨st, x, rfl⟩ := h
    refine ⟨fun out => ⟨?_, ?_⟩, ⟨?_, ?_⟩, ⟨?_, ?_⟩, ?_, ?_, ?_, ?_, ?_⟩
    · intro h'; cases h'
    · rintro ⟨st', h', _⟩; simp at h'
    · intro _; exact ⟨st, x, rfl⟩
    · intro _; exact ⟨er, rfl⟩
    · intro h'; cases h'
    · intro h'; cases h'
    · intro h'; cases h'
    · intro h'; cases h'
    · intro h'; cases h'
    · intro h'; cases h'
    · intro w h'; cases h'

/-- the model with a destination is the hand model with `dst` in front: `View.arrMarshal` only lacks the parameter -/
theorem arrMarshalBuf_prefix (pj : PJ) (v : View) (dst : Bytes) :
    arrMarshalBuf pj v dst = (View.arrMarshal pj v >>= fun o => .ok (dst ++ o)) := by
  unfold arrMarshalBuf arrMarshalBufN View.arrMarshal
  have h0 : dst.push 91 = dst ++ (#[91] : Bytes) := by simp
  rw [h0, arrMarshalLoop_prefix]
  cases View.arrMarshalLoop pj v.iter #[91] (fuelOf pj) with
  | ok r =>
    obtain ⟨i', d⟩ := r
    simp only [Res.bind_ok]
    cases i'.peekNextTag pj with
    | ok nt =>
      simp only [Res.bind_ok]
      split
      · rfl
      · simp only [Res.bind_ok, Array.append_push]
    | error e => rfl
    | panic => rfl
    | diverge => rfl
  | error e => rfl
  | panic => rfl
  | diverge => rfl

/-- **`View.arrMarshal` IS the meaning of `Array.MarshalJSONBuffer`.**  For every document with `BufOK`, every view inside
    the tape, every destination buffer `dst` and `F ≥ 2 * fuelOf pj + v.lim + 10` (`≤ 5 * pj.tape.size + 42`: `fuel_bound`):
    the model returns `out` iff the Go function returns `(dst ++ out, nil)` with the tape unchanged; the model returns an
    error iff the Go function returns a non-nil error; panic iff panic — and in fact neither side panics, the model does not
    run out of its fuel, the interpreter does not run out of `F` and is never stuck. -/
theorem go_arrmarshal_source_tie (pj : PJ) (hb : BufOK pj) (v : View) (hl : v.lim ≤ pj.tape.size) (dst : Bytes) (F : Nat)
    (hF : 2 * fuelOf pj + v.lim + 10 ≤ F) :
    (∀ out, View.arrMarshal pj v = .ok out ↔
      ∃ st, runFun goFuns goArray_MarshalJSONBuffer F ⟨arrEnv pj v dst, pj.tape⟩ =
          .ret st [.bytes (dst ++ out), .bool false] ∧ st.tape = pj.tape) ∧
    ((∃ er, View.arrMarshal pj v = .error er) ↔
      ∃ st x, runFun goFuns goArray_MarshalJSONBuffer F ⟨arrEnv pj v dst, pj.tape⟩ = .ret st [x, .bool true]) ∧
    (View.arrMarshal pj v = .panic ↔
      runFun goFuns goArray_MarshalJSONBuffer F ⟨arrEnv pj v dst, pj.tape⟩ = .panic) ∧
    View.arrMarshal pj v ≠ .panic ∧ View.arrMarshal pj v ≠ .diverge ∧
    runFun goFuns goArray_MarshalJSONBuffer F ⟨arrEnv pj v dst, pj.tape⟩ ≠ .panic ∧
    runFun goFuns goArray_MarshalJSONBuffer F ⟨arrEnv pj v dst, pj.tape⟩ ≠ .diverge ∧
    (∀ w, runFun goFuns goArray_MarshalJSONBuffer F ⟨arrEnv pj v dst, pj.tape⟩ ≠ .stuck w) := by
  obtain ⟨h1, h2, h3, h4, h5, h6, h7, h8⟩ := go_arrmarshal_source_tie_buf pj hb v hl dst F hF
  rw [arrMarshalBuf_prefix] at h1 h2 h3 h4 h5
  generalize runFun goFuns goArray_MarshalJSONBuffer F ⟨arrEnv pj v dst, pj.tape⟩ = o at h1 h2 h3 h4 h5 h6 h7 h8 ⊢
  cases hr : View.arrMarshal pj v with
  | ok out0 =>
    rw [hr] at h1 h2
    simp only [Res.bind_ok] at h1 h2
    obtain ⟨st, ho, hst⟩ := (h1 (dst ++ out0)).mp rfl
    refine ⟨fun out => ⟨?_, ?_⟩, ⟨?_, ?_⟩, ⟨?_, ?_⟩, ?_, ?_, h6, h7, h8⟩
    · intro h'; injection h' with h'; subst h'; exact ⟨st, ho, hst⟩
    · rintro ⟨st', h', _⟩
      rw [ho] at h'
      simp only [Out.ret.injEq, List.cons.injEq, Val.bytes.injEq] at h'
      rw [Array.append_right_inj dst |>.mp h'.2.1]
    · rintro ⟨er, h'⟩; cases h'
    · rintro ⟨st', x, h'⟩; rw [ho] at h'; simp at h'
    · intro h'; cases h'
    · intro h'; exact absurd h' h6
    · intro h'; cases h'
    · intro h'; cases h'
  | error er =>
    rw [hr] at h2
    obtain ⟨st, x, ho⟩ := h2.mp ⟨er, rfl⟩
    refine ⟨fun out => ⟨?_, ?_⟩, ⟨?_, ?_⟩, ⟨?_, ?_⟩, ?_, ?_, h6, h7, h8⟩
    · intro h'; cases h'
    · rintro ⟨st', h', _⟩; rw [ho] at h'; simp at h'
    · intro _; exact ⟨st, x, ho⟩
    · intro _; exact ⟨er, rfl⟩
    · intro h'; cases h'
    · intro h'; exact absurd h' h6
    · intro h'; cases h'
    · intro h'; cases h'
  | panic => rw [hr] at h4; exact absurd rfl h4
  | diverge => rw [hr] at h5; exact absurd rfl h5

/-- `a.MarshalJSON()` = `a.MarshalJSONBuffer(nil)`: the hand model exactly -/
theorem go_arrmarshal_source_tie_nil (pj : PJ) (hb : BufOK pj) (v : View) (hl : v.lim ≤ pj.tape.size) (F : Nat)
    (hF : 2 * fuelOf pj + v.lim + 10 ≤ F) :
    (∀ out, View.arrMarshal pj v = .ok out ↔
      ∃ st, runFun goFuns goArray_MarshalJSONBuffer F ⟨arrEnv pj v #[], pj.tape⟩ = .ret st [.bytes out, .bool false] ∧
        st.tape = pj.tape) ∧
    ((∃ er, View.arrMarshal pj v = .error er) ↔
      ∃ st x, runFun goFuns goArray_MarshalJSONBuffer F ⟨arrEnv pj v #[], pj.tape⟩ = .ret st [x, .bool true]) ∧
    runFun goFuns goArray_MarshalJSONBuffer F ⟨arrEnv pj v #[], pj.tape⟩ ≠ .panic := by
  obtain ⟨h1, h2, _, _, _, h6, _, _⟩ := go_arrmarshal_source_tie pj hb v hl #[] F hF
  simp only [Array.empty_append] at h1
  exact ⟨h1, h2, h6⟩

/-- the fuel bound in terms of the tape alone -/
theorem fuel_bound (pj : PJ) (v : View) (hl : v.lim ≤ pj.tape.size) :
    2 * fuelOf pj + v.lim + 10 ≤ 5 * pj.tape.size + 42 := by
  unfold fuelOf; omega

end SJ.GoArrMarshal
