import SJ.Proofs.TokenSim
set_option linter.unusedVariables false
set_option linter.unusedSimpArgs false
/-
Scalars (atoms and numbers): the model's validators against the specification's `literal` / `numberLit`, on a
window of the message.
-/
namespace SJ.TokenSim
open SJ SJ.ParseDefs SJ.Generated SJ.Layout SJ.Tables SJ.MachineSim SJ.NumberProofs

variable {E : Env}

/-! ## atoms -/

theorem u8_toNat_eq (a : UInt8) (k : UInt8) : a = k ↔ a.toNat = k.toNat := UInt8.toNat_inj.symm

theorem le32_true (buf : Bytes) (i : Nat) : le32 buf i = catomTrue ↔
    buf.getD i 0 = 116 ∧ buf.getD (i+1) 0 = 114 ∧ buf.getD (i+2) 0 = 117 ∧ buf.getD (i+3) 0 = 101 := by
  unfold le32 catomTrue
  rw [u8_toNat_eq, u8_toNat_eq, u8_toNat_eq, u8_toNat_eq]
  have h0 := (buf.getD i 0).toNat_lt
  have h1 := (buf.getD (i+1) 0).toNat_lt
  have h2 := (buf.getD (i+2) 0).toNat_lt
  have h3 := (buf.getD (i+3) 0).toNat_lt
  have e0 : (116 : UInt8).toNat = 116 := rfl
  have e1 : (114 : UInt8).toNat = 114 := rfl
  have e2 : (117 : UInt8).toNat = 117 := rfl
  have e3 : (101 : UInt8).toNat = 101 := rfl
  rw [e0, e1, e2, e3]
  omega

theorem le32_null (buf : Bytes) (i : Nat) : le32 buf i = catomNull ↔
    buf.getD i 0 = 110 ∧ buf.getD (i+1) 0 = 117 ∧ buf.getD (i+2) 0 = 108 ∧ buf.getD (i+3) 0 = 108 := by
  unfold le32 catomNull
  rw [u8_toNat_eq, u8_toNat_eq, u8_toNat_eq, u8_toNat_eq]
  have h0 := (buf.getD i 0).toNat_lt
  have h1 := (buf.getD (i+1) 0).toNat_lt
  have h2 := (buf.getD (i+2) 0).toNat_lt
  have h3 := (buf.getD (i+3) 0).toNat_lt
  have e0 : (110 : UInt8).toNat = 110 := rfl
  have e1 : (117 : UInt8).toNat = 117 := rfl
  have e2 : (108 : UInt8).toNat = 108 := rfl
  rw [e0, e1, e2]
  omega

theorem le64_false (buf : Bytes) (i : Nat) : (le64 buf i &&& catomFalseMask) = catomFalse ↔
    buf.getD i 0 = 102 ∧ buf.getD (i+1) 0 = 97 ∧ buf.getD (i+2) 0 = 108 ∧ buf.getD (i+3) 0 = 115 ∧
    buf.getD (i+4) 0 = 101 := by
  have hm : catomFalseMask = 2^40 - 1 := by decide
  rw [hm, Nat.and_two_pow_sub_one_eq_mod]
  unfold le64 le32 catomFalse
  rw [u8_toNat_eq, u8_toNat_eq, u8_toNat_eq, u8_toNat_eq, u8_toNat_eq]
  have h0 := (buf.getD i 0).toNat_lt
  have h1 := (buf.getD (i+1) 0).toNat_lt
  have h2 := (buf.getD (i+2) 0).toNat_lt
  have h3 := (buf.getD (i+3) 0).toNat_lt
  have h4 := (buf.getD (i+4) 0).toNat_lt
  have h5 := (buf.getD (i+4+1) 0).toNat_lt
  have h6 := (buf.getD (i+4+2) 0).toNat_lt
  have h7 := (buf.getD (i+4+3) 0).toNat_lt
  have e0 : (102 : UInt8).toNat = 102 := rfl
  have e1 : (97 : UInt8).toNat = 97 := rfl
  have e2 : (108 : UInt8).toNat = 108 := rfl
  have e3 : (115 : UInt8).toNat = 115 := rfl
  have e4 : (101 : UInt8).toNat = 101 := rfl
  rw [e0, e1, e2, e3, e4]
  omega

theorem validTrue_iff (buf : Bytes) (i : Nat) : isValidTrueAtom buf i = true ↔
    i + 5 ≤ buf.size ∧ (buf.getD i 0 = 116 ∧ buf.getD (i+1) 0 = 114 ∧ buf.getD (i+2) 0 = 117 ∧ buf.getD (i+3) 0 = 101) ∧
    isFollow (buf.getD (i+4) 0) = true := by
  unfold isValidTrueAtom
  simp only [Bool.and_eq_true, decide_eq_true_eq, beq_iff_eq, le32_true]
  constructor
  · rintro ⟨⟨h1, h2⟩, h3⟩; exact ⟨by omega, h2, h3⟩
  · rintro ⟨h1, h2, h3⟩; exact ⟨⟨by omega, h2⟩, h3⟩

theorem validNull_iff (buf : Bytes) (i : Nat) : isValidNullAtom buf i = true ↔
    i + 5 ≤ buf.size ∧ (buf.getD i 0 = 110 ∧ buf.getD (i+1) 0 = 117 ∧ buf.getD (i+2) 0 = 108 ∧ buf.getD (i+3) 0 = 108) ∧
    isFollow (buf.getD (i+4) 0) = true := by
  unfold isValidNullAtom
  simp only [Bool.and_eq_true, decide_eq_true_eq, beq_iff_eq, le32_null]
  constructor
  · rintro ⟨⟨h1, h2⟩, h3⟩; exact ⟨by omega, h2, h3⟩
  · rintro ⟨h1, h2, h3⟩; exact ⟨⟨by omega, h2⟩, h3⟩

theorem extract5_eq (buf : Bytes) (i : Nat) (h : i + 5 ≤ buf.size) (l : Bytes) (hl : l.size = 5) :
    buf.extract i (i + 5) = l ↔
      buf.getD i 0 = l.getD 0 0 ∧ buf.getD (i+1) 0 = l.getD 1 0 ∧ buf.getD (i+2) 0 = l.getD 2 0 ∧
      buf.getD (i+3) 0 = l.getD 3 0 ∧ buf.getD (i+4) 0 = l.getD 4 0 := by
  constructor
  · intro he
    subst he
    simp [Array.getD, Array.getElem_extract]
    have : min (i + 5) buf.size - i = 5 := by omega
    simp [this]
    refine ⟨?_, ?_, ?_, ?_, ?_⟩ <;> (split <;> first | rfl | omega)
  · rintro ⟨h0, h1, h2, h3, h4⟩
    apply Array.ext
    · simp; omega
    · intro j hj1 hj2
      simp only [Array.getElem_extract]
      have hj : j < 5 := by omega
      have g : ∀ k, k < 5 → buf.getD (i + k) 0 = l.getD k 0 := by
        intro k hk
        have : k = 0 ∨ k = 1 ∨ k = 2 ∨ k = 3 ∨ k = 4 := by omega
        rcases this with rfl | rfl | rfl | rfl | rfl <;> assumption
      have := g j hj
      simp only [Array.getD] at this
      rw [dif_pos (by omega), dif_pos (by omega)] at this
      exact this

theorem validFalse_iff (buf : Bytes) (i : Nat) : isValidFalseAtom buf i = true ↔
    i + 6 ≤ buf.size ∧ (buf.getD i 0 = 102 ∧ buf.getD (i+1) 0 = 97 ∧ buf.getD (i+2) 0 = 108 ∧ buf.getD (i+3) 0 = 115 ∧
      buf.getD (i+4) 0 = 101) ∧ isFollow (buf.getD (i+5) 0) = true := by
  unfold isValidFalseAtom
  by_cases h8 : buf.size - i ≥ 8
  · rw [if_pos h8]
    simp only [Bool.and_eq_true, beq_iff_eq, le64_false]
    constructor
    · rintro ⟨h1, h2⟩; exact ⟨by omega, h2, h1⟩
    · rintro ⟨h1, h2, h3⟩; exact ⟨h3, h2⟩
  · rw [if_neg h8]
    by_cases h6 : buf.size - i ≥ 6
    · rw [if_pos h6]
      have hd : "false".toUTF8.data = #[102,97,108,115,101] := by decide
      simp only [Bool.and_eq_true, beq_iff_eq, hd]
      rw [extract5_eq buf i (by omega) _ rfl]
      constructor
      · rintro ⟨h1, h2⟩; exact ⟨by omega, h1, h2⟩
      · rintro ⟨h1, h2, h3⟩; exact ⟨h2, h3⟩
    · rw [if_neg h6]
      constructor
      · intro h; cases h
      · rintro ⟨h1, _⟩; omega

theorem follow_iff : ∀ b : UInt8, isFollow b = true ↔ (isWsByte b = true ∨ isStructByte b = true) :=
  forall_u8 (by decide +kernel)

theorem isPrefixOf_seg {e : Nat} (he : e ≤ E.msg.size) : ∀ (l : List UInt8) (p : Nat), p ≤ e →
    (l.isPrefixOf (E.seg e p) = true ↔ p + l.length ≤ e ∧ ∀ j (h : j < l.length), E.b (p + j) = l[j])
  | [], p, hp => by
    simp only [List.isPrefixOf, List.length_nil, Nat.add_zero, true_iff]
    exact ⟨hp, fun j h => by cases h⟩
  | x :: l, p, hp => by
    by_cases hlt : p < e
    · rw [seg_cons hlt he]
      simp only [List.isPrefixOf, Bool.and_eq_true, beq_iff_eq, List.length_cons]
      rw [isPrefixOf_seg he l (p + 1) (by omega)]
      constructor
      · rintro ⟨h1, h2, h3⟩
        refine ⟨by omega, ?_⟩
        intro j hj
        cases j with
        | zero => simp [h1]
        | succ j =>
          have := h3 j (by simpa using hj)
          simp only [List.getElem_cons_succ]
          rw [← this]; congr 1; omega
      · rintro ⟨h1, h2⟩
        refine ⟨?_, by omega, ?_⟩
        · have := h2 0 (by simp)
          simpa using this.symm
        · intro j hj
          have := h2 (j + 1) (by simp; omega)
          simp only [List.getElem_cons_succ] at this
          rw [← this]; congr 1; omega
    · have : p = e := by omega
      subst this
      rw [seg_nil (Nat.le_refl _)]
      simp only [List.isPrefixOf, List.length_cons]
      constructor
      · intro h; cases h
      · rintro ⟨h1, _⟩; omega

/-- outcome of the simulation of one value occupying `[p, p')` (when the specification accepts it) -/
def ValAcc (E : Env) (e p : Nat) (m : M) (g : Ghost) (v : Spec.JVal) (rest : List UInt8) : Prop :=
  ∃ p', rest = E.seg e p' ∧ p < p' ∧ p' ≤ e ∧ (AdvV E p m g v p' ∨ (¬ Good E e p' ∧ Dead E m (E.c p)))

theorem atom_sim {a e p : Nat} (W : Win E a e) (hap : a ≤ p) (hr : E.Rdy p) (hpe : p < e)
    (hnw : isWsByte (E.b p) = false) (nm : List UInt8) (hnm : 0 < nm.length)
    (hpl : ∀ x ∈ nm, plainByte x = true ∧ x ≠ 10) (valid : Bool)
    (hvalid : valid = true ↔ p + nm.length + 1 ≤ E.msg.size ∧ (∀ j (h : j < nm.length), E.b (p + j) = nm[j]) ∧
      isFollow (E.b (p + nm.length)) = true)
    {m : M} (g : Ghost) (hst : IsValSt m.st (E.b p)) (v : Spec.JVal) (lv : LVal) (hlv : erase lv = ofSpec v) (t : UInt8)
    (hstep : ∀ pk, m.value E.cfg E.msg p pk (retCode m.st) = if valid then some (m.writeTape 0 t, none) else none)
    (hg : ∀ pk, gvalue m g E.msg p pk = g.addVal lv) :
    match Spec.literal nm v (E.seg e p) with
    | .acc v' rest => v' = v ∧ ValAcc E e p m g v rest
    | .rej => Dead E m (E.c p)
    | .out => True := by
  have hps : p < E.msg.size := Nat.lt_of_lt_of_le hpe W.he
  obtain ⟨pk0, hd0, _, _⟩ := tok_at hps hr hnw
  have hdead : valid = false → Dead E m (E.c p) := by
    intro hv
    apply dead_of_step_none hd0
    apply step_val_none hst
    rw [hstep pk0, hv]; rfl
  unfold Spec.literal
  by_cases hpre : nm.isPrefixOf (E.seg e p) = true
  · rw [if_pos hpre]
    obtain ⟨h1, h2⟩ := (isPrefixOf_seg W.he nm p (Nat.le_of_lt hpe)).mp hpre
    refine ⟨rfl, p + nm.length, seg_drop _ _ _, by omega, h1, ?_⟩
    cases hv : valid with
    | true =>
      left
      obtain ⟨g1, g2, g3⟩ := hvalid.mp hv
      refine adv_scalar hr (by omega) (by omega) ?_ ?_ g hst hlv ?_
      · intro j hj1 hj2
        have := h2 (j - p) (by omega)
        rw [show p + (j - p) = j by omega] at this
        rw [this]
        exact (hpl _ (List.getElem_mem _)).1
      · right; exact (follow_iff _).mp g3
      · intro pk
        refine ⟨m.writeTape 0 t, by rw [hstep pk, hv]; simp, rfl, by simp [M.writeTape], by simp [M.writeTape], hg pk⟩
    | false =>
      right
      refine ⟨?_, hdead hv⟩
      intro hgood
      obtain ⟨k1, k2⟩ := good_follow W.he hgood
      have : valid = true := by
        apply hvalid.mpr
        refine ⟨by have := W.he; omega, h2, ?_⟩
        apply (follow_iff _).mpr
        rcases k2 with k2 | k2 | k2 | k2
        · exact Or.inl k2
        · right; rw [k2, classify_struct]; decide
        · right; rw [k2, classify_struct]; decide
        · right; rw [k2, classify_struct]; decide
      rw [hv] at this; cases this
  · rw [if_neg hpre]
    apply hdead
    cases hv : valid with
    | false => rfl
    | true =>
      exfalso
      apply hpre
      obtain ⟨g1, g2, g3⟩ := hvalid.mp hv
      apply (isPrefixOf_seg W.he nm p (Nat.le_of_lt hpe)).mpr
      refine ⟨?_, g2⟩
      apply Nat.le_of_not_lt
      intro hlt
      -- the window ends inside the atom: the byte at `e` would be a line feed
      have hj : e - p < nm.length := by omega
      have hb := g2 (e - p) hj
      rw [show p + (e - p) = e by omega] at hb
      rcases W.stop with hs | ⟨_, hs⟩
      · omega
      · exact (hpl _ (List.getElem_mem hj)).2 (by rw [← hb]; exact hs)

/-! ## numbers -/

/-- the text after the window: nothing, or it starts with a line feed -/
def NLTail (T : List UInt8) : Prop := ∀ c t, T = c :: t → c = 10

theorem tw_app {T : List UInt8} (hT : NLTail T) : ∀ s : List UInt8,
    (s ++ T).takeWhile SJ.isDigit = s.takeWhile SJ.isDigit ∧
    (s ++ T).dropWhile SJ.isDigit = s.dropWhile SJ.isDigit ++ T
  | [] => by
    cases T with
    | nil => simp
    | cons c t =>
      have := hT c t rfl; subst this
      simp [List.takeWhile, List.dropWhile, SJ.isDigit]
  | c :: s => by
    have ih := tw_app hT s
    by_cases hc : SJ.isDigit c = true
    · simp [List.takeWhile, List.dropWhile, hc, ih.1, ih.2]
    · simp [List.takeWhile, List.dropWhile, hc]

theorem specFrac_app {T : List UInt8} (hT : NLTail T) (s : List UInt8) :
    specFrac (s ++ T) = ((specFrac s).1, (specFrac s).2.1 ++ T, (specFrac s).2.2) := by
  cases s with
  | nil =>
    cases T with
    | nil => rfl
    | cons c t => have := hT c t rfl; subst this; rfl
  | cons c r =>
    by_cases hc : c = 0x2E
    · subst hc
      simp only [List.cons_append, specFrac, (tw_app hT r).1, (tw_app hT r).2]
      split <;> simp
    · unfold specFrac
      simp only [List.cons_append]
      split
      · rename_i h; exact absurd (List.cons.inj h).1 hc
      · split
        · rename_i h; exact absurd (List.cons.inj h).1 hc
        · rfl

theorem pmSign_app {T : List UInt8} (hT : NLTail T) (r : List UInt8) :
    pmSign (r ++ T) = ((pmSign r).1, (pmSign r).2 ++ T) := by
  cases r with
  | nil =>
    cases T with
    | nil => rfl
    | cons c t => have := hT c t rfl; subst this; rfl
  | cons c r =>
    by_cases h1 : c = 0x2B
    · subst h1; rfl
    · by_cases h2 : c = 0x2D
      · subst h2; rfl
      · unfold pmSign
        simp only [List.cons_append]
        split
        · rename_i h; exact absurd (List.cons.inj h).1 h1
        · rename_i h; exact absurd (List.cons.inj h).1 h2
        · split
          · rename_i h; exact absurd (List.cons.inj h).1 h1
          · rename_i h; exact absurd (List.cons.inj h).1 h2
          · rfl

theorem specExp_app {T : List UInt8} (hT : NLTail T) (s : List UInt8) :
    specExp (s ++ T) = ((specExp s).1, (specExp s).2.1 ++ T, (specExp s).2.2) := by
  cases s with
  | nil =>
    cases T with
    | nil => rfl
    | cons c t => have := hT c t rfl; subst this; rfl
  | cons c r =>
    simp only [List.cons_append, specExp, pmSign_app hT r, (tw_app hT _).1, (tw_app hT _).2]
    split
    · split <;> simp
    · simp

theorem specBody_app {T : List UInt8} (hT : NLTail T) (neg : Bool) (s : List UInt8) :
    specBody neg (s ++ T) = (specBody neg s).map (fun lr => (lr.1, lr.2 ++ T)) := by
  unfold specBody
  simp only [(tw_app hT s).1, (tw_app hT s).2, specFrac_app hT, specExp_app hT]
  split
  · rfl
  · split
    · rfl
    · split
      · rfl
      · rfl

theorem specSign_app {T : List UInt8} (hT : NLTail T) (s : List UInt8) :
    specSign (s ++ T) = ((specSign s).1, (specSign s).2 ++ T) := by
  cases s with
  | nil =>
    cases T with
    | nil => rfl
    | cons c t => have := hT c t rfl; subst this; rfl
  | cons c r =>
    by_cases h2 : c = 0x2D
    · subst h2; rfl
    · unfold specSign
      simp only [List.cons_append]
      split
      · rename_i h; exact absurd (List.cons.inj h).1 h2
      · split
        · rename_i h; exact absurd (List.cons.inj h).1 h2
        · rfl

theorem numberLit_app {T : List UInt8} (hT : NLTail T) (s : List UInt8) :
    Spec.numberLit (s ++ T) = (Spec.numberLit s).map (fun lr => (lr.1, lr.2 ++ T)) := by
  rw [numberLit_eq, numberLit_eq, specSign_app hT, specBody_app hT]


theorem nlTail_of_win {a e : Nat} (W : Win E a e) : NLTail (E.msg.toList.drop e) := by
  intro c t h
  rcases W.stop with hs | ⟨_, hs⟩
  · rw [hs, List.drop_eq_nil_of_le (by simp)] at h; cases h
  · have hlt : e < E.msg.size := by
      apply Nat.lt_of_not_le; intro hle
      rw [List.drop_eq_nil_of_le (by simpa using hle)] at h; cases h
    have := seg_cons (E := E) (e := E.msg.size) hlt (Nat.le_refl _)
    rw [seg_full, h] at this
    rw [(List.cons.inj this).1]; exact hs

theorem seg_get {e p k : Nat} (he : e ≤ E.msg.size) (h : p + k < e) : (E.seg e p)[k]? = some (E.b (p + k)) := by
  have := seg_cons (E := E) h he
  rw [← seg_drop] at this
  rw [← List.head?_drop, this]; rfl

theorem alpha_plain : ∀ b : UInt8, numRune b ≠ 0 ∧ numRune b ≠ 8 → plainByte b = true :=
  forall_u8 (by decide +kernel)

theorem eov_follow : ∀ b : UInt8, numRune b = 8 → (isWsByte b = true ∨ isStructByte b = true) :=
  forall_u8 (by decide +kernel)

theorem ws_eov : ∀ b : UInt8, (isWsByte b = true ∨ b = 44 ∨ b = 93 ∨ b = 125) → numRune b = 8 :=
  forall_u8 (by decide +kernel)

theorem numLeaf_int (v : UInt64) (L : Nat) : numLeaf (mkWord tagInteger 0) v L = .int v L := by
  unfold numLeaf; rw [if_pos (by decide +kernel)]
theorem numLeaf_uint (v : UInt64) (L : Nat) : numLeaf (mkWord tagUint 0) v L = .uint v L := by
  unfold numLeaf; rw [if_neg (by decide +kernel), if_pos (by decide +kernel)]
theorem numLeaf_float (v : UInt64) (L : Nat) : numLeaf (mkWord tagFloat 0) v L = .float v 0 L := by
  unfold numLeaf; rw [if_neg (by decide +kernel), if_neg (by decide +kernel)]
  congr 1
theorem numLeaf_floatF (v : UInt64) (L : Nat) :
    numLeaf (mkWord tagFloat 0 ||| wFloatOverflowedInteger) v L = .float v wFloatOverflowedInteger L := by
  unfold numLeaf; rw [if_neg (by decide +kernel), if_neg (by decide +kernel)]
  congr 1

theorem erase_numLeaf (n : Spec.Num) (L : Nat) : erase (numLeaf (encode n).1 (encode n).2 L) = ofNum n := by
  cases n with
  | int z => simp only [encode, numLeaf_int, erase, ofNum]
  | uint k => simp only [encode, numLeaf_uint, erase, ofNum]
  | float b flag =>
    cases flag
    · simp only [encode, Bool.false_eq_true, if_false, numLeaf_float, erase, ofNum]
    · simp only [encode, if_true, numLeaf_floatF, erase, ofNum]

theorem num_sim {a e p : Nat} (W : Win E a e) (hap : a ≤ p) (hr : E.Rdy p) (hpe : p < e)
    (hc : E.b p = 45 ∨ SJ.isDigit (E.b p) = true) {m : M} (g : Ghost) (hst : IsValSt m.st (E.b p)) :
    match Spec.numberLit (E.seg e p) with
    | none => Dead E m (E.c p)
    | some (l, rest) =>
      match Spec.numValue l with
      | some n => ValAcc E e p m g (.num n) rest
      | none => Dead E m (E.c p) := by
  have hps : p < E.msg.size := Nat.lt_of_lt_of_le hpe W.he
  have hnw : isWsByte (E.b p) = false := by
    rcases hc with h | h
    · rw [h, classify_ws]; decide
    · revert h; generalize E.b p = c; revert c; exact forall_u8 (by decide +kernel)
  obtain ⟨pk0, hd0, _, _⟩ := tok_at hps hr hnw
  have hT := nlTail_of_win W
  have hstart : NumStart (E.msg.toList.drop p) := by
    refine ⟨E.b p, E.seg E.msg.size (p + 1), ?_, hc⟩
    rw [← seg_full]; exact seg_cons hps (Nat.le_refl _)
  have hpn := parseNumber_spec E.msg p hstart
  rw [tail_split (Nat.le_of_lt hpe) W.he, numberLit_app hT] at hpn
  have hdead : parseNumber E.msg p = none → Dead E m (E.c p) := by
    intro hv
    apply dead_of_step_none hd0
    apply step_val_none hst
    rw [value_num m E.cfg E.msg p pk0 _ hc, hv]
  cases hnl : Spec.numberLit (E.seg e p) with
  | none =>
    rw [hnl] at hpn
    exact hdead hpn
  | some lr =>
    obtain ⟨l, rest⟩ := lr
    rw [hnl] at hpn
    simp only [Option.map_some] at hpn
    dsimp only
    obtain ⟨x, hx, hseg, hxl⟩ := shape_of_spec hnl
    have hlen : x.render.length + rest.length = e - p := by
      rw [← seg_length (E := E) (p := p) W.he, hseg, List.length_append]
    have hpos : 0 < x.render.length := by
      rw [render_length]
      have := List.length_pos_iff.mpr hx.ne
      omega
    have hrest : rest = E.seg e (p + x.render.length) := by
      rw [← seg_drop, hseg, List.drop_left]
    have hq : p + x.render.length ≤ e := by omega
    rw [hrest, ← tail_split hq W.he] at hpn
    have hplain : ∀ j, p ≤ j → j < p + x.render.length → plainByte (E.b j) = true := by
      intro j hj1 hj2
      have h1 := seg_get (E := E) (p := p) (k := j - p) W.he (by omega)
      rw [show p + (j - p) = j by omega, hseg, List.getElem?_append_left (by omega)] at h1
      obtain ⟨hh, h2⟩ := List.getElem?_eq_some_iff.mp h1
      apply alpha_plain
      rw [← h2]
      exact alpha_render hx.loose _ (List.getElem_mem _)
    cases hnv : Spec.numValue l with
    | none =>
      simp only
      apply hdead
      rw [hpn, hnv]; simp
    | some n =>
      simp only
      refine ⟨p + x.render.length, hrest, by omega, hq, ?_⟩
      by_cases hs : Stop (E.msg.toList.drop (p + x.render.length))
      · left
        rw [if_pos hs, hnv] at hpn
        simp only [Option.map_some] at hpn
        have hf : FollowWS E (p + x.render.length) := by
          by_cases hqs : p + x.render.length < E.msg.size
          · right
            have h1 := seg_cons (E := E) (e := E.msg.size) hqs (Nat.le_refl _)
            rw [seg_full] at h1
            rcases hs with hs | hs
            · rw [h1] at hs; cases hs
            · rw [h1] at hs
              exact eov_follow _ (by simpa using hs)
          · left; have := W.he; omega
        refine adv_scalar hr (by omega) (by have := W.he; omega) hplain hf g hst
          (v := .num n) (lv := numLeaf (encode n).1 (encode n).2 m.tape.size) (by rw [erase_numLeaf]; rfl) ?_
        intro pk
        refine ⟨{ m with tape := (m.tape.push (encode n).1).push (encode n).2 }, ?_, rfl, by simp; omega, by simp, ?_⟩
        · rw [value_num m E.cfg E.msg p pk _ hc, hpn]
        · have h34 : (E.b p == 34) = false := by
            rcases hc with h | h
            · rw [h]; decide
            · revert h; generalize E.b p = c; revert c; exact forall_u8 (by decide +kernel)
          have h116 : (E.b p == 116) = false := by
            rcases hc with h | h
            · rw [h]; decide
            · revert h; generalize E.b p = c; revert c; exact forall_u8 (by decide +kernel)
          have h102 : (E.b p == 102) = false := by
            rcases hc with h | h
            · rw [h]; decide
            · revert h; generalize E.b p = c; revert c; exact forall_u8 (by decide +kernel)
          have h110 : (E.b p == 110) = false := by
            rcases hc with h | h
            · rw [h]; decide
            · revert h; generalize E.b p = c; revert c; exact forall_u8 (by decide +kernel)
          have hd : (E.b p == 45) = true ∨ (48 ≤ E.b p ∧ E.b p ≤ 57) := by
            rcases hc with h | h
            · left; rw [h]; decide
            · right; simpa [SJ.isDigit] using h
          show gvalue m g E.msg p pk = _
          unfold gvalue
          simp only [h34, h116, h102, h110, Bool.false_eq_true, if_false, if_pos hd, hpn]
      · right
        rw [if_neg hs] at hpn
        refine ⟨?_, hdead hpn⟩
        intro hgood
        obtain ⟨k1, k2⟩ := good_follow W.he hgood
        apply hs
        have h1 := seg_cons (E := E) (e := E.msg.size) (Nat.lt_of_lt_of_le k1 W.he) (Nat.le_refl _)
        rw [seg_full] at h1
        right
        rw [h1]
        simpa using ws_eov _ k2

end SJ.TokenSim
