import SJ.Proofs.GoFloatFmtLemmas
set_option linter.unusedVariables false
set_option linter.unusedSimpArgs false
namespace SJ.GoFloatFmt
open SJ SJ.GoSem SJ.Generated SJ.FloatFmt SJ.FloatFmtProofs

/-! ## `min`, `max` -/

theorem go_min_source_tie (a b : Int) (fuel : Nat) (tape : Array UInt64) :
    ∃ s, runFun goFuns gomin fuel ⟨[("a", .int a), ("b", .int b)], tape⟩ = .ret s [.int (min a b)] ∧ s.tape = tape :=
  ⟨_, gomin_run a b fuel tape, rfl⟩

theorem go_max_source_tie (a b : Int) (fuel : Nat) (tape : Array UInt64) :
    ∃ s, runFun goFuns gomax fuel ⟨[("a", .int a), ("b", .int b)], tape⟩ = .ret s [.int (max a b)] ∧ s.tape = tape :=
  ⟨_, gomax_run a b fuel tape, rfl⟩

/-! ## `fmtF` -/

/-- the frame of `fmtF(dst, neg, d, prec)` as `callFun` builds it: the fields of the struct argument, then the
    parameters -/
def fmtFEnv (dst : Bytes) (neg : Bool) (dd : Bytes) (nd dp : Int) (dneg : Bool) (prec : Int) : Env :=
  [("d.d", .bytes dd), ("d.nd", .int nd), ("d.dp", .int dp), ("d.neg", .bool dneg),
   ("dst", .bytes dst), ("neg", .bool neg), ("prec", .int prec)]

theorem FIn_fmtFEnv (dst : Bytes) (neg : Bool) (dd : Bytes) (nd dp : Int) (dneg : Bool) (prec : Int) :
    FIn (fmtFEnv dst neg dd nd dp dneg prec) dd nd dp prec neg := by
  constructor <;> simp [fmtFEnv, Env.get]

end SJ.GoFloatFmt
