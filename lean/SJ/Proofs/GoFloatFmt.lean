import SJ.Proofs.GoFloatFmtLemmas
set_option linter.unusedVariables false
set_option linter.unusedSimpArgs false
/-
GoFloatFmt — the hand model `Model/FloatFmt.lean` IS the meaning (`GoSem.exec`) of the syntax trees the translator
printed for the float formatting glue: `gomin`, `gomax`, `gofmtF`, `goappendFloatF` (appendfloat_f.go) and
`goappendFloat` (parsed_json.go).

* `go_min_source_tie`, `go_max_source_tie`: `min`/`max` on `Int`, every fuel.
* `fmtF_run`: `fmtF` on arbitrary arguments with `0 ≤ nd ≤ len(d.d)` returns `dst ++ fmtFGo …`;
  `go_fmtF_source_tie`: on the digits of a `Shortest` and `prec = max(nd - dp, 0)` that is `dst ++ FloatFmt.fmtF neg sh`.
  Fuel: `fmtFFuel nd dp prec = max (dp - min nd dp) prec + 2` (the longer loop, its initialisation, its last test).
* `go_appendFloatF_source_tie`: `appendFloatF(dst, f) = dst ++ fmtF (sign f) (shortest |f|)` for *every* bit pattern
  (zero, denormal, normal mantissa/exponent extraction; `ryuFtoaShortest` by its contract in `GoSem.extCall`).
  Fuel: `affFuel bits` = that of `fmtF` on the shortest digits, plus one for the call.
* `go_floatfmt_source_tie`: `appendFloat(dst, f)` returns `dst ++ b, nil` when `FloatFmt.appendFloat bits = some b`
  and `nil, err` when it is `none`; never a panic, never stuck, the tape untouched.  Fuel: `fuelOK fuel bits`, i.e.
  `floatFuel bits ≤ fuel`, with `floatFuel bits = affFuel bits + 1` on the `%f` path (`1e-6 ≤ |f| < 1e21` or `f = 0`)
  and `0` otherwise (the `%e` path and Inf/NaN run no loop and no translated call).
  `GoSem` conflates `nil` and the empty slice: the error return is `[.bytes #[], .bool true]`.

No hypothesis on `dst`, `bits`, the tape.  No difference between model and source was found: the only differences of
*shape* are (1) the model applies `cleanExp` to the freshly formatted text, the Go code rewrites the tail of the
whole buffer `dst ++ text` in place — equal because `fmtE` yields at least 4 bytes (`fmtE_size`, `goClean_append`);
(2) the model compares bit patterns with `loBits`/`hiBits`, the Go code compares floats with the constants 1e-6 and
1e21 — equal on non-negative non-NaN values (`fcmpBits_pos`, `loBits_eq`, `hiBits_eq`).
-/
namespace SJ.GoFloatFmt
open SJ SJ.GoSem SJ.Generated SJ.FloatFmt SJ.FloatFmtProofs

/-! ## `min`, `max` -/

theorem go_min_source_tie (a b : Int) (fuel : Nat) (tape : Array UInt64) :
    ∃ s, runFun goFuns gomin fuel ⟨[("a", .int a), ("b", .int b)], tape⟩ = .ret s [.int (min a b)] ∧ s.tape = tape :=
  ⟨_, gomin_run a b fuel tape, rfl⟩

theorem go_max_source_tie (a b : Int) (fuel : Nat) (tape : Array UInt64) :
    ∃ s, runFun goFuns gomax fuel ⟨[("a", .int a), ("b", .int b)], tape⟩ = .ret s [.int (max a b)] ∧ s.tape = tape :=
  ⟨_, gomax_run a b fuel tape, rfl⟩

/-! ## `fmtF` -/

/-- the frame of `fmtF(dst, neg, d, prec)` as `callFun` builds it: the fields of the struct argument, then the
    parameters -/
def fmtFEnv (dst : Bytes) (neg : Bool) (dd : Bytes) (nd dp : Int) (dneg : Bool) (prec : Int) : Env :=
  [("d.d", .bytes dd), ("d.nd", .int nd), ("d.dp", .int dp), ("d.neg", .bool dneg),
   ("dst", .bytes dst), ("neg", .bool neg), ("prec", .int prec)]

theorem FIn_fmtFEnv (dst : Bytes) (neg : Bool) (dd : Bytes) (nd dp : Int) (dneg : Bool) (prec : Int) :
    FIn (fmtFEnv dst neg dd nd dp dneg prec) dd nd dp prec neg := by
  constructor <;> simp [fmtFEnv, Env.get]

/-- **`fmtF`, any arguments**: for a digit buffer `dd` with `0 ≤ nd ≤ len(dd)` (no slice or index of `d.d` can fail)
    the function returns `dst` extended by `fmtFGo` — sign, integer part padded with zeros, fraction of `prec`
    digits — whenever the fuel covers its longer loop. -/
theorem fmtF_run (dst : Bytes) (neg : Bool) (dd : Bytes) (nd dp : Int) (dneg : Bool) (prec : Int) (fuel : Nat)
    (tape : Array UInt64) (h0 : 0 ≤ nd) (h1 : nd ≤ dd.size) (hf : fmtFFuel nd dp prec ≤ fuel) :
    ∃ s, runFun goFuns gofmtF fuel ⟨fmtFEnv dst neg dd nd dp dneg prec, tape⟩ =
      .ret s [.bytes (dst ++ fmtFGo neg dd nd dp prec)] ∧ s.tape = tape := by
  obtain ⟨e', h, _⟩ := fmtF_exec tape fuel _ dd nd dp prec neg dst (FIn_fmtFEnv dst neg dd nd dp dneg prec)
    (by simp [fmtFEnv, Env.get]) h0 h1 hf
  exact ⟨⟨e', tape⟩, by rw [runFun, h], rfl⟩

/-- **`fmtF` is `FloatFmt.fmtF`**: on the ASCII digits of a `Shortest` and `prec = max(nd - dp, 0)` (what
    `appendFloatF` passes). -/
theorem go_fmtF_source_tie (dst : Bytes) (neg dneg : Bool) (sh : Shortest) (fuel : Nat) (tape : Array UInt64)
    (hf : fmtFFuel sh.digits.length sh.dp (max ((sh.digits.length : Int) - sh.dp) 0) ≤ fuel) :
    ∃ s, runFun goFuns gofmtF fuel
        ⟨fmtFEnv dst neg (sh.digits.map digitChar).toArray sh.digits.length sh.dp dneg
          (max ((sh.digits.length : Int) - sh.dp) 0), tape⟩ =
      .ret s [.bytes (dst ++ FloatFmt.fmtF neg sh)] ∧ s.tape = tape := by
  have := fmtF_run dst neg (asc sh.digits).toArray sh.digits.length sh.dp dneg
    (max ((sh.digits.length : Int) - sh.dp) 0) fuel tape (by omega) (by simp [asc]) hf
  rw [fmtFGo_model] at this
  exact this

/-- `fmtF(a1, a2, digs, a3)` through `callFun`, from any caller that holds the struct `digs` and no shared buffers -/
theorem callFun_fmtF (s : St) (f : Nat) (a1 a2 a3 : Expr) (dst : Bytes) (neg : Bool) (dd : Bytes) (nd dp : Int)
    (dneg : Bool) (prec : Int)
    (g1 : s.env.get "digs.d" = some (.bytes dd)) (g2 : s.env.get "digs.nd" = some (.int nd))
    (g3 : s.env.get "digs.dp" = some (.int dp)) (g4 : s.env.get "digs.neg" = some (.bool dneg))
    (hS : s.env.get "Strings.B" = none) (hM : s.env.get "Message" = none)
    (e1 : evalE s a1 = .val (.bytes dst)) (e2 : evalE s a2 = .val (.bool neg)) (e3 : evalE s a3 = .val (.int prec))
    (h0 : 0 ≤ nd) (h1 : nd ≤ dd.size) (hf : fmtFFuel nd dp prec ≤ f) :
    ∃ e', callFun goFuns f "" "fmtF" ["digs"] [a1, a2, a3] s =
      .ret ⟨e', s.tape⟩ [.bytes (dst ++ fmtFGo neg dd nd dp prec)] := by
  obtain ⟨e', h, hk⟩ := fmtF_exec s.tape f _ dd nd dp prec neg dst (FIn_fmtFEnv dst neg dd nd dp dneg prec)
    (by simp [fmtFEnv, Env.get]) h0 h1 hf
  have hin := (FIn_fmtFEnv dst neg dd nd dp dneg prec).keep hk
  have k4 : e'.get "d.neg" = some (.bool dneg) := by rw [hk _ (by decide)]; simp [fmtFEnv, Env.get]
  simp only [fmtFEnv] at h
  rw [callFun]
  simp [goFuns, gofmtF, evalEs, e1, e2, e3, g1, g2, g3, g4, hS, hM, copyPtrs, copyFields, copyGlobals, globalVars,
    bindParams, Env.set, Env.get]
  simp only [gofmtF] at h
  rw [h]
  simp [copyFields, copyPtrsBack, hin.dd, hin.nd, hin.dp, k4]

/-! ## `appendFloatF` -/

/-- up to and including `digs.d = buf[:]` -/
def affPre : List Stmt := goappendFloatF.body.take 17
def ryuStmt : Stmt :=
  .extAssign ["digs.d", "digs.nd", "digs.dp"] "ryuFtoaShortest" [(.v "mant"), (.bin .sub (.v "exp") (.int 52))]
def maxStmt : Stmt := .callAssign ["prec"] "" "max" [] [(.bin .sub (.v "digs.nd") (.v "digs.dp")), (.int 0)]
def fmtStmt : Stmt := .retCall "" "fmtF" ["digs"] [(.v "dst"), (.v "neg"), (.v "prec")]
theorem aff_body : goappendFloatF.body = affPre ++ [ryuStmt, maxStmt, fmtStmt] := rfl

/-- fuel for `appendFloatF(dst, f)`: the call of `fmtF` and its loops on the shortest digits of `|f|` -/
def affFuel (bits : UInt64) : Nat :=
  fmtFFuel (shortest (absOf bits)).digits.length (shortest (absOf bits)).dp
    (max (((shortest (absOf bits)).digits.length : Int) - (shortest (absOf bits)).dp) 0) + 1

section aff
attribute [local simp] exec exec1 execCases evalE evalEs Env.get Env.set isOneOf binop convert ofE

/-- mantissa and exponent extraction (zero, denormal and normal inputs alike) -/
theorem affPre_exec (dst : Bytes) (bits : UInt64) (fuel : Nat) (tape : Array UInt64) :
    ∃ e, exec goFuns fuel affPre ⟨[("dst", .bytes dst), ("val", .u64 bits)], tape⟩ = .normal ⟨e, tape⟩ ∧
      e.get "dst" = some (.bytes dst) ∧ e.get "neg" = some (.bool ((bits >>> 63) != 0)) ∧
      e.get "mant" = some (.u64 (goMant bits)) ∧ e.get "exp" = some (.int (goExp bits)) ∧
      e.get "digs.neg" = some (.bool false) ∧ e.get "Strings.B" = none ∧ e.get "Message" = none := by
  by_cases hx : exOf bits = 0
  · refine ⟨_, by simp [affPre, goappendFloatF, toInt64_shr52, hiWord_and, hx]; rfl, ?_⟩
    simp [goMant, goExp, hx]
  · have hx' : ¬ (0 : Int) = (exOf bits : Int) := by omega
    refine ⟨_, by simp [affPre, goappendFloatF, toInt64_shr52, hiWord_and, hx, hx']; rfl, ?_⟩
    simp [goMant, goExp, hx]

/-- the body of `appendFloatF` on its frame -/
theorem appendFloatF_exec (dst : Bytes) (bits : UInt64) (fuel : Nat) (tape : Array UInt64) (hf : affFuel bits ≤ fuel) :
    ∃ e', exec goFuns fuel goappendFloatF.body ⟨[("dst", .bytes dst), ("val", .u64 bits)], tape⟩ =
      .ret ⟨e', tape⟩ [.bytes (dst ++ FloatFmt.fmtF ((bits >>> 63) != 0) (shortest (absOf bits)))] := by
  obtain ⟨e, hpre, d1, d2, d3, d4, d5, d6, d7⟩ := affPre_exec dst bits fuel tape
  obtain ⟨f, rfl⟩ : ∃ f, fuel = f + 1 := ⟨fuel - 1, by unfold affFuel at hf; omega⟩
  have hryu := ryu_contract bits
  unfold affFuel at hf
  rw [← fmtFGo_model]
  revert hryu hf
  generalize shortest (absOf bits) = sh
  intro hf hryu
  -- the three results of `ryuFtoaShortest`
  let e2 : Env := ((e.set "digs.d" (.bytes (asc sh.digits).toArray)).set "digs.nd" (.int sh.digits.length)).set
    "digs.dp" (.int sh.dp)
  have h2 : exec1 goFuns (f + 1) ryuStmt ⟨e, tape⟩ = .normal ⟨e2, tape⟩ := by
    simp [ryuStmt, d3, d4, hryu, assignTargets, e2]
  -- `prec = max(digs.nd - digs.dp, 0)`
  have hmax := callFun_max ⟨e2, tape⟩ (.bin .sub (.v "digs.nd") (.v "digs.dp")) (.int 0)
    ((sh.digits.length : Int) - sh.dp) 0 f (by simp [e2, Env.get_set, d6]) (by simp [e2, Env.get_set, d7])
    (by simp [e2, Env.get_set]) (by simp)
  let e3 : Env := e2.set "prec" (.int (max ((sh.digits.length : Int) - sh.dp) 0))
  have h3 : exec1 goFuns (f + 1) maxStmt ⟨e2, tape⟩ = .normal ⟨e3, tape⟩ := by
    simp [maxStmt, hmax, assignTargets, e3]
  -- `return fmtF(dst, neg, digs, prec)`
  obtain ⟨e4, h4⟩ := callFun_fmtF ⟨e3, tape⟩ f (.v "dst") (.v "neg") (.v "prec") dst ((bits >>> 63) != 0)
    (asc sh.digits).toArray sh.digits.length sh.dp false (max ((sh.digits.length : Int) - sh.dp) 0)
    (by simp [e3, e2, Env.get_set]) (by simp [e3, e2, Env.get_set]) (by simp [e3, e2, Env.get_set])
    (by simp [e3, e2, Env.get_set, d5]) (by simp [e3, e2, Env.get_set, d6]) (by simp [e3, e2, Env.get_set, d7])
    (by simp [e3, e2, Env.get_set, d1]) (by simp [e3, e2, Env.get_set, d2]) (by simp [e3, e2, Env.get_set])
    (by omega) (by simp [asc]) (by omega)
  refine ⟨e4, ?_⟩
  rw [aff_body, exec_append, hpre]
  simp only []
  rw [exec, h2]
  simp only []
  rw [exec, h3]
  simp only []
  rw [exec, fmtStmt, exec1, h4]

/-- **`appendFloatF` is `fmtF neg (shortest |f|)`**, for every bit pattern (zero, denormal, normal; the sign is read
    off bit 63; even for the exponent 2047, which `appendFloat` never passes). -/
theorem go_appendFloatF_source_tie (dst : Bytes) (bits : UInt64) (fuel : Nat) (tape : Array UInt64)
    (hf : affFuel bits ≤ fuel) :
    ∃ s, runFun goFuns goappendFloatF fuel ⟨[("dst", .bytes dst), ("val", .u64 bits)], tape⟩ =
      .ret s [.bytes (dst ++ FloatFmt.fmtF ((bits >>> 63) != 0) (shortest (bits &&& 0x7fffffffffffffff)))] ∧
      s.tape = tape := by
  obtain ⟨e', h⟩ := appendFloatF_exec dst bits fuel tape hf
  exact ⟨⟨e', tape⟩, by rw [runFun, h]; rfl, rfl⟩

end aff

/-- `appendFloatF(a1, a2)` through `callFun`, from any caller without the shared buffers -/
theorem callFun_appendFloatF (s : St) (f : Nat) (a1 a2 : Expr) (dst : Bytes) (bits : UInt64)
    (hS : s.env.get "Strings.B" = none) (hM : s.env.get "Message" = none)
    (e1 : evalE s a1 = .val (.bytes dst)) (e2 : evalE s a2 = .val (.u64 bits)) (hf : affFuel bits ≤ f) :
    ∃ e', callFun goFuns f "" "appendFloatF" [] [a1, a2] s =
      .ret ⟨e', s.tape⟩ [.bytes (dst ++ FloatFmt.fmtF ((bits >>> 63) != 0) (shortest (absOf bits)))] := by
  obtain ⟨e', h⟩ := appendFloatF_exec dst bits f s.tape hf
  rw [callFun]
  simp [goFuns, goappendFloatF, evalEs, e1, e2, hS, hM, copyPtrs, copyFields, copyGlobals, globalVars,
    bindParams, Env.set, Env.get]
  simp only [goappendFloatF] at h
  rw [h]
  simp [copyFields, copyPtrsBack]

/-! ## `appendFloat` -/

def nonFinStmt : Stmt := .ite (.lor (.fIsInf (.v "f")) (.fIsNaN (.v "f"))) [.ret [.nilB, (.bool true)]] []
def absStmt : Stmt := .assign "abs" (.fabs (.v "f"))
def rangeCond : Expr :=
  .lor (.land (.fcmpF .ge (.v "abs") 4517329193108106637) (.fcmpF .lt (.v "abs") 4921056587992461136))
    (.fcmpF .eq (.v "abs") 0)
def fStmt : Stmt := .ite rangeCond [
    .callAssign ["#c1"] "" "appendFloatF" [] [(.v "dst"), (.v "f")],
    .ret [(.v "#c1"), (.bool false)]] []
def eStmt : Stmt := .extAssign ["dst"] "AppendFloatE" [(.v "dst"), (.v "f")]
/-- `n := len(dst)`, the clean-up, `return dst, nil` -/
def cleanStmts : List Stmt := goappendFloat.body.drop 4
theorem af_body : goappendFloat.body = [nonFinStmt, absStmt, fStmt, eStmt] ++ cleanStmts := rfl

section af
attribute [local simp] exec exec1 execCases evalE evalEs Env.get Env.set isOneOf binop convert ofE

theorem clean_exec (fuel : Nat) (tape : Array UInt64) (all : Bytes) (f a : UInt64) (h4 : 4 ≤ all.size) :
    ∃ e', exec goFuns fuel cleanStmts ⟨[("dst", .bytes all), ("f", .u64 f), ("abs", .u64 a)], tape⟩ =
      .ret ⟨e', tape⟩ [.bytes (goClean all), .bool false] := by
  have i4 : (0 : Int) ≤ (all.size : Int) - 4 ∧ (all.size : Int) - 4 < all.size := by omega
  have i3 : (0 : Int) ≤ (all.size : Int) - 3 ∧ (all.size : Int) - 3 < all.size := by omega
  have i2 : (0 : Int) ≤ (all.size : Int) - 2 ∧ (all.size : Int) - 2 < all.size := by omega
  have i1 : (0 : Int) ≤ (all.size : Int) - 1 ∧ (all.size : Int) - 1 < all.size := by omega
  have j1 : (all.size : Int) - 1 ≤ all.size := by omega
  have t4 : ((all.size : Int) - 4).toNat = all.size - 4 := by omega
  have t3 : ((all.size : Int) - 3).toNat = all.size - 3 := by omega
  have t2 : ((all.size : Int) - 2).toNat = all.size - 2 := by omega
  have t1 : ((all.size : Int) - 1).toNat = all.size - 1 := by omega
  have g4 : (4 : Int) ≤ all.size := by omega
  have g3 : (3 : Int) ≤ all.size := by omega
  have g2 : (2 : Int) ≤ all.size := by omega
  have g1 : (1 : Int) ≤ all.size := by omega
  unfold goClean
  by_cases c4 : all[all.size - 4]?.getD 0 = 101
  · by_cases c3 : all[all.size - 3]?.getD 0 = 45
    · by_cases c2 : all[all.size - 2]?.getD 0 = 48
      · exact ⟨_, by
          simp [cleanStmts, goappendFloat, i4, i3, i2, i1, j1, t4, t3, t2, t1, g4, g3, g2, g1, c4, c3, c2]
          rfl⟩
      · have c2' : (all[all.size - 2]?.getD 0 == 48) = false := by simpa using c2
        exact ⟨_, by
          simp [cleanStmts, goappendFloat, i4, i3, i2, i1, j1, t4, t3, t2, t1, g4, g3, g2, g1, c4, c3, c2, c2']
          rfl⟩
    · have c3' : (all[all.size - 3]?.getD 0 == 45) = false := by simpa using c3
      exact ⟨_, by
        simp [cleanStmts, goappendFloat, i4, i3, i2, i1, j1, t4, t3, t2, t1, g4, g3, g2, g1, c4, c3, c3']
        rfl⟩
  · have c4' : (all[all.size - 4]?.getD 0 == 101) = false := by simpa using c4
    exact ⟨_, by
      simp [cleanStmts, goappendFloat, i4, i3, i2, i1, j1, t4, t3, t2, t1, g4, g3, g2, g1, c4, c4']
      rfl⟩

/-- the test `(abs >= 1e-6 && abs < 1e21) || abs == 0` of the model -/
def inRange (bits : UInt64) : Bool :=
  (decide (absOf bits ≥ loBits) && decide (absOf bits < hiBits)) || absOf bits == 0

theorem nonFin_fin (dst : Bytes) (bits : UInt64) (fuel : Nat) (tape : Array UInt64) (hfin : F64.isFinite bits = true) :
    exec1 goFuns fuel nonFinStmt ⟨[("dst", .bytes dst), ("f", .u64 bits)], tape⟩ =
      .normal ⟨[("dst", .bytes dst), ("f", .u64 bits)], tape⟩ := by
  obtain ⟨h1, h2⟩ := fin_facts bits hfin
  simp only [absOf, gt_iff_lt] at h1 h2
  simp [nonFinStmt, h1, h2]

theorem nonFin_nonfin (dst : Bytes) (bits : UInt64) (fuel : Nat) (tape : Array UInt64)
    (hfin : F64.isFinite bits = false) :
    exec1 goFuns fuel nonFinStmt ⟨[("dst", .bytes dst), ("f", .u64 bits)], tape⟩ =
      .ret ⟨[("dst", .bytes dst), ("f", .u64 bits)], tape⟩ [.bytes #[], .bool true] := by
  rcases nonfin_facts bits hfin with h1 | ⟨h1, h2⟩
  · simp only [absOf] at h1
    simp [nonFinStmt, h1]
  · simp only [absOf, gt_iff_lt] at h1 h2
    simp [nonFinStmt, h1, h2]

theorem rangeCond_eval (dst : Bytes) (bits : UInt64) (tape : Array UInt64) (hfin : F64.isFinite bits = true) :
    evalE ⟨[("dst", .bytes dst), ("f", .u64 bits), ("abs", .u64 (absOf bits))], tape⟩ rangeCond =
      .val (.bool (inRange bits)) := by
  have hx := (isFinite_iff bits).1 hfin
  rw [exOf_eq] at hx
  have ha : (absOf bits).toNat ≤ 0x7ff0000000000000 := by rw [absOf_toNat]; omega
  obtain ⟨l1, -, -⟩ := fcmpBits_pos (absOf bits) 4517329193108106637 ha (by decide)
  obtain ⟨-, l2, -⟩ := fcmpBits_pos (absOf bits) 4921056587992461136 ha (by decide)
  obtain ⟨-, -, l3⟩ := fcmpBits_pos (absOf bits) 0 ha (by decide)
  unfold inRange
  rw [loBits_eq, hiBits_eq]
  generalize h1 : decide (absOf bits ≥ 4517329193108106637) = b1 at l1 ⊢
  generalize h2 : decide (absOf bits < 4921056587992461136) = b2 at l2 ⊢
  generalize h3 : (absOf bits == 0) = b3 at l3 ⊢
  cases b1 <;> cases b2 <;> cases b3 <;> simp [rangeCond, l1, l2, l3]

theorem abs_exec (dst : Bytes) (bits : UInt64) (fuel : Nat) (tape : Array UInt64) :
    exec1 goFuns fuel absStmt ⟨[("dst", .bytes dst), ("f", .u64 bits)], tape⟩ =
      .normal ⟨[("dst", .bytes dst), ("f", .u64 bits), ("abs", .u64 (absOf bits))], tape⟩ := by
  simp [absStmt, absOf]

/-- fuel for `appendFloat(dst, f)`: none on the `'e'` path and for Inf/NaN; on the `'f'` path the two calls and the
    longer loop of `fmtF` -/
def floatFuel (bits : UInt64) : Nat := if inRange bits then affFuel bits + 1 else 0

/-- the `'f'` path -/
theorem appendFloat_F (dst : Bytes) (bits : UInt64) (fuel : Nat) (tape : Array UInt64)
    (hfin : F64.isFinite bits = true) (hr : inRange bits = true) (hf : affFuel bits + 1 ≤ fuel) :
    ∃ e', exec goFuns fuel goappendFloat.body ⟨[("dst", .bytes dst), ("f", .u64 bits)], tape⟩ =
      .ret ⟨e', tape⟩ [.bytes (dst ++ FloatFmt.fmtF ((bits >>> 63) != 0) (shortest (absOf bits))), .bool false] := by
  obtain ⟨f, rfl⟩ : ∃ f, fuel = f + 1 := ⟨fuel - 1, by omega⟩
  obtain ⟨e', hc⟩ := callFun_appendFloatF ⟨[("dst", .bytes dst), ("f", .u64 bits), ("abs", .u64 (absOf bits))], tape⟩ f
    (.v "dst") (.v "f") dst bits (by simp) (by simp) (by simp) (by simp) (by omega)
  simp only [] at hc
  refine ⟨e'.set "#c1" (.bytes (dst ++ FloatFmt.fmtF ((bits >>> 63) != 0) (shortest (absOf bits)))), ?_⟩
  rw [af_body]
  simp only [List.cons_append, List.nil_append]
  rw [exec, nonFin_fin dst bits _ tape hfin]
  simp only []
  rw [exec, abs_exec]
  simp only []
  rw [exec, fStmt, exec1, rangeCond_eval dst bits tape hfin, hr]
  simp only []
  rw [exec, exec1, hc]
  simp [assignTargets, Env.get_set]

/-- the `'e'` path -/
theorem appendFloat_E (dst : Bytes) (bits : UInt64) (fuel : Nat) (tape : Array UInt64)
    (hfin : F64.isFinite bits = true) (hr : inRange bits = false) :
    ∃ e', exec goFuns fuel goappendFloat.body ⟨[("dst", .bytes dst), ("f", .u64 bits)], tape⟩ =
      .ret ⟨e', tape⟩
        [.bytes (dst ++ cleanExp (fmtE ((bits >>> 63) != 0) (shortest (absOf bits)))), .bool false] := by
  obtain ⟨e', hc⟩ := clean_exec fuel tape (dst ++ fmtE ((bits >>> 63) != 0) (shortest (absOf bits))) bits (absOf bits)
    (by have := fmtE_size ((bits >>> 63) != 0) (shortest (absOf bits)); simp; omega)
  rw [goClean_append _ _ (fmtE_size _ _)] at hc
  refine ⟨e', ?_⟩
  rw [af_body]
  simp only [List.cons_append, List.nil_append]
  rw [exec, nonFin_fin dst bits _ tape hfin]
  simp only []
  rw [exec, abs_exec]
  simp only []
  rw [exec, fStmt, exec1, rangeCond_eval dst bits tape hfin, hr]
  have he : exec1 goFuns fuel eStmt ⟨[("dst", .bytes dst), ("f", .u64 bits), ("abs", .u64 (absOf bits))], tape⟩ =
      .normal ⟨[("dst", .bytes (dst ++ fmtE ((bits >>> 63) != 0) (shortest (absOf bits)))), ("f", .u64 bits),
        ("abs", .u64 (absOf bits))], tape⟩ := by
    simp [eStmt, extCall, assignTargets, absOf]
  simp only [exec, he]
  exact hc

end af

/-- enough fuel for `appendFloat(dst, f)` (an explicit function of the bits; the buffer does not matter) -/
def fuelOK (fuel : Nat) (bits : UInt64) : Prop := floatFuel bits ≤ fuel

instance (fuel : Nat) (bits : UInt64) : Decidable (fuelOK fuel bits) := by unfold fuelOK; infer_instance

theorem appendFloat_none_iff (bits : UInt64) : FloatFmt.appendFloat bits = none ↔ F64.isFinite bits = false := by
  unfold FloatFmt.appendFloat
  cases F64.isFinite bits <;> simp
  split <;> simp

/-- the model's branch condition is `inRange` -/
theorem appendFloat_model (bits : UInt64) (hfin : F64.isFinite bits = true) :
    FloatFmt.appendFloat bits = some
      (if inRange bits then FloatFmt.fmtF ((bits >>> 63) != 0) (shortest (absOf bits))
       else cleanExp (fmtE ((bits >>> 63) != 0) (shortest (absOf bits)))) := by
  unfold FloatFmt.appendFloat inRange absOf
  simp only [hfin, Bool.not_true, Bool.false_eq_true, if_false]
  split <;> rfl

/-- **`appendFloat`**: the hand model `FloatFmt.appendFloat` is the meaning of the translated source — for every
    buffer, every float64 (by its bits), every tape and every fuel of at least `floatFuel bits`, the interpreter
    returns (never panics, is never stuck, does not run out of fuel) `dst ++ b, nil` when the model says `some b`
    and `nil, err` when it says `none` (Inf, NaN); the tape is untouched. -/
theorem go_floatfmt_source_tie (dst : Bytes) (bits : UInt64) (fuel : Nat) (tape : Array UInt64)
    (hf : fuelOK fuel bits) :
    (∀ b, FloatFmt.appendFloat bits = some b →
       ∃ s, runFun goFuns goappendFloat fuel ⟨[("dst", .bytes dst), ("f", .u64 bits)], tape⟩ =
         .ret s [.bytes (dst ++ b), .bool false] ∧ s.tape = tape) ∧
    (FloatFmt.appendFloat bits = none →
       ∃ s, runFun goFuns goappendFloat fuel ⟨[("dst", .bytes dst), ("f", .u64 bits)], tape⟩ =
         .ret s [.bytes #[], .bool true] ∧ s.tape = tape) := by
  constructor
  · intro b hb
    have hfin : F64.isFinite bits = true := by
      cases h : F64.isFinite bits
      · rw [(appendFloat_none_iff bits).2 h] at hb; cases hb
      · rfl
    rw [appendFloat_model bits hfin] at hb
    simp only [Option.some.injEq] at hb
    subst hb
    unfold fuelOK floatFuel at hf
    cases hr : inRange bits
    · obtain ⟨e', h⟩ := appendFloat_E dst bits fuel tape hfin hr
      exact ⟨⟨e', tape⟩, by rw [runFun, h]; simp, rfl⟩
    · rw [hr] at hf
      obtain ⟨e', h⟩ := appendFloat_F dst bits fuel tape hfin hr (by simpa using hf)
      exact ⟨⟨e', tape⟩, by rw [runFun, h]; simp, rfl⟩
  · intro hn
    have hfin := (appendFloat_none_iff bits).1 hn
    refine ⟨⟨[("dst", .bytes dst), ("f", .u64 bits)], tape⟩, ?_, rfl⟩
    rw [runFun, af_body]
    simp only [List.cons_append, List.nil_append]
    rw [exec, nonFin_nonfin dst bits fuel tape hfin]

end SJ.GoFloatFmt
