import SJ.Proofs.F64Round
import SJ.Proofs.SourceLevelF
set_option autoImplicit false
/-
C18, the word "shortest": the digit string of `FloatFmt.shortest` has at most 17 digits, NO decimal with fewer
significant digits rounds (`F64.roundDecimal`) to the float, and among the decimals with that many digits that round to
the float the one chosen is the closest to the exact value, ties to the even digit. Nothing is left open.

 1. `floorLog10_lt`, `floorLog10_lt'`   : `v/b < 10^(floorLog10 v b + 1)` (with `floorLog10_ge`: it IS `⌊log10⌋`).
 2. `compare_shift`, `lt_shift`, …      : zeros move between mantissa and exponent in the scaled comparisons.
 3. `candidates_split` (step c)         : a multiple of `10^k` inside the interval ⟹ the neighbour of the value on that side is.
    `pow_inside`, `round_of_inside` (step b) : a decimal with ≤ m digits inside the interval, at ANY exponent, makes one of the
                                          rounds 1…m succeed (boundary case: the interval straddles `10^⌊log10 v⌋`).
 4. `pick_digits_le`                    : round `n` returns at most `n` digits (`10^n` ↦ `1`).
 5. `go_first`, `shortestFrom_first`    : the round that returns is the FIRST round whose `pick` is not `none`, and it is ≤ 17.
 6. `shortestFrom_length`, `length_le_of_inside`.
 7. `nearest_inside`, `inside_of_roundDecimal` (step a), `roundDecimal_iff_inside` : correctly rounded to the float ⟺ inside
    the rounding interval (converse of `C18_inside_rounds`; from `roundDecimal_nearest_pos`, i.e. nearest-even over ℚ,
    with the upper neighbour of the largest finite float taken in the exponent-unbounded superset of `NearestAt`).
 8. `shortest_le_17`, `shortest_minimal`, `shortest_le_of_rounds`.
 9. `pickAt_rule`, `pick_closest`       : the candidate returned is the closest multiple of the round's `10^k` inside, ties to even.
10. `shortestFrom_closest`, `closest_among_shortest`, `shortest_no_trailing_zero`.
11. `C18_source_minimal`                : composed with the `appendFloat` source tie (`C18_source_shortest`).
-/
namespace SJ.ShortestMinimal
open SJ SJ.F64 SJ.Numeric SJ.FloatFmt SJ.FloatFmtProofs SJ.F64Round

/-! ## 1. `floorLog10` from above -/

theorem not_geP_est (a b : Nat) (ha : a ≠ 0) (hb : b ≠ 0) :
    ¬ geP a b ((numDigits a : Int) - (numDigits b : Int) + 1) := by
  obtain ⟨_, _, a3⟩ := numDigits_bounds a ha
  obtain ⟨b1, b2, _⟩ := numDigits_bounds b hb
  unfold geP
  generalize hr : (numDigits a : Int) - (numDigits b : Int) + 1 = r
  intro h
  have h1 : 10 ^ (numDigits b - 1) * 10 ^ r.toNat ≤ b * 10 ^ r.toNat := Nat.mul_le_mul_right _ b2
  have h2 : a * 10 ^ (-r).toNat < 10 ^ numDigits a * 10 ^ (-r).toNat :=
    Nat.mul_lt_mul_of_pos_right a3 (ten_pow_pos _)
  have h3 := Nat.lt_of_le_of_lt (Nat.le_trans h1 h) h2
  rw [← Nat.pow_add, ← Nat.pow_add] at h3
  have := (Nat.pow_lt_pow_iff_right (by decide : 1 < 10)).mp h3
  omega

/-- `a/b < 10^(floorLog10 a b + 1)`: with `floorLog10_ge`, `floorLog10 a b = ⌊log10 (a/b)⌋`. -/
theorem floorLog10_lt (a b : Nat) (ha : a ≠ 0) (hb : b ≠ 0) : ¬ geP a b (floorLog10 a b + 1) := by
  rw [floorLog10_eq]
  by_cases h1 : geB a b ((numDigits a : Int) - (numDigits b : Int) + 1) = true
  · exact absurd ((geB_iff _ _ _).mp h1) (not_geP_est a b ha hb)
  · rw [if_neg h1]
    by_cases h2 : geB a b ((numDigits a : Int) - (numDigits b : Int)) = true
    · rw [if_pos h2]
      intro h; exact h1 ((geB_iff _ _ _).mpr h)
    · rw [if_neg h2]
      intro h
      apply h2
      apply (geB_iff _ _ _).mpr
      have e : (numDigits a : Int) - (numDigits b : Int) - 1 + 1 = (numDigits a : Int) - (numDigits b : Int) := by
        omega
      rw [e] at h; exact h

/-- the upper bound in the form the task asks for: `v·10^(-(r+1)) < b·10^(r+1)` with `r = floorLog10 v b` -/
theorem floorLog10_lt' (a b : Nat) (ha : a ≠ 0) (hb : b ≠ 0) :
    a * 10 ^ (-(floorLog10 a b + 1)).toNat < b * 10 ^ (floorLog10 a b + 1).toNat := by
  have := floorLog10_lt a b ha hb
  unfold geP at this
  omega

/-! ## 2. Moving zeros between the digits and the exponent, in comparisons -/

theorem compare_shift (d z : Nat) (k : Int) (x b : Nat) :
    compare (d * 10 ^ z * 10 ^ k.toNat * b) (x * 10 ^ (-k).toNat) =
      compare (d * 10 ^ (k + z).toNat * b) (x * 10 ^ (-(k + z)).toNat) := by
  rw [← cmpScaled_eq, ← cmpScaled_eq, cmpScaled_shift]

theorem lt_shift (d z : Nat) (k : Int) (x b : Nat) :
    d * 10 ^ z * 10 ^ k.toNat * b < x * 10 ^ (-k).toNat ↔
      d * 10 ^ (k + z).toNat * b < x * 10 ^ (-(k + z)).toNat := by
  rw [← Nat.compare_eq_lt, ← Nat.compare_eq_lt, compare_shift]

theorem gt_shift (d z : Nat) (k : Int) (x b : Nat) :
    x * 10 ^ (-k).toNat < d * 10 ^ z * 10 ^ k.toNat * b ↔
      x * 10 ^ (-(k + z)).toNat < d * 10 ^ (k + z).toNat * b := by
  rw [← Nat.compare_eq_gt, ← Nat.compare_eq_gt, compare_shift]

theorem le_shift (d z : Nat) (k : Int) (x b : Nat) :
    d * 10 ^ z * 10 ^ k.toNat * b ≤ x * 10 ^ (-k).toNat ↔
      d * 10 ^ (k + z).toNat * b ≤ x * 10 ^ (-(k + z)).toNat := by
  have := gt_shift d z k x b
  omega

/-! ## 3. One round of the search -/

section Float
variable (ex fr : Nat)

/-- numerators over the denominator `2^bjOf ex` -/
abbrev Vn : Nat := 4 * mantOf ex fr * 2 ^ shOf ex
abbrev Bn : Nat := 2 ^ bjOf ex
abbrev insideF : Nat → Int → Bool := insideB (mantOf ex fr) (expOf ex) (lcOf ex fr)
/-- `⌊log10 v⌋` -/
abbrev L10 : Int := floorLog10 (Vn ex fr) (Bn ex)
/-- the scale of round `n`: candidates have `n` digits -/
abbrev kOf (n : Nat) : Int := L10 ex fr - ((n - 1 : Nat) : Int)

theorem Vn_ne (hne : mantOf ex fr ≠ 0) : Vn ex fr ≠ 0 :=
  Nat.mul_ne_zero (by omega) (by have := two_pow_pos (shOf ex); omega)
theorem Bn_ne : Bn ex ≠ 0 := by have := two_pow_pos (bjOf ex); unfold Bn; omega

/-- the interval ends around the value, at any scale -/
theorem lo_lt_v_lt_hi (hne : mantOf ex fr ≠ 0) (Q : Nat) (hQ : 0 < Q) :
    loNum ex fr * 2 ^ shOf ex * Q < 4 * mantOf ex fr * 2 ^ shOf ex * Q ∧
    4 * mantOf ex fr * 2 ^ shOf ex * Q < hiNum ex fr * 2 ^ shOf ex * Q := by
  have hS := two_pow_pos (shOf ex)
  have h1 : loNum ex fr < 4 * mantOf ex fr := by unfold loNum; split <;> omega
  have h2 : 4 * mantOf ex fr < hiNum ex fr := by unfold hiNum; omega
  exact ⟨Nat.mul_lt_mul_of_pos_right (Nat.mul_lt_mul_of_pos_right h1 hS) hQ,
    Nat.mul_lt_mul_of_pos_right (Nat.mul_lt_mul_of_pos_right h2 hS) hQ⟩

/-- **Step (c).** If a positive multiple `X·10^k` passes the interval test, then so does the multiple of `10^k` next to the
    value on the same side — one of the two candidates of the search at that scale. -/
theorem candidates_split (hne : mantOf ex fr ≠ 0) (X : Nat) (k : Int) (hX : 0 < X)
    (h : insideF ex fr X k = true) :
    (X ≤ d0At (Bn ex) (Vn ex fr) k →
      0 < d0At (Bn ex) (Vn ex fr) k ∧ insideF ex fr (d0At (Bn ex) (Vn ex fr) k) k = true) ∧
    (d0At (Bn ex) (Vn ex fr) k < X → insideF ex fr (d0At (Bn ex) (Vn ex fr) k + 1) k = true) := by
  obtain ⟨hd1, hd2⟩ := d0At_spec (Bn ex) (Vn ex fr) k (two_pow_pos _)
  obtain ⟨hlv, hvh⟩ := lo_lt_v_lt_hi ex fr hne (10 ^ (-k).toNat) (ten_pow_pos _)
  unfold insideF at *
  rw [insideB_iff] at h
  rw [insideB_iff, insideB_iff]
  generalize d0At (Bn ex) (Vn ex fr) k = d0 at *
  unfold Vn Bn at *
  constructor
  · intro hc
    have hm : X * 10 ^ k.toNat * 2 ^ bjOf ex ≤ d0 * 10 ^ k.toNat * 2 ^ bjOf ex :=
      Nat.mul_le_mul_right _ (Nat.mul_le_mul_right _ hc)
    refine ⟨by omega, ?_⟩
    generalize d0 * 10 ^ k.toNat * 2 ^ bjOf ex = A at *
    generalize X * 10 ^ k.toNat * 2 ^ bjOf ex = XX at *
    omega
  · intro hc
    have hm : (d0 + 1) * 10 ^ k.toNat * 2 ^ bjOf ex ≤ X * 10 ^ k.toNat * 2 ^ bjOf ex :=
      Nat.mul_le_mul_right _ (Nat.mul_le_mul_right _ hc)
    generalize (d0 + 1) * 10 ^ k.toNat * 2 ^ bjOf ex = A at *
    generalize X * 10 ^ k.toNat * 2 ^ bjOf ex = XX at *
    omega

theorem candidates_of_inside (hne : mantOf ex fr ≠ 0) (X : Nat) (k : Int) (hX : 0 < X)
    (h : insideF ex fr X k = true) :
    (0 < d0At (Bn ex) (Vn ex fr) k ∧ insideF ex fr (d0At (Bn ex) (Vn ex fr) k) k = true) ∨
      insideF ex fr (d0At (Bn ex) (Vn ex fr) k + 1) k = true := by
  obtain ⟨c1, c2⟩ := candidates_split ex fr hne X k hX h
  rcases Nat.lt_or_ge (d0At (Bn ex) (Vn ex fr) k) X with hc | hc
  · exact Or.inr (c2 hc)
  · exact Or.inl (c1 hc)

theorem pick_of_inside (hne : mantOf ex fr ≠ 0) (X : Nat) (k : Int) (hX : 0 < X)
    (h : insideF ex fr X k = true) : ∃ d, pickAt (Bn ex) (Vn ex fr) (insideF ex fr) k = some d :=
  pickAt_complete _ _ _ _ (candidates_of_inside ex fr hne X k hX h)

/-- the first candidate of round `n` has at most `n` digits -/
theorem d0At_lt (hne : mantOf ex fr ≠ 0) (n : Nat) (hn : 1 ≤ n) :
    d0At (Bn ex) (Vn ex fr) (kOf ex fr n) < 10 ^ n := by
  obtain ⟨hd1, _⟩ := d0At_spec (Bn ex) (Vn ex fr) (kOf ex fr n) (two_pow_pos _)
  have hup := floorLog10_lt' (Vn ex fr) (Bn ex) (Vn_ne ex fr hne) (Bn_ne ex)
  apply Nat.lt_of_not_le
  intro hc
  have hm : 1 * 10 ^ n * 10 ^ (kOf ex fr n).toNat * Bn ex ≤
      d0At (Bn ex) (Vn ex fr) (kOf ex fr n) * 10 ^ (kOf ex fr n).toNat * Bn ex := by
    rw [Nat.one_mul]; exact Nat.mul_le_mul_right _ (Nat.mul_le_mul_right _ hc)
  have h2 := (le_shift 1 n (kOf ex fr n) (Vn ex fr) (Bn ex)).mp (Nat.le_trans hm hd1)
  have e : kOf ex fr n + (n : Int) = floorLog10 (Vn ex fr) (Bn ex) + 1 := by unfold kOf L10; omega
  rw [e, Nat.one_mul] at h2
  rw [Nat.mul_comm] at h2
  omega

/-- the boundary case of step (b): a decimal inside the interval but below `10^⌊log10 v⌋` (fewer than `⌊log10 v⌋ − k + 1`
    digits at its exponent `k`) — the interval straddles that power of ten, which is therefore inside -/
theorem pow_inside (hne : mantOf ex fr ≠ 0) (X : Nat) (k : Int) (m : Nat) (hXm : X < 10 ^ m)
    (hkm : k + (m : Int) ≤ L10 ex fr) (h : insideF ex fr X k = true) : insideF ex fr 1 (L10 ex fr) = true := by
  obtain ⟨z, hz⟩ : ∃ z : Nat, L10 ex fr = k + z := ⟨(L10 ex fr - k).toNat, by omega⟩
  have hzm : m ≤ z := by omega
  have hge := floorLog10_ge (Vn ex fr) (Bn ex) (Vn_ne ex fr hne) (Bn_ne ex)
  unfold geP at hge
  have hge' : 1 * 10 ^ (k + (z : Int)).toNat * Bn ex ≤ Vn ex fr * 10 ^ (-(k + (z : Int))).toNat := by
    rw [← hz, Nat.one_mul, Nat.mul_comm]; exact hge
  have hup := (le_shift 1 z k (Vn ex fr) (Bn ex)).mpr hge'
  obtain ⟨_, hvh⟩ := lo_lt_v_lt_hi ex fr hne (10 ^ (-k).toNat) (ten_pow_pos _)
  have hXz : X < 1 * 10 ^ z := by
    rw [Nat.one_mul]
    exact Nat.lt_of_lt_of_le hXm (Nat.pow_le_pow_right (by decide) hzm)
  have hlow : X * 10 ^ k.toNat * 2 ^ bjOf ex < 1 * 10 ^ z * 10 ^ k.toNat * 2 ^ bjOf ex :=
    Nat.mul_lt_mul_of_pos_right (Nat.mul_lt_mul_of_pos_right hXz (ten_pow_pos _)) (two_pow_pos _)
  unfold insideF at *
  rw [hz, ← insideB_shift, insideB_iff]
  rw [insideB_iff] at h
  unfold Vn Bn at *
  generalize 1 * 10 ^ z * 10 ^ k.toNat * 2 ^ bjOf ex = A at *
  generalize X * 10 ^ k.toNat * 2 ^ bjOf ex = XX at *
  omega

/-- **Step (b).** A decimal `X·10^k` with at most `m` significant digits (`0 < X < 10^m`, any exponent `k`) that passes the
    interval test makes one of the rounds `1 … m` of the search succeed: round `⌊log10 v⌋ − k + 1` if that is in `1 … m`;
    otherwise `X·10^k` and the value lie on different sides of a power of ten (`10^⌊log10 v⌋` or a multiple of it), which
    is then inside the interval too, and round 1 succeeds. -/
theorem round_of_inside (hne : mantOf ex fr ≠ 0) (X : Nat) (k : Int) (m : Nat) (hX : 0 < X) (hXm : X < 10 ^ m)
    (h : insideF ex fr X k = true) :
    ∃ n, 1 ≤ n ∧ n ≤ m ∧ ∃ d, pickAt (Bn ex) (Vn ex fr) (insideF ex fr) (kOf ex fr n) = some d := by
  have hm : 1 ≤ m := by
    rcases Nat.eq_zero_or_pos m with h0 | h0
    · subst h0; simp at hXm; omega
    · exact h0
  have hk1 : kOf ex fr 1 = L10 ex fr := by unfold kOf; simp
  by_cases hA : L10 ex fr ≤ k
  · -- the decimal is a multiple of `10^⌊log10 v⌋`
    obtain ⟨z, hz⟩ : ∃ z : Nat, k = L10 ex fr + z := ⟨(k - L10 ex fr).toNat, by omega⟩
    refine ⟨1, Nat.le_refl _, hm, ?_⟩
    rw [hk1]
    apply pick_of_inside ex fr hne (X * 10 ^ z) _ (Nat.mul_pos hX (ten_pow_pos _))
    unfold insideF at *
    rw [insideB_shift, ← hz]; exact h
  · by_cases hB : L10 ex fr - k + 1 ≤ m
    · refine ⟨(L10 ex fr - k + 1).toNat, by omega, by omega, ?_⟩
      have e : kOf ex fr (L10 ex fr - k + 1).toNat = k := by unfold kOf; omega
      rw [e]
      exact pick_of_inside ex fr hne X k hX h
    · -- `X·10^k < 10^⌊log10 v⌋ ≤ v`: the power of ten is inside
      refine ⟨1, Nat.le_refl _, hm, ?_⟩
      rw [hk1]
      exact pick_of_inside ex fr hne 1 _ (by decide) (pow_inside ex fr hne X k m hXm (by omega) h)

/-! ## 4. Number of digits of a candidate -/

theorem rawDigits_ten_pow (n : Nat) : rawDigits (10 ^ n) = 1 :: List.replicate n 0 := by
  induction n with
  | zero => exact rawDigits_lt 1 (by decide)
  | succ n ih =>
    have h10 : 10 ≤ 10 ^ (n + 1) := by
      have := ten_pow_pos n
      rw [Nat.pow_succ]; omega
    rw [rawDigits_ge _ h10]
    have e1 : 10 ^ (n + 1) / 10 = 10 ^ n := by rw [Nat.pow_succ]; exact Nat.mul_div_cancel _ (by decide)
    have e2 : 10 ^ (n + 1) % 10 = 0 := by rw [Nat.pow_succ]; exact Nat.mul_mod_left _ _
    rw [e1, e2, ih, List.replicate_succ', List.cons_append]

theorem dropWhile_zeros (n : Nat) (l : List Nat) :
    (List.replicate n 0 ++ l).dropWhile (· == 0) = l.dropWhile (· == 0) := by
  induction n with
  | zero => rfl
  | succ n ih => rw [List.replicate_succ, List.cons_append, List.dropWhile_cons]; simp [ih]

theorem strip_ten_pow (n : Nat) : stripTrailingZeros (1 :: List.replicate n 0) = [1] := by
  unfold stripTrailingZeros
  rw [List.reverse_cons, List.reverse_replicate, dropWhile_zeros]
  rfl

theorem strip_length_le (ds : List Nat) : (stripTrailingZeros ds).length ≤ ds.length := by
  obtain ⟨z, hz⟩ := strip_spec ds
  have := congrArg List.length hz
  simp only [List.length_append, List.length_replicate] at this
  omega

/-- a positive `d ≤ 10^n` (`n ≥ 1`) has, once its trailing zeros are stripped, at most `n` digits -/
theorem strip_digits_le (d n : Nat) (hd : 0 < d) (hn : 1 ≤ n) (h : d ≤ 10 ^ n) :
    (stripTrailingZeros (digitsOf d)).length ≤ n := by
  rw [digitsOf_eq d (by omega)]
  rcases Nat.lt_or_ge d (10 ^ n) with hlt | hge
  · have h1 := strip_length_le (rawDigits d)
    rw [rawDigits_length] at h1
    have h2 : numDigits d ≤ n := (Nat.length_toDigits_le_iff (b := 10) (n := d) (k := n) (by decide) hn).mpr hlt
    omega
  · have e : d = 10 ^ n := by omega
    rw [e, rawDigits_ten_pow, strip_ten_pow]
    exact hn

/-- what one round returns is one of its two candidates -/
theorem pickAt_mem (b v : Nat) (inside : Nat → Int → Bool) (k : Int) (d : Nat)
    (h : pickAt b v inside k = some d) : d = d0At b v k ∨ d = d0At b v k + 1 := by
  unfold pickAt at h
  simp only [] at h
  generalize d0At b v k = d0 at h
  repeat' split at h
  all_goals (cases h <;> first | exact Or.inl rfl | exact Or.inr rfl)

/-- the digit string produced by round `n` has at most `n` digits -/
theorem pick_digits_le (hne : mantOf ex fr ≠ 0) (n d : Nat) (hn : 1 ≤ n)
    (h : pickAt (Bn ex) (Vn ex fr) (insideF ex fr) (kOf ex fr n) = some d) :
    (stripTrailingZeros (digitsOf d)).length ≤ n := by
  obtain ⟨hd, _⟩ := pickAt_sound _ _ _ _ _ h
  have hlt := d0At_lt ex fr hne n hn
  apply strip_digits_le d n hd hn
  rcases pickAt_mem _ _ _ _ _ h with e | e <;> omega

/-! ## 5. The loop: the round that returns is the FIRST round with a candidate inside -/

theorem go_first (b v : Nat) (inside : Nat → Int → Bool) (l10 : Int)
    (h17 : ∃ d, pickAt b v inside (l10 - 16) = some d) :
    ∀ fuel n, n ≤ 17 → 17 < n + fuel → 1 ≤ n →
      ∃ N d, n ≤ N ∧ N ≤ 17 ∧
        (∀ j, n ≤ j → j < N → pickAt b v inside (l10 - ((j - 1 : Nat) : Int)) = none) ∧
        pickAt b v inside (l10 - ((N - 1 : Nat) : Int)) = some d ∧
        shortestFrom.go b v inside l10 n fuel =
          { digits := stripTrailingZeros (digitsOf d), dp := (l10 - ((N - 1 : Nat) : Int)) + (digitsOf d).length } := by
  intro fuel
  induction fuel with
  | zero => intro n h1 h2; omega
  | succ fuel ih =>
    intro n h1 h2 h3
    rw [go_succ]
    cases hp : pickAt b v inside (l10 - (n - 1 : Nat)) with
    | some d =>
      exact ⟨n, d, Nat.le_refl _, h1, fun j a b => by omega, hp, rfl⟩
    | none =>
      have hn : n ≠ 17 := by
        intro h; subst h
        obtain ⟨d, hd⟩ := h17
        have : (l10 - ((17 - 1 : Nat) : Int)) = l10 - 16 := by omega
        rw [this, hd] at hp; cases hp
      obtain ⟨N, d, a1, a2, a3, a4, a5⟩ := ih (n + 1) (by omega) (by omega) (by omega)
      refine ⟨N, d, by omega, a2, ?_, a4, a5⟩
      intro j j1 j2
      rcases Nat.eq_or_lt_of_le j1 with e | e
      · rw [← e]; exact hp
      · exact a3 j (by omega) j2

/-- `shortestFrom` on the float `(ex, fr)`: the round `N ≤ 17` that produced the digits, and every earlier round failed -/
theorem shortestFrom_first (hfr : fr < 2 ^ 52) (hne : mantOf ex fr ≠ 0) :
    ∃ N d, 1 ≤ N ∧ N ≤ 17 ∧
      (∀ j, 1 ≤ j → j < N → pickAt (Bn ex) (Vn ex fr) (insideF ex fr) (kOf ex fr j) = none) ∧
      pickAt (Bn ex) (Vn ex fr) (insideF ex fr) (kOf ex fr N) = some d ∧
      shortestFrom (mantOf ex fr) (expOf ex) (lcOf ex fr) =
        { digits := stripTrailingZeros (digitsOf d), dp := kOf ex fr N + (digitsOf d).length } := by
  have h17 := round17 ex fr hfr hne
  rw [shortestFrom_eq]
  rw [bOfE_eq, vOfE_eq'] at h17 ⊢
  exact go_first _ _ _ _ h17 18 1 (by omega) (by omega) (by omega)

/-! ## 6. At most 17 digits; nothing shorter is inside the interval -/

theorem shortestFrom_length (hfr : fr < 2 ^ 52) (hne : mantOf ex fr ≠ 0) :
    1 ≤ (shortestFrom (mantOf ex fr) (expOf ex) (lcOf ex fr)).digits.length ∧
    (shortestFrom (mantOf ex fr) (expOf ex) (lcOf ex fr)).digits.length ≤ 17 := by
  constructor
  · have := (shortestFrom_inside ex fr hfr hne).1.ne
    exact List.length_pos_iff.mpr this
  · obtain ⟨N, d, n1, n2, _, hp, hs⟩ := shortestFrom_first ex fr hfr hne
    rw [hs]
    exact Nat.le_trans (pick_digits_le ex fr hne N d n1 hp) n2

/-- **Minimality, on the interval test.** A decimal `X·10^k` (any exponent) with at most `m` significant digits that
    lies inside the rounding interval forces the search to stop with at most `m` digits. -/
theorem length_le_of_inside (hfr : fr < 2 ^ 52) (hne : mantOf ex fr ≠ 0) (X : Nat) (k : Int) (m : Nat)
    (hX : 0 < X) (hXm : X < 10 ^ m) (h : insideF ex fr X k = true) :
    (shortestFrom (mantOf ex fr) (expOf ex) (lcOf ex fr)).digits.length ≤ m := by
  obtain ⟨N, d, n1, n2, hnone, hp, hs⟩ := shortestFrom_first ex fr hfr hne
  obtain ⟨n, m1, m2, d', hd'⟩ := round_of_inside ex fr hne X k m hX hXm h
  have hNn : N ≤ n := by
    apply Nat.le_of_not_lt
    intro hc
    rw [hnone n m1 hc] at hd'; cases hd'
  rw [hs]
  exact Nat.le_trans (pick_digits_le ex fr hne N d n1 hp) (Nat.le_trans hNn m2)

end Float

/-! ## 7. Step (a): a decimal that rounds to the float lies inside its rounding interval -/

theorem value_scaled (c : Nat) (e : Int) :
    value false c e * ((2 ^ (-e).toNat : Nat) : Rat) = ((c * 2 ^ e.toNat : Nat) : Rat) := by
  unfold value
  simp only [Bool.false_eq_true, if_false]
  by_cases he : 0 ≤ e
  · have h1 : (-e).toNat = 0 := by omega
    rw [h1, two_zpow_of_nonneg e he, Rat.natCast_mul]; simp
  · have he' : e < 0 := by omega
    have h1 : (-e).toNat = e.natAbs := by omega
    have h2 : e.toNat = 0 := by omega
    rw [h1, h2, Rat.mul_assoc, two_zpow_of_neg e he']; simp

theorem decValue_scaled (d : Nat) (k : Int) :
    F64Round.decValue false d k * ((10 ^ (-k).toNat : Nat) : Rat) = ((d * 10 ^ k.toNat : Nat) : Rat) := by
  by_cases hk : 0 ≤ k
  · have h1 : (-k).toNat = 0 := by omega
    unfold F64Round.decValue
    simp only [Bool.false_eq_true, if_false]
    rw [h1, ten_zpow_of_nonneg k hk, Rat.natCast_mul]; simp
  · have hk' : k < 0 := by omega
    have h1 : (-k).toNat = k.natAbs := by omega
    have h2 : k.toNat = 0 := by omega
    rw [h1, h2, decValue_mul_pow d k hk']; simp

/-- comparison of the decimal `d·10^k` with `c·2^(expOf ex − 2)`, in the integers `insideB_iff` speaks of -/
theorem dec_lt_value (ex d c : Nat) (k : Int) :
    F64Round.decValue false d k < value false c (expOf ex - 2) ↔
      d * 10 ^ k.toNat * 2 ^ bjOf ex < c * 2 ^ shOf ex * 10 ^ (-k).toNat := by
  have hv := value_scaled c (expOf ex - 2)
  have e1 : (-(expOf ex - 2)).toNat = bjOf ex := by unfold bjOf; omega
  rw [e1] at hv
  exact cross_lt (ten_pow_pos _) (two_pow_pos _) (decValue_scaled d k) hv

theorem value_lt_dec (ex d c : Nat) (k : Int) :
    value false c (expOf ex - 2) < F64Round.decValue false d k ↔
      c * 2 ^ shOf ex * 10 ^ (-k).toNat < d * 10 ^ k.toNat * 2 ^ bjOf ex := by
  have hv := value_scaled c (expOf ex - 2)
  have e1 : (-(expOf ex - 2)).toNat = bjOf ex := by unfold bjOf; omega
  rw [e1] at hv
  exact cross_lt (two_pow_pos _) (ten_pow_pos _) hv (decValue_scaled d k)

theorem value_quad (c : Nat) (e : Int) : value false (4 * c) (e - 2) = value false c e := by
  have := value_shift false c 2 e
  rw [← this]
  congr 1
  omega

/-! rational arithmetic around a mid-point -/

theorem upper_of_nearest (F t x U : Rat) (ht : 0 < t) (hU : U = F + t + t)
    (h : (F - x).abs ≤ (U - x).abs) : x ≤ F + t := by
  unfold Rat.abs at h
  split at h <;> split at h <;> grind

theorem upper_tie (F t x U : Rat) (ht : 0 < t) (hU : U = F + t + t) (hx : x = F + t) :
    (U - x).abs = (F - x).abs := by
  unfold Rat.abs
  split <;> split <;> grind

theorem lower_of_nearest (D t x F : Rat) (ht : 0 < t) (hF : F = D + t + t)
    (h : (F - x).abs ≤ (D - x).abs) : D + t ≤ x := by
  unfold Rat.abs at h
  split at h <;> split at h <;> grind

theorem lower_tie (D t x F : Rat) (ht : 0 < t) (hF : F = D + t + t) (hx : x = D + t) :
    (D - x).abs = (F - x).abs := by
  unfold Rat.abs
  split <;> split <;> grind

theorem value_pos {c : Nat} (e : Int) (h : 0 < c) : 0 < value false c e := by
  have := value_lt e h
  rw [value_zero] at this; exact this

/-- the upper neighbour `(M+1)·2^E` as a 53-bit mantissa and an exponent `≥ −1074` -/
theorem upper_neighbour (M : Nat) (E : Int) (hM : M < 2 ^ 53) (hE : -1074 ≤ E) :
    ∃ m' e', m' < 2 ^ 53 ∧ -1074 ≤ e' ∧ value false m' e' = value false (M + 1) E := by
  by_cases h : M + 1 < 2 ^ 53
  · exact ⟨M + 1, E, h, hE, rfl⟩
  · refine ⟨2 ^ 52, E + 1, by decide, by omega, ?_⟩
    rw [value_double]
    congr 1
    omega

/-- what being nearest (ties to even) to `x` means for the float `(ex, fr)`: `x` lies between the half-way points to its
    two neighbours, and is one of them only if the mantissa is even -/
theorem nearest_inside (ex fr : Nat) (hex : ex < 2047) (hfr : fr < 2 ^ 52) (hne : mantOf ex fr ≠ 0) (x : Rat)
    (h : NearestAt false (mantOf ex fr) (expOf ex) x) :
    (value false (loNum ex fr) (expOf ex - 2) ≤ x ∧ x ≤ value false (hiNum ex fr) (expOf ex - 2)) ∧
    (mantOf ex fr % 2 = 1 →
      value false (loNum ex fr) (expOf ex - 2) ≠ x ∧ x ≠ value false (hiNum ex fr) (expOf ex - 2)) := by
  obtain ⟨h1, h2⟩ := h
  obtain ⟨he1, _⟩ := expOf_bounds ex hex
  have hM := mantOf_lt ex fr hfr
  have hF : value false (mantOf ex fr) (expOf ex) = value false (4 * mantOf ex fr) (expOf ex - 2) :=
    (value_quad _ _).symm
  rw [hF] at h1 h2
  generalize hFd : value false (4 * mantOf ex fr) (expOf ex - 2) = F at *
  -- upper end
  have hup : x ≤ value false (hiNum ex fr) (expOf ex - 2) ∧
      (mantOf ex fr % 2 = 1 → x ≠ value false (hiNum ex fr) (expOf ex - 2)) := by
    obtain ⟨m', e', a1, a2, a3⟩ := upper_neighbour (mantOf ex fr) (expOf ex) hM he1
    have ht : 0 < value false 2 (expOf ex - 2) := value_pos _ (by decide)
    have hHI : value false (hiNum ex fr) (expOf ex - 2) = F + value false 2 (expOf ex - 2) := by
      unfold hiNum; rw [value_add, hFd]
    have hU : value false m' e' = F + value false 2 (expOf ex - 2) + value false 2 (expOf ex - 2) := by
      rw [a3, ← value_quad, ← hFd, ← value_add, ← value_add]; congr 1 <;> omega
    rw [hHI]
    refine ⟨upper_of_nearest F _ x _ ht hU (h1 false m' e' a1 a2), ?_⟩
    intro hodd hx
    have htie := upper_tie F _ x _ ht hU hx
    have hneq : value false m' e' ≠ F := by rw [hU]; grind
    have := h2 false m' e' a1 a2 hneq htie
    omega
  -- lower end
  have hlow : value false (loNum ex fr) (expOf ex - 2) ≤ x ∧
      (mantOf ex fr % 2 = 1 → value false (loNum ex fr) (expOf ex - 2) ≠ x) := by
    by_cases hlc : lcOf ex fr = true
    · -- the lower neighbour is `(2^53 − 1)·2^(E−1)`
      have hfr0 : fr = 0 ∧ 1 < ex := by simpa [lcOf] using hlc
      have hmant : mantOf ex fr = 2 ^ 52 := by unfold mantOf; rw [if_neg (by omega)]; omega
      have hexp : expOf ex = (ex : Int) - 1075 := by unfold expOf; rw [if_neg (by omega)]
      have ht : 0 < value false 1 (expOf ex - 2) := value_pos _ (by decide)
      have hLO : loNum ex fr = 4 * mantOf ex fr - 1 := by unfold loNum; rw [if_pos hlc]
      have hD : value false (2 * mantOf ex fr - 1) (expOf ex - 1) =
          value false (4 * mantOf ex fr - 2) (expOf ex - 2) := by
        have := value_double false (2 * mantOf ex fr - 1) (expOf ex - 2)
        have e : expOf ex - 2 + 1 = expOf ex - 1 := by omega
        rw [e] at this
        rw [this]; congr 1 <;> omega
      have hFe : F = value false (4 * mantOf ex fr - 2) (expOf ex - 2) + value false 1 (expOf ex - 2) +
          value false 1 (expOf ex - 2) := by
        rw [← hFd, ← value_add, ← value_add]; congr 1 <;> omega
      have hLe : value false (loNum ex fr) (expOf ex - 2) =
          value false (4 * mantOf ex fr - 2) (expOf ex - 2) + value false 1 (expOf ex - 2) := by
        rw [hLO, ← value_add]; congr 1 <;> omega
      have a1 : 2 * mantOf ex fr - 1 < 2 ^ 53 := by omega
      have a2 : -1074 ≤ expOf ex - 1 := by omega
      have hn := h1 false _ _ a1 a2
      rw [hD] at hn
      rw [hLe]
      refine ⟨lower_of_nearest _ _ x F ht hFe hn, ?_⟩
      intro hodd; omega
    · have hLO : loNum ex fr = 4 * mantOf ex fr - 2 := by unfold loNum; rw [if_neg hlc]
      have ht : 0 < value false 2 (expOf ex - 2) := value_pos _ (by decide)
      have hD : value false (mantOf ex fr - 1) (expOf ex) =
          value false (4 * mantOf ex fr - 4) (expOf ex - 2) := by
        rw [← value_quad]; congr 1 <;> omega
      have hFe : F = value false (4 * mantOf ex fr - 4) (expOf ex - 2) + value false 2 (expOf ex - 2) +
          value false 2 (expOf ex - 2) := by
        rw [← hFd, ← value_add, ← value_add]; congr 1 <;> omega
      have hLe : value false (loNum ex fr) (expOf ex - 2) =
          value false (4 * mantOf ex fr - 4) (expOf ex - 2) + value false 2 (expOf ex - 2) := by
        rw [hLO, ← value_add]; congr 1 <;> omega
      have a1 : mantOf ex fr - 1 < 2 ^ 53 := by omega
      have hn := h1 false _ _ a1 he1
      rw [hD] at hn
      rw [hLe]
      refine ⟨lower_of_nearest _ _ x F ht hFe hn, ?_⟩
      intro hodd hx
      have htie := lower_tie _ _ x F ht hFe hx.symm
      have hneq : value false (mantOf ex fr - 1) (expOf ex) ≠ F := by rw [hD, hFe]; grind
      have := h2 false _ _ a1 he1 hneq (by rw [hD]; exact htie)
      omega
  exact ⟨⟨hlow.1, hup.1⟩, fun ho => ⟨hlow.2 ho, hup.2 ho⟩⟩

/-- **Step (a)** — the converse of `roundDecimal_of_inside` (`C18_inside_rounds`): a decimal `d·10^k` that is correctly
    rounded to the float `(ex, fr)` passes the interval test of `shortestFrom`. -/
theorem inside_of_roundDecimal (ex fr d : Nat) (k : Int) (hex : ex < 2047) (hfr : fr < 2 ^ 52)
    (hne : mantOf ex fr ≠ 0) (h : roundDecimal false d k = some (bitsOf ex fr)) :
    insideB (mantOf ex fr) (expOf ex) (lcOf ex fr) d k = true := by
  obtain ⟨m', e', hd, hn⟩ := roundDecimal_nearest_pos d k _ h
  rw [decode_bitsOf ex fr hex hfr] at hd
  injection hd with _ e1 e2
  subst e1 e2
  obtain ⟨⟨l1, u1⟩, hodd⟩ := nearest_inside ex fr hex hfr hne _ hn
  rw [insideB_iff]
  rw [← Rat.not_lt, dec_lt_value] at l1
  rw [← Rat.not_lt, value_lt_dec] at u1
  by_cases ho : mantOf ex fr % 2 = 1
  · obtain ⟨l2, u2⟩ := hodd ho
    have l3 : ¬ (d * 10 ^ k.toNat * 2 ^ bjOf ex = loNum ex fr * 2 ^ shOf ex * 10 ^ (-k).toNat) := by
      intro hc
      apply l2
      apply Rat.le_antisymm
      · rw [← Rat.not_lt, dec_lt_value]; omega
      · rw [← Rat.not_lt, value_lt_dec]; omega
    have u3 : ¬ (d * 10 ^ k.toNat * 2 ^ bjOf ex = hiNum ex fr * 2 ^ shOf ex * 10 ^ (-k).toNat) := by
      intro hc
      apply u2
      apply Rat.le_antisymm
      · rw [← Rat.not_lt, value_lt_dec]; omega
      · rw [← Rat.not_lt, dec_lt_value]; omega
    omega
  · omega

/-- on the rounding interval, "is rounded to the float" and "passes the interval test" are the same -/
theorem roundDecimal_iff_inside (ex fr d : Nat) (k : Int) (hex : ex < 2047) (hfr : fr < 2 ^ 52)
    (hne : mantOf ex fr ≠ 0) :
    roundDecimal false d k = some (bitsOf ex fr) ↔ insideB (mantOf ex fr) (expOf ex) (lcOf ex fr) d k = true :=
  ⟨inside_of_roundDecimal ex fr d k hex hfr hne, roundDecimal_of_inside ex fr d k hex hfr hne⟩

/-! ## 8. The theorems about `shortest` -/

/-- a finite non-zero bit pattern without sign is `bitsOf ex fr` with a non-zero mantissa -/
theorem abs_cases (abs : UInt64) (hfin : isFinite abs = true) (hlt : abs.toNat < 2 ^ 63) (h0 : abs ≠ 0) :
    ∃ ex fr, abs = bitsOf ex fr ∧ ex < 2047 ∧ fr < 2 ^ 52 ∧ mantOf ex fr ≠ 0 ∧
      shortest abs = shortestFrom (mantOf ex fr) (expOf ex) (lcOf ex fr) := by
  obtain ⟨hb, hex, hfr⟩ := bits_cases abs hlt hfin
  have hne : mantOf (abs.toNat / 2 ^ 52) (abs.toNat % 2 ^ 52) ≠ 0 := by
    intro h
    apply h0
    apply UInt64.toNat_inj.mp
    unfold mantOf at h
    split at h
    · show abs.toNat = 0
      omega
    · omega
  refine ⟨_, _, hb, hex, hfr, hne, ?_⟩
  conv => lhs; rw [hb]
  exact shortest_bitsOf _ _ hex hfr hne

/-- **At most 17 significant digits** (and at least one) for every finite non-zero float64. -/
theorem shortest_le_17 (abs : UInt64) (hfin : isFinite abs = true) (hlt : abs.toNat < 2 ^ 63) (h0 : abs ≠ 0) :
    1 ≤ (shortest abs).digits.length ∧ (shortest abs).digits.length ≤ 17 := by
  obtain ⟨ex, fr, _, _, hfr, hne, hs⟩ := abs_cases abs hfin hlt h0
  rw [hs]
  exact shortestFrom_length ex fr hfr hne

/-- **"Shortest".** No decimal with fewer significant digits than `shortest abs` has is correctly rounded to `abs`:
    whatever the mantissa `d < 10^m` (`m` less than the number of digits printed) and whatever the exponent `k`,
    `d · 10^k` rounds to a different float64 (or to zero, or to infinity). -/
theorem shortest_minimal (abs : UInt64) (hfin : isFinite abs = true) (hlt : abs.toNat < 2 ^ 63) (h0 : abs ≠ 0)
    (m d : Nat) (k : Int) (hm : m < (shortest abs).digits.length) (hd : d < 10 ^ m) (hd0 : d ≠ 0) :
    roundDecimal false d k ≠ some abs := by
  obtain ⟨ex, fr, hb, hex, hfr, hne, hs⟩ := abs_cases abs hfin hlt h0
  intro h
  rw [hb] at h
  have hin := inside_of_roundDecimal ex fr d k hex hfr hne h
  have := length_le_of_inside ex fr hfr hne d k m (by omega) hd hin
  rw [hs] at hm
  omega

/-- the same, read the other way: a decimal that rounds to `abs` has at least as many significant digits -/
theorem shortest_le_of_rounds (abs : UInt64) (hfin : isFinite abs = true) (hlt : abs.toNat < 2 ^ 63) (h0 : abs ≠ 0)
    (m d : Nat) (k : Int) (hd : d < 10 ^ m) (h : roundDecimal false d k = some abs) :
    (shortest abs).digits.length ≤ m := by
  apply Nat.le_of_not_lt
  intro hc
  have hd0 : d ≠ 0 := by
    intro hz; subst hz
    have : roundDecimal false 0 k = some 0 := by unfold roundDecimal; simp [signBit]
    rw [this] at h
    exact h0 (Option.some.inj h).symm
  exact shortest_minimal abs hfin hlt h0 m d k hc hd hd0 h

/-! ## 9. The candidate chosen is the closest, ties to even -/

theorem distScaled_eq (d : Nat) (k : Int) (v b : Nat) :
    distScaled d k v b =
      if d * 10 ^ k.toNat * b ≥ v * 10 ^ (-k).toNat then d * 10 ^ k.toNat * b - v * 10 ^ (-k).toNat
      else v * 10 ^ (-k).toNat - d * 10 ^ k.toNat * b := by
  unfold distScaled
  by_cases h : k ≥ 0
  · have : (-k).toNat = 0 := by omega
    rw [if_pos h, this]; simp
  · have h1 : k.toNat = 0 := by omega
    have h2 : (-k).toNat = k.natAbs := by omega
    rw [if_neg h, h1, h2]; simp

/-- how one round chooses between its two candidates -/
theorem pickAt_rule (b v : Nat) (inside : Nat → Int → Bool) (k : Int) (d : Nat)
    (h : pickAt b v inside k = some d) :
    (d = d0At b v k ∧ (0 < d0At b v k ∧ inside (d0At b v k) k = true) ∧
      (inside (d0At b v k + 1) k = true →
        distScaled (d0At b v k) k v b ≤ distScaled (d0At b v k + 1) k v b ∧
        (distScaled (d0At b v k) k v b = distScaled (d0At b v k + 1) k v b → d0At b v k % 2 = 0))) ∨
    (d = d0At b v k + 1 ∧ inside (d0At b v k + 1) k = true ∧
      ((0 < d0At b v k ∧ inside (d0At b v k) k = true) →
        distScaled (d0At b v k + 1) k v b ≤ distScaled (d0At b v k) k v b ∧
        (distScaled (d0At b v k + 1) k v b = distScaled (d0At b v k) k v b → d0At b v k % 2 = 1))) := by
  unfold pickAt at h
  simp only [] at h
  generalize d0At b v k = d0 at h ⊢
  generalize distScaled d0 k v b = x0 at h ⊢
  generalize distScaled (d0 + 1) k v b = x1 at h ⊢
  by_cases h0 : (decide (d0 > 0) && inside d0 k) = true <;> by_cases h1 : inside (d0 + 1) k = true
  · simp only [h0, h1, Bool.and_self, if_true] at h
    have h0' : 0 < d0 ∧ inside d0 k = true := by simpa using h0
    split at h
    · cases h; exact Or.inl ⟨rfl, h0', fun _ => ⟨by omega, by omega⟩⟩
    · split at h
      · cases h; exact Or.inr ⟨rfl, h1, fun _ => ⟨by omega, by omega⟩⟩
      · split at h
        · rename_i he
          have hev : d0 % 2 = 0 := by simpa using he
          cases h
          exact Or.inl ⟨rfl, h0', fun _ => ⟨by omega, fun _ => hev⟩⟩
        · rename_i he
          have hev : ¬ d0 % 2 = 0 := by simpa using he
          cases h
          exact Or.inr ⟨rfl, h1, fun _ => ⟨by omega, fun _ => by omega⟩⟩
  · have h0' : 0 < d0 ∧ inside d0 k = true := by simpa using h0
    simp only [h0, h1, Bool.and_false, Bool.false_eq_true, if_false, if_true] at h
    cases h; exact Or.inl ⟨rfl, h0', fun hc => absurd hc h1⟩
  · simp only [h0, h1, Bool.false_and, Bool.false_eq_true, if_false, if_true] at h
    cases h
    refine Or.inr ⟨rfl, h1, fun hc => ?_⟩
    exfalso; apply h0; simp [hc.1, hc.2]
  · simp only [h0, h1, Bool.false_and, Bool.false_eq_true, if_false] at h
    cases h

theorem decValue_add (a b : Nat) (k : Int) :
    F64Round.decValue false (a + b) k = F64Round.decValue false a k + F64Round.decValue false b k := by
  unfold F64Round.decValue
  simp only [Bool.false_eq_true, if_false, Rat.natCast_add, Rat.add_mul]

theorem ten_zpow_pos (k : Int) : (0 : Rat) < (10 : Rat) ^ k := Rat.zpow_pos (by decide)

theorem decValue_le {a b : Nat} (k : Int) (h : a ≤ b) : F64Round.decValue false a k ≤ F64Round.decValue false b k := by
  unfold F64Round.decValue
  simp only [Bool.false_eq_true, if_false]
  exact Rat.mul_le_mul_of_nonneg_right (Rat.natCast_le_natCast.mpr h) (Rat.le_of_lt (ten_zpow_pos k))

theorem decValue_lt {a b : Nat} (k : Int) (h : a < b) : F64Round.decValue false a k < F64Round.decValue false b k := by
  unfold F64Round.decValue
  simp only [Bool.false_eq_true, if_false]
  exact Rat.mul_lt_mul_of_pos_right (Rat.natCast_lt_natCast.mpr h) (ten_zpow_pos k)

section Float
variable (ex fr : Nat)

/-- the exact value of the float -/
abbrev Fv : Rat := value false (mantOf ex fr) (expOf ex)

/-- **Closest, ties to even, at the scale of a round.** The candidate a round returns is at least as close to the exact
    value of the float as ANY positive multiple of that round's `10^k` inside the rounding interval; and if another one
    is equally close, the candidate returned is even. -/
theorem pick_closest (hne : mantOf ex fr ≠ 0) (k : Int) (d : Nat)
    (h : pickAt (Bn ex) (Vn ex fr) (insideF ex fr) k = some d) (X : Nat) (hX : 0 < X)
    (hin : insideF ex fr X k = true) :
    (F64Round.decValue false d k - Fv ex fr).abs ≤ (F64Round.decValue false X k - Fv ex fr).abs ∧
    ((F64Round.decValue false X k - Fv ex fr).abs = (F64Round.decValue false d k - Fv ex fr).abs → X ≠ d → d % 2 = 0) := by
  obtain ⟨c1, c2⟩ := candidates_split ex fr hne X k hX hin
  obtain ⟨hd1, hd2⟩ := d0At_spec (Bn ex) (Vn ex fr) k (two_pow_pos _)
  have hrule := pickAt_rule _ _ _ _ _ h
  rw [distScaled_eq, distScaled_eq] at hrule
  have hF : Fv ex fr = value false (4 * mantOf ex fr) (expOf ex - 2) := (value_quad _ _).symm
  have hFF : Fv ex fr + Fv ex fr = value false (8 * mantOf ex fr) (expOf ex - 2) := by
    rw [hF, ← value_add]; congr 1 <;> omega
  generalize hd0 : d0At (Bn ex) (Vn ex fr) k = d0 at *
  -- the two candidates bracket the value
  have b0 : F64Round.decValue false d0 k ≤ Fv ex fr := by
    rw [hF, ← Rat.not_lt, value_lt_dec]; unfold Vn Bn at hd1; omega
  have b1 : Fv ex fr < F64Round.decValue false (d0 + 1) k := by
    rw [hF, value_lt_dec]; exact hd2
  -- the comparison of the two distances, in the rationals
  have hsum : F64Round.decValue false d0 k + F64Round.decValue false (d0 + 1) k = F64Round.decValue false (d0 + (d0 + 1)) k :=
    (decValue_add _ _ _).symm
  have hmid1 : F64Round.decValue false (d0 + (d0 + 1)) k < Fv ex fr + Fv ex fr ↔
      (d0 + (d0 + 1)) * 10 ^ k.toNat * 2 ^ bjOf ex < 8 * mantOf ex fr * 2 ^ shOf ex * 10 ^ (-k).toNat := by
    rw [hFF]; exact dec_lt_value ex _ _ k
  have hmid2 : Fv ex fr + Fv ex fr < F64Round.decValue false (d0 + (d0 + 1)) k ↔
      8 * mantOf ex fr * 2 ^ shOf ex * 10 ^ (-k).toNat < (d0 + (d0 + 1)) * 10 ^ k.toNat * 2 ^ bjOf ex := by
    rw [hFF]; exact value_lt_dec ex _ _ k
  have e8 : 8 * mantOf ex fr * 2 ^ shOf ex * 10 ^ (-k).toNat =
      4 * mantOf ex fr * 2 ^ shOf ex * 10 ^ (-k).toNat + 4 * mantOf ex fr * 2 ^ shOf ex * 10 ^ (-k).toNat := by
    have : 8 * mantOf ex fr = 4 * mantOf ex fr + 4 * mantOf ex fr := by omega
    rw [this, Nat.add_mul, Nat.add_mul]
  have esum : (d0 + (d0 + 1)) * 10 ^ k.toNat * 2 ^ bjOf ex =
      d0 * 10 ^ k.toNat * 2 ^ bjOf ex + (d0 + 1) * 10 ^ k.toNat * 2 ^ bjOf ex := by
    rw [Nat.add_mul, Nat.add_mul]
  rw [e8, esum] at hmid1 hmid2
  unfold Vn Bn at hd1 hd2 hrule
  generalize d0 * 10 ^ k.toNat * 2 ^ bjOf ex = p0 at *
  generalize (d0 + 1) * 10 ^ k.toNat * 2 ^ bjOf ex = p1 at *
  generalize 4 * mantOf ex fr * 2 ^ shOf ex * 10 ^ (-k).toNat = q at *
  rw [← hsum] at hmid1 hmid2
  have e0 : (if p0 ≥ q then p0 - q else q - p0) = q - p0 := by split <;> omega
  have e1 : (if p1 ≥ q then p1 - q else q - p1) = p1 - q := by split <;> omega
  rw [e0, e1] at hrule
  -- position of `X`
  rcases Nat.lt_or_ge d0 X with hc | hc
  · have hin1 := c2 hc
    have hXa : F64Round.decValue false (d0 + 1) k ≤ F64Round.decValue false X k := decValue_le k hc
    rcases hrule with ⟨rfl, r0, r1⟩ | ⟨rfl, _, _⟩
    · obtain ⟨r2, r3⟩ := r1 hin1
      have hm : F64Round.decValue false d k + F64Round.decValue false (d + 1) k ≥ Fv ex fr + Fv ex fr := by
        rw [ge_iff_le, ← Rat.not_lt, hmid1]; omega
      constructor
      · unfold Rat.abs; split <;> split <;> grind
      · intro htie hne'
        have hXe : F64Round.decValue false X k = F64Round.decValue false (d + 1) k := by
          unfold Rat.abs at htie; split at htie <;> split at htie <;> grind
        have hm' : ¬ (Fv ex fr + Fv ex fr < F64Round.decValue false d k + F64Round.decValue false (d + 1) k) := by
          rw [hXe] at htie
          unfold Rat.abs at htie; split at htie <;> split at htie <;> grind
        rw [hmid2] at hm'
        exact r3 (by omega)
    · constructor
      · unfold Rat.abs; split <;> split <;> grind
      · intro htie hne'
        exfalso
        have hlt : F64Round.decValue false (d0 + 1) k < F64Round.decValue false X k := decValue_lt k (by omega)
        unfold Rat.abs at htie; split at htie <;> split at htie <;> grind
  · obtain ⟨hpos, hin0⟩ := c1 hc
    have hXa : F64Round.decValue false X k ≤ F64Round.decValue false d0 k := decValue_le k hc
    rcases hrule with ⟨rfl, _, _⟩ | ⟨rfl, r0, r1⟩
    · constructor
      · unfold Rat.abs; split <;> split <;> grind
      · intro htie hne'
        exfalso
        have hlt : F64Round.decValue false X k < F64Round.decValue false d k := decValue_lt k (by omega)
        unfold Rat.abs at htie; split at htie <;> split at htie <;> grind
    · obtain ⟨r2, r3⟩ := r1 ⟨hpos, hin0⟩
      have hm : F64Round.decValue false d0 k + F64Round.decValue false (d0 + 1) k ≤ Fv ex fr + Fv ex fr := by
        rw [← Rat.not_lt, hmid2]; omega
      constructor
      · unfold Rat.abs; split <;> split <;> grind
      · intro htie hne'
        have hXe : F64Round.decValue false X k = F64Round.decValue false d0 k := by
          unfold Rat.abs at htie; split at htie <;> split at htie <;> grind
        have hm' : ¬ (F64Round.decValue false d0 k + F64Round.decValue false (d0 + 1) k < Fv ex fr + Fv ex fr) := by
          rw [hXe] at htie
          unfold Rat.abs at htie; split at htie <;> split at htie <;> grind
        rw [hmid1] at hm'
        have := r3 (by omega)
        omega

end Float

/-- a point `x` beyond `p` on the far side of `F` is farther from `F` than anything as close as `p` -/
theorem far_side (F a p x : Rat) (hp : p ≤ F) (hx : x < p) (hc : (a - F).abs ≤ (p - F).abs) :
    (a - F).abs < (x - F).abs := by
  have e1 : (p - F).abs = -(p - F) := Rat.abs_of_nonpos (by grind)
  have e2 : (x - F).abs = -(x - F) := Rat.abs_of_nonpos (by grind)
  rw [e1] at hc
  rw [e2]
  grind

theorem decValue_shift (a z : Nat) (k : Int) : F64Round.decValue false (a * 10 ^ z) k = F64Round.decValue false a (k + z) := by
  unfold F64Round.decValue
  simp only [Bool.false_eq_true, if_false]
  rw [Rat.natCast_mul, Rat.zpow_add (by decide : (10 : Rat) ≠ 0), Rat.zpow_natCast, ten_pow_cast, Rat.mul_assoc]
  congr 1
  exact Rat.mul_comm _ _

section Float
variable (ex fr : Nat)

/-- `10^⌊log10 v⌋ ≤ v`, in the rationals -/
theorem pow_le_value (hne : mantOf ex fr ≠ 0) : F64Round.decValue false 1 (L10 ex fr) ≤ Fv ex fr := by
  have hge := floorLog10_ge (Vn ex fr) (Bn ex) (Vn_ne ex fr hne) (Bn_ne ex)
  unfold geP at hge
  have hF : Fv ex fr = value false (4 * mantOf ex fr) (expOf ex - 2) := (value_quad _ _).symm
  rw [hF, ← Rat.not_lt, value_lt_dec]
  unfold L10 at *
  unfold Vn Bn at *
  rw [Nat.one_mul, Nat.mul_comm (10 ^ _)]
  omega

/-- **Closest among the shortest, ties to even** for the float `(ex, fr)`, on the interval test: the decimal
    `D·10^K` that `shortestFrom` returns (`L` digits) is at least as close to the exact value as every decimal `X·10^k'`
    with at most `L` significant digits — at ANY exponent `k'` — inside the rounding interval; in a tie with a different
    decimal, `D` is even, or `D = 1` (the candidate `10` of the first round, even at the scale of the search). -/
theorem shortestFrom_closest (hfr : fr < 2 ^ 52) (hne : mantOf ex fr ≠ 0) (X : Nat) (k' : Int) (hX : 0 < X)
    (hXL : X < 10 ^ (shortestFrom (mantOf ex fr) (expOf ex) (lcOf ex fr)).digits.length)
    (hin : insideF ex fr X k' = true) :
    (F64Round.decValue false (natOfDigits (shortestFrom (mantOf ex fr) (expOf ex) (lcOf ex fr)).digits)
        ((shortestFrom (mantOf ex fr) (expOf ex) (lcOf ex fr)).dp -
          (shortestFrom (mantOf ex fr) (expOf ex) (lcOf ex fr)).digits.length) - Fv ex fr).abs ≤
      (F64Round.decValue false X k' - Fv ex fr).abs ∧
    ((F64Round.decValue false X k' - Fv ex fr).abs =
        (F64Round.decValue false (natOfDigits (shortestFrom (mantOf ex fr) (expOf ex) (lcOf ex fr)).digits)
          ((shortestFrom (mantOf ex fr) (expOf ex) (lcOf ex fr)).dp -
            (shortestFrom (mantOf ex fr) (expOf ex) (lcOf ex fr)).digits.length) - Fv ex fr).abs →
      F64Round.decValue false X k' ≠
        F64Round.decValue false (natOfDigits (shortestFrom (mantOf ex fr) (expOf ex) (lcOf ex fr)).digits)
          ((shortestFrom (mantOf ex fr) (expOf ex) (lcOf ex fr)).dp -
            (shortestFrom (mantOf ex fr) (expOf ex) (lcOf ex fr)).digits.length) →
      natOfDigits (shortestFrom (mantOf ex fr) (expOf ex) (lcOf ex fr)).digits % 2 = 0 ∨
      natOfDigits (shortestFrom (mantOf ex fr) (expOf ex) (lcOf ex fr)).digits = 1) := by
  obtain ⟨N, d, n1, n2, hnone, hp, hs⟩ := shortestFrom_first ex fr hfr hne
  obtain ⟨hd, hind⟩ := pickAt_sound _ _ _ _ _ hp
  have hLN := pick_digits_le ex fr hne N d n1 hp
  have hdle : d ≤ 10 ^ N := by
    have hlt := d0At_lt ex fr hne N n1
    rcases pickAt_mem _ _ _ _ _ hp with e | e <;> omega
  rw [hs] at hXL ⊢
  rw [digitsOf_eq d (by omega)] at hXL hLN ⊢
  obtain ⟨r1, r2, r3, r4⟩ := rawDigits_spec d
  obtain ⟨z, z1, z2, z3, z4, z5⟩ := strip_facts (rawDigits d) r3 (r4 hd)
  rw [r2] at z4
  show (F64Round.decValue false (natOfDigits (stripTrailingZeros (rawDigits d)))
        (kOf ex fr N + ((rawDigits d).length : Int) - ((stripTrailingZeros (rawDigits d)).length : Int)) -
          Fv ex fr).abs ≤ (F64Round.decValue false X k' - Fv ex fr).abs ∧
    ((F64Round.decValue false X k' - Fv ex fr).abs =
        (F64Round.decValue false (natOfDigits (stripTrailingZeros (rawDigits d)))
        (kOf ex fr N + ((rawDigits d).length : Int) - ((stripTrailingZeros (rawDigits d)).length : Int)) -
          Fv ex fr).abs →
      F64Round.decValue false X k' ≠ F64Round.decValue false (natOfDigits (stripTrailingZeros (rawDigits d)))
        (kOf ex fr N + ((rawDigits d).length : Int) - ((stripTrailingZeros (rawDigits d)).length : Int)) →
      natOfDigits (stripTrailingZeros (rawDigits d)) % 2 = 0 ∨ natOfDigits (stripTrailingZeros (rawDigits d)) = 1)
  change X < 10 ^ (stripTrailingZeros (rawDigits d)).length at hXL
  change (stripTrailingZeros (rawDigits d)).length ≤ N at hLN
  have eK : kOf ex fr N + ((rawDigits d).length : Int) - ((stripTrailingZeros (rawDigits d)).length : Int) =
      kOf ex fr N + (z : Int) := by omega
  rw [eK, ← decValue_shift, ← z4]
  -- in a tie the digits are even, or `1`
  have heven : d % 2 = 0 → natOfDigits (stripTrailingZeros (rawDigits d)) % 2 = 0 ∨
      natOfDigits (stripTrailingZeros (rawDigits d)) = 1 := by
    intro hev
    rcases Nat.lt_or_ge d (10 ^ N) with hlt | hge
    · left
      have h2 : numDigits d ≤ N :=
        (Nat.length_toDigits_le_iff (b := 10) (n := d) (k := N) (by decide) n1).mpr hlt
      rw [← rawDigits_length] at h2
      -- `N ≤ L`: the digits returned are inside the interval and have `L` digits
      have hDlt : natOfDigits (stripTrailingZeros (rawDigits d)) <
          10 ^ (stripTrailingZeros (rawDigits d)).length := by
        apply natOfDigits_lt
        intro x hx; apply r1; rw [z1]; exact List.mem_append_left _ hx
      have hDpos : 0 < natOfDigits (stripTrailingZeros (rawDigits d)) := by
        rcases Nat.eq_zero_or_pos (natOfDigits (stripTrailingZeros (rawDigits d))) with h0 | h0
        · rw [h0] at z4; omega
        · exact h0
      have hDin : insideF ex fr (natOfDigits (stripTrailingZeros (rawDigits d))) (kOf ex fr N + (z : Int)) = true := by
        unfold insideF at *
        rw [← insideB_shift, ← z4]; exact hind
      obtain ⟨n, m1, m2, d', hd'⟩ := round_of_inside ex fr hne _ _ _ hDpos hDlt hDin
      have hNn : N ≤ n := by
        apply Nat.le_of_not_lt
        intro hc
        rw [hnone n m1 hc] at hd'; cases hd'
      have hz0 : z = 0 := by omega
      rw [hz0, Nat.pow_zero, Nat.mul_one] at z4
      rw [← z4]; exact hev
    · right
      have e : d = 10 ^ N := by omega
      rw [e, rawDigits_ten_pow, strip_ten_pow]
      rfl
  by_cases hk : kOf ex fr N ≤ k'
  · -- `X·10^k'` is a multiple of the scale of the round
    obtain ⟨z', hz'⟩ : ∃ z' : Nat, k' = kOf ex fr N + z' := ⟨(k' - kOf ex fr N).toNat, by omega⟩
    have hX' : insideF ex fr (X * 10 ^ z') (kOf ex fr N) = true := by
      unfold insideF at *
      rw [insideB_shift, ← hz']; exact hin
    obtain ⟨c1, c2⟩ := pick_closest ex fr hne _ d hp (X * 10 ^ z') (Nat.mul_pos hX (ten_pow_pos _)) hX'
    rw [decValue_shift, ← hz'] at c1 c2
    refine ⟨c1, fun htie hneq => heven (c2 htie ?_)⟩
    intro hc
    apply hneq
    rw [← hc, decValue_shift, ← hz']
  · -- `X·10^k' < 10^⌊log10 v⌋ ≤ v`: that power of ten is a multiple of the scale inside the interval, and closer
    have hkm : k' + ((stripTrailingZeros (rawDigits d)).length : Int) ≤ L10 ex fr := by unfold kOf at hk; omega
    have hpin := pow_inside ex fr hne X k' _ hXL hkm hin
    have hL : L10 ex fr = kOf ex fr N + ((N - 1 : Nat) : Int) := by unfold kOf; omega
    have hX' : insideF ex fr (1 * 10 ^ (N - 1)) (kOf ex fr N) = true := by
      unfold insideF at *
      rw [insideB_shift, ← hL]; exact hpin
    obtain ⟨c1, _⟩ := pick_closest ex fr hne _ d hp (1 * 10 ^ (N - 1)) (Nat.mul_pos (by decide) (ten_pow_pos _)) hX'
    rw [decValue_shift, ← hL] at c1
    have hp1 := pow_le_value ex fr hne
    obtain ⟨z', hz'⟩ : ∃ z' : Nat, L10 ex fr = k' + z' := ⟨(L10 ex fr - k').toNat, by omega⟩
    have hXlt : F64Round.decValue false X k' < F64Round.decValue false 1 (L10 ex fr) := by
      rw [hz', ← decValue_shift]
      apply decValue_lt
      rw [Nat.one_mul]
      exact Nat.lt_of_lt_of_le hXL (Nat.pow_le_pow_right (by decide) (by omega))
    have hfar := far_side (Fv ex fr) _ _ _ hp1 hXlt c1
    constructor
    · exact Rat.le_of_lt hfar
    · intro htie
      exfalso
      rw [htie] at hfar
      exact Rat.lt_irrefl hfar

end Float

/-! ## 10. `shortest`: closest among the shortest; no trailing zero -/

theorem strip_getLast (ds : List Nat) : (stripTrailingZeros ds).getLast? ≠ some 0 := by
  unfold stripTrailingZeros
  rw [List.getLast?_reverse]
  intro h
  have := List.head?_dropWhile_not (p := (· == 0)) (l := ds.reverse)
  rw [h] at this
  simp at this

/-- the digit string ends in a non-zero digit (the hypothesis `hlast` of `C18_fmtE_shape`) -/
theorem shortest_no_trailing_zero (abs : UInt64) (hfin : isFinite abs = true) (hlt : abs.toNat < 2 ^ 63)
    (h0 : abs ≠ 0) : (shortest abs).digits.getLast? ≠ some 0 := by
  obtain ⟨ex, fr, _, _, hfr, hne, hs⟩ := abs_cases abs hfin hlt h0
  obtain ⟨N, d, _, _, _, _, hs'⟩ := shortestFrom_first ex fr hfr hne
  rw [hs, hs']
  exact strip_getLast _

/-- **Closest among the shortest, ties to even.** Let `D·10^K` be the decimal `shortest abs` denotes (`D` its digit
    string read as a number, `L` digits) and `m·2^e` the exact value of `abs`. Every decimal `X·10^k` with at most `L`
    significant digits that is correctly rounded to `abs` is at least as far from the exact value as `D·10^K`; and if a
    different one is exactly as far, `D` is even — or `D = 1`, the carry case where the two candidates are `9` and `10`
    (`10` being the even one at the scale of the search). -/
theorem closest_among_shortest (abs : UInt64) (hfin : isFinite abs = true) (hlt : abs.toNat < 2 ^ 63) (h0 : abs ≠ 0)
    (m : Nat) (e : Int) (hdec : decode abs = .fin false m e) (X : Nat) (k : Int)
    (hXL : X < 10 ^ (shortest abs).digits.length) (hr : roundDecimal false X k = some abs) :
    (F64Round.decValue false (natOfDigits (shortest abs).digits) ((shortest abs).dp - (shortest abs).digits.length) -
        value false m e).abs ≤ (F64Round.decValue false X k - value false m e).abs ∧
    ((F64Round.decValue false X k - value false m e).abs =
        (F64Round.decValue false (natOfDigits (shortest abs).digits) ((shortest abs).dp - (shortest abs).digits.length) -
          value false m e).abs →
      F64Round.decValue false X k ≠
        F64Round.decValue false (natOfDigits (shortest abs).digits) ((shortest abs).dp - (shortest abs).digits.length) →
      natOfDigits (shortest abs).digits % 2 = 0 ∨ natOfDigits (shortest abs).digits = 1) := by
  obtain ⟨ex, fr, hb, hex, hfr, hne, hs⟩ := abs_cases abs hfin hlt h0
  have hX0 : X ≠ 0 := by
    intro hz; subst hz
    have : roundDecimal false 0 k = some 0 := by unfold roundDecimal; simp [signBit]
    rw [this] at hr
    exact h0 (Option.some.inj hr).symm
  rw [hb] at hr hdec
  rw [decode_bitsOf ex fr hex hfr] at hdec
  injection hdec with _ e1 e2
  subst e1 e2
  have hin := inside_of_roundDecimal ex fr X k hex hfr hne hr
  rw [hs] at hXL ⊢
  exact shortestFrom_closest ex fr hfr hne X k (by omega) hXL hin

/-! ## 11. Source level -/

section Source
open SJ.Generated SJ.GoSem SJ.GoFloatFmt SJ.Spec

/-- **C18 at source level: shortest, at most 17 digits, closest.** Run `appendFloat(dst, f)` of `parsed_json.go` (with
    `appendFloatF`, `fmtF`, as printed from /repo; Ryu / `strconv.AppendFloat(…,'e',-1,64)` by the shortest-digits contract)
    on a finite non-zero float64 bit pattern; `abs` is the pattern without its sign bit. It returns `dst ++ txt` and `nil`
    where `txt` is a number literal of the RFC grammar with the sign of the float whose decimal value is EXACTLY
    `0.d₁…dₙ × 10^dp` (`SameDecimal`) for a digit string `ds = d₁…dₙ` such that
    * `ds` is a string of decimal digits with neither a leading nor a trailing zero: `n` is the number of SIGNIFICANT digits of
      the text, and `1 ≤ n ≤ 17`;
    * correctly rounded, the decimal reads back to `abs`;
    * **no decimal with fewer significant digits does**: for every `m < n`, mantissa `0 < d < 10^m` and exponent `k`,
      `F64.roundDecimal false d k ≠ some abs`;
    * **among the decimals with at most `n` significant digits that do, it is the closest to the exact value** `mₐ·2^eₐ` of
      `abs`; in a tie, its digits read as a number are even (or `1`: the candidate `10` of the carry `9 → 10`).
    The conclusion mentions no function of the hand model. Hypothesis kept from the tie: `fuelOK`, the interpreter's loop
    budget. -/
theorem C18_source_minimal (dst : Bytes) (bits : UInt64) (fuel : Nat) (tape : Array UInt64)
    (hf : fuelOK fuel bits) (hfin : F64.isFinite bits = true) (h0 : bits &&& 0x7fffffffffffffff ≠ 0) :
    ∃ txt l st ds dp, runFun goFuns goappendFloat fuel ⟨[("dst", .bytes dst), ("f", .u64 bits)], tape⟩ =
        .ret st [.bytes (dst ++ txt), .bool false] ∧ st.tape = tape ∧
      Spec.numberLit txt.toList = some (l, []) ∧
      (litValue l).1 = ((bits >>> 63) != 0) ∧
      SameDecimal (litValue l).2.1 (litValue l).2.2 (natOfDigits ds) (dp - ds.length) ∧
      (∀ d ∈ ds, d < 10) ∧ ds.head? ≠ some 0 ∧ ds.getLast? ≠ some 0 ∧
      1 ≤ ds.length ∧ ds.length ≤ 17 ∧
      F64.roundDecimal false (natOfDigits ds) (dp - ds.length) = some (bits &&& 0x7fffffffffffffff) ∧
      (∀ (m d : Nat) (k : Int), m < ds.length → d < 10 ^ m → d ≠ 0 →
        F64.roundDecimal false d k ≠ some (bits &&& 0x7fffffffffffffff)) ∧
      (∀ (ma : Nat) (ea : Int) (X : Nat) (k : Int),
        F64.decode (bits &&& 0x7fffffffffffffff) = .fin false ma ea → X < 10 ^ ds.length →
        F64.roundDecimal false X k = some (bits &&& 0x7fffffffffffffff) →
        (F64Round.decValue false (natOfDigits ds) (dp - ds.length) - value false ma ea).abs ≤
          (F64Round.decValue false X k - value false ma ea).abs ∧
        ((F64Round.decValue false X k - value false ma ea).abs =
            (F64Round.decValue false (natOfDigits ds) (dp - ds.length) - value false ma ea).abs →
          F64Round.decValue false X k ≠ F64Round.decValue false (natOfDigits ds) (dp - ds.length) →
          natOfDigits ds % 2 = 0 ∨ natOfDigits ds = 1)) := by
  obtain ⟨txt, l, st, ds, dp, hrun, htape, hl, hsg, hs, hne, hlt10, hhd, hsd, hrt⟩ :=
    SJ.SourceLevelF.C18_source_shortest dst bits fuel tape hf hfin h0
  have habsn := abs_toNat bits
  have habsf := abs_finite bits hfin
  generalize bits &&& 0x7fffffffffffffff = abs at *
  have hlt : abs.toNat < 2 ^ 63 := by rw [habsn]; exact Nat.mod_lt _ (by decide)
  have hdig : (shortest abs).digits = ds := by rw [hs]
  have hdp : (shortest abs).dp = dp := by rw [hs]
  have h17 := shortest_le_17 abs habsf hlt h0
  have hlast := shortest_no_trailing_zero abs habsf hlt h0
  rw [hdig] at h17 hlast
  refine ⟨txt, l, st, ds, dp, hrun, htape, hl, hsg, hsd, hlt10, hhd, hlast, h17.1, h17.2, hrt, ?_, ?_⟩
  · intro m d k hm hd hd0
    exact shortest_minimal abs habsf hlt h0 m d k (by rw [hdig]; exact hm) hd hd0
  · intro ma ea X k hdec hXL hr
    have := closest_among_shortest abs habsf hlt h0 ma ea hdec X k (by rw [hdig]; exact hXL) hr
    rw [hdig, hdp] at this
    exact this

end Source

/-! ## 12. Tests by evaluation (kernel) -/

/-- `0.1 + 0.2`: 17 digits are needed, the 16-digit decimals next to it round elsewhere; `0.3`: one digit. -/
example : (shortest 0x3fd3333333333334).digits = [3,0,0,0,0,0,0,0,0,0,0,0,0,0,0,0,4] ∧
    (shortest 0x3fd3333333333333).digits = [3] ∧
    roundDecimal false 3 (-1) = some 0x3fd3333333333333 ∧
    roundDecimal false 3000000000000000 (-16) ≠ some 0x3fd3333333333334 ∧
    roundDecimal false 3000000000000001 (-16) ≠ some 0x3fd3333333333334 := by decide +kernel

/-- the carry case of the first round (`9.88…e-324` prints as `1e-323`), and the largest finite float (17 digits) -/
example : (shortest 0x2).digits = [1] ∧ (shortest 0x2).dp = -322 ∧
    (shortest 0x7fefffffffffffff).digits.length = 17 := by decide +kernel

end SJ.ShortestMinimal
