import SJ.Proofs.MachineSimScalar
set_option linter.unusedVariables false
set_option linter.unusedSimpArgs false
/-
Strings: `closeQ` and `decodeString` only look at the bytes up to the closing quotation mark (locality), and the
token-level simulation of a string (value or key) on a window of the message.
-/
namespace SJ.TokenSim
open SJ SJ.ParseDefs SJ.Generated SJ.Layout SJ.Tables SJ.MachineSim

variable {E : Env}

/-! ## `closeQ` -/

theorem closeQ_nil : closeQ [] = none := by rw [closeQ.eq_def]

theorem closeQ_cons (c : UInt8) (r : List UInt8) : closeQ (c :: r) =
    if c == 34 then some 0 else if c == 92 then (match r with | [] => none | _ :: r' => (closeQ r').map (· + 2))
    else (closeQ r).map (· + 1) := by
  rw [closeQ.eq_def]
  rfl

theorem closeQ_app (t : List UInt8) : ∀ (s : List UInt8) (d : Nat), closeQ s = some d → closeQ (s ++ t) = some d := by
  intro s
  induction s using closeQ.induct with
  | case1 => intro d h; rw [closeQ_nil] at h; cases h
  | case2 c r hc =>
    intro d h
    rw [List.cons_append, closeQ_cons, if_pos hc]
    rw [closeQ_cons, if_pos hc] at h; exact h
  | case3 c h1 h2 => intro d h; rw [closeQ_cons, if_neg h1, if_pos h2] at h; cases h
  | case4 c h1 h2 c2 r ih =>
    intro d h
    rw [List.cons_append, List.cons_append, closeQ_cons, if_neg h1, if_pos h2]
    rw [closeQ_cons, if_neg h1, if_pos h2] at h
    simp only at h ⊢
    cases hr : closeQ r with
    | none => rw [hr] at h; cases h
    | some d' => rw [hr] at h; rw [ih d' hr]; exact h
  | case5 c r h1 h2 ih =>
    intro d h
    rw [List.cons_append, closeQ_cons, if_neg h1, if_neg h2]
    rw [closeQ_cons, if_neg h1, if_neg h2] at h
    cases hr : closeQ r with
    | none => rw [hr] at h; cases h
    | some d' => rw [hr] at h; rw [ih d' hr]; exact h

theorem closeQ_get : ∀ (s : List UInt8) (d : Nat), closeQ s = some d → s[d]? = some 34 := by
  intro s
  induction s using closeQ.induct with
  | case1 => intro d h; rw [closeQ_nil] at h; cases h
  | case2 c r hc =>
    intro d h
    rw [closeQ_cons, if_pos hc] at h
    cases h
    simpa using hc
  | case3 c h1 h2 => intro d h; rw [closeQ_cons, if_neg h1, if_pos h2] at h; cases h
  | case4 c h1 h2 c2 r ih =>
    intro d h
    rw [closeQ_cons, if_neg h1, if_pos h2] at h
    simp only at h
    cases hr : closeQ r with
    | none => rw [hr] at h; cases h
    | some d' =>
      rw [hr] at h
      simp only [Option.map_some, Option.some.injEq] at h
      subst h
      simpa using ih d' hr
  | case5 c r h1 h2 ih =>
    intro d h
    rw [closeQ_cons, if_neg h1, if_neg h2] at h
    cases hr : closeQ r with
    | none => rw [hr] at h; cases h
    | some d' =>
      rw [hr] at h
      simp only [Option.map_some, Option.some.injEq] at h
      subst h
      simpa using ih d' hr

/-- if the closing quote of `s ++ t` is not found inside `s`, it lies beyond `s` -/
theorem closeQ_beyond (t : List UInt8) : ∀ (s : List UInt8) (d : Nat), closeQ s = none → closeQ (s ++ t) = some d →
    s.length ≤ d := by
  intro s
  induction s using closeQ.induct with
  | case1 => intro d _ _; simp
  | case2 c r hc => intro d h; rw [closeQ_cons, if_pos hc] at h; cases h
  | case3 c h1 h2 =>
    intro d _ h
    cases t with
    | nil => rw [List.append_nil, closeQ_cons, if_neg h1, if_pos h2] at h; cases h
    | cons x t' =>
      rw [List.cons_append, List.nil_append, closeQ_cons, if_neg h1, if_pos h2] at h
      simp only at h
      cases hr : closeQ t' with
      | none => rw [hr] at h; cases h
      | some d' => rw [hr] at h; simp only [Option.map_some, Option.some.injEq] at h; simp; omega
  | case4 c h1 h2 c2 r ih =>
    intro d hn h
    rw [closeQ_cons, if_neg h1, if_pos h2] at hn
    rw [List.cons_append, List.cons_append, closeQ_cons, if_neg h1, if_pos h2] at h
    simp only at hn h
    cases hr : closeQ (r ++ t) with
    | none => rw [hr] at h; cases h
    | some d' =>
      rw [hr] at h
      simp only [Option.map_some, Option.some.injEq] at h
      have hn' : closeQ r = none := by
        cases h3 : closeQ r with
        | none => rfl
        | some x => rw [h3] at hn; cases hn
      have := ih d' hn' hr
      simp; omega
  | case5 c r h1 h2 ih =>
    intro d hn h
    rw [closeQ_cons, if_neg h1, if_neg h2] at hn
    rw [List.cons_append, closeQ_cons, if_neg h1, if_neg h2] at h
    cases hr : closeQ (r ++ t) with
    | none => rw [hr] at h; cases h
    | some d' =>
      rw [hr] at h
      simp only [Option.map_some, Option.some.injEq] at h
      have hn' : closeQ r = none := by
        cases h3 : closeQ r with
        | none => rfl
        | some x => rw [h3] at hn; cases hn
      have := ih d' hn' hr
      simp; omega

/-! ## `decodeString` reads nothing beyond the closing quote -/

/-- one iteration of the decoder loop, as a function of the recursive call -/
def decStep (a : Bytes) (start lim : Nat) (rec : Nat → Bytes → Option (Bytes × Nat)) (i : Nat) (out : Bytes) : Option (Bytes × Nat) :=
    if i - start ≥ lim then none else
    let c := a.getD i 0
    if c == 34 then some (out, i)
    else if c == 92 then
      let e := a.getD (i+1) 0
      if e == 117 then
        let dist := quoteDist a i
        if dist < 6 then none else
        let cp := hex4 a (i+2)
        if cp &&& 0xFFFFFC00 == 0xD800 then
          if dist < 12 then none
          else if a.getD (i+6) 0 != 92 ∨ a.getD (i+7) 0 != 117 then none
          else
            let cp2 := hex4 a (i+8)
            if (cp2 ||| cp) > 0xFFFF then none else
            let c32 : UInt32 := (((cp <<< 10) + 0xFCA00000) ||| (cp2 + 0xFFFF2400)) + 0x10000
            match encodeUTF8 c32 with
            | none => none
            | some bs => rec (i + 12) (out ++ bs.toArray)
        else
          match encodeUTF8 cp with
          | none => none
          | some bs => rec (i + 6) (out ++ bs.toArray)
      else
        let m := escapeMap e
        if m == 0 then none
        else rec (i + 2) (out.push m)
    else
      if i ≥ a.size then none
      else rec (i + 1) (out.push c)

theorem decodeStringGo_succ (a : Bytes) (start lim fuel i : Nat) (out : Bytes) :
    decodeStringGo a start lim (fuel + 1) i out = decStep a start lim (decodeStringGo a start lim fuel) i out := by
  conv => lhs; delta decodeStringGo
  simp only []
  generalize hB : (Nat.rec _ _ fuel : (Nat → Bytes → Option (Bytes × Nat)) ×' Nat.below (motive := fun _ => Nat → Bytes → Option (Bytes × Nat)) fuel) = B
  have hB1 : ∀ i out, B.1 i out = decodeStringGo a start lim fuel i out := by
    intro i out; rw [← hB]; delta decodeStringGo; rfl
  clear hB
  delta decodeStringGo._f
  simp only [hB1]
  delta decStep
  dsimp only
  split
  · rfl
  · split
    · rfl
    · split
      · split
        · split
          · rfl
          · split
            · split
              · rfl
              · split
                · rfl
                · split
                  · rfl
                  · cases encodeUTF8 ((hex4 a (i + 2) <<< 10 + 4238344192 ||| hex4 a (i + 8) + 4294910976) + 65536) <;> rfl
            · cases encodeUTF8 (hex4 a (i + 2)) <;> rfl
        · rfl
      · rfl

theorem quoteDist_lt (a : Bytes) (i k : Nat) (hk : k ≤ 12) :
    quoteDist a i < k ↔ ∃ d, d < k ∧ a.getD (i + d) 0 = 34 := by
  unfold quoteDist
  cases hf : (List.range 12).find? (fun d => a.getD (i + d) 0 == 34) with
  | none =>
    simp only [Option.getD_none]
    rw [List.find?_range_eq_none] at hf
    constructor
    · intro h; omega
    · rintro ⟨d, hd, hq⟩
      have := hf d (by omega)
      simp [hq] at this
  | some x =>
    simp only [Option.getD_some]
    rw [List.find?_range_eq_some] at hf
    obtain ⟨h1, h2, h3⟩ := hf
    constructor
    · intro h; exact ⟨x, h, by simpa using h1⟩
    · rintro ⟨d, hd, hq⟩
      apply Nat.lt_of_not_le
      intro hle
      by_cases hxd : d < x
      · have := h3 d hxd
        simp [hq] at this
      · omega

theorem quoteDist_congr (a b : Bytes) (i k : Nat) (hk : k ≤ 12)
    (h : ∀ d, d < k → a.getD (i + d) 0 = b.getD (i + d) 0) : quoteDist a i < k ↔ quoteDist b i < k := by
  rw [quoteDist_lt a i k hk, quoteDist_lt b i k hk]
  constructor
  · rintro ⟨d, hd, hq⟩; exact ⟨d, hd, by rw [← h d hd]; exact hq⟩
  · rintro ⟨d, hd, hq⟩; exact ⟨d, hd, by rw [h d hd]; exact hq⟩

theorem hex4_congr (a b : Bytes) (i : Nat) (h : ∀ d, d < 4 → a.getD (i + d) 0 = b.getD (i + d) 0) :
    SJ.hex4 a i = SJ.hex4 b i := by
  unfold SJ.hex4
  have h0 := h 0 (by omega)
  rw [Nat.add_zero] at h0
  rw [h0, h 1 (by omega), h 2 (by omega), h 3 (by omega)]

theorem decodeStringGo_zero (a : Bytes) (start lim i : Nat) (out : Bytes) :
    decodeStringGo a start lim 0 i out = none := rfl

/-- where a successful run of the decoder ends -/
theorem decode_bounds (a : Bytes) (start lim : Nat) : ∀ (fuel i : Nat) (out res : Bytes) (c' : Nat),
    decodeStringGo a start lim fuel i out = some (res, c') → i ≤ c' ∧ c' - start < lim ∧ a.getD c' 0 = 34 := by
  intro fuel
  induction fuel with
  | zero => intro i out res c' h; rw [decodeStringGo_zero] at h; cases h
  | succ f ih =>
    intro i out res c' h
    rw [decodeStringGo_succ] at h
    unfold decStep at h
    dsimp only at h
    split at h
    · cases h
    · rename_i hlim
      split at h
      · rename_i hq
        cases h
        exact ⟨Nat.le_refl _, by omega, by simpa using hq⟩
      · split at h
        · split at h
          · split at h
            · cases h
            · split at h
              · split at h
                · cases h
                · split at h
                  · cases h
                  · split at h
                    · cases h
                    · split at h
                      · cases h
                      · obtain ⟨r1, r2, r3⟩ := ih _ _ _ _ h; exact ⟨by omega, r2, r3⟩
              · split at h
                · cases h
                · obtain ⟨r1, r2, r3⟩ := ih _ _ _ _ h; exact ⟨by omega, r2, r3⟩
          · split at h
            · cases h
            · obtain ⟨r1, r2, r3⟩ := ih _ _ _ _ h; exact ⟨by omega, r2, r3⟩
        · split at h
          · cases h
          · obtain ⟨r1, r2, r3⟩ := ih _ _ _ _ h; exact ⟨by omega, r2, r3⟩

/-- A successful run of the decoder reads only positions up to the closing quote it returns: it gives the same
    result on every buffer that agrees with `a` up to there (with at least as much fuel). -/
theorem decode_local (a b : Bytes) (start lim : Nat) : ∀ (fuel fuel' i : Nat) (out res : Bytes) (c' : Nat),
    decodeStringGo a start lim fuel i out = some (res, c') → c' < fuel' + i →
    (∀ j, j ≤ c' → a.getD j 0 = b.getD j 0) → c' < b.size →
    decodeStringGo b start lim fuel' i out = some (res, c') ∧ i ≤ c' ∧ c' - start < lim := by
  intro fuel
  induction fuel with
  | zero => intro fuel' i out res c' h; rw [decodeStringGo_zero] at h; cases h
  | succ f ih =>
    intro fuel' i out res c' h hf hag hcb
    have hic := (decode_bounds a start lim (f + 1) i out res c' h).1
    obtain ⟨f', rfl⟩ : ∃ f', fuel' = f' + 1 := ⟨fuel' - 1, by omega⟩
    rw [decodeStringGo_succ] at h ⊢
    unfold decStep at h ⊢
    dsimp only at h ⊢
    split at h
    · cases h
    · rename_i hlim
      rw [if_neg hlim]
      split at h
      · rename_i hq
        cases h
        rw [← hag i (Nat.le_refl _), if_pos hq]
        exact ⟨rfl, Nat.le_refl _, by omega⟩
      · rename_i hq
        split at h
        · rename_i hbs
          split at h
          · rename_i hu
            split at h
            · cases h
            · rename_i hd6
              split at h
              · rename_i hsur
                split at h
                · cases h
                · rename_i hd12
                  split at h
                  · cases h
                  · rename_i h67
                    split at h
                    · cases h
                    · rename_i hff
                      split at h
                      · cases h
                      · rename_i bs hbs'
                        obtain ⟨r1, r2, r3⟩ := ih f' (i + 12) _ res c' h (by omega) hag hcb
                        have ag : ∀ d, d < 12 → a.getD (i + d) 0 = b.getD (i + d) 0 := fun d hd => hag _ (by omega)
                        have ag0 := ag 0 (by omega)
                        rw [Nat.add_zero] at ag0
                        have e2 : SJ.hex4 a (i + 2) = SJ.hex4 b (i + 2) :=
                          hex4_congr a b (i + 2) (fun d hd => by rw [Nat.add_assoc]; exact ag (2 + d) (by omega))
                        have e8 : SJ.hex4 a (i + 8) = SJ.hex4 b (i + 8) :=
                          hex4_congr a b (i + 8) (fun d hd => by rw [Nat.add_assoc]; exact ag (8 + d) (by omega))
                        have q6 : ¬ quoteDist b i < 6 := fun hh => hd6 ((quoteDist_congr a b i 6 (by omega) (fun d hd => ag d (by omega))).mpr hh)
                        have q12 : ¬ quoteDist b i < 12 := fun hh => hd12 ((quoteDist_congr a b i 12 (by omega) ag).mpr hh)
                        rw [← ag0, if_neg hq, if_pos hbs, ← ag 1 (by omega), if_pos hu, if_neg q6, ← e2, if_pos hsur, if_neg q12,
                          ← ag 6 (by omega), ← ag 7 (by omega), if_neg h67, ← e8, if_neg hff, hbs']
                        exact ⟨r1, by omega, r3⟩
              · rename_i hsur
                split at h
                · cases h
                · rename_i bs hbs'
                  obtain ⟨r1, r2, r3⟩ := ih f' (i + 6) _ res c' h (by omega) hag hcb
                  have ag : ∀ d, d < 6 → a.getD (i + d) 0 = b.getD (i + d) 0 := fun d hd => hag _ (by omega)
                  have ag0 := ag 0 (by omega)
                  rw [Nat.add_zero] at ag0
                  have e2 : SJ.hex4 a (i + 2) = SJ.hex4 b (i + 2) :=
                    hex4_congr a b (i + 2) (fun d hd => by rw [Nat.add_assoc]; exact ag (2 + d) (by omega))
                  have q6 : ¬ quoteDist b i < 6 := fun hh => hd6 ((quoteDist_congr a b i 6 (by omega) ag).mpr hh)
                  rw [← ag0, if_neg hq, if_pos hbs, ← ag 1 (by omega), if_pos hu, if_neg q6, ← e2, if_neg hsur, hbs']
                  exact ⟨r1, by omega, r3⟩
          · rename_i hu
            split at h
            · cases h
            · rename_i hm
              obtain ⟨r1, r2, r3⟩ := ih f' (i + 2) _ res c' h (by omega) hag hcb
              have ag0 := hag i (by omega)
              have ag1 := hag (i + 1) (by omega)
              rw [← ag0, if_neg hq, if_pos hbs, ← ag1, if_neg hu, if_neg hm]
              exact ⟨r1, by omega, r3⟩
        · rename_i hbs
          split at h
          · cases h
          · rename_i hsz
            obtain ⟨r1, r2, r3⟩ := ih f' (i + 1) _ res c' h (by omega) hag hcb
            have ag0 := hag i (by omega)
            have hib : ¬ i ≥ b.size := by omega
            rw [← ag0, if_neg hq, if_neg hbs, if_neg hib]
            exact ⟨r1, by omega, r3⟩

theorem decodeString_local (a b : Bytes) (start lim : Nat) (res : Bytes) (c' : Nat)
    (h : decodeString a start lim = some (res, c')) (hag : ∀ j, j ≤ c' → a.getD j 0 = b.getD j 0) (hcb : c' < b.size) :
    decodeString b start lim = some (res, c') := by
  unfold decodeString at h ⊢
  exact (decode_local a b start lim _ (b.size + 64) start #[] res c' h (by omega) hag hcb).1

theorem decodeString_bounds (a : Bytes) (start lim : Nat) (res : Bytes) (c' : Nat)
    (h : decodeString a start lim = some (res, c')) : start ≤ c' ∧ c' - start < lim ∧ a.getD c' 0 = 34 ∧ c' < a.size := by
  unfold decodeString at h
  obtain ⟨h1, h2, h3⟩ := decode_bounds a start lim _ _ _ _ _ h
  refine ⟨h1, h2, h3, ?_⟩
  apply Nat.lt_of_not_le
  intro hle
  rw [Array.getD_eq_getD_getElem?, Array.getElem?_eq_none hle] at h3
  exact absurd h3 (by decide)

theorem decodeString_lim0 (a : Bytes) (start : Nat) : decodeString a start 0 = none := by
  unfold decodeString
  rw [decodeStringGo_succ]
  unfold decStep
  rw [if_pos (by omega)]

/-! ## the next index after a token -/

/-- after a token ending at `p'` (scanner between tokens): skip white space to `q`; either `q` is the next entry of the
    pairs list, or the message ends -/
theorem next_idx {a e p' : Nat} (W : Win E a e) (ha : a ≤ p') (hp : p' ≤ e) (hr : E.Rdy p') :
    ∃ q, p' ≤ q ∧ q ≤ e ∧ Spec.skipWs (E.seg e p') = E.seg e q ∧ E.Rdy q ∧ E.c q = E.c p' ∧ E.err q = E.err p' ∧
      (q < e → Spec.isWs (E.b q) = false) ∧
      ((q < E.msg.size ∧ ∃ pk, E.L.drop (E.c p') = (q, pk) :: E.L.drop (E.c q + 1) ∧ E.c (q + 1) = E.c q + 1 ∧
          PeekInfo E q pk (E.L.drop (E.c q + 1))) ∨
       (q = E.msg.size ∧ q = e ∧ E.L.drop (E.c p') = [])) := by
  obtain ⟨q, h1, h2, h3, h4, h5, h6, h7⟩ := skipWs_sim W (e - p') p' rfl ha hp hr
  refine ⟨q, h1, h2, h3, h4, h5, h6, h7, ?_⟩
  by_cases hqe : q < e
  · left
    have hqs : q < E.msg.size := Nat.lt_of_lt_of_le hqe W.he
    obtain ⟨pk, g1, g2, g3⟩ := tok_at hqs h4 (by rw [← isWs_eq]; exact h7 hqe)
    exact ⟨hqs, pk, by rw [← h5]; exact g1, g2, g3⟩
  · have hq : q = e := by omega
    rcases W.stop with hs | ⟨hnd, hs⟩
    · right
      refine ⟨by omega, hq, ?_⟩
      rw [← h5, hq, hs]; exact drop_end
    · by_cases hes : e < E.msg.size
      · left
        subst hq
        obtain ⟨k1, k2, k3⟩ := E.SF.nl q hes h4 hnd hs
        obtain ⟨pk, g1, g2, g3⟩ := drop_at hes k1
        exact ⟨hes, pk, by rw [← h5]; exact g1, g2, g3⟩
      · right
        have : e = E.msg.size := by have := W.he; omega
        refine ⟨by omega, hq, ?_⟩
        rw [← h5, hq, this]; exact drop_end

/-! ## strings on a window -/

/-- the message cut at the window end -/
def winArr (E : Env) (e : Nat) : Bytes := (E.msg.toList.take e).toArray

theorem winArr_drop (e p : Nat) : (winArr E e).toList.drop p = E.seg e p := rfl

theorem winArr_size {e : Nat} (he : e ≤ E.msg.size) : (winArr E e).size = e := by
  simp [winArr]; omega

theorem winArr_get {e j : Nat} (he : e ≤ E.msg.size) (hj : j < e) : (winArr E e).getD j 0 = E.msg.getD j 0 := by
  have h1 : j < (winArr E e).size := by rw [winArr_size he]; exact hj
  have h2 : j < E.msg.size := by omega
  rw [Array.getD_eq_getD_getElem?, Array.getD_eq_getD_getElem?, Array.getElem?_eq_getElem h1, Array.getElem?_eq_getElem h2]
  simp [winArr]

theorem seg_getD {e p k : Nat} (he : e ≤ E.msg.size) (h : p + k < e) : (E.seg e p).getD k 0 = E.b (p + k) := by
  rw [List.getD_eq_getElem?_getD, seg_get he h]; rfl

theorem getLastD_of_get {α : Type} (l : List α) (k : Nat) (x d : α) (h : l[k]? = some x) (hl : l.length = k + 1) :
    l.getLastD d = x := by
  obtain ⟨h1, h2⟩ := List.getElem?_eq_some_iff.mp h
  have hne : l ≠ [] := by intro hh; rw [hh] at hl; simp at hl
  rw [List.getLastD_eq_getLast?, List.getLast?_eq_some_getLast hne, Option.getD_some, List.getLast_eq_getElem]
  rw [← h2]; congr 1; omega

/-- the scanner over a closed string at `p` whose body closes at offset `d` (inside the window) -/
theorem str_scan {a e p d : Nat} (W : Win E a e) (hr : E.Rdy p) (hpe : p < e) (hq : E.b p = 34)
    (hc : closeQ (E.seg e (p + 1)) = some d) :
    p + 2 + d ≤ e ∧ E.Rdy (p + 2 + d) ∧ E.c (p + 2 + d) = E.c p + 1 ∧
    (∃ pk, E.L.drop (E.c p) = (p, pk) :: E.L.drop (E.c (p + 2 + d)) ∧ PeekInfo E p pk (E.L.drop (E.c (p + 2 + d)))) ∧
    (E.err (p + 2 + d) = true ↔ (E.err p = true ∨ ∃ j, j < d ∧ E.b (p + 1 + j) < 0x20)) := by
  have hps : p < E.msg.size := Nat.lt_of_lt_of_le hpe W.he
  have hd : d < e - (p + 1) := by
    have := closeQ_get _ _ hc
    obtain ⟨h1, _⟩ := List.getElem?_eq_some_iff.mp this
    rw [seg_length W.he] at h1; exact h1
  have hc' : closeQ (E.msg.toList.drop (p + 1)) = some d := by
    rw [tail_split (by omega) W.he]; exact closeQ_app _ _ _ hc
  obtain ⟨h1, h2, h3, h4, h5⟩ := E.SF.strClosed p d hps hr hq hc'
  have hnw : isWsByte (E.b p) = false := by rw [hq, classify_ws]; decide
  obtain ⟨pk, g1, g2, g3⟩ := tok_at hps hr hnw
  have hcn : E.c (p + 2 + d) = E.c (p + 1) :=
    E.SF.cnt_noemit (p + 1) (p + 2 + d) (by omega) (fun j hj1 hj2 => h2 j (by omega) (by omega))
  refine ⟨by omega, h3, by rw [hcn, g2], ⟨pk, ?_, ?_⟩, h5⟩
  · rw [hcn, g2]; exact g1
  · rw [hcn, g2]; exact g3

/-- a string cannot be the last index of a message stage 1 accepted -/
theorem last_not_str {p : Nat} (G : Glob E) (hps : p < E.msg.size) (hr : E.Rdy p) (hq : E.b p = 34)
    (hc : E.c E.msg.size = E.c p + 1) : False := by
  have hnw : isWsByte (E.b p) = false := by rw [hq, classify_ws]; decide
  have hidx := E.SF.idx_at p hps (E.SF.tokStart p hps hr hnw)
  have hlen : (indices E.nd E.msg).length = E.c p + 1 := by
    rw [← E.SF.cnt_size]; exact hc
  have := getLastD_of_get _ _ _ 0 hidx hlen
  have hl := G.last
  rw [this, hq] at hl
  rcases hl with hl | hl <;> exact absurd hl (by decide)

/-- outcome of the scan of a string token that the grammar accepts -/
theorem str_acc {a e p : Nat} (W : Win E a e) (hap : a ≤ p) (hr : E.Rdy p) (hpe : p < e) (hq : E.b p = 34)
    {fuel : Nat} {dec rest : List UInt8} (h : Spec.stringBody fuel (E.seg e (p + 1)) [] false = .acc dec rest) :
    ∃ p' pk, rest = E.seg e p' ∧ p + 2 ≤ p' ∧ p' ≤ e ∧ E.Rdy p' ∧ E.err p' = E.err p ∧ E.c p' = E.c p + 1 ∧
      E.L.drop (E.c p) = (p, pk) :: E.L.drop (E.c p') ∧
      ((∃ cl, decodeString E.msg (p + 1) pk = some (dec.toArray, cl)) ∨
       ((∀ x r, Spec.skipWs (E.seg e p') = x :: r → isMarkup x = false) ∧
        (Glob E → decodeString E.msg (p + 1) pk = none))) := by
  obtain ⟨d, h1, h2, h3, h4⟩ := E.STR.acc fuel _ dec rest h
  obtain ⟨g1, g2, g3, ⟨pk, g4, g5⟩, g6⟩ := str_scan W hr hpe hq h1
  have herr : E.err (p + 2 + d) = E.err p := by
    have hno : ¬ ∃ j, j < d ∧ E.b (p + 1 + j) < 0x20 := by
      rintro ⟨j, hj, hlt⟩
      apply h3 j hj
      rw [seg_getD W.he (by omega)]; exact hlt
    cases h0 : E.err p with
    | true => exact g6.mpr (Or.inl h0)
    | false =>
      cases h9 : E.err (p + 2 + d) with
      | false => rfl
      | true =>
        rcases g6.mp h9 with k | k
        · rw [h0] at k; cases k
        · exact absurd k hno
  have hdecode : ∀ lim, d < lim → decodeString E.msg (p + 1) lim = some (dec.toArray, p + 1 + d) := by
    intro lim hl
    have := h4 (winArr E e) (p + 1) lim (winArr_drop _ _) hl
    exact decodeString_local _ _ _ _ _ _ this (fun j hj => winArr_get W.he (by omega)) (by have := W.he; omega)
  refine ⟨p + 2 + d, pk, ?_, by omega, g1, g2, herr, g3, g4, ?_⟩
  · rw [h2, seg_drop]; congr 1; omega
  · obtain ⟨q, k1, k2, k3, k4, k5, k6, k7, k8⟩ := next_idx W (by omega) g1 g2
    rcases k8 with ⟨hqs, pk', k9, _, _⟩ | ⟨hqs, hqe, k9⟩
    · rcases g5 q pk' _ k9 with hpk | ⟨hpk, hm⟩
      · left; exact ⟨_, hdecode pk (by omega)⟩
      · right
        refine ⟨?_, fun _ => by rw [hpk]; exact decodeString_lim0 _ _⟩
        rcases hm with hm | hm
        · rw [hq, markup_spec] at hm; exact absurd hm (by decide)
        · intro x r hx
          rw [k3] at hx
          by_cases hqe : q < e
          · rw [seg_cons hqe W.he] at hx
            rw [← (List.cons.inj hx).1]; exact hm
          · rw [seg_nil (by omega)] at hx; cases hx
    · right
      refine ⟨?_, ?_⟩
      · intro x r hx
        rw [k3, seg_nil (by omega)] at hx; cases hx
      · intro G
        exfalso
        exact last_not_str G (Nat.lt_of_lt_of_le hpe W.he) hr hq (by rw [← hqs, k5, g3])

/-- a string token that the grammar rejects: the decoder fails on it (or stage 1 has failed) -/
theorem str_rej {a e p : Nat} (W : Win E a e) (hap : a ≤ p) (hr : E.Rdy p) (hpe : p < e) (hq : E.b p = 34)
    {fuel : Nat} (hf : (E.seg e (p + 1)).length < fuel)
    (h : Spec.stringBody fuel (E.seg e (p + 1)) [] false = .rej) :
    ∃ pk r, E.L.drop (E.c p) = (p, pk) :: r ∧ (Glob E → decodeString E.msg (p + 1) pk = none) := by
  have hps : p < E.msg.size := Nat.lt_of_lt_of_le hpe W.he
  have hnw : isWsByte (E.b p) = false := by rw [hq, classify_ws]; decide
  obtain ⟨pk0, t1, t2, t3⟩ := tok_at hps hr hnw
  have herrC : ∀ x, x ≤ E.msg.size → E.err x = true → Glob E → False := by
    intro x hx hex G
    have := E.SF.errMono x E.msg.size hx hex
    have h2 := G.err
    rw [show E.err E.msg.size = (σ E.nd E.msg E.msg.size).err from rfl] at h2
    rw [this] at h2; cases h2
  rcases E.STR.rej fuel _ hf h with hn | ⟨d, hd, hcase⟩
  · refine ⟨pk0, _, t1, fun G => ?_⟩
    exfalso
    have hsplit := tail_split (E := E) (e := e) (p := p + 1) (by omega) W.he
    cases hw : closeQ (E.msg.toList.drop (p + 1)) with
    | none =>
      have := E.SF.strOpen p hps hr hq hw
      rw [G.inQ] at this; cases this
    | some d' =>
      rw [hsplit] at hw
      have hle := closeQ_beyond _ _ _ hn hw
      have hget := closeQ_get _ _ hw
      rw [seg_length W.he] at hle
      -- the window ends before the message: the byte at `e` is a line feed inside the string body
      rcases W.stop with hs | ⟨_, hs⟩
      · have hnil : E.msg.toList.drop e = [] := by rw [hs]; exact List.drop_eq_nil_of_le (by simp)
        rw [hnil, List.append_nil, hn] at hw; cases hw
      · have hes : e < E.msg.size := by
          apply Nat.lt_of_not_le; intro hle'
          rw [List.drop_eq_nil_of_le (by simpa using hle'), List.append_nil] at hw
          rw [hn] at hw; cases hw
        have hne : d' ≠ e - (p + 1) := by
          intro heq
          rw [← hsplit, heq] at hget
          have h5 := seg_get (E := E) (e := E.msg.size) (p := p + 1) (k := e - (p + 1)) (Nat.le_refl _) (by omega)
          rw [seg_full, hget, show p + 1 + (e - (p + 1)) = e by omega, hs] at h5
          cases h5
        rw [← hsplit] at hw
        obtain ⟨s1, s2, s3, s4, s5⟩ := E.SF.strClosed p d' hps hr hq hw
        refine herrC (p + 2 + d') s1 (s5.mpr (Or.inr ⟨e - (p + 1), by omega, ?_⟩)) G
        rw [show p + 1 + (e - (p + 1)) = e by omega]
        have hs' : byteAt E.msg e = 10 := hs
        show byteAt E.msg e < 32
        rw [hs']; decide
  · obtain ⟨g1, g2, g3, ⟨pk, g4, g5⟩, g6⟩ := str_scan W hr hpe hq hd
    refine ⟨pk, _, g4, fun G => ?_⟩
    rcases hcase with ⟨j, hj, hlt⟩ | hnone
    · exfalso
      refine herrC (p + 2 + d) (by have := W.he; omega) (g6.mpr (Or.inr ⟨j, hj, ?_⟩)) G
      rw [seg_getD W.he (by omega)] at hlt; exact hlt
    · cases hdec : decodeString E.msg (p + 1) pk with
      | none => rfl
      | some rc =>
        exfalso
        obtain ⟨res, c'⟩ := rc
        obtain ⟨b1, b2, b3, b4⟩ := decodeString_bounds _ _ _ _ _ hdec
        obtain ⟨q, k1, k2, k3, k4, k5, k6, k7, k8⟩ := next_idx W (by omega) g1 g2
        rcases k8 with ⟨hqs, pk', k9, _, _⟩ | ⟨hqs, hqe, k9⟩
        · have hpk : pk = q - p := by
            rcases g5 q pk' _ k9 with hpk | ⟨hpk, _⟩
            · exact hpk
            · omega
          have hce : c' < e := by
            rcases W.stop with hs | ⟨_, hs⟩
            · omega
            · have : c' ≠ e := by
                intro heq; rw [heq] at b3
                have hs' : E.msg.getD e 0 = 10 := hs
                rw [hs'] at b3; cases b3
              omega
          have := decodeString_local E.msg (winArr E e) (p + 1) pk res c' hdec
            (fun j hj => (winArr_get W.he (by omega)).symm) (by rw [winArr_size W.he]; exact hce)
          rw [hnone (winArr E e) (p + 1) pk (winArr_drop _ _)] at this
          cases this
        · exact last_not_str G hps hr hq (by rw [← hqs, k5, g3])

end SJ.TokenSim
