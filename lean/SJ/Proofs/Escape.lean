import SJ.Proofs.Tables
import SJ.Spec.Json
/-
C10 / C04 — string escaping.

Part A (C04): the `\u` arithmetic of `SJ/Model/StringDec.lean`
  * `encodeUTF8_spec`     the assembly's UTF-8 encoder = Lean's own `String` encoder (by the four ranges)
  * `encodeUTF8_none`     and it refuses everything above U+10FFFF
  * `surrogate_combine`   the surrogate-pair arithmetic of `decodeString`
  * `hex4_spec`, `hex4_invalid`, `hex4_agrees_spec`   four hex digits, and why `> 0xFFFF` detects a bad digit
Part B (C10): `escapeByte` / `escapeBytes` (model of Go's `escapeBytes`, used by `MarshalJSON`)
  * `escapeBytes_eq`      the fold over the source is the concatenation of the per-byte outputs
  * `escape_roundtrip`    an independent RFC 8259 §7 byte-level `unescape` inverts it, for EVERY byte string
  * `escape_no_specials`  no raw control character; a quote only as the second byte of `\"`
Part C (C10): relation to the specification `Spec.stringBody`
  * `stringBody_escape_utf8`      marshalled body ++ `"` ++ rest is read back as the source, for every
                                  well-formed UTF-8 source (`WFUtf8`, phrased with `Spec.utf8Len`)
  * `stringBody_escape_ascii`     the ASCII special case
  * `stringBody_escape_not_utf8`  for every source that is NOT well-formed UTF-8 the outcome is `out`
  * `value_quoted`                the same through `Spec.value` and the model's `Iter.quoted`

No SAT-solver or compiled-evaluation tactic is used: every theorem here depends on `propext`,
`Classical.choice`, `Quot.sound` at most.  All statements are about the model's own definitions (`escapeByte`,
`escapeBytes`, `Iter.quoted`, `encodeUTF8`, `hex4`) and the specification's own (`Spec.stringBody`,
`Spec.value`, `Spec.utf8`, `Spec.hex4`, `Spec.utf8Len`); no proof-friendly re-definition was needed.
-/
namespace SJ.Escape
open SJ SJ.Tables

-- =====================================================================================================
-- Part A: C04, the `\u` arithmetic
-- =====================================================================================================

/-- `Spec.utf8` (defined through `String.singleton … |>.toUTF8`) is core's `String.utf8EncodeChar` -/
theorem utf8_eq (n : Nat) : Spec.utf8 n = String.utf8EncodeChar (Char.ofNat n) := by
  unfold Spec.utf8
  rw [String.singleton_eq_ofList, String.toUTF8_eq_toByteArray, String.toByteArray_ofList, List.utf8Encode_singleton,
    List.toList_data_toByteArray]

theorem ofNat_val (cp : UInt32) (h : cp.toNat.isValidChar) : (Char.ofNat cp.toNat).val.toNat = cp.toNat := by
  have : Char.ofNat cp.toNat = Char.ofNat (⟨cp, h⟩ : Char).toNat := rfl
  rw [this, Char.ofNat_toNat]

theorem low6 : ∀ x : UInt8, ((x &&& 63) ||| 128).toNat = x.toNat % 64 + 128 :=
  Tables.forall_u8 (by decide +kernel)

/-- **C04.** On every Unicode scalar value the assembly's encoder (`encodeUTF8`) produces exactly the bytes of
    Lean's own UTF-8 encoder.  Proof by the four length ranges, bytes compared as arithmetic on `cp.toNat`.
    (On surrogates D800–DFFF `encodeUTF8` still answers with three bytes: the model, like the assembly, has
    no surrogate check there; that is why the hypothesis is needed.) -/
theorem encodeUTF8_spec (cp : UInt32) (h1 : cp.toNat < 0x110000) (h2 : ¬(0xD800 ≤ cp.toNat ∧ cp.toNat < 0xE000)) :
    encodeUTF8 cp = some (Spec.utf8 cp.toNat) := by
  have hv : cp.toNat.isValidChar := by unfold Nat.isValidChar; omega
  have hval := ofNat_val cp hv
  rw [utf8_eq]
  unfold encodeUTF8 String.utf8EncodeChar
  simp only [hval, UInt32.lt_iff_toNat_lt, UInt32.le_iff_toNat_le, UInt32.reduceToNat]
  have e8 : ∀ a b : UInt8, a = b ↔ a.toNat = b.toNat := fun a b => UInt8.toNat_inj.symm
  split
  · rw [if_pos (by omega)]
    simp only [Option.some.injEq, List.cons.injEq, and_true, e8, UInt32.toNat_toUInt8, UInt8.toNat_ofNat']
  · split
    · rw [if_neg (by omega), if_pos (by omega)]
      simp only [Option.some.injEq, List.cons.injEq, and_true, e8, low6, UInt8.toNat_add, UInt32.toNat_toUInt8, UInt8.toNat_ofNat',
        UInt32.toNat_shiftRight, UInt32.reduceToNat, UInt8.reduceToNat, Nat.shiftRight_eq_div_pow, Nat.reduceMod, Nat.reducePow]
      omega
    · split
      · rw [if_neg (by omega), if_neg (by omega), if_pos (by omega)]
        simp only [Option.some.injEq, List.cons.injEq, and_true, e8, low6, UInt8.toNat_add, UInt32.toNat_toUInt8, UInt8.toNat_ofNat',
          UInt32.toNat_shiftRight, UInt32.reduceToNat, UInt8.reduceToNat, Nat.shiftRight_eq_div_pow, Nat.reduceMod, Nat.reducePow]
        omega
      · rw [if_pos (by omega), if_neg (by omega), if_neg (by omega), if_neg (by omega)]
        simp only [Option.some.injEq, List.cons.injEq, and_true, e8, low6, UInt8.toNat_add, UInt32.toNat_toUInt8, UInt8.toNat_ofNat',
          UInt32.toNat_shiftRight, UInt32.reduceToNat, UInt8.reduceToNat, Nat.shiftRight_eq_div_pow, Nat.reduceMod, Nat.reducePow]
        omega

/-- above U+10FFFF the encoder refuses -/
theorem encodeUTF8_none (cp : UInt32) (h : 0x110000 ≤ cp.toNat) : encodeUTF8 cp = none := by
  unfold encodeUTF8
  simp only [UInt32.lt_iff_toNat_lt, UInt32.le_iff_toNat_le, UInt32.reduceToNat]
  rw [if_neg (by omega), if_neg (by omega), if_neg (by omega), if_neg (by omega)]

/-- The surrogate-pair arithmetic of `decodeString` (`c32`), for a well-formed pair.  Proved over `Nat`
    (the `|||` is an addition because the two operands occupy disjoint bits). -/
theorem surrogate_combine (hi lo : UInt32) (h1 : 0xD800 ≤ hi.toNat) (h2 : hi.toNat < 0xDC00) (h3 : 0xDC00 ≤ lo.toNat)
    (h4 : lo.toNat < 0xE000) :
    ((((hi <<< 10) + 0xFCA00000) ||| (lo + 0xFFFF2400)) + 0x10000).toNat
      = 0x10000 + (hi.toNat - 0xD800) * 1024 + (lo.toNat - 0xDC00) := by
  have hx : ((hi <<< 10) + 0xFCA00000).toNat = 2 ^ 10 * (hi.toNat - 0xD800) := by
    simp only [UInt32.toNat_add, UInt32.toNat_shiftLeft, UInt32.reduceToNat, Nat.shiftLeft_eq, Nat.reduceMod, Nat.reducePow]
    omega
  have hy : (lo + 0xFFFF2400).toNat = lo.toNat - 0xDC00 := by
    simp only [UInt32.toNat_add, UInt32.reduceToNat]
    omega
  have hor : (((hi <<< 10) + 0xFCA00000) ||| (lo + 0xFFFF2400)).toNat = 2 ^ 10 * (hi.toNat - 0xD800) + (lo.toNat - 0xDC00) := by
    rw [UInt32.toNat_or, hx, hy, Nat.two_pow_add_eq_or_of_lt (by omega)]
  rw [UInt32.toNat_add, hor]
  simp only [UInt32.reduceToNat]
  omega

/-- Both range hypotheses on `lo` are needed: `decodeString` does not check that the second code unit is
    a low surrogate (it only checks `(cp2 ||| cp) ≤ 0xFFFF`), and then the same arithmetic wraps around:
    `\uD800\u0041` yields U+2441.  (`Spec.stringBody` classifies such input as `out`.) -/
theorem surrogate_combine_unchecked :
    let hi : UInt32 := 0xD800
    let lo : UInt32 := 0x0041
    ((((hi <<< 10) + 0xFCA00000) ||| (lo + 0xFFFF2400)) + 0x10000) = 0x2441 := by decide

/-- a `digittoval` entry is −1 or a nibble -/
theorem hexValSpec_cases : ∀ b : UInt8, hexValSpec b = 0xFFFFFFFF ∨ (hexValSpec b).toNat < 16 :=
  forall_u8 (by decide +kernel)

/-- the specification's `hexVal` and the assembly's table (`Tables.hexValSpec`) agree -/
theorem hexVal_eq : ∀ b : UInt8,
    Spec.hexVal b = if hexValSpec b = 0xFFFFFFFF then none else some (hexValSpec b).toNat :=
  forall_u8 (by decide +kernel)


/-- `hex4` over `Nat` (after `Tables.digitToVal_spec`) -/
theorem hex4_toNat (a b c d : UInt8) : (hex4 #[a,b,c,d] 0).toNat =
    ((hexValSpec a).toNat <<< 12 % 2^32) ||| ((hexValSpec b).toNat <<< 8 % 2^32) ||| ((hexValSpec c).toNat <<< 4 % 2^32)
      ||| (hexValSpec d).toNat := by
  simp [hex4, digitToVal_spec]

/-- **C04.** Four hex digits combine to the 16-bit number they denote. -/
theorem hex4_spec (a b c d : UInt8) (ha : hexValSpec a ≠ 0xFFFFFFFF) (hb : hexValSpec b ≠ 0xFFFFFFFF)
    (hc : hexValSpec c ≠ 0xFFFFFFFF) (hd : hexValSpec d ≠ 0xFFFFFFFF) :
    (hex4 #[a,b,c,d] 0).toNat = (hexValSpec a).toNat * 4096 + (hexValSpec b).toNat * 256 + (hexValSpec c).toNat * 16
      + (hexValSpec d).toNat ∧ (hex4 #[a,b,c,d] 0).toNat ≤ 0xFFFF := by
  have ha' := (hexValSpec_cases a).resolve_left ha
  have hb' := (hexValSpec_cases b).resolve_left hb
  have hc' := (hexValSpec_cases c).resolve_left hc
  have hd' := (hexValSpec_cases d).resolve_left hd
  rw [hex4_toNat]
  generalize (hexValSpec a).toNat = w at *
  generalize (hexValSpec b).toNat = x at *
  generalize (hexValSpec c).toNat = y at *
  generalize (hexValSpec d).toNat = z at *
  simp only [Nat.shiftLeft_eq, Nat.or_assoc]
  rw [Nat.mod_eq_of_lt (by omega), Nat.mod_eq_of_lt (by omega), Nat.mod_eq_of_lt (by omega)]
  rw [show y * 2 ^ 4 = 2 ^ 4 * y by omega, ← Nat.two_pow_add_eq_or_of_lt (by omega)]
  rw [show x * 2 ^ 8 = 2 ^ 8 * x by omega, ← Nat.two_pow_add_eq_or_of_lt (by omega)]
  rw [show w * 2 ^ 12 = 2 ^ 12 * w by omega, ← Nat.two_pow_add_eq_or_of_lt (by omega)]
  omega

/-- **C04.** If any of the four bytes is not a hex digit the combined value exceeds 0xFFFF — which is the
    test `decodeString` (and the assembly) uses to reject. -/
theorem hex4_invalid (a b c d : UInt8)
    (h : hexValSpec a = 0xFFFFFFFF ∨ hexValSpec b = 0xFFFFFFFF ∨ hexValSpec c = 0xFFFFFFFF ∨ hexValSpec d = 0xFFFFFFFF) :
    0xFFFF < (hex4 #[a,b,c,d] 0).toNat := by
  rw [hex4_toNat]
  rcases h with h | h | h | h <;> rw [h]
  · exact Nat.lt_of_lt_of_le (by decide) (Nat.le_trans (Nat.le_trans Nat.left_le_or Nat.left_le_or) Nat.left_le_or)
  · exact Nat.lt_of_lt_of_le (by decide) (Nat.le_trans (Nat.le_trans Nat.right_le_or Nat.left_le_or) Nat.left_le_or)
  · exact Nat.lt_of_lt_of_le (by decide) (Nat.le_trans Nat.right_le_or Nat.left_le_or)
  · exact Nat.lt_of_lt_of_le (by decide) Nat.right_le_or

/-- **C04.** Hence `hex4` followed by the `≤ 0xFFFF` test is exactly the specification's `Spec.hex4`. -/
theorem hex4_agrees_spec (a b c d : UInt8) (r : List UInt8) :
    Spec.hex4 (a :: b :: c :: d :: r) =
      if (hex4 #[a,b,c,d] 0).toNat ≤ 0xFFFF then some ((hex4 #[a,b,c,d] 0).toNat, r) else none := by
  by_cases h : hexValSpec a = 0xFFFFFFFF ∨ hexValSpec b = 0xFFFFFFFF ∨ hexValSpec c = 0xFFFFFFFF ∨ hexValSpec d = 0xFFFFFFFF
  · rw [if_neg (Nat.not_le.mpr (hex4_invalid a b c d h))]
    simp only [Spec.hex4, hexVal_eq]
    rcases h with h | h | h | h <;> simp only [h, if_true] <;> split <;> simp_all
  · simp only [not_or] at h
    obtain ⟨ha, hb, hc, hd⟩ := h
    have := hex4_spec a b c d ha hb hc hd
    rw [if_pos this.2, this.1]
    simp only [Spec.hex4, hexVal_eq, if_neg ha, if_neg hb, if_neg hc, if_neg hd]

-- =====================================================================================================
-- Part B: C10, `escapeByte` / `escapeBytes` and an RFC 8259 §7 unescape
-- =====================================================================================================

/-- value of one hexadecimal digit (RFC 8259 §7: `HEXDIG`, both cases) -/
def hexDigit (c : UInt8) : Option UInt8 :=
  if 48 ≤ c ∧ c ≤ 57 then some (c - 48)
  else if 65 ≤ c ∧ c ≤ 70 then some (c - 55)
  else if 97 ≤ c ∧ c ≤ 102 then some (c - 87)
  else none

/-- Byte-level unescape of a JSON string *body* (RFC 8259 §7), written independently of the model:
    the eight two-character escapes, `\\u00XX` with `XX < 0x80` (either case of hex digit), every other byte
    ≥ 0x20 except `"` and `\\` copied; `none` on a raw `"`, a raw byte < 0x20, a truncated or unknown
    escape, and on `\\uXXXX ≥ 0x80` (not needed for what `escapeBytes` emits; documented restriction). -/
def unescape : List UInt8 → Option (List UInt8)
  | [] => some []
  | c :: r =>
    if c == 92 then
      match r with
      | [] => none
      | e :: r' =>
        let simple (b : UInt8) := (unescape r').map (b :: ·)
        if e == 34 then simple 34
        else if e == 92 then simple 92
        else if e == 47 then simple 47
        else if e == 98 then simple 8
        else if e == 102 then simple 12
        else if e == 110 then simple 10
        else if e == 114 then simple 13
        else if e == 116 then simple 9
        else if e == 117 then
          match r' with
          | h3 :: h2 :: h1 :: h0 :: r'' =>
            if h3 == 48 && h2 == 48 then
              match hexDigit h1, hexDigit h0 with
              | some x, some y => if x < 8 then (unescape r'').map ((x * 16 + y) :: ·) else none
              | _, _ => none
            else none
          | _ => none
        else none
    else if c == 34 then none
    else if c < 0x20 then none
    else (unescape r).map (c :: ·)

/-- abbreviation: the per-byte outputs concatenated -/
def esc (s : List UInt8) : List UInt8 := (s.map escapeByte).flatten

/-- shape of what `escapeByte` emits, with everything a decoder needs to know about it -/
theorem escapeByte_shape : ∀ b : UInt8,
    (escapeByte b = [b] ∧ (b == 92) = false ∧ (b == 34) = false ∧ ¬ (b < 0x20)) ∨
    (b = 8 ∧ escapeByte b = [92, 98]) ∨ (b = 12 ∧ escapeByte b = [92, 102]) ∨ (b = 10 ∧ escapeByte b = [92, 110]) ∨
    (b = 13 ∧ escapeByte b = [92, 114]) ∨ (b = 34 ∧ escapeByte b = [92, 34]) ∨ (b = 9 ∧ escapeByte b = [92, 116]) ∨
    (b = 92 ∧ escapeByte b = [92, 92]) ∨
    (b < 0x20 ∧ escapeByte b = [92, 117, 48, 48, valToHex (b >>> 4), valToHex (b &&& 15)] ∧
      hexDigit (valToHex (b >>> 4)) = some (b >>> 4) ∧ hexDigit (valToHex (b &&& 15)) = some (b &&& 15) ∧
      (b >>> 4) < 8 ∧ (b >>> 4) * 16 + (b &&& 15) = b ∧
      Spec.hexVal (valToHex (b >>> 4)) = some (b.toNat / 16) ∧ Spec.hexVal (valToHex (b &&& 15)) = some (b.toNat % 16)) :=
  forall_u8 (by decide +kernel)

/-- one source byte: unescaping what `escapeByte` emitted gives the byte back, whatever follows -/
theorem unescape_escapeByte (b : UInt8) (t : List UInt8) :
    unescape (escapeByte b ++ t) = (unescape t).map (b :: ·) := by
  rcases escapeByte_shape b with h | h | h | h | h | h | h | h | h
  · obtain ⟨h1, h2, h3, h4⟩ := h
    rw [h1]
    rw [List.cons_append, List.nil_append, unescape.eq_def]
    simp only [h2, h3, h4, if_false, Bool.false_eq_true]
  · obtain ⟨rfl, h⟩ := h; rw [h, List.cons_append, List.cons_append, List.nil_append, unescape.eq_def]; simp
  · obtain ⟨rfl, h⟩ := h; rw [h, List.cons_append, List.cons_append, List.nil_append, unescape.eq_def]; simp
  · obtain ⟨rfl, h⟩ := h; rw [h, List.cons_append, List.cons_append, List.nil_append, unescape.eq_def]; simp
  · obtain ⟨rfl, h⟩ := h; rw [h, List.cons_append, List.cons_append, List.nil_append, unescape.eq_def]; simp
  · obtain ⟨rfl, h⟩ := h; rw [h, List.cons_append, List.cons_append, List.nil_append, unescape.eq_def]; simp
  · obtain ⟨rfl, h⟩ := h; rw [h, List.cons_append, List.cons_append, List.nil_append, unescape.eq_def]; simp
  · obtain ⟨rfl, h⟩ := h; rw [h, List.cons_append, List.cons_append, List.nil_append, unescape.eq_def]; simp
  · obtain ⟨_, h, h1, h2, h3, h4, _, _⟩ := h
    rw [h, unescape.eq_def]
    simp [h1, h2, h3, h4]

@[simp] theorem esc_nil : esc [] = [] := rfl
@[simp] theorem esc_cons (b : UInt8) (s : List UInt8) : esc (b :: s) = escapeByte b ++ esc s := by
  simp [esc]
theorem esc_append (s t : List UInt8) : esc (s ++ t) = esc s ++ esc t := by
  simp [esc]

/-- **C10.** Round trip for EVERY byte string (no UTF-8 or ASCII assumption). -/
theorem escape_roundtrip (s : List UInt8) : unescape ((s.map escapeByte).flatten) = some s := by
  show unescape (esc s) = some s
  induction s with
  | nil => rw [esc_nil, unescape.eq_def]
  | cons b s ih => rw [esc_cons, unescape_escapeByte, ih]; rfl

/-- **C10.** `escapeBytes dst src` appends to `dst` the concatenation of the per-byte outputs. -/
theorem escapeBytes_eq (dst src : Bytes) :
    (escapeBytes dst src).toList = dst.toList ++ (src.toList.map escapeByte).flatten := by
  unfold escapeBytes
  rw [← Array.foldl_toList]
  generalize src.toList = l
  induction l generalizing dst with
  | nil => simp
  | cons b l ih => simp [ih]

/-- **C10.** What is emitted for one byte contains no byte < 0x20, and contains a quotation mark only when it
    is the two bytes `\\"`.  (See also `Properties.C10.C10_escape_byte_safe`.) -/
theorem escape_no_specials (b : UInt8) :
    (∀ c ∈ escapeByte b, 0x20 ≤ c) ∧ (34 ∈ escapeByte b → escapeByte b = [92, 34]) := by
  have h : ∀ b : UInt8, (escapeByte b).all (fun c => 0x20 ≤ c) = true ∧
      ((escapeByte b).contains 34 = true → escapeByte b = [92, 34]) := forall_u8 (by decide +kernel)
  refine ⟨fun c hc => ?_, fun h34 => ?_⟩
  · have := List.all_eq_true.mp (h b).1 c hc
    simpa using this
  · exact (h b).2 (by simpa using h34)

/-- no raw control character anywhere in a marshalled string body -/
theorem esc_no_control (s : List UInt8) : ∀ c ∈ esc s, 0x20 ≤ c := by
  intro c hc
  simp only [esc, List.mem_flatten, List.mem_map] at hc
  obtain ⟨l, ⟨b, _, rfl⟩, hc⟩ := hc
  exact (escape_no_specials b).1 c hc

/-- `unescape` is not vacuous: it refuses a raw quotation mark, … -/
theorem unescape_raw_quote (r : List UInt8) : unescape (34 :: r) = none := by
  rw [unescape.eq_def]; simp

/-- … a raw control character, … -/
theorem unescape_raw_control (c : UInt8) (r : List UInt8) (h : c < 0x20) : unescape (c :: r) = none := by
  have h92 : (c == 92) = false := by
    have : ∀ c : UInt8, c < 0x20 → (c == 92) = false := forall_u8 (by decide +kernel)
    exact this c h
  rw [unescape.eq_def]
  simp only [h92, h, if_true, Bool.false_eq_true, if_false]
  split <;> rfl

/-- … a backslash at the end and an unknown escape letter (here: every letter that `escape_map`, the
    assembly's own table, maps to 0, other than `u`). -/
theorem unescape_bad_escape (e : UInt8) (r : List UInt8) (he : escapeSpec e = 0) (hu : e ≠ 117) :
    unescape (92 :: e :: r) = none ∧ unescape [92] = none := by
  have : ∀ e : UInt8, escapeSpec e = 0 → e ≠ 117 →
      (e == 34) = false ∧ (e == 92) = false ∧ (e == 47) = false ∧ (e == 98) = false ∧ (e == 102) = false ∧
      (e == 110) = false ∧ (e == 114) = false ∧ (e == 116) = false ∧ (e == 117) = false :=
    forall_u8 (by decide +kernel)
  obtain ⟨h1, h2, h3, h4, h5, h6, h7, h8, h9⟩ := this e he hu
  constructor
  · rw [unescape.eq_def]
    simp [h1, h2, h3, h4, h5, h6, h7, h8, h9]
  · rw [unescape.eq_def]; simp

-- =====================================================================================================
-- Part C: C10, the marshalled string body against `Spec.stringBody`
-- =====================================================================================================

/-- `Spec.utf8` of an ASCII code point is that byte (from `encodeUTF8_spec`) -/
theorem utf8_ascii (b : UInt8) (h : b < 0x80) : Spec.utf8 b.toNat = [b] := by
  have hb : b.toNat < 128 := by simpa [UInt8.lt_iff_toNat_lt] using h
  have := encodeUTF8_spec b.toUInt32 (by simp; omega) (by simp; omega)
  rw [UInt8.toNat_toUInt32] at this
  have h2 : encodeUTF8 b.toUInt32 = some [b] := by
    unfold encodeUTF8
    rw [if_pos (by simp [UInt32.lt_iff_toNat_lt]; omega)]
    simp
  rw [h2] at this
  exact (Option.some.inj this).symm

/-- one step of the specification on an unescaped ASCII byte -/
theorem stringBody_plain (fuel : Nat) (b : UInt8) (t acc : List UInt8) (o : Bool)
    (h1 : (b == 92) = false) (h2 : (b == 34) = false) (h3 : ¬ b < 0x20) (h4 : b < 0x80) :
    Spec.stringBody (fuel + 1) (b :: t) acc o = Spec.stringBody fuel t (b :: acc) o := by
  rw [Spec.stringBody.eq_def]
  simp only [h1, h2, h3, h4, if_false, if_true, Bool.false_eq_true]

/-- one step of the specification consumes exactly what `escapeByte` emitted for an ASCII byte -/
theorem stringBody_escapeByte (fuel : Nat) (b : UInt8) (t acc : List UInt8) (o : Bool) (hb : b < 0x80) :
    Spec.stringBody (fuel + 1) (escapeByte b ++ t) acc o = Spec.stringBody fuel t (b :: acc) o := by
  rcases escapeByte_shape b with h | h | h | h | h | h | h | h | h
  · obtain ⟨h1, h2, h3, h4⟩ := h
    rw [h1]
    exact stringBody_plain fuel b t acc o h2 h3 h4 hb
  · obtain ⟨rfl, h⟩ := h; rw [h, List.cons_append, List.cons_append, List.nil_append, Spec.stringBody.eq_def]; simp
  · obtain ⟨rfl, h⟩ := h; rw [h, List.cons_append, List.cons_append, List.nil_append, Spec.stringBody.eq_def]; simp
  · obtain ⟨rfl, h⟩ := h; rw [h, List.cons_append, List.cons_append, List.nil_append, Spec.stringBody.eq_def]; simp
  · obtain ⟨rfl, h⟩ := h; rw [h, List.cons_append, List.cons_append, List.nil_append, Spec.stringBody.eq_def]; simp
  · obtain ⟨rfl, h⟩ := h; rw [h, List.cons_append, List.cons_append, List.nil_append, Spec.stringBody.eq_def]; simp
  · obtain ⟨rfl, h⟩ := h; rw [h, List.cons_append, List.cons_append, List.nil_append, Spec.stringBody.eq_def]; simp
  · obtain ⟨rfl, h⟩ := h; rw [h, List.cons_append, List.cons_append, List.nil_append, Spec.stringBody.eq_def]; simp
  · obtain ⟨hlt, h, _, _, _, _, h5, h6⟩ := h
    have hn : b.toNat < 32 := by simpa [UInt8.lt_iff_toNat_lt] using hlt
    have hx : Spec.hex4 (48 :: 48 :: valToHex (b >>> 4) :: valToHex (b &&& 15) :: t) = some (b.toNat, t) := by
      have h0 : Spec.hexVal 48 = some 0 := by decide
      simp only [Spec.hex4, h0, h5, h6]
      have : 0 * 4096 + 0 * 256 + b.toNat / 16 * 16 + b.toNat % 16 = b.toNat := by omega
      rw [this]
    rw [h, Spec.stringBody.eq_def]
    simp +decide only [List.cons_append, List.nil_append, ↓reduceIte, hx, utf8_ascii b hb,
      List.reverse_cons, List.reverse_nil]
    rw [if_neg (by omega), if_neg (by omega)]

theorem of_ite_ne_zero {p : Prop} [Decidable p] {n : Nat} (h : (if p then n else 0) ≠ 0) : p := by
  by_cases hp : p
  · exact hp
  · rw [if_neg hp] at h; exact absurd rfl h

/-- what `Spec.utf8Len ≠ 0` at a lead byte ≥ 0x80 means: 2, 3 or 4 bytes, all ≥ 0x80, and the verdict
    depends on nothing after them -/
theorem utf8Len_cases (c : UInt8) (r : List UInt8) (hc : ¬ c < 0x80) (h : Spec.utf8Len (c :: r) ≠ 0) :
    (∃ b1 r', r = b1 :: r' ∧ Spec.utf8Len (c :: r) = 2 ∧ 0x80 ≤ b1 ∧ ∀ t, Spec.utf8Len (c :: b1 :: t) = 2) ∨
    (∃ b1 b2 r', r = b1 :: b2 :: r' ∧ Spec.utf8Len (c :: r) = 3 ∧ 0x80 ≤ b1 ∧ 0x80 ≤ b2 ∧
        ∀ t, Spec.utf8Len (c :: b1 :: b2 :: t) = 3) ∨
    (∃ b1 b2 b3 r', r = b1 :: b2 :: b3 :: r' ∧ Spec.utf8Len (c :: r) = 4 ∧ 0x80 ≤ b1 ∧ 0x80 ≤ b2 ∧ 0x80 ≤ b3 ∧
        ∀ t, Spec.utf8Len (c :: b1 :: b2 :: b3 :: t) = 4) := by
  simp only [Spec.utf8Len, if_neg hc] at h
  split at h
  · -- two bytes
    rename_i h2
    left
    split at h
    · rename_i b1 r'
      split at h
      · rename_i hb
        refine ⟨b1, r', rfl, ?_, hb.1, ?_⟩
        · simp only [Spec.utf8Len, if_neg hc, if_pos h2, if_pos hb]
        · intro t; simp only [Spec.utf8Len, if_neg hc, if_pos h2, if_pos hb]
      · exact absurd rfl h
    · exact absurd rfl h
  · rename_i h2
    split at h
    · -- three bytes
      rename_i h3
      right; left
      split at h
      · rename_i b1 b2 r'
        · have hb := of_ite_ne_zero h
          have hb1 : (128 : UInt8) ≤ b1 := by
            refine UInt8.le_trans ?_ hb.1
            split <;> decide
          refine ⟨b1, b2, r', rfl, ?_, hb1, hb.2.2.1, ?_⟩
          · simp only [Spec.utf8Len, if_neg hc, if_neg h2, if_pos h3, if_pos hb]
          · intro t; simp only [Spec.utf8Len, if_neg hc, if_neg h2, if_pos h3, if_pos hb]
      · exact absurd rfl h
    · rename_i h3
      split at h
      · rename_i h4
        right; right
        split at h
        · rename_i b1 b2 b3 r'
          · have hb := of_ite_ne_zero h
            have hb1 : (128 : UInt8) ≤ b1 := by
              refine UInt8.le_trans ?_ hb.1
              split <;> decide
            refine ⟨b1, b2, b3, r', rfl, ?_, hb1, hb.2.2.1, hb.2.2.2.2.1, ?_⟩
            · simp only [Spec.utf8Len, if_neg hc, if_neg h2, if_neg h3, if_pos h4, if_pos hb]
            · intro t; simp only [Spec.utf8Len, if_neg hc, if_neg h2, if_neg h3, if_pos h4, if_pos hb]
        · exact absurd rfl h
      · exact absurd rfl h

/-- Well-formed UTF-8 (Unicode Table 3-7), phrased with the specification's own `Spec.utf8Len`:
    the text splits into sequences each of which `utf8Len` accepts. -/
inductive WFUtf8 : List UInt8 → Prop
  | nil : WFUtf8 []
  | step (s : List UInt8) : Spec.utf8Len s ≠ 0 → WFUtf8 (s.drop (Spec.utf8Len s)) → WFUtf8 s

/-- inversion of `WFUtf8` -/
theorem wf_iff (s : List UInt8) :
    WFUtf8 s ↔ s = [] ∨ (Spec.utf8Len s ≠ 0 ∧ WFUtf8 (s.drop (Spec.utf8Len s))) := by
  constructor
  · intro h
    cases h with
    | nil => exact Or.inl rfl
    | step _ h1 h2 => exact Or.inr ⟨h1, h2⟩
  · rintro (rfl | ⟨h1, h2⟩)
    · exact WFUtf8.nil
    · exact WFUtf8.step s h1 h2

/-- bytes ≥ 0x80 are copied and are none of the special characters -/
theorem high_facts : ∀ c : UInt8, ¬ c < 0x80 →
    escapeByte c = [c] ∧ (c == 34) = false ∧ ¬ c < 0x20 ∧ (c == 92) = false :=
  forall_u8 (by decide +kernel)

/-- the first emitted byte is the source byte itself or a backslash -/
theorem escapeByte_head : ∀ x : UInt8, (escapeByte x = [x]) ∨ (∃ tl, escapeByte x = 92 :: tl) := by
  intro x
  rcases escapeByte_shape x with h | h | h | h | h | h | h | h | h
  · exact Or.inl h.1
  · exact Or.inr ⟨_, h.2⟩
  · exact Or.inr ⟨_, h.2⟩
  · exact Or.inr ⟨_, h.2⟩
  · exact Or.inr ⟨_, h.2⟩
  · exact Or.inr ⟨_, h.2⟩
  · exact Or.inr ⟨_, h.2⟩
  · exact Or.inr ⟨_, h.2⟩
  · exact Or.inr ⟨_, h.2.1⟩

/-- a byte ≥ 0x80 at the head of the marshalled stream is a source byte copied unchanged -/
theorem esc_head_high (r rest : List UInt8) (b1 : UInt8) (E : List UInt8) (hb : 0x80 ≤ b1)
    (h : esc r ++ 34 :: rest = b1 :: E) : ∃ r', r = b1 :: r' ∧ E = esc r' ++ 34 :: rest := by
  cases r with
  | nil =>
    rw [esc_nil, List.nil_append, List.cons.injEq] at h
    rw [← h.1] at hb
    exact absurd hb (by decide)
  | cons x r' =>
    rw [esc_cons] at h
    rcases escapeByte_head x with hx | ⟨tl, hx⟩
    · rw [hx, List.cons_append, List.nil_append, List.cons_append, List.cons.injEq] at h
      exact ⟨r', by rw [h.1], h.2.symm⟩
    · rw [hx, List.cons_append, List.cons_append, List.cons.injEq] at h
      rw [← h.1] at hb
      exact absurd hb (by decide)

theorem esc_high (b : UInt8) (r : List UInt8) (hb : 0x80 ≤ b) : esc (b :: r) = b :: esc r := by
  rw [esc_cons, (high_facts b (UInt8.not_lt.mpr hb)).1]; rfl

/-- the marshalled stream and the source agree on the sequence length at a lead byte -/
theorem utf8Len_esc (c : UInt8) (hc : ¬ c < 0x80) (r rest : List UInt8) :
    Spec.utf8Len (c :: (esc r ++ 34 :: rest)) = Spec.utf8Len (c :: r) := by
  by_cases h : Spec.utf8Len (c :: r) = 0
  · rw [h]
    apply Classical.byContradiction
    intro h'
    rcases utf8Len_cases c _ hc h' with ⟨b1, E, hE, _, h1, hall⟩ | ⟨b1, b2, E, hE, _, h1, h2, hall⟩ |
      ⟨b1, b2, b3, E, hE, _, h1, h2, h3, hall⟩
    · obtain ⟨r1, rfl, _⟩ := esc_head_high r rest b1 E h1 hE
      rw [hall] at h; exact absurd h (by decide)
    · obtain ⟨r1, rfl, hE1⟩ := esc_head_high r rest b1 _ h1 hE
      obtain ⟨r2, rfl, _⟩ := esc_head_high r1 rest b2 _ h2 hE1.symm
      rw [hall] at h; exact absurd h (by decide)
    · obtain ⟨r1, rfl, hE1⟩ := esc_head_high r rest b1 _ h1 hE
      obtain ⟨r2, rfl, hE2⟩ := esc_head_high r1 rest b2 _ h2 hE1.symm
      obtain ⟨r3, rfl, _⟩ := esc_head_high r2 rest b3 _ h3 hE2.symm
      rw [hall] at h; exact absurd h (by decide)
  · rcases utf8Len_cases c r hc h with ⟨b1, r', rfl, hn, h1, hall⟩ | ⟨b1, b2, r', rfl, hn, h1, h2, hall⟩ |
      ⟨b1, b2, b3, r', rfl, hn, h1, h2, h3, hall⟩
    · rw [esc_high b1 r' h1, List.cons_append, hall, hall]
    · rw [esc_high b1 _ h1, esc_high b2 _ h2, List.cons_append, List.cons_append, hall, hall]
    · rw [esc_high b1 _ h1, esc_high b2 _ h2, esc_high b3 _ h3, List.cons_append, List.cons_append, List.cons_append,
        hall, hall]

/-- one step of the specification at a byte ≥ 0x80 of the marshalled stream -/
theorem stringBody_high (fuel : Nat) (c : UInt8) (r rest acc : List UInt8) (o : Bool) (hc : ¬ c < 0x80) :
    Spec.stringBody (fuel + 1) (esc (c :: r) ++ 34 :: rest) acc o =
      if Spec.utf8Len (c :: r) = 0 then Spec.stringBody fuel (esc r ++ 34 :: rest) acc true
      else Spec.stringBody fuel (esc ((c :: r).drop (Spec.utf8Len (c :: r))) ++ 34 :: rest)
            (((c :: r).take (Spec.utf8Len (c :: r))).reverse ++ acc) o := by
  obtain ⟨_, f1, f2, f3⟩ := high_facts c hc
  rw [esc_high c r (UInt8.not_lt.mp hc), List.cons_append, Spec.stringBody.eq_def]
  simp only [f1, f2, f3, hc, if_false, Bool.false_eq_true, utf8Len_esc c hc r rest]
  by_cases h : Spec.utf8Len (c :: r) = 0
  · simp [h]
  · rw [if_neg h]
    rcases utf8Len_cases c r hc h with ⟨b1, r', rfl, hn, h1, hall⟩ | ⟨b1, b2, r', rfl, hn, h1, h2, hall⟩ |
      ⟨b1, b2, b3, r', rfl, hn, h1, h2, h3, hall⟩
    · rw [hn, esc_high b1 r' h1]; simp
    · rw [hn, esc_high b1 _ h1, esc_high b2 _ h2]; simp
    · rw [hn, esc_high b1 _ h1, esc_high b2 _ h2, esc_high b3 _ h3]; simp

theorem utf8Len_ascii (c : UInt8) (r : List UInt8) (hc : c < 0x80) : Spec.utf8Len (c :: r) = 1 := by
  simp only [Spec.utf8Len, if_pos hc]

theorem utf8Len_le_length (s : List UInt8) : Spec.utf8Len s ≤ s.length := by
  cases s with
  | nil => simp [Spec.utf8Len]
  | cons c r =>
    by_cases hc : c < 0x80
    · rw [utf8Len_ascii c r hc]; simp
    · by_cases h : Spec.utf8Len (c :: r) = 0
      · omega
      · rcases utf8Len_cases c r hc h with ⟨b1, r', rfl, hn, _⟩ | ⟨b1, b2, r', rfl, hn, _⟩ | ⟨b1, b2, b3, r', rfl, hn, _⟩ <;>
          rw [hn] <;> simp

/-- The specification run on the marshalled body followed by the closing quote, for every source `s`,
    every accumulator and either state of the `outside` latch. -/
theorem stringBody_esc_aux (rest : List UInt8) : ∀ (n : Nat) (s : List UInt8), s.length ≤ n →
    ∀ (fuel : Nat) (acc : List UInt8) (o : Bool), s.length + 1 ≤ fuel →
      (o = false → WFUtf8 s → Spec.stringBody fuel (esc s ++ 34 :: rest) acc o = .acc (acc.reverse ++ s) rest) ∧
      (o = true ∨ ¬ WFUtf8 s → Spec.stringBody fuel (esc s ++ 34 :: rest) acc o = .out) := by
  intro n
  induction n with
  | zero =>
    intro s hs fuel acc o hf
    have : s = [] := List.eq_nil_of_length_eq_zero (by omega)
    subst this
    obtain ⟨f, rfl⟩ : ∃ f, fuel = f + 1 := ⟨fuel - 1, by omega⟩
    rw [esc_nil, List.nil_append, Spec.stringBody.eq_def]
    refine ⟨fun ho _ => by simp [ho], fun h => ?_⟩
    rcases h with ho | h
    · simp [ho]
    · exact absurd WFUtf8.nil h
  | succ n ih =>
    intro s hs fuel acc o hf
    cases s with
    | nil => exact ih [] (by simp) fuel acc o hf
    | cons c r =>
      obtain ⟨f, rfl⟩ : ∃ f, fuel = f + 1 := ⟨fuel - 1, by omega⟩
      simp only [List.length_cons] at hs hf
      by_cases hc : c < 0x80
      · -- ASCII byte, possibly escaped
        have hwf : WFUtf8 (c :: r) ↔ WFUtf8 r := by
          rw [wf_iff (c :: r), utf8Len_ascii c r hc]
          simp
        rw [esc_cons, List.append_assoc, stringBody_escapeByte f c _ acc o hc, hwf]
        have := ih r (by omega) f (c :: acc) o (by omega)
        simpa using this
      · rw [stringBody_high f c r rest acc o hc]
        by_cases h0 : Spec.utf8Len (c :: r) = 0
        · rw [if_pos h0]
          have hwf : ¬ WFUtf8 (c :: r) := by
            rw [wf_iff]; simp [h0]
          have := (ih r (by omega) f acc true (by omega)).2 (Or.inl rfl)
          exact ⟨fun _ h => absurd h hwf, fun _ => this⟩
        · rw [if_neg h0]
          have hle := utf8Len_le_length (c :: r)
          have hpos : 0 < Spec.utf8Len (c :: r) := Nat.pos_of_ne_zero h0
          simp only [List.length_cons] at hle
          have hwf : WFUtf8 (c :: r) ↔ WFUtf8 ((c :: r).drop (Spec.utf8Len (c :: r))) := by
            rw [wf_iff (c :: r)]; simp [h0]
          have hlen : ((c :: r).drop (Spec.utf8Len (c :: r))).length = r.length + 1 - Spec.utf8Len (c :: r) := by
            simp
          have := ih ((c :: r).drop (Spec.utf8Len (c :: r))) (by omega) f
            (((c :: r).take (Spec.utf8Len (c :: r))).reverse ++ acc) o (by omega)
          rw [hwf]
          rw [List.reverse_append, List.reverse_reverse, List.append_assoc, List.take_append_drop] at this
          exact this

theorem wf_of_ascii (s : List UInt8) (h : ∀ b ∈ s, b < 0x80) : WFUtf8 s := by
  induction s with
  | nil => exact WFUtf8.nil
  | cons c r ih =>
    have hc : c < 0x80 := h c (by simp)
    refine WFUtf8.step _ (by rw [utf8Len_ascii c r hc]; decide) ?_
    rw [utf8Len_ascii c r hc]
    exact ih (fun b hb => h b (by simp [hb]))

/-- **C10, strings, full statement.**  For every source `s` that is well-formed UTF-8, the
    specification reads the marshalled body, followed by the closing quotation mark and anything, back as
    exactly `s` (fuel: one unit per source byte plus one is enough; the marshalled text is never shorter). -/
theorem stringBody_escape_utf8 (s : List UInt8) (hs : WFUtf8 s) (fuel : Nat) (hf : s.length + 1 ≤ fuel)
    (rest : List UInt8) :
    Spec.stringBody fuel ((s.map escapeByte).flatten ++ 34 :: rest) [] false = .acc s rest := by
  have := (stringBody_esc_aux rest s.length s (Nat.le_refl _) fuel [] false hf).1 rfl hs
  simpa [esc] using this

/-- the ASCII special case -/
theorem stringBody_escape_ascii (s : List UInt8) (hs : ∀ b ∈ s, b < 0x80) (fuel : Nat) (hf : s.length + 1 ≤ fuel)
    (rest : List UInt8) :
    Spec.stringBody fuel ((s.map escapeByte).flatten ++ 34 :: rest) [] false = .acc s rest :=
  stringBody_escape_utf8 s (wf_of_ascii s hs) fuel hf rest

/-- Conversely: when the source is not well-formed UTF-8 the marshalled text is still grammatical but
    `outside` the claim (bytes ≥ 0x80 are copied unchanged by `escapeBytes`). -/
theorem stringBody_escape_not_utf8 (s : List UInt8) (hs : ¬ WFUtf8 s) (fuel : Nat) (hf : s.length + 1 ≤ fuel)
    (rest : List UInt8) :
    Spec.stringBody fuel ((s.map escapeByte).flatten ++ 34 :: rest) [] false = .out := by
  have := (stringBody_esc_aux rest s.length s (Nat.le_refl _) fuel [] false hf).2 (Or.inr hs)
  simpa [esc] using this

theorem esc_length_ge (s : List UInt8) : s.length ≤ ((s.map escapeByte).flatten).length := by
  have h1 : ∀ b : UInt8, 1 ≤ (escapeByte b).length := forall_u8 (by decide +kernel)
  induction s with
  | nil => simp
  | cons b s ih =>
    have := h1 b
    simp only [List.map_cons, List.flatten_cons, List.length_append, List.length_cons]
    omega

/-- The same through `Spec.value` (whose own fuel for the string is `text length + 1`) and the model's
    `Iter.quoted`: what `MarshalJSON` emits for a string is a JSON string denoting that string. -/
theorem value_quoted (sb : Bytes) (hs : WFUtf8 sb.toList) (fuel : Nat) (rest : List UInt8) :
    Spec.value (fuel + 1) ((Iter.quoted #[] sb).toList ++ rest) = .acc (.str sb.toList) rest := by
  have hq : (Iter.quoted #[] sb).toList ++ rest = 34 :: ((sb.toList.map escapeByte).flatten ++ 34 :: rest) := by
    simp [Iter.quoted, escapeBytes_eq]
  have hlen := esc_length_ge sb.toList
  have := stringBody_escape_utf8 sb.toList hs
    ((34 :: ((sb.toList.map escapeByte).flatten ++ 34 :: rest)).length + 1)
    (by simp only [List.length_cons, List.length_append]; omega) rest
  rw [hq, Spec.value]
  have e1 : ((34 : UInt8) == 0x7B) = false := by decide
  have e2 : ((34 : UInt8) == 0x5B) = false := by decide
  have e3 : ((34 : UInt8) == 0x22) = true := by decide
  simp only [e1, e2, e3, if_true, if_false, Bool.false_eq_true, this]

end SJ.Escape
