import SJ.Model.Stream
/-
The chunker of `ParseNDStream` loses nothing, duplicates nothing and cuts only after a line feed, for every
fragmentation of the stream into reads.
-/
namespace SJ.Stream

/-- everything the reader still has to deliver -/
def Rd.rest (r : Rd) : List UInt8 := r.buffered ++ r.pending.flatten

theorem splitLF_some : ∀ (l a r : List UInt8), splitLF l = (a, some r) → a ++ r = l ∧ a.getLast? = some 10
  | [], a, r, h => by simp [splitLF] at h
  | c :: t, a, r, h => by
    simp only [splitLF] at h
    split at h
    · rename_i hc
      simp only [Prod.mk.injEq, Option.some.injEq] at h
      obtain ⟨h1, h2⟩ := h
      subst h1; subst h2; subst hc
      simp
    · simp only [Prod.mk.injEq] at h
      obtain ⟨h1, h2⟩ := h
      have ih := splitLF_some t (splitLF t).1 r (by rw [← h2])
      subst h1
      refine ⟨by simp [ih.1], ?_⟩
      cases hh : (splitLF t).1 with
      | nil => rw [hh] at ih; simp at ih
      | cons x xs => rw [hh] at ih; simpa [List.getLast?_cons_cons] using ih.2

theorem splitLF_none : ∀ (l a : List UInt8), splitLF l = (a, none) → a = l
  | [], a, h => by simp [splitLF] at h; exact h
  | c :: t, a, h => by
    simp only [splitLF] at h
    split at h
    · simp at h
    · simp only [Prod.mk.injEq] at h
      obtain ⟨h1, h2⟩ := h
      have ih := splitLF_none t (splitLF t).1 (by rw [← h2])
      rw [← h1, ih]

/-- `ReadBytes`: what it returns plus what is left is what was there; with the delimiter found the result ends
    in LF; otherwise the reader is exhausted. -/
theorem readLine_spec (fin : Fin) : ∀ (fuel : Nat) (r : Rd), r.pending.length < fuel →
    (readLine fin fuel r).1 ++ (readLine fin fuel r).2.1.rest = r.rest ∧
    (readLine fin fuel r).2.1.pending.length ≤ r.pending.length ∧
    ((readLine fin fuel r).2.2 = none → (readLine fin fuel r).1.getLast? = some 10) ∧
    ((readLine fin fuel r).2.2 ≠ none → (readLine fin fuel r).2.2 = some fin ∧ (readLine fin fuel r).2.1.rest = [])
  | 0, r, h => by omega
  | fuel + 1, r, h => by
    simp only [readLine]
    cases hsp : splitLF r.buffered with
    | mk a o =>
      cases o with
      | some rest =>
        have := splitLF_some _ _ _ hsp
        simp only [Rd.rest]
        refine ⟨by rw [← this.1]; simp, Nat.le_refl _, fun _ => this.2, fun h => absurd rfl h⟩
      | none =>
        have ha := splitLF_none _ _ hsp
        cases hp : r.pending with
        | nil =>
          simp only [Rd.rest, hp]
          refine ⟨by simp [ha], by simp, ?_, ?_⟩
          · intro h; cases h
          · intro _; exact ⟨trivial, by simp⟩
        | cons p ps =>
          have ih := readLine_spec fin fuel { buffered := p, pending := ps } (by rw [hp] at h; simp at h ⊢; omega)
          simp only [Rd.rest] at ih ⊢
          obtain ⟨i1, i2, i3, i4⟩ := ih
          refine ⟨?_, by simp at i2 ⊢; omega, ?_, i4⟩
          · rw [List.append_assoc, i1, ha, hp]; simp
          · intro he
            have := i3 he
            cases hl : (readLine fin fuel { buffered := p, pending := ps }).1 with
            | nil => rw [hl] at this; simp at this
            | cons x xs => rw [hl] at this; simp [List.getLast?_append, this]

end SJ.Stream

namespace SJ.Stream

theorem getLast_append_ne {a l : List UInt8} (h : l.getLast? = some 10) : (a ++ l).getLast? = some 10 := by
  cases l with
  | nil => simp at h
  | cons x xs => simp [List.getLast?_append, h]

/-- with nothing buffered, a completed line must have come from the underlying reader -/
theorem readLine_consumes (fin : Fin) : ∀ (fuel : Nat) (r : Rd), r.buffered = [] → (readLine fin fuel r).2.2 = none →
    (readLine fin fuel r).2.1.pending.length < r.pending.length
  | 0, r, _, h => by simp [readLine] at h
  | fuel + 1, r, hb, h => by
    simp only [readLine, hb, splitLF] at h ⊢
    cases hp : r.pending with
    | nil => simp [hp] at h
    | cons p ps =>
      simp only [hp] at h ⊢
      by_cases hf : ps.length < fuel
      · have := (readLine_spec fin fuel { buffered := p, pending := ps } hf).2.1
        simp at this ⊢; omega
      · -- fuel exhausted inside: cannot return `none`
        have : ∀ (f : Nat) (q : Rd), (readLine fin f q).2.1.pending.length ≤ q.pending.length := by
          intro f
          induction f with
          | zero => intro q; simp [readLine]
          | succ f ih =>
            intro q
            simp only [readLine]
            cases hsp : splitLF q.buffered with
            | mk a o =>
              cases o with
              | some rest => simp
              | none =>
                cases hq : q.pending with
                | nil => simp
                | cons x xs => have := ih { buffered := x, pending := xs }; simp at this ⊢; omega
        have := this fuel { buffered := p, pending := ps }
        simp at this ⊢; omega

/-- One loop iteration that lets the loop go on: exactly one chunk, ending in LF, being the next bytes of the
    stream; at least one underlying read was consumed. -/
theorem iteration_continue (fin : Fin) (r : Rd) (h : (iteration fin r).2.2 = none) :
    ∃ c, (iteration fin r).1 = some c ∧ c ++ (iteration fin r).2.1.rest = r.rest ∧ c.getLast? = some 10 ∧
      (iteration fin r).2.1.pending.length < r.pending.length := by
  unfold iteration at h ⊢
  by_cases hb : r.buffered = []
  · simp only [hb, ne_eq, not_true_eq_false, if_false] at h ⊢
    cases hp : r.pending with
    | nil => cases fin <;> simp [hp] at h
    | cons p ps =>
      simp only [hp] at h ⊢
      have hl := readLine_spec fin (ps.length + 1) { buffered := [], pending := ps } (by simp)
      have hc := readLine_consumes fin (ps.length + 1) { buffered := [], pending := ps } rfl
      generalize readLine fin (ps.length + 1) { buffered := [], pending := ps } = res at hl hc h
      obtain ⟨l, r2, e2⟩ := res
      simp only [Rd.rest, List.nil_append] at hl
      obtain ⟨h1, h2, h3, h4⟩ := hl
      cases e2 with
      | some f => cases f <;> simp at h
      | none =>
        simp only at hc
        refine ⟨p ++ l, rfl, ?_, getLast_append_ne (h3 rfl), ?_⟩
        · simp only [Rd.rest, hb, hp, List.nil_append, List.flatten_cons]
          rw [List.append_assoc, h1]
        · have := hc trivial; simp at this ⊢; omega
  · simp only [ne_eq, hb, not_false_eq_true, if_true] at h ⊢
    have hl := readLine_spec fin (r.pending.length + 1) { r with buffered := [] } (by simp)
    have hc := readLine_consumes fin (r.pending.length + 1) { r with buffered := [] } rfl
    generalize readLine fin (r.pending.length + 1) { r with buffered := [] } = res at hl hc h
    obtain ⟨l, r2, e2⟩ := res
    simp only [Rd.rest, List.nil_append] at hl
    obtain ⟨h1, h2, h3, h4⟩ := hl
    cases e2 with
    | some f => cases f <;> simp at h
    | none =>
      simp only at hc
      refine ⟨r.buffered ++ l, rfl, ?_, getLast_append_ne (h3 rfl), by simpa using hc trivial⟩
      simp only [Rd.rest]
      rw [List.append_assoc, h1]

/-- The loop ends with EOF: the reader's end was EOF and the (possibly missing) last chunk is all that was left. -/
theorem iteration_eof (fin : Fin) (r : Rd) (h : (iteration fin r).2.2 = some .eof) :
    fin = .eof ∧ (iteration fin r).1.toList.flatten = r.rest := by
  unfold iteration at h ⊢
  by_cases hb : r.buffered = []
  · simp only [hb, ne_eq, not_true_eq_false, if_false] at h ⊢
    cases hp : r.pending with
    | nil => cases fin <;> simp [hp, Rd.rest, hb] at h ⊢
    | cons p ps =>
      simp only [hp] at h ⊢
      have hl := readLine_spec fin (ps.length + 1) { buffered := [], pending := ps } (by simp)
      generalize readLine fin (ps.length + 1) { buffered := [], pending := ps } = res at hl h
      obtain ⟨l, r2, e2⟩ := res
      simp only [Rd.rest, List.nil_append] at hl
      obtain ⟨h1, h2, h3, h4⟩ := hl
      cases e2 with
      | none => simp at h
      | some f =>
        have := h4 (by simp)
        cases f with
        | fail => simp at h
        | eof =>
          refine ⟨by simpa using this.1.symm, ?_⟩
          have e := this.2
          rw [e, List.append_nil] at h1
          simp [Rd.rest, hb, hp, h1]
  · simp only [ne_eq, hb, not_false_eq_true, if_true] at h ⊢
    have hl := readLine_spec fin (r.pending.length + 1) { r with buffered := [] } (by simp)
    generalize readLine fin (r.pending.length + 1) { r with buffered := [] } = res at hl h
    obtain ⟨l, r2, e2⟩ := res
    simp only [Rd.rest, List.nil_append] at hl
    obtain ⟨h1, h2, h3, h4⟩ := hl
    cases e2 with
    | none => simp at h
    | some f =>
      have := h4 (by simp)
      cases f with
      | fail => simp at h
      | eof =>
        refine ⟨by simpa using this.1.symm, ?_⟩
        have e := this.2
        rw [e, List.append_nil] at h1
        simp [Rd.rest, h1]

/-- The loop ends with a reader failure: no further chunk is delivered (a partial chunk is dropped). -/
theorem iteration_fail (fin : Fin) (r : Rd) (h : (iteration fin r).2.2 = some .fail) : (iteration fin r).1 = none := by
  unfold iteration at h ⊢
  by_cases hb : r.buffered = []
  · simp only [hb, ne_eq, not_true_eq_false, if_false] at h ⊢
    cases hp : r.pending with
    | nil => cases fin <;> simp [hp] at h ⊢
    | cons p ps =>
      simp only [hp] at h ⊢
      generalize readLine fin (ps.length + 1) { buffered := [], pending := ps } = res at h
      obtain ⟨l, r2, e2⟩ := res
      cases e2 with
      | none => simp at h
      | some f => cases f <;> simp at h ⊢
  · simp only [ne_eq, hb, not_false_eq_true, if_true] at h ⊢
    generalize readLine fin (r.pending.length + 1) { r with buffered := [] } = res at h
    obtain ⟨l, r2, e2⟩ := res
    cases e2 with
    | none => simp at h
    | some f => cases f <;> simp at h ⊢

/-- **Partition and line cut, for every fragmentation.** The chunks handed to the parsers, concatenated, are a
    prefix of the stream (the whole stream when the reader ends with EOF); every chunk but the last ends with a
    line feed; on a reader failure the stream's end is reported as failure. -/
theorem chunks_spec (fin : Fin) : ∀ (fuel : Nat) (r : Rd), r.pending.length < fuel →
    (∃ tail, (chunks fin fuel r).1.flatten ++ tail = r.rest) ∧
    ((chunks fin fuel r).2 = .eof → fin = .eof ∧ (chunks fin fuel r).1.flatten = r.rest) ∧
    (∀ c ∈ (chunks fin fuel r).1.dropLast, c.getLast? = some 10) ∧
    ((chunks fin fuel r).2 = .fail → fin = .fail)
  | 0, r, h => by omega
  | fuel + 1, r, h => by
    simp only [chunks]
    generalize hit : iteration fin r = it
    obtain ⟨c, r', e⟩ := it
    cases e with
    | some f =>
      simp only
      cases f with
      | eof =>
        have := iteration_eof fin r (by rw [hit])
        rw [hit] at this
        refine ⟨⟨[], by simp [this.2]⟩, fun _ => this, ?_, fun h => by cases h⟩
        intro x hx
        cases c <;> simp at hx
      | fail =>
        have := iteration_fail fin r (by rw [hit])
        rw [hit] at this
        simp only at this
        subst this
        refine ⟨⟨r.rest, by simp⟩, (fun h => by cases h), (by simp), fun _ => ?_⟩
        -- the failure can only come from the reader's end
        unfold iteration at hit
        by_cases hb : r.buffered = []
        · simp only [hb, ne_eq, not_true_eq_false, if_false] at hit
          cases hp : r.pending with
          | nil => cases fin <;> simp [hp] at hit ⊢
          | cons p ps =>
            simp only [hp] at hit
            have hl := readLine_spec fin (ps.length + 1) { buffered := [], pending := ps } (by simp)
            generalize readLine fin (ps.length + 1) { buffered := [], pending := ps } = res at hl hit
            obtain ⟨l, r2, e2⟩ := res
            cases e2 with
            | none => simp at hit
            | some f =>
              have := (hl.2.2.2 (by simp)).1
              cases f <;> simp at hit this ⊢
              exact this.symm
        · simp only [ne_eq, hb, not_false_eq_true, if_true] at hit
          have hl := readLine_spec fin (r.pending.length + 1) { r with buffered := [] } (by simp)
          generalize readLine fin (r.pending.length + 1) { r with buffered := [] } = res at hl hit
          obtain ⟨l, r2, e2⟩ := res
          cases e2 with
          | none => simp at hit
          | some f =>
            have := (hl.2.2.2 (by simp)).1
            cases f <;> simp at hit this ⊢
            exact this.symm
    | none =>
      simp only
      obtain ⟨ch, h1, h2, h3, h4⟩ := iteration_continue fin r (by rw [hit])
      rw [hit] at h1 h2 h4
      simp only at h1 h2 h4
      subst h1
      have ih := chunks_spec fin fuel r' (by omega)
      obtain ⟨⟨tail, i1⟩, i2, i3, i4⟩ := ih
      refine ⟨⟨tail, ?_⟩, ?_, ?_, i4⟩
      · simp only [Option.toList, List.singleton_append, List.flatten_cons, List.append_assoc]
        rw [i1, h2]
      · intro he
        have := i2 he
        refine ⟨this.1, ?_⟩
        simp only [Option.toList, List.singleton_append, List.flatten_cons]
        rw [this.2, h2]
      · intro x hx
        simp only [Option.toList, List.singleton_append] at hx
        cases hcs : (chunks fin fuel r').1 with
        | nil => rw [hcs] at hx; simp at hx
        | cons y ys =>
          rw [hcs] at hx
          simp only [List.dropLast_cons₂] at hx
          rcases List.mem_cons.mp hx with hx | hx
          · subst hx; exact h3
          · exact i3 x (by rw [hcs]; exact hx)

/-- the statement for a whole stream -/
theorem run_spec (reads : List (List UInt8)) (fin : Fin) :
    (∃ tail, (run reads fin).1.flatten ++ tail = reads.flatten) ∧
    ((run reads fin).2 = .eof → fin = .eof ∧ (run reads fin).1.flatten = reads.flatten) ∧
    (∀ c ∈ (run reads fin).1.dropLast, c.getLast? = some 10) ∧
    ((run reads fin).2 = .fail → fin = .fail) := by
  have := chunks_spec fin (reads.length + 2) { buffered := [], pending := reads } (by simp)
  simpa [run, Rd.rest] using this

end SJ.Stream
