import SJ.Proofs.WalkLayout
import SJ.Proofs.Subst
/-
`Tight` (no NOP between a key and its value) is what `NextElementBytes` relies on.  It is preserved by every
node replacement that keeps the node's position, so the edits of SJ/Proofs/Edit.lean keep documents tight.
-/
namespace SJ.WalkLayout
open SJ SJ.Layout

theorem substV_pos (q : Nat) (nv : LVal) (hq : nv.pos = q) (v : LVal) : (substV q nv v).pos = v.pos := by
  cases v <;> simp only [substV] <;> split <;> simp_all [LVal.pos]

mutual
theorem subst_tight (q : Nat) (nv : LVal) (hq : nv.pos = q) (hn : Tight nv) : ∀ v : LVal, Tight v → Tight (substV q nv v)
  | .null p, h => by simp only [substV]; split <;> simp_all [Tight]
  | .bool b p, h => by simp only [substV]; split <;> simp_all [Tight]
  | .int w p, h => by simp only [substV]; split <;> simp_all [Tight]
  | .uint w p, h => by simp only [substV]; split <;> simp_all [Tight]
  | .float b f p, h => by simp only [substV]; split <;> simp_all [Tight]
  | .str s p, h => by simp only [substV]; split <;> simp_all [Tight]
  | .arr p e es, h => by
    simp only [substV]; split
    · exact hn
    · simp only [Tight] at h ⊢; exact substs_tight q nv hq hn es h
  | .obj p e ms, h => by
    simp only [substV]; split
    · exact hn
    · simp only [Tight] at h ⊢; exact substsM_tight q nv hq hn ms h
theorem substs_tight (q : Nat) (nv : LVal) (hq : nv.pos = q) (hn : Tight nv) : ∀ vs : LVals, TightVs vs → TightVs (substVs q nv vs)
  | .nil, h => by simp [substVs, TightVs]
  | .cons v vs, h => by
    simp only [TightVs, substVs] at h ⊢
    exact ⟨subst_tight q nv hq hn v h.1, substs_tight q nv hq hn vs h.2⟩
theorem substsM_tight (q : Nat) (nv : LVal) (hq : nv.pos = q) (hn : Tight nv) : ∀ ms : LMems, TightMs ms → TightMs (substMs q nv ms)
  | .nil, h => by simp [substMs, TightMs]
  | .cons pk k v ms, h => by
    simp only [TightMs, substMs] at h ⊢
    exact ⟨by rw [substV_pos q nv hq]; exact h.1, subst_tight q nv hq hn v h.2.1, substsM_tight q nv hq hn ms h.2.2⟩
end

end SJ.WalkLayout
