import SJ.Proofs.GoApi
import SJ.Proofs.GoArrMarshal
import SJ.Proofs.MarshalExact
set_option autoImplicit false
set_option linter.unusedVariables false
set_option linter.unusedSimpArgs false
/-
GoElemsLemmas — groundwork for GoElems.lean (`Object.Parse`, `Elements.MarshalJSONBuffer`, parsed_object.go).

1. The representation of an `Elements` value in a store: `encElems` (names, types, iterators × 5) and `indexOf` (the
   `map[string]int` as the insertion-ordered association the statement `.mapSet` builds); `assocGet` is Go's
   `idx, ok := e.Index[key]`; `assocGet_insert` (the map-update law), `index_lookup` (LAST position per name).
2. `callFun_ne`/`call_ne`: the statement `name, t, err := o.NextElement(&tmp)` from any store holding `o`, `tmp` and the two
   buffers (the callee's frame is `neEnv` exactly; `GoApi.nextElement_sim` is applied there).
3. `callFun_mjI`/`call_mjI`: the statement `dst, err = elem.Iter.MarshalJSONBuffer(dst)` (receiver `elem.Iter`, a copy of
   the i-th element) — `GoArrMarshal.mj_exec` on the callee's frame `GoMarshal.initEnv`.
-/
namespace SJ.GoElems
open SJ SJ.GoSem SJ.Generated SJ.GoIter SJ.GoObject

/-! ## the `Index` map as an insertion-ordered association -/

/-- `m[k] = x` as the statement `.mapSet` does it: an existing key's value is replaced, a new key appended -/
def idxInsert (m : List Bytes × List Int) (k : Bytes) (x : Int) : List Bytes × List Int :=
  match m.1.findIdx? (· == k) with
  | some j => (m.1, m.2.set j x)
  | none => (m.1 ++ [k], m.2 ++ [x])

/-- `x, ok := m[k]` -/
def assocGet (m : List Bytes × List Int) (k : Bytes) : Option Int :=
  match m.1.findIdx? (· == k) with
  | some j => m.2[j]?
  | none => none

/-- insert the names in order, the i-th with value `start + i` -/
def idxFold (m : List Bytes × List Int) (start : Nat) : List Bytes → List Bytes × List Int
  | [] => m
  | n :: ns => idxFold (idxInsert m n start) (start + 1) ns

/-- the last position (counted from `s`) at which `k` occurs -/
def lastIdx (k : Bytes) : List Bytes → Nat → Option Nat
  | [], _ => none
  | n :: ns, s =>
    match lastIdx k ns (s + 1) with
    | some p => some p
    | none => if n = k then some s else none

theorem idxInsert_len (m : List Bytes × List Int) (k : Bytes) (x : Int) (h : m.1.length = m.2.length) :
    (idxInsert m k x).1.length = (idxInsert m k x).2.length := by
  unfold idxInsert
  split <;> simp [h]

theorem findIdx_lt (l : List Bytes) (k : Bytes) (j : Nat) (h : l.findIdx? (· == k) = some j) :
    ∃ hj : j < l.length, l[j] = k := by
  rw [List.findIdx?_eq_some_iff_getElem] at h
  obtain ⟨hj, h1, _⟩ := h
  exact ⟨hj, by simpa using h1⟩

/-- the map-update law -/
theorem assocGet_insert (m : List Bytes × List Int) (n : Bytes) (x : Int) (k : Bytes) (h : m.1.length = m.2.length) :
    assocGet (idxInsert m n x) k = if k = n then some x else assocGet m k := by
  unfold idxInsert
  cases hn : m.1.findIdx? (· == n) with
  | some j0 =>
    obtain ⟨hj0, hg0⟩ := findIdx_lt _ _ _ hn
    simp only [assocGet]
    by_cases hk : k = n
    · subst hk
      rw [hn]
      simp only [if_true]
      rw [List.getElem?_set_self (by omega)]
    · simp only [if_neg hk]
      cases hkk : m.1.findIdx? (· == k) with
      | none => rfl
      | some j =>
        obtain ⟨hj, hg⟩ := findIdx_lt _ _ _ hkk
        have hne : j0 ≠ j := by
          intro hh; subst hh; exact hk (hg.symm.trans hg0)
        simp only []
        rw [List.getElem?_set_ne hne]
  | none =>
    simp only [assocGet]
    rw [List.findIdx?_append]
    by_cases hk : k = n
    · subst hk
      rw [hn]
      simp [h]
    · simp only [if_neg hk]
      have hs : [n].findIdx? (· == k) = none := by
        simp [List.findIdx?_cons, hk, Ne.symm hk]
      rw [hs]
      cases hkk : m.1.findIdx? (· == k) with
      | none => simp
      | some j =>
        obtain ⟨hj, hg⟩ := findIdx_lt _ _ _ hkk
        simp only [Option.map_none, Option.or_none]
        rw [List.getElem?_append_left (by omega)]

theorem idxFold_len : ∀ (l : List Bytes) (m : List Bytes × List Int) (s : Nat), m.1.length = m.2.length →
    (idxFold m s l).1.length = (idxFold m s l).2.length
  | [], m, s, h => h
  | n :: ns, m, s, h => idxFold_len ns _ _ (idxInsert_len m n s h)

theorem assocGet_fold : ∀ (l : List Bytes) (m : List Bytes × List Int) (s : Nat) (k : Bytes), m.1.length = m.2.length →
    assocGet (idxFold m s l) k = match lastIdx k l s with | some p => some (p : Int) | none => assocGet m k
  | [], m, s, k, h => rfl
  | n :: ns, m, s, k, h => by
    rw [idxFold, assocGet_fold ns _ _ k (idxInsert_len m n s h), lastIdx]
    cases lastIdx k ns (s + 1) with
    | some p => rfl
    | none =>
      simp only []
      rw [assocGet_insert m n s k h]
      by_cases hk : k = n
      · subst hk; simp
      · simp [hk, Ne.symm hk]

theorem idxFold_snoc : ∀ (l : List Bytes) (m : List Bytes × List Int) (s : Nat) (n : Bytes),
    idxFold m s (l ++ [n]) = idxInsert (idxFold m s l) n ((s + l.length : Nat) : Int)
  | [], m, s, n => by simp [idxFold]
  | a :: r, m, s, n => by
    rw [List.cons_append, idxFold, idxFold, idxFold_snoc r]
    simp only [List.length_cons]
    rw [show s + 1 + r.length = s + (r.length + 1) by omega]

/-- what `lastIdx` finds -/
theorem lastIdx_spec (k : Bytes) : ∀ (l : List Bytes) (s : Nat),
    (lastIdx k l s = none ↔ k ∉ l) ∧
    ∀ p, lastIdx k l s = some p ↔ s ≤ p ∧ l[p - s]? = some k ∧ ∀ q, p - s < q → l[q]? ≠ some k
  | [], s => by simp [lastIdx]
  | n :: ns, s => by
    obtain ⟨ih1, ih2⟩ := lastIdx_spec k ns (s + 1)
    constructor
    · rw [lastIdx]
      cases hr : lastIdx k ns (s + 1) with
      | some p =>
        have := (ih2 p).mp hr
        have hm : k ∈ ns := List.mem_of_getElem? this.2.1
        simp [hm]
      | none =>
        have hm := ih1.mp hr
        by_cases hk : n = k
        · simp [hk]
        · simp [hk, hm, Ne.symm hk]
    · intro p
      rw [lastIdx]
      cases hr : lastIdx k ns (s + 1) with
      | some p' =>
        obtain ⟨a, b, c⟩ := (ih2 p').mp hr
        simp only [Option.some.injEq]
        constructor
        · intro hp
          subst hp
          refine ⟨by omega, ?_, ?_⟩
          · rw [show p' - s = (p' - (s + 1)) + 1 by omega, List.getElem?_cons_succ]; exact b
          · intro q hq
            obtain ⟨q', rfl⟩ : ∃ q', q = q' + 1 := ⟨q - 1, by omega⟩
            rw [List.getElem?_cons_succ]
            exact c q' (by omega)
        · rintro ⟨h1, h2, h3⟩
          -- both are the last occurrence
          by_cases hlt : p' < p
          · exfalso
            have : ns[p - (s + 1)]? = some k := by
              rw [show p - s = (p - (s + 1)) + 1 by omega, List.getElem?_cons_succ] at h2; exact h2
            exact c (p - (s + 1)) (by omega) this
          · by_cases hgt : p < p'
            · exfalso
              have := h3 (p' - s) (by omega)
              rw [show p' - s = (p' - (s + 1)) + 1 by omega, List.getElem?_cons_succ] at this
              exact this b
            · omega
      | none =>
        have hm := ih1.mp hr
        by_cases hk : n = k
        · simp only [hk, if_true, Option.some.injEq]
          constructor
          · intro hp
            subst hp
            refine ⟨Nat.le_refl _, by simp, ?_⟩
            intro q hq
            obtain ⟨q', rfl⟩ : ∃ q', q = q' + 1 := ⟨q - 1, by omega⟩
            rw [List.getElem?_cons_succ]
            intro hh
            exact hm (List.mem_of_getElem? hh)
          · rintro ⟨h1, h2, h3⟩
            by_cases hps : p = s
            · exact hps.symm
            · exfalso
              rw [show p - s = (p - (s + 1)) + 1 by omega, List.getElem?_cons_succ] at h2
              exact hm (List.mem_of_getElem? h2)
        · simp only [hk, if_false]
          constructor
          · intro h; cases h
          · rintro ⟨h1, h2, h3⟩
            exfalso
            by_cases hps : p = s
            · subst hps
              simp at h2
              exact hk h2
            · rw [show p - s = (p - (s + 1)) + 1 by omega, List.getElem?_cons_succ] at h2
              exact hm (List.mem_of_getElem? h2)

/-! ## an `Elements` value in a store -/

/-- the five integers an `Iter` is flattened into: `off, addNext, int(cur), int(t), lim` -/
def iterInts (i : Iter) : List Int := [(i.off : Int), i.addNext, toInt64 i.cur, (i.t.toNat : Int), (i.lim : Int)]

/-- `Elements []Element` as the three parallel lists of the translation -/
def encElems (es : Array View.Elem) : List Bytes × Bytes × List Int :=
  (es.toList.map (·.name), (es.toList.map (·.type)).toArray, es.toList.flatMap (fun e => iterInts e.iter))

/-- `Index map[string]int` after `Object.Parse`: the association the `.mapSet` sequence `Index[name_i] = i` builds -/
def indexOf (es : Array View.Elem) : List Bytes × List Int := idxFold ([], []) 0 (es.toList.map (·.name))

theorem encElems_empty : encElems #[] = ([], #[], []) := rfl
theorem indexOf_empty : indexOf #[] = ([], []) := rfl

theorem encElems_push (es : Array View.Elem) (e : View.Elem) :
    encElems (es.push e) = ((encElems es).1 ++ [e.name], (encElems es).2.1.push e.type, (encElems es).2.2 ++ iterInts e.iter) := by
  simp [encElems]

theorem indexOf_push (es : Array View.Elem) (e : View.Elem) :
    indexOf (es.push e) = idxInsert (indexOf es) e.name (es.size : Int) := by
  simp only [indexOf, Array.toList_push, List.map_append, List.map_cons, List.map_nil]
  rw [idxFold_snoc]
  simp

theorem encElems_len (es : Array View.Elem) : (encElems es).1.length = es.size := by simp [encElems]

theorem indexOf_len (es : Array View.Elem) : (indexOf es).1.length = (indexOf es).2.length :=
  idxFold_len _ _ _ rfl

/-- **`Elements.Lookup`**: looking a name up in the `Index` built by `Parse` gives the LAST position with that name
    (`none` iff no element has it) — what the model's comment says ("the Index map is derived: last index per name"). -/
theorem index_lookup (es : Array View.Elem) (k : Bytes) :
    (assocGet (indexOf es) k = none ↔ ∀ e ∈ es, e.name ≠ k) ∧
    (∀ x, assocGet (indexOf es) k = some x → ∃ p : Nat, x = (p : Int)) ∧
    ∀ p : Nat, assocGet (indexOf es) k = some (p : Int) ↔
      ∃ h : p < es.size, es[p].name = k ∧ ∀ q (hq : q < es.size), p < q → es[q].name ≠ k := by
  have hfold := assocGet_fold (es.toList.map (·.name)) ([], []) 0 k rfl
  have hnil : assocGet ([], []) k = none := rfl
  obtain ⟨s1, s2⟩ := lastIdx_spec k (es.toList.map (·.name)) 0
  have hget : ∀ q, (es.toList.map (·.name))[q]? = some k ↔ ∃ hq : q < es.size, es[q].name = k := by
    intro q
    simp only [List.getElem?_map, Array.getElem?_toList]
    by_cases hq : q < es.size
    · simp [hq]
    · simp [hq]
  unfold indexOf
  rw [hfold, hnil]
  refine ⟨?_, ?_, ?_⟩
  · cases hr : lastIdx k (es.toList.map (·.name)) 0 with
    | some p =>
      have := ((s2 p).mp hr).2.1
      simp only [Nat.sub_zero] at this
      obtain ⟨hq, hn⟩ := (hget p).mp this
      simp only [reduceCtorEq, false_iff]
      intro hall
      exact hall es[p] (Array.getElem_mem hq) hn
    | none =>
      have := s1.mp hr
      simp only [true_iff]
      intro e he hn
      apply this
      simp only [List.mem_map, Array.mem_toList_iff]
      exact ⟨e, he, hn⟩
  · intro x hx
    cases hr : lastIdx k (es.toList.map (·.name)) 0 with
    | some p => rw [hr] at hx; exact ⟨p, by simpa using hx.symm⟩
    | none => rw [hr] at hx; cases hx
  · intro p
    have hsp := s2 p
    simp only [Nat.sub_zero, Nat.zero_le, true_and] at hsp
    constructor
    · intro h
      have hl : lastIdx k (es.toList.map (·.name)) 0 = some p := by
        cases hr : lastIdx k (es.toList.map (·.name)) 0 with
        | some p' => rw [hr] at h; simp only [Option.some.injEq, Int.natCast_inj] at h; rw [h]
        | none => rw [hr] at h; cases h
      obtain ⟨a, b⟩ := hsp.mp hl
      obtain ⟨hq, hn⟩ := (hget p).mp a
      refine ⟨hq, hn, ?_⟩
      intro q hq' hpq hh
      exact b q hpq ((hget q).mpr ⟨hq', hh⟩)
    · rintro ⟨hq, hn, hlast⟩
      have : lastIdx k (es.toList.map (·.name)) 0 = some p := by
        apply hsp.mpr
        refine ⟨(hget p).mpr ⟨hq, hn⟩, ?_⟩
        intro q hpq hh
        obtain ⟨hq', hn'⟩ := (hget q).mp hh
        exact hlast q hq' hpq hn'
      rw [this]

/-! ## the call `name, t, err := o.NextElement(&tmp)` from any store holding `o`, `tmp` and the buffers -/

def sNE : Stmt := .callAssign ["name", "t", "err"] "o" "Object.NextElement" ["tmp"] []

/-- `callFun`'s own code after the callee `Object.NextElement` returned, for the call `o.NextElement(&tmp)` -/
def backNE (e : Env) : Out → Out
  | .ret s' rs =>
    (match copyFields s'.env "o" e "o" ["off", "lim"] with
     | some e2 =>
       (match copyPtrsBack s'.env e2 ["tmp"] [("dst", ["off", "addNext", "cur", "t", "lim"])] with
        | some e3 => .ret { env := copyGlobals s'.env e3 globalVars, tape := s'.tape } rs
        | none => .stuck "pointer arguments back")
     | none => .stuck "receiver back")
  | o => o

theorem goFuns_ne : goFuns "Object.NextElement" = some goObject_NextElement := rfl

/-- the callee's frame is `neEnv` exactly: nothing else of the caller's store reaches `NextElement` -/
theorem callFun_ne (pj : PJ) (e : Env) (v : View) (d : Iter) (f : Nat) (hv : viewAt e "o" = some v)
    (hd : iterAt e "tmp" = some d) (hS : e.get "Strings.B" = some (.bytes pj.strings))
    (hM : e.get "Message" = some (.bytes pj.msg)) :
    callFun goFuns f "o" "Object.NextElement" ["tmp"] [] ⟨e, pj.tape⟩ =
      backNE e (runFun goFuns goObject_NextElement f ⟨neEnv v d pj, pj.tape⟩) := by
  obtain ⟨v1, v2⟩ := viewAt_get_o _ _ hv
  obtain ⟨d1, d2, d3, d4, d5⟩ := iterAt_get _ _ _ hd
  simp only [String.reduceAppend] at d1 d2 d3 d4 d5
  rw [callFun, runFun]
  simp [goFuns_ne, goObject_NextElement, v1, v2, d1, d2, d3, d4, d5, hS, hM, copyPtrs, copyGlobals, globalVars, copyFields,
    bindParams, evalEs, Env.set, Env.get, neEnv, envOf, bufEnv, backNE]
  generalize exec goFuns f _ _ = out
  cases out <;> rfl

/-- the caller's store after `name, t, err := o.NextElement(&tmp)` -/
def afterNE (e : Env) (pj : PJ) (v' : View) (d' : Iter) (a b c : Val) : Env :=
  ((((((setIter ((e.set "o.off" (.int v'.off)).set "o.lim" (.int v'.lim)) "tmp" d').set "Strings.B"
    (.bytes pj.strings)).set "Message" (.bytes pj.msg)).set "name" a).set "t" b).set "err" c)

theorem backNE_ret (e : Env) (s' : GoSem.St) (a b c : Val) (pj : PJ) (v' : View) (d' : Iter) (h : NEInit pj v' d' s') :
    (match backNE e (.ret s' [a, b, c]) with
     | .ret s'' vs => (match assignTargets ["name", "t", "err"] vs s''.env with
        | some e4 => Out.normal { s'' with env := e4 }
        | none => .stuck "result arity")
     | o => o) = .normal ⟨afterNE e pj v' d' a b c, pj.tape⟩ := by
  obtain ⟨ht, hv, hd, hS, hM⟩ := h
  obtain ⟨v1, v2⟩ := viewAt_get_o _ _ hv
  obtain ⟨d1, d2, d3, d4, d5⟩ := iterAt_get_dst _ _ hd
  simp [backNE, copyFields, v1, v2, d1, d2, d3, d4, d5, hS, hM, ht, copyPtrsBack, copyGlobals, globalVars, afterNE, setIter,
    assignTargets]

/-- what the caller sees of `name, t, err := o.NextElement(&tmp)` -/
def NEPost (pj : PJ) (e : Env) (d : Iter) (o : Out) : Res (View × Option (Bytes × Iter × UInt8)) → Prop
  | .ok (v', none) => o = .normal ⟨afterNE e pj v' d (.bytes #[]) (.u8 typeNone) (.bool false), pj.tape⟩
  | .ok (v', some (nm, d', ty)) => o = .normal ⟨afterNE e pj v' d' (.bytes nm) (.u8 ty) (.bool false), pj.tape⟩
  | .error _ => ∃ v' d', o = .normal ⟨afterNE e pj v' d' (.bytes #[]) (.u8 typeNone) (.bool true), pj.tape⟩
  | .panic => o = .panic
  | .diverge => False

theorem call_ne (pj : PJ) (hb : BufOK pj) (e : Env) (v : View) (d : Iter) (F mf : Nat) (hl : v.lim ≤ pj.tape.size)
    (hv : viewAt e "o" = some v) (hd : iterAt e "tmp" = some d) (hS : e.get "Strings.B" = some (.bytes pj.strings))
    (hM : e.get "Message" = some (.bytes pj.msg)) (hF : v.lim - v.off + 3 ≤ F) (hm : v.lim - v.off + 1 ≤ mf) :
    NEPost pj e d (exec1 goFuns F sNE ⟨e, pj.tape⟩) (View.nextElementBytes pj v mf) := by
  obtain ⟨f, rfl⟩ : ∃ f, F = f + 1 := ⟨F - 1, by omega⟩
  have hsim := GoApi.nextElement_sim pj hb v d (neEnv v d pj) hl f mf (by omega) hm (NEInit_neEnv pj v d)
  rw [sNE, exec1, callFun_ne pj e v d f hv hd hS hM]
  generalize runFun goFuns goObject_NextElement f ⟨neEnv v d pj, pj.tape⟩ = o at hsim ⊢
  cases hr : View.nextElementBytes pj v mf with
  | ok p =>
    obtain ⟨v', x⟩ := p
    rw [hr] at hsim
    cases x with
    | none =>
      obtain ⟨s', rfl, hi'⟩ := hsim
      exact backNE_ret e s' _ _ _ pj v' d hi'
    | some y =>
      obtain ⟨nm, d', ty⟩ := y
      obtain ⟨s', rfl, hi'⟩ := hsim
      exact backNE_ret e s' _ _ _ pj v' d' hi'
  | error er =>
    rw [hr] at hsim
    obtain ⟨s', v', d', rfl, hi'⟩ := hsim
    exact ⟨v', d', backNE_ret e s' _ _ _ pj v' d' hi'⟩
  | panic =>
    rw [hr] at hsim
    simp only [SimNE] at hsim
    subst hsim
    rfl
  | diverge => rw [hr] at hsim; exact hsim.elim

/-! ## the call `dst, err = elem.Iter.MarshalJSONBuffer(dst)` from any store holding the copy `elem.Iter`, `dst`, the buffers -/

def sMJI : Stmt := .callAssign ["dst", "err"] "elem.Iter" "Iter.MarshalJSONBuffer" [] [.v "dst"]

/-- `callFun`'s own code after the callee returned, for a receiver-only callee called on `elem.Iter` -/
def backMJI (e : Env) : Out → Out
  | .ret s' rs =>
    (match copyFields s'.env "i" e "elem.Iter" iterFields with
     | some e2 => .ret { env := copyGlobals s'.env e2 globalVars, tape := s'.tape } rs
     | none => .stuck "receiver back")
  | .normal s' =>
    (match copyFields s'.env "i" e "elem.Iter" iterFields with
     | some e2 => .ret { env := copyGlobals s'.env e2 globalVars, tape := s'.tape } []
     | none => .stuck "receiver back")
  | .brk _ | .cont _ => .stuck "break outside loop"
  | o => o

theorem callFun_mjI (pj : PJ) (e : Env) (tape : Array UInt64) (f : Nat) (el : Iter) (d : Bytes)
    (hE : iterAt e "elem.Iter" = some el) (hD : e.get "dst" = some (.bytes d))
    (hS : e.get "Strings.B" = some (.bytes pj.strings)) (hM : e.get "Message" = some (.bytes pj.msg)) :
    callFun goFuns f "elem.Iter" "Iter.MarshalJSONBuffer" [] [.v "dst"] ⟨e, tape⟩ =
      backMJI e (exec goFuns f goIter_MarshalJSONBuffer.body ⟨GoMarshal.initEnv pj el d, tape⟩) := by
  obtain ⟨d1, d2, d3, d4, d5⟩ := iterAt_get _ _ _ hE
  simp only [String.reduceAppend] at d1 d2 d3 d4 d5
  have hfn : goFuns "Iter.MarshalJSONBuffer" =
      some { recv := "i", params := ["dst"], body := goIter_MarshalJSONBuffer.body } := rfl
  rw [callFun]
  simp [hfn, d1, d2, d3, d4, d5, hD, hS, hM, copyPtrs, copyPtrsBack, copyGlobals, globalVars, copyFields, bindParams,
    evalEs, evalE, iterFields, Env.set, Env.get, envOf, bufEnv, GoMarshal.initEnv, backMJI]
  generalize exec goFuns f _ _ = out
  cases out <;> rfl

/-- the caller's store after `dst, err = elem.Iter.MarshalJSONBuffer(dst)` returned `(out, nil)`, the copy left at `j` -/
def afterMJI (e : Env) (pj : PJ) (j : Iter) (out : Bytes) : Env :=
  ((((setIter e "elem.Iter" j).set "Strings.B" (.bytes pj.strings)).set "Message" (.bytes pj.msg)).set "dst"
    (.bytes out)).set "err" (.bool false)

/-- the variables the call may write in the caller's store -/
def mjKeys : List String := fieldsOf "elem.Iter" ++ ["Strings.B", "Message", "dst", "err"]

/-- what the caller sees of `dst, err = elem.Iter.MarshalJSONBuffer(dst)`; whatever the callee did, every variable
    outside `mjKeys` reads as before (the callee runs in its own frame) -/
def MJPostI (pj : PJ) (e : Env) (o : Out) : Res Bytes → Prop
  | .ok out => ∃ j, o = .normal ⟨afterMJI e pj j out, pj.tape⟩
  | .error _ => ∃ e' tp, o = .normal ⟨e', tp⟩ ∧ e'.get "err" = some (.bool true) ∧ ∀ k, k ∉ mjKeys → e'.get k = e.get k
  | .panic => o = .panic
  | .diverge => True

theorem call_mjI (pj : PJ) (hb : BufOK pj) (e : Env) (F : Nat) (el : Iter) (d : Bytes)
    (hE : iterAt e "elem.Iter" = some el) (hD : e.get "dst" = some (.bytes d))
    (hS : e.get "Strings.B" = some (.bytes pj.strings)) (hM : e.get "Message" = some (.bytes pj.msg))
    (hl : el.lim ≤ pj.tape.size) (hcur : el.cur.toNat < 2^63) (hF : fuelOf pj + el.lim + 10 ≤ F) :
    MJPostI pj e (exec1 goFuns F sMJI ⟨e, pj.tape⟩) (el.marshalBuf pj d) := by
  obtain ⟨f, rfl⟩ : ∃ f, F = f + 1 := ⟨F - 1, by omega⟩
  have hsim := GoArrMarshal.mj_exec pj hb el hl hcur d (fuelOf pj) f (by omega)
  rw [← GoMarshal.marshalBuf_eq] at hsim
  rw [sMJI, exec1, callFun_mjI pj e pj.tape f el d hE hD hS hM]
  generalize exec goFuns f goIter_MarshalJSONBuffer.body ⟨GoMarshal.initEnv pj el d, pj.tape⟩ = o at hsim ⊢
  cases hr : el.marshalBuf pj d with
  | ok out =>
    rw [hr] at hsim
    obtain ⟨e', rfl, ⟨j, hj⟩, hS', hM'⟩ := hsim
    obtain ⟨a1, a2, a3, a4, a5⟩ := iterAt_get_i _ _ hj
    refine ⟨j, ?_⟩
    simp [backMJI, copyFields, iterFields, a1, a2, a3, a4, a5, hS', hM', copyGlobals, globalVars, assignTargets, afterMJI,
      setIter]
  | error er =>
    rw [hr] at hsim
    obtain ⟨st, v, rfl, hbnd⟩ := hsim
    obtain ⟨e2, he2, _⟩ := GoPJForEach.copyFields_defined st.env "i" "elem.Iter" iterFields e hbnd
    refine ⟨((copyGlobals st.env e2 globalVars).set "dst" v).set "err" (.bool true), st.tape, ?_, by simp [Env.get_set], ?_⟩
    · simp [backMJI, he2, assignTargets]
    · intro k hk
      simp only [mjKeys, fieldsOf, String.reduceAppend, List.cons_append, List.nil_append, List.mem_cons,
        List.not_mem_nil, or_false, not_or] at hk
      obtain ⟨k1, k2, k3, k4, k5, k6, k7, k8, k9⟩ := hk
      rw [Env.get_set_ne _ _ (Ne.symm k9), Env.get_set_ne _ _ (Ne.symm k8),
        GoPJForEach.copyGlobals_get_ne _ _ _ _ (by simp [globalVars, k6, k7])]
      apply GoArrMarshal.copyFields_pres k _ _ _ _ _ _ he2
      intro g hg
      simp only [iterFields, List.mem_cons, List.not_mem_nil, or_false] at hg
      rcases hg with rfl | rfl | rfl | rfl | rfl <;> simp only [String.reduceAppend] <;> exact Ne.symm ‹_›
  | panic =>
    rw [hr] at hsim
    simp only [GoArrMarshal.MJSim] at hsim
    subst hsim
    rfl
  | diverge => trivial

/-! ## reading the k-th element out of the flattened lists -/

theorem iterInts_len (i : Iter) : (iterInts i).length = 5 := rfl

theorem flat_len : ∀ (l : List View.Elem), (l.flatMap (fun e => iterInts e.iter)).length = 5 * l.length
  | [] => rfl
  | a :: r => by
    rw [List.flatMap_cons, List.length_append, flat_len r, iterInts_len, List.length_cons]; omega

theorem flat_get : ∀ (l : List View.Elem) (k j : Nat) (hk : k < l.length), j < 5 →
    (l.flatMap (fun e => iterInts e.iter)).getD (k * 5 + j) 0 = (iterInts l[k].iter).getD j 0
  | [], k, j, hk, _ => by simp at hk
  | a :: r, 0, j, _, hj => by
    rw [List.flatMap_cons]
    simp only [Nat.zero_mul, Nat.zero_add, List.getElem_cons_zero, List.getD_eq_getElem?_getD]
    rw [List.getElem?_append_left (by rw [iterInts_len]; exact hj)]
  | a :: r, k + 1, j, hk, hj => by
    have hk' : k < r.length := by simpa using hk
    rw [List.flatMap_cons]
    simp only [List.getElem_cons_succ, List.getD_eq_getElem?_getD]
    rw [List.getElem?_append_right (by rw [iterInts_len]; omega), iterInts_len,
      show (k + 1) * 5 + j - 5 = k * 5 + j by omega]
    have := flat_get r k j hk' hj
    simp only [List.getD_eq_getElem?_getD] at this
    exact this

theorem ofInt_toInt64 (v : UInt64) : UInt64.ofInt (toInt64 v) = v := by
  apply UInt64.toNat_inj.mp
  have := v.toNat_lt
  simp only [UInt64.ofInt, toInt64, UInt64.toNat_ofNat']
  split <;> omega

theorem u8_ofInt_toNat (t : UInt8) : UInt8.ofInt (t.toNat : Int) = t := by
  apply UInt8.toNat_inj.mp
  have := t.toNat_lt
  simp only [UInt8.ofInt, UInt8.toNat_ofNat']
  omega

/-! ## the representation is faithful -/

theorem toInt64_inj (a b : UInt64) (h : toInt64 a = toInt64 b) : a = b := by
  rw [← ofInt_toInt64 a, ← ofInt_toInt64 b, h]

theorem iterInts_inj (a b : Iter) (h : iterInts a = iterInts b) : a = b := by
  obtain ⟨al, ao, aa, ac, at'⟩ := a
  obtain ⟨bl, bo, ba, bc, bt⟩ := b
  simp only [iterInts, List.cons.injEq, Int.natCast_inj, and_true] at h
  obtain ⟨h1, h2, h3, h4, h5⟩ := h
  have h3' := toInt64_inj _ _ h3
  have h4' : at' = bt := UInt8.toNat_inj.mp h4
  subst h1 h2 h3' h4' h5
  rfl

theorem encList_inj : ∀ (l l' : List View.Elem), l.map (·.name) = l'.map (·.name) → l.map (·.type) = l'.map (·.type) →
    l.flatMap (fun e => iterInts e.iter) = l'.flatMap (fun e => iterInts e.iter) → l = l'
  | [], [], _, _, _ => rfl
  | [], _ :: _, h, _, _ => by simp at h
  | _ :: _, [], h, _, _ => by simp at h
  | a :: r, a' :: r', h1, h2, h3 => by
    simp only [List.map_cons, List.cons.injEq] at h1 h2
    rw [List.flatMap_cons, List.flatMap_cons] at h3
    obtain ⟨h3a, h3b⟩ := List.append_inj h3 rfl
    have hi := iterInts_inj _ _ h3a
    have := encList_inj r r' h1.2 h2.2 h3b
    subst this
    obtain ⟨an, at', ai⟩ := a
    obtain ⟨bn, bt, bi⟩ := a'
    simp only at h1 h2 hi
    rw [h1.1, h2.1, hi]

theorem encElems_inj (es es' : Array View.Elem) (h : encElems es = encElems es') : es = es' := by
  simp only [encElems, Prod.mk.injEq, List.toArray_inj] at h
  obtain ⟨h1, h2, h3⟩ := h
  have := encList_inj es.toList es'.toList h1 (by simpa using h2) h3
  exact Array.toList_inj.mp this

end SJ.GoElems
