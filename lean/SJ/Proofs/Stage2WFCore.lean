import SJ.Proofs.Stage2WFInv
set_option linter.unusedVariables false
/-
Stage2WF, part 3: how each kind of machine step acts on the invariant, stated on tapes
(`Core`), independently of how the machine computes the new tape.
-/
namespace SJ.Stage2WF
open SJ SJ.Generated SJ.ParseDefs SJ.Layout SJ.CopyIndep SJ.WalkLayout

/-! ## 8. From the newest-first item lists to located children -/

def revAppV : List LVal → LVals → LVals
  | [], acc => acc
  | v :: r, acc => revAppV r (.cons v acc)

def revAppM : List (Nat × List UInt8 × LVal) → LMems → LMems
  | [], acc => acc
  | (pk, k, v) :: r, acc => revAppM r (.cons pk k v acc)

theorem toLVals_rev_app : ∀ (r l : List LVal), toLVals (r.reverse ++ l) = revAppV r (toLVals l)
  | [], l => rfl
  | v :: r, l => by
    rw [List.reverse_cons, List.append_assoc]
    exact toLVals_rev_app r (v :: l)

theorem toLVals_rev (r : List LVal) : toLVals r.reverse = revAppV r .nil := by
  have := toLVals_rev_app r []
  rwa [List.append_nil] at this

theorem toLMems_rev_app : ∀ (r l : List (Nat × List UInt8 × LVal)), toLMems (r.reverse ++ l) = revAppM r (toLMems l)
  | [], l => rfl
  | (pk, k, v) :: r, l => by
    rw [List.reverse_cons, List.append_assoc]
    exact toLMems_rev_app r ((pk, k, v) :: l)

theorem toLMems_rev (r : List (Nat × List UInt8 × LVal)) : toLMems r.reverse = revAppM r .nil := by
  have := toLMems_rev_app r []
  rwa [List.append_nil] at this

theorem elems_conv {pj : PJ} {copy : Bool} : ∀ (r : List LVal) (lo mid hi : Nat) (acc : LVals),
    ElemsOK pj copy r lo mid → OkElems pj acc mid hi → mid ≤ hi → TightVs acc → (copy = true → CopiedVs pj acc) →
    OkElems pj (revAppV r acc) lo hi ∧ TightVs (revAppV r acc) ∧ (copy = true → CopiedVs pj (revAppV r acc))
  | [], lo, mid, hi, acc, hr, ho, hle, ht, hc => by
    simp only [ElemsOK] at hr
    subst hr
    exact ⟨ho, ht, hc⟩
  | v :: r, lo, mid, hi, acc, hr, ho, hle, ht, hc => by
    simp only [ElemsOK] at hr
    obtain ⟨h1, h2, h3⟩ := hr
    have hlt := good_lt h2
    simp only [revAppV]
    refine elems_conv r lo v.pos hi (.cons v acc) h3 ?_ (by omega) ?_ ?_
    · simp only [OkElems]
      exact ⟨gap_refl _ _, h2.1, by omega, by rw [h1]; exact ho⟩
    · exact ⟨h2.2.1, ht⟩
    · exact fun hcp => ⟨h2.2.2 hcp, hc hcp⟩

theorem mems_conv {pj : PJ} {copy : Bool} : ∀ (r : List (Nat × List UInt8 × LVal)) (lo mid hi : Nat) (acc : LMems),
    MemsOK pj copy r lo mid → OkMems pj acc mid hi → mid ≤ hi → TightMs acc → (copy = true → CopiedMs pj acc) →
    OkMems pj (revAppM r acc) lo hi ∧ TightMs (revAppM r acc) ∧ (copy = true → CopiedMs pj (revAppM r acc))
  | [], lo, mid, hi, acc, hr, ho, hle, ht, hc => by
    simp only [MemsOK] at hr
    subst hr
    exact ⟨ho, ht, hc⟩
  | (pk, k, v) :: r, lo, mid, hi, acc, hr, ho, hle, ht, hc => by
    simp only [MemsOK] at hr
    obtain ⟨h1, h2, h3, h4, h5, h6⟩ := hr
    have hlt := good_lt h5
    simp only [revAppM]
    refine mems_conv r lo pk hi (.cons pk k v acc) h6 ?_ (by omega) ?_ ?_
    · simp only [OkMems]
      exact ⟨gap_refl _ _, h3, by rw [h2]; exact gap_refl _ _, h5.1, by omega, by rw [h1]; exact ho⟩
    · exact ⟨h2, h5.2.1, ht⟩
    · exact fun hcp => ⟨h4 hcp, h5.2.2 hcp, hc hcp⟩

/-! ## 9. Adding a complete value -/

theorem body_frame {pj pj' : PJ} {copy : Bool} {frames : List Frame} {rootPos top : Nat} {rv : Option LVal}
    (h : Agree pj pj' (rootPos + 1) top) (hb : Body pj copy frames rootPos top rv) :
    Body pj' copy frames rootPos top rv := by
  cases rv with
  | none => exact framesOK_frame _ _ _ h hb
  | some v =>
    obtain ⟨h1, h2, h3, h4⟩ := hb
    exact ⟨h1, h2, h3, good_frame h (by omega) (by omega) h4⟩

theorem stackOf_addVal (g : Ghost) (v : LVal) :
    stackOf (g.addVal v).rootPos (g.addVal v).frames = stackOf g.rootPos g.frames := by
  obtain ⟨frames, rootPos, rootVal, done⟩ := g
  unfold Ghost.addVal
  match frames with
  | [] => rfl
  | .arr p r :: fs => rfl
  | .obj p r (some (pk, k)) :: fs => rfl
  | .obj p r none :: fs => rfl

theorem addVal_done (g : Ghost) (v : LVal) : (g.addVal v).done = g.done ∧ (g.addVal v).rootPos = g.rootPos := by
  obtain ⟨frames, rootPos, rootVal, done⟩ := g
  unfold Ghost.addVal
  match frames with
  | [] => exact ⟨rfl, rfl⟩
  | .arr p r :: fs => exact ⟨rfl, rfl⟩
  | .obj p r (some (pk, k)) :: fs => exact ⟨rfl, rfl⟩
  | .obj p r none :: fs => exact ⟨rfl, rfl⟩

theorem body_addVal {pj : PJ} {copy : Bool} (g : Ghost) {top : Nat} {v : LVal} (hrv : g.rootVal = none)
    (hb : Body pj copy g.frames g.rootPos top g.rootVal) (he : ExpectingHd g.frames)
    (hg : Good pj copy v) (hp : v.pos = top) :
    Body pj copy (g.addVal v).frames g.rootPos v.fin (g.addVal v).rootVal := by
  obtain ⟨frames, rootPos, rootVal, done⟩ := g
  simp only at hrv hb he ⊢
  subst hrv
  unfold Ghost.addVal
  match frames, hb, he with
  | [], hb, he =>
    simp only [Body, FramesOK] at hb ⊢
    exact ⟨trivial, by omega, trivial, hg⟩
  | .arr p r :: fs, hb, he =>
    simp only [Body, FramesOK, FrameOK, ElemsOK, Frame.pos] at hb ⊢
    exact ⟨⟨hb.1.1, trivial, hg, by rw [hp]; exact hb.1.2⟩, hb.2.1, hb.2.2⟩
  | .obj p r (some (pk, k)) :: fs, hb, he =>
    simp only [Body, FramesOK, FrameOK, MemsOK, Frame.pos] at hb ⊢
    obtain ⟨⟨h1, h2, h3, h4, h5⟩, h6, h7⟩ := hb
    exact ⟨⟨h1, trivial, by omega, h3, h4, hg, h2⟩, h6, h7⟩
  | .obj p r none :: fs, hb, he =>
    simp only [ExpectingHd, Expecting] at he
    cases he

/-- the control state after a complete value -/
def contOf : List Frame → St
  | [] => .startContinue
  | .arr _ _ :: _ => .arrContinue
  | .obj _ _ _ :: _ => .objContinue

theorem stOK_addVal (g : Ghost) (v : LVal) (hrv : g.rootVal = none) (he : ExpectingHd g.frames) :
    StOK (contOf g.frames) (g.addVal v) := by
  obtain ⟨frames, rootPos, rootVal, done⟩ := g
  simp only at hrv he
  subst hrv
  unfold Ghost.addVal
  match frames, he with
  | [], he => exact ⟨rfl, v, rfl⟩
  | .arr p r :: fs, he => exact ⟨rfl, p, _, fs, rfl⟩
  | .obj p r (some (pk, k)) :: fs, he => exact ⟨rfl, p, _, fs, rfl⟩
  | .obj p r none :: fs, he =>
    simp only [ExpectingHd, Expecting] at he
    cases he

theorem core_rootPos_lt {copy : Bool} {buf : Bytes} {tape : Array UInt64} {strings : Bytes} {stack : List UInt64}
    {g : Ghost} (hc : Core copy buf tape strings stack g) : g.rootPos < tape.size :=
  word_lt (pj := ⟨tape, strings, buf⟩) hc.root

theorem body_le {pj : PJ} {copy : Bool} {frames : List Frame} {rootPos top : Nat} {rv : Option LVal}
    (hb : Body pj copy frames rootPos top rv) : rootPos + 1 ≤ top := by
  cases rv with
  | none => exact framesOK_le _ _ _ hb
  | some v => obtain ⟨h1, h2, h3, h4⟩ := hb; have := good_lt h4; omega

/-- everything the invariant says about the old tape still holds on an extension that leaves the old words alone -/
theorem core_ext {copy : Bool} {buf : Bytes} {tape tape' : Array UInt64} {strings strings' : Bytes}
    {stack : List UInt64} {g : Ghost} {p : Nat} (hc : Core copy buf tape strings stack g)
    (hx : Ext ⟨tape, strings, buf⟩ ⟨tape', strings', buf⟩ p) (hp : tape.size ≤ p) :
    word ⟨tape', strings', buf⟩ g.rootPos = some (mkWord tagRoot 0) ∧
    DoneOK ⟨tape', strings', buf⟩ copy g.done g.rootPos ∧
    Body ⟨tape', strings', buf⟩ copy g.frames g.rootPos tape.size g.rootVal := by
  have hlt := core_rootPos_lt hc
  have ha : Agree ⟨tape, strings, buf⟩ ⟨tape', strings', buf⟩ 0 tape.size :=
    hx.agree 0 tape.size (Nat.le_refl _) (Or.inr hp)
  refine ⟨?_, doneOK_frame _ _ (ha.mono (Nat.le_refl _) (by omega)) hc.done,
    body_frame (ha.mono (by omega) (Nat.le_refl _)) hc.body⟩
  rw [ha.words _ (Nat.zero_le _) hlt]
  exact hc.root

theorem core_addVal {copy : Bool} {buf : Bytes} {tape tape' : Array UInt64} {strings strings' : Bytes}
    {stack : List UInt64} {g : Ghost} {p : Nat} {v : LVal} (hc : Core copy buf tape strings stack g)
    (hrv : g.rootVal = none) (he : ExpectingHd g.frames)
    (hx : Ext ⟨tape, strings, buf⟩ ⟨tape', strings', buf⟩ p) (hp : tape.size ≤ p)
    (hg : Good ⟨tape', strings', buf⟩ copy v) (hpos : v.pos = tape.size) (hfin : v.fin = tape'.size) :
    Core copy buf tape' strings' stack (g.addVal v) := by
  obtain ⟨h1, h2, h3⟩ := core_ext hc hx hp
  have hd := addVal_done g v
  refine ⟨?_, ?_, ?_, ?_⟩
  · rw [stackOf_addVal]; exact hc.stack
  · rw [hd.2]; exact h1
  · rw [hd.1, hd.2]; exact h2
  · rw [hd.2, ← hfin]
    exact body_addVal g hrv h3 he hg hpos

/-! ## 10. A key -/

theorem core_setKey {copy : Bool} {buf : Bytes} {tape tape' : Array UInt64} {strings strings' : Bytes}
    {stack : List UInt64} {g : Ghost} {p : Nat} {k : List UInt8} {q : Nat} {r : List (Nat × List UInt8 × LVal)}
    {fs : List Frame} (hc : Core copy buf tape strings stack g)
    (hrv : g.rootVal = none) (hfr : g.frames = .obj q r none :: fs)
    (hx : Ext ⟨tape, strings, buf⟩ ⟨tape', strings', buf⟩ p) (hp : tape.size ≤ p)
    (hs : StrAt ⟨tape', strings', buf⟩ k tape.size) (hin : copy = true → InBuf ⟨tape', strings', buf⟩ tape.size)
    (hsz : tape'.size = tape.size + 2) :
    Core copy buf tape' strings' stack (g.setKey tape.size k) ∧ StOK .objKeyColon (g.setKey tape.size k) := by
  obtain ⟨h1, h2, h3⟩ := core_ext hc hx hp
  obtain ⟨frames, rootPos, rootVal, done⟩ := g
  simp only at hrv hfr h1 h2 h3
  subst hrv; subst hfr
  have hst := hc.stack
  simp only [Ghost.setKey]
  refine ⟨⟨?_, h1, h2, ?_⟩, rfl, q, r, _, k, fs, rfl⟩
  · exact hst
  · simp only [Body, FramesOK, FrameOK, Frame.pos] at h3 ⊢
    exact ⟨⟨h3.1.1, h3.1.2, hs, hin, hsz⟩, h3.2.1, h3.2.2⟩

/-! ## 11. Opening a container -/

theorem core_open {copy : Bool} {buf : Bytes} {tape : Array UInt64} {strings : Bytes}
    {stack : List UInt64} {g : Ghost} (hc : Core copy buf tape strings stack g)
    (hrv : g.rootVal = none) (he : ExpectingHd g.frames) :
    (Core copy buf (tape.push (mkWord tagObjectStart 0)) strings (entry tape.size (retOf g.frames) :: stack) (g.openObj tape.size) ∧
      StOK .objBegin (g.openObj tape.size)) ∧
    (Core copy buf (tape.push (mkWord tagArrayStart 0)) strings (entry tape.size (retOf g.frames) :: stack) (g.openArr tape.size) ∧
      StOK .arrBegin (g.openArr tape.size)) := by
  have key : ∀ w : UInt64,
      word ⟨tape.push w, strings, buf⟩ g.rootPos = some (mkWord tagRoot 0) ∧
      DoneOK ⟨tape.push w, strings, buf⟩ copy g.done g.rootPos ∧
      Body ⟨tape.push w, strings, buf⟩ copy g.frames g.rootPos tape.size g.rootVal ∧
      word ⟨tape.push w, strings, buf⟩ tape.size = some w := fun w => by
    obtain ⟨h1, h2, h3⟩ := core_ext hc (ext_push0 tape strings buf w tape.size) (Nat.le_refl _)
    exact ⟨h1, h2, h3, Array.getElem?_push_size⟩
  obtain ⟨frames, rootPos, rootVal, done⟩ := g
  simp only at hrv he key
  subst hrv
  have hst := hc.stack
  simp only at hst
  constructor
  · obtain ⟨h1, h2, h3, h4⟩ := key (mkWord tagObjectStart 0)
    refine ⟨⟨?_, h1, h2, ?_⟩, rfl, _, _, _, rfl⟩
    · simp only [Ghost.openObj, stackOf, Frame.pos]; rw [hst]
    · simp only [Ghost.openObj, Body, FramesOK, FrameOK, MemsOK, Frame.pos, Array.size_push] at h3 ⊢
      exact ⟨⟨h4, trivial⟩, he, h3⟩
  · obtain ⟨h1, h2, h3, h4⟩ := key (mkWord tagArrayStart 0)
    refine ⟨⟨?_, h1, h2, ?_⟩, rfl, _, _, _, rfl⟩
    · simp only [Ghost.openArr, stackOf, Frame.pos]; rw [hst]
    · simp only [Ghost.openArr, Body, FramesOK, FrameOK, ElemsOK, Frame.pos, Array.size_push] at h3 ⊢
      exact ⟨⟨h4, trivial⟩, he, h3⟩

/-! ## 12. Closing a container -/

theorem core_close_aux {copy : Bool} {buf : Bytes} {tape tape' : Array UInt64} {strings : Bytes}
    {stack : List UInt64} {g : Ghost} {f : Frame} {fs : List Frame} {v : LVal}
    (hc : Core copy buf tape strings stack g) (hrv : g.rootVal = none) (hfr : g.frames = f :: fs)
    (hx : Ext ⟨tape, strings, buf⟩ ⟨tape', strings, buf⟩ f.pos)
    (hg : Good ⟨tape', strings, buf⟩ copy v) (hpos : v.pos = f.pos) (hfin : v.fin = tape'.size) :
    Core copy buf tape' strings (stackOf g.rootPos fs) (({ g with frames := fs } : Ghost).addVal v) ∧
    StOK (contOf fs) (({ g with frames := fs } : Ghost).addVal v) := by
  have hb := hc.body
  rw [hrv, hfr] at hb
  simp only [Body, FramesOK] at hb
  obtain ⟨hf, hex, hfs⟩ := hb
  have hlt := frameOK_lt hf
  have hle := framesOK_le _ _ _ hfs
  have hfs' : FramesOK ⟨tape', strings, buf⟩ copy fs f.pos (g.rootPos + 1) :=
    framesOK_frame _ _ _ (hx.agree _ _ (by show f.pos ≤ tape.size; omega) (Or.inr (Nat.le_refl _))) hfs
  have hroot : word ⟨tape', strings, buf⟩ g.rootPos = some (mkWord tagRoot 0) := by
    rw [hx.words g.rootPos (by show g.rootPos < tape.size; omega) (by omega)]; exact hc.root
  have hdone : DoneOK ⟨tape', strings, buf⟩ copy g.done g.rootPos :=
    doneOK_frame _ _ (hx.agree _ _ (by show g.rootPos ≤ tape.size; omega) (Or.inr (by omega))) hc.done
  let g' : Ghost := { g with frames := fs }
  have hd := addVal_done g' v
  have hbody := body_addVal (pj := ⟨tape', strings, buf⟩) (copy := copy) g' (top := f.pos) (v := v) hrv
    (by show Body _ copy fs g.rootPos f.pos g.rootVal; rw [hrv]; exact hfs') hex hg hpos
  refine ⟨⟨?_, ?_, ?_, ?_⟩, stOK_addVal g' v hrv hex⟩
  · rw [stackOf_addVal]
  · rw [hd.2]; exact hroot
  · rw [hd.1, hd.2]; exact hdone
  · rw [hd.2, ← hfin]; exact hbody

theorem core_closeArr {copy : Bool} {buf : Bytes} {tape tape' : Array UInt64} {strings : Bytes}
    {stack : List UInt64} {g : Ghost} {p : Nat} {r : List LVal} {fs : List Frame}
    (hc : Core copy buf tape strings stack g) (hrv : g.rootVal = none) (hfr : g.frames = .arr p r :: fs)
    (hsz : tape.size + 2 < 2^56) (h1 : tape'.size = tape.size + 1)
    (hwp : tape'[p]? = some (mkWord tagArrayStart (UInt64.ofNat (tape.size + 1))))
    (hwL : tape'[tape.size]? = some (mkWord tagArrayEnd (UInt64.ofNat p)))
    (hrest : ∀ k, k < tape.size → k ≠ p → tape'[k]? = tape[k]?) :
    Core copy buf tape' strings (stackOf g.rootPos fs) (g.close tape.size) ∧ StOK (contOf fs) (g.close tape.size) := by
  have hx : Ext ⟨tape, strings, buf⟩ ⟨tape', strings, buf⟩ (Frame.arr p r).pos :=
    ⟨rfl, ⟨#[], by simp⟩, fun k hk hne => hrest k hk hne⟩
  have hb := hc.body
  rw [hrv, hfr] at hb
  simp only [Body, FramesOK, FrameOK] at hb
  obtain ⟨⟨hw, hel⟩, hex, hfs⟩ := hb
  have hle := elemsOK_le _ _ _ hel
  have hel' : ElemsOK ⟨tape', strings, buf⟩ copy r (p + 1) tape.size :=
    elemsOK_frame (hx.agree (p + 1) tape.size (Nat.le_refl _) (Or.inl (by show p < p + 1; omega))) r _ _
      (Nat.le_refl _) (Nat.le_refl _) hel
  obtain ⟨c1, c2, c3⟩ := elems_conv r (p + 1) tape.size tape.size .nil hel' (gap_refl _ _) (Nat.le_refl _) trivial
    (fun _ => trivial)
  have hg : Good ⟨tape', strings, buf⟩ copy (.arr p (tape.size + 1) (toLVals r.reverse)) := by
    rw [toLVals_rev]
    refine ⟨?_, c2, c3⟩
    simp only [Ok]
    refine ⟨by omega, ⟨_, hwp, tag_mk _ _ (by omega), pay_mk _ _ (by omega)⟩,
      ⟨_, hwL, tag_mk _ _ (by omega), pay_mk _ _ (by omega)⟩, c1⟩
  have := core_close_aux hc hrv hfr hx hg rfl (by simp only [LVal.fin]; omega)
  obtain ⟨frames, rootPos, rootVal, done⟩ := g
  simp only at hfr
  subst hfr
  exact this

theorem core_closeObj {copy : Bool} {buf : Bytes} {tape tape' : Array UInt64} {strings : Bytes}
    {stack : List UInt64} {g : Ghost} {p : Nat} {r : List (Nat × List UInt8 × LVal)} {fs : List Frame}
    (hc : Core copy buf tape strings stack g) (hrv : g.rootVal = none) (hfr : g.frames = .obj p r none :: fs)
    (hsz : tape.size + 2 < 2^56) (h1 : tape'.size = tape.size + 1)
    (hwp : tape'[p]? = some (mkWord tagObjectStart (UInt64.ofNat (tape.size + 1))))
    (hwL : tape'[tape.size]? = some (mkWord tagObjectEnd (UInt64.ofNat p)))
    (hrest : ∀ k, k < tape.size → k ≠ p → tape'[k]? = tape[k]?) :
    Core copy buf tape' strings (stackOf g.rootPos fs) (g.close tape.size) ∧ StOK (contOf fs) (g.close tape.size) := by
  have hx : Ext ⟨tape, strings, buf⟩ ⟨tape', strings, buf⟩ (Frame.obj p r none).pos :=
    ⟨rfl, ⟨#[], by simp⟩, fun k hk hne => hrest k hk hne⟩
  have hb := hc.body
  rw [hrv, hfr] at hb
  simp only [Body, FramesOK, FrameOK] at hb
  obtain ⟨⟨hw, hel⟩, hex, hfs⟩ := hb
  have hle := memsOK_le _ _ _ hel
  have hel' : MemsOK ⟨tape', strings, buf⟩ copy r (p + 1) tape.size :=
    memsOK_frame (hx.agree (p + 1) tape.size (Nat.le_refl _) (Or.inl (by show p < p + 1; omega))) r _ _
      (Nat.le_refl _) (Nat.le_refl _) hel
  obtain ⟨c1, c2, c3⟩ := mems_conv r (p + 1) tape.size tape.size .nil hel' (gap_refl _ _) (Nat.le_refl _) trivial
    (fun _ => trivial)
  have hg : Good ⟨tape', strings, buf⟩ copy (.obj p (tape.size + 1) (toLMems r.reverse)) := by
    rw [toLMems_rev]
    refine ⟨?_, c2, c3⟩
    simp only [Ok]
    refine ⟨by omega, ⟨_, hwp, tag_mk _ _ (by omega), pay_mk _ _ (by omega)⟩,
      ⟨_, hwL, tag_mk _ _ (by omega), pay_mk _ _ (by omega)⟩, c1⟩
  have := core_close_aux hc hrv hfr hx hg rfl (by simp only [LVal.fin]; omega)
  obtain ⟨frames, rootPos, rootVal, done⟩ := g
  simp only at hfr
  subst hfr
  exact this

/-! ## 13. Closing a root -/

theorem core_closeRoot {copy : Bool} {buf : Bytes} {tape tape' : Array UInt64} {strings : Bytes}
    {stack : List UInt64} {g : Ghost} {v : LVal}
    (hc : Core copy buf tape strings stack g) (hrv : g.rootVal = some v)
    (hsz : tape.size + 2 < 2^56)
    (hwp : tape'[g.rootPos]? = some (mkWord tagRoot (UInt64.ofNat (tape.size + 1))))
    (hwL : tape'[tape.size]? = some (mkWord tagRoot (UInt64.ofNat g.rootPos)))
    (hrest : ∀ k, k < tape.size → k ≠ g.rootPos → tape'[k]? = tape[k]?) :
    DoneOK ⟨tape', strings, buf⟩ copy (v :: g.done) (tape.size + 1) := by
  have hx : Ext ⟨tape, strings, buf⟩ ⟨tape', strings, buf⟩ g.rootPos :=
    ⟨rfl, ⟨#[], by simp⟩, fun k hk hne => hrest k hk hne⟩
  have hlt := core_rootPos_lt hc
  have hb := hc.body
  rw [hrv] at hb
  obtain ⟨_, b2, b3, b4⟩ := hb
  have hvlt := good_lt b4
  have hg : Good ⟨tape', strings, buf⟩ copy v :=
    good_frame (hx.agree (g.rootPos + 1) tape.size (Nat.le_refl _) (Or.inl (by omega))) (by omega) (by omega) b4
  have hdone : DoneOK ⟨tape', strings, buf⟩ copy g.done g.rootPos :=
    doneOK_frame _ _ (hx.agree _ _ (by show g.rootPos ≤ tape.size; omega) (Or.inr (Nat.le_refl _))) hc.done
  simp only [DoneOK]
  refine ⟨g.rootPos, ⟨by omega, ⟨_, hwp, tag_mk _ _ (by omega), pay_mk _ _ (by omega)⟩,
    ⟨_, hwL, tag_mk _ _ (by omega), pay_mk _ _ (by omega)⟩, ?_, hg.1, ?_⟩, hg.2.1, hg.2.2, hdone⟩
  · rw [b2]; exact gap_refl _ _
  · rw [b3]; exact gap_refl _ _

theorem doneOK_roots {pj : PJ} {copy : Bool} : ∀ (d : List LVal) (e : Nat) (acc : List LVal),
    DoneOK pj copy d e → OkRoots pj acc e → (∀ v ∈ acc, Tight v ∧ (copy = true → Copied pj v)) →
    OkRoots pj (d.reverse ++ acc) 0 ∧ ∀ v ∈ d.reverse ++ acc, Tight v ∧ (copy = true → Copied pj v)
  | [], e, acc, hd, ho, ha => by
    simp only [DoneOK] at hd
    subst hd
    exact ⟨ho, ha⟩
  | v :: d, e, acc, hd, ho, ha => by
    simp only [DoneOK] at hd
    obtain ⟨q, h1, h2, h3, h4⟩ := hd
    rw [List.reverse_cons, List.append_assoc]
    refine doneOK_roots d q ([v] ++ acc) h4 ⟨q, e, gap_refl _ _, h1, ho⟩ ?_
    intro x hx
    rcases List.mem_cons.mp hx with hx | hx
    · subst hx; exact ⟨h2, h3⟩
    · exact ha x hx

end SJ.Stage2WF
