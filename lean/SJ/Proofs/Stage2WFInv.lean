import SJ.Proofs.Stage2WFBase
set_option linter.unusedVariables false
/-
Stage2WF, part 2: the invariant relating the stage-2 machine to the ghost document, and its frame lemmas.
-/
namespace SJ.Stage2WF
open SJ SJ.Generated SJ.ParseDefs SJ.Layout SJ.CopyIndep SJ.WalkLayout

/-- per-value payload of the invariant -/
def Good (pj : PJ) (copy : Bool) (v : LVal) : Prop := Ok pj v ∧ Tight v ∧ (copy = true → Copied pj v)

theorem numLeaf_good (pj : PJ) (copy : Bool) {tg v : UInt64} (L : Nat) (ht : NumTag tg)
    (h0 : word pj L = some tg) (h1 : word pj (L + 1) = some v) :
    Good pj copy (numLeaf tg v L) ∧ (numLeaf tg v L).pos = L ∧ (numLeaf tg v L).fin = L + 2 := by
  rcases ht with h | h | h | h <;> subst h
  · have e : numLeaf (mkWord tagInteger 0) v L = .int v L := by
      unfold numLeaf; rw [if_pos (by decide)]
    rw [e]
    exact ⟨⟨⟨_, h0, by decide, h1⟩, trivial, fun _ => trivial⟩, rfl, rfl⟩
  · have e : numLeaf (mkWord tagUint 0) v L = .uint v L := by
      unfold numLeaf; rw [if_neg (by decide), if_pos (by decide)]
    rw [e]
    exact ⟨⟨⟨_, h0, by decide, h1⟩, trivial, fun _ => trivial⟩, rfl, rfl⟩
  · have e : numLeaf (mkWord tagFloat 0) v L = .float v (payloadOf (mkWord tagFloat 0)) L := by
      unfold numLeaf; rw [if_neg (by decide), if_neg (by decide)]
    rw [e]
    exact ⟨⟨⟨_, h0, by decide, rfl, h1⟩, trivial, fun _ => trivial⟩, rfl, rfl⟩
  · have e : numLeaf (mkWord tagFloat 0 ||| wFloatOverflowedInteger) v L =
        .float v (payloadOf (mkWord tagFloat 0 ||| wFloatOverflowedInteger)) L := by
      unfold numLeaf; rw [if_neg (by decide), if_neg (by decide)]
    rw [e]
    exact ⟨⟨⟨_, h0, by decide, rfl, h1⟩, trivial, fun _ => trivial⟩, rfl, rfl⟩

/-! ## 4. Extending a tape -/

theorem getElem?_push_lt' {α} (t : Array α) (w : α) {k : Nat} (h : k < t.size) : (t.push w)[k]? = t[k]? := by
  rw [Array.getElem?_push, if_neg (by omega)]

/-- `pj'` extends `pj`: same message, strings appended, all old words but the one at `p` unchanged -/
structure Ext (pj pj' : PJ) (p : Nat) : Prop where
  msg : pj'.msg = pj.msg
  strs : ∃ x, pj'.strings = pj.strings ++ x
  words : ∀ k, k < pj.tape.size → k ≠ p → word pj' k = word pj k

theorem Ext.agree {pj pj' : PJ} {p : Nat} (h : Ext pj pj' p) (lo hi : Nat) (hhi : hi ≤ pj.tape.size)
    (hp : p < lo ∨ hi ≤ p) : Agree pj pj' lo hi := by
  refine ⟨fun k h1 h2 => h.words k (by omega) (by omega), fun o l s hs => ?_⟩
  obtain ⟨x, hx⟩ := h.strs
  have := stringByteAt_append pj x o l s hs
  unfold stringByteAt at this ⊢
  rw [h.msg, hx]
  exact this

theorem Ext.trans {pj pj' pj'' : PJ} {p : Nat} (h1 : Ext pj pj' p) (h2 : Ext pj' pj'' p)
    (hsz : pj.tape.size ≤ pj'.tape.size) : Ext pj pj'' p := by
  refine ⟨h2.msg.trans h1.msg, ?_, fun k hk hne => ?_⟩
  · obtain ⟨x, hx⟩ := h1.strs
    obtain ⟨y, hy⟩ := h2.strs
    exact ⟨x ++ y, by rw [hy, hx, Array.append_assoc]⟩
  · rw [h2.words k (by omega) hne, h1.words k hk hne]

theorem ext_push (t : Array UInt64) (s x msg : Bytes) (w : UInt64) (p : Nat) :
    Ext ⟨t, s, msg⟩ ⟨t.push w, s ++ x, msg⟩ p :=
  ⟨rfl, ⟨x, rfl⟩, fun k hk _ => getElem?_push_lt' t w hk⟩

theorem ext_push0 (t : Array UInt64) (s msg : Bytes) (w : UInt64) (p : Nat) :
    Ext ⟨t, s, msg⟩ ⟨t.push w, s, msg⟩ p :=
  ⟨rfl, ⟨#[], by simp⟩, fun k hk _ => getElem?_push_lt' t w hk⟩

theorem ext_set (t : Array UInt64) (s msg : Bytes) (w : UInt64) (p : Nat) (h : p < t.size) :
    Ext ⟨t, s, msg⟩ ⟨t.set p w h, s, msg⟩ p :=
  ⟨rfl, ⟨#[], by simp⟩, fun k hk hne => by
    show (t.set p w h)[k]? = t[k]?
    rw [Array.getElem?_set, if_neg (by omega)]⟩


/-! ## 5. Frame lemmas for `Copied`, `Good`, roots -/

theorem inBuf_frame {pj pj' : PJ} {lo hi p : Nat} (h : Agree pj pj' lo hi) (hp : lo ≤ p) (hq : p < hi)
    (hc : InBuf pj p) : InBuf pj' p := by
  intro w hw
  rw [h.words p hp hq] at hw
  exact hc w hw

theorem okElems_le {pj : PJ} : ∀ (vs : LVals) (a b : Nat), OkElems pj vs a b → a ≤ b
  | .nil, a, b, h => by simp only [OkElems] at h; exact gap_le h
  | .cons v vs, a, b, h => by
    simp only [OkElems] at h
    have := gap_le h.1
    have := pos_lt_fin v pj h.2.1
    omega

mutual
theorem copied_frame {pj pj' : PJ} {lo hi : Nat} (h : Agree pj pj' lo hi) :
    ∀ v : LVal, lo ≤ v.pos → v.fin ≤ hi → Ok pj v → Copied pj v → Copied pj' v
  | .null p, _, _, _, _ => trivial
  | .bool b p, _, _, _, _ => trivial
  | .int v p, _, _, _, _ => trivial
  | .uint v p, _, _, _, _ => trivial
  | .float b f p, _, _, _, _ => trivial
  | .str s p, hp, he, _, hc => by
    simp only [Copied, LVal.pos, LVal.fin] at *
    exact inBuf_frame h hp (by omega) hc
  | .arr p e es, hp, he, hv, hc => by
    simp only [Ok, Copied, LVal.pos, LVal.fin] at *
    exact copiedVs_frame h es (p+1) (e-1) (by omega) (by omega) hv.2.2.2 hc
  | .obj p e ms, hp, he, hv, hc => by
    simp only [Ok, Copied, LVal.pos, LVal.fin] at *
    exact copiedMs_frame h ms (p+1) (e-1) (by omega) (by omega) hv.2.2.2 hc
theorem copiedVs_frame {pj pj' : PJ} {lo hi : Nat} (h : Agree pj pj' lo hi) :
    ∀ (vs : LVals) (a b : Nat), lo ≤ a → b ≤ hi → OkElems pj vs a b → CopiedVs pj vs → CopiedVs pj' vs
  | .nil, a, b, _, _, _, _ => trivial
  | .cons v vs, a, b, ha, hb, hv, hc => by
    simp only [OkElems, CopiedVs] at hv hc ⊢
    obtain ⟨g, hv1, he, rest⟩ := hv
    have hap := gap_le g
    have hpe := pos_lt_fin v pj hv1
    have := okElems_le vs _ _ rest
    exact ⟨copied_frame h v (by omega) (by omega) hv1 hc.1, copiedVs_frame h vs v.fin b (by omega) hb rest hc.2⟩
theorem copiedMs_frame {pj pj' : PJ} {lo hi : Nat} (h : Agree pj pj' lo hi) :
    ∀ (ms : LMems) (a b : Nat), lo ≤ a → b ≤ hi → OkMems pj ms a b → CopiedMs pj ms → CopiedMs pj' ms
  | .nil, a, b, _, _, _, _ => trivial
  | .cons pk k v ms, a, b, ha, hb, hv, hc => by
    simp only [OkMems, CopiedMs] at hv hc ⊢
    obtain ⟨g1, hs, g2, hv1, he, rest⟩ := hv
    have h1 := gap_le g1
    have h2 := gap_le g2
    have h3 := pos_lt_fin v pj hv1
    exact ⟨inBuf_frame h (by omega) (by omega) hc.1, copied_frame h v (by omega) (by omega) hv1 hc.2.1,
      copiedMs_frame h ms v.fin b (by omega) hb rest hc.2.2⟩
end

theorem good_frame {pj pj' : PJ} {lo hi : Nat} (h : Agree pj pj' lo hi) {copy : Bool} {v : LVal}
    (hp : lo ≤ v.pos) (he : v.fin ≤ hi) (hg : Good pj copy v) : Good pj' copy v :=
  ⟨ok_frame h v hp he hg.1, hg.2.1, fun hc => copied_frame h v hp he hg.1 (hg.2.2 hc)⟩

theorem good_lt {pj : PJ} {copy : Bool} {v : LVal} (hg : Good pj copy v) : v.pos < v.fin := pos_lt_fin v pj hg.1

theorem okRoot_frame {pj pj' : PJ} {lo hi : Nat} (h : Agree pj pj' lo hi) {v : LVal} {q e : Nat}
    (hq : lo ≤ q) (he : e ≤ hi) (hr : OkRoot pj v q e) : OkRoot pj' v q e := by
  obtain ⟨h1, ⟨w, hw, hw1, hw2⟩, ⟨c, hc, hc1, hc2⟩, g1, hok, g2⟩ := hr
  have a1 := gap_le g1
  have a2 := gap_le g2
  have a3 := pos_lt_fin v pj hok
  exact ⟨h1, ⟨w, by rw [h.words q hq (by omega)]; exact hw, hw1, hw2⟩,
    ⟨c, by rw [h.words (e-1) (by omega) (by omega)]; exact hc, hc1, hc2⟩,
    gap_frame h (by omega) (by omega) g1, ok_frame h v (by omega) (by omega) hok, gap_frame h (by omega) (by omega) g2⟩

theorem okRoot_copied_frame {pj pj' : PJ} {lo hi : Nat} (h : Agree pj pj' lo hi) {v : LVal} {q e : Nat}
    (hq : lo ≤ q) (he : e ≤ hi) (hr : OkRoot pj v q e) (hc : Copied pj v) : Copied pj' v := by
  obtain ⟨h1, _, _, g1, hok, g2⟩ := hr
  have a1 := gap_le g1
  have a2 := gap_le g2
  exact copied_frame h v (by omega) (by omega) hok hc

/-! ## 6. The invariant -/

def _root_.SJ.ParseDefs.Frame.pos : Frame → Nat
  | .arr p _ => p
  | .obj p _ _ => p

/-- the return code a child of this frame pushes -/
def _root_.SJ.ParseDefs.Frame.code : Frame → Nat
  | .arr _ _ => cretAddressArrayConst
  | .obj _ _ _ => cretAddressObjectConst

/-- the frame waits for a value (an object frame: its key has been read) -/
def Expecting : Frame → Prop
  | .arr _ _ => True
  | .obj _ _ k => k.isSome = true

def ExpectingHd : List Frame → Prop
  | [] => True
  | f :: _ => Expecting f

def retOf : List Frame → Nat
  | [] => cretAddressStartConst
  | f :: _ => f.code

def stackOf (rootPos : Nat) : List Frame → List UInt64
  | [] => [entry rootPos cretAddressStartConst]
  | f :: fs => entry f.pos (retOf fs) :: stackOf rootPos fs

/-- completed elements (newest first) fill `[lo, nxt)` without gaps -/
def ElemsOK (pj : PJ) (copy : Bool) : List LVal → Nat → Nat → Prop
  | [], lo, nxt => nxt = lo
  | v :: r, lo, nxt => v.fin = nxt ∧ Good pj copy v ∧ ElemsOK pj copy r lo v.pos

/-- completed members (newest first) fill `[lo, nxt)` without gaps -/
def MemsOK (pj : PJ) (copy : Bool) : List (Nat × List UInt8 × LVal) → Nat → Nat → Prop
  | [], lo, nxt => nxt = lo
  | (pk, k, v) :: r, lo, nxt => v.fin = nxt ∧ v.pos = pk + 2 ∧ StrAt pj k pk ∧ (copy = true → InBuf pj pk) ∧
      Good pj copy v ∧ MemsOK pj copy r lo pk

/-- an open container whose next free position is `nxt` -/
def FrameOK (pj : PJ) (copy : Bool) : Frame → Nat → Prop
  | .arr p r, nxt => word pj p = some (mkWord tagArrayStart 0) ∧ ElemsOK pj copy r (p + 1) nxt
  | .obj p r none, nxt => word pj p = some (mkWord tagObjectStart 0) ∧ MemsOK pj copy r (p + 1) nxt
  | .obj p r (some (pk, k)), nxt => word pj p = some (mkWord tagObjectStart 0) ∧ MemsOK pj copy r (p + 1) pk ∧
      StrAt pj k pk ∧ (copy = true → InBuf pj pk) ∧ nxt = pk + 2

/-- the open containers, innermost first; `nxt` is the next free position of the innermost one, `base` the
    position of the outermost one -/
def FramesOK (pj : PJ) (copy : Bool) : List Frame → Nat → Nat → Prop
  | [], nxt, base => nxt = base
  | f :: fs, nxt, base => FrameOK pj copy f nxt ∧ ExpectingHd fs ∧ FramesOK pj copy fs f.pos base

/-- closed roots (newest first) fill `[0, e)` -/
def DoneOK (pj : PJ) (copy : Bool) : List LVal → Nat → Prop
  | [], e => e = 0
  | v :: d, e => ∃ q, OkRoot pj v q e ∧ Tight v ∧ (copy = true → Copied pj v) ∧ DoneOK pj copy d q

/-- the current root: open containers, or the closed top-level container -/
def Body (pj : PJ) (copy : Bool) (frames : List Frame) (rootPos top : Nat) : Option LVal → Prop
  | none => FramesOK pj copy frames top (rootPos + 1)
  | some v => frames = [] ∧ v.pos = rootPos + 1 ∧ v.fin = top ∧ Good pj copy v

/-- machine (tape, strings, stack) against ghost -/
structure Core (copy : Bool) (buf : Bytes) (tape : Array UInt64) (strings : Bytes) (stack : List UInt64) (g : Ghost) : Prop where
  stack : stack = stackOf g.rootPos g.frames
  root : word ⟨tape, strings, buf⟩ g.rootPos = some (mkWord tagRoot 0)
  done : DoneOK ⟨tape, strings, buf⟩ copy g.done g.rootPos
  body : Body ⟨tape, strings, buf⟩ copy g.frames g.rootPos tape.size g.rootVal

/-- control state against ghost -/
def StOK : St → Ghost → Prop
  | .rootStart, g => g.frames = [] ∧ g.rootVal = none
  | .objBegin, g => g.rootVal = none ∧ ∃ p r fs, g.frames = .obj p r none :: fs
  | .objContinue, g => g.rootVal = none ∧ ∃ p r fs, g.frames = .obj p r none :: fs
  | .objKeyAfterComma, g => g.rootVal = none ∧ ∃ p r fs, g.frames = .obj p r none :: fs
  | .objKeyColon, g => g.rootVal = none ∧ ∃ p r pk k fs, g.frames = .obj p r (some (pk, k)) :: fs
  | .objValue, g => g.rootVal = none ∧ ∃ p r pk k fs, g.frames = .obj p r (some (pk, k)) :: fs
  | .arrBegin, g => g.rootVal = none ∧ ∃ p r fs, g.frames = .arr p r :: fs
  | .arrValue, g => g.rootVal = none ∧ ∃ p r fs, g.frames = .arr p r :: fs
  | .arrContinue, g => g.rootVal = none ∧ ∃ p r fs, g.frames = .arr p r :: fs
  | .startContinue, g => g.frames = [] ∧ ∃ v, g.rootVal = some v
  | .ndSkip, g => g.frames = [] ∧ ∃ v, g.rootVal = some v

def Inv (copy : Bool) (buf : Bytes) (m : M) (g : Ghost) : Prop :=
  Core copy buf m.tape m.strings m.stack g ∧ StOK m.st g

/-! ## 7. Frame lemmas for the invariant's parts -/

theorem elemsOK_le {pj : PJ} {copy : Bool} : ∀ (r : List LVal) (lo nxt : Nat), ElemsOK pj copy r lo nxt → lo ≤ nxt
  | [], lo, nxt, h => by simp only [ElemsOK] at h; omega
  | v :: r, lo, nxt, h => by
    simp only [ElemsOK] at h
    have := elemsOK_le r lo v.pos h.2.2
    have := good_lt h.2.1
    omega

theorem memsOK_le {pj : PJ} {copy : Bool} : ∀ (r : List (Nat × List UInt8 × LVal)) (lo nxt : Nat),
    MemsOK pj copy r lo nxt → lo ≤ nxt
  | [], lo, nxt, h => by simp only [MemsOK] at h; omega
  | (pk, k, v) :: r, lo, nxt, h => by
    simp only [MemsOK] at h
    have := memsOK_le r lo pk h.2.2.2.2.2
    have := good_lt h.2.2.2.2.1
    omega

theorem elemsOK_frame {pj pj' : PJ} {copy : Bool} {a b : Nat} (h : Agree pj pj' a b) :
    ∀ (r : List LVal) (lo nxt : Nat), a ≤ lo → nxt ≤ b → ElemsOK pj copy r lo nxt → ElemsOK pj' copy r lo nxt
  | [], lo, nxt, _, _, hr => hr
  | v :: r, lo, nxt, ha, hb, hr => by
    simp only [ElemsOK] at hr ⊢
    obtain ⟨h1, h2, h3⟩ := hr
    have := elemsOK_le r lo v.pos h3
    have := good_lt h2
    exact ⟨h1, good_frame h (by omega) (by omega) h2, elemsOK_frame h r lo v.pos ha (by omega) h3⟩

theorem memsOK_frame {pj pj' : PJ} {copy : Bool} {a b : Nat} (h : Agree pj pj' a b) :
    ∀ (r : List (Nat × List UInt8 × LVal)) (lo nxt : Nat), a ≤ lo → nxt ≤ b → MemsOK pj copy r lo nxt →
      MemsOK pj' copy r lo nxt
  | [], lo, nxt, _, _, hr => hr
  | (pk, k, v) :: r, lo, nxt, ha, hb, hr => by
    simp only [MemsOK] at hr ⊢
    obtain ⟨h1, h2, h3, h4, h5, h6⟩ := hr
    have := memsOK_le r lo pk h6
    have := good_lt h5
    exact ⟨h1, h2, strAt_frame h (by omega) (by omega) h3, fun hc => inBuf_frame h (by omega) (by omega) (h4 hc),
      good_frame h (by omega) (by omega) h5, memsOK_frame h r lo pk ha (by omega) h6⟩

theorem frameOK_lt {pj : PJ} {copy : Bool} {f : Frame} {nxt : Nat} (h : FrameOK pj copy f nxt) : f.pos < nxt := by
  match f, h with
  | .arr p r, h => simp only [FrameOK] at h; have := elemsOK_le _ _ _ h.2; simp only [Frame.pos]; omega
  | .obj p r none, h => simp only [FrameOK] at h; have := memsOK_le _ _ _ h.2; simp only [Frame.pos]; omega
  | .obj p r (some (pk, k)), h =>
    simp only [FrameOK] at h; have := memsOK_le _ _ _ h.2.1; simp only [Frame.pos]; omega

theorem frameOK_frame {pj pj' : PJ} {copy : Bool} {f : Frame} {nxt : Nat} (h : Agree pj pj' f.pos nxt)
    (hf : FrameOK pj copy f nxt) : FrameOK pj' copy f nxt := by
  have hlt := frameOK_lt hf
  match f, h, hf, hlt with
  | .arr p r, h, hf, hlt =>
    simp only [FrameOK, Frame.pos] at *
    exact ⟨by rw [h.words p (Nat.le_refl _) hlt]; exact hf.1, elemsOK_frame h r _ _ (by omega) (Nat.le_refl _) hf.2⟩
  | .obj p r none, h, hf, hlt =>
    simp only [FrameOK, Frame.pos] at *
    exact ⟨by rw [h.words p (Nat.le_refl _) hlt]; exact hf.1, memsOK_frame h r _ _ (by omega) (Nat.le_refl _) hf.2⟩
  | .obj p r (some (pk, k)), h, hf, hlt =>
    simp only [FrameOK, Frame.pos] at *
    obtain ⟨h1, h2, h3, h4, h5⟩ := hf
    have := memsOK_le _ _ _ h2
    exact ⟨by rw [h.words p (Nat.le_refl _) hlt]; exact h1, memsOK_frame h r _ _ (by omega) (by omega) h2,
      strAt_frame h (by omega) (by omega) h3, fun hc => inBuf_frame h (by omega) (by omega) (h4 hc), h5⟩

theorem framesOK_le {pj : PJ} {copy : Bool} : ∀ (fs : List Frame) (nxt base : Nat), FramesOK pj copy fs nxt base → base ≤ nxt
  | [], nxt, base, h => by simp only [FramesOK] at h; omega
  | f :: fs, nxt, base, h => by
    simp only [FramesOK] at h
    have := framesOK_le fs f.pos base h.2.2
    have := frameOK_lt h.1
    omega

theorem framesOK_frame {pj pj' : PJ} {copy : Bool} : ∀ (fs : List Frame) (nxt base : Nat), Agree pj pj' base nxt →
    FramesOK pj copy fs nxt base → FramesOK pj' copy fs nxt base
  | [], nxt, base, _, h => h
  | f :: fs, nxt, base, ha, h => by
    simp only [FramesOK] at h ⊢
    have h1 := framesOK_le fs f.pos base h.2.2
    have h2 := frameOK_lt h.1
    exact ⟨frameOK_frame (ha.mono h1 (Nat.le_refl _)) h.1, h.2.1,
      framesOK_frame fs f.pos base (ha.mono (Nat.le_refl _) (by omega)) h.2.2⟩

theorem doneOK_frame {pj pj' : PJ} {copy : Bool} : ∀ (d : List LVal) (e : Nat), Agree pj pj' 0 e →
    DoneOK pj copy d e → DoneOK pj' copy d e
  | [], e, _, h => h
  | v :: d, e, ha, h => by
    simp only [DoneOK] at h ⊢
    obtain ⟨q, h1, h2, h3, h4⟩ := h
    have : q + 2 ≤ e := h1.1
    exact ⟨q, okRoot_frame ha (Nat.zero_le _) (Nat.le_refl _) h1, h2,
      fun hc => okRoot_copied_frame ha (Nat.zero_le _) (Nat.le_refl _) h1 (h3 hc),
      doneOK_frame d q (ha.mono (Nat.le_refl _) (by omega)) h4⟩

end SJ.Stage2WF
