import SJ.Model.Object
/-
C12, numeric clause: "numeric accessors convert between int, uint and float exactly when the value lies in
the target type's range (floats truncating toward zero) and return an error otherwise, never a wrapped or
sign-flipped number", and "bulk accessors return the values plain traversal would".

Everything is stated against the *exact rational value* of a binary64 bit pattern (`value`, core `Rat`),
not against the integer comparison code of `SJ.F64` itself:

Part A (specification level, `SJ.F64`)
  * `cmp_lt / cmp_gt / cmp_eq`   : `cmpFinInt` is the exact order between the rational value and an integer
  * `truncFin_eq`                : `truncFin` is truncation toward zero (`truncQ`) of the rational value
  * `geInt_fin / ltInt_fin / gtInt_fin`
  * `ofNat_nearest`, `ofInt_nearest`, `ofNat_exact` : `F64.ofNat n` (n < 2^64) / `F64.ofInt i`
    (−2^63 ≤ i < 2^63) is a nearest binary64 (no binary64 value is strictly closer) and in a tie the
    mantissa is even.  Full statement, not partial.
Part B (model, `Iter.int / Iter.uint / Iter.float` of SJ/Model/Access.lean)
  * `int_of_float_inrange/_outrange/int_of_inf/int_of_nan`, same for `uint`, integer cases
    `int_of_int / int_of_uint / uint_of_int / uint_of_uint`, `float_of_float/_of_int/_of_uint`
  * one-line summaries `int_exact`, `uint_exact`, `float_exact` (and primed versions indexed by
    `pj.tape[i.off]` with `i.off < i.lim ≤ tape.size`).
Part C (model, `View.asNum` of SJ/Model/Object.lean)
  * `asNum_eq_collect`, `asNum_eq_traverse`: AsFloat/AsInteger/AsUint64 = `Advance()` + per-element accessor.

No model function had to be replaced by an equivalent; `roundPos` is analysed through `roundPos_eq`
(its `let` chain named piecewise, proved by `rfl`).

Remark on NaN (outside C12: the parser cannot produce it): the model gives `Int() = −2^63` (as amd64 does) and
`Uint() = 2^63`.  The Go compiler's sequence for `uint64(f)` is `z | 1<<63` (not xor) in the `f ≥ 2^63` branch, so real
Go/amd64 returns `2^63` for NaN: see `uint_of_nan`.
-/
namespace SJ.Numeric
open SJ SJ.Generated SJ.F64

/-! ## Part A — exact rational semantics of `SJ.F64` -/

/-- The exact rational value `(-1)^neg · m · 2^e` of a finite binary64. -/
def value (neg : Bool) (m : Nat) (e : Int) : Rat :=
  (if neg then -(m : Rat) else (m : Rat)) * (2 : Rat) ^ e

/-- Truncation toward zero of a rational. -/
def truncQ (x : Rat) : Int := if 0 ≤ x then x.floor else x.ceil

/-- signed mantissa -/
def sm (neg : Bool) (m : Nat) : Int := if neg then -(m : Int) else m

theorem sm_cast (neg : Bool) (m : Nat) :
    ((sm neg m : Int) : Rat) = (if neg then -(m : Rat) else (m : Rat)) := by
  unfold sm; cases neg <;> simp [Rat.intCast_neg, Rat.intCast_natCast]

theorem two_zpow_pos (e : Int) : 0 < (2 : Rat) ^ e := Rat.zpow_pos (by decide)

theorem two_pow_cast (n : Nat) : (2 : Rat) ^ n = ((2 ^ n : Nat) : Rat) := by
  rw [Rat.natCast_pow]; rfl

theorem two_zpow_of_nonneg (e : Int) (he : 0 ≤ e) : (2 : Rat) ^ e = ((2 ^ e.toNat : Nat) : Rat) := by
  obtain ⟨n, rfl⟩ := Int.eq_ofNat_of_zero_le he
  rw [Rat.zpow_natCast, two_pow_cast]; simp

theorem two_zpow_of_neg (e : Int) (he : e < 0) : (2 : Rat) ^ e * ((2 ^ e.natAbs : Nat) : Rat) = 1 := by
  obtain ⟨n, rfl⟩ : ∃ n : Nat, e = -(n : Int) := ⟨e.natAbs, by omega⟩
  rw [Rat.zpow_neg, Rat.zpow_natCast, two_pow_cast]
  simp only [Int.natAbs_neg, Int.natAbs_natCast]
  apply Rat.inv_mul_cancel
  have : 0 < (2 ^ n : Nat) := Nat.pow_pos (by decide)
  intro h
  have h2 : ((2 ^ n : Nat) : Rat) = ((0 : Nat) : Rat) := h
  rw [Rat.natCast_inj] at h2
  omega

/-- numerator of the value over the power-of-two denominator `denOf e` -/
def numOf (neg : Bool) (m : Nat) (e : Int) : Int := if 0 ≤ e then sm neg m * 2 ^ e.toNat else sm neg m
def denOf (e : Int) : Nat := if 0 ≤ e then 1 else 2 ^ e.natAbs

theorem denOf_pos (e : Int) : 0 < denOf e := by
  unfold denOf; split
  · decide
  · exact Nat.pow_pos (by decide)

theorem denOf_pos_rat (e : Int) : (0 : Rat) < ((denOf e : Nat) : Rat) := by
  have := denOf_pos e
  have h : ((0 : Nat) : Rat) < ((denOf e : Nat) : Rat) := Rat.natCast_lt_natCast.mpr this
  simpa using h

theorem value_mul_den (neg : Bool) (m : Nat) (e : Int) :
    value neg m e * ((denOf e : Nat) : Rat) = ((numOf neg m e : Int) : Rat) := by
  unfold value numOf denOf
  by_cases he : 0 ≤ e
  · simp only [he, if_true]
    rw [two_zpow_of_nonneg e he, Rat.intCast_mul, sm_cast]
    simp [Rat.intCast_pow, Rat.natCast_pow]
  · simp only [he, if_false]
    rw [Rat.mul_assoc, two_zpow_of_neg e (by omega), sm_cast]
    simp

/-- comparing a rational `x = n/d` with an integer -/
theorem lt_int_iff {x : Rat} {d : Nat} {n : Int} (hd : 0 < d) (h : x * (d : Rat) = (n : Rat)) (k : Int) :
    x < (k : Rat) ↔ n < k * d := by
  have hd' : (0 : Rat) < (d : Rat) := by
    have h : ((0 : Nat) : Rat) < ((d : Nat) : Rat) := Rat.natCast_lt_natCast.mpr hd
    simpa using h
  rw [← Rat.mul_lt_mul_right hd', h, ← Rat.intCast_natCast d, ← Rat.intCast_mul, Rat.intCast_lt_intCast]

theorem int_lt_iff {x : Rat} {d : Nat} {n : Int} (hd : 0 < d) (h : x * (d : Rat) = (n : Rat)) (k : Int) :
    (k : Rat) < x ↔ k * d < n := by
  have hd' : (0 : Rat) < (d : Rat) := by
    have h : ((0 : Nat) : Rat) < ((d : Nat) : Rat) := Rat.natCast_lt_natCast.mpr hd
    simpa using h
  rw [← Rat.mul_lt_mul_right hd', h, ← Rat.intCast_natCast d, ← Rat.intCast_mul, Rat.intCast_lt_intCast]

theorem cmpFinInt_eq (neg : Bool) (m : Nat) (e : Int) (k : Int) :
    cmpFinInt neg m e k = compare (numOf neg m e) (k * (denOf e : Nat)) := by
  unfold cmpFinInt numOf denOf sm
  by_cases he : 0 ≤ e
  · simp [he]
  · simp [he]

/-- `cmpFinInt` is the exact order between the rational value and the integer. -/
theorem cmp_lt (neg : Bool) (m : Nat) (e : Int) (k : Int) :
    cmpFinInt neg m e k = .lt ↔ value neg m e < (k : Rat) := by
  rw [cmpFinInt_eq, Int.compare_eq_lt, lt_int_iff (denOf_pos e) (value_mul_den neg m e)]

theorem cmp_gt (neg : Bool) (m : Nat) (e : Int) (k : Int) :
    cmpFinInt neg m e k = .gt ↔ (k : Rat) < value neg m e := by
  rw [cmpFinInt_eq, Int.compare_eq_gt, int_lt_iff (denOf_pos e) (value_mul_den neg m e)]

theorem cmp_eq (neg : Bool) (m : Nat) (e : Int) (k : Int) :
    cmpFinInt neg m e k = .eq ↔ value neg m e = (k : Rat) := by
  have h1 := cmp_lt neg m e k
  have h2 := cmp_gt neg m e k
  cases hc : cmpFinInt neg m e k <;> simp [hc] at h1 h2 ⊢ <;> grind

theorem int_le_iff {x : Rat} {d : Nat} {n : Int} (hd : 0 < d) (h : x * (d : Rat) = (n : Rat)) (k : Int) :
    (k : Rat) ≤ x ↔ k * d ≤ n := by
  rw [← Rat.not_lt, lt_int_iff hd h, Int.not_lt]

theorem le_int_iff {x : Rat} {d : Nat} {n : Int} (hd : 0 < d) (h : x * (d : Rat) = (n : Rat)) (k : Int) :
    x ≤ (k : Rat) ↔ n ≤ k * d := by
  rw [← Rat.not_lt, int_lt_iff hd h, Int.not_lt]

/-- floor of `n/d` is the integer quotient -/
theorem floor_of_mul_eq {x : Rat} {d : Nat} {n : Int} (hd : 0 < d) (h : x * (d : Rat) = (n : Rat)) :
    x.floor = n / (d : Int) := by
  have hd' : (0 : Int) < d := by omega
  apply Int.le_antisymm
  · have : x.floor < n / (d : Int) + 1 := by
      rw [Rat.floor_lt_iff, lt_int_iff hd h]
      exact Int.lt_ediv_add_one_mul_self n hd'
    omega
  · rw [Rat.le_floor_iff, int_le_iff hd h]
    exact Int.ediv_mul_le n (by omega)

theorem truncQ_neg (x : Rat) : truncQ (-x) = - truncQ x := by
  unfold truncQ
  rw [Rat.ceil_eq_neg_floor_neg, Rat.ceil_eq_neg_floor_neg, Rat.neg_neg]
  by_cases h1 : 0 ≤ x <;> by_cases h2 : 0 ≤ -x <;> simp only [h1, h2, if_true, if_false]
  · have : x = 0 := by grind
    subst this
    have : (0 : Rat).floor = 0 := Rat.floor_intCast 0
    simp [this]
  · omega
  · exfalso; grind

theorem value_true (m : Nat) (e : Int) : value true m e = - value false m e := by
  unfold value; simp [Rat.neg_mul]

theorem value_false_nonneg (m : Nat) (e : Int) : 0 ≤ value false m e := by
  unfold value
  simp only [Bool.false_eq_true, if_false]
  refine Rat.mul_nonneg ?_ (Rat.le_of_lt (two_zpow_pos e))
  have h : ((0 : Nat) : Rat) ≤ ((m : Nat) : Rat) := Rat.natCast_le_natCast.mpr (Nat.zero_le m)
  simpa using h

theorem truncFin_false (m : Nat) (e : Int) : truncFin false m e = (value false m e).floor := by
  rw [floor_of_mul_eq (denOf_pos e) (value_mul_den false m e)]
  unfold truncFin numOf denOf sm
  by_cases he : 0 ≤ e
  · simp [he, Nat.shiftLeft_eq]
  · simp [he, Nat.shiftRight_eq_div_pow]

/-- `truncFin` is truncation toward zero of the exact value. -/
theorem truncFin_eq (neg : Bool) (m : Nat) (e : Int) : truncFin neg m e = truncQ (value neg m e) := by
  have hf : truncQ (value false m e) = (value false m e).floor := by
    unfold truncQ; simp [value_false_nonneg]
  cases neg
  · rw [hf, truncFin_false]
  · rw [value_true, truncQ_neg, hf, ← truncFin_false]
    unfold truncFin; simp

/-! ### `decode` on the numeric value of the bit pattern -/

/-- `decode` on the numeric value of the bit pattern. -/
def decodeN (x : Nat) : Val :=
  if x / 2^52 % 2^11 = 2047 then (if x % 2^52 = 0 then .inf (decide (2^63 ≤ x)) else .nan)
  else if x / 2^52 % 2^11 = 0 then .fin (decide (2^63 ≤ x)) (x % 2^52) (-1074)
  else .fin (decide (2^63 ≤ x)) (x % 2^52 + 2^52) (((x / 2^52 % 2^11 : Nat) : Int) - 1075)

theorem ex_toNat (a : UInt64) : ((a >>> 52) &&& 0x7ff).toNat = a.toNat / 2^52 % 2^11 := by
  have h7 : (0x7ff : Nat) = 2^11 - 1 := by decide
  simp only [UInt64.toNat_and, UInt64.toNat_shiftRight, Nat.shiftRight_eq_div_pow]
  show a.toNat / 2 ^ 52 &&& 2047 = _
  rw [h7, Nat.and_two_pow_sub_one_eq_mod]

theorem fr_toNat (a : UInt64) : (a &&& 0xfffffffffffff).toNat = a.toNat % 2^52 := by
  have h7 : (0xfffffffffffff : Nat) = 2^52 - 1 := by decide
  simp only [UInt64.toNat_and]
  show a.toNat &&& 0xfffffffffffff = _
  rw [h7, Nat.and_two_pow_sub_one_eq_mod]

theorem sign_toNat (a : UInt64) : ((a >>> 63) != 0) = decide (2^63 ≤ a.toNat) := by
  have h : (a >>> 63).toNat = a.toNat / 2^63 := by
    simp only [UInt64.toNat_shiftRight, Nat.shiftRight_eq_div_pow]; rfl
  by_cases hs : 2^63 ≤ a.toNat
  · have : (a >>> 63) ≠ 0 := by
      intro h0; rw [h0] at h; simp at h; omega
    simp [this, hs]
  · have : (a >>> 63) = 0 := UInt64.toNat_inj.mp (by rw [h]; simp; omega)
    simp [this, hs]

theorem decode_eq (b : UInt64) : decode b = decodeN b.toNat := by
  unfold decode decodeN
  simp only [ex_toNat, fr_toNat, sign_toNat, beq_iff_eq]

theorem decode_ofNat_lt (x : Nat) (hx : x < 2^64) : decode (UInt64.ofNat x) = decodeN x := by
  rw [decode_eq, UInt64.toNat_ofNat_of_lt' hx]

/-- finite decodings have a 53-bit mantissa and an exponent in the binary64 range -/
theorem decode_fin_bounds {b : UInt64} {neg : Bool} {m : Nat} {e : Int} (h : decode b = .fin neg m e) :
    m < 2^53 ∧ -1074 ≤ e ∧ e ≤ 971 := by
  rw [decode_eq] at h
  unfold decodeN at h
  split at h
  · split at h <;> cases h
  · split at h
    · cases h; omega
    · cases h; omega

/-- a normal number assembled from biased exponent `B` and fraction `f` -/
theorem decodeN_normal (B f : Nat) (hB : 1 ≤ B) (hB2 : B < 2047) (hf : f < 2^52) :
    decodeN (B * 2^52 + f) = .fin false (f + 2^52) ((B : Int) - 1075) := by
  have h1 : (B * 2^52 + f) / 2^52 % 2^11 = B := by omega
  have h2 : (B * 2^52 + f) % 2^52 = f := by omega
  have h3 : ¬ (2^63 ≤ B * 2^52 + f) := by omega
  unfold decodeN
  rw [h1, h2]
  simp only [h3, decide_false]
  rw [if_neg (by omega), if_neg (by omega)]

/-! ### `roundPos` in pieces -/

/-- the packing tail of `roundPos` -/
def finish (m1 : Nat) (et : Int) : Option UInt64 :=
  let (m, et) := if m1 == 2^53 then (2^52, et + 1) else (m1, et)
  if m < 2^52 then some (UInt64.ofNat m)
  else
    let biased := et + 1075
    if biased ≥ 0x7ff then none
    else some (UInt64.ofNat (biased.toNat * 2^52 + (m - 2^52)))

theorem roundPos_eq (n : Nat) (e : Int) (sticky : Bool) (h0 : n ≠ 0)
    (et shift : Int) (m0 m1 : Nat) (up : Bool)
    (h1 : et = max (e + ((n.log2 + 1 : Nat) : Int) - 53) (-1074))
    (h2 : shift = et - e)
    (h3 : m0 = if shift ≤ 0 then n <<< shift.natAbs else n >>> shift.toNat)
    (h4 : up = if shift ≤ 0 then false else
      let s := shift.toNat
      let rem := n % (2 ^ s)
      let half := 2 ^ (s - 1)
      if rem > half then true
      else if rem < half then false
      else sticky || (m0 % 2 == 1))
    (h5 : m1 = if up then m0 + 1 else m0) :
    roundPos n e sticky = finish m1 et := by
  subst h5 h4 h3 h2 h1
  unfold roundPos finish
  rw [if_neg (by simpa using h0)]

def finish2 (m : Nat) (et : Int) : Option UInt64 :=
  if m < 2^52 then some (UInt64.ofNat m)
  else if et + 1075 ≥ 0x7ff then none
  else some (UInt64.ofNat ((et + 1075).toNat * 2^52 + (m - 2^52)))

theorem finish_split (m1 : Nat) (et : Int) :
    finish m1 et = if m1 = 2^53 then finish2 (2^52) (et + 1) else finish2 m1 et := by
  unfold finish finish2
  generalize (2 : Nat) ^ 53 = c
  cases hb : (m1 == c)
  · have h : ¬ m1 = c := by simpa using hb
    simp only [h, if_false, Bool.false_eq_true]
  · have h : m1 = c := by simpa using hb
    have h2 : (if true = true then ((2:Nat) ^ 52, et + 1) else (m1, et)) = (2^52, et+1) := if_pos rfl
    rw [h2, if_pos h]

theorem finish_eq (m1 : Nat) (et : Int) (hm : 2^52 ≤ m1) (hm2 : m1 ≤ 2^53) (he : -1074 ≤ et)
    (he2 : et + 1076 < 2047) :
    finish m1 et = some (UInt64.ofNat ((et + 1075).toNat * 2^52 + (m1 - 2^52))) := by
  rw [finish_split]
  unfold finish2
  by_cases h : m1 = 2^53
  · rw [if_pos h, if_neg (by omega), if_neg (by omega)]
    have : (et + 1 + 1075).toNat * 2 ^ 52 + (2 ^ 52 - 2 ^ 52) = (et + 1075).toNat * 2 ^ 52 + (m1 - 2 ^ 52) := by
      omega
    rw [this]
  · rw [if_neg h, if_neg (by omega), if_neg (by omega)]

theorem decode_packed (m1 : Nat) (et : Int) (hm : 2^52 ≤ m1) (hm2 : m1 ≤ 2^53) (he : -1074 ≤ et)
    (he2 : et + 1076 < 2047) :
    decode (UInt64.ofNat ((et + 1075).toNat * 2^52 + (m1 - 2^52))) =
      if m1 = 2^53 then .fin false (2^52) (et + 1) else .fin false m1 et := by
  obtain ⟨B, hB⟩ : ∃ B : Nat, et + 1075 = B := ⟨(et + 1075).toNat, by omega⟩
  have hBt : (et + 1075).toNat = B := by omega
  rw [hBt]
  by_cases h : m1 = 2^53
  · rw [if_pos h, h]
    have : B * 2^52 + (2^53 - 2^52) = (B + 1) * 2^52 + 0 := by omega
    rw [this, decode_ofNat_lt _ (by omega), decodeN_normal (B + 1) 0 (by omega) (by omega) (by decide)]
    congr 1
    omega
  · rw [if_neg h, decode_ofNat_lt _ (by omega), decodeN_normal B (m1 - 2^52) (by omega) (by omega) (by omega)]
    congr 1 <;> omega


/-! ### round-to-nearest-even of a natural number, as a specification -/

/-- number of low bits that do not fit in a 53-bit mantissa -/
def sh (n : Nat) : Nat := n.log2 + 1 - 53
def q0 (n : Nat) : Nat := n / 2 ^ sh n
def rm (n : Nat) : Nat := n % 2 ^ sh n
/-- round up iff the discarded part is more than half an ulp, or exactly half and the kept part is odd -/
def up (n : Nat) : Bool := decide (2 ^ sh n < 2 * rm n) || (2 * rm n == 2 ^ sh n && q0 n % 2 == 1)
def q1 (n : Nat) : Nat := if up n then q0 n + 1 else q0 n
/-- the integer `ofNat n` denotes -/
def rne (n : Nat) : Nat := q1 n * 2 ^ sh n

theorem value_nat (m s : Nat) : value false m (s : Int) = ((m * 2 ^ s : Nat) : Rat) := by
  unfold value
  simp only [Bool.false_eq_true, if_false]
  rw [Rat.zpow_natCast, two_pow_cast, Rat.natCast_mul]

theorem value_shift (neg : Bool) (m k : Nat) (e : Int) : value neg (m * 2 ^ k) (e - k) = value neg m e := by
  unfold value
  have h : (2 : Rat) ^ e = (2 : Rat) ^ (e - k) * (2 : Rat) ^ (k : Int) := by
    rw [← Rat.zpow_add (by decide)]; congr 1; omega
  rw [h, Rat.zpow_natCast, two_pow_cast, Rat.natCast_mul]
  cases neg <;> simp only [Bool.false_eq_true, if_false, if_true] <;> grind

theorem value_double (neg : Bool) (m : Nat) (e : Int) : value neg m (e + 1) = value neg (2 * m) e := by
  have := value_shift neg m 1 (e + 1)
  rw [← this]
  congr 1
  · omega
  · omega

theorem log2_bounds (n : Nat) (h0 : n ≠ 0) : 2 ^ n.log2 ≤ n ∧ n < 2 ^ (n.log2 + 1) :=
  ⟨Nat.log2_self_le h0, Nat.lt_log2_self⟩

theorem roundPos_small (n : Nat) (h0 : n ≠ 0) (hL : n.log2 + 1 ≤ 53) :
    roundPos n 0 false = finish (n * 2 ^ (53 - (n.log2 + 1))) (((n.log2 + 1 : Nat) : Int) - 53) := by
  apply roundPos_eq n 0 false h0 _ (((n.log2 + 1 : Nat) : Int) - 53) (n * 2 ^ (53 - (n.log2 + 1))) _ false
  · omega
  · omega
  · rw [if_pos (by omega), Nat.shiftLeft_eq]
    congr 2
    omega
  · rw [if_pos (by omega)]
  · simp

theorem roundPos_big (n : Nat) (h0 : n ≠ 0) (hL : 54 ≤ n.log2 + 1) :
    roundPos n 0 false = finish (q1 n) (sh n) := by
  have hs : sh n = n.log2 + 1 - 53 := rfl
  apply roundPos_eq n 0 false h0 _ (sh n : Int) (q0 n) _ (up n)
  · omega
  · omega
  · rw [if_neg (by omega), Int.toNat_natCast, Nat.shiftRight_eq_div_pow]; rfl
  · rw [if_neg (by omega)]
    simp only [Int.toNat_natCast, Bool.false_or]
    unfold up rm
    have h2 : 2 ^ sh n = 2 * 2 ^ (sh n - 1) := by
      rw [← Nat.pow_succ']; congr 1; omega
    generalize n % 2 ^ sh n = r at *
    rw [h2]
    generalize 2 ^ (sh n - 1) = hf at *
    by_cases c1 : r > hf
    · have : 2 * hf < 2 * r := by omega
      simp [c1, this]
    · by_cases c2 : r < hf
      · have a1 : ¬ 2 * hf < 2 * r := by omega
        have a2 : ¬ 2 * r = 2 * hf := by omega
        simp [c1, c2, a1, a2]
      · have a1 : ¬ 2 * hf < 2 * r := by omega
        have a2 : 2 * r = 2 * hf := by omega
        simp [c1, c2, a2]
  · rfl

theorem q0_bounds (n : Nat) (h0 : n ≠ 0) (hL : 53 ≤ n.log2 + 1) : 2 ^ 52 ≤ q0 n ∧ q0 n < 2 ^ 53 := by
  obtain ⟨h1, h2⟩ := log2_bounds n h0
  have hs : n.log2 = 52 + sh n := by unfold sh; omega
  have hs' : n.log2 + 1 = 53 + sh n := by omega
  rw [hs, Nat.pow_add] at h1
  rw [hs', Nat.pow_add] at h2
  unfold q0
  have hp : 0 < 2 ^ sh n := Nat.pow_pos (by decide)
  exact ⟨(Nat.le_div_iff_mul_le hp).mpr h1, (Nat.div_lt_iff_lt_mul hp).mpr h2⟩

theorem q1_bounds (n : Nat) (h0 : n ≠ 0) (hL : 53 ≤ n.log2 + 1) : 2 ^ 52 ≤ q1 n ∧ q1 n ≤ 2 ^ 53 := by
  have := q0_bounds n h0 hL
  unfold q1; split <;> omega

/-- Bits of `ofNat n` for `n < 2^53` (and in general when `n` has at most 53 significant bits). -/
theorem ofNat_decode_small (n : Nat) (h0 : n ≠ 0) (hL : n.log2 + 1 ≤ 53) :
    decode (ofNat n) = .fin false (n * 2 ^ (53 - (n.log2 + 1))) (((n.log2 + 1 : Nat) : Int) - 53) := by
  obtain ⟨h1, h2⟩ := log2_bounds n h0
  have hp : 2 ^ 52 ≤ n * 2 ^ (53 - (n.log2 + 1)) ∧ n * 2 ^ (53 - (n.log2 + 1)) < 2 ^ 53 := by
    have e1 : (2 : Nat) ^ 52 = 2 ^ n.log2 * 2 ^ (53 - (n.log2 + 1)) := by
      rw [← Nat.pow_add]; congr 1; omega
    have e2 : (2 : Nat) ^ 53 = 2 ^ (n.log2 + 1) * 2 ^ (53 - (n.log2 + 1)) := by
      rw [← Nat.pow_add]; congr 1; omega
    have hp : 0 < 2 ^ (53 - (n.log2 + 1)) := Nat.pow_pos (by decide)
    rw [e1, e2]
    exact ⟨Nat.mul_le_mul_right _ h1, Nat.mul_lt_mul_of_pos_right h2 hp⟩
  unfold ofNat
  rw [roundPos_small n h0 hL, finish_eq _ _ hp.1 (by omega) (by omega) (by omega), Option.getD_some,
    decode_packed _ _ hp.1 (by omega) (by omega) (by omega), if_neg (by omega)]

theorem ofNat_decode_big (n : Nat) (h0 : n ≠ 0) (hL : 54 ≤ n.log2 + 1) (hn : n < 2 ^ 64) :
    decode (ofNat n) =
      if q1 n = 2 ^ 53 then .fin false (2 ^ 52) ((sh n : Int) + 1) else .fin false (q1 n) (sh n) := by
  have hl : n.log2 < 64 := (Nat.log2_lt h0).mpr hn
  have hs : sh n = n.log2 + 1 - 53 := rfl
  obtain ⟨hq1, hq2⟩ := q1_bounds n h0 (by omega)
  unfold ofNat
  rw [roundPos_big n h0 hL, finish_eq _ _ hq1 hq2 (by omega) (by omega), Option.getD_some,
    decode_packed _ _ hq1 hq2 (by omega) (by omega)]


theorem value_mono (a b : Nat) (e : Int) (h : a ≤ b) : value false a e ≤ value false b e := by
  unfold value
  simp only [Bool.false_eq_true, if_false]
  exact Rat.mul_le_mul_of_nonneg_right (Rat.natCast_le_natCast.mpr h) (Rat.le_of_lt (two_zpow_pos e))

theorem value_true_nonpos (m : Nat) (e : Int) : value true m e ≤ 0 := by
  have := value_false_nonneg m e
  rw [value_true]; grind

theorem natCast_nonneg (n : Nat) : (0 : Rat) ≤ (n : Rat) := by
  have h : ((0 : Nat) : Rat) ≤ ((n : Nat) : Rat) := Rat.natCast_le_natCast.mpr (Nat.zero_le n)
  simpa using h

/-- No binary64 value lies strictly between two consecutive multiples `q·2^s`, `(q+1)·2^s` of a power of
    two when `q` already has 53 bits: these are adjacent binary64 numbers. -/
theorem no_between {neg' : Bool} {m' : Nat} {e' : Int} (hm : m' < 2 ^ 53)
    (q s : Nat) (hq : 2 ^ 52 ≤ q) :
    value neg' m' e' ≤ ((q * 2 ^ s : Nat) : Rat) ∨ (((q + 1) * 2 ^ s : Nat) : Rat) ≤ value neg' m' e' := by
  cases neg'
  · by_cases he : (s : Int) ≤ e'
    · obtain ⟨k, hk⟩ : ∃ k : Nat, e' = (s : Int) + k := ⟨(e' - s).toNat, by omega⟩
      have hv : value false m' e' = (((m' * 2 ^ k) * 2 ^ s : Nat) : Rat) := by
        rw [← value_nat, ← value_shift false m' k e']
        congr 1; omega
      rw [hv]
      rcases Nat.lt_or_ge q (m' * 2 ^ k) with hlt | hge
      · right; exact Rat.natCast_le_natCast.mpr (Nat.mul_le_mul_right _ hlt)
      · left; exact Rat.natCast_le_natCast.mpr (Nat.mul_le_mul_right _ hge)
    · left
      obtain ⟨k, hk⟩ : ∃ k : Nat, (s : Int) = e' + k := ⟨((s : Int) - e').toNat, by omega⟩
      have hk1 : 1 ≤ k := by omega
      have hv : ((q * 2 ^ s : Nat) : Rat) = value false (q * 2 ^ k) e' := by
        rw [← value_nat, ← value_shift false q k (s : Int)]
        congr 1; omega
      rw [hv]
      apply value_mono
      have : 2 * 1 ≤ 2 ^ k := by
        calc 2 * 1 = 2 ^ 1 := rfl
          _ ≤ 2 ^ k := Nat.pow_le_pow_right (by decide) hk1
      calc m' ≤ 2 ^ 52 * 2 := by omega
        _ ≤ q * 2 ^ k := Nat.mul_le_mul hq (by omega)
  · left
    exact Rat.le_trans (value_true_nonpos m' e') (natCast_nonneg _)

/-- `n = q0·2^s + rm` and the rounding picks the nearer end of `[q0·2^s, (q0+1)·2^s]`. -/
theorem rne_cases (n : Nat) :
    n = q0 n * 2 ^ sh n + rm n ∧ rm n < 2 ^ sh n ∧
    ((up n = false ∧ rne n = q0 n * 2 ^ sh n ∧ 2 * rm n ≤ 2 ^ sh n) ∨
     (up n = true ∧ rne n = (q0 n + 1) * 2 ^ sh n ∧ 2 ^ sh n ≤ 2 * rm n)) := by
  have hp : 0 < 2 ^ sh n := Nat.pow_pos (by decide)
  refine ⟨?_, Nat.mod_lt _ hp, ?_⟩
  · unfold q0 rm; rw [Nat.mul_comm]; exact (Nat.div_add_mod n (2 ^ sh n)).symm
  · cases hu : up n
    · left
      refine ⟨rfl, by unfold rne q1; rw [hu]; rfl, ?_⟩
      unfold up at hu
      simp only [Bool.or_eq_false_iff, decide_eq_false_iff_not] at hu
      omega
    · right
      refine ⟨rfl, by unfold rne q1; rw [hu]; rfl, ?_⟩
      unfold up at hu
      simp only [Bool.or_eq_true, decide_eq_true_eq, Bool.and_eq_true, beq_iff_eq] at hu
      omega

theorem rne_exact (n : Nat) (hL : n.log2 + 1 ≤ 53) : rne n = n := by
  have hs : sh n = 0 := by unfold sh; omega
  unfold rne q1 up q0 rm
  rw [hs]
  simp [Nat.mod_one]

theorem decode_zero : decode 0 = .fin false 0 (-1074) := by
  rw [decode_eq]; rfl

/-- The binary64 `ofNat n` is finite, non-negative, and denotes exactly the integer `rne n`. -/
theorem ofNat_value (n : Nat) (hn : n < 2 ^ 64) :
    ∃ m e, decode (ofNat n) = .fin false m e ∧ value false m e = ((rne n : Nat) : Rat) ∧
      (54 ≤ n.log2 + 1 → m % 2 = q1 n % 2) := by
  by_cases h0 : n = 0
  · subst h0
    refine ⟨0, -1074, decode_zero, ?_, by simp [Nat.log2_zero]⟩
    rw [rne_exact 0 (by simp [Nat.log2_zero])]
    unfold value
    simp only [Bool.false_eq_true, if_false]
    exact Rat.zero_mul _
  by_cases hL : n.log2 + 1 ≤ 53
  · refine ⟨_, _, ofNat_decode_small n h0 hL, ?_, by omega⟩
    rw [rne_exact n hL]
    have h1 := value_shift false n (53 - (n.log2 + 1)) 0
    have h2 : ((n.log2 + 1 : Nat) : Int) - 53 = 0 - ((53 - (n.log2 + 1) : Nat) : Int) := by omega
    rw [h2, h1]
    have h3 := value_nat n 0
    simpa using h3
  · have hd := ofNat_decode_big n h0 (by omega) hn
    by_cases hq : q1 n = 2 ^ 53
    · rw [if_pos hq] at hd
      refine ⟨_, _, hd, ?_, fun _ => by rw [hq]⟩
      rw [value_double, value_nat]
      unfold rne
      rw [hq]
    · rw [if_neg hq] at hd
      refine ⟨_, _, hd, ?_, fun _ => rfl⟩
      rw [value_nat]
      rfl

theorem tie_even (n : Nat) (h : 2 * rm n = 2 ^ sh n) : q1 n % 2 = 0 := by
  have hu : up n = (q0 n % 2 == 1) := by
    unfold up
    have h1 : ¬ (2 ^ sh n < 2 * rm n) := by omega
    have h2 : (2 * rm n == 2 ^ sh n) = true := by simpa using h
    rw [h2]
    simp [h1]
  unfold q1
  rw [hu]
  by_cases hq : q0 n % 2 = 1
  · rw [if_pos (by simpa using hq)]; omega
  · rw [if_neg (by simpa using hq)]; omega

/-- linear-arithmetic core of "round to nearest": `x = a + r` in `[a, a+w]`, `v` the nearer end,
    `v'` outside the open interval. -/
theorem nearest_core (x a w r v v' : Rat) (hx : x = a + r) (hr0 : 0 ≤ r) (hrw : r < w)
    (hv : (v = a ∧ 2 * r ≤ w) ∨ (v = a + w ∧ w ≤ 2 * r)) (hv' : v' ≤ a ∨ a + w ≤ v') :
    (v - x).abs ≤ (v' - x).abs ∧ (v' ≠ v → (v' - x).abs = (v - x).abs → 2 * r = w) := by
  unfold Rat.abs
  rcases hv with ⟨rfl, h2⟩ | ⟨rfl, h2⟩ <;> rcases hv' with h3 | h3 <;> subst hx <;>
    refine ⟨?_, ?_⟩ <;> (repeat' split) <;> grind

/-- `rne n` is a nearest binary64 value to `n`, and in a tie the kept mantissa `q1 n` is even. -/
theorem rne_nearest (n : Nat) {neg' : Bool} {m' : Nat} {e' : Int} (h : m' < 2 ^ 53) :
    (((rne n : Nat) : Rat) - (n : Rat)).abs ≤ (value neg' m' e' - (n : Rat)).abs ∧
    (value neg' m' e' ≠ ((rne n : Nat) : Rat) →
      (value neg' m' e' - (n : Rat)).abs = (((rne n : Nat) : Rat) - (n : Rat)).abs →
      54 ≤ n.log2 + 1 ∧ q1 n % 2 = 0) := by
  by_cases hL : n.log2 + 1 ≤ 53
  · rw [rne_exact n hL]
    have h0 : ((n : Rat) - (n : Rat)).abs = 0 := by rw [Rat.sub_self]; rfl
    rw [h0]
    refine ⟨Rat.abs_nonneg, fun hne heq => ?_⟩
    exfalso; apply hne
    unfold Rat.abs at heq
    split at heq <;> grind
  · have h0 : n ≠ 0 := by
      intro hz; subst hz; simp [Nat.log2_zero] at hL
    obtain ⟨hq, _⟩ := q0_bounds n h0 (by omega)
    obtain ⟨hn, hr, hc⟩ := rne_cases n
    have hnb := no_between (neg' := neg') (e' := e') h (q0 n) (sh n) hq
    have e1 : (((q0 n + 1) * 2 ^ sh n : Nat) : Rat) = ((q0 n * 2 ^ sh n : Nat) : Rat) + ((2 ^ sh n : Nat) : Rat) := by
      rw [← Rat.natCast_add]; congr 1; rw [Nat.add_mul, Nat.one_mul]
    have e2 : (n : Rat) = ((q0 n * 2 ^ sh n : Nat) : Rat) + ((rm n : Nat) : Rat) := by
      rw [← Rat.natCast_add, ← hn]
    have e3 : ((2 * rm n : Nat) : Rat) = 2 * ((rm n : Nat) : Rat) := by
      rw [Rat.natCast_mul]; rfl
    have hr' : ((rm n : Nat) : Rat) < ((2 ^ sh n : Nat) : Rat) := Rat.natCast_lt_natCast.mpr hr
    have hv : (((rne n : Nat) : Rat) = ((q0 n * 2 ^ sh n : Nat) : Rat) ∧
                2 * ((rm n : Nat) : Rat) ≤ ((2 ^ sh n : Nat) : Rat)) ∨
              (((rne n : Nat) : Rat) = ((q0 n * 2 ^ sh n : Nat) : Rat) + ((2 ^ sh n : Nat) : Rat) ∧
                ((2 ^ sh n : Nat) : Rat) ≤ 2 * ((rm n : Nat) : Rat)) := by
      rcases hc with ⟨_, h1, h2⟩ | ⟨_, h1, h2⟩
      · left; rw [h1, ← e3]; exact ⟨rfl, Rat.natCast_le_natCast.mpr h2⟩
      · right; rw [h1, ← e3, e1]; exact ⟨rfl, Rat.natCast_le_natCast.mpr h2⟩
    rw [e1] at hnb
    obtain ⟨g1, g2⟩ := nearest_core _ _ _ _ _ _ e2 (natCast_nonneg _) hr' hv hnb
    refine ⟨g1, fun hne heq => ⟨by omega, ?_⟩⟩
    have := g2 hne heq
    rw [← e3, Rat.natCast_inj] at this
    exact tie_even n this

/-- **`F64.ofNat n` is a nearest binary64 to `n`, ties to even** (`n < 2^64`): it is finite and non-negative;
    no binary64 value is strictly closer to `n`; and if some *other* binary64 value is equally close,
    then the mantissa of `ofNat n` is even. -/
theorem ofNat_nearest (n : Nat) (hn : n < 2 ^ 64) :
    ∃ m e, decode (ofNat n) = .fin false m e ∧
      (∀ (b' : UInt64) (neg' : Bool) (m' : Nat) (e' : Int), decode b' = .fin neg' m' e' →
        (value false m e - (n : Rat)).abs ≤ (value neg' m' e' - (n : Rat)).abs) ∧
      (∀ (b' : UInt64) (neg' : Bool) (m' : Nat) (e' : Int), decode b' = .fin neg' m' e' →
        value neg' m' e' ≠ value false m e →
        (value neg' m' e' - (n : Rat)).abs = (value false m e - (n : Rat)).abs → m % 2 = 0) := by
  obtain ⟨m, e, hd, hv, hpar⟩ := ofNat_value n hn
  refine ⟨m, e, hd, ?_, ?_⟩
  · intro b' neg' m' e' h
    rw [hv]; exact (rne_nearest n (decode_fin_bounds h).1).1
  · intro b' neg' m' e' h hne heq
    rw [hv] at hne heq
    obtain ⟨hL, hq⟩ := (rne_nearest n (decode_fin_bounds h).1).2 hne heq
    rw [hpar hL]; exact hq

/-- integers with at most 53 significant bits convert exactly -/
theorem ofNat_exact (n : Nat) (hn : n < 2 ^ 53) :
    ∃ m e, decode (ofNat n) = .fin false m e ∧ value false m e = (n : Rat) := by
  obtain ⟨m, e, hd, hv, _⟩ := ofNat_value n (by omega)
  refine ⟨m, e, hd, ?_⟩
  rw [hv, rne_exact]
  by_cases h0 : n = 0
  · subst h0; simp [Nat.log2_zero]
  · have := (Nat.log2_lt h0).mpr hn; omega


theorem decodeN_fin_false {x : Nat} {m : Nat} {e : Int} (h : decodeN x = .fin false m e) : x < 2 ^ 63 := by
  unfold decodeN at h
  by_cases hx : 2 ^ 63 ≤ x
  · simp only [hx, decide_true] at h
    split at h
    · split at h <;> cases h
    · split at h <;> cases h
  · omega

theorem decodeN_signed {x : Nat} {m : Nat} {e : Int} (h : decodeN x = .fin false m e) :
    decodeN (2 ^ 63 + x) = .fin true m e := by
  have hx := decodeN_fin_false h
  have h1 : (2 ^ 63 + x) / 2 ^ 52 % 2 ^ 11 = x / 2 ^ 52 % 2 ^ 11 := by omega
  have h2 : (2 ^ 63 + x) % 2 ^ 52 = x % 2 ^ 52 := by omega
  have h3 : 2 ^ 63 ≤ 2 ^ 63 + x := by omega
  have h4 : ¬ 2 ^ 63 ≤ x := by omega
  unfold decodeN at h ⊢
  rw [h1, h2]
  simp only [h3, h4, decide_true, decide_false] at h ⊢
  by_cases c1 : x / 2 ^ 52 % 2 ^ 11 = 2047
  · rw [if_pos c1] at h; split at h <;> cases h
  · rw [if_neg c1] at h ⊢
    by_cases c2 : x / 2 ^ 52 % 2 ^ 11 = 0
    · rw [if_pos c2] at h ⊢; cases h; rfl
    · rw [if_neg c2] at h ⊢; cases h; rfl

theorem signBit_true_toNat : (signBit true).toNat = 2 ^ 63 := by decide

theorem decode_signed {y : UInt64} {m : Nat} {e : Int} (h : decode y = .fin false m e) :
    decode (signBit true ||| y) = .fin true m e := by
  rw [decode_eq] at h ⊢
  have hy := decodeN_fin_false h
  have hor : 2 ^ 63 ||| y.toNat = 2 ^ 63 + y.toNat := by
    have := Nat.two_pow_add_eq_or_of_lt hy 1
    rw [Nat.mul_one] at this
    exact this.symm
  rw [UInt64.toNat_or, signBit_true_toNat, hor]
  exact decodeN_signed h

/-- `ofNat_nearest` against every `±m'·2^e'` with a 53-bit mantissa (all binary64 values are of this form). -/
theorem ofNat_nearest_gen (n : Nat) (hn : n < 2 ^ 64) :
    ∃ m e, decode (ofNat n) = .fin false m e ∧
      (∀ (neg' : Bool) (m' : Nat) (e' : Int), m' < 2 ^ 53 →
        (value false m e - (n : Rat)).abs ≤ (value neg' m' e' - (n : Rat)).abs) ∧
      (∀ (neg' : Bool) (m' : Nat) (e' : Int), m' < 2 ^ 53 →
        value neg' m' e' ≠ value false m e →
        (value neg' m' e' - (n : Rat)).abs = (value false m e - (n : Rat)).abs → m % 2 = 0) := by
  obtain ⟨m, e, hd, hv, hpar⟩ := ofNat_value n hn
  refine ⟨m, e, hd, ?_, ?_⟩
  · intro neg' m' e' h
    rw [hv]; exact (rne_nearest n h).1
  · intro neg' m' e' h hne heq
    rw [hv] at hne heq
    obtain ⟨hL, hq⟩ := (rne_nearest n h).2 hne heq
    rw [hpar hL]; exact hq

theorem value_not (neg : Bool) (m : Nat) (e : Int) : value (!neg) m e = - value neg m e := by
  cases neg
  · exact value_true m e
  · rw [value_true]; simp [Rat.neg_neg]

theorem abs_neg_sub (a b : Rat) : (-a - -b).abs = (a - b).abs := by
  unfold Rat.abs; split <;> split <;> grind

theorem abs_flip (a b : Rat) : (-a - b).abs = (a - -b).abs := by
  unfold Rat.abs; split <;> split <;> grind

/-- **`F64.ofInt i` is a nearest binary64 to `i`, ties to even** (`-2^63 ≤ i < 2^63`), with the sign of `i`. -/
theorem ofInt_nearest (i : Int) (hlo : -(2 ^ 63 : Int) ≤ i) (hhi : i < 2 ^ 63) :
    ∃ m e, decode (ofInt i) = .fin (decide (i < 0)) m e ∧
      (∀ (b' : UInt64) (neg' : Bool) (m' : Nat) (e' : Int), decode b' = .fin neg' m' e' →
        (value (decide (i < 0)) m e - (i : Rat)).abs ≤ (value neg' m' e' - (i : Rat)).abs) ∧
      (∀ (b' : UInt64) (neg' : Bool) (m' : Nat) (e' : Int), decode b' = .fin neg' m' e' →
        value neg' m' e' ≠ value (decide (i < 0)) m e →
        (value neg' m' e' - (i : Rat)).abs = (value (decide (i < 0)) m e - (i : Rat)).abs → m % 2 = 0) := by
  by_cases hneg : i < 0
  · obtain ⟨m, e, hd, h1, h2⟩ := ofNat_nearest_gen i.natAbs (by omega)
    have hi : (i : Rat) = -((i.natAbs : Nat) : Rat) := by
      rw [← Rat.intCast_natCast, ← Rat.intCast_neg]; congr 1; omega
    refine ⟨m, e, ?_, ?_, ?_⟩
    · unfold ofInt; rw [if_pos hneg]
      simp only [hneg, decide_true]
      exact decode_signed hd
    · intro b' neg' m' e' h
      have hb := (decode_fin_bounds h).1
      have := h1 (!neg') m' e' hb
      simp only [hneg, decide_true]
      rw [value_true, hi, abs_neg_sub]
      rw [value_not, abs_flip] at this
      exact this
    · intro b' neg' m' e' h hne heq
      have hb := (decode_fin_bounds h).1
      simp only [hneg, decide_true] at hne heq
      apply h2 (!neg') m' e' hb
      · rw [value_not]; intro hc; apply hne; rw [value_true, ← hc, Rat.neg_neg]
      · rw [value_not, abs_flip, ← hi, heq, value_true, hi, abs_neg_sub]
  · obtain ⟨m, e, hd, h1, h2⟩ := ofNat_nearest i.toNat (by omega)
    have hi : (i : Rat) = ((i.toNat : Nat) : Rat) := by
      rw [← Rat.intCast_natCast]; congr 1; omega
    simp only [hneg, decide_false]
    refine ⟨m, e, ?_, ?_, ?_⟩
    · unfold ofInt; rw [if_neg hneg]; exact hd
    · rw [hi]; exact h1
    · rw [hi]; exact h2


/-! ### the comparison predicates of the model, on exact values -/

theorem geInt_fin {b : UInt64} {neg : Bool} {m : Nat} {e : Int} (h : decode b = .fin neg m e) (k : Int) :
    geInt b k = true ↔ (k : Rat) ≤ value neg m e := by
  unfold geInt; rw [h]
  simp only [bne_iff_ne, ne_eq]
  rw [cmp_lt, Rat.not_lt]

theorem ltInt_fin {b : UInt64} {neg : Bool} {m : Nat} {e : Int} (h : decode b = .fin neg m e) (k : Int) :
    ltInt b k = true ↔ value neg m e < (k : Rat) := by
  unfold ltInt; rw [h]
  simp only [beq_iff_eq]
  rw [cmp_lt]

theorem gtInt_fin {b : UInt64} {neg : Bool} {m : Nat} {e : Int} (h : decode b = .fin neg m e) (k : Int) :
    gtInt b k = true ↔ (k : Rat) < value neg m e := by
  unfold gtInt; rw [h]
  simp only [beq_iff_eq]
  rw [cmp_gt]

theorem cast_pow63 : (((2 : Int) ^ 63 : Int) : Rat) = (2 : Rat) ^ 63 := by rw [Rat.intCast_pow]; rfl
theorem cast_pow64 : (((2 : Int) ^ 64 : Int) : Rat) = (2 : Rat) ^ 64 := by rw [Rat.intCast_pow]; rfl
theorem cast_neg_pow63 : ((-((2 : Int) ^ 63) : Int) : Rat) = -(2 : Rat) ^ 63 := by
  rw [Rat.intCast_neg, cast_pow63]

/-- truncation toward zero stays inside any integer interval `[lo, hi)` that contains 0 -/
theorem truncQ_bounds (x : Rat) (lo hi : Int) (hlo0 : lo ≤ 0) (hhi0 : 0 < hi)
    (hlo : (lo : Rat) ≤ x) (hhi : x < (hi : Rat)) : lo ≤ truncQ x ∧ truncQ x < hi := by
  unfold truncQ
  by_cases hx : 0 ≤ x
  · rw [if_pos hx]
    have h0 : (0 : Int) ≤ x.floor := Rat.le_floor_iff.mpr (by simpa using hx)
    exact ⟨by omega, Rat.floor_lt_iff.mpr hhi⟩
  · rw [if_neg hx, Rat.ceil_eq_neg_floor_neg]
    have h0 : (0 : Int) ≤ (-x).floor := Rat.le_floor_iff.mpr (by
      have : (0 : Rat) ≤ -x := by grind
      simpa using this)
    have h1 : (-x).floor < -lo + 1 := Rat.floor_lt_iff.mpr (by
      rw [Rat.intCast_add, Rat.intCast_neg]
      have : ((1 : Int) : Rat) = 1 := rfl
      rw [this]; grind)
    omega

/-! ## Part B — the accessors of the model -/

open Iter

theorem tag_ne : tagFloat ≠ tagInteger ∧ tagFloat ≠ tagUint ∧ tagInteger ≠ tagUint := by decide

theorem valWord_ok {pj : PJ} {i : Iter} {b : UInt64} (hoff : i.off < i.lim) (hb : pj.tape[i.off]? = some b) :
    i.valWord pj = .ok b := by
  unfold Iter.valWord Iter.rdT rd
  rw [if_neg (by omega), hb]

theorem trunc?_fin {b : UInt64} {neg : Bool} {m : Nat} {e : Int} (h : decode b = .fin neg m e) :
    trunc? b = some (truncQ (value neg m e)) := by
  unfold trunc?; rw [h]; simp only [truncFin_eq]

/-- `int64(f)` is exact truncation for `-2^63 ≤ f < 2^63`. -/
theorem cvtFloatToInt64_inrange {b : UInt64} {neg : Bool} {m : Nat} {e : Int} (h : decode b = .fin neg m e)
    (hlo : -(2 : Rat) ^ 63 ≤ value neg m e) (hhi : value neg m e < (2 : Rat) ^ 63) :
    cvtFloatToInt64 b = truncQ (value neg m e) := by
  unfold cvtFloatToInt64
  rw [trunc?_fin h]
  have := truncQ_bounds (value neg m e) (-(2 ^ 63)) (2 ^ 63) (by decide) (by decide)
    (by rw [cast_neg_pow63]; exact hlo) (by rw [cast_pow63]; exact hhi)
  simp only
  rw [if_pos this]

theorem int_float_eq {pj : PJ} {i : Iter} {b : UInt64} (ht : i.t = tagFloat) (hoff : i.off < i.lim)
    (hb : pj.tape[i.off]? = some b) :
    i.int pj = if geInt b (2 ^ 63) then .error .generic
      else if ltInt b (-(2 ^ 63)) then .error .generic else .ok (cvtFloatToInt64 b) := by
  unfold Iter.int
  rw [if_pos (by rw [ht]; rfl), valWord_ok hoff hb]
  rfl

/-- **C12 / `Int()` of a float, in range**: a finite float with `-2^63 ≤ x < 2^63` converts to
    `trunc x` exactly. -/
theorem int_of_float_inrange {pj : PJ} {i : Iter} {b : UInt64} {neg : Bool} {m : Nat} {e : Int}
    (ht : i.t = tagFloat) (hoff : i.off < i.lim) (hb : pj.tape[i.off]? = some b)
    (hd : decode b = .fin neg m e)
    (hlo : -(2 : Rat) ^ 63 ≤ value neg m e) (hhi : value neg m e < (2 : Rat) ^ 63) :
    i.int pj = .ok (truncQ (value neg m e)) := by
  rw [int_float_eq ht hoff hb]
  have h1 : ¬ geInt b (2 ^ 63) = true := by
    rw [geInt_fin hd, cast_pow63]; grind
  have h2 : ¬ ltInt b (-(2 ^ 63)) = true := by
    rw [ltInt_fin hd, cast_neg_pow63]; grind
  rw [if_neg h1, if_neg h2, cvtFloatToInt64_inrange hd hlo hhi]

/-- **C12 / `Int()` of a float, out of range**: `x < -2^63` or `x ≥ 2^63` is an error. -/
theorem int_of_float_outrange {pj : PJ} {i : Iter} {b : UInt64} {neg : Bool} {m : Nat} {e : Int}
    (ht : i.t = tagFloat) (hoff : i.off < i.lim) (hb : pj.tape[i.off]? = some b)
    (hd : decode b = .fin neg m e)
    (hout : value neg m e < -(2 : Rat) ^ 63 ∨ (2 : Rat) ^ 63 ≤ value neg m e) :
    i.int pj = .error .generic := by
  rw [int_float_eq ht hoff hb]
  by_cases h1 : geInt b (2 ^ 63) = true
  · rw [if_pos h1]
  · rw [if_neg h1]
    have h2 : ltInt b (-(2 ^ 63)) = true := by
      rw [ltInt_fin hd, cast_neg_pow63]
      rw [geInt_fin hd, cast_pow63] at h1
      grind
    rw [if_pos h2]

theorem int_of_inf {pj : PJ} {i : Iter} {b : UInt64} {neg : Bool}
    (ht : i.t = tagFloat) (hoff : i.off < i.lim) (hb : pj.tape[i.off]? = some b)
    (hd : decode b = .inf neg) : i.int pj = .error .generic := by
  rw [int_float_eq ht hoff hb]
  unfold geInt ltInt; rw [hd]
  cases neg <;> rfl

/-- NaN (never produced by the parser) is not rejected: the model returns the amd64 "integer indefinite". -/
theorem int_of_nan {pj : PJ} {i : Iter} {b : UInt64}
    (ht : i.t = tagFloat) (hoff : i.off < i.lim) (hb : pj.tape[i.off]? = some b)
    (hd : decode b = .nan) : i.int pj = .ok (-(2 ^ 63)) := by
  rw [int_float_eq ht hoff hb]
  unfold geInt ltInt cvtFloatToInt64 trunc?; rw [hd]
  rfl

theorem ofInt64_toNat (z : Int) (h0 : 0 ≤ z) (h1 : z < 2 ^ 64) : (ofInt64 z).toNat = z.toNat := by
  unfold ofInt64
  have : z % 2 ^ 64 = z := Int.emod_eq_of_lt h0 h1
  have hs : z.toNat < UInt64.size := by
    show z.toNat < 18446744073709551616
    omega
  rw [this, UInt64.toNat_ofNat_of_lt' hs]

/-- `uint64(f)` is exact truncation for `0 ≤ f < 2^64` (both branches of the amd64 sequence). -/
theorem cvtFloatToUint64_inrange {b : UInt64} {neg : Bool} {m : Nat} {e : Int} (h : decode b = .fin neg m e)
    (hlo : 0 ≤ value neg m e) (hhi : value neg m e < (2 : Rat) ^ 64) :
    cvtFloatToUint64 b = (truncQ (value neg m e)).toNat := by
  unfold cvtFloatToUint64
  by_cases hlt : ltInt b (2 ^ 63) = true
  · rw [if_pos hlt]
    rw [ltInt_fin h, cast_pow63] at hlt
    rw [cvtFloatToInt64_inrange h (by grind) hlt]
    have := truncQ_bounds (value neg m e) 0 (2 ^ 63) (by decide) (by decide)
      (by simpa using hlo) (by rw [cast_pow63]; exact hlt)
    exact ofInt64_toNat _ this.1 (by omega)
  · rw [if_neg hlt, trunc?_fin h]
    rw [ltInt_fin h, cast_pow63, Rat.not_lt] at hlt
    have hz : truncQ (value neg m e) = (value neg m e).floor := by unfold truncQ; rw [if_pos hlo]
    have h1 : (2 ^ 63 : Int) ≤ truncQ (value neg m e) := by
      rw [hz, Rat.le_floor_iff, cast_pow63]; exact hlt
    have h2 : truncQ (value neg m e) < (2 ^ 64 : Int) := by
      rw [hz, Rat.floor_lt_iff, cast_pow64]; exact hhi
    simp only
    rw [if_pos ⟨h1, h2⟩]

theorem uint_float_eq {pj : PJ} {i : Iter} {b : UInt64} (ht : i.t = tagFloat) (hoff : i.off < i.lim)
    (hb : pj.tape[i.off]? = some b) :
    i.uint pj = if geInt b (2 ^ 64) then .error .generic
      else if ltInt b 0 then .error .generic else .ok (cvtFloatToUint64 b) := by
  unfold Iter.uint
  rw [if_pos (by rw [ht]; rfl), valWord_ok hoff hb]
  rfl

theorem cast_zero : ((0 : Int) : Rat) = 0 := rfl

/-- **C12 / `Uint()` of a float, in range**: a finite float with `0 ≤ x < 2^64` (this includes `-0.0`)
    converts to `trunc x` exactly. -/
theorem uint_of_float_inrange {pj : PJ} {i : Iter} {b : UInt64} {neg : Bool} {m : Nat} {e : Int}
    (ht : i.t = tagFloat) (hoff : i.off < i.lim) (hb : pj.tape[i.off]? = some b)
    (hd : decode b = .fin neg m e)
    (hlo : 0 ≤ value neg m e) (hhi : value neg m e < (2 : Rat) ^ 64) :
    i.uint pj = .ok (truncQ (value neg m e)).toNat := by
  rw [uint_float_eq ht hoff hb]
  have h1 : ¬ geInt b (2 ^ 64) = true := by
    rw [geInt_fin hd, cast_pow64]; grind
  have h2 : ¬ ltInt b 0 = true := by
    rw [ltInt_fin hd, cast_zero]; grind
  rw [if_neg h1, if_neg h2, cvtFloatToUint64_inrange hd hlo hhi]

/-- **C12 / `Uint()` of a float, out of range**: any negative value (also in `(-1, 0)`, whose truncation
    would be 0) and any `x ≥ 2^64` is an error. -/
theorem uint_of_float_outrange {pj : PJ} {i : Iter} {b : UInt64} {neg : Bool} {m : Nat} {e : Int}
    (ht : i.t = tagFloat) (hoff : i.off < i.lim) (hb : pj.tape[i.off]? = some b)
    (hd : decode b = .fin neg m e)
    (hout : value neg m e < 0 ∨ (2 : Rat) ^ 64 ≤ value neg m e) :
    i.uint pj = .error .generic := by
  rw [uint_float_eq ht hoff hb]
  by_cases h1 : geInt b (2 ^ 64) = true
  · rw [if_pos h1]
  · rw [if_neg h1]
    have h2 : ltInt b 0 = true := by
      rw [ltInt_fin hd, cast_zero]
      rw [geInt_fin hd, cast_pow64] at h1
      grind
    rw [if_pos h2]

/-- `-0.0` is accepted by `Uint()` and gives 0. -/
theorem uint_of_neg_zero {pj : PJ} {i : Iter} {b : UInt64} {e : Int}
    (ht : i.t = tagFloat) (hoff : i.off < i.lim) (hb : pj.tape[i.off]? = some b)
    (hd : decode b = .fin true 0 e) : i.uint pj = .ok 0 := by
  have hv : value true 0 e = 0 := by
    unfold value; simp only [if_true]
    have : ((0 : Nat) : Rat) = 0 := rfl
    rw [this, Rat.neg_zero, Rat.zero_mul]
  have := uint_of_float_inrange ht hoff hb hd (by rw [hv]; exact Rat.le_refl) (by rw [hv]; decide)
  rw [this, hv]
  rfl

theorem uint_of_inf {pj : PJ} {i : Iter} {b : UInt64} {neg : Bool}
    (ht : i.t = tagFloat) (hoff : i.off < i.lim) (hb : pj.tape[i.off]? = some b)
    (hd : decode b = .inf neg) : i.uint pj = .error .generic := by
  rw [uint_float_eq ht hoff hb]
  unfold geInt ltInt; rw [hd]
  cases neg <;> rfl

/-- NaN (never produced by the parser, but `SetFloat` can store it) is not rejected: `uint64(NaN)` is the
    "indefinite" value 2^63 on amd64 (`int64(f - 2^63) | 1<<63`). -/
theorem uint_of_nan {pj : PJ} {i : Iter} {b : UInt64}
    (ht : i.t = tagFloat) (hoff : i.off < i.lim) (hb : pj.tape[i.off]? = some b)
    (hd : decode b = .nan) : i.uint pj = .ok (2^63) := by
  rw [uint_float_eq ht hoff hb]
  unfold geInt ltInt cvtFloatToUint64 trunc?; rw [hd]
  simp only [ltInt, hd]
  rfl

/-! ### integer entries -/

theorem toInt64_range (b : UInt64) : -(2 ^ 63 : Int) ≤ toInt64 b ∧ toInt64 b < 2 ^ 63 := by
  have := b.toNat_lt
  unfold toInt64; split <;> omega

theorem int_of_int {pj : PJ} {i : Iter} {b : UInt64}
    (ht : i.t = tagInteger) (hoff : i.off < i.lim) (hb : pj.tape[i.off]? = some b) :
    i.int pj = .ok (toInt64 b) := by
  unfold Iter.int
  rw [ht, if_neg (by decide), if_pos (by decide), valWord_ok hoff hb]
  rfl

theorem int_of_uint {pj : PJ} {i : Iter} {b : UInt64}
    (ht : i.t = tagUint) (hoff : i.off < i.lim) (hb : pj.tape[i.off]? = some b) :
    i.int pj = if b.toNat < 2 ^ 63 then .ok (b.toNat : Int) else .error .generic := by
  unfold Iter.int
  rw [ht, if_neg (by decide), if_neg (by decide), if_pos (by decide), valWord_ok hoff hb]
  simp only [Res.bind_ok]
  by_cases h : b.toNat < 2 ^ 63
  · rw [if_pos h, if_neg (by omega)]
  · rw [if_neg h, if_pos (by omega)]

theorem uint_of_int {pj : PJ} {i : Iter} {b : UInt64}
    (ht : i.t = tagInteger) (hoff : i.off < i.lim) (hb : pj.tape[i.off]? = some b) :
    i.uint pj = if 0 ≤ toInt64 b then .ok (toInt64 b).toNat else .error .generic := by
  unfold Iter.uint
  rw [ht, if_neg (by decide), if_pos (by decide), valWord_ok hoff hb]
  simp only [Res.bind_ok]
  have := b.toNat_lt
  by_cases h : toInt64 b < 0
  · rw [if_pos h, if_neg (by omega)]
  · rw [if_neg h, if_pos (by omega)]
    congr 1
    unfold toInt64 at h ⊢
    split at h <;> split <;> omega

theorem uint_of_uint {pj : PJ} {i : Iter} {b : UInt64}
    (ht : i.t = tagUint) (hoff : i.off < i.lim) (hb : pj.tape[i.off]? = some b) :
    i.uint pj = .ok b.toNat := by
  unfold Iter.uint
  rw [ht, if_neg (by decide), if_neg (by decide), if_pos (by decide), valWord_ok hoff hb]
  rfl

theorem int_uint_other {pj : PJ} {i : Iter}
    (h1 : i.t ≠ tagFloat) (h2 : i.t ≠ tagInteger) (h3 : i.t ≠ tagUint) :
    i.int pj = .error .generic ∧ i.uint pj = .error .generic ∧ i.float pj = .error .generic := by
  unfold Iter.int Iter.uint Iter.float
  simp [h1, h2, h3]


/-! ### `Float()` -/

/-- `f` is a finite binary64 nearest to the rational `x`; if another binary64 value is equally near,
    the mantissa of `f` is even (IEEE-754 round-to-nearest, ties-to-even). -/
def IsNearestEven (f : UInt64) (x : Rat) : Prop :=
  ∃ neg m e, decode f = .fin neg m e ∧
    (∀ (b' : UInt64) (neg' : Bool) (m' : Nat) (e' : Int), decode b' = .fin neg' m' e' →
      (value neg m e - x).abs ≤ (value neg' m' e' - x).abs) ∧
    (∀ (b' : UInt64) (neg' : Bool) (m' : Nat) (e' : Int), decode b' = .fin neg' m' e' →
      value neg' m' e' ≠ value neg m e →
      (value neg' m' e' - x).abs = (value neg m e - x).abs → m % 2 = 0)

theorem ofNat_isNearestEven (n : Nat) (hn : n < 2 ^ 64) : IsNearestEven (ofNat n) (n : Rat) := by
  obtain ⟨m, e, h⟩ := ofNat_nearest n hn
  exact ⟨false, m, e, h⟩

theorem ofInt_isNearestEven (i : Int) (hlo : -(2 ^ 63 : Int) ≤ i) (hhi : i < 2 ^ 63) :
    IsNearestEven (ofInt i) (i : Rat) := by
  obtain ⟨m, e, h⟩ := ofInt_nearest i hlo hhi
  exact ⟨_, m, e, h⟩

theorem exact_isNearestEven {f : UInt64} {neg : Bool} {m : Nat} {e : Int} (h : decode f = .fin neg m e) :
    IsNearestEven f (value neg m e) := by
  refine ⟨neg, m, e, h, ?_, ?_⟩
  · intro b' neg' m' e' _
    rw [Rat.sub_self]; exact Rat.abs_nonneg
  · intro b' neg' m' e' _ hne heq
    exfalso; apply hne
    rw [Rat.sub_self] at heq
    unfold Rat.abs at heq
    split at heq <;> grind

theorem float_of_float {pj : PJ} {i : Iter} {b : UInt64}
    (ht : i.t = tagFloat) (hoff : i.off < i.lim) (hb : pj.tape[i.off]? = some b) :
    i.float pj = .ok b := by
  unfold Iter.float
  rw [ht, if_pos (by decide), valWord_ok hoff hb]

/-- **C12 / `Float()` of an integer entry**: the correctly rounded `float64(int64)`. -/
theorem float_of_int {pj : PJ} {i : Iter} {b : UInt64}
    (ht : i.t = tagInteger) (hoff : i.off < i.lim) (hb : pj.tape[i.off]? = some b) :
    i.float pj = .ok (ofInt (toInt64 b)) ∧ IsNearestEven (ofInt (toInt64 b)) ((toInt64 b : Int) : Rat) := by
  refine ⟨?_, ofInt_isNearestEven _ (toInt64_range b).1 (toInt64_range b).2⟩
  unfold Iter.float
  rw [ht, if_neg (by decide), if_pos (by decide), valWord_ok hoff hb]
  rfl

/-- **C12 / `Float()` of an unsigned entry**: the correctly rounded `float64(uint64)`. -/
theorem float_of_uint {pj : PJ} {i : Iter} {b : UInt64}
    (ht : i.t = tagUint) (hoff : i.off < i.lim) (hb : pj.tape[i.off]? = some b) :
    i.float pj = .ok (ofNat b.toNat) ∧ IsNearestEven (ofNat b.toNat) ((b.toNat : Nat) : Rat) := by
  refine ⟨?_, ofNat_isNearestEven _ b.toNat_lt⟩
  unfold Iter.float
  rw [ht, if_neg (by decide), if_neg (by decide), if_pos (by decide), valWord_ok hoff hb]
  rfl

/-! ### one statement for all three kinds of number entries -/

/-- The number a two-word tape entry (tag `t`, value word `b`) denotes; `none` for non-numbers and for
    infinities / NaN (which the parser never writes). -/
def stored (t : UInt8) (b : UInt64) : Option Rat :=
  if t = tagFloat then (match decode b with | .fin neg m e => some (value neg m e) | _ => none)
  else if t = tagInteger then some ((toInt64 b : Int) : Rat)
  else if t = tagUint then some ((b.toNat : Nat) : Rat)
  else none

theorem truncQ_intCast (z : Int) : truncQ (z : Rat) = z := by
  unfold truncQ
  rw [Rat.ceil_eq_neg_floor_neg, ← Rat.intCast_neg, Rat.floor_intCast, Rat.floor_intCast]
  split <;> omega

theorem stored_cases {t : UInt8} {b : UInt64} {x : Rat} (h : stored t b = some x) :
    (t = tagFloat ∧ ∃ neg m e, decode b = .fin neg m e ∧ x = value neg m e) ∨
    (t = tagInteger ∧ x = ((toInt64 b : Int) : Rat)) ∨
    (t = tagUint ∧ x = ((b.toNat : Nat) : Rat)) := by
  unfold stored at h
  by_cases h1 : t = tagFloat
  · rw [if_pos h1] at h
    left; refine ⟨h1, ?_⟩
    cases hd : decode b with
    | nan => rw [hd] at h; cases h
    | inf n => rw [hd] at h; cases h
    | fin neg m e => rw [hd] at h; cases h; exact ⟨neg, m, e, rfl, rfl⟩
  · rw [if_neg h1] at h
    by_cases h2 : t = tagInteger
    · rw [if_pos h2] at h; cases h; right; left; exact ⟨h2, rfl⟩
    · rw [if_neg h2] at h
      by_cases h3 : t = tagUint
      · rw [if_pos h3] at h; cases h; right; right; exact ⟨h3, rfl⟩
      · rw [if_neg h3] at h; cases h

/-- **C12, numeric clause for `Int()`**: the entry's exact value `x` converts to `trunc x` when
    `-2^63 ≤ x < 2^63` and is an error otherwise — never a wrapped or sign-flipped number. -/
theorem int_exact {pj : PJ} {i : Iter} {b : UInt64} {x : Rat}
    (hoff : i.off < i.lim) (hb : pj.tape[i.off]? = some b) (hs : stored i.t b = some x) :
    i.int pj = if -(2 : Rat) ^ 63 ≤ x ∧ x < (2 : Rat) ^ 63 then .ok (truncQ x) else .error .generic := by
  rcases stored_cases hs with ⟨ht, neg, m, e, hd, rfl⟩ | ⟨ht, rfl⟩ | ⟨ht, rfl⟩
  · by_cases hr : -(2 : Rat) ^ 63 ≤ value neg m e ∧ value neg m e < (2 : Rat) ^ 63
    · rw [if_pos hr]; exact int_of_float_inrange ht hoff hb hd hr.1 hr.2
    · rw [if_neg hr]; exact int_of_float_outrange ht hoff hb hd (by grind)
  · rw [int_of_int ht hoff hb, truncQ_intCast, if_pos]
    obtain ⟨h1, h2⟩ := toInt64_range b
    rw [← cast_neg_pow63, ← cast_pow63]
    exact ⟨Rat.intCast_le_intCast.mpr h1, Rat.intCast_lt_intCast.mpr h2⟩
  · rw [int_of_uint ht hoff hb, ← Rat.intCast_natCast, truncQ_intCast, ← cast_neg_pow63, ← cast_pow63]
    by_cases h : b.toNat < 2 ^ 63
    · rw [if_pos h, if_pos]
      exact ⟨Rat.intCast_le_intCast.mpr (by omega), Rat.intCast_lt_intCast.mpr (by omega)⟩
    · rw [if_neg h, if_neg]
      intro hc
      have := Rat.intCast_lt_intCast.mp hc.2
      omega

/-- **C12, numeric clause for `Uint()`**: the entry's exact value `x` converts to `trunc x` when
    `0 ≤ x < 2^64` and is an error otherwise. -/
theorem uint_exact {pj : PJ} {i : Iter} {b : UInt64} {x : Rat}
    (hoff : i.off < i.lim) (hb : pj.tape[i.off]? = some b) (hs : stored i.t b = some x) :
    i.uint pj = if 0 ≤ x ∧ x < (2 : Rat) ^ 64 then .ok (truncQ x).toNat else .error .generic := by
  rcases stored_cases hs with ⟨ht, neg, m, e, hd, rfl⟩ | ⟨ht, rfl⟩ | ⟨ht, rfl⟩
  · by_cases hr : 0 ≤ value neg m e ∧ value neg m e < (2 : Rat) ^ 64
    · rw [if_pos hr]; exact uint_of_float_inrange ht hoff hb hd hr.1 hr.2
    · rw [if_neg hr]; exact uint_of_float_outrange ht hoff hb hd (by grind)
  · rw [uint_of_int ht hoff hb, truncQ_intCast, ← cast_zero, ← cast_pow64]
    obtain ⟨h1, h2⟩ := toInt64_range b
    by_cases h : 0 ≤ toInt64 b
    · rw [if_pos h, if_pos]
      exact ⟨Rat.intCast_le_intCast.mpr h, Rat.intCast_lt_intCast.mpr (by omega)⟩
    · rw [if_neg h, if_neg]
      intro hc
      exact h (Rat.intCast_le_intCast.mp hc.1)
  · rw [uint_of_uint ht hoff hb, ← Rat.intCast_natCast, truncQ_intCast, ← cast_zero, ← cast_pow64, if_pos]
    · rfl
    · have := b.toNat_lt
      exact ⟨Rat.intCast_le_intCast.mpr (by omega), Rat.intCast_lt_intCast.mpr (by omega)⟩

/-- **C12, numeric clause for `Float()`**: the result is a binary64 nearest to the entry's exact value
    (the value itself for float entries), ties to even. -/
theorem float_exact {pj : PJ} {i : Iter} {b : UInt64} {x : Rat}
    (hoff : i.off < i.lim) (hb : pj.tape[i.off]? = some b) (hs : stored i.t b = some x) :
    ∃ f, i.float pj = .ok f ∧ IsNearestEven f x := by
  rcases stored_cases hs with ⟨ht, neg, m, e, hd, rfl⟩ | ⟨ht, rfl⟩ | ⟨ht, rfl⟩
  · exact ⟨b, float_of_float ht hoff hb, exact_isNearestEven hd⟩
  · exact ⟨_, float_of_int ht hoff hb⟩
  · exact ⟨_, float_of_uint ht hoff hb⟩


/-! ## Part C — bulk accessors `AsFloat` / `AsInteger` / `AsUint64` -/

/-- The iterator plain traversal (`Advance`) holds while standing on the two-word entry whose tag word `tw`
    is at tape offset `p` of a view with limit `lim`. -/
def elemIter (lim p : Nat) (tw : UInt64) : Iter :=
  { lim := lim, off := p + 1, addNext := 1, cur := payloadOf tw, t := tagOf tw }

/-- The per-element accessor matching a bulk accessor, with the result as the raw 64-bit word the bulk
    accessor stores (`float64` bits / two's complement `int64` / `uint64`). -/
def perElem (kind : View.NumKind) (pj : PJ) (it : Iter) : Res UInt64 :=
  match kind with
  | .asFloat => it.float pj
  | .asInteger => it.int pj >>= fun z => .ok (ofInt64 z)
  | .asUint64 => it.uint pj >>= fun n => .ok (UInt64.ofNat n)

def IsNumTag (t : UInt8) : Prop := t = tagFloat ∨ t = tagInteger ∨ t = tagUint

/-- the tape holds the two-word number entries `ws` from `off` on, followed by an array-end word -/
def NumsAt (pj : PJ) : Nat → List (UInt64 × UInt64) → Prop
  | off, [] => ∃ w, pj.tape[off]? = some w ∧ tagOf w = tagArrayEnd
  | off, (tw, vw) :: rest =>
      pj.tape[off]? = some tw ∧ pj.tape[off + 1]? = some vw ∧ IsNumTag (tagOf tw) ∧ NumsAt pj (off + 2) rest

/-- what plain traversal with the per-element accessor collects (stopping at the first error) -/
def collect (kind : View.NumKind) (pj : PJ) (lim : Nat) :
    Nat → List (UInt64 × UInt64) → Array UInt64 → Res (Array UInt64)
  | _, [], acc => .ok acc
  | off, (tw, _) :: rest, acc =>
      perElem kind pj (elemIter lim off tw) >>= fun v => collect kind pj lim (off + 2) rest (acc.push v)

theorem ofInt64_toInt64 (v : UInt64) : ofInt64 (toInt64 v) = v := by
  apply UInt64.toNat_inj.mp
  have := v.toNat_lt
  unfold ofInt64 toInt64
  split
  · rw [Int.emod_eq_of_lt (by omega) (by omega)]
    exact UInt64.toNat_ofNat_of_lt' (by simpa using this)
  · have : ((v.toNat : Int) - 2 ^ 64) % 2 ^ 64 = v.toNat := by omega
    rw [this]
    exact UInt64.toNat_ofNat_of_lt' (by simpa using v.toNat_lt)

theorem ofNat_toNat (v : UInt64) : UInt64.ofNat v.toNat = v := by
  apply UInt64.toNat_inj.mp
  exact UInt64.toNat_ofNat_of_lt' v.toNat_lt

theorem toInt64_toNat {v : UInt64} (h : 0 ≤ toInt64 v) : (toInt64 v).toNat = v.toNat := by
  have := v.toNat_lt
  unfold toInt64 at h ⊢
  split at h <;> split <;> omega

theorem ofInt64_natCast (v : UInt64) : ofInt64 (v.toNat : Int) = v := by
  have := v.toNat_lt
  unfold ofInt64
  rw [Int.emod_eq_of_lt (by omega) (by omega), Int.toNat_natCast]
  exact ofNat_toNat v

theorem asNum_step (pj : PJ) (kind : View.NumKind) (a : View) (acc : Array UInt64) (fuel : Nat)
    (tw vw : UInt64) (h0 : pj.tape[a.off]? = some tw) (h1 : pj.tape[a.off + 1]? = some vw)
    (hl : a.off + 1 < a.lim) (ht : IsNumTag (tagOf tw)) :
    View.asNum pj kind a acc (fuel + 1) =
      perElem kind pj (elemIter a.lim a.off tw) >>= fun v =>
        View.asNum pj kind { a with off := a.off + 2 } (acc.push v) fuel := by
  have hoff : (elemIter a.lim a.off tw).off < (elemIter a.lim a.off tw).lim := hl
  have hb : pj.tape[(elemIter a.lim a.off tw).off]? = some vw := h1
  rw [View.asNum]
  rw [if_neg (show ¬ a.off ≥ a.lim by omega)]
  simp only [rd, h0, h1, Res.bind_ok]
  rw [if_neg (show ¬ a.lim ≤ a.off + 1 by omega)]
  simp only [Res.bind_ok]
  unfold perElem
  rcases ht with ht | ht | ht
  · have ht' : (elemIter a.lim a.off tw).t = tagFloat := ht
    rw [ht, if_pos (by decide)]
    cases kind
    · simp only [float_of_float ht' hoff hb, Res.bind_ok]
    · simp only [int_float_eq ht' hoff hb]
      split
      · rfl
      · split
        · rfl
        · rfl
    · simp only [uint_float_eq ht' hoff hb]
      split
      · rfl
      · split
        · rfl
        · rfl
  · have ht' : (elemIter a.lim a.off tw).t = tagInteger := ht
    rw [ht, if_neg (by decide), if_pos (by decide)]
    cases kind
    · simp only [(float_of_int ht' hoff hb).1, Res.bind_ok]
    · simp only [int_of_int ht' hoff hb, Res.bind_ok, ofInt64_toInt64]
    · simp only [uint_of_int ht' hoff hb]
      by_cases h : toInt64 vw < 0
      · rw [if_pos h, if_neg (by omega)]; rfl
      · rw [if_neg h, if_pos (by omega)]
        simp only [Res.bind_ok]
        rw [toInt64_toNat (by omega), ofNat_toNat]
  · have ht' : (elemIter a.lim a.off tw).t = tagUint := ht
    rw [ht, if_neg (by decide), if_neg (by decide), if_pos (by decide)]
    cases kind
    · simp only [(float_of_uint ht' hoff hb).1, Res.bind_ok]
    · simp only [int_of_uint ht' hoff hb]
      by_cases h : vw.toNat < 2 ^ 63
      · rw [if_pos h, if_neg (by omega)]
        simp only [Res.bind_ok]
        rw [ofInt64_natCast]
      · rw [if_neg h, if_pos (by omega)]; rfl
    · simp only [uint_of_uint ht' hoff hb, Res.bind_ok, ofNat_toNat]

theorem asNum_end (pj : PJ) (kind : View.NumKind) (a : View) (acc : Array UInt64) (fuel : Nat)
    (w : UInt64) (h0 : pj.tape[a.off]? = some w) (hl : a.off < a.lim) (ht : tagOf w = tagArrayEnd) :
    View.asNum pj kind a acc (fuel + 1) = .ok acc := by
  rw [View.asNum]
  rw [if_neg (show ¬ a.off ≥ a.lim by omega)]
  simp only [rd, h0, Res.bind_ok]
  rw [ht, if_neg (by decide), if_neg (by decide), if_neg (by decide), if_pos (by decide)]

/-- **C12, bulk accessors**: on a view whose remaining words are two-word number entries followed by the
    array-end word, `AsFloat` / `AsInteger` / `AsUint64` return exactly what plain traversal with the
    per-element accessor `Float()` / `Int()` / `Uint()` returns (the same values in order, or the first error). -/
theorem asNum_eq_collect (pj : PJ) (kind : View.NumKind) (ws : List (UInt64 × UInt64)) :
    ∀ (a : View) (acc : Array UInt64) (fuel : Nat),
      NumsAt pj a.off ws → a.off + 2 * ws.length < a.lim → ws.length < fuel →
      View.asNum pj kind a acc fuel = collect kind pj a.lim a.off ws acc := by
  induction ws with
  | nil =>
    intro a acc fuel hn hl hf
    obtain ⟨w, h0, ht⟩ := hn
    obtain ⟨f, rfl⟩ : ∃ f, fuel = f + 1 := ⟨fuel - 1, by simp at hf; omega⟩
    rw [asNum_end pj kind a acc f w h0 (by omega) ht]
    rfl
  | cons p rest ih =>
    intro a acc fuel hn hl hf
    obtain ⟨tw, vw⟩ := p
    obtain ⟨h0, h1, ht, hrest⟩ := hn
    simp only [List.length_cons] at hl hf
    obtain ⟨f, rfl⟩ : ∃ f, fuel = f + 1 := ⟨fuel - 1, by omega⟩
    rw [asNum_step pj kind a acc f tw vw h0 h1 (by omega) ht]
    show _ = (perElem kind pj (elemIter a.lim a.off tw) >>= fun v => collect kind pj a.lim (a.off + 2) rest (acc.push v))
    congr 1
    funext v
    exact ih { a with off := a.off + 2 } (acc.push v) f hrest (by show a.off + 2 + 2 * rest.length < a.lim; omega) (by omega)

/-! ### `elemIter` is what `Advance` produces -/

theorem advance_num (pj : PJ) (it : Iter) (p : Nat) (tw : UInt64)
    (hp : (it.off : Int) + it.addNext = p) (h0 : pj.tape[p]? = some tw) (hl : p < it.lim)
    (ht : IsNumTag (tagOf tw)) :
    it.advance pj = .ok (elemIter it.lim p tw, tagToType (tagOf tw)) := by
  unfold Iter.advance Iter.bump
  simp only [hp]
  rw [if_neg (by omega)]
  simp only [Res.bind_ok, Int.toNat_natCast]
  rw [Iter.advanceLoop, dif_neg (by omega)]
  simp only [Iter.rdT, rd, h0, Res.bind_ok]
  unfold elemIter
  rcases ht with ht | ht | ht <;> rw [ht] <;> rfl

/-- plain traversal: `Advance()` then the per-element accessor, once per entry of `ws` -/
def traverse (kind : View.NumKind) (pj : PJ) :
    Iter → List (UInt64 × UInt64) → Array UInt64 → Res (Array UInt64)
  | _, [], acc => .ok acc
  | it, _ :: rest, acc =>
      it.advance pj >>= fun r => perElem kind pj r.1 >>= fun v => traverse kind pj r.1 rest (acc.push v)

theorem traverse_eq_collect (pj : PJ) (kind : View.NumKind) (ws : List (UInt64 × UInt64)) :
    ∀ (it : Iter) (p : Nat) (acc : Array UInt64),
      (it.off : Int) + it.addNext = p → NumsAt pj p ws → p + 2 * ws.length < it.lim →
      traverse kind pj it ws acc = collect kind pj it.lim p ws acc := by
  induction ws with
  | nil => intro it p acc _ _ _; rfl
  | cons q rest ih =>
    intro it p acc hp hn hl
    obtain ⟨tw, vw⟩ := q
    obtain ⟨h0, h1, ht, hrest⟩ := hn
    simp only [List.length_cons] at hl
    unfold traverse collect
    rw [advance_num pj it p tw hp h0 (by omega) ht]
    simp only [Res.bind_ok]
    congr 1
    funext v
    exact ih (elemIter it.lim p tw) (p + 2) (acc.push v) (by show ((p + 1 : Nat) : Int) + 1 = ((p + 2 : Nat) : Int); omega)
      hrest (by show p + 2 + 2 * rest.length < it.lim; omega)

/-- **C12, bulk accessors = plain traversal**: `a.AsFloat()/AsInteger()/AsUint64()` equals iterating the
    array with `Advance()` and calling `Float()/Int()/Uint()` on each element. -/
theorem asNum_eq_traverse (pj : PJ) (kind : View.NumKind) (ws : List (UInt64 × UInt64)) (a : View)
    (acc : Array UInt64) (fuel : Nat)
    (hn : NumsAt pj a.off ws) (hl : a.off + 2 * ws.length < a.lim) (hf : ws.length < fuel) :
    View.asNum pj kind a acc fuel = traverse kind pj a.iter ws acc := by
  rw [asNum_eq_collect pj kind ws a acc fuel hn hl hf]
  exact (traverse_eq_collect pj kind ws a.iter a.off acc (by show ((a.off : Nat) : Int) + 0 = a.off; omega) hn hl).symm

/-! ### the statements with the tape word named as in the task: `b = pj.tape[i.off]`, `i.off < i.lim ≤ tape.size` -/

theorem tape_word {pj : PJ} {i : Iter} (hoff : i.off < i.lim) (hlim : i.lim ≤ pj.tape.size) :
    pj.tape[i.off]? = some (pj.tape[i.off]'(Nat.lt_of_lt_of_le hoff hlim)) :=
  Array.getElem?_eq_getElem _

theorem int_exact' {pj : PJ} {i : Iter} {x : Rat} (hoff : i.off < i.lim) (hlim : i.lim ≤ pj.tape.size)
    (hs : stored i.t (pj.tape[i.off]'(Nat.lt_of_lt_of_le hoff hlim)) = some x) :
    i.int pj = if -(2 : Rat) ^ 63 ≤ x ∧ x < (2 : Rat) ^ 63 then .ok (truncQ x) else .error .generic :=
  int_exact hoff (tape_word hoff hlim) hs

theorem uint_exact' {pj : PJ} {i : Iter} {x : Rat} (hoff : i.off < i.lim) (hlim : i.lim ≤ pj.tape.size)
    (hs : stored i.t (pj.tape[i.off]'(Nat.lt_of_lt_of_le hoff hlim)) = some x) :
    i.uint pj = if 0 ≤ x ∧ x < (2 : Rat) ^ 64 then .ok (truncQ x).toNat else .error .generic :=
  uint_exact hoff (tape_word hoff hlim) hs

theorem float_exact' {pj : PJ} {i : Iter} {x : Rat} (hoff : i.off < i.lim) (hlim : i.lim ≤ pj.tape.size)
    (hs : stored i.t (pj.tape[i.off]'(Nat.lt_of_lt_of_le hoff hlim)) = some x) :
    ∃ f, i.float pj = .ok f ∧ IsNearestEven f x :=
  float_exact hoff (tape_word hoff hlim) hs

end SJ.Numeric

