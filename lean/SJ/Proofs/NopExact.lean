import SJ.Model.NopExact
import SJ.Proofs.SerdeRT
/-
C17, last clause — "Deserialize reconstructs tapes … with NOP runs whose skip counts land exactly on the next
live entry": `nopsExact pj' = none` for every tape `pj'` obtained by deserializing a serialized well-formed
(possibly edited) tape.

Structure
  1. `Reach tp k`: the scan of `nopsExactFrom` started at word 0 arrives at word `k` with every NOP check passed
     (`reach_exact`: reaching the end of the tape means `nopsExactFrom … 0 = none`);
  2. `reach_fill`: a run `N, N-1, …, 1` of NOP words followed by a live word (or the end of the tape) extends `Reach`;
  3. `Flat T V`: the tag stream `T` / value-word stream `V` consist of the known tags with the right number of value
     words, string offsets below 2^56 and flagged-float words carrying the float tag; every coded stream
     (`SerdeRT.CodeRoots`, i.e. everything `serialize` emits for a well-formed tape) is `Flat`;
  4. the loop invariant `Inv` of `rebLoop` (the scan reaches `off`, and keeps doing so whatever is written at
     positions ≥ `off`), preserved by every successful `rebStep` on a `Flat` stream;
  5. the final flush, `deser_nops_exact`, and the companion example (the check is strictly stronger than `WF`).
-/
set_option linter.unusedSimpArgs false
set_option linter.unusedVariables false
namespace SJ.NopExact
open SJ SJ.Generated SJ.Layout SJ.Rebuild SJ.SerdeRT

-- 1. the scan as a relation --------------------------------------------------------------------------------------

/-- the skip count the scan demands of a NOP at `k` -/
def want (tp : Array UInt64) (k : Nat) : Nat :=
  if k + 1 < tp.size ∧ tagOf (tp.getD (k + 1) 0) == tagNop then (payloadOf (tp.getD (k + 1) 0)).toNat + 1 else 1

/-- the scan started at word 0 arrives at word `k`, every NOP it met being exact -/
inductive Reach (tp : Array UInt64) : Nat → Prop
  | zero : Reach tp 0
  | nop {k : Nat} : Reach tp k → k < tp.size → (tagOf (tp.getD k 0) == tagNop) = true →
      (payloadOf (tp.getD k 0)).toNat = want tp k → Reach tp (k + 1)
  | two {k : Nat} : Reach tp k → k < tp.size → (tagOf (tp.getD k 0) == tagNop) = false →
      twoWordTag (tagOf (tp.getD k 0)) = true → Reach tp (k + 2)
  | one {k : Nat} : Reach tp k → k < tp.size → (tagOf (tp.getD k 0) == tagNop) = false →
      twoWordTag (tagOf (tp.getD k 0)) = false → Reach tp (k + 1)

theorem scan_end (tp : Array UInt64) (fuel k : Nat) (h : tp.size ≤ k) : nopsExactFrom tp fuel k = none := by
  cases fuel with
  | zero => rfl
  | succ f => simp only [nopsExactFrom, ge_iff_le, h, if_true]

theorem scan_nop (tp : Array UInt64) (fuel k : Nat) (hk : k < tp.size) (ht : (tagOf (tp.getD k 0) == tagNop) = true)
    (hw : (payloadOf (tp.getD k 0)).toNat = want tp k) :
    nopsExactFrom tp (fuel + 1) k = nopsExactFrom tp fuel (k + 1) := by
  have hk' : ¬ (k ≥ tp.size) := by omega
  have hw' : ((payloadOf (tp.getD k 0)).toNat == want tp k) = true := by rw [hw]; exact beq_self_eq_true _
  unfold want at hw'
  simp only [nopsExactFrom, hk', if_false, ht, if_true, hw']

theorem scan_two (tp : Array UInt64) (fuel k : Nat) (hk : k < tp.size) (ht : (tagOf (tp.getD k 0) == tagNop) = false)
    (h2 : twoWordTag (tagOf (tp.getD k 0)) = true) :
    nopsExactFrom tp (fuel + 1) k = nopsExactFrom tp fuel (k + 2) := by
  have hk' : ¬ (k ≥ tp.size) := by omega
  simp only [nopsExactFrom, hk', if_false, ht, h2, if_true, Bool.false_eq_true]

theorem scan_one (tp : Array UInt64) (fuel k : Nat) (hk : k < tp.size) (ht : (tagOf (tp.getD k 0) == tagNop) = false)
    (h2 : twoWordTag (tagOf (tp.getD k 0)) = false) :
    nopsExactFrom tp (fuel + 1) k = nopsExactFrom tp fuel (k + 1) := by
  have hk' : ¬ (k ≥ tp.size) := by omega
  simp only [nopsExactFrom, hk', if_false, ht, h2, if_true, Bool.false_eq_true]

/-- if the scan arrives at `k` and finds nothing from `k` on, it finds nothing at all -/
theorem reach_exact {tp : Array UInt64} {k : Nat} (h : Reach tp k) :
    (∀ fuel, nopsExactFrom tp fuel k = none) → ∀ fuel, nopsExactFrom tp fuel 0 = none := by
  induction h with
  | zero => exact id
  | nop hr hk ht hw ih =>
    intro hf
    apply ih
    intro fuel
    cases fuel with
    | zero => rfl
    | succ f => rw [scan_nop tp f _ hk ht hw]; exact hf f
  | two hr hk ht h2 ih =>
    intro hf
    apply ih
    intro fuel
    cases fuel with
    | zero => rfl
    | succ f => rw [scan_two tp f _ hk ht h2]; exact hf f
  | one hr hk ht h2 ih =>
    intro hf
    apply ih
    intro fuel
    cases fuel with
    | zero => rfl
    | succ f => rw [scan_one tp f _ hk ht h2]; exact hf f

theorem reach_end {tp : Array UInt64} (h : Reach tp tp.size) (S m : Bytes) : nopsExact ⟨tp, S, m⟩ = none :=
  reach_exact h (fun fuel => scan_end tp fuel _ (Nat.le_refl _)) _

-- 2. NOP runs ------------------------------------------------------------------------------------------------------

theorem getD_of {tp : Array UInt64} {k : Nat} {w : UInt64} (h : tp[k]? = some w) : tp.getD k 0 = w := by
  simp [Array.getD_eq_getD_getElem?, h]

theorem lt_of_get {tp : Array UInt64} {k : Nat} {w : UInt64} (h : tp[k]? = some w) : k < tp.size :=
  (Array.getElem?_eq_some_iff.mp h).1

theorem nopW_tag (x : Nat) (h : x < 2^56) : (tagOf (nopW x) == tagNop) = true := by
  have hs : (UInt64.ofNat x).toNat = x := toNat_ofNat_lt (by omega)
  rw [show tagOf (nopW x) = tagNop from tagOf_mkWord _ _ (by rw [hs]; exact h)]
  rfl

theorem nopW_payload (x : Nat) (h : x < 2^56) : (payloadOf (nopW x)).toNat = x := by
  have hs : (UInt64.ofNat x).toNat = x := toNat_ofNat_lt (by omega)
  rw [show payloadOf (nopW x) = UInt64.ofNat x from payloadOf_mkWord _ _ (by rw [hs]; exact h), hs]

/-- a run `n, n-1, …, 1` of NOP words at `[k, k+n)` that is followed by a live word or by the end of the tape -/
theorem reach_fill (tp : Array UInt64) (k n : Nat) (hr : Reach tp k)
    (hfill : ∀ j, k ≤ j → j < k + n → tp[j]? = some (nopW (k + n - j)))
    (hend : ¬ (k + n < tp.size ∧ (tagOf (tp.getD (k + n) 0) == tagNop) = true)) (hs : tp.size < 2^56) :
    Reach tp (k + n) := by
  have main : ∀ i, i ≤ n → Reach tp (k + i) := by
    intro i
    induction i with
    | zero => intro _; exact hr
    | succ i ih =>
      intro hi
      have hw := hfill (k + i) (by omega) (by omega)
      have hlt := lt_of_get hw
      have hlast := lt_of_get (hfill (k + n - 1) (by omega) (by omega))
      have e0 : tp.getD (k + i) 0 = nopW (k + n - (k + i)) := getD_of hw
      suffices hp : (payloadOf (tp.getD (k + i) 0)).toNat = want tp (k + i) from
        Reach.nop (k := k + i) (ih (by omega)) hlt (by rw [e0]; exact nopW_tag _ (by omega)) hp
      rw [e0, nopW_payload _ (by omega)]
      unfold want
      by_cases hl : i + 1 < n
      · have hw1 := hfill (k + i + 1) (by omega) (by omega)
        have e1 : tp.getD (k + i + 1) 0 = nopW (k + n - (k + i + 1)) := getD_of hw1
        rw [e1, if_pos ⟨lt_of_get hw1, nopW_tag _ (by omega)⟩, nopW_payload _ (by omega)]
        omega
      · have e : k + i + 1 = k + n := by omega
        rw [e, if_neg hend]
        omega
  exact main n (Nat.le_refl _)

-- 3. one successful step of the reconstruction ----------------------------------------------------------------------

/-- the scan arrives at `k` on every tape that agrees with `tp` below `k` -/
def SReach (tp : Array UInt64) (k : Nat) : Prop :=
  ∀ tp' : Array UInt64, tp'.size = tp.size → (∀ j, j < k → tp'[j]? = tp[j]?) → Reach tp' k

/-- loop invariant of `rebLoop`: everything below `off` is final and scans without a finding -/
structure Inv (r : RebState) : Prop where
  le : r.off ≤ r.tape.size
  sz : r.tape.size < 2^56
  reach : SReach r.tape r.off

/-- effect of the dispatch of a live tag: `w` tape words, `nv` value words, nothing below `off` touched, and the word
    now at `off` is live and owns `w` words for the scan -/
structure Wrote (r1 r' : RebState) (w nv : Nat) : Prop where
  size : r'.tape.size = r1.tape.size
  off : r'.off = r1.off + w
  le : r'.off ≤ r'.tape.size
  vpos : r'.vpos = r1.vpos + 8 * nv
  frame : ∀ j, j < r1.off → r'.tape[j]? = r1.tape[j]?
  word : ∃ x, r'.tape[r1.off]? = some x ∧ (tagOf x == tagNop) = false ∧
    ((w = 1 ∧ twoWordTag (tagOf x) = false) ∨ (w = 2 ∧ twoWordTag (tagOf x) = true))

theorem inv_of_wrote {r r1 r' : RebState} {w nv : Nat} (hinv : Inv r) (hlt : r.off + r.nSkips < r.tape.size)
    (hf : Flushed r r1) (hw : Wrote r1 r' w nv) : Inv r' := by
  have h1 : r1.off = r.off + r.nSkips := hf.off
  refine ⟨hw.le, by rw [hw.size, hf.size]; exact hinv.sz, ?_⟩
  intro tp hsz hag
  have hsz' : tp.size = r.tape.size := by rw [hsz, hw.size, hf.size]
  obtain ⟨x, hx, hx1, hx2⟩ := hw.word
  have hwpos : 1 ≤ w := by rcases hx2 with ⟨h, _⟩ | ⟨h, _⟩ <;> omega
  have hxt : tp[r1.off]? = some x := by rw [hag _ (by rw [hw.off]; omega)]; exact hx
  have ex : tp.getD r1.off 0 = x := getD_of hxt
  have hxlt : r1.off < tp.size := lt_of_get hxt
  -- below `r.off`: the invariant
  have r0 : Reach tp r.off := hinv.reach tp hsz' (fun j hj => by
    rw [hag j (by rw [hw.off]; omega), hw.frame j (by omega), hf.frame j (Or.inl hj)])
  -- the flushed run
  have r1' : Reach tp (r.off + r.nSkips) := by
    refine reach_fill tp r.off r.nSkips r0 (fun j a b => ?_) ?_ (by rw [hsz']; exact hinv.sz)
    · rw [hag j (by rw [hw.off]; omega), hw.frame j (by omega), hf.fill j a (by omega), h1]
    · rw [← h1, ex, hx1]
      simp
  rw [← h1] at r1'
  rw [hw.off]
  rcases hx2 with ⟨rfl, h2⟩ | ⟨rfl, h2⟩
  · exact Reach.one r1' hxlt (by rw [ex]; exact hx1) (by rw [ex]; exact h2)
  · exact Reach.two r1' hxlt (by rw [ex]; exact hx1) (by rw [ex]; exact h2)

/-- a successful step on a live tag: the owed skips fit, are flushed, then the tag is dispatched -/
theorem step_inv (vals : Bytes) (r : RebState) (t : UInt8) (r' : RebState) (hle : r.off ≤ r.tape.size)
    (ht : t ≠ tagNop) (h : rebStep vals r t = .ok r') :
    r.off + r.nSkips < r.tape.size ∧ ∃ r1, Flushed r r1 ∧ dispatch vals t r1 = .ok r' := by
  by_cases hlt : r.off + r.nSkips < r.tape.size
  · obtain ⟨r1, hf, e1⟩ := flush_step vals r t (notNop_of ht) hlt
    exact ⟨hlt, r1, hf, by rw [← e1]; exact h⟩
  · exfalso
    rw [rebStep_eq] at h
    by_cases he : r.off = r.tape.size
    · have : (r.off == r.tape.size) = true := by simp [he]
      rw [this, if_pos rfl] at h
      cases h
    · have hne : (r.off == r.tape.size) = false := by simp [he]
      rw [hne] at h
      simp only [Bool.false_eq_true, if_false] at h
      have c1 : r.nSkips > 0 ∧ (!(inCase (caseOfSw swDeserialize 1 0) t)) = true := ⟨by omega, by simp [notNop_of ht]⟩
      unfold flushPhase at h
      rw [if_pos c1, if_pos (by omega)] at h
      cases h

theorem step_nop (vals : Bytes) (r r' : RebState) (hle : r.off ≤ r.tape.size) (h : rebStep vals r tagNop = .ok r') :
    r' = { r with nSkips := r.nSkips + 1 } := by
  by_cases he : r.off = r.tape.size
  · rw [rebStep_eq] at h
    have : (r.off == r.tape.size) = true := by simp [he]
    rw [this, if_pos rfl] at h
    cases h
  · rw [rebStep_nop vals r (by omega)] at h
    cases h
    rfl

-- the dispatch of each live tag, read off a successful run ----------------------------------------------------------

theorem two_guard (vals : Bytes) (t : UInt8) (r r' : RebState) (h2 : inCase (caseOfSw swDeserialize 0 0) t = true)
    (hd : dispatch vals t r = .ok r') : r.off + 1 < r.tape.size := by
  by_cases hg : r.off + 1 < r.tape.size
  · exact hg
  · exfalso
    have hc : inCase (caseOfSw swDeserialize 0 0) t = true ∧ r.off + 1 ≥ r.tape.size := ⟨h2, by omega⟩
    unfold dispatch at hd
    simp only [] at hd
    rw [if_pos hc] at hd
    cases hd

theorem wrote_atom (vals : Bytes) (r1 r' : RebState) (t : UInt8) (hc : t = tagNull ∨ t = tagBoolTrue ∨ t = tagBoolFalse)
    (h0 : r1.off < r1.tape.size) (hd : dispatch vals t r1 = .ok r') : Wrote r1 r' 1 0 := by
  obtain ⟨r'', e, ha, hw⟩ := dispatch_atom vals r1 t hc h0
  rw [e] at hd
  cases hd
  refine ⟨ha.size, ha.off, by rw [ha.off, ha.size]; omega, ha.vpos, fun j hj => by rw [hw j, if_neg (by omega)],
    mkWord t 0, by rw [hw, if_pos rfl], ?_, Or.inl ⟨rfl, ?_⟩⟩
  · rw [tagOf_mkWord0]; rcases hc with rfl | rfl | rfl <;> decide
  · rw [tagOf_mkWord0]; rcases hc with rfl | rfl | rfl <;> decide

theorem wrote_num (vals : Bytes) (r1 r' : RebState) (t : UInt8) (hc : t = tagFloat ∨ t = tagInteger ∨ t = tagUint)
    (hv : r1.vpos + 8 ≤ vals.size) (hd : dispatch vals t r1 = .ok r') : Wrote r1 r' 2 1 := by
  have hg := two_guard vals t r1 r' (by rcases hc with rfl | rfl | rfl <;> decide) hd
  obtain ⟨r'', e, ha, hw⟩ := dispatch_num vals r1 t hc hg hv
  rw [e] at hd
  cases hd
  refine ⟨ha.size, ha.off, by rw [ha.off, ha.size]; omega, ha.vpos,
    fun j hj => by rw [hw j, if_neg (by omega), if_neg (by omega)],
    mkWord t 0, by rw [hw, if_neg (by omega), if_pos rfl], ?_, Or.inr ⟨rfl, ?_⟩⟩
  · rw [tagOf_mkWord0]; rcases hc with rfl | rfl | rfl <;> decide
  · rw [tagOf_mkWord0]; rcases hc with rfl | rfl | rfl <;> decide

theorem wrote_str (vals : Bytes) (r1 r' : RebState) (hv : r1.vpos + 16 ≤ vals.size)
    (hx : (rdLE64 vals r1.vpos).toNat < 2^56) (hd : dispatch vals tagString r1 = .ok r') : Wrote r1 r' 2 2 := by
  have hg := two_guard vals tagString r1 r' (by decide) hd
  obtain ⟨r'', e, ha, hw⟩ := dispatch_str vals r1 hg hv
  rw [e] at hd
  cases hd
  refine ⟨ha.size, ha.off, by rw [ha.off, ha.size]; omega, ha.vpos,
    fun j hj => by rw [hw j, if_neg (by omega), if_neg (by omega)],
    mkWord tagString (rdLE64 vals r1.vpos), by rw [hw, if_neg (by omega), if_pos rfl], ?_, Or.inr ⟨rfl, ?_⟩⟩
  · rw [tagOf_mkWord _ _ hx]; decide
  · rw [tagOf_mkWord _ _ hx]; decide

theorem wrote_fflag (vals : Bytes) (r1 r' : RebState) (hv : r1.vpos + 16 ≤ vals.size)
    (hx : tagOf (rdLE64 vals r1.vpos) = tagFloat) (hd : dispatch vals tagFloatWithFlag r1 = .ok r') : Wrote r1 r' 2 2 := by
  have hg := two_guard vals tagFloatWithFlag r1 r' (by decide) hd
  obtain ⟨r'', e, ha, hw⟩ := dispatch_fflag vals r1 hg hv
  rw [e] at hd
  cases hd
  refine ⟨ha.size, ha.off, by rw [ha.off, ha.size]; omega, ha.vpos,
    fun j hj => by rw [hw j, if_neg (by omega), if_neg (by omega)],
    rdLE64 vals r1.vpos, by rw [hw, if_neg (by omega), if_pos rfl], ?_, Or.inr ⟨rfl, ?_⟩⟩
  · rw [hx]; decide
  · rw [hx]; decide

theorem open_guard (vals : Bytes) (t : UInt8) (r r' : RebState) (hc : t = tagObjectStart ∨ t = tagArrayStart)
    (hd : dispatch vals t r = .ok r') :
    (rdLE64 vals r.vpos + UInt64.ofNat r.off).toNat ≤ r.tape.size ∧
      r.off + 2 ≤ (rdLE64 vals r.vpos + UInt64.ofNat r.off).toNat := by
  rcases hc with rfl | rfl <;>
  · unfold dispatch at hd
    simp (decide := true) only [if_false, if_true, false_and, and_false] at hd
    split at hd
    · cases hd
    · split at hd
      · cases hd
      · omega

theorem root_guard (vals : Bytes) (r r' : RebState) (hd : dispatch vals tagRoot r = .ok r') :
    (rdLE64 vals r.vpos + UInt64.ofNat r.off).toNat ≤ r.tape.size := by
  unfold dispatch at hd
  simp (decide := true) only [if_false, if_true, false_and, and_false] at hd
  split at hd
  · cases hd
  · split at hd
    · cases hd
    · omega

theorem wrote_open (vals : Bytes) (r1 r' : RebState) (t : UInt8) (hc : t = tagObjectStart ∨ t = tagArrayStart)
    (hv : r1.vpos + 8 ≤ vals.size) (hs : r1.tape.size < 2^56) (hd : dispatch vals t r1 = .ok r') : Wrote r1 r' 1 1 := by
  obtain ⟨g1, g2⟩ := open_guard vals t r1 r' hc hd
  generalize hval : rdLE64 vals r1.vpos + UInt64.ofNat r1.off = val at g1 g2
  obtain ⟨c, hcc⟩ : ∃ c, t = tagObjectStart ∧ c = tagObjectEnd ∨ t = tagArrayStart ∧ c = tagArrayEnd := by
    rcases hc with rfl | rfl
    · exact ⟨tagObjectEnd, Or.inl ⟨rfl, rfl⟩⟩
    · exact ⟨tagArrayEnd, Or.inr ⟨rfl, rfl⟩⟩
  obtain ⟨r'', e, ha, hw⟩ := dispatch_open vals r1 t c val.toNat hcc hv (by rw [hval, UInt64.ofNat_toNat]) g1 g2 (by omega)
  rw [e] at hd
  cases hd
  have hx : (UInt64.ofNat val.toNat).toNat < 2^56 := by rw [UInt64.ofNat_toNat]; omega
  refine ⟨ha.size, ha.off, by rw [ha.off, ha.size]; omega, ha.vpos,
    fun j hj => by rw [hw j, if_neg (by omega), if_neg (by omega)],
    mkWord t (UInt64.ofNat val.toNat), by rw [hw, if_neg (by omega), if_pos rfl], ?_, Or.inl ⟨rfl, ?_⟩⟩
  · rw [tagOf_mkWord _ _ hx]; rcases hc with rfl | rfl <;> decide
  · rw [tagOf_mkWord _ _ hx]; rcases hc with rfl | rfl <;> decide

theorem wrote_root (vals : Bytes) (r1 r' : RebState) (h0 : r1.off < r1.tape.size)
    (hv : r1.vpos + 8 ≤ vals.size) (hs : r1.tape.size < 2^56) (hd : dispatch vals tagRoot r1 = .ok r') : Wrote r1 r' 1 1 := by
  have g1 := root_guard vals r1 r' hd
  generalize hval : rdLE64 vals r1.vpos + UInt64.ofNat r1.off = val at g1
  obtain ⟨r'', e, ha, hw⟩ := dispatch_root vals r1 val.toNat hv (by rw [hval, UInt64.ofNat_toNat]) g1 h0 (by omega)
  rw [e] at hd
  cases hd
  have hx : (UInt64.ofNat val.toNat).toNat < 2^56 := by rw [UInt64.ofNat_toNat]; omega
  refine ⟨ha.size, ha.off, by rw [ha.off, ha.size]; omega, ha.vpos,
    fun j hj => by rw [hw j, if_neg (by omega)],
    mkWord tagRoot (UInt64.ofNat val.toNat), by rw [hw, if_pos rfl], ?_, Or.inl ⟨rfl, ?_⟩⟩
  · rw [tagOf_mkWord _ _ hx]; decide
  · rw [tagOf_mkWord _ _ hx]; decide

/-- the tag check of the `}` / `]` case identifies the tag of the word -/
theorem tag_of_mask (w : UInt64) (t : UInt8) (h : w &&& wJSONTAGMASK = t.toUInt64 <<< 56) : tagOf w = t := by
  apply UInt8.toNat_inj.mp
  rw [tagOf_toNat]
  have h' := congrArg UInt64.toNat h
  rw [tagmask_toNat, ← mkWord_zero, mkWord_toNat t 0 (by decide)] at h'
  have : (0 : UInt64).toNat = 0 := rfl
  omega

theorem wrote_close (vals : Bytes) (r1 r' : RebState) (c : UInt8) (hc : c = tagObjectEnd ∨ c = tagArrayEnd)
    (h0 : r1.off < r1.tape.size) (hd : dispatch vals c r1 = .ok r') : Wrote r1 r' 1 0 := by
  have key : (r1.tape[r1.off] &&& wJSONTAGMASK = c.toUInt64 <<< 56) ∧ r' = { r1 with off := r1.off + 1 } := by
    rcases hc with rfl | rfl <;>
    · unfold dispatch at hd
      simp (decide := true) only [rd_ok _ _ h0, Res.bind_ok, if_false, if_true, false_and, and_false] at hd
      split at hd
      · cases hd
      · next hm =>
        cases hd
        exact ⟨by simpa using hm, rfl⟩
  obtain ⟨hm, rfl⟩ := key
  have ht := tag_of_mask _ _ hm
  refine ⟨rfl, rfl, by show r1.off + 1 ≤ r1.tape.size; omega, rfl, fun j hj => rfl,
    r1.tape[r1.off], by show r1.tape[r1.off]? = _; exact Array.getElem?_eq_getElem h0, ?_, Or.inl ⟨rfl, ?_⟩⟩
  · rw [ht]; rcases hc with rfl | rfl <;> decide
  · rw [ht]; rcases hc with rfl | rfl <;> decide

end SJ.NopExact
